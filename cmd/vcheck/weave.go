package main

import (
	"bytes"
	"fmt"
	"go/ast"
	"go/format"
	"go/parser"
	"go/token"
	"strconv"
	"strings"
)

const rtPath = modPath + "/internal/verifrt/"

// importRewrites maps a rewrite name to (standard import path, shim path, name).
var importRewrites = map[string][3]string{
	"sync":   {"sync", rtPath + "vsync", "sync"},
	"atomic": {"sync/atomic", rtPath + "vatomic", "atomic"},
	"time":   {"time", rtPath + "vtime", "time"},
	"os":     {"os", rtPath + "vos", "os"},
	"sql":    {"database/sql", rtPath + "vsql", "sql"},
	// memoised Argon2id (same function, cached by password+salt+parameters)
	"argon2": {"golang.org/x/crypto/argon2", rtPath + "vargon2", "argon2"},
}

// weave rewrites one source file. Rewrites: sync, atomic, time, os, sql
// (import redirection to a shim that keeps the standard package name) and
// "go" (go statements become vsched.Go calls, arguments evaluated at the
// statement as Go does).
func weave(src []byte, rewrites []string) ([]byte, bool, error) {
	fset := token.NewFileSet()

	f, err := parser.ParseFile(fset, "x.go", src, parser.ParseComments)
	if err != nil {
		return nil, false, err
	}

	changed := false
	want := map[string]bool{}

	for _, r := range rewrites {
		want[r] = true
	}

	for _, imp := range f.Imports {
		p, _ := strconv.Unquote(imp.Path.Value)

		for name, r := range importRewrites {
			if want[name] && p == r[0] {
				imp.Path.Value = strconv.Quote(r[1])
				if imp.Name == nil {
					imp.Name = ast.NewIdent(r[2])
				}

				changed = true
			}
		}
	}

	if want["go"] {
		n := 0

		ast.Inspect(f, func(node ast.Node) bool {
			switch b := node.(type) {
			case *ast.BlockStmt:
				n += rewriteGoList(b.List)
			case *ast.CaseClause:
				n += rewriteGoList(b.Body)
			case *ast.CommClause:
				n += rewriteGoList(b.Body)
			case *ast.LabeledStmt:
				if g, ok := b.Stmt.(*ast.GoStmt); ok {
					b.Stmt = goReplacement(g)
					n++
				}
			}

			return true
		})

		if n > 0 {
			changed = true

			addImport(f, "vsched", rtPath+"vsched")
		}
	}

	if want["chan"] {
		if rewriteChans(f) {
			changed = true

			addImport(f, "vchan", rtPath+"vchan")
		}
	}

	if !changed {
		return src, false, nil
	}

	var buf bytes.Buffer
	if err := format.Node(&buf, fset, f); err != nil {
		return nil, false, err
	}

	return buf.Bytes(), true, nil
}

func addImport(f *ast.File, name, path string) {
	spec := &ast.ImportSpec{Name: ast.NewIdent(name), Path: &ast.BasicLit{Kind: token.STRING, Value: strconv.Quote(path)}}
	decl := &ast.GenDecl{Tok: token.IMPORT, Specs: []ast.Spec{spec}}
	f.Decls = append([]ast.Decl{decl}, f.Decls...)
	f.Imports = append(f.Imports, spec)
}

func rewriteGoList(list []ast.Stmt) int {
	n := 0

	for i, s := range list {
		if g, ok := s.(*ast.GoStmt); ok {
			list[i] = goReplacement(g)
			n++
		}
	}

	return n
}

func isLiteralArg(e ast.Expr) bool {
	switch v := e.(type) {
	case *ast.BasicLit:
		return true
	case *ast.Ident:
		return v.Name == "nil" || v.Name == "true" || v.Name == "false"
	}

	return false
}

// goReplacement turns `go f(a, b)` into
//
//	{ _vf, _v0, _v1 := f, a, b; vsched.Go(func() { _vf(_v0, _v1) }) }
//
// so that the function value and its arguments are evaluated by the spawning
// goroutine, exactly as the go statement does.
func goReplacement(g *ast.GoStmt) ast.Stmt {
	call := g.Call

	var lhs, rhs []ast.Expr

	newCall := &ast.CallExpr{Ellipsis: call.Ellipsis}

	if fl, ok := call.Fun.(*ast.FuncLit); ok {
		newCall.Fun = fl
	} else if id, ok := call.Fun.(*ast.Ident); ok {
		newCall.Fun = id // a plain function name: nothing to evaluate
	} else {
		lhs = append(lhs, ast.NewIdent("_vf"))
		rhs = append(rhs, call.Fun)
		newCall.Fun = ast.NewIdent("_vf")
	}

	for i, a := range call.Args {
		if isLiteralArg(a) {
			newCall.Args = append(newCall.Args, a)

			continue
		}

		name := fmt.Sprintf("_v%d", i)
		lhs = append(lhs, ast.NewIdent(name))
		rhs = append(rhs, a)
		newCall.Args = append(newCall.Args, ast.NewIdent(name))
	}

	spawn := &ast.ExprStmt{X: &ast.CallExpr{
		Fun: &ast.SelectorExpr{X: ast.NewIdent("vsched"), Sel: ast.NewIdent("GoWoven")},
		Args: []ast.Expr{&ast.FuncLit{
			Type: &ast.FuncType{Params: &ast.FieldList{}},
			Body: &ast.BlockStmt{List: []ast.Stmt{&ast.ExprStmt{X: newCall}}},
		}},
	}}

	if len(lhs) == 0 {
		return spawn
	}

	return &ast.BlockStmt{List: []ast.Stmt{
		&ast.AssignStmt{Lhs: lhs, Tok: token.DEFINE, Rhs: rhs},
		spawn,
	}}
}

// rehome rewrites a `package main` file into an importable package.
func rehome(src []byte, pkg string, rewrites []string) ([]byte, error) {
	out, _, err := weave(src, rewrites)
	if err != nil {
		return nil, err
	}

	s := string(out)
	if i := strings.Index(s, "\npackage main"); i >= 0 {
		s = s[:i] + "\npackage " + pkg + s[i+len("\npackage main"):]
	} else if strings.HasPrefix(s, "package main") {
		s = "package " + pkg + s[len("package main"):]
	} else {
		return nil, fmt.Errorf("no package main clause")
	}

	return []byte(s), nil
}

// rewriteChans turns the operations on `chan any` values of one file into
// calls on the scheduler-visible *vchan.Chan: the channel type, make, send,
// receive (one- and two-value), len, cap and close. It is written for
// data/channel.go, whose only channels are `chan any` struct fields.
func rewriteChans(f *ast.File) bool {
	changed := false

	isChanAny := func(e ast.Expr) bool {
		c, ok := e.(*ast.ChanType)
		if !ok {
			return false
		}

		id, ok := c.Value.(*ast.Ident)

		return ok && (id.Name == "any")
	}

	vtype := func() ast.Expr {
		return &ast.StarExpr{X: &ast.SelectorExpr{X: ast.NewIdent("vchan"), Sel: ast.NewIdent("Chan")}}
	}

	method := func(x ast.Expr, name string, args ...ast.Expr) *ast.CallExpr {
		return &ast.CallExpr{Fun: &ast.SelectorExpr{X: x, Sel: ast.NewIdent(name)}, Args: args}
	}

	isChanField := func(e ast.Expr) bool {
		sel, ok := e.(*ast.SelectorExpr)

		return ok && sel.Sel.Name == "channel"
	}

	var fixExpr func(e ast.Expr, two bool) ast.Expr

	fixExpr = func(e ast.Expr, two bool) ast.Expr {
		switch v := e.(type) {
		case *ast.UnaryExpr:
			if v.Op == token.ARROW && isChanField(v.X) {
				changed = true

				if two {
					return method(v.X, "Recv2")
				}

				return method(v.X, "Recv")
			}
		case *ast.CallExpr:
			if id, ok := v.Fun.(*ast.Ident); ok && len(v.Args) >= 1 {
				switch {
				case id.Name == "make" && isChanAny(v.Args[0]):
					changed = true
					size := ast.Expr(&ast.BasicLit{Kind: token.INT, Value: "0"})

					if len(v.Args) > 1 {
						size = v.Args[1]
					}

					return &ast.CallExpr{Fun: &ast.SelectorExpr{X: ast.NewIdent("vchan"), Sel: ast.NewIdent("Make")}, Args: []ast.Expr{size}}
				case (id.Name == "len" || id.Name == "cap") && isChanField(v.Args[0]):
					changed = true

					return method(v.Args[0], strings.Title(id.Name))
				case id.Name == "close" && isChanField(v.Args[0]):
					changed = true

					return method(v.Args[0], "Close")
				}
			}
		}

		return e
	}

	ast.Inspect(f, func(n ast.Node) bool {
		switch v := n.(type) {
		case *ast.Field:
			if isChanAny(v.Type) {
				v.Type = vtype()
				changed = true
			}
		case *ast.AssignStmt:
			for i, r := range v.Rhs {
				v.Rhs[i] = fixExpr(r, len(v.Lhs) == 2 && len(v.Rhs) == 1)
			}
		case *ast.KeyValueExpr:
			v.Value = fixExpr(v.Value, false)
		case *ast.BinaryExpr:
			v.X = fixExpr(v.X, false)
			v.Y = fixExpr(v.Y, false)
		case *ast.ReturnStmt:
			for i, r := range v.Results {
				v.Results[i] = fixExpr(r, false)
			}
		case *ast.CallExpr:
			for i, a := range v.Args {
				v.Args[i] = fixExpr(a, false)
			}
		case *ast.ExprStmt:
			v.X = fixExpr(v.X, false)
		case *ast.BlockStmt:
			for i, st := range v.List {
				if snd, ok := st.(*ast.SendStmt); ok && isChanField(snd.Chan) {
					v.List[i] = &ast.ExprStmt{X: method(snd.Chan, "Send", snd.Value)}
					changed = true
				}
			}
		}

		return true
	})

	return changed
}

#!/bin/bash
# selftest.sh [ID...] : applies every mutations/<ID>-*.patch (builder's own
# property-breaking changes) and every seeded/<ID>*/patch.diff (independent
# sub-agents' changes) in a scratch worktree of /repo and requires the check to
# report it (exit 1). Prints one line per patch and a summary; /repo is never
# touched. Results are appended to selftest.log.
cd "$(dirname "$0")"
ids="$*"
pass=0; fail=0
run_one() {
  patch=$1; id=$2
  out=$(VERIF_TIMEOUT=${VERIF_TIMEOUT:-2400s} tools/mutate.sh "$patch" "$id" 2>&1 | tail -1)
  case "$out" in
    *"exit 1") echo "DETECTED  $id $patch"; return 0;;
    *) echo "MISSED    $id $patch ($out)"; return 1;;
  esac
}
for p in mutations/*.patch seeded/*/patch.diff; do
  [ -f "$p" ] || continue
  case "$p" in
    mutations/*) id=$(basename "$p" | sed 's/-.*//');;
    seeded/*) id=$(basename "$(dirname "$p")" | sed 's/-.*//');;
  esac
  if [ -n "$ids" ] && ! echo " $ids " | grep -q " $id "; then continue; fi
  grep -qw "$id" checks/READY || { echo "SKIPPED   $id $p (check not registered)"; continue; }
  if run_one "$p" "$id"; then pass=$((pass+1)); else fail=$((fail+1)); fi
done | tee -a selftest.log
echo "selftest finished"

module verif.local

go 1.23

// Package egobatch runs Ego source through the real command line front end for
// the language-level checks, either in batch worker processes (main.go's
// app.New(...).Run(grammar, args) repeated once per job inside one process, so
// that a job costs milliseconds instead of a process start) or in a fresh
// `ego` process (used to confirm a disagreement before it is reported).
//
// A harness using the pool must call WorkerMain() first thing in main() when
// os.Args[1] == "worker".
package egobatch

import (
	"bufio"
	"encoding/json"
	"fmt"
	"os"
	"os/exec"
	"path/filepath"
	"sync"
	"sync/atomic"
	"syscall"
	"time"

	"github.com/tucats/ego/internal/cli/app"
	"github.com/tucats/ego/internal/commands"
	"github.com/tucats/ego/internal/grammar/class"
	"github.com/tucats/ego/internal/language/bytecode"
)

type job struct {
	Args []string `json:"args"` // command line after the program name, e.g. ["run","-o","0","x.ego"]
	Out  string   `json:"out"`  // file that receives stdout+stderr of the job
}

type jobResult struct {
	Err     string `json:"err"`
	Runaway bool   `json:"runaway"`
	Instr   int64  `json:"instr"`
}

// RunawayBudget is the instruction budget of one job in a worker. The jobs of
// the checks execute a few thousand instructions; one that needs more than
// this is not going to finish. The count is the VM's own instruction counter,
// not a clock.
const RunawayBudget = 400_000_000

// WorkerMain is the body of a batch worker process: it reads jobs (JSON lines)
// on stdin, runs each through the ego command line grammar with stdout and
// stderr redirected to the job's output file, and answers on fd 3.
func WorkerMain() {
	proto := os.NewFile(3, "proto")
	if proto == nil {
		os.Exit(4)
	}

	enc := json.NewEncoder(proto)
	sc := bufio.NewScanner(os.Stdin)
	sc.Buffer(make([]byte, 1<<16), 1<<22)

	var (
		active atomic.Bool
		start  atomic.Int64
	)

	go func() {
		for {
			time.Sleep(200 * time.Millisecond)

			if active.Load() && atomic.LoadInt64(&bytecode.InstructionsExecuted)-start.Load() > RunawayBudget {
				_ = enc.Encode(jobResult{Runaway: true, Instr: atomic.LoadInt64(&bytecode.InstructionsExecuted) - start.Load()})

				os.Exit(3)
			}
		}
	}()

	for sc.Scan() {
		var j job
		if err := json.Unmarshal(sc.Bytes(), &j); err != nil {
			os.Exit(4)
		}

		f, err := os.Create(j.Out)
		if err != nil {
			os.Exit(4)
		}

		so, _ := syscall.Dup(1)
		se, _ := syscall.Dup(2)
		_ = syscall.Dup2(int(f.Fd()), 1)
		_ = syscall.Dup2(int(f.Fd()), 2)

		start.Store(atomic.LoadInt64(&bytecode.InstructionsExecuted))
		active.Store(true)

		a := app.New("ego: verif batch").SetVersion(1, 0, 0).SetCopyright("-").SetDefaultAction(commands.RunAction).SetProfileDirectory(".ego")
		rerr := a.Run(class.MainGrammar, append([]string{"ego"}, j.Args...))

		active.Store(false)

		_ = syscall.Dup2(so, 1)
		_ = syscall.Dup2(se, 2)
		_ = syscall.Close(so)
		_ = syscall.Close(se)
		_ = f.Close()

		res := jobResult{Instr: atomic.LoadInt64(&bytecode.InstructionsExecuted) - start.Load()}
		if rerr != nil {
			res.Err = rerr.Error()
			if res.Err == "" {
				res.Err = "error"
			}
		}

		if err := enc.Encode(res); err != nil {
			os.Exit(4)
		}
	}
}

type worker struct {
	id    int
	cmd   *exec.Cmd
	in    *bufio.Writer
	inC   interface{ Close() error }
	proto *bufio.Scanner
	pr    *os.File
}

// Pool is a set of batch workers.
type Pool struct {
	scratch string
	free    chan *worker
	n       int
	deaths  atomic.Int64
	seq     atomic.Int64
}

func (p *Pool) spawn(id int) (*worker, error) {
	home := filepath.Join(p.scratch, fmt.Sprintf("whome%d", id))
	_ = os.MkdirAll(home, 0o755)

	pr, pw, err := os.Pipe()
	if err != nil {
		return nil, err
	}

	cmd := exec.Command(os.Args[0], "worker")
	cmd.Env = append(os.Environ(), "HOME="+home, "GOMAXPROCS=2")
	cmd.Dir = p.scratch
	cmd.Stdout = os.Stderr
	cmd.Stderr = os.Stderr
	cmd.ExtraFiles = []*os.File{pw}

	in, err := cmd.StdinPipe()
	if err != nil {
		return nil, err
	}

	if err := cmd.Start(); err != nil {
		return nil, err
	}

	_ = pw.Close()

	sc := bufio.NewScanner(pr)
	sc.Buffer(make([]byte, 1<<16), 1<<20)

	return &worker{id: id, cmd: cmd, in: bufio.NewWriter(in), inC: in, proto: sc, pr: pr}, nil
}

// NewPool starts n workers; every worker has its own HOME under scratch.
func NewPool(scratch string, n int) (*Pool, error) {
	p := &Pool{scratch: scratch, free: make(chan *worker, n), n: n}

	for i := 0; i < n; i++ {
		w, err := p.spawn(i)
		if err != nil {
			return nil, err
		}

		p.free <- w
	}

	return p, nil
}

func (w *worker) kill() {
	_ = w.inC.Close()
	_ = w.cmd.Process.Kill()
	_, _ = w.cmd.Process.Wait()
	_ = w.pr.Close()
}

// Close stops the workers.
func (p *Pool) Close() {
	for i := 0; i < p.n; i++ {
		w := <-p.free
		_ = w.inC.Close()
		_ = w.cmd.Wait()
		_ = w.pr.Close()
	}
}

// Restarts is the number of workers that had to be replaced.
func (p *Pool) Restarts() int64 { return p.deaths.Load() }

// Result is what one job produced.
type Result struct {
	Out     string // stdout and stderr, interleaved as written
	Err     string // non-empty: the command ended with an error status
	Died    bool   // worker died / ran away / watchdog: no verdict can be taken from this run
	Why     string
	Runaway bool // the job exceeded RunawayBudget instructions (deterministic, not a clock)
}

// watchdog of a single job; only a harness safety net, never a verdict.
const jobWatchdog = 300 * time.Second

// Run executes `ego <args...>` in a batch worker.
func (p *Pool) Run(args ...string) (Result, error) {
	w := <-p.free
	out := filepath.Join(p.scratch, fmt.Sprintf("job%d.out", p.seq.Add(1)))
	b, _ := json.Marshal(job{Args: args, Out: out})

	type answer struct {
		res jobResult
		ok  bool
	}

	ch := make(chan answer, 1)

	go func() {
		_, _ = w.in.Write(append(b, '\n'))
		_ = w.in.Flush()

		if w.proto.Scan() {
			var r jobResult
			if json.Unmarshal(w.proto.Bytes(), &r) == nil {
				ch <- answer{r, true}

				return
			}
		}

		ch <- answer{ok: false}
	}()

	var a answer

	hung := false

	select {
	case a = <-ch:
	case <-time.After(jobWatchdog):
		hung = true
	}

	defer os.Remove(out)

	if hung || !a.ok || a.res.Runaway {
		w.kill()
		p.deaths.Add(1)

		nw, err := p.spawn(w.id)
		if err != nil {
			return Result{}, fmt.Errorf("cannot restart worker: %v", err)
		}

		p.free <- nw

		ob, _ := os.ReadFile(out)
		why := "worker died"

		if hung {
			why = "worker watchdog"
		} else if a.res.Runaway {
			why = fmt.Sprintf("more than %d instructions", RunawayBudget)
		}

		return Result{Out: string(ob), Died: true, Why: why, Runaway: a.ok && a.res.Runaway}, nil
	}

	p.free <- w

	ob, _ := os.ReadFile(out)

	return Result{Out: string(ob), Err: a.res.Err}, nil
}

var (
	freshSeq atomic.Int64
	freshSem = make(chan struct{}, 6)
)

// Fresh runs `$VERIF_EGO <args...>` in a new process with its own HOME.
func Fresh(scratch string, args ...string) (Result, error) {
	freshSem <- struct{}{}

	defer func() { <-freshSem }()

	ego := os.Getenv("VERIF_EGO")
	if ego == "" {
		return Result{}, fmt.Errorf("VERIF_EGO is not set (the check config needs \"ego\": true)")
	}

	home := filepath.Join(scratch, fmt.Sprintf("fhome%d", freshSeq.Add(1)))
	_ = os.MkdirAll(home, 0o755)

	defer os.RemoveAll(home)

	cmd := exec.Command(ego, args...)
	cmd.Env = append(os.Environ(), "HOME="+home)
	cmd.Dir = scratch

	var (
		mu  sync.Mutex
		buf []byte
	)

	pr, pw, err := os.Pipe()
	if err != nil {
		return Result{}, err
	}

	cmd.Stdout = pw
	cmd.Stderr = pw

	if err := cmd.Start(); err != nil {
		return Result{}, fmt.Errorf("cannot start %s: %v", ego, err)
	}

	_ = pw.Close()

	done := make(chan struct{})

	go func() {
		tmp := make([]byte, 65536)

		for {
			n, err := pr.Read(tmp)

			mu.Lock()
			if len(buf) < 4<<20 {
				buf = append(buf, tmp[:n]...)
			}
			mu.Unlock()

			if err != nil {
				break
			}
		}

		close(done)
	}()

	werr := make(chan error, 1)

	go func() { werr <- cmd.Wait() }()

	select {
	case err := <-werr:
		<-done
		_ = pr.Close()

		res := Result{Out: string(buf)}
		if err != nil {
			res.Err = err.Error()
		}

		return res, nil
	case <-time.After(180 * time.Second):
		_ = cmd.Process.Kill()
		<-werr
		_ = pr.Close()

		mu.Lock()
		defer mu.Unlock()

		return Result{Out: string(buf), Died: true, Why: "fresh process watchdog (180s)"}, nil
	}
}

// Package sql (import path .../verifrt/vsql) replaces the standard
// database/sql package in woven code (internal/server/tables/database for C14).
// Every type is an alias of the standard one, so a *sql.DB made here is the
// *sql.DB every unwoven package expects. Only Open differs: while a capture
// hook is installed (VerifSetHook), Open returns a real *sql.DB whose
// connections are wrapped by a pass-through driver connection that reports
// the exact text (and bound arguments) of every statement that reaches the
// driver, and every Begin/Commit/Rollback/Close. The wrapped connection is the
// real driver connection (modernc.org/sqlite, lib/pq): nothing is simulated,
// rewritten or reordered. With no hook installed Open is the standard Open.
//
// The package keeps the standard package *name* and re-exports every exported
// identifier of database/sql so that a mutated source file still compiles.
package sql

import (
	"context"
	"database/sql/driver"
	"errors"
	"io"
	"sync"

	gosql "database/sql"
)

// ---- plain re-exports -------------------------------------------------------

type (
	ColumnType     = gosql.ColumnType
	Conn           = gosql.Conn
	DB             = gosql.DB
	DBStats        = gosql.DBStats
	IsolationLevel = gosql.IsolationLevel
	NamedArg       = gosql.NamedArg
	Null[T any]    = gosql.Null[T]
	NullBool       = gosql.NullBool
	NullByte       = gosql.NullByte
	NullFloat64    = gosql.NullFloat64
	NullInt16      = gosql.NullInt16
	NullInt32      = gosql.NullInt32
	NullInt64      = gosql.NullInt64
	NullString     = gosql.NullString
	NullTime       = gosql.NullTime
	Out            = gosql.Out
	RawBytes       = gosql.RawBytes
	Result         = gosql.Result
	Row            = gosql.Row
	Rows           = gosql.Rows
	Scanner        = gosql.Scanner
	Stmt           = gosql.Stmt
	Tx             = gosql.Tx
	TxOptions      = gosql.TxOptions
)

const (
	LevelDefault         = gosql.LevelDefault
	LevelReadUncommitted = gosql.LevelReadUncommitted
	LevelReadCommitted   = gosql.LevelReadCommitted
	LevelWriteCommitted  = gosql.LevelWriteCommitted
	LevelRepeatableRead  = gosql.LevelRepeatableRead
	LevelSnapshot        = gosql.LevelSnapshot
	LevelSerializable    = gosql.LevelSerializable
	LevelLinearizable    = gosql.LevelLinearizable
)

var (
	ErrConnDone = gosql.ErrConnDone
	ErrNoRows   = gosql.ErrNoRows
	ErrTxDone   = gosql.ErrTxDone
)

func Drivers() []string                     { return gosql.Drivers() }
func Register(name string, d driver.Driver) { gosql.Register(name, d) }
func OpenDB(c driver.Connector) *DB         { return gosql.OpenDB(c) }
func Named(name string, value any) NamedArg { return gosql.Named(name, value) }

// ---- capture ----------------------------------------------------------------

// VerifEvent is one thing that reached the driver.
type VerifEvent struct {
	Kind   string         // open exec query prepare stmt-exec stmt-query begin commit rollback close
	Driver string         // driver name given to Open
	DSN    string         // data source name given to Open
	SQL    string         // exact statement text (exec, query, prepare, stmt-*)
	Args   []driver.Value // bound arguments, after database/sql's conversion
	Err    string         // error text returned by the driver, "" if none
}

var (
	mu    sync.Mutex
	hook  func(VerifEvent)
	opens []*DB
	live  = map[*conn]bool{}
)

// VerifSetHook installs (or, with nil, removes) the capture hook. Databases
// opened while a hook is installed stay captured for their whole life; the
// hook installed at the time of an event receives it. The hook is called on
// the goroutine that runs the statement, before the statement's result is
// handed back to database/sql.
func VerifSetHook(f func(VerifEvent)) {
	mu.Lock()
	hook = f
	mu.Unlock()
}

func emit(ev VerifEvent) {
	mu.Lock()
	f := hook
	mu.Unlock()

	if f != nil {
		f(ev)
	}
}

// VerifCloseAll closes every captured database opened since the last call and
// returns how many there were. Handlers that forget to close a handle would
// otherwise pin the database file of the previous case.
func VerifCloseAll() int {
	mu.Lock()
	list := opens
	opens = nil
	mu.Unlock()

	for _, db := range list {
		_ = db.Close()
	}

	// A connection pinned by a transaction that was never ended survives
	// DB.Close; close the driver connection itself (the engine rolls back).
	mu.Lock()
	rest := make([]*conn, 0, len(live))
	for c := range live {
		rest = append(rest, c)
	}
	mu.Unlock()

	for _, c := range rest {
		_ = c.Close()
	}

	return len(list)
}

// Open is database/sql.Open; with a hook installed the returned database
// reports what reaches the driver.
func Open(driverName, dataSourceName string) (*DB, error) {
	mu.Lock()
	capture := hook != nil
	mu.Unlock()

	if !capture {
		return gosql.Open(driverName, dataSourceName)
	}

	// database/sql offers no lookup of a registered driver by name other than
	// through a handle: Open does not connect, so this costs nothing.
	probe, err := gosql.Open(driverName, dataSourceName)
	if err != nil {
		return nil, err
	}

	drv := probe.Driver()
	_ = probe.Close()

	db := gosql.OpenDB(&connector{drv: drv, name: driverName, dsn: dataSourceName})

	mu.Lock()
	opens = append(opens, db)
	mu.Unlock()

	emit(VerifEvent{Kind: "open", Driver: driverName, DSN: dataSourceName})

	return db, nil
}

type connector struct {
	drv  driver.Driver
	name string
	dsn  string
}

func (c *connector) Driver() driver.Driver { return c.drv }

func (c *connector) Connect(ctx context.Context) (driver.Conn, error) {
	var (
		inner driver.Conn
		err   error
	)

	if dc, ok := c.drv.(driver.DriverContext); ok {
		var cn driver.Connector

		cn, err = dc.OpenConnector(c.dsn)
		if err == nil {
			inner, err = cn.Connect(ctx)
		}
	} else {
		inner, err = c.drv.Open(c.dsn)
	}

	if err != nil {
		return nil, err
	}

	w := &conn{inner: inner, c: c}

	mu.Lock()
	live[w] = true
	mu.Unlock()

	return w, nil
}

func errText(err error) string {
	if err == nil || errors.Is(err, driver.ErrSkip) {
		return ""
	}

	return err.Error()
}

func values(args []driver.NamedValue) []driver.Value {
	out := make([]driver.Value, len(args))
	for i, a := range args {
		out[i] = a.Value
	}

	return out
}

func named(args []driver.Value) []driver.NamedValue {
	out := make([]driver.NamedValue, len(args))
	for i, a := range args {
		out[i] = driver.NamedValue{Ordinal: i + 1, Value: a}
	}

	return out
}

type conn struct {
	inner driver.Conn
	c     *connector
}

func (c *conn) ev(kind, q string, args []driver.Value, err error) {
	emit(VerifEvent{Kind: kind, Driver: c.c.name, DSN: c.c.dsn, SQL: q, Args: args, Err: errText(err)})
}

func (c *conn) Prepare(q string) (driver.Stmt, error) {
	s, err := c.inner.Prepare(q)
	c.ev("prepare", q, nil, err)

	if err != nil {
		return nil, err
	}

	return &stmt{inner: s, c: c, q: q}, nil
}

func (c *conn) PrepareContext(ctx context.Context, q string) (driver.Stmt, error) {
	var (
		s   driver.Stmt
		err error
	)

	if p, ok := c.inner.(driver.ConnPrepareContext); ok {
		s, err = p.PrepareContext(ctx, q)
	} else {
		s, err = c.inner.Prepare(q)
	}

	c.ev("prepare", q, nil, err)

	if err != nil {
		return nil, err
	}

	return &stmt{inner: s, c: c, q: q}, nil
}

func (c *conn) Close() error {
	mu.Lock()
	open := live[c]
	delete(live, c)
	mu.Unlock()

	if !open {
		return nil
	}

	err := c.inner.Close()
	c.ev("close", "", nil, err)

	return err
}

func (c *conn) Begin() (driver.Tx, error) { //nolint:staticcheck
	t, err := c.inner.Begin() //nolint:staticcheck
	c.ev("begin", "", nil, err)

	if err != nil {
		return nil, err
	}

	return &tx{inner: t, c: c}, nil
}

func (c *conn) BeginTx(ctx context.Context, opts driver.TxOptions) (driver.Tx, error) {
	var (
		t   driver.Tx
		err error
	)

	if b, ok := c.inner.(driver.ConnBeginTx); ok {
		t, err = b.BeginTx(ctx, opts)
	} else {
		t, err = c.inner.Begin() //nolint:staticcheck
	}

	c.ev("begin", "", nil, err)

	if err != nil {
		return nil, err
	}

	return &tx{inner: t, c: c}, nil
}

func (c *conn) ExecContext(ctx context.Context, q string, args []driver.NamedValue) (driver.Result, error) {
	if e, ok := c.inner.(driver.ExecerContext); ok {
		r, err := e.ExecContext(ctx, q, args)
		if !errors.Is(err, driver.ErrSkip) {
			c.ev("exec", q, values(args), err)
		}

		return r, err
	}

	if e, ok := c.inner.(driver.Execer); ok { //nolint:staticcheck
		r, err := e.Exec(q, values(args))
		if !errors.Is(err, driver.ErrSkip) {
			c.ev("exec", q, values(args), err)
		}

		return r, err
	}

	return nil, driver.ErrSkip
}

func (c *conn) QueryContext(ctx context.Context, q string, args []driver.NamedValue) (driver.Rows, error) {
	if e, ok := c.inner.(driver.QueryerContext); ok {
		r, err := e.QueryContext(ctx, q, args)
		if !errors.Is(err, driver.ErrSkip) {
			c.ev("query", q, values(args), err)
		}

		return r, err
	}

	if e, ok := c.inner.(driver.Queryer); ok { //nolint:staticcheck
		r, err := e.Query(q, values(args))
		if !errors.Is(err, driver.ErrSkip) {
			c.ev("query", q, values(args), err)
		}

		return r, err
	}

	return nil, driver.ErrSkip
}

func (c *conn) Ping(ctx context.Context) error {
	if p, ok := c.inner.(driver.Pinger); ok {
		return p.Ping(ctx)
	}

	return nil
}

func (c *conn) ResetSession(ctx context.Context) error {
	if p, ok := c.inner.(driver.SessionResetter); ok {
		return p.ResetSession(ctx)
	}

	return nil
}

func (c *conn) IsValid() bool {
	if p, ok := c.inner.(driver.Validator); ok {
		return p.IsValid()
	}

	return true
}

// Neither modernc.org/sqlite nor lib/pq implements driver.NamedValueChecker or
// driver.ColumnConverter, so the wrappers do not either: argument conversion
// takes database/sql's default path exactly as it does without the shim.

type tx struct {
	inner driver.Tx
	c     *conn
}

func (t *tx) Commit() error {
	err := t.inner.Commit()
	t.c.ev("commit", "", nil, err)

	return err
}

func (t *tx) Rollback() error {
	err := t.inner.Rollback()
	t.c.ev("rollback", "", nil, err)

	return err
}

type stmt struct {
	inner driver.Stmt
	c     *conn
	q     string
}

func (s *stmt) Close() error  { return s.inner.Close() }
func (s *stmt) NumInput() int { return s.inner.NumInput() }

func (s *stmt) Exec(args []driver.Value) (driver.Result, error) { //nolint:staticcheck
	r, err := s.inner.Exec(args) //nolint:staticcheck
	s.c.ev("stmt-exec", s.q, args, err)

	return r, err
}

func (s *stmt) Query(args []driver.Value) (driver.Rows, error) { //nolint:staticcheck
	r, err := s.inner.Query(args) //nolint:staticcheck
	s.c.ev("stmt-query", s.q, args, err)

	return r, err
}

func (s *stmt) ExecContext(ctx context.Context, args []driver.NamedValue) (driver.Result, error) {
	if e, ok := s.inner.(driver.StmtExecContext); ok {
		r, err := e.ExecContext(ctx, args)
		s.c.ev("stmt-exec", s.q, values(args), err)

		return r, err
	}

	return s.Exec(values(args))
}

func (s *stmt) QueryContext(ctx context.Context, args []driver.NamedValue) (driver.Rows, error) {
	if e, ok := s.inner.(driver.StmtQueryContext); ok {
		r, err := e.QueryContext(ctx, args)
		s.c.ev("stmt-query", s.q, values(args), err)

		return r, err
	}

	return s.Query(values(args))
}

var (
	_ driver.Conn               = (*conn)(nil)
	_ driver.ConnBeginTx        = (*conn)(nil)
	_ driver.ConnPrepareContext = (*conn)(nil)
	_ driver.ExecerContext      = (*conn)(nil)
	_ driver.QueryerContext     = (*conn)(nil)
	_ driver.Pinger             = (*conn)(nil)
	_ driver.SessionResetter    = (*conn)(nil)
	_ driver.Validator          = (*conn)(nil)
	_ driver.StmtExecContext    = (*stmt)(nil)
	_ driver.StmtQueryContext   = (*stmt)(nil)
	_ io.Closer                 = (*conn)(nil)
	_                           = named
)

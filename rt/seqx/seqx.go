// Package seqx is the explicit-state engine: breadth-first search over event
// histories of the REAL implementation. A state is the history that reaches it;
// the successor of a state is obtained by building a fresh instance, replaying
// the history and applying one more event. After every event the harness's
// Step compares the implementation's answer with its reference model. States
// are deduplicated on a canonical key (implementation dump + model state).
package seqx

// Spec describes one search.
type Spec[E any] struct {
	Events   []E
	MaxDepth int
	MaxStates int // cap (0 = none); hitting it makes the run non-exhaustive
	// Fresh builds a fresh implementation instance and a fresh model.
	Fresh func()
	// Step applies e to implementation and model and compares; a non-empty
	// cell reports a violation (msg explains). last is true for the newest
	// event of the history (earlier ones are replays of explored transitions).
	Step func(e E, last bool) (cell, msg string)
	// Key returns the canonical key of the current state.
	Key func() string
	// Enabled optionally filters events in the current state.
	Enabled func(e E) bool
	// Violation receives each violation with the history that produced it.
	Violation func(hist []E, cell, msg string)
	// Wrap optionally runs one whole history execution inside a controlled
	// environment (e.g. vsched.Run); it must call body exactly once.
	Wrap func(body func())
	// Stop optionally ends exploration below a state after a violation there.
	StopAtViolation bool
	// Roots, when set, replaces the empty history as the initial frontier
	// (sharding: a parent explores to depth k, workers continue from disjoint
	// parts of that frontier; MaxDepth then counts events beyond the roots).
	Roots [][]E
	// Frontier, when set, receives the histories of the states first reached
	// at the last depth (what a sharding parent hands to its workers).
	Frontier func(hists [][]E)
}

// Stats of a finished search.
type Stats struct {
	States      int
	Transitions int
	Depth       int
	Capped      bool
	PerDepth    []int
}

// Run explores breadth-first to MaxDepth.
func Run[E any](sp Spec[E]) Stats {
	st := Stats{}
	seen := map[string]struct{}{}

	exec := func(hist []E, e *E) (key string, ok bool) {
		body := func() {
			sp.Fresh()

			for i := range hist {
				_, _ = sp.Step(hist[i], false)
			}

			ok = true

			if e != nil {
				if sp.Enabled != nil && !sp.Enabled(*e) {
					ok = false

					return
				}

				cell, msg := sp.Step(*e, true)
				if cell != "" {
					h := append(append([]E(nil), hist...), *e)
					sp.Violation(h, cell, msg)

					if sp.StopAtViolation {
						ok = false

						return
					}
				}
			}

			key = sp.Key()
		}

		if sp.Wrap != nil {
			sp.Wrap(body)
		} else {
			body()
		}

		return key, ok
	}

	frontier := [][]E{nil}
	if sp.Roots != nil {
		frontier = sp.Roots
	}

	for _, h := range frontier {
		k0, _ := exec(h, nil)
		if _, dup := seen[k0]; !dup {
			seen[k0] = struct{}{}
			st.States++
		}
	}

	st.PerDepth = append(st.PerDepth, st.States)

	for depth := 1; depth <= sp.MaxDepth && len(frontier) > 0; depth++ {
		var next [][]E

		for _, h := range frontier {
			for i := range sp.Events {
				e := sp.Events[i]

				key, ok := exec(h, &e)
				if !ok {
					continue
				}

				st.Transitions++

				if _, dup := seen[key]; dup {
					continue
				}

				if sp.MaxStates > 0 && st.States >= sp.MaxStates {
					st.Capped = true

					continue
				}

				seen[key] = struct{}{}
				st.States++
				next = append(next, append(append([]E(nil), h...), e))
			}
		}

		st.Depth = depth
		st.PerDepth = append(st.PerDepth, len(next))
		frontier = next
	}

	if sp.Frontier != nil {
		sp.Frontier(frontier)
	}

	return st
}

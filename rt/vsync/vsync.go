// Package sync (import path .../verifrt/vsync) replaces the standard sync
// package in woven code. Its package *name* stays "sync" because the Ego VM
// dispatches native methods from reflect type strings ("*sync.Mutex").
// Under an active vsched scheduler the primitives are modelled (one managed
// thread runs at a time, Lock/Wait block through the scheduler, every operation
// is a scheduling point); with no scheduler they delegate to the real ones.
package sync

import (
	gosync "sync"

	"github.com/tucats/ego/internal/verifrt/vsched"
)

type (
	Pool   = gosync.Pool
	Locker = gosync.Locker
)

// Map is sync.Map whose operations are scheduling points under the scheduler:
// code that keeps state in a sync.Map next to a lock (the interpreter's mutex
// bookkeeping does) has windows between the lock operation and the map
// operation that only show if the map operation is a point of its own.
type Map struct{ m gosync.Map }

func (m *Map) point(kind string) {
	if s := vsched.Cur(); s != nil {
		s.Point("Mutex.Map."+kind, m)
	}
}

func (m *Map) Load(key any) (any, bool)            { m.point("Load"); return m.m.Load(key) }
func (m *Map) Store(key, value any)                { m.point("Store"); m.m.Store(key, value) }
func (m *Map) Delete(key any)                      { m.point("Delete"); m.m.Delete(key) }
func (m *Map) Clear()                              { m.point("Clear"); m.m.Clear() }
func (m *Map) Range(f func(key, value any) bool)   { m.point("Range"); m.m.Range(f) }
func (m *Map) Swap(key, value any) (any, bool)     { m.point("Swap"); return m.m.Swap(key, value) }
func (m *Map) LoadOrStore(key, value any) (any, bool) {
	m.point("LoadOrStore")

	return m.m.LoadOrStore(key, value)
}
func (m *Map) LoadAndDelete(key any) (any, bool) { m.point("LoadAndDelete"); return m.m.LoadAndDelete(key) }
func (m *Map) CompareAndSwap(key, old, new any) bool {
	m.point("CompareAndSwap")

	return m.m.CompareAndSwap(key, old, new)
}
func (m *Map) CompareAndDelete(key, old any) bool {
	m.point("CompareAndDelete")

	return m.m.CompareAndDelete(key, old)
}

// OnOp, when set by a harness, observes every modelled operation.
var OnOp func(kind string, obj any)

func note(kind string, obj any) {
	if OnOp != nil {
		OnOp(kind, obj)
	}
}

// Mutex is a scheduler-visible mutual exclusion lock.
type Mutex struct {
	real   gosync.Mutex
	locked bool
}

func (m *Mutex) Lock() {
	if s := vsched.Cur(); s != nil {
		s.Point("Mutex.Lock", m)
		s.Block("Mutex.Lock", func() bool { return !m.locked })
		m.locked = true
		note("Mutex.Lock", m)

		return
	}

	m.real.Lock()
}

func (m *Mutex) TryLock() bool {
	if s := vsched.Cur(); s != nil {
		s.Point("Mutex.TryLock", m)

		if m.locked {
			return false
		}

		m.locked = true

		return true
	}

	return m.real.TryLock()
}

func (m *Mutex) Unlock() {
	if m.locked {
		m.locked = false

		if s := vsched.Cur(); s != nil {
			// A release is not a scheduling point: switching after it is the
			// same as switching before the thread's next acquire.
			_ = s
			note("Mutex.Unlock", m)
		}

		return
	}

	if vsched.Active() {
		panic("sync: unlock of unlocked mutex (modelled)")
	}

	m.real.Unlock()
}

// RWMutex is a scheduler-visible reader/writer lock.
type RWMutex struct {
	real    gosync.RWMutex
	writer  bool
	readers int
}

func (m *RWMutex) Lock() {
	if s := vsched.Cur(); s != nil {
		s.Point("RWMutex.Lock", m)
		s.Block("RWMutex.Lock", func() bool { return !m.writer && m.readers == 0 })
		m.writer = true
		note("RWMutex.Lock", m)

		return
	}

	m.real.Lock()
}

func (m *RWMutex) TryLock() bool {
	if s := vsched.Cur(); s != nil {
		s.Point("RWMutex.TryLock", m)

		if m.writer || m.readers > 0 {
			return false
		}

		m.writer = true

		return true
	}

	return m.real.TryLock()
}

func (m *RWMutex) Unlock() {
	if m.writer {
		m.writer = false

		if s := vsched.Cur(); s != nil {
			// A release is not a scheduling point: switching after it is the
			// same as switching before the thread's next acquire.
			_ = s
			note("RWMutex.Unlock", m)
		}

		return
	}

	if vsched.Active() {
		panic("sync: Unlock of unlocked RWMutex (modelled)")
	}

	m.real.Unlock()
}

func (m *RWMutex) RLock() {
	if s := vsched.Cur(); s != nil {
		s.Point("RWMutex.RLock", m)
		s.Block("RWMutex.RLock", func() bool { return !m.writer })
		m.readers++
		note("RWMutex.RLock", m)

		return
	}

	m.real.RLock()
}

func (m *RWMutex) TryRLock() bool {
	if s := vsched.Cur(); s != nil {
		s.Point("RWMutex.TryRLock", m)

		if m.writer {
			return false
		}

		m.readers++

		return true
	}

	return m.real.TryRLock()
}

func (m *RWMutex) RUnlock() {
	if m.readers > 0 {
		m.readers--

		if s := vsched.Cur(); s != nil {
			// A release is not a scheduling point: switching after it is the
			// same as switching before the thread's next acquire.
			_ = s
			note("RWMutex.RUnlock", m)
		}

		return
	}

	if vsched.Active() {
		panic("sync: RUnlock of unlocked RWMutex (modelled)")
	}

	m.real.RUnlock()
}

func (m *RWMutex) RLocker() Locker { return (*rlocker)(m) }

type rlocker RWMutex

func (r *rlocker) Lock()   { (*RWMutex)(r).RLock() }
func (r *rlocker) Unlock() { (*RWMutex)(r).RUnlock() }

// WaitGroup is a scheduler-visible wait group.
type WaitGroup struct {
	real gosync.WaitGroup
	n    int
	virt bool
}

func (w *WaitGroup) Add(delta int) {
	if s := vsched.Cur(); s != nil {
		w.virt = true
		w.n += delta

		if w.n < 0 {
			panic("sync: negative WaitGroup counter")
		}

		_ = s
		note("WaitGroup.Add", w)

		return
	}

	if w.virt {
		w.n += delta

		return
	}

	w.real.Add(delta)
}

func (w *WaitGroup) Done() { w.Add(-1) }

func (w *WaitGroup) Go(f func()) {
	w.Add(1)
	vsched.Go(func() {
		defer w.Done()
		f()
	})
}

func (w *WaitGroup) Wait() {
	if s := vsched.Cur(); s != nil {
		s.Point("WaitGroup.Wait", w)
		s.Block("WaitGroup.Wait", func() bool { return w.n == 0 })
		note("WaitGroup.Wait", w)

		return
	}

	if w.virt {
		return
	}

	w.real.Wait()
}

// Once is a scheduler-visible once. In pass-through mode it is exactly the
// real sync.Once (no field of the shim is touched, so the race detector sees
// only the code under test); under the scheduler it is modelled, and a Once
// completed there is completed for the real one too.
type Once struct {
	real    gosync.Once
	done    bool
	running bool
}

func (o *Once) Do(f func()) {
	s := vsched.Cur()
	if s == nil {
		o.real.Do(f)

		return
	}

	s.Point("Once.Do", o)

	if o.done {
		return
	}

	if o.running {
		s.Block("Once.Do", func() bool { return o.done })

		return
	}

	o.running = true

	defer func() {
		o.done = true
		o.running = false

		o.real.Do(func() {})
	}()

	ran := false

	o.real.Do(func() {
		ran = true

		f()
	})

	_ = ran
}

// OnceFunc, OnceValue and OnceValues keep their standard meaning.
func OnceFunc(f func()) func() {
	var o Once

	return func() { o.Do(f) }
}

func OnceValue[T any](f func() T) func() T {
	var (
		o Once
		v T
	)

	return func() T {
		o.Do(func() { v = f() })

		return v
	}
}

func OnceValues[T1, T2 any](f func() (T1, T2)) func() (T1, T2) {
	var (
		o  Once
		v1 T1
		v2 T2
	)

	return func() (T1, T2) {
		o.Do(func() { v1, v2 = f() })

		return v1, v2
	}
}

// Cond delegates to the real implementation (not used by woven code today).
type Cond = gosync.Cond

func NewCond(l Locker) *Cond { return gosync.NewCond(l) }

// Package argon2 (import path .../verifrt/vargon2) is golang.org/x/crypto/argon2
// with IDKey memoised: the same function, but a repeated derivation for the
// same (password, salt, parameters) is answered from a table. Exhaustive
// searches replay one token thousands of times; the 40 ms derivation would
// otherwise dominate. Behaviour is unchanged.
package argon2

import (
	"fmt"
	"sync"

	real "golang.org/x/crypto/argon2"
)

const Version = real.Version

var memo sync.Map

func IDKey(password, salt []byte, time, memory uint32, threads uint8, keyLen uint32) []byte {
	k := fmt.Sprintf("%x|%x|%d|%d|%d|%d", password, salt, time, memory, threads, keyLen)
	if v, ok := memo.Load(k); ok {
		return append([]byte(nil), v.([]byte)...)
	}

	out := real.IDKey(password, salt, time, memory, threads, keyLen)
	memo.Store(k, append([]byte(nil), out...))

	return out
}

func Key(password, salt []byte, time, memory uint32, threads uint8, keyLen uint32) []byte {
	return real.Key(password, salt, time, memory, threads, keyLen)
}

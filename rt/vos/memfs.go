package os

import (
	"errors"
	"io"
	"io/fs"
	"path/filepath"
	"sort"
	"strconv"
	"strings"
	"sync"
	"syscall"
	"time"
)

// The in-memory file system: a flat map from cleaned path to content and mode
// bits. Every directory is taken to exist. Hard links share the entry. It is
// deliberately tiny: enough for the read / create-temp / write / chmod /
// rename / remove vocabulary of the woven tools.

type memFile struct {
	data []byte
	mode FileMode
}

var mem struct {
	sync.Mutex
	on    bool
	files map[string]*memFile
	seq   int
}

// VerifMemFS switches the in-memory file system on (empty) or off.
func VerifMemFS(on bool) {
	mem.Lock()
	mem.on, mem.files, mem.seq = on, map[string]*memFile{}, 0
	mem.Unlock()
}

func memOn() bool {
	mem.Lock()
	defer mem.Unlock()

	return mem.on
}

// VerifMemPut stores a file without passing a crash point (harness side).
func VerifMemPut(path string, data []byte, mode FileMode) {
	mem.Lock()
	mem.files[filepath.Clean(path)] = &memFile{data: append([]byte(nil), data...), mode: mode.Perm()}
	mem.Unlock()
}

// VerifMemGet reads a file without passing a crash point (harness side).
func VerifMemGet(path string) ([]byte, bool) {
	mem.Lock()
	defer mem.Unlock()

	f, ok := mem.files[filepath.Clean(path)]
	if !ok {
		return nil, false
	}

	return append([]byte{}, f.data...), true
}

// VerifMemMode returns the mode bits of an in-memory file (harness side).
func VerifMemMode(path string) (FileMode, bool) {
	mem.Lock()
	defer mem.Unlock()

	f, ok := mem.files[filepath.Clean(path)]
	if !ok {
		return 0, false
	}

	return f.mode, true
}

// VerifMemList returns the sorted paths of all in-memory files.
func VerifMemList() []string {
	mem.Lock()
	defer mem.Unlock()

	out := make([]string, 0, len(mem.files))
	for p := range mem.files {
		out = append(out, p)
	}

	sort.Strings(out)

	return out
}

// VerifMemClear removes every in-memory file.
func VerifMemClear() {
	mem.Lock()
	mem.files = map[string]*memFile{}
	mem.Unlock()
}

func errMem(op, path string) error {
	return &fs.PathError{Op: op, Path: path, Err: errors.New("not supported by the verif in-memory file system")}
}

func notExist(op, path string) error {
	return &fs.PathError{Op: op, Path: path, Err: syscall.ENOENT}
}

type memHandle struct {
	path   string
	file   *memFile
	off    int
	flag   int
	closed bool
}

func memOpen(name string, flag int, perm FileMode) (*memHandle, error) {
	p := filepath.Clean(name)

	mem.Lock()
	defer mem.Unlock()

	f, ok := mem.files[p]

	switch {
	case !ok && flag&O_CREATE == 0:
		return nil, notExist("open", name)
	case ok && flag&O_CREATE != 0 && flag&O_EXCL != 0:
		return nil, &fs.PathError{Op: "open", Path: name, Err: syscall.EEXIST}
	case !ok:
		f = &memFile{mode: perm.Perm()}
		mem.files[p] = f
	}

	if flag&O_TRUNC != 0 {
		f.data = nil
	}

	return &memHandle{path: name, file: f, flag: flag}, nil
}

func memCreateTemp(dir, pattern string) (*memHandle, error) {
	prefix, suffix := pattern, ""
	if i := strings.LastIndex(pattern, "*"); i >= 0 {
		prefix, suffix = pattern[:i], pattern[i+1:]
	}

	for {
		mem.Lock()
		mem.seq++
		name := filepath.Join(dir, prefix+strconv.Itoa(1000000+mem.seq)+suffix)
		mem.Unlock()

		h, err := memOpen(name, O_RDWR|O_CREATE|O_EXCL, 0o600)
		if err == nil {
			return h, nil
		}
	}
}

func (h *memHandle) write(b []byte) (int, error) {
	mem.Lock()
	defer mem.Unlock()

	if h.closed || h.flag&(O_WRONLY|O_RDWR) == 0 {
		return 0, &fs.PathError{Op: "write", Path: h.path, Err: syscall.EBADF}
	}

	if h.flag&O_APPEND != 0 {
		h.off = len(h.file.data)
	}

	for len(h.file.data) < h.off {
		h.file.data = append(h.file.data, 0)
	}

	n := copy(h.file.data[h.off:], b)
	h.file.data = append(h.file.data, b[n:]...)
	h.off += len(b)

	return len(b), nil
}

func (h *memHandle) read(b []byte) (int, error) {
	mem.Lock()
	defer mem.Unlock()

	if h.closed || h.flag&O_WRONLY != 0 {
		return 0, &fs.PathError{Op: "read", Path: h.path, Err: syscall.EBADF}
	}

	if h.off >= len(h.file.data) {
		return 0, io.EOF
	}

	n := copy(b, h.file.data[h.off:])
	h.off += n

	return n, nil
}

func (h *memHandle) seek(off int64, whence int) (int64, error) {
	mem.Lock()
	defer mem.Unlock()

	switch whence {
	case SEEK_CUR:
		off += int64(h.off)
	case SEEK_END:
		off += int64(len(h.file.data))
	}

	if off < 0 {
		return 0, &fs.PathError{Op: "seek", Path: h.path, Err: syscall.EINVAL}
	}

	h.off = int(off)

	return off, nil
}

func (h *memHandle) close() error {
	mem.Lock()
	defer mem.Unlock()

	if h.closed {
		return &fs.PathError{Op: "close", Path: h.path, Err: fs.ErrClosed}
	}

	h.closed = true

	return nil
}

func memReadFile(name string) ([]byte, error) {
	mem.Lock()
	defer mem.Unlock()

	f, ok := mem.files[filepath.Clean(name)]
	if !ok {
		return nil, notExist("open", name)
	}

	return append([]byte{}, f.data...), nil
}

type memInfo struct {
	name string
	size int64
	mode FileMode
}

func (i memInfo) Name() string       { return i.name }
func (i memInfo) Size() int64        { return i.size }
func (i memInfo) Mode() FileMode     { return i.mode }
func (i memInfo) ModTime() time.Time { return time.Time{} }
func (i memInfo) IsDir() bool        { return i.mode.IsDir() }
func (i memInfo) Sys() any           { return nil }

func memStat(name string) (FileInfo, error) {
	p := filepath.Clean(name)

	mem.Lock()
	defer mem.Unlock()

	if f, ok := mem.files[p]; ok {
		return memInfo{name: filepath.Base(p), size: int64(len(f.data)), mode: f.mode}, nil
	}

	// A path that is a proper prefix of a stored file is a directory.
	for q := range mem.files {
		if strings.HasPrefix(q, p+string(filepath.Separator)) {
			return memInfo{name: filepath.Base(p), mode: fs.ModeDir | 0o755}, nil
		}
	}

	return nil, notExist("stat", name)
}

func memReadDir(name string) ([]DirEntry, error) {
	p := filepath.Clean(name)

	mem.Lock()
	defer mem.Unlock()

	var out []DirEntry

	for q, f := range mem.files {
		if filepath.Dir(q) == p {
			out = append(out, fs.FileInfoToDirEntry(memInfo{name: filepath.Base(q), size: int64(len(f.data)), mode: f.mode}))
		}
	}

	sort.Slice(out, func(i, j int) bool { return out[i].Name() < out[j].Name() })

	return out, nil
}

func memChmod(name string, mode FileMode) error {
	mem.Lock()
	defer mem.Unlock()

	f, ok := mem.files[filepath.Clean(name)]
	if !ok {
		return notExist("chmod", name)
	}

	f.mode = mode.Perm()

	return nil
}

func memTruncate(name string, size int64) error {
	mem.Lock()
	defer mem.Unlock()

	f, ok := mem.files[filepath.Clean(name)]
	if !ok {
		return notExist("truncate", name)
	}

	for int64(len(f.data)) < size {
		f.data = append(f.data, 0)
	}

	f.data = f.data[:size]

	return nil
}

func memRename(oldpath, newpath string) error {
	o, n := filepath.Clean(oldpath), filepath.Clean(newpath)

	mem.Lock()
	defer mem.Unlock()

	f, ok := mem.files[o]
	if !ok {
		return &LinkError{Op: "rename", Old: oldpath, New: newpath, Err: syscall.ENOENT}
	}

	if o != n {
		mem.files[n] = f
		delete(mem.files, o)
	}

	return nil
}

func memLink(oldname, newname string) error {
	o, n := filepath.Clean(oldname), filepath.Clean(newname)

	mem.Lock()
	defer mem.Unlock()

	f, ok := mem.files[o]
	if !ok {
		return &LinkError{Op: "link", Old: oldname, New: newname, Err: syscall.ENOENT}
	}

	if _, exists := mem.files[n]; exists {
		return &LinkError{Op: "link", Old: oldname, New: newname, Err: syscall.EEXIST}
	}

	mem.files[n] = f

	return nil
}

func memRemove(name string) error {
	p := filepath.Clean(name)

	mem.Lock()
	defer mem.Unlock()

	if _, ok := mem.files[p]; !ok {
		return notExist("remove", name)
	}

	delete(mem.files, p)

	return nil
}

func memRemoveAll(name string) {
	p := filepath.Clean(name)

	mem.Lock()
	defer mem.Unlock()

	for q := range mem.files {
		if q == p || strings.HasPrefix(q, p+string(filepath.Separator)) {
			delete(mem.files, q)
		}
	}
}

// Package os (import path .../verifrt/vos) replaces the standard os package in
// woven code (tools/langlint for C36). Every file-system operation that goes
// through it is passed to the real operating system, but first it is numbered
// and logged: the numbers are the crash points of the E-fault engine.
//
// A harness arms the shim with VerifArm(k, mode): the run then "stops" at
// crash point k, i.e. immediately before the k-th point is executed nothing
// further reaches the file system. In mode VerifPanic the stop is a panic with
// a VerifCrash value and the file system is frozen (every later operation
// through the shim panics too, so deferred clean-up code cannot repair
// anything, exactly as in a dead process); in mode VerifExit the process
// really exits with status VerifExitStatus. A Write of n >= 2 bytes has two
// points: before the write, and after the first n/2 bytes reached the file
// (torn write). k = 0 never crashes and only numbers the operations.
//
// VerifMemFS(true) switches the shim to a small in-memory file system (flat
// map path -> bytes+mode, every directory exists): the same operations, still
// numbered, but no system call. It serves checks that run the woven code
// millions of times and care about contents only (C35).
//
// Only process death is modelled (the property speaks of the process
// stopping): no power loss, no reordering of operations the kernel has
// already accepted.
//
// The package keeps the standard package *name* and re-exports the rest of
// what the woven code (and plausible edits of it) uses, so that a mutated
// source file still compiles.
package os

import (
	"fmt"
	"io"
	"io/fs"
	goos "os"
	"path/filepath"
	"strconv"
	"sync"
	"time"
)

// ---- plain re-exports -------------------------------------------------------

type (
	FileInfo     = fs.FileInfo
	FileMode     = fs.FileMode
	DirEntry     = fs.DirEntry
	PathError    = fs.PathError
	LinkError    = goos.LinkError
	SyscallError = goos.SyscallError
	Signal       = goos.Signal
	Process      = goos.Process
	ProcAttr     = goos.ProcAttr
)

const (
	O_RDONLY = goos.O_RDONLY
	O_WRONLY = goos.O_WRONLY
	O_RDWR   = goos.O_RDWR
	O_APPEND = goos.O_APPEND
	O_CREATE = goos.O_CREATE
	O_EXCL   = goos.O_EXCL
	O_SYNC   = goos.O_SYNC
	O_TRUNC  = goos.O_TRUNC

	ModeDir        = fs.ModeDir
	ModeAppend     = fs.ModeAppend
	ModeExclusive  = fs.ModeExclusive
	ModeTemporary  = fs.ModeTemporary
	ModeSymlink    = fs.ModeSymlink
	ModeDevice     = fs.ModeDevice
	ModeNamedPipe  = fs.ModeNamedPipe
	ModeSocket     = fs.ModeSocket
	ModeSetuid     = fs.ModeSetuid
	ModeSetgid     = fs.ModeSetgid
	ModeCharDevice = fs.ModeCharDevice
	ModeSticky     = fs.ModeSticky
	ModeIrregular  = fs.ModeIrregular
	ModeType       = fs.ModeType
	ModePerm       = fs.ModePerm

	PathSeparator     = goos.PathSeparator
	PathListSeparator = goos.PathListSeparator
	DevNull           = goos.DevNull

	SEEK_SET = 0
	SEEK_CUR = 1
	SEEK_END = 2
)

var (
	ErrInvalid          = fs.ErrInvalid
	ErrPermission       = fs.ErrPermission
	ErrExist            = fs.ErrExist
	ErrNotExist         = fs.ErrNotExist
	ErrClosed           = fs.ErrClosed
	ErrNoDeadline       = goos.ErrNoDeadline
	ErrDeadlineExceeded = goos.ErrDeadlineExceeded
	ErrProcessDone      = goos.ErrProcessDone

	Args = goos.Args

	Interrupt = goos.Interrupt
	Kill      = goos.Kill

	Exit            = goos.Exit
	Getenv          = goos.Getenv
	LookupEnv       = goos.LookupEnv
	Setenv          = goos.Setenv
	Unsetenv        = goos.Unsetenv
	Environ         = goos.Environ
	ExpandEnv       = goos.ExpandEnv
	Expand          = goos.Expand
	Getpid          = goos.Getpid
	Getppid         = goos.Getppid
	Getuid          = goos.Getuid
	Geteuid         = goos.Geteuid
	Getgid          = goos.Getgid
	Getegid         = goos.Getegid
	Getwd           = goos.Getwd
	Chdir           = goos.Chdir
	Hostname        = goos.Hostname
	Executable      = goos.Executable
	TempDir         = goos.TempDir
	UserHomeDir     = goos.UserHomeDir
	UserCacheDir    = goos.UserCacheDir
	UserConfigDir   = goos.UserConfigDir
	IsExist         = goos.IsExist
	IsNotExist      = goos.IsNotExist
	IsPermission    = goos.IsPermission
	IsTimeout       = goos.IsTimeout
	IsPathSeparator = goos.IsPathSeparator
	SameFile        = goos.SameFile
	NewSyscallError = goos.NewSyscallError
	FindProcess     = goos.FindProcess
	StartProcess    = goos.StartProcess
	DirFS           = goos.DirFS
)

// The standard streams are never crash points.
var (
	Stdin  = &File{f: goos.Stdin, std: true}
	Stdout = &File{f: goos.Stdout, std: true}
	Stderr = &File{f: goos.Stderr, std: true}
)

// ---- crash-point machinery --------------------------------------------------

// VerifMode says how an armed crash point stops the run.
type VerifMode int

const (
	// VerifPanic stops with panic(VerifCrash{...}) and freezes the file system.
	VerifPanic VerifMode = iota
	// VerifExit stops with a real os.Exit(VerifExitStatus).
	VerifExit
)

// VerifExitStatus is the exit status of a VerifExit crash.
const VerifExitStatus = 86

// VerifCrash is the panic value of a simulated process stop.
type VerifCrash struct {
	Point int    // the crash point that fired (1-based)
	Op    string // the operation that was about to run
}

func (c VerifCrash) String() string { return fmt.Sprintf("crash point %d before %s", c.Point, c.Op) }

var state struct {
	sync.Mutex
	points  int // crash points passed so far
	crashAt int // 0 = never
	mode    VerifMode
	frozen  bool
	logging bool // set by VerifArm: keep the operation log
	log     []string
	open    map[*File]struct{} // files opened through the shim and not yet closed
}

// VerifArm resets the point counter and the log and arms crash point k
// (0 = none: the run only numbers its operations).
func VerifArm(k int, mode VerifMode) {
	state.Lock()
	state.points, state.crashAt, state.mode, state.frozen, state.log = 0, k, mode, false, nil
	state.logging = true
	state.Unlock()
}

// VerifDisarm ends a run: later operations pass through, uncounted crash-wise
// (they are still numbered from where the run stopped).
func VerifDisarm() {
	state.Lock()
	state.crashAt, state.frozen = 0, false
	open := state.open
	state.open = nil
	state.Unlock()

	// A dead process holds no descriptors: close what the stopped run left open.
	for f := range open {
		_ = f.f.Close()
	}
}

// VerifPoints returns the number of crash points passed since VerifArm.
func VerifPoints() int {
	state.Lock()
	defer state.Unlock()

	return state.points
}

// VerifLog returns the operations seen since VerifArm, one string per crash
// point ("3 rename a -> b"); the entry of the point that fired is marked.
func VerifLog() []string {
	state.Lock()
	defer state.Unlock()

	return append([]string(nil), state.log...)
}

// VerifFrozen reports whether a VerifPanic crash fired since VerifArm.
func VerifFrozen() bool {
	state.Lock()
	defer state.Unlock()

	return state.frozen
}

func base(p string) string { return filepath.Base(p) }

// point passes one crash point named op. It returns normally when the
// operation may proceed.
func point(op string) {
	state.Lock()

	if state.frozen {
		at := state.crashAt
		state.Unlock()
		panic(VerifCrash{Point: at, Op: "(frozen) " + op})
	}

	state.points++
	n := state.points

	if state.crashAt != 0 && n == state.crashAt {
		state.log = append(state.log, fmt.Sprintf("%d CRASH before %s", n, op))

		if state.mode == VerifExit {
			state.Unlock()
			goos.Exit(VerifExitStatus)
		}

		state.frozen = true
		state.Unlock()
		panic(VerifCrash{Point: n, Op: op})
	}

	if state.logging {
		state.log = append(state.log, fmt.Sprintf("%d %s", n, op))
	}

	state.Unlock()
}

// ---- File -------------------------------------------------------------------

// File wraps *os.File (or an in-memory handle); every method that touches the
// file system is a crash point.
type File struct {
	f   *goos.File
	m   *memHandle
	std bool
}

func track(w *File) *File {
	state.Lock()
	if state.open == nil {
		state.open = map[*File]struct{}{}
	}

	state.open[w] = struct{}{}
	state.Unlock()

	return w
}

func wrap(f *goos.File, err error) (*File, error) {
	if err != nil {
		return nil, err
	}

	return track(&File{f: f}), nil
}

func wrapMem(h *memHandle, err error) (*File, error) {
	if err != nil {
		return nil, err
	}

	return &File{m: h}, nil
}

// VerifReal returns the underlying *os.File (nil for an in-memory file).
func (f *File) VerifReal() *goos.File { return f.f }

func (f *File) Name() string {
	if f.m != nil {
		return f.m.path
	}

	return f.f.Name()
}

func (f *File) Fd() uintptr {
	if f.m != nil {
		return ^uintptr(0)
	}

	return f.f.Fd()
}

func (f *File) rawWrite(b []byte) (int, error) {
	if f.m != nil {
		return f.m.write(b)
	}

	return f.f.Write(b)
}

func (f *File) Write(b []byte) (int, error) {
	if f.std {
		return f.f.Write(b)
	}

	point("write " + strconv.Itoa(len(b)) + " bytes to " + base(f.Name()))

	if len(b) < 2 {
		return f.rawWrite(b)
	}

	half := len(b) / 2

	n, err := f.rawWrite(b[:half])
	if err != nil {
		return n, err
	}

	point("write (torn: " + strconv.Itoa(half) + " of " + strconv.Itoa(len(b)) + " bytes written) to " + base(f.Name()))

	m, err := f.rawWrite(b[half:])

	return n + m, err
}

func (f *File) WriteString(s string) (int, error) { return f.Write([]byte(s)) }

func (f *File) WriteAt(b []byte, off int64) (int, error) {
	if f.m != nil {
		return 0, errMem("writeat", f.m.path)
	}

	if !f.std {
		point("writeat " + strconv.Itoa(len(b)) + " bytes to " + base(f.f.Name()))
	}

	return f.f.WriteAt(b, off)
}

func (f *File) ReadFrom(r io.Reader) (int64, error) {
	b, err := io.ReadAll(r)
	if err != nil {
		return 0, err
	}

	n, err := f.Write(b)

	return int64(n), err
}

func (f *File) Read(b []byte) (int, error) {
	if f.m != nil {
		return f.m.read(b)
	}

	return f.f.Read(b)
}

func (f *File) ReadAt(b []byte, off int64) (int, error) {
	if f.m != nil {
		return 0, errMem("readat", f.m.path)
	}

	return f.f.ReadAt(b, off)
}

func (f *File) Seek(off int64, whence int) (int64, error) {
	if f.m != nil {
		return f.m.seek(off, whence)
	}

	return f.f.Seek(off, whence)
}

func (f *File) Stat() (FileInfo, error) {
	if f.m != nil {
		return memStat(f.m.path)
	}

	return f.f.Stat()
}

func (f *File) ReadDir(n int) ([]DirEntry, error) {
	if f.m != nil {
		return nil, errMem("readdir", f.m.path)
	}

	return f.f.ReadDir(n)
}

func (f *File) Readdir(n int) ([]FileInfo, error) {
	if f.m != nil {
		return nil, errMem("readdir", f.m.path)
	}

	return f.f.Readdir(n)
}

func (f *File) Readdirnames(n int) ([]string, error) {
	if f.m != nil {
		return nil, errMem("readdir", f.m.path)
	}

	return f.f.Readdirnames(n)
}

func (f *File) SetDeadline(t time.Time) error {
	if f.m != nil {
		return nil
	}

	return f.f.SetDeadline(t)
}

func (f *File) Close() error {
	if f.std {
		return f.f.Close()
	}

	point("close " + base(f.Name()))

	if f.m != nil {
		return f.m.close()
	}

	state.Lock()
	delete(state.open, f)
	state.Unlock()

	return f.f.Close()
}

func (f *File) Sync() error {
	if f.std {
		return f.f.Sync()
	}

	point("sync " + base(f.Name()))

	if f.m != nil {
		return nil
	}

	return f.f.Sync()
}

func (f *File) Truncate(size int64) error {
	if f.std {
		return f.f.Truncate(size)
	}

	point("truncate " + base(f.Name()) + " to " + strconv.FormatInt(size, 10))

	if f.m != nil {
		return memTruncate(f.m.path, size)
	}

	return f.f.Truncate(size)
}

func (f *File) Chmod(mode FileMode) error {
	if f.std {
		return f.f.Chmod(mode)
	}

	point("fchmod " + base(f.Name()) + " " + octal(mode))

	if f.m != nil {
		return memChmod(f.m.path, mode)
	}

	return f.f.Chmod(mode)
}

func (f *File) Chown(uid, gid int) error {
	if f.std {
		return f.f.Chown(uid, gid)
	}

	point("fchown " + base(f.Name()))

	if f.m != nil {
		return nil
	}

	return f.f.Chown(uid, gid)
}

func octal(mode FileMode) string {
	s := strconv.FormatUint(uint64(mode.Perm()), 8)
	for len(s) < 4 {
		s = "0" + s
	}

	return s
}

// ---- package-level file-system operations -----------------------------------

func CreateTemp(dir, pattern string) (*File, error) {
	point("createtemp " + pattern)

	if memOn() {
		return wrapMem(memCreateTemp(dir, pattern))
	}

	return wrap(goos.CreateTemp(dir, pattern))
}

func MkdirTemp(dir, pattern string) (string, error) {
	point("mkdirtemp " + pattern)

	if memOn() {
		return "", errMem("mkdirtemp", dir)
	}

	return goos.MkdirTemp(dir, pattern)
}

func Create(name string) (*File, error) {
	point("create(truncate) " + base(name))

	if memOn() {
		return wrapMem(memOpen(name, O_RDWR|O_CREATE|O_TRUNC, 0o666))
	}

	return wrap(goos.Create(name))
}

func Open(name string) (*File, error) {
	point("open " + base(name))

	if memOn() {
		return wrapMem(memOpen(name, O_RDONLY, 0))
	}

	return wrap(goos.Open(name))
}

func OpenFile(name string, flag int, perm FileMode) (*File, error) {
	point("openfile " + base(name) + " flags=0x" + strconv.FormatInt(int64(flag), 16))

	if memOn() {
		return wrapMem(memOpen(name, flag, perm))
	}

	return wrap(goos.OpenFile(name, flag, perm))
}

func NewFile(fd uintptr, name string) *File {
	f := goos.NewFile(fd, name)
	if f == nil {
		return nil
	}

	return &File{f: f}
}

func ReadFile(name string) ([]byte, error) {
	point("readfile " + base(name))

	if memOn() {
		return memReadFile(name)
	}

	return goos.ReadFile(name)
}

// WriteFile is create(truncate) + write + close, as in the standard library,
// so that a crash can fall between them.
func WriteFile(name string, data []byte, perm FileMode) error {
	f, err := OpenFile(name, O_WRONLY|O_CREATE|O_TRUNC, perm)
	if err != nil {
		return err
	}

	_, err = f.Write(data)
	if err1 := f.Close(); err1 != nil && err == nil {
		err = err1
	}

	return err
}

func ReadDir(name string) ([]DirEntry, error) {
	point("readdir " + base(name))

	if memOn() {
		return memReadDir(name)
	}

	return goos.ReadDir(name)
}

func Stat(name string) (FileInfo, error) {
	point("stat " + base(name))

	if memOn() {
		return memStat(name)
	}

	return goos.Stat(name)
}

func Lstat(name string) (FileInfo, error) {
	point("lstat " + base(name))

	if memOn() {
		return memStat(name)
	}

	return goos.Lstat(name)
}

func Chmod(name string, mode FileMode) error {
	point("chmod " + base(name) + " " + octal(mode))

	if memOn() {
		return memChmod(name, mode)
	}

	return goos.Chmod(name, mode)
}

func Chown(name string, uid, gid int) error {
	point("chown " + base(name))

	if memOn() {
		return nil
	}

	return goos.Chown(name, uid, gid)
}

func Chtimes(name string, atime, mtime time.Time) error {
	point("chtimes " + base(name))

	if memOn() {
		return nil
	}

	return goos.Chtimes(name, atime, mtime)
}

func Rename(oldpath, newpath string) error {
	point("rename " + base(oldpath) + " -> " + base(newpath))

	if memOn() {
		return memRename(oldpath, newpath)
	}

	return goos.Rename(oldpath, newpath)
}

func Link(oldname, newname string) error {
	point("link " + base(oldname) + " -> " + base(newname))

	if memOn() {
		return memLink(oldname, newname)
	}

	return goos.Link(oldname, newname)
}

func Symlink(oldname, newname string) error {
	point("symlink " + base(oldname) + " -> " + base(newname))

	if memOn() {
		return errMem("symlink", newname)
	}

	return goos.Symlink(oldname, newname)
}

func Readlink(name string) (string, error) {
	if memOn() {
		return "", errMem("readlink", name)
	}

	return goos.Readlink(name)
}

func Remove(name string) error {
	point("remove " + base(name))

	if memOn() {
		return memRemove(name)
	}

	return goos.Remove(name)
}

func RemoveAll(name string) error {
	point("removeall " + base(name))

	if memOn() {
		memRemoveAll(name)

		return nil
	}

	return goos.RemoveAll(name)
}

func Mkdir(name string, perm FileMode) error {
	point("mkdir " + base(name))

	if memOn() {
		return nil
	}

	return goos.Mkdir(name, perm)
}

func MkdirAll(name string, perm FileMode) error {
	point("mkdirall " + base(name))

	if memOn() {
		return nil
	}

	return goos.MkdirAll(name, perm)
}

func Truncate(name string, size int64) error {
	point("truncate " + base(name) + " to " + strconv.FormatInt(size, 10))

	if memOn() {
		return memTruncate(name, size)
	}

	return goos.Truncate(name, size)
}

// Package time (import path .../verifrt/vtime) replaces the standard time
// package in woven code. Now/Since/Until/Sleep read the virtual clock: the
// vsched clock under a scheduler, otherwise the manual clock a sequential
// harness sets with Set/Advance (or the real clock if neither is in use).
// Every type is an alias, so methods and values are unchanged.
package time

import (
	gotime "time"

	"github.com/tucats/ego/internal/verifrt/vsched"
)

type (
	Time       = gotime.Time
	Duration   = gotime.Duration
	Month      = gotime.Month
	Weekday    = gotime.Weekday
	Location   = gotime.Location
	Timer      = gotime.Timer
	Ticker     = gotime.Ticker
	ParseError = gotime.ParseError
)

const (
	Nanosecond  = gotime.Nanosecond
	Microsecond = gotime.Microsecond
	Millisecond = gotime.Millisecond
	Second      = gotime.Second
	Minute      = gotime.Minute
	Hour        = gotime.Hour

	Layout      = gotime.Layout
	ANSIC       = gotime.ANSIC
	UnixDate    = gotime.UnixDate
	RubyDate    = gotime.RubyDate
	RFC822      = gotime.RFC822
	RFC822Z     = gotime.RFC822Z
	RFC850      = gotime.RFC850
	RFC1123     = gotime.RFC1123
	RFC1123Z    = gotime.RFC1123Z
	RFC3339     = gotime.RFC3339
	RFC3339Nano = gotime.RFC3339Nano
	Kitchen     = gotime.Kitchen
	Stamp       = gotime.Stamp
	StampMilli  = gotime.StampMilli
	StampMicro  = gotime.StampMicro
	StampNano   = gotime.StampNano
	DateTime    = gotime.DateTime
	DateOnly    = gotime.DateOnly
	TimeOnly    = gotime.TimeOnly

	January   = gotime.January
	February  = gotime.February
	March     = gotime.March
	April     = gotime.April
	May       = gotime.May
	June      = gotime.June
	July      = gotime.July
	August    = gotime.August
	September = gotime.September
	October   = gotime.October
	November  = gotime.November
	December  = gotime.December

	Sunday    = gotime.Sunday
	Monday    = gotime.Monday
	Tuesday   = gotime.Tuesday
	Wednesday = gotime.Wednesday
	Thursday  = gotime.Thursday
	Friday    = gotime.Friday
	Saturday  = gotime.Saturday
)

var (
	UTC   = gotime.UTC
	Local = gotime.Local

	Parse                  = gotime.Parse
	ParseInLocation        = gotime.ParseInLocation
	ParseDuration          = gotime.ParseDuration
	Date                   = gotime.Date
	Unix                   = gotime.Unix
	UnixMilli              = gotime.UnixMilli
	UnixMicro              = gotime.UnixMicro
	LoadLocation           = gotime.LoadLocation
	LoadLocationFromTZData = gotime.LoadLocationFromTZData
	FixedZone              = gotime.FixedZone
	After                  = gotime.After
	AfterFunc              = gotime.AfterFunc
	NewTimer               = gotime.NewTimer
	NewTicker              = gotime.NewTicker
	Tick                   = gotime.Tick
)

var (
	manual    bool
	manualNow gotime.Time
)

// Set switches the shim to a manual clock at t (sequential harnesses).
func Set(t gotime.Time) { manual, manualNow = true, t }

// Advance moves the manual clock (or the scheduler clock) forward.
func Advance(d gotime.Duration) {
	if vsched.Active() {
		vsched.Advance(d)

		return
	}

	manualNow = manualNow.Add(d)
}

// Real returns to the real clock.
func Real() { manual = false }

func Now() gotime.Time {
	if vsched.Active() {
		return vsched.Now()
	}

	if manual {
		return manualNow
	}

	return gotime.Now()
}

func Since(t gotime.Time) gotime.Duration { return Now().Sub(t) }
func Until(t gotime.Time) gotime.Duration { return t.Sub(Now()) }

// SleepHook, when set, is called instead of sleeping on the manual clock.
var SleepHook func(d gotime.Duration)

func Sleep(d gotime.Duration) {
	if vsched.Active() {
		vsched.Sleep(d)

		return
	}

	if manual {
		if SleepHook != nil {
			SleepHook(d)

			return
		}

		// A sequential harness owns the clock: a sleeper waits (really) until
		// the harness has advanced the manual clock far enough.
		deadline := manualNow.Add(d)
		for manual && manualNow.Before(deadline) {
			gotime.Sleep(200 * gotime.Microsecond)
		}

		return
	}

	gotime.Sleep(d)
}

// Package vchan models a Go `chan any` for woven code: under an active vsched
// scheduler send/receive block through the scheduler (each is a scheduling
// point); without one they use a real channel. Semantics follow Go: send on a
// closed channel panics, receive from a closed empty channel yields (nil,false),
// close of a closed channel panics.
package vchan

import (
	"github.com/tucats/ego/internal/verifrt/vsched"
)

type Chan struct {
	real   chan any
	buf    []any
	size   int
	closed bool
	// unbuffered rendezvous is approximated by capacity 1 only where size==0 is
	// requested; the woven code (data.Channel) never creates size-0 channels.
	virt bool
}

func Make(size int) *Chan {
	return &Chan{real: make(chan any, size), size: size}
}

func (c *Chan) capacity() int {
	if c.size < 1 {
		return 1
	}

	return c.size
}

func (c *Chan) Send(v any) {
	s := vsched.Cur()
	if s == nil {
		if c.virt {
			if c.closed {
				panic("send on closed channel")
			}

			c.buf = append(c.buf, v)

			return
		}

		c.real <- v

		return
	}

	c.virt = true
	s.Point("chan.Send", c)
	s.Block("chan.Send", func() bool { return c.closed || len(c.buf) < c.capacity() })

	if c.closed {
		panic("send on closed channel")
	}

	c.buf = append(c.buf, v)
}

func (c *Chan) Recv2() (any, bool) {
	s := vsched.Cur()
	if s == nil {
		if c.virt {
			if len(c.buf) > 0 {
				v := c.buf[0]
				c.buf = c.buf[1:]

				return v, true
			}

			return nil, false
		}

		v, ok := <-c.real

		return v, ok
	}

	c.virt = true
	s.Point("chan.Recv", c)
	s.Block("chan.Recv", func() bool { return c.closed || len(c.buf) > 0 })

	if len(c.buf) > 0 {
		v := c.buf[0]
		c.buf = c.buf[1:]

		return v, true
	}

	return nil, false
}

func (c *Chan) Recv() any {
	v, _ := c.Recv2()

	return v
}

func (c *Chan) Len() int {
	if c.virt {
		return len(c.buf)
	}

	return len(c.real)
}

func (c *Chan) Cap() int { return c.size }

func (c *Chan) Close() {
	if c.virt || vsched.Active() {
		c.virt = true

		if c.closed {
			panic("close of closed channel")
		}

		c.closed = true

		return
	}

	close(c.real)
}

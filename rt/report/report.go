// Package report is the verdict/evidence half of every /verif harness: it
// counts what a run covered, groups violations into cells, consults
// known_findings.txt, writes the evidence file and the replay artefacts and
// turns all of it into the exit status the interface asks for.
package report

import (
	"bufio"
	"crypto/sha256"
	"encoding/hex"
	"encoding/json"
	"fmt"
	"os"
	"path/filepath"
	"sort"
	"strconv"
	"strings"
	"sync"
	"time"
)

// Violation is one cell of violations with its smallest witness.
type Violation struct {
	Cell    string `json:"cell"`
	Witness any    `json:"witness"`
	Message string `json:"message"`
	Count   int    `json:"count"`
	size    int
}

// R accumulates one run.
type R struct {
	mu         sync.Mutex
	ID         string
	Tier       string
	Seed       int64
	Level      string
	start      time.Time
	evals      int64
	distinct   map[[16]byte]struct{}
	samples    []any
	maxSamples int
	cov        map[string]any
	assume     []string
	viol       map[string]*Violation
	rule       string
	exhaustive bool
	capped     []string
	Replay     string
}

// New starts a report for the property named by VERIF_ID.
func New(level string) *R {
	seed, _ := strconv.ParseInt(os.Getenv("VERIF_SEED"), 10, 64)
	tier := os.Getenv("VERIF_TIER")

	if tier != "thorough" {
		tier = "quick"
	}

	return &R{
		ID: os.Getenv("VERIF_ID"), Tier: tier, Seed: seed, Level: level, start: time.Now(),
		distinct: map[[16]byte]struct{}{}, cov: map[string]any{}, viol: map[string]*Violation{},
		maxSamples: 6, exhaustive: true, Replay: os.Getenv("VERIF_REPLAY"),
	}
}

// Thorough reports whether the thorough tier was requested.
func (r *R) Thorough() bool { return r.Tier == "thorough" }

// Pick returns q in the quick tier and t in the thorough tier.
func (r *R) Pick(q, t int) int {
	if r.Thorough() {
		return t
	}

	return q
}

// Eval counts n executed cases.
func (r *R) Eval(n int) {
	r.mu.Lock()
	r.evals += int64(n)
	r.mu.Unlock()
}

// Evals returns the number of cases counted so far.
func (r *R) Evals() int64 {
	r.mu.Lock()
	defer r.mu.Unlock()

	return r.evals
}

// Distinct records a non-trivial case under a canonical key; equal keys are
// counted once.
func (r *R) Distinct(key string) {
	h := sha256.Sum256([]byte(key))

	var k [16]byte

	copy(k[:], h[:16])

	r.mu.Lock()
	r.distinct[k] = struct{}{}
	r.mu.Unlock()
}

// NDistinct returns the number of distinct keys seen.
func (r *R) NDistinct() int {
	r.mu.Lock()
	defer r.mu.Unlock()

	return len(r.distinct)
}

// Sample keeps v as one of the written-out cases (the first few only).
func (r *R) Sample(v any) {
	r.mu.Lock()
	if len(r.samples) < r.maxSamples {
		r.samples = append(r.samples, v)
	}
	r.mu.Unlock()
}

// Rule states how cases are enumerated and what makes one distinct.
func (r *R) Rule(s string) { r.rule = s }

// Set records an extra coverage key.
func (r *R) Set(k string, v any) {
	r.mu.Lock()
	r.cov[k] = v
	r.mu.Unlock()
}

// Add adds n to an integer coverage key.
func (r *R) Add(k string, n int64) {
	r.mu.Lock()
	cur, _ := r.cov[k].(int64)
	r.cov[k] = cur + n
	r.mu.Unlock()
}

// Assume records an assumption / trusted base item.
func (r *R) Assume(s ...string) { r.assume = append(r.assume, s...) }

// Capped records that a bound was cut by a cap; the run is then not exhaustive.
func (r *R) Capped(what string) {
	r.mu.Lock()
	r.exhaustive = false
	r.capped = append(r.capped, what)
	r.mu.Unlock()
}

// Violation records a violation in a cell; the smallest witness (by size) wins.
func (r *R) Violation(cell string, size int, witness any, msg string) {
	cell = strings.Join(strings.Fields(cell), "_")

	r.mu.Lock()
	defer r.mu.Unlock()

	v := r.viol[cell]
	if v == nil {
		r.viol[cell] = &Violation{Cell: cell, Witness: witness, Message: msg, Count: 1, size: size}

		return
	}

	v.Count++

	if size < v.size {
		v.size, v.Witness, v.Message = size, witness, msg
	}
}

// NViolations returns the number of violation cells so far.
func (r *R) NViolations() int {
	r.mu.Lock()
	defer r.mu.Unlock()

	return len(r.viol)
}

// Fatal reports a harness problem (exit 2): never a verdict.
func Fatal(f string, a ...any) {
	fmt.Printf("HARNESS-ERROR: "+f+"\n", a...)
	os.Exit(2)
}

type knownEntry struct {
	cell string
	text string
}

func loadKnown(id string) []knownEntry {
	var out []knownEntry

	f, err := os.Open(os.Getenv("VERIF_KNOWN"))
	if err != nil {
		return nil
	}

	defer f.Close()

	sc := bufio.NewScanner(f)
	sc.Buffer(make([]byte, 1<<20), 1<<20)

	for sc.Scan() {
		line := strings.TrimSpace(sc.Text())
		if !strings.HasPrefix(line, "known:") {
			continue
		}

		fields := strings.Fields(line[len("known:"):])
		if len(fields) < 2 || fields[0] != "property="+id || !strings.HasPrefix(fields[1], "cell=") {
			continue
		}

		out = append(out, knownEntry{cell: strings.TrimPrefix(fields[1], "cell="), text: strings.Join(fields[2:], " ")})
	}

	return out
}

// Finish writes the evidence file, prints the verdict lines and exits.
func (r *R) Finish() {
	known := loadKnown(r.ID)
	knownSet := map[string]string{}

	for _, k := range known {
		knownSet[k.cell] = k.text
	}

	cells := make([]string, 0, len(r.viol))
	for c := range r.viol {
		cells = append(cells, c)
	}

	sort.Slice(cells, func(i, j int) bool {
		a, b := r.viol[cells[i]], r.viol[cells[j]]
		if a.size != b.size {
			return a.size < b.size
		}

		return a.Cell < b.Cell
	})

	newCells, knownCells := []string{}, []string{}

	for _, c := range cells {
		if _, ok := knownSet[c]; ok {
			knownCells = append(knownCells, c)
		} else {
			newCells = append(newCells, c)
		}
	}

	cov := map[string]any{}
	for k, v := range r.cov {
		cov[k] = v
	}

	cov["evaluations"] = r.evals
	cov["distinct_nontrivial"] = len(r.distinct)
	cov["rule"] = r.rule
	cov["samples"] = r.samples
	cov["exhaustive"] = r.exhaustive

	if len(r.capped) > 0 {
		cov["capped"] = r.capped
	}

	cov["cells_seen"] = cells
	cov["known_cells"] = knownCells

	if b := os.Getenv("VERIF_BUILD_S"); b != "" {
		if f, err := strconv.ParseFloat(b, 64); err == nil {
			cov["build_s"] = f
		}
	}

	ev := map[string]any{
		"property_id": r.ID,
		"tier":        r.Tier,
		"seed":        r.Seed,
		"level":       r.Level,
		"coverage":    cov,
		"assumptions": r.assume,
		"wall_s":      time.Since(r.start).Seconds(),
		"violations":  len(newCells),
	}

	if r.Replay == "" {
		if p := os.Getenv("VERIF_EVIDENCE"); p != "" {
			b, _ := json.MarshalIndent(ev, "", " ")
			if err := os.WriteFile(p, append(b, '\n'), 0o644); err != nil {
				Fatal("cannot write evidence: %v", err)
			}
		}
	}

	for _, c := range knownCells {
		fmt.Printf("KNOWN-FINDING: property=%s cell=%s %s (seen %d×, e.g. %s)\n", r.ID, c, knownSet[c], r.viol[c].Count, compact(r.viol[c].Witness))
	}

	for _, c := range newCells {
		v := r.viol[c]
		p := r.writeReplay(v)
		fmt.Printf("VIOLATION property=%s replay=%s\n", r.ID, p)
		fmt.Printf("  cell=%s count=%d: %s\n  witness: %s\n", c, v.Count, v.Message, compact(v.Witness))
	}

	fmt.Printf("SUMMARY property=%s tier=%s evaluations=%d distinct=%d violations=%d known=%d exhaustive=%v wall=%.1fs\n",
		r.ID, r.Tier, r.evals, len(r.distinct), len(newCells), len(knownCells), r.exhaustive, time.Since(r.start).Seconds())

	if len(newCells) > 0 {
		os.Exit(1)
	}

	os.Exit(0)
}

func compact(v any) string {
	b, err := json.Marshal(v)
	if err != nil {
		return fmt.Sprint(v)
	}

	s := string(b)
	if len(s) > 600 {
		s = s[:600] + "…"
	}

	return s
}

func (r *R) writeReplay(v *Violation) string {
	dir := os.Getenv("VERIF_REPLAY_DIR")
	if dir == "" {
		dir = "."
	}

	h := sha256.Sum256([]byte(v.Cell))
	p := filepath.Join(dir, fmt.Sprintf("%s-%s.json", r.ID, hex.EncodeToString(h[:6])))

	b, _ := json.MarshalIndent(map[string]any{
		"property": r.ID, "tier": r.Tier, "cell": v.Cell, "witness": v.Witness, "message": v.Message, "count": v.Count,
	}, "", " ")
	_ = os.WriteFile(p, append(b, '\n'), 0o644)

	return p
}

// LoadReplay reads the witness of a replay file into out.
func LoadReplay(path string, out any) error {
	b, err := os.ReadFile(path)
	if err != nil {
		return err
	}

	var w struct {
		Witness json.RawMessage `json:"witness"`
	}

	if err := json.Unmarshal(b, &w); err != nil {
		return err
	}

	return json.Unmarshal(w.Witness, out)
}

// ---- sharding support: a worker process saves its counts, the parent merges ----

type partial struct {
	Evals      int64
	Distinct   [][16]byte
	Samples    []string // JSON
	CovInts    map[string]int64
	CovOther   map[string]string // JSON
	Viol       []partialViol
	Capped     []string
	Exhaustive bool
}

type partialViol struct {
	Cell, Message, Witness string
	Count, Size            int
}

// SavePartial writes this run's counts to path (worker side) and exits 0.
func (r *R) SavePartial(path string) {
	p := partial{Evals: r.evals, CovInts: map[string]int64{}, CovOther: map[string]string{}, Capped: r.capped, Exhaustive: r.exhaustive}

	for k := range r.distinct {
		p.Distinct = append(p.Distinct, k)
	}

	for _, s := range r.samples {
		b, _ := json.Marshal(s)
		p.Samples = append(p.Samples, string(b))
	}

	for k, v := range r.cov {
		if n, ok := v.(int64); ok {
			p.CovInts[k] = n
		} else {
			b, _ := json.Marshal(v)
			p.CovOther[k] = string(b)
		}
	}

	for _, v := range r.viol {
		b, _ := json.Marshal(v.Witness)
		p.Viol = append(p.Viol, partialViol{v.Cell, v.Message, string(b), v.Count, v.size})
	}

	b, _ := json.Marshal(p)
	if err := os.WriteFile(path, b, 0o644); err != nil {
		Fatal("cannot write partial result: %v", err)
	}

	os.Exit(0)
}

// MergePartial folds a worker's counts into this run (parent side).
func (r *R) MergePartial(path string) {
	b, err := os.ReadFile(path)
	if err != nil {
		Fatal("worker result missing: %v", err)
	}

	var p partial
	if err := json.Unmarshal(b, &p); err != nil {
		Fatal("worker result unreadable: %v", err)
	}

	r.mu.Lock()
	defer r.mu.Unlock()

	r.evals += p.Evals

	for _, k := range p.Distinct {
		r.distinct[k] = struct{}{}
	}

	for _, s := range p.Samples {
		if len(r.samples) < r.maxSamples {
			var v any

			_ = json.Unmarshal([]byte(s), &v)
			r.samples = append(r.samples, v)
		}
	}

	for k, n := range p.CovInts {
		cur, _ := r.cov[k].(int64)
		r.cov[k] = cur + n
	}

	for k, s := range p.CovOther {
		var v any

		_ = json.Unmarshal([]byte(s), &v)
		r.cov[k] = v
	}

	for _, pv := range p.Viol {
		var w any

		_ = json.Unmarshal([]byte(pv.Witness), &w)

		v := r.viol[pv.Cell]
		if v == nil {
			r.viol[pv.Cell] = &Violation{Cell: pv.Cell, Witness: w, Message: pv.Message, Count: pv.Count, size: pv.Size}
		} else {
			v.Count += pv.Count
			if pv.Size < v.size {
				v.size, v.Witness, v.Message = pv.Size, w, pv.Message
			}
		}
	}

	if !p.Exhaustive {
		r.exhaustive = false
	}

	r.capped = append(r.capped, p.Capped...)
}

// IntCov reads an integer coverage key.
func (r *R) IntCov(k string) int64 {
	r.mu.Lock()
	defer r.mu.Unlock()

	n, _ := r.cov[k].(int64)

	return n
}

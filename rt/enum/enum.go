// Package enum holds the small bounded-exhaustive enumeration helpers shared by
// the harnesses: every string over an alphabet up to a length, cartesian
// products, and a parallel for-loop over an index space.
package enum

import (
	"runtime"
	"sync"
)

// Strings calls f with every sequence of length min..max over alphabet, in
// length-then-lexicographic order (shortest first, so the first witness is the
// smallest). f receives the joined string and the index sequence.
func Strings(alphabet []string, min, max int, f func(s string, idx []int)) {
	for n := min; n <= max; n++ {
		idx := make([]int, n)

		for {
			s := ""
			for _, i := range idx {
				s += alphabet[i]
			}

			f(s, idx)

			k := n - 1
			for k >= 0 {
				idx[k]++
				if idx[k] < len(alphabet) {
					break
				}

				idx[k] = 0
				k--
			}

			if k < 0 {
				break
			}
		}
	}
}

// AllStrings returns every sequence of length min..max over alphabet.
func AllStrings(alphabet []string, min, max int) []string {
	var out []string

	Strings(alphabet, min, max, func(s string, _ []int) { out = append(out, s) })

	return out
}

// Count returns the number of sequences of length min..max over k symbols.
func Count(k, min, max int) int {
	total := 0

	for n := min; n <= max; n++ {
		c := 1
		for i := 0; i < n; i++ {
			c *= k
		}

		total += c
	}

	return total
}

// Product calls f with every index vector of the cartesian product of sizes.
func Product(sizes []int, f func(idx []int)) {
	for _, s := range sizes {
		if s == 0 {
			return
		}
	}

	idx := make([]int, len(sizes))

	for {
		f(idx)

		k := len(sizes) - 1
		for k >= 0 {
			idx[k]++
			if idx[k] < sizes[k] {
				break
			}

			idx[k] = 0
			k--
		}

		if k < 0 {
			return
		}
	}
}

// Par runs f(i) for i in [0,n) on all CPUs; each index is visited exactly once.
func Par(n int, f func(i int)) {
	workers := runtime.NumCPU()
	if workers > n {
		workers = n
	}

	if workers < 1 {
		workers = 1
	}

	var (
		wg   sync.WaitGroup
		mu   sync.Mutex
		next int
	)

	// small index spaces (e.g. a dozen worker subprocesses) must still spread
	// over all workers: the chunk shrinks with n
	chunk := n / (workers * 8)
	if chunk > 64 {
		chunk = 64
	}

	if chunk < 1 {
		chunk = 1
	}

	for w := 0; w < workers; w++ {
		wg.Add(1)

		go func() {
			defer wg.Done()

			for {
				mu.Lock()
				lo := next
				next += chunk
				mu.Unlock()

				if lo >= n {
					return
				}

				hi := lo + chunk
				if hi > n {
					hi = n
				}

				for i := lo; i < hi; i++ {
					f(i)
				}
			}
		}()
	}

	wg.Wait()
}

// Permutations calls f with every permutation of 0..n-1.
func Permutations(n int, f func(p []int)) {
	p := make([]int, n)
	for i := range p {
		p[i] = i
	}

	var rec func(k int)

	rec = func(k int) {
		if k == n {
			f(p)

			return
		}

		for i := k; i < n; i++ {
			p[k], p[i] = p[i], p[k]
			rec(k + 1)
			p[k], p[i] = p[i], p[k]
		}
	}

	rec(0)
}

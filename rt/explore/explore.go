// Package explore is the stateless, preemption-bounded depth-first explorer
// over vsched executions (iterative context bounding, CHESS style): every
// schedule with at most `bound` preemptions is executed exactly once, executions
// always run to completion, choice 0 everywhere is the non-preemptive default.
package explore

import (
	"fmt"
	"reflect"

	"github.com/tucats/ego/internal/verifrt/vsched"
)

// Result summarises one exploration.
type Result struct {
	Schedules   int
	MaxPoints   int
	MinPoints   int
	SumPoints   int
	Deadlocks   int
	Horizons    int
	Panics      int
	Capped      bool
	Bound       int
	Completed   bool
}

// Scenario is one closed harness: Setup builds fresh state, Body is thread 0
// (it spawns the others with vsched.Go), Check judges the finished execution.
type Scenario struct {
	Name    string
	Bound   int // preemption bound; <0 = unbounded
	MaxExec int // cap on executions; 0 = none
	Horizon int
	Focus   func(kind string, obj any) bool
	Setup   func()
	Body    func()
	// Check is called after each execution; schedule is its choice list.
	Check func(out vsched.Outcome)
	// Observe returns a comparable observation used by the determinism self-check.
	Observe func() any
	// ShardCount > 1 splits the search below the default schedule: this run
	// explores only the first-level deviations whose index is ShardIndex modulo
	// ShardCount (every shard also runs the default schedule itself).
	ShardIndex, ShardCount int
}

// Replay runs one schedule.
func (sc *Scenario) Replay(prefix []int) vsched.Outcome {
	// Setup runs inside the controlled execution (as thread 0, before Body), so
	// that goroutines it causes the code under test to start are managed too.
	return vsched.Run(vsched.Config{Prefix: prefix, Horizon: sc.Horizon, Focus: sc.Focus}, func() {
		if sc.Setup != nil {
			sc.Setup()
		}

		sc.Body()
	})
}

// Determinism replays the default schedule twice and compares observations and
// the choice-point structure; a divergence is a harness error.
func (sc *Scenario) Determinism() error {
	a := sc.Replay(nil)

	var oa any
	if sc.Observe != nil {
		oa = sc.Observe()
	}

	b := sc.Replay(a.Choices())

	var ob any
	if sc.Observe != nil {
		ob = sc.Observe()
	}

	if len(a.Points) != len(b.Points) {
		return fmt.Errorf("scenario %s: replay of the default schedule has %d points, first run had %d", sc.Name, len(b.Points), len(a.Points))
	}

	for i := range a.Points {
		if !reflect.DeepEqual(a.Points[i].Enabled, b.Points[i].Enabled) || a.Points[i].Kind != b.Points[i].Kind {
			return fmt.Errorf("scenario %s: replay diverges at point %d: %v/%s vs %v/%s", sc.Name, i, a.Points[i].Enabled, a.Points[i].Kind, b.Points[i].Enabled, b.Points[i].Kind)
		}
	}

	if !reflect.DeepEqual(oa, ob) {
		return fmt.Errorf("scenario %s: two runs of one schedule observed %v and %v", sc.Name, oa, ob)
	}

	return nil
}

// Explore enumerates every schedule within the bound.
func (sc *Scenario) Explore() Result {
	res := Result{Bound: sc.Bound, MinPoints: 1 << 30, Completed: true}

	type item struct{ prefix []int }

	stack := []item{{nil}}

	for len(stack) > 0 {
		it := stack[len(stack)-1]
		stack = stack[:len(stack)-1]

		if sc.MaxExec > 0 && res.Schedules >= sc.MaxExec {
			res.Capped = true
			res.Completed = false

			break
		}

		out := sc.Replay(it.prefix)
		res.Schedules++

		n := len(out.Points)
		res.SumPoints += n

		if n > res.MaxPoints {
			res.MaxPoints = n
		}

		if n < res.MinPoints {
			res.MinPoints = n
		}

		if out.Deadlock {
			res.Deadlocks++
		}

		if out.Horizon {
			res.Horizons++
		}

		if out.Panic != nil {
			res.Panics++
		}

		if sc.Check != nil {
			sc.Check(out)
		}

		// children: deviate at every point at or after the prefix end
		pre := 0
		for i := 0; i < len(it.prefix) && i < n; i++ {
			if out.Points[i].RunningEnabled && out.Points[i].Chosen != 0 {
				pre++
			}
		}

		choices := out.Choices()
		cost := pre

		// push in reverse so that the earliest deviation is explored first
		var kids []item

		for i := len(it.prefix); i < n; i++ {
			p := out.Points[i]
			c := cost

			if p.RunningEnabled {
				c++
			}

			if sc.Bound >= 0 && c > sc.Bound {
				continue
			}

			for alt := 1; alt < len(p.Enabled); alt++ {
				np := make([]int, i+1)
				copy(np, choices[:i])
				np[i] = alt
				kids = append(kids, item{np})
			}
			// points beyond the prefix took choice 0: no preemption added
		}

		for k := len(kids) - 1; k >= 0; k-- {
			if len(it.prefix) == 0 && sc.ShardCount > 1 && k%sc.ShardCount != sc.ShardIndex {
				continue
			}

			stack = append(stack, kids[k])
		}
	}

	if res.Schedules == 0 {
		res.MinPoints = 0
	}

	return res
}

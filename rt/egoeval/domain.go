package egoeval

import "math"

// ---- value domains ---------------------------------------------------------

func intVals(t TID, level int) []Num {
	lo, hi := MinMax(t)

	if t.Class() == Signed {
		v := []int64{1, lo.I, hi.I}
		if level >= 1 {
			v = []int64{0, 1, -1, 5, lo.I, hi.I}
		}

		if level >= 2 {
			v = append(v, 2, -7, hi.I-1, lo.I+1)
		}

		out := []Num{}
		for _, x := range v {
			out = append(out, SI(t, x))
		}

		return out
	}

	v := []uint64{5, 200, hi.U}
	if level >= 1 {
		v = []uint64{0, 1, 5, 200, hi.U}
	}

	if level >= 2 {
		v = append(v, 2, 128, hi.U-1, uint64(1)<<(t.Bits()-1))
	}

	out := []Num{}
	for _, x := range v {
		out = append(out, UI(t, x))
	}

	return out
}

// Values lists the operand values of a type: level 0 = three representatives
// (mixed-type pairs of the quick tier), 1 = the boundary set, 2 = the full set.
func Values(t TID, level int) []Num {
	switch t.Class() {
	case Signed, Unsigned:
		return intVals(t, level)
	case Float:
		big := 3e38
		exact := 16777216.0

		if t == F64 {
			big, exact = 1e308, 9007199254740992.0
		}

		v := []float64{2.5, -1, big}
		if level >= 1 {
			v = []float64{0, 1, -1, 2.5, -0.5, big}
		}

		if level >= 2 {
			v = append(v, 0.5, 2.7, 1e10, exact, -big)
		}

		out := []Num{}
		for _, x := range v {
			out = append(out, FL(t, x))
		}

		return out
	}

	v := []complex128{1, complex(1.5, 2), -3}
	if level >= 1 {
		v = []complex128{0, 1, complex(1.5, 2), -3}
	}

	if level >= 2 {
		v = append(v, complex(0, 2), complex(2.5, 0.5))
	}

	out := []Num{}
	for _, x := range v {
		out = append(out, CX(t, x))
	}

	return out
}

// Constants lists the untyped constant literals: integer literals around every
// width boundary, float literals with and without a fraction, one imaginary.
func Constants(full bool) []Num {
	ints := []int64{1, 2, 100, 127, 128, 255, 256, 32768, 65536, 2147483648, 4294967296}
	floats := []float64{2.0, 2.5}

	if full {
		ints = []int64{0, 1, 2, 3, 100, 127, 128, 200, 255, 256, 32767, 32768, 65535, 65536, 2147483647, 2147483648, 4294967295, 4294967296, math.MaxInt64}
		floats = []float64{0.5, 2.0, 2.5, 2.7, 300.0, 1e10}
	}

	out := []Num{}

	for _, x := range ints {
		out = append(out, SI(Int, x))
	}

	for _, x := range floats {
		out = append(out, FL(F64, x))
	}

	return append(out, CX(C128, complex(0, 2)))
}

package egoeval

import (
	"bytes"
	"context"
	"fmt"
	"os"
	"os/exec"
	"path/filepath"
	"regexp"
	"strconv"
	"strings"
	"sync/atomic"
	"time"
)

var emitCall = regexp.MustCompile(`emit\("([^"]*)", (\w+)\)`)

// ForEgo turns a program written for Eval into the file handed to the real
// binary: every emit("tag", v) becomes fmt.Printf("OUT|tag|%T|%v\n", v, v).
func ForEgo(src string) string {
	out := emitCall.ReplaceAllString(Alone(src), `fmt.Printf("OUT|$1|%T|%v\n", $2, $2)`)

	return strings.Replace(out, "package main\n", "package main\nimport \"fmt\"\n", 1)
}

var fileSeq atomic.Int64

// EgoAvailable reports whether the driver built the plain binary.
func EgoAvailable() bool { return os.Getenv("VERIF_EGO") != "" }

// RunEgo runs the program in a fresh process of the plain `ego` binary:
// `ego run --types <mode> -o <opt> file`. The OUT| lines of its stdout are the
// observations; a non-zero exit status is the error. infra is non-nil when the
// process could not be run at all (never a verdict).
func RunEgo(src string, mode int, opt int) (res Result, infra error) {
	ego := os.Getenv("VERIF_EGO")
	if ego == "" {
		return res, fmt.Errorf("VERIF_EGO is not set")
	}

	dir := filepath.Join(os.Getenv("VERIF_SCRATCH"), "egofiles")
	if err := os.MkdirAll(dir, 0o755); err != nil {
		return res, err
	}

	file := filepath.Join(dir, "p"+strconv.FormatInt(fileSeq.Add(1), 10)+".ego")
	if err := os.WriteFile(file, []byte(ForEgo(src)), 0o644); err != nil {
		return res, err
	}

	defer os.Remove(file)

	// The deadline is a watchdog only: a run that hits it is an infrastructure
	// failure, not an observation.
	ctx, cancel := context.WithTimeout(context.Background(), 900*time.Second)
	defer cancel()

	cmd := exec.CommandContext(ctx, ego, "run", "--types", ModeNames[mode], "-o", strconv.Itoa(opt), file)
	cmd.Dir = dir
	cmd.Env = append(os.Environ(), "TMPDIR="+dir)

	var stdout, stderr bytes.Buffer

	cmd.Stdout, cmd.Stderr = &stdout, &stderr

	err := cmd.Run()
	if ctx.Err() != nil {
		return res, fmt.Errorf("ego run exceeded its watchdog")
	}

	for _, line := range strings.Split(stdout.String(), "\n") {
		if !strings.HasPrefix(line, "OUT|") {
			continue
		}

		f := strings.SplitN(line, "|", 4)
		if len(f) == 4 {
			res.Out = append(res.Out, Obs{Tag: f[1], T: f[2], V: f[3]})
		}
	}

	if err != nil {
		if _, isExit := err.(*exec.ExitError); !isExit {
			return res, err
		}

		res.Err = strings.TrimSpace(stderr.String())
		if res.Err == "" {
			res.Err = err.Error()
		}
	} else if s := strings.TrimSpace(stderr.String()); strings.HasPrefix(s, "Error:") {
		res.Err = s
	}

	return res, nil
}

var emitTag = regexp.MustCompile(`emit\("`)

const pkgHead = "package main\n"
const mainHead = "func main() {\n"

// ItemToken is replaced by the item number when programs are packed (and by 0
// when a program runs alone), so that helper functions and types declared
// before main get distinct names.
const ItemToken = "ITEM"

// Alone renders a program for running on its own.
func Alone(src string) string { return strings.ReplaceAll(src, ItemToken, "0") }

// Pack joins programs written for Eval into one. A program has the shape
// "package main", optional helper declarations (whose names contain
// ItemToken), "func main() {", body, "}". Program i becomes func item_i plus
// its helpers, its tags get the prefix "i.", and the new main calls every
// item inside its own try block so that an error ending one item is recorded
// ("i.!") and the next item still runs.
func Pack(progs []string) (string, error) {
	var b, calls strings.Builder

	b.WriteString(pkgHead)

	for i, p := range progs {
		at := strings.Index(p, mainHead)
		if !strings.HasPrefix(p, pkgHead) || at < 0 || !strings.HasSuffix(p, "}\n") {
			return "", fmt.Errorf("Pack: program %d is not in the canonical shape", i)
		}

		n := strconv.Itoa(i)
		helpers := strings.ReplaceAll(p[len(pkgHead):at], ItemToken, n)
		body := strings.ReplaceAll(p[at+len(mainHead):len(p)-2], ItemToken, n)

		helpers = emitTag.ReplaceAllString(helpers, `emit("`+n+`.`)
		body = emitTag.ReplaceAllString(body, `emit("`+n+`.`)

		fmt.Fprintf(&b, "%sfunc item_%d() {\n%s}\n", helpers, i, body)
		fmt.Fprintf(&calls, "    try {\n        item_%d()\n        fmt.Printf(\"OUT|%d.$|done|0\\n\")\n    } catch (e) {\n        fmt.Printf(\"OUT|%d.!|error|%%v\\n\", e)\n    }\n", i, i, i)
	}

	b.WriteString(mainHead + calls.String() + "}\n")

	return b.String(), nil
}

// RunEgoPacked runs the programs as items of one file in one fresh process of
// the real binary and splits the output per item. When the file as a whole
// does not get through (a compile-time rejection of one item, a crash), it is
// split in halves until every item has been run; single items run alone.
func RunEgoPacked(progs []string, mode int, opt int) ([]Result, error) {
	out := make([]Result, len(progs))

	if len(progs) == 0 {
		return out, nil
	}

	if len(progs) == 1 {
		r, err := RunEgo(progs[0], mode, opt)
		out[0] = r

		return out, err
	}

	src, err := Pack(progs)
	if err != nil {
		return nil, err
	}

	// The packed text already calls fmt.Printf in main; ForEgo adds the import
	// and rewrites the emit calls.
	res, err := RunEgo(src, mode, opt)
	if err != nil {
		return nil, err
	}

	seen := make([]bool, len(progs))

	for _, o := range res.Out {
		dot := strings.IndexByte(o.Tag, '.')
		if dot < 0 {
			continue
		}

		i, convErr := strconv.Atoi(o.Tag[:dot])
		if convErr != nil || i < 0 || i >= len(progs) {
			continue
		}

		seen[i] = true
		tag := o.Tag[dot+1:]

		if tag == "!" {
			out[i].Err = o.V

			continue
		}

		if tag == "$" {
			continue
		}

		out[i].Out = append(out[i].Out, Obs{Tag: tag, T: o.T, V: o.V})
	}

	complete := res.Err == ""

	for _, s := range seen {
		if !s {
			complete = false
		}
	}

	if complete {
		return out, nil
	}

	half := len(progs) / 2

	a, err := RunEgoPacked(progs[:half], mode, opt)
	if err != nil {
		return nil, err
	}

	b, err := RunEgoPacked(progs[half:], mode, opt)
	if err != nil {
		return nil, err
	}

	return append(a, b...), nil
}

// Package egoeval is the shared base of the language-level arithmetic checks
// (C03, C04): a model of Ego's fourteen numeric types with Go's own
// fixed-width arithmetic and conversions (num.go), an in-process evaluator
// that compiles and runs one program text the way `ego run` does (eval.go) and
// a runner for the real `ego` binary (proc.go).
package egoeval

import (
	"fmt"
	"math"
	"math/big"
	"strconv"
)

// TID names one of the numeric types of the language.
type TID int

const (
	I8 TID = iota
	I16
	I32
	I64
	Int
	U8
	U16
	U32
	U64
	Uint
	F32
	F64
	C64
	C128
	NTypes
)

// Type classes.
const (
	Signed = iota
	Unsigned
	Float
	Complex
)

var typeNames = [...]string{"int8", "int16", "int32", "int64", "int", "uint8", "uint16", "uint32", "uint64", "uint", "float32", "float64", "complex64", "complex128"}
var shortNames = [...]string{"i8", "i16", "i32", "i64", "int", "u8", "u16", "u32", "u64", "uint", "f32", "f64", "c64", "c128"}

// AllTypes lists every numeric type.
func AllTypes() []TID {
	out := make([]TID, NTypes)
	for i := range out {
		out[i] = TID(i)
	}

	return out
}

func (t TID) String() string { return typeNames[t] }

// Short is a compact name used in violation cells.
func (t TID) Short() string { return shortNames[t] }

// Class reports the arithmetic class of the type.
func (t TID) Class() int {
	switch {
	case t <= Int:
		return Signed
	case t <= Uint:
		return Unsigned
	case t <= F64:
		return Float
	}

	return Complex
}

// Bits is the width of an integer type (int and uint are 64 bits in Ego).
func (t TID) Bits() int {
	switch t {
	case I8, U8:
		return 8
	case I16, U16:
		return 16
	case I32, U32:
		return 32
	}

	return 64
}

// TypeByName maps the name Ego prints for a type ("byte" included) to a TID.
func TypeByName(s string) (TID, bool) {
	if s == "byte" {
		return U8, true
	}

	for i, n := range typeNames {
		if n == s {
			return TID(i), true
		}
	}

	return 0, false
}

// Num is one value of a numeric type. Signed values live in I, unsigned in U,
// floats in F (a float32 is held as the float64 of the float32 value) and
// complex values in C (a complex64 likewise widened).
type Num struct {
	T TID
	I int64
	U uint64
	F float64
	C complex128
}

// Constructors.
func SI(t TID, v int64) Num  { return Num{T: t, I: v} }
func UI(t TID, v uint64) Num { return Num{T: t, U: v} }
func FL(t TID, v float64) Num {
	if t == F32 {
		v = float64(float32(v))
	}

	return Num{T: t, F: v}
}
func CX(t TID, v complex128) Num {
	if t == C64 {
		v = complex128(complex64(v))
	}

	return Num{T: t, C: v}
}

// Go returns the value as the Go value of the matching Go type.
func (n Num) Go() any {
	switch n.T {
	case I8:
		return int8(n.I)
	case I16:
		return int16(n.I)
	case I32:
		return int32(n.I)
	case I64:
		return n.I
	case Int:
		return int(n.I)
	case U8:
		return uint8(n.U)
	case U16:
		return uint16(n.U)
	case U32:
		return uint32(n.U)
	case U64:
		return n.U
	case Uint:
		return uint(n.U)
	case F32:
		return float32(n.F)
	case F64:
		return n.F
	case C64:
		return complex64(n.C)
	}

	return n.C
}

// FromGo is the inverse of Go.
func FromGo(v any) (Num, bool) {
	switch x := v.(type) {
	case int8:
		return SI(I8, int64(x)), true
	case int16:
		return SI(I16, int64(x)), true
	case int32:
		return SI(I32, int64(x)), true
	case int64:
		return SI(I64, x), true
	case int:
		return SI(Int, int64(x)), true
	case uint8:
		return UI(U8, uint64(x)), true
	case uint16:
		return UI(U16, uint64(x)), true
	case uint32:
		return UI(U32, uint64(x)), true
	case uint64:
		return UI(U64, x), true
	case uint:
		return UI(Uint, uint64(x)), true
	case float32:
		return FL(F32, float64(x)), true
	case float64:
		return FL(F64, x), true
	case complex64:
		return CX(C64, complex128(x)), true
	case complex128:
		return CX(C128, x), true
	}

	return Num{}, false
}

// Text is the value as Go's (and Ego's) %v prints it. The sign of a zero is
// dropped: the language reference says nothing about negative zero.
func (n Num) Text() string { return CanonText(fmt.Sprintf("%v", n.Go())) }

// CanonText removes the sign of zeroes from a printed number.
func CanonText(s string) string {
	switch s {
	case "-0":
		return "0"
	}

	if len(s) > 2 && s[0] == '(' {
		// complex: (a+bi)
		out := []byte{}
		for i := 0; i < len(s); i++ {
			if s[i] == '-' && i+1 < len(s) && s[i+1] == '0' && (i+2 >= len(s) || s[i+2] == '+' || s[i+2] == '-' || s[i+2] == 'i') {
				if i > 1 {
					out = append(out, '+')
				}

				continue
			}

			out = append(out, s[i])
		}

		return string(out)
	}

	return s
}

func (n Num) String() string { return n.T.String() + "(" + n.Text() + ")" }

// IsZero reports a zero value (either sign).
func (n Num) IsZero() bool {
	switch n.T.Class() {
	case Signed:
		return n.I == 0
	case Unsigned:
		return n.U == 0
	case Float:
		return n.F == 0
	}

	return n.C == 0
}

// Embeds reports whether every value of type a is exactly representable in b.
func Embeds(a, b TID) bool {
	if a == b {
		return true
	}

	ca, cb := a.Class(), b.Class()

	mant := func(t TID) int {
		if t == F32 || t == C64 {
			return 24
		}

		return 53
	}

	switch ca {
	case Signed:
		switch cb {
		case Signed:
			return b.Bits() >= a.Bits()
		case Unsigned:
			return false
		default:
			return a.Bits()-1 <= mant(b)
		}
	case Unsigned:
		switch cb {
		case Signed:
			return b.Bits() > a.Bits()
		case Unsigned:
			return b.Bits() >= a.Bits()
		default:
			return a.Bits() <= mant(b)
		}
	case Float:
		switch cb {
		case Float, Complex:
			return mant(b) >= mant(a)
		}

		return false
	}

	// complex
	return cb == Complex && mant(b) >= mant(a)
}

var two63 = math.Ldexp(1, 63)
var two64 = math.Ldexp(1, 64)

func floatToInt(f float64, to TID) (Num, bool) {
	if math.IsNaN(f) || math.IsInf(f, 0) {
		return Num{}, false
	}

	t := math.Trunc(f)

	if to.Class() == Signed {
		lim := math.Ldexp(1, to.Bits()-1)
		if t < -lim || t >= lim {
			return Num{}, false
		}

		return SI(to, int64(t)), true
	}

	if t < 0 || t >= math.Ldexp(1, to.Bits()) {
		return Num{}, false
	}

	return UI(to, uint64(t)), true
}

func wrapSigned(v int64, to TID) int64 {
	switch to.Bits() {
	case 8:
		return int64(int8(v))
	case 16:
		return int64(int16(v))
	case 32:
		return int64(int32(v))
	}

	return v
}

func wrapUnsigned(v uint64, to TID) uint64 {
	switch to.Bits() {
	case 8:
		return uint64(uint8(v))
	case 16:
		return uint64(uint16(v))
	case 32:
		return uint64(uint32(v))
	}

	return v
}

// Conv converts a value the way a Go conversion T(v) between numeric types
// does: integers wrap, a float loses its fraction toward zero, wider floats
// round. ok is false where Go leaves the result implementation-defined (a
// float outside the integer's range, NaN) or has no conversion (complex to
// real): such cases are never asserted.
func Conv(a Num, to TID) (Num, bool) {
	if a.T == to {
		return a, true
	}

	switch a.T.Class() {
	case Signed:
		switch to.Class() {
		case Signed:
			return SI(to, wrapSigned(a.I, to)), true
		case Unsigned:
			return UI(to, wrapUnsigned(uint64(a.I), to)), true
		case Float:
			if to == F32 {
				return FL(to, float64(float32(a.I))), true
			}

			return FL(to, float64(a.I)), true
		default:
			if to == C64 {
				return CX(to, complex(float64(float32(a.I)), 0)), true
			}

			return CX(to, complex(float64(a.I), 0)), true
		}
	case Unsigned:
		switch to.Class() {
		case Signed:
			return SI(to, wrapSigned(int64(a.U), to)), true
		case Unsigned:
			return UI(to, wrapUnsigned(a.U, to)), true
		case Float:
			if to == F32 {
				return FL(to, float64(float32(a.U))), true
			}

			return FL(to, float64(a.U)), true
		default:
			if to == C64 {
				return CX(to, complex(float64(float32(a.U)), 0)), true
			}

			return CX(to, complex(float64(a.U), 0)), true
		}
	case Float:
		switch to.Class() {
		case Signed, Unsigned:
			return floatToInt(a.F, to)
		case Float:
			return FL(to, a.F), true
		default:
			return CX(to, complex(a.F, 0)), true
		}
	}

	if to.Class() == Complex {
		return CX(to, a.C), true
	}

	return Num{}, false
}

func (n Num) bigFloat() (*big.Float, bool) {
	switch n.T.Class() {
	case Signed:
		return new(big.Float).SetPrec(128).SetInt64(n.I), true
	case Unsigned:
		return new(big.Float).SetPrec(128).SetUint64(n.U), true
	case Float:
		if math.IsNaN(n.F) || math.IsInf(n.F, 0) {
			return nil, false
		}

		return new(big.Float).SetPrec(128).SetFloat64(n.F), true
	}

	if imag(n.C) != 0 || math.IsNaN(real(n.C)) || math.IsInf(real(n.C), 0) {
		return nil, false
	}

	return new(big.Float).SetPrec(128).SetFloat64(real(n.C)), true
}

// Lossless reports whether a is exactly representable in type to (no lost
// fraction, no overflow, no rounding, no dropped imaginary part).
func Lossless(a Num, to TID) bool {
	if a.T == to {
		return true
	}

	if a.T.Class() == Complex && to.Class() == Complex {
		b, _ := Conv(a, to)

		return b.C == a.C
	}

	x, ok := a.bigFloat()
	if !ok {
		return false
	}

	if to.Class() == Signed || to.Class() == Unsigned {
		if !x.IsInt() {
			return false
		}

		var lo, hi *big.Float

		if to.Class() == Signed {
			lo = new(big.Float).SetPrec(128).SetMantExp(big.NewFloat(-1), to.Bits()-1)
			hi = new(big.Float).SetPrec(128).SetMantExp(big.NewFloat(1), to.Bits()-1)
		} else {
			lo = new(big.Float).SetPrec(128)
			hi = new(big.Float).SetPrec(128).SetMantExp(big.NewFloat(1), to.Bits())
		}

		return x.Cmp(lo) >= 0 && x.Cmp(hi) < 0
	}

	b, ok := Conv(a, to)
	if !ok {
		return false
	}

	y, ok := b.bigFloat()

	return ok && x.Cmp(y) == 0
}

type integer interface {
	~int8 | ~int16 | ~int32 | ~int64 | ~int | ~uint8 | ~uint16 | ~uint32 | ~uint64 | ~uint
}

func intOp[T integer](op string, a, b T) (T, bool) {
	switch op {
	case "+":
		return a + b, true
	case "-":
		return a - b, true
	case "*":
		return a * b, true
	case "/":
		if b == 0 {
			return 0, false
		}

		return a / b, true
	case "%":
		if b == 0 {
			return 0, false
		}

		return a % b, true
	}

	return 0, false
}

type floating interface{ ~float32 | ~float64 }

func floatOp[T floating](op string, a, b T) (T, bool) {
	switch op {
	case "+":
		return a + b, true
	case "-":
		return a - b, true
	case "*":
		return a * b, true
	case "/":
		if b == 0 {
			return 0, false
		}

		return a / b, true
	}

	return 0, false
}

type cplx interface{ ~complex64 | ~complex128 }

func complexOp[T cplx](op string, a, b T) (T, bool) {
	switch op {
	case "+":
		return a + b, true
	case "-":
		return a - b, true
	case "*":
		return a * b, true
	case "/":
		if b == 0 {
			return 0, false
		}

		return a / b, true
	}

	return 0, false
}

// Arith computes a op b (+ - * / %) with Go's arithmetic of the operands'
// common type (both must have the same type). ok is false for an operation Go
// does not define on that type (% on floats) and for a zero divisor.
func Arith(op string, a, b Num) (Num, bool) {
	if a.T != b.T {
		return Num{}, false
	}

	t := a.T

	var (
		r  any
		ok bool
	)

	switch x := a.Go().(type) {
	case int8:
		r, ok = intOp(op, x, b.Go().(int8))
	case int16:
		r, ok = intOp(op, x, b.Go().(int16))
	case int32:
		r, ok = intOp(op, x, b.Go().(int32))
	case int64:
		r, ok = intOp(op, x, b.Go().(int64))
	case int:
		r, ok = intOp(op, x, b.Go().(int))
	case uint8:
		r, ok = intOp(op, x, b.Go().(uint8))
	case uint16:
		r, ok = intOp(op, x, b.Go().(uint16))
	case uint32:
		r, ok = intOp(op, x, b.Go().(uint32))
	case uint64:
		r, ok = intOp(op, x, b.Go().(uint64))
	case uint:
		r, ok = intOp(op, x, b.Go().(uint))
	case float32:
		r, ok = floatOp(op, x, b.Go().(float32))
	case float64:
		r, ok = floatOp(op, x, b.Go().(float64))
	case complex64:
		r, ok = complexOp(op, x, b.Go().(complex64))
	case complex128:
		r, ok = complexOp(op, x, b.Go().(complex128))
	}

	if !ok {
		return Num{}, false
	}

	n, ok := FromGo(r)
	if !ok || n.T != t {
		return Num{}, false
	}

	return n, true
}

// Compare computes a op b (== != < <= > >=) on two values of one type. ok is
// false for an ordering of complex values.
func Compare(op string, a, b Num) (bool, bool) {
	if a.T != b.T {
		return false, false
	}

	var c int // -1, 0, 1, 2 = unordered

	switch a.T.Class() {
	case Signed:
		c = cmp3(a.I < b.I, a.I == b.I)
	case Unsigned:
		c = cmp3(a.U < b.U, a.U == b.U)
	case Float:
		if math.IsNaN(a.F) || math.IsNaN(b.F) {
			c = 2
		} else {
			c = cmp3(a.F < b.F, a.F == b.F)
		}
	default:
		switch op {
		case "==":
			return a.C == b.C, true
		case "!=":
			return a.C != b.C, true
		}

		return false, false
	}

	switch op {
	case "==":
		return c == 0, true
	case "!=":
		return c != 0, true
	case "<":
		return c == -1, true
	case "<=":
		return c == -1 || c == 0, true
	case ">":
		return c == 1, true
	case ">=":
		return c == 1 || c == 0, true
	}

	return false, false
}

func cmp3(less, equal bool) int {
	if less {
		return -1
	}

	if equal {
		return 0
	}

	return 1
}

// Neg is Go's unary minus on the value's own type.
func Neg(a Num) Num {
	switch a.T.Class() {
	case Signed:
		return SI(a.T, wrapSigned(-a.I, a.T))
	case Unsigned:
		return UI(a.T, wrapUnsigned(-a.U, a.T))
	case Float:
		return FL(a.T, -a.F)
	}

	return CX(a.T, -a.C)
}

// VarInit renders the expression that creates a non-constant value of the
// type: an explicit cast of a literal, e.g. int8(-128), float32(2.5),
// complex64(1.5+2i). Unsigned values above the int64 range are written as the
// cast of the negative number that wraps to them (uint64(-1)), because Ego
// reads integer literals as int.
func (n Num) VarInit() string {
	return n.T.String() + "(" + n.litBody() + ")"
}

func (n Num) litBody() string {
	switch n.T.Class() {
	case Signed:
		return strconv.FormatInt(n.I, 10)
	case Unsigned:
		if n.U > math.MaxInt64 {
			return strconv.FormatInt(int64(n.U), 10)
		}

		return strconv.FormatUint(n.U, 10)
	case Float:
		return strconv.FormatFloat(n.F, 'g', -1, 64)
	}

	re, im := real(n.C), imag(n.C)
	if im == 0 {
		return strconv.FormatFloat(re, 'g', -1, 64)
	}

	if re == 0 {
		return strconv.FormatFloat(im, 'g', -1, 64) + "i"
	}

	return strconv.FormatFloat(re, 'g', -1, 64) + "+" + strconv.FormatFloat(im, 'g', -1, 64) + "i"
}

// ConstLit renders an untyped constant literal: an integer literal for an int
// value, a literal with a decimal point for a float64 value, an imaginary
// literal for a complex128 value with zero real part. Only non-negative
// values are literals (a leading minus is an operator).
func (n Num) ConstLit() string {
	switch n.T {
	case Int:
		return strconv.FormatInt(n.I, 10)
	case F64:
		s := strconv.FormatFloat(n.F, 'f', -1, 64)
		for _, c := range s {
			if c == '.' {
				return s
			}
		}

		return s + ".0"
	case C128:
		return strconv.FormatFloat(imag(n.C), 'g', -1, 64) + "i"
	}

	panic("ConstLit: not a literal kind: " + n.T.String())
}

// MinMax returns the extreme values of an integer type.
func MinMax(t TID) (Num, Num) {
	if t.Class() == Signed {
		hi := int64(1)<<(t.Bits()-1) - 1

		return SI(t, -hi-1), SI(t, hi)
	}

	if t.Bits() == 64 {
		return UI(t, 0), UI(t, math.MaxUint64)
	}

	return UI(t, 0), UI(t, uint64(1)<<t.Bits()-1)
}

type numJSON struct {
	Type string `json:"type"`
	Text string `json:"text"`
}

// MarshalJSON writes a value as {"type":"int8","text":"-128"}.
func (n Num) MarshalJSON() ([]byte, error) {
	return []byte(fmt.Sprintf(`{"type":%q,"text":%q}`, n.T.String(), fmt.Sprintf("%v", n.Go()))), nil
}

// UnmarshalJSON reads the form MarshalJSON writes.
func (n *Num) UnmarshalJSON(b []byte) error {
	var j numJSON

	if err := jsonUnmarshal(b, &j); err != nil {
		return err
	}

	if j.Type == "" {
		*n = Num{}

		return nil
	}

	t, ok := TypeByName(j.Type)
	if !ok {
		return fmt.Errorf("unknown numeric type %q", j.Type)
	}

	switch t.Class() {
	case Signed:
		v, err := strconv.ParseInt(j.Text, 10, 64)
		if err != nil {
			return err
		}

		*n = SI(t, v)
	case Unsigned:
		v, err := strconv.ParseUint(j.Text, 10, 64)
		if err != nil {
			return err
		}

		*n = UI(t, v)
	case Float:
		v, err := strconv.ParseFloat(j.Text, 64)
		if err != nil {
			return err
		}

		*n = FL(t, v)
	default:
		v, err := strconv.ParseComplex(j.Text, 128)
		if err != nil {
			return err
		}

		*n = CX(t, v)
	}

	return nil
}

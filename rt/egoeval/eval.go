package egoeval

import (
	"fmt"
	"strconv"
	"strings"
	"sync"

	"github.com/tucats/ego/internal/builtins"
	"github.com/tucats/ego/internal/cli/settings"
	"github.com/tucats/ego/internal/defs"
	"github.com/tucats/ego/internal/errors"
	"github.com/tucats/ego/internal/language/bytecode"
	"github.com/tucats/ego/internal/language/compiler"
	"github.com/tucats/ego/internal/language/data"
	"github.com/tucats/ego/internal/language/symbols"
	"github.com/tucats/ego/internal/language/tokenizer"
	"github.com/tucats/ego/internal/runtime/profile"
)

// Modes in the numbering of the defs package (strict=0, relaxed=1, dynamic=2).
const (
	Strict = iota
	Relaxed
	Dynamic
)

// ModeNames are the spellings of --types.
var ModeNames = []string{"strict", "relaxed", "dynamic"}

// Obs is one observation of a program: a tagged value with the type name and
// the text `fmt.Printf("%T|%v")` shows for it.
type Obs struct {
	Tag string `json:"tag"`
	T   string `json:"type"`
	V   string `json:"value"`
}

// Result is what one run of a program showed: its observations in order and
// the error that ended it ("" = ran to completion).
type Result struct {
	Out []Obs  `json:"out"`
	Err string `json:"error"`
}

// Lines renders the observations as the OUT| lines the program prints under
// the real binary.
func (r Result) Lines() string {
	var b strings.Builder

	for _, o := range r.Out {
		b.WriteString("OUT|" + o.Tag + "|" + o.T + "|" + o.V + "\n")
	}

	return b.String()
}

// Get returns the first observation carrying the tag.
func (r Result) Get(tag string) (Obs, bool) {
	for _, o := range r.Out {
		if o.Tag == tag {
			return o, true
		}
	}

	return Obs{}, false
}

var initOnce sync.Once

// Configure sets the process-wide settings the way `ego run --types <mode>
// -o <opt>` does before compiling (profile defaults, type mode, optimizer level
// and, from level 3 up, registers/constfold/globalcache). It must not be called
// while evaluations are in flight.
func Configure(mode int, opt int) {
	initOnce.Do(func() {
		_ = profile.InitProfileDefaults(profile.RuntimeDefaults)
		bytecode.GlobalCacheEnabled = true
		symbols.SerializeTableAccess = false

		builtins.AddBuiltins(&symbols.RootSymbolTable)
	})

	settings.SetDefault(defs.StaticTypesSetting, ModeNames[mode])
	settings.SetDefault(defs.OptimizerSetting, strconv.Itoa(opt))

	flag := ""
	if opt > 2 {
		flag = "true"
	}

	settings.SetDefault(defs.RegistersSetting, flag)
	settings.SetDefault(defs.ConstFoldSetting, flag)
	settings.SetDefault(defs.GlobalCacheSetting, flag)
}

// Eval compiles and runs one program text in this process the way
// `ego run <file>` does: fresh compiler, fresh symbol table carrying the type
// mode, entry point main. The program reports values by calling
// emit("tag", v), which records exactly what the statement
// fmt.Printf("OUT|%s|%T|%v\n", "tag", v, v) would print. Configure must have
// been called for the same mode.
func Eval(src string, mode int) (res Result) {
	defer func() {
		if r := recover(); r != nil {
			res.Err = fmt.Sprintf("GO-PANIC: %v", r)
		}
	}()

	st := symbols.NewSymbolTable("file verif.ego").Shared(true)
	st.SetAlways(defs.TypeCheckingVariable, mode)
	st.SetAlways(defs.ModeVariable, "run")
	st.SetAlways("emit", func(_ *symbols.SymbolTable, args data.List) (any, error) {
		v := args.Get(1)
		res.Out = append(res.Out, Obs{
			Tag: data.String(args.Get(0)),
			T:   data.TypeOf(v).TypeString(),
			V:   fmt.Sprintf("%v", v),
		})

		return nil, nil
	})

	comp := compiler.New("run").
		SetNormalization(settings.GetBool(defs.CaseNormalizedSetting)).
		SetExitEnabled(false).
		SetRoot(&symbols.RootSymbolTable).
		SetInteractive(false)

	t := tokenizer.New(Alone(src)+"\n@entrypoint main", true)

	comp.Fragment(true)

	b, err := comp.Compile("main 'verif.ego'", t)
	if !errors.Nil(err) {
		res.Err = "COMPILE: " + err.Error()

		return res
	}

	if b == nil {
		res.Err = "COMPILE: no code"

		return res
	}

	t.Close()

	err = bytecode.NewContext(st, b).SetTokenizer(t).Run()
	if errors.Equals(err, errors.ErrStop) {
		err = nil
	}

	if err != nil {
		res.Err = "RUN: " + err.Error()

		return res
	}

	_, _ = comp.Close()

	return res
}

package sqlgen

import "strings"

// The CTE scoping family: a WITH clause gives one of its queries the NAME OF A
// REAL TABLE, while another part of the same statement - outside the scope of
// that WITH - reads (or writes) the real table. Which references resolve to the
// real table is decided by SQL's scoping rules, not by the spelling; the
// generator lists the real table wherever a reference outside the WITH scope
// names it, and the harnesses let SQLite (EXPLAIN) confirm it.

// cteShape is one statement shape; $T is the colliding table / CTE name, $U the
// other table.
type cteShape struct {
	name  string
	kind  string
	text  string
	uses  []Use  // beyond the reads of $T / $U given below
	readT string // clause in which the real $T is read ("" = not at all)
	readU string
	admin bool
}

// body of a CTE that reads no table and has the columns of t1..t3.
const lit = "SELECT 1 AS id, 10 AS a, 'x' AS b"

var cteShapes = []cteShape{
	// the outer query reads the real table, a nested subquery defines the name
	{name: "outer.exists", kind: "select", text: "SELECT a FROM $T WHERE EXISTS (WITH $T AS (" + lit + ") SELECT a FROM $T)", readT: "select.from"},
	{name: "outer.in", kind: "select", text: "SELECT a FROM $T WHERE a IN (WITH $T AS (" + lit + ") SELECT a FROM $T)", readT: "select.from"},
	{name: "outer.scalar", kind: "select", text: "SELECT a, (WITH $T AS (" + lit + ") SELECT max(a) FROM $T) FROM $T", readT: "select.from"},
	{name: "outer.fromsub", kind: "select", text: "SELECT x.a FROM (WITH $T AS (" + lit + ") SELECT a FROM $T) AS x JOIN $T ON $T.a = x.a", readT: "select.from"},
	{name: "outer.join.on", kind: "select", text: "SELECT t1.a FROM t1 JOIN $T ON $T.a = t1.a AND EXISTS (WITH $T AS (" + lit + ") SELECT a FROM $T)", uses: rd("select.from", "t1"), readT: "select.from"},
	{name: "outer.having", kind: "select", text: "SELECT a FROM $T GROUP BY a HAVING count(*) >= (WITH $T AS (" + lit + ") SELECT min(id) FROM $T)", readT: "select.from"},
	{name: "outer.orderby", kind: "select", text: "SELECT a FROM $T ORDER BY (WITH $T AS (" + lit + ") SELECT max(a) FROM $T), a", readT: "select.from"},
	{name: "outer.upper", kind: "select", text: "SELECT a FROM $T WHERE EXISTS (WITH $TT AS (" + lit + ") SELECT a FROM $TT)", readT: "select.from"},
	{name: "outer.quoted", kind: "select", text: `SELECT a FROM $T WHERE EXISTS (WITH "$T" AS (` + lit + `) SELECT a FROM "$T")`, readT: "select.from"},
	{name: "outer.columns", kind: "select", text: "SELECT a FROM $T WHERE EXISTS (WITH $T (a) AS (SELECT 10) SELECT a FROM $T)", readT: "select.from"},
	{name: "outer.recursive", kind: "select", text: "SELECT a FROM $T WHERE a IN (WITH RECURSIVE $T (a) AS (SELECT 10 UNION ALL SELECT a + 10 FROM $T WHERE a < 40) SELECT a FROM $T)", readT: "select.from"},
	// two sibling subqueries: one defines the name, the other reads the table
	{name: "sibling.columns", kind: "select", text: "SELECT (WITH $T AS (" + lit + ") SELECT max(a) FROM $T), (SELECT max(a) FROM $T) FROM t1", uses: rd("select.from", "t1"), readT: "select.column"},
	{name: "sibling.where", kind: "select", text: "SELECT a FROM t1 WHERE a IN (SELECT a FROM $T) AND EXISTS (WITH $T AS (" + lit + ") SELECT a FROM $T)", uses: rd("select.from", "t1"), readT: "select.where"},
	{name: "sibling.where.first", kind: "select", text: "SELECT a FROM t1 WHERE EXISTS (WITH $T AS (" + lit + ") SELECT a FROM $T) AND a IN (SELECT a FROM $T)", uses: rd("select.from", "t1"), readT: "select.where"},
	{name: "sibling.compound", kind: "select", text: "SELECT a FROM $T UNION SELECT a FROM (WITH $T AS (" + lit + ") SELECT a FROM $T)", readT: "select.from"},
	{name: "sibling.compound.first", kind: "select", text: "SELECT a FROM (WITH $T AS (" + lit + ") SELECT a FROM $T) UNION SELECT a FROM $T", readT: "select.compound"},
	{name: "sibling.fromsubs", kind: "select", text: "SELECT x.a FROM (WITH $T AS (" + lit + ") SELECT a FROM $T) AS x, (SELECT a FROM $T) AS y", readT: "select.from"},
	// the name is defined two levels down, or inside another CTE's body
	{name: "deep.exists", kind: "select", text: "SELECT a FROM $T WHERE EXISTS (SELECT 1 FROM t1 WHERE EXISTS (WITH $T AS (" + lit + ") SELECT a FROM $T))", uses: rd("select.where", "t1"), readT: "select.from"},
	{name: "deep.ctebody", kind: "select", text: "WITH c AS (WITH $T AS (" + lit + ") SELECT a FROM $T) SELECT c.a FROM c JOIN $T ON $T.a = c.a", readT: "select.from"},
	{name: "deep.ctebody.sibling", kind: "select", text: "WITH c AS (WITH $T AS (" + lit + ") SELECT a FROM $T), d AS (SELECT a FROM $T) SELECT c.a FROM c, d", readT: "select.with"},
	// the statement's own WITH defines the name; what still reaches the table
	{name: "own.qualified", kind: "select", text: "WITH $T AS (" + lit + ") SELECT a FROM $T WHERE a IN (SELECT a FROM main.$T)", readT: "select.where"},
	{name: "own.body", kind: "select", text: "WITH $T AS (SELECT id, a, b FROM $T) SELECT a FROM $T", readT: "select.with"},
	{name: "own.body.qualified", kind: "select", text: "WITH $T AS (SELECT id, a, b FROM main.$T) SELECT a FROM $T", readT: "select.with"},
	{name: "own.earlier", kind: "select", text: "WITH c AS (SELECT a FROM $T), $T AS (" + lit + ") SELECT c.a FROM c, $T", readT: "select.with"},
	{name: "own.other", kind: "select", text: "WITH $T AS (SELECT id, a, b FROM $U) SELECT a FROM $T", readU: "select.with"},
	{name: "own.plain", kind: "select", text: "WITH $T AS (" + lit + ") SELECT a FROM $T"},
	// data modification
	{name: "insert.select", kind: "insert", text: "INSERT INTO t1 (id, a) SELECT id + 100, a FROM $T WHERE EXISTS (WITH $T AS (" + lit + ") SELECT a FROM $T)", uses: uses(Insert, "insert.target", "t1"), readT: "insert.select"},
	{name: "insert.with", kind: "insert", text: "INSERT INTO t1 (id, a) WITH $T AS (SELECT 100 AS id, 10 AS a) SELECT id, a FROM $T RETURNING (SELECT max(a) FROM $T)", uses: uses(Insert, "insert.target", "t1"), readT: "insert.returning"},
	{name: "insert.values", kind: "insert", text: "INSERT INTO t1 (id, a) VALUES (100, (WITH $T AS (" + lit + ") SELECT max(a) FROM $T)), (101, (SELECT max(a) FROM $T))", uses: uses(Insert, "insert.target", "t1"), readT: "insert.values"},
	{name: "insert.target", kind: "insert", text: "INSERT INTO $T (id, a) WITH $T AS (SELECT 100 AS id, 10 AS a) SELECT id, a FROM $T", uses: uses(Insert, "insert.target", "$T")},
	{name: "update.set", kind: "update", text: "UPDATE t1 SET a = (WITH $T AS (" + lit + ") SELECT max(a) FROM $T) WHERE a IN (SELECT a FROM $T)", uses: uses(Update, "update.target", "t1"), readT: "update.where"},
	{name: "update.where", kind: "update", text: "UPDATE t1 SET a = (SELECT max(a) FROM $T) WHERE EXISTS (WITH $T AS (" + lit + ") SELECT a FROM $T)", uses: uses(Update, "update.target", "t1"), readT: "update.set"},
	{name: "update.from", kind: "update", text: "UPDATE t1 SET a = $T.a FROM $T WHERE t1.id = $T.id AND EXISTS (WITH $T AS (" + lit + ") SELECT a FROM $T)", uses: uses(Update, "update.target", "t1"), readT: "update.from"},
	{name: "update.target", kind: "update", text: "UPDATE $T SET a = (WITH $T AS (" + lit + ") SELECT max(a) FROM $T)", uses: uses(Update, "update.target", "$T")},
	{name: "delete.where", kind: "delete", text: "DELETE FROM t1 WHERE a IN (SELECT a FROM $T) AND EXISTS (WITH $T AS (" + lit + ") SELECT a FROM $T)", uses: uses(Delete, "delete.target", "t1"), readT: "delete.where"},
	{name: "delete.target", kind: "delete", text: "DELETE FROM $T WHERE EXISTS (WITH $T AS (" + lit + ") SELECT a FROM $T)", uses: uses(Delete, "delete.target", "$T")},
	// schema statements that run a query
	{name: "createtable.as", kind: "createtable", text: "CREATE TABLE n1 AS SELECT a FROM $T WHERE EXISTS (WITH $T AS (" + lit + ") SELECT a FROM $T)", readT: "createtable.as", admin: true},
	{name: "createview", kind: "createview", text: "CREATE VIEW nv AS SELECT a FROM $T WHERE EXISTS (WITH $T AS (" + lit + ") SELECT a FROM $T)", readT: "createview.select", admin: true},
}

// cteFamily is every shape x every table of lv.PosTables, plus every expression
// position of every statement kind holding a subquery whose WITH clause reuses
// the name of a table the host statement itself reads or writes.
func cteFamily(lv Level) []Stmt {
	var out []Stmt

	for _, sh := range cteShapes {
		for _, t := range lv.PosTables {
			u := other(t)
			rep := strings.NewReplacer("$TT", strings.ToUpper(t), "$T", t, "$U", u)

			s := Stmt{
				SQL:     rep.Replace(sh.text),
				Kind:    sh.kind,
				Family:  "cte",
				Cell:    "cte:" + sh.name,
				Key:     "cte:" + sh.name + ":" + t,
				Admin:   sh.admin,
				Ordered: sh.name == "outer.orderby",
				Tags:    []string{"cteshadow:" + sh.name},
			}

			for _, x := range sh.uses {
				x.Table = rep.Replace(x.Table)
				s.Uses = append(s.Uses, x)
			}

			if sh.readT != "" {
				s.Uses = append(s.Uses, rd(sh.readT, t)...)
			}

			if sh.readU != "" {
				s.Uses = append(s.Uses, rd(sh.readU, u)...)
			}

			out = append(out, s)
		}
	}

	for _, p := range positions {
		seen := map[string]bool{}

		for _, hu := range p.uses {
			h := hu.Table
			if seen[h] {
				continue
			}

			seen[h] = true

			expr := "EXISTS (WITH " + h + " AS (" + lit + ") SELECT a FROM " + h + ")"
			out = append(out, Stmt{
				SQL:     strings.ReplaceAll(p.text, "$S", expr),
				Kind:    p.kind,
				Family:  "cte",
				Cell:    "cte:pos:" + p.name,
				Key:     "cte:pos:" + p.name + ":" + h,
				Uses:    p.uses,
				Admin:   p.admin,
				Ordered: p.name == "select.orderby",
				Tags:    []string{"cteshadow:pos"},
			})
		}
	}

	return out
}

// NumCTEShapes is the number of explicit CTE scoping shapes.
func NumCTEShapes() int { return len(cteShapes) }

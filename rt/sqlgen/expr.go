package sqlgen

import (
	"fmt"
	"strings"
)

// form is one expression production: a template over operand slots $0..$3 and
// the default atoms of the slots.
type form struct {
	name  string
	tmpl  string
	atoms []string // default operand per slot
	core  bool     // member of the reduced set used for depth 3
	reads string   // tables a subquery inside the form reads
	pg    bool     // spelling SQLite does not execute (ILIKE ...)
}

// class names the operator family of a form; violation cells are named by
// class so that one printer defect that shows with every operator of the same
// precedence level lands in one cell.
func (f form) class() string {
	switch f.name {
	case "bin=", "bin==", "bin<>", "bin!=":
		return "eq"
	case "bin<", "bin<=", "bin>", "bin>=":
		return "rel"
	case "bin<<", "bin>>", "bin&", "bin|":
		return "bit"
	case "bin+", "bin-":
		return "add"
	case "bin*", "bin/", "bin%":
		return "mul"
	case "bin||", "bin->", "bin->>":
		return "concat"
	case "binOR":
		return "or"
	case "binAND":
		return "and"
	case "isnull", "isnotnull":
		return "isnull"
	case "isnullkw", "notnullkw":
		return "postfixnull"
	case "is", "isnot", "isdistinct", "isnotdistinct":
		return "is"
	case "between", "notbetween":
		return "between"
	case "in", "notin", "in1", "in0":
		return "inlist"
	case "insub", "notinsub":
		return "insub"
	case "like", "notlike", "likeesc", "glob", "notglob", "regexp", "match", "ilike":
		return "like"
	case "abs", "coalesce", "max2", "countstar", "count", "countdistinct", "sumfilter", "groupconcat",
		"countstarfilter", "countfilter", "countdistinctfilter", "countnoargs", "countnoargsfilter", "groupconcatfilter":
		return "func"
	case "castint", "casttext", "castvarchar", "castdecimal", "castdouble":
		return "cast"
	case "case", "caseelse", "caseoperand", "case2":
		return "case"
	case "exists", "notexists":
		return "exists"
	case "scalar", "scalarcorr":
		return "scalarsub"
	case "rowvalue", "roweq":
		return "row"
	}

	return f.name
}

func (f form) arity() int { return len(f.atoms) }

func (f form) build(ops []string) string {
	s := f.tmpl
	for i := len(ops) - 1; i >= 0; i-- {
		s = strings.ReplaceAll(s, fmt.Sprintf("$%d", i), ops[i])
	}

	return s
}

var forms []form

func init() {
	n := []string{"a", "2", "3", "4"}  // numeric operands
	st := []string{"b", "'x%'", "'!'"} // string operands
	add := func(core bool, name, tmpl string, atoms []string, arity int) {
		forms = append(forms, form{name: name, tmpl: tmpl, atoms: atoms[:arity], core: core})
	}

	add(true, "neg", "- $0", n, 1)
	add(true, "pos", "+ $0", n, 1)
	add(true, "bitnot", "~ $0", n, 1)
	add(true, "not", "NOT $0", n, 1)

	coreOps := map[string]bool{"OR": true, "AND": true, "=": true, "<": true, "|": true, "+": true, "-": true, "*": true, "/": true, "||": true}

	for _, op := range []string{"OR", "AND", "=", "==", "<>", "!=", "<", "<=", ">", ">=", "<<", ">>", "&", "|", "+", "-", "*", "/", "%"} {
		add(coreOps[op], "bin"+op, "$0 "+op+" $1", n, 2)
	}

	add(true, "bin||", "$0 || $1", st, 2)
	add(false, "bin->", "$0 -> $1", []string{`'{"k":[1,2]}'`, "'$.k'"}, 2)
	add(false, "bin->>", "$0 ->> $1", []string{`'{"k":[1,2]}'`, "'$.k'"}, 2)

	add(true, "isnull", "$0 IS NULL", n, 1)
	add(false, "isnotnull", "$0 IS NOT NULL", n, 1)
	add(true, "isnullkw", "$0 ISNULL", n, 1)
	add(true, "notnullkw", "$0 NOTNULL", n, 1)
	add(true, "is", "$0 IS $1", n, 2)
	add(true, "isnot", "$0 IS NOT $1", n, 2)
	add(false, "isdistinct", "$0 IS DISTINCT FROM $1", n, 2)
	add(false, "isnotdistinct", "$0 IS NOT DISTINCT FROM $1", n, 2)
	add(true, "between", "$0 BETWEEN $1 AND $2", []string{"a", "5", "15"}, 3)
	add(false, "notbetween", "$0 NOT BETWEEN $1 AND $2", []string{"a", "5", "15"}, 3)
	add(true, "in", "$0 IN ($1, $2)", []string{"a", "10", "20"}, 3)
	add(true, "notin", "$0 NOT IN ($1, $2)", []string{"a", "10", "20"}, 3)
	add(false, "in1", "$0 IN ($1)", []string{"a", "10"}, 2)
	add(false, "in0", "$0 IN ()", n, 1)
	add(true, "like", "$0 LIKE $1", st, 2)
	add(true, "notlike", "$0 NOT LIKE $1", st, 2)
	add(false, "likeesc", "$0 LIKE $1 ESCAPE $2", []string{"b", "'x!%'", "'!'"}, 3)
	add(false, "glob", "$0 GLOB $1", []string{"b", "'x*'"}, 2)
	add(false, "notglob", "$0 NOT GLOB $1", []string{"b", "'x*'"}, 2)
	add(false, "regexp", "$0 REGEXP $1", st, 2)
	add(false, "match", "$0 MATCH $1", st, 2)
	forms = append(forms, form{name: "ilike", tmpl: "$0 ILIKE $1", atoms: st[:2], pg: true})
	add(true, "collate", "$0 COLLATE NOCASE", st, 1)

	add(true, "abs", "abs($0)", n, 1)
	add(false, "coalesce", "coalesce($0, $1)", n, 2)
	add(false, "max2", "max($0, $1)", n, 2)
	add(false, "countstar", "count(*)", n, 0)
	add(false, "count", "count($0)", n, 1)
	add(false, "countdistinct", "count(DISTINCT $0)", n, 1)
	add(false, "sumfilter", "sum($0) FILTER (WHERE $1)", []string{"a", "a > 5"}, 2)
	add(false, "groupconcat", "group_concat($0, $1)", []string{"b", "'-'"}, 2)
	// call-argument form {*, expr, DISTINCT expr, none, two} x trailing FILTER
	add(false, "countstarfilter", "count(*) FILTER (WHERE $0)", []string{"a > 5"}, 1)
	add(false, "countfilter", "count($0) FILTER (WHERE $1)", []string{"a", "a > 5"}, 2)
	add(false, "countdistinctfilter", "count(DISTINCT $0) FILTER (WHERE $1)", []string{"a", "a > 5"}, 2)
	add(false, "countnoargs", "count()", n, 0)
	add(false, "countnoargsfilter", "count() FILTER (WHERE $0)", []string{"a > 5"}, 1)
	add(false, "groupconcatfilter", "group_concat($0, $1) FILTER (WHERE $2)", []string{"b", "'-'", "a > 5"}, 3)
	add(true, "castint", "CAST($0 AS INTEGER)", n, 1)
	add(false, "casttext", "CAST($0 AS TEXT)", n, 1)
	add(false, "castvarchar", "CAST($0 AS VARCHAR(10))", n, 1)
	add(false, "castdecimal", "CAST($0 AS DECIMAL(10, 2))", n, 1)
	add(false, "castdouble", "CAST($0 AS DOUBLE PRECISION)", n, 1)
	add(true, "case", "CASE WHEN $0 THEN $1 END", n, 2)
	add(true, "caseelse", "CASE WHEN $0 THEN $1 ELSE $2 END", n, 3)
	add(false, "caseoperand", "CASE $0 WHEN $1 THEN $2 END", []string{"a", "10", "3"}, 3)
	add(false, "case2", "CASE WHEN $0 THEN $1 WHEN $2 THEN $3 END", []string{"a > 15", "1", "a > 5", "2"}, 4)
	add(true, "paren", "($0)", n, 1)
	add(true, "rowvalue", "($0, $1)", n, 2)
	add(false, "roweq", "($0, $1) = ($2, $3)", []string{"a", "b", "10", "'x'"}, 4)

	sub := func(name, tmpl string, atoms []string, arity int, reads string) {
		core := name == "insub" || name == "exists" || name == "scalar"
		forms = append(forms, form{name: name, tmpl: tmpl, atoms: atoms[:arity], reads: reads, core: core})
	}

	sub("insub", "$0 IN (SELECT a FROM t2)", n, 1, "t2")
	sub("notinsub", "$0 NOT IN (SELECT a FROM t2 WHERE a IS NOT NULL)", n, 1, "t2")
	sub("exists", "EXISTS (SELECT 1 FROM t2 WHERE t2.a = $0)", []string{"t1.a"}, 1, "t2")
	sub("notexists", "NOT EXISTS (SELECT 1 FROM t2 WHERE t2.a = $0)", []string{"t1.a"}, 1, "t2")
	sub("scalar", "(SELECT max(a) FROM t2)", n, 0, "t2")
	sub("scalarcorr", "(SELECT max(b) FROM t2 WHERE t2.a = $0)", []string{"t1.a"}, 1, "t2")
}

// etree is one expression shape.
type etree struct {
	text    string
	label   string
	class   string   // label with form names replaced by their classes
	simpler []string // labels
	reads   string
	pg      bool
}

// exprShapes enumerates expression shapes: depth 1 (form over atoms), depth 2
// (one operand replaced by a depth-1 shape; also by a parenthesized depth-1
// shape), and for depth 3 chains and two nested operands over the core forms.
func exprShapes(depth int) []etree {
	var out []etree

	d1 := map[string]etree{}

	for _, f := range forms {
		t := etree{text: f.build(f.atoms), label: f.name, class: f.class(), reads: f.reads, pg: f.pg}
		d1[f.name] = t
		out = append(out, t)
	}

	if depth < 2 {
		return out
	}

	nest := func(f form, slot int, inner etree, simp []string) etree {
		ops := append([]string(nil), f.atoms...)
		ops[slot] = inner.text

		return etree{
			text:    f.build(ops),
			label:   fmt.Sprintf("%s[%d:%s]", f.name, slot, inner.label),
			class:   fmt.Sprintf("%s[%d:%s]", f.class(), slot, inner.class),
			simpler: simp,
			reads:   strings.TrimSpace(f.reads + " " + inner.reads),
			pg:      f.pg || inner.pg,
		}
	}

	// depth 2: F(.. G(atoms) ..) and F(.. (G(atoms)) ..)
	d2 := map[string]etree{}

	for _, f := range forms {
		for slot := 0; slot < f.arity(); slot++ {
			for _, g := range forms {
				t := nest(f, slot, d1[g.name], []string{f.name, g.name})
				d2[t.label] = t
				out = append(out, t)
			}
		}
	}

	for _, f := range forms {
		if f.name == "paren" {
			continue
		}

		for slot := 0; slot < f.arity(); slot++ {
			for _, g := range forms {
				if g.name == "paren" {
					continue
				}

				pg := d2[fmt.Sprintf("paren[0:%s]", g.name)]
				t := nest(f, slot, pg, []string{fmt.Sprintf("%s[%d:paren]", f.name, slot), pg.label})
				out = append(out, t)
			}
		}
	}

	if depth < 3 {
		return out
	}

	var core []form

	for _, f := range forms {
		if f.core {
			core = append(core, f)
		}
	}

	// depth 3 chains over the core forms: F(G(H(atoms))); the paren middle
	// was already produced above.
	for _, f := range core {
		for fs := 0; fs < f.arity(); fs++ {
			for _, g := range core {
				if g.name == "paren" {
					continue
				}

				for gs := 0; gs < g.arity(); gs++ {
					for _, h := range core {
						inner := d2[fmt.Sprintf("%s[%d:%s]", g.name, gs, h.name)]
						t := nest(f, fs, inner, []string{fmt.Sprintf("%s[%d:%s]", f.name, fs, g.name), inner.label})
						out = append(out, t)
					}
				}
			}
		}
	}

	// two operands nested at once: F(G(atoms), H(atoms)) for the core forms of
	// arity >= 2.
	for _, f := range core {
		if f.arity() < 2 {
			continue
		}

		for _, g := range core {
			for _, h := range core {
				ops := append([]string(nil), f.atoms...)
				ops[0], ops[1] = d1[g.name].text, d1[h.name].text
				out = append(out, etree{
					text:    f.build(ops),
					label:   fmt.Sprintf("%s[0:%s,1:%s]", f.name, g.name, h.name),
					class:   fmt.Sprintf("%s[0:%s,1:%s]", f.class(), g.class(), h.class()),
					simpler: []string{fmt.Sprintf("%s[0:%s]", f.name, g.name), fmt.Sprintf("%s[1:%s]", f.name, h.name)},
				})
			}
		}
	}

	return out
}

// exprFamily places every expression shape in a SELECT result column over t1.
func exprFamily(depth int) []Stmt {
	var out []Stmt

	for _, t := range exprShapes(depth) {
		s := Stmt{
			SQL:    "SELECT " + t.text + " FROM t1",
			Kind:   "select",
			Family: "expr",
			Cell:   "expr:" + t.class,
			Key:    "expr:" + t.label,
			Uses:   cat(uses(Read, "select.from", "t1"), uses(Read, "select.column", t.reads)),
			NoExec: t.pg,
		}

		for _, l := range t.simpler {
			s.Simpler = append(s.Simpler, "expr:"+l)
		}

		out = append(out, s)
	}

	return out
}

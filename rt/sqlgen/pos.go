package sqlgen

import "strings"

// subform is an expression that holds a subquery reading table $T (and, for a
// few, the other table $U).
type subform struct {
	name string
	text string
	two  bool // also reads $U
}

var subforms = []subform{
	{name: "scalar", text: "(SELECT max(a) FROM $T)"},
	{name: "in", text: "a IN (SELECT a FROM $T)"},
	{name: "notin", text: "a NOT IN (SELECT a FROM $T WHERE a IS NOT NULL)"},
	{name: "exists", text: "EXISTS (SELECT 1 FROM $T)"},
	{name: "notexists", text: "NOT EXISTS (SELECT 1 FROM $T WHERE $T.a > 100)"},
	{name: "join", text: "(SELECT count(*) FROM $T JOIN $U ON $T.a = $U.a)", two: true},
	{name: "fromsub", text: "(SELECT max(a) FROM (SELECT a FROM $T))"},
	{name: "nested", text: "(SELECT max(a) FROM $T WHERE a IN (SELECT a FROM $U))", two: true},
	{name: "case", text: "CASE WHEN EXISTS (SELECT 1 FROM $T) THEN 1 ELSE 0 END"},
	{name: "casethen", text: "CASE WHEN 1 THEN (SELECT max(a) FROM $T) END"},
	{name: "func", text: "coalesce((SELECT max(a) FROM $T), 0)"},
	{name: "plus", text: "1 + (SELECT max(a) FROM $T)"},
	{name: "neg", text: "- (SELECT max(a) FROM $T)"},
	{name: "not", text: "NOT (SELECT max(a) FROM $T)"},
	{name: "compound", text: "(SELECT a FROM $T UNION SELECT a FROM $U ORDER BY 1 LIMIT 1)", two: true},
	{name: "cte", text: "(WITH c AS (SELECT a FROM $T) SELECT max(a) FROM c)"},
	{name: "cast", text: "CAST((SELECT max(a) FROM $T) AS INTEGER)"},
	{name: "paren", text: "((SELECT max(a) FROM $T))"},
	{name: "between", text: "a BETWEEN (SELECT min(a) FROM $T) AND (SELECT max(a) FROM $U)", two: true},
	{name: "like", text: "b LIKE (SELECT b FROM $T LIMIT 1)"},
	{name: "isnull", text: "(SELECT max(a) FROM $T) IS NOT NULL"},
	{name: "inlist", text: "a IN (1, (SELECT max(a) FROM $T))"},
	{name: "collate", text: "(SELECT max(b) FROM $T) COLLATE NOCASE"},
	{name: "roweq", text: "(a, b) = (SELECT a, b FROM $T LIMIT 1)"},
	{name: "schema", text: "(SELECT max(a) FROM main.$T)"},
	{name: "alias", text: "(SELECT max(x.a) FROM $T AS x)"},
	{name: "orderby", text: "(SELECT a FROM $T ORDER BY (SELECT max(a) FROM $U) LIMIT 1)", two: true},
	{name: "having", text: "(SELECT a FROM $T GROUP BY a HAVING count(*) >= (SELECT 1 FROM $U) LIMIT 1)", two: true},
	{name: "selectcol", text: "(SELECT (SELECT max(a) FROM $T))"},
	{name: "filter", text: "(SELECT sum(a) FILTER (WHERE a IN (SELECT a FROM $T)) FROM $U)", two: true},
}

// position is an expression slot $S of a statement.
type position struct {
	name  string
	kind  string
	class string // clause class: positions served by the same code share one
	text  string
	uses  []Use
	admin bool
}

var positions []position

func init() {
	p := func(name, kind, text string, admin bool, u ...[]Use) {
		class := name
		if strings.HasPrefix(name, "update.set") {
			class = "update.set"
		}

		positions = append(positions, position{name: name, kind: kind, class: class, text: text, admin: admin, uses: cat(u...)})
	}

	t1 := rd("select.from", "t1")

	p("select.column", "select", "SELECT $S FROM t1", false, t1)
	p("select.column.alias", "select", "SELECT id, $S AS x FROM t1", false, t1)
	p("select.nofrom", "select", "SELECT $S", false)
	p("select.from.sub.where", "select", "SELECT x.a FROM (SELECT a FROM t1 WHERE $S) AS x", false, t1)
	p("select.join.on", "select", "SELECT t1.a FROM t1 JOIN t3 ON t1.a = t3.a AND $S", false, rd("select.from", "t1 t3"))
	p("select.where", "select", "SELECT a FROM t1 WHERE $S", false, t1)
	p("select.where.and", "select", "SELECT a FROM t1 WHERE a > 0 AND $S", false, t1)
	p("select.groupby", "select", "SELECT count(*) FROM t1 GROUP BY $S", false, t1)
	p("select.having", "select", "SELECT a FROM t1 GROUP BY a HAVING $S", false, t1)
	p("select.orderby", "select", "SELECT a FROM t1 ORDER BY $S", false, t1)
	p("select.limit", "select", "SELECT a FROM t1 LIMIT $S", false, t1)
	p("select.offset", "select", "SELECT a FROM t1 LIMIT 1 OFFSET $S", false, t1)
	p("select.cte", "select", "WITH c AS (SELECT a FROM t1 WHERE $S) SELECT a FROM c", false, t1)
	p("select.compound", "select", "SELECT a FROM t1 UNION SELECT a FROM t1 WHERE $S", false, t1)
	p("select.funcarg", "select", "SELECT abs($S) FROM t1", false, t1)

	ins := uses(Insert, "insert.target", "t1")
	p("insert.values", "insert", "INSERT INTO t1 (id, a, b) VALUES (9, $S, 'n')", false, ins)
	p("insert.values.row2", "insert", "INSERT INTO t1 (id, a, b) VALUES (9, 1, 'n'), (10, $S, 'm')", false, ins)
	p("insert.select.column", "insert", "INSERT INTO t1 (id, a) SELECT id + 100, $S FROM t3", false, ins, rd("insert.select", "t3"))
	p("insert.select.where", "insert", "INSERT INTO t1 (id, a) SELECT id + 100, a FROM t3 WHERE $S", false, ins, rd("insert.select", "t3"))
	p("insert.conflict.set", "insert", "INSERT INTO t1 (id, a) VALUES (1, 5) ON CONFLICT (id) DO UPDATE SET a = $S", false, ins)
	p("insert.conflict.where", "insert", "INSERT INTO t1 (id, a) VALUES (1, 5) ON CONFLICT (id) DO UPDATE SET a = 6 WHERE $S", false, ins)
	p("insert.conflict.targetwhere", "insert", "INSERT INTO t1 (id, a) VALUES (1, 5) ON CONFLICT (id) WHERE $S DO NOTHING", false, ins)
	p("insert.returning", "insert", "INSERT INTO t1 (id, a) VALUES (9, 5) RETURNING $S", false, ins)

	upd := uses(Update, "update.target", "t1")
	p("update.set", "update", "UPDATE t1 SET a = $S", false, upd)
	p("update.set.second", "update", "UPDATE t1 SET b = 'k', a = $S WHERE id = 1", false, upd)
	p("update.set.row", "update", "UPDATE t1 SET (a, b) = ($S, 'k')", false, upd)
	p("update.where", "update", "UPDATE t1 SET a = 1 WHERE $S", false, upd)
	p("update.from.where", "update", "UPDATE t1 SET a = t3.a FROM t3 WHERE t1.id = t3.id AND $S", false, upd, rd("update.from", "t3"))
	p("update.from.sub", "update", "UPDATE t1 SET a = s.a FROM (SELECT id, a FROM t3 WHERE $S) AS s WHERE t1.id = s.id", false, upd, rd("update.from", "t3"))
	p("update.returning", "update", "UPDATE t1 SET a = 1 RETURNING $S", false, upd)

	del := uses(Delete, "delete.target", "t1")
	p("delete.where", "delete", "DELETE FROM t1 WHERE $S", false, del)
	p("delete.returning", "delete", "DELETE FROM t1 WHERE id = 1 RETURNING $S", false, del)
	p("delete.using.where", "delete", "DELETE FROM t1 USING t3 WHERE t1.id = t3.id AND $S", false, del, rd("delete.using", "t3"))

	p("createtable.as.where", "createtable", "CREATE TABLE n1 AS SELECT a FROM t1 WHERE $S", true, rd("createtable.as", "t1"))
	p("createtable.as.column", "createtable", "CREATE TABLE n1 AS SELECT $S AS x", true)
	p("createtable.default", "createtable", "CREATE TABLE n1 (x INTEGER DEFAULT ($S))", true)
	p("createtable.check", "createtable", "CREATE TABLE n1 (a INTEGER, b TEXT CHECK ($S))", true)
	p("createtable.tablecheck", "createtable", "CREATE TABLE n1 (a INTEGER, b TEXT, CHECK ($S))", true)
	p("createtable.generated", "createtable", "CREATE TABLE n1 (a INTEGER, b TEXT, g INTEGER GENERATED ALWAYS AS ($S) VIRTUAL)", true)
	p("createview.where", "createview", "CREATE VIEW nv AS SELECT a FROM t1 WHERE $S", true, rd("createview.select", "t1"))
	p("createview.column", "createview", "CREATE VIEW nv AS SELECT $S AS x", true)
	p("createindex.where", "createindex", "CREATE INDEX ni ON t1 (a) WHERE $S", true)
	p("createindex.column", "createindex", "CREATE INDEX ni ON t1 (($S))", true)
	p("altertable.add.default", "altertable", "ALTER TABLE t1 ADD COLUMN z INTEGER DEFAULT ($S)", true)
	p("altertable.add.check", "altertable", "ALTER TABLE t1 ADD COLUMN z INTEGER CHECK ($S)", true)
}

func other(t string) string {
	if t == "t3" {
		return "t2"
	}

	return "t3"
}

// posFamily is every position x every subquery form x every table of
// lv.PosTables; with PosNesting the whole statement is also placed one level
// down, as the body of a scalar subquery / EXISTS of a SELECT over t1.
func posFamily(lv Level) []Stmt {
	var out []Stmt

	for _, p := range positions {
		for _, f := range subforms {
			for _, t := range lv.PosTables {
				u := other(t)
				expr := strings.NewReplacer("$T", t, "$U", u).Replace(f.text)
				reads := t

				if f.two {
					reads += " " + u
				}

				key := "pos:" + p.name + ":" + f.name + ":" + t
				s := Stmt{
					SQL:    strings.ReplaceAll(p.text, "$S", expr),
					Kind:   p.kind,
					Family: "pos",
					Cell:   "pos:" + p.name + ":" + f.name,
					Key:    key,
					Uses:   cat(p.uses, rd(p.class, reads)),
					Admin:  p.admin,
				}

				if f.name != "scalar" {
					s.Simpler = append(s.Simpler, "pos:"+p.name+":scalar:"+t)
				}

				if p.name != "select.where" {
					s.Simpler = append(s.Simpler, "pos:select.where:"+f.name+":"+t)
				}

				s.Ordered = p.name == "select.orderby"

				out = append(out, s)

				if lv.PosNesting && p.kind == "select" && !strings.HasPrefix(p.text, "WITH") {
					n := s
					n.SQL = "SELECT id FROM t1 WHERE EXISTS (" + s.SQL + ")"
					n.Key = "posnested:" + p.name + ":" + f.name + ":" + t
					n.Cell = "posnested:" + p.name + ":" + f.name
					n.Simpler = []string{key}
					n.Ordered = false
					n.Uses = cat(rd("select.from", "t1"), rd("nested."+p.class, usedTables(s.Uses)))
					out = append(out, n)
				}
			}
		}
	}

	return out
}

func usedTables(us []Use) string {
	var names []string

	for _, u := range us {
		names = append(names, u.Table)
	}

	return strings.Join(names, " ")
}

// lexFamily is the spelling family: literals, identifier quoting, keywords used
// as identifiers, comments, case and white space. Each entry is its own class.
func lexFamily() []Stmt {
	var out []Stmt

	add := func(tag, kind, sql string, admin bool, u ...[]Use) {
		out = append(out, Stmt{SQL: sql, Kind: kind, Family: "lex", Key: "lex:" + tag, Cell: "lex:" + tag, Uses: cat(u...), Admin: admin, Tags: []string{tag}})
	}

	t1 := rd("select.from", "t1")

	for _, l := range [][2]string{
		{"int", "1"}, {"negint", "-1"}, {"float", "1.5"}, {"leadingdot", ".5"}, {"trailingdot", "1."}, {"exp", "1e3"},
		{"negexp", "1E-2"}, {"hex", "0x1F"}, {"bigint", "9223372036854775807"}, {"str", "'x'"}, {"empty", "''"},
		{"quote", "'it''s'"}, {"dquote", `'a"b'`}, {"dashes", "'--x'"}, {"blockcomment", "'/*x*/'"}, {"newline", "'line\nbreak'"},
		{"backslash", `'a\nb'`}, {"semicolon", "'a;b'"}, {"unicode", "'é☃'"}, {"blob", "X'AB01'"}, {"blobLower", "x'ab01'"},
		{"null", "NULL"}, {"nulllower", "null"}, {"true", "TRUE"}, {"false", "false"},
		{"qmark", "?"}, {"qnum", "?1"}, {"colon", ":n"}, {"at", "@n"}, {"dollar", "$1"},
		{"negparen", "-(1)"}, {"negneg", "- -1"}, {"negnegcol", "- - a"}, {"minusneg", "a - -1"}, {"minusnegcol", "1 - - a"},
		{"plusplus", "+ +1"}, {"bitnotneg", "~ -1"}, {"negbitnot", "- ~1"}, {"notnot", "NOT NOT a"},
		{"divstar", "a / 2 * 3"}, {"slashstar", "a / (2 * 3)"}, {"concatnum", "1 || 2"}, {"cmpchain", "1 < 2 < 3"},
		{"eqlt", "1 = 2 < 3"}, {"notin", "NOT a IN (10)"}, {"noteq", "NOT a = 10"}, {"negcollate", "- a COLLATE NOCASE"},
		{"betweenand", "a BETWEEN 5 AND 15 AND b = 'x'"}, {"isnoteq", "a IS NOT 10 = 0"}, {"orand", "a = 10 OR a = 20 AND b = 'x'"},
		{"escapestr", `e'a\nb'`},
	} {
		add("lit:"+l[0], "select", "SELECT "+l[1]+" FROM t1", false, t1)
		add("litwhere:"+l[0], "select", "SELECT id FROM t1 WHERE b = "+l[1]+" OR a = "+l[1], false, t1)
	}

	// call-argument form x trailing clause, OVER included (window calls are
	// outside the parser's grammar today; they are here for the day they are not)
	for _, arg := range [][2]string{{"star", "*"}, {"expr", "a"}, {"distinct", "DISTINCT a"}, {"none", ""}} {
		for _, tr := range [][2]string{
			{"none", ""}, {"filter", " FILTER (WHERE a > 5)"}, {"over", " OVER ()"}, {"overpartition", " OVER (PARTITION BY b ORDER BY a)"},
			{"filterover", " FILTER (WHERE a > 5) OVER ()"},
		} {
			add("call:"+arg[0]+":"+tr[0], "select", "SELECT count("+arg[1]+")"+tr[1]+" FROM t1", false, t1)
			add("callgroup:"+arg[0]+":"+tr[0], "select", "SELECT b, count("+arg[1]+")"+tr[1]+" AS n FROM t1 GROUP BY b ORDER BY b", false, t1)
		}
	}

	for _, l := range [][2]string{
		{"upper", "T1"}, {"dq", `"t1"`}, {"backtick", "`t1`"}, {"bracket", "[t1]"}, {"schema", "main.t1"}, {"schemadq", `"main"."t1"`},
		{"mixed", `main."t1"`},
	} {
		add("table:"+l[0], "select", "SELECT a FROM "+l[1], false, t1)
		add("tableupdate:"+l[0], "update", "UPDATE "+l[1]+" SET a = 1 WHERE id = 1", false, uses(Update, "update.target", "t1"))
	}

	for _, l := range [][2]string{
		{"dq", `"a"`}, {"bracket", "[a]"}, {"backtick", "`a`"}, {"upper", "A"}, {"qualified", "t1.a"}, {"qualifieddq", `t1."a"`},
		{"tabledq", `"t1".a`}, {"schemaqualified", "main.t1.a"}, {"rowid", "rowid"}, {"tstar", `"t1".*`},
	} {
		add("column:"+l[0], "select", "SELECT "+l[1]+" FROM t1", false, t1)
	}

	for _, l := range [][2]string{
		{"spaces", `"x y"`}, {"keyword", `"select"`}, {"keywordfrom", `"from"`}, {"keywordorder", `"order"`}, {"embeddedquote", `"x""y"`},
		{"upper", "XY"}, {"digitfirst", `"1x"`}, {"dollar", "x$y"}, {"bracketkw", "[group]"}, {"nonkeyword", `"plain"`},
	} {
		add("alias:"+l[0], "select", "SELECT a AS "+l[1]+" FROM t1 ORDER BY 1", false, t1)
		add("tablealias:"+l[0], "select", "SELECT "+l[1]+".a FROM t1 AS "+l[1], false, t1)
		add("cte:"+l[0], "select", "WITH "+l[1]+" AS (SELECT a FROM t1) SELECT a FROM "+l[1], false, t1)
	}

	k := rd("select.from", "kw")
	add("kwcol:select", "select", `SELECT "order" FROM kw`, false, k)
	add("kwcol:qualified", "select", `SELECT kw."order", "x y" FROM kw ORDER BY "order" DESC`, false, k)
	add("kwcol:where", "select", `SELECT "group" FROM kw WHERE "order" = 1 AND "x y" = 'z'`, false, k)
	add("kwcol:groupby", "select", `SELECT "group", count(*) FROM kw GROUP BY "group"`, false, k)
	add("kwcol:insert", "insert", `INSERT INTO kw ("order", "group") VALUES (3, 'i')`, false, uses(Insert, "insert.target", "kw"))
	add("kwcol:update", "update", `UPDATE kw SET "order" = 5 WHERE "group" = 'g'`, false, uses(Update, "update.target", "kw"))
	add("kwcol:updaterow", "update", `UPDATE kw SET ("order", "x y") = (5, 'v')`, false, uses(Update, "update.target", "kw"))
	add("kwcol:delete", "delete", `DELETE FROM kw WHERE "order" = 1`, false, uses(Delete, "delete.target", "kw"))
	add("kwcol:returning", "delete", `DELETE FROM kw RETURNING "order"`, false, uses(Delete, "delete.target", "kw"))
	add("kwcol:using", "select", `SELECT kw."order" FROM kw JOIN kw AS k2 USING ("order")`, false, k)
	add("kwcol:conflict", "insert", `INSERT INTO t1 (id, a) VALUES (1, 2) ON CONFLICT ("id") DO UPDATE SET "a" = 3`, false, uses(Insert, "insert.target", "t1"))
	add("kwcol:createindex", "createindex", `CREATE INDEX ni ON kw ("order", "x y")`, true)
	add("kwcol:createtable", "createtable", `CREATE TABLE "select" ("from" INTEGER, "x y" TEXT)`, true)
	add("kwcol:createtablepk", "createtable", `CREATE TABLE n1 ("order" INTEGER, "to" TEXT, PRIMARY KEY ("order", "to"))`, true)
	add("kwcol:fk", "createtable", `CREATE TABLE n1 (y INTEGER, FOREIGN KEY (y) REFERENCES kw ("order"))`, true)
	add("kwcol:ref", "createtable", `CREATE TABLE n1 (y INTEGER REFERENCES kw ("order"))`, true)
	add("kwcol:check", "createtable", `CREATE TABLE n1 ("check" INTEGER CHECK ("check" > 0))`, true)
	add("kwcol:constraintname", "createtable", `CREATE TABLE n1 (y INTEGER CONSTRAINT "unique" UNIQUE)`, true)
	add("kwcol:collation", "select", `SELECT b FROM t1 ORDER BY b COLLATE "nocase"`, false, t1)
	add("kwcol:renamecol", "altertable", `ALTER TABLE kw RENAME COLUMN "order" TO "group by"`, true)
	add("kwcol:dropcol", "altertable", `ALTER TABLE kw DROP COLUMN "x y"`, true)
	add("kwcol:addcol", "altertable", `ALTER TABLE kw ADD COLUMN "where" INTEGER`, true)
	add("kwcol:renametable", "altertable", `ALTER TABLE t1 RENAME TO "table"`, true)
	add("kwcol:view", "createview", `CREATE VIEW "view" ("select", "x y") AS SELECT a, b FROM t1`, true, rd("createview.select", "t1"))
	add("kwcol:dropview", "dropview", `DROP VIEW "v1"`, true)
	add("kwcol:savepoint", "txn", `SAVEPOINT "commit"`, false)
	add("kwcol:func", "select", `SELECT "abs"(a) FROM t1`, false, t1)
	add("kwcol:indexedby", "select", `SELECT a FROM t1 INDEXED BY "i1"`, false, t1)

	d := rd("select.from", "s.t2")
	add("dotname:select", "select", `SELECT a FROM "s.t2"`, false, d)
	add("dotname:join", "select", `SELECT t1.a FROM t1 JOIN "s.t2" AS s ON s.a = t1.a`, false, t1, d)
	add("dotname:sub", "select", `SELECT a FROM t1 WHERE a IN (SELECT a FROM "s.t2")`, false, t1, rd("select.where", "s.t2"))
	add("dotname:insert", "insert", `INSERT INTO "s.t2" (id, a) VALUES (5, 5)`, false, uses(Insert, "insert.target", "s.t2"))
	add("dotname:update", "update", `UPDATE "s.t2" SET a = 1`, false, uses(Update, "update.target", "s.t2"))
	add("dotname:delete", "delete", `DELETE FROM "s.t2"`, false, uses(Delete, "delete.target", "s.t2"))
	add("dotname:ref", "createtable", `CREATE TABLE n1 (y INTEGER REFERENCES "s.t2" (id))`, true)
	add("dotname:fk", "createtable", `CREATE TABLE n1 (y INTEGER, FOREIGN KEY (y) REFERENCES "s.t2" (id))`, true)
	add("dotname:drop", "droptable", `DROP TABLE "s.t2"`, true)
	add("dotname:createindex", "createindex", `CREATE INDEX ni ON "s.t2" (a)`, true)

	add("comment:line", "select", "SELECT a -- the column\nFROM t1", false, t1)
	add("comment:block", "select", "SELECT /* c */ a FROM /* d */ t1", false, t1)
	add("comment:trailing", "select", "SELECT a FROM t1 -- done", false, t1)
	add("comment:dashinstring", "select", "SELECT a FROM t1 WHERE b = '--' -- tail", false, t1)
	add("space:semicolon", "select", "SELECT a FROM t1;", false, t1)
	add("space:newlines", "select", "SELECT\n\ta\nFROM\n\tt1\nWHERE\n\ta>5", false, t1)
	add("space:tight", "select", "SELECT a+1,b||'x',-a FROM t1 WHERE a>=5 AND(b<>'y')", false, t1)
	add("case:lower", "select", "select a from t1 where a is not null and b like 'x%' order by a desc limit 2", false, t1)
	add("case:mixed", "select", "Select Distinct A From T1 Where A Between 5 And 25 Order By A", false, t1)
	add("case:lowerddl", "createtable", "create table n1 (x integer primary key autoincrement, y text not null default 'q')", true)
	add("case:lowerdml", "insert", "insert or replace into t1 (id, a, b) values (1, 2, 'r')", false, uses(Insert, "insert.target", "t1"))

	for i := range out {
		if strings.Contains(strings.ToLower(out[i].SQL), "order by") {
			out[i].Ordered = true
		}

		if strings.HasPrefix(out[i].Key, "lex:lit") && strings.HasSuffix(out[i].Key, ":escapestr") {
			out[i].NoExec = true
		}
	}

	return out
}

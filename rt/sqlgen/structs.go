package sqlgen

import (
	"sort"
	"strings"
)

// alt is one alternative text of a clause. "-" renders as nothing.
type alt struct {
	name    string
	text    string
	uses    []Use
	q       string // column qualifier this alternative imposes ("x.", "t1.")
	ordered bool
	noexec  bool
}

// dim is one clause of a skeleton: its default and the alternatives.
type dim struct {
	field string
	def   alt
	alts  []alt
}

// skel is a statement skeleton: clauses in source order.
type skel struct {
	name   string
	kind   string
	family string
	admin  bool
	q      string // default column qualifier
	dims   []dim
}

func kw(text string) dim { return dim{field: "", def: alt{text: text}} }

func a(name, text string, u ...[]Use) alt {
	return alt{name: name, text: text, uses: cat(u...)}
}

func aq(name, text, q string, u ...[]Use) alt {
	return alt{name: name, text: text, q: q, uses: cat(u...)}
}

func ord(name, text string) alt { return alt{name: name, text: text, ordered: true} }

// render builds the statement for one choice of alternatives (nil = default).
func (sk skel) render(choice map[int]alt) Stmt {
	var (
		parts []string
		us    []Use
		names []string
		q     = sk.q
		st    = Stmt{Kind: sk.kind, Family: sk.family, Admin: sk.admin}
	)

	for i, d := range sk.dims {
		c, chosen := choice[i]
		if !chosen {
			c = d.def
		} else {
			names = append(names, d.field+"="+c.name)
		}

		if c.q != "" {
			q = c.q
		}

		if c.text != "" && c.text != "-" {
			parts = append(parts, c.text)
		}

		us = append(us, c.uses...)
		st.Ordered = st.Ordered || c.ordered
		st.NoExec = st.NoExec || c.noexec
	}

	text := strings.Join(parts, " ")
	text = strings.ReplaceAll(text, "( ", "(")
	text = strings.ReplaceAll(text, " )", ")")
	text = strings.ReplaceAll(text, " ,", ",")

	t := strings.TrimSuffix(q, ".")
	if t == "" {
		t = "t1"
	}

	text = strings.NewReplacer("{a}", q+"a", "{b}", q+"b", "{id}", q+"id", "{T}", t).Replace(text)

	sort.Strings(names)

	st.SQL = text
	st.Uses = us
	st.Key = sk.name + ":" + strings.Join(names, ",")
	st.Cell = st.Key

	for i := range names {
		rest := append(append([]string(nil), names[:i]...), names[i+1:]...)
		st.Simpler = append(st.Simpler, sk.name+":"+strings.Join(rest, ","))
	}

	return st
}

// enumerate yields every statement with at most k clauses switched away from
// the default.
func (sk skel) enumerate(k int) []Stmt {
	var (
		out  []Stmt
		free []int
	)

	for i, d := range sk.dims {
		if len(d.alts) > 0 {
			free = append(free, i)
		}
	}

	subsetsUpTo(len(free), k, func(idx []int) {
		choice := map[int]alt{}

		var rec func(n int)

		rec = func(n int) {
			if n == len(idx) {
				out = append(out, sk.render(choice))

				return
			}

			d := free[idx[n]]
			for _, c := range sk.dims[d].alts {
				choice[d] = c
				rec(n + 1)
			}

			delete(choice, d)
		}

		rec(0)
	})

	return out
}

func rd(clause, tables string) []Use { return uses(Read, clause, tables) }

var orActions = []alt{a("replace", "OR REPLACE"), a("ignore", "OR IGNORE"), a("abort", "OR ABORT"), a("fail", "OR FAIL"), a("rollback", "OR ROLLBACK")}

func skeletons() []skel {
	const j = "select.from"

	selectSk := skel{name: "select", kind: "select", family: "select", dims: []dim{
		{field: "with", alts: []alt{
			a("cte", "WITH c AS (SELECT a FROM t2)", rd("select.with", "t2")),
			a("ctecols", "WITH c (a) AS (SELECT a FROM t2)", rd("select.with", "t2")),
			a("recursive", "WITH RECURSIVE c (a) AS (SELECT 1 UNION ALL SELECT a + 1 FROM c WHERE a < 3)"),
			a("cte2", "WITH c AS (SELECT a FROM t2), d AS (SELECT a FROM t3)", rd("select.with", "t2 t3")),
		}},
		kw("SELECT"),
		{field: "distinct", alts: []alt{a("distinct", "DISTINCT"), a("all", "ALL")}},
		{field: "cols", def: alt{text: "{a}"}, alts: []alt{
			a("star", "*"), a("tstar", "{T}.*"), a("as", "{a} AS x"), a("alias", "{a} x"), a("two", "{a}, {b}"),
			a("qalias", `{a} AS "x y"`), a("one", "1"), a("agg", "count(*)"), a("maxas", "max({a}) AS m"),
		}},
		{field: "from", def: alt{text: "FROM t1", uses: rd(j, "t1")}, alts: []alt{
			a("none", "-"),
			aq("as", "FROM t1 AS x", "x.", rd(j, "t1")),
			aq("alias", "FROM t1 x", "x.", rd(j, "t1")),
			a("schema", "FROM main.t1", rd(j, "t1")),
			a("indexed", "FROM t1 INDEXED BY i1", rd(j, "t1")),
			a("notindexed", "FROM t1 NOT INDEXED", rd(j, "t1")),
			aq("comma", "FROM t1, t2", "t1.", rd(j, "t1 t2")),
			aq("join", "FROM t1 JOIN t2 ON t1.a = t2.a", "t1.", rd(j, "t1 t2")),
			aq("innerusing", "FROM t1 INNER JOIN t2 USING (a)", "t1.", rd(j, "t1 t2")),
			aq("using2", "FROM t1 JOIN t2 USING (a, b)", "t1.", rd(j, "t1 t2")),
			aq("left", "FROM t1 LEFT JOIN t2 ON t1.a = t2.a", "t1.", rd(j, "t1 t2")),
			aq("leftouter", "FROM t1 LEFT OUTER JOIN t2 ON t1.a = t2.a", "t1.", rd(j, "t1 t2")),
			aq("right", "FROM t1 RIGHT JOIN t2 ON t1.a = t2.a", "t1.", rd(j, "t1 t2")),
			aq("fullouter", "FROM t1 FULL OUTER JOIN t2 ON t1.a = t2.a", "t1.", rd(j, "t1 t2")),
			aq("full", "FROM t1 FULL JOIN t2 ON t1.a = t2.a", "t1.", rd(j, "t1 t2")),
			aq("cross", "FROM t1 CROSS JOIN t2", "t1.", rd(j, "t1 t2")),
			aq("natural", "FROM t1 NATURAL JOIN t2", "t1.", rd(j, "t1 t2")),
			aq("naturalleft", "FROM t1 NATURAL LEFT JOIN t2", "t1.", rd(j, "t1 t2")),
			aq("joinnoon", "FROM t1 JOIN t2", "t1.", rd(j, "t1 t2")),
			aq("join3", "FROM t1 JOIN t2 ON t1.a = t2.a JOIN t3 ON t2.a = t3.a", "t1.", rd(j, "t1 t2 t3")),
			aq("joinparenright", "FROM t1 JOIN (t2 JOIN t3 ON t2.a = t3.a) ON t1.a = t2.a", "t1.", rd(j, "t1 t2 t3")),
			aq("joinparenleft", "FROM (t1 JOIN t2 ON t1.a = t2.a) JOIN t3 ON t1.a = t3.a", "t1.", rd(j, "t1 t2 t3")),
			aq("joinparenwhole", "FROM (t1 JOIN t2 ON t1.a = t2.a)", "t1.", rd(j, "t1 t2")),
			aq("tableparen", "FROM (t1)", "t1.", rd(j, "t1")),
			aq("sub", "FROM (SELECT a, b, id FROM t2) AS x", "x.", rd(j, "t2")),
			aq("subalias", "FROM (SELECT a, b, id FROM t2) x", "x.", rd(j, "t2")),
			a("subnoalias", "FROM (SELECT a, b, id FROM t2)", rd(j, "t2")),
			aq("subcols", "FROM (SELECT a, b, id FROM t2) AS x (a, b, id)", "x.", rd(j, "t2")),
			aq("subunion", "FROM (SELECT a, b, id FROM t2 UNION SELECT a, b, id FROM t3) AS x", "x.", rd(j, "t2 t3")),
			aq("joinsub", "FROM t1 JOIN (SELECT a FROM t2) AS s ON s.a = t1.a", "t1.", rd(j, "t1 t2")),
			a("view", "FROM v1", rd(j, "v1")),
			a("cte", "FROM c"),
			aq("ctejoin", "FROM t1 JOIN c ON c.a = t1.a", "t1.", rd(j, "t1")),
		}},
		{field: "where", alts: []alt{
			a("cmp", "WHERE {a} > 5"),
			a("insub", "WHERE {a} IN (SELECT a FROM t3)", rd("select.where", "t3")),
			a("logic", "WHERE {a} = 10 OR {b} = 'y' AND {a} IS NULL"),
		}},
		{field: "group", alts: []alt{
			a("one", "GROUP BY {a}"), a("two", "GROUP BY {a}, {b}"), a("having", "GROUP BY {a} HAVING count(*) > 1"),
			a("havingsub", "GROUP BY {a} HAVING max({id}) IN (SELECT id FROM t3)", rd("select.having", "t3")),
		}},
		{field: "compound", alts: []alt{
			a("union", "UNION SELECT a FROM t2", rd("select.compound", "t2")),
			a("unionall", "UNION ALL SELECT a FROM t2", rd("select.compound", "t2")),
			a("intersect", "INTERSECT SELECT a FROM t2", rd("select.compound", "t2")),
			a("except", "EXCEPT SELECT a FROM t2", rd("select.compound", "t2")),
			a("chain", "UNION SELECT a FROM t2 UNION ALL SELECT a FROM t3", rd("select.compound", "t2 t3")),
			a("chainmixed", "UNION ALL SELECT a FROM t2 EXCEPT SELECT a FROM t3", rd("select.compound", "t2 t3")),
		}},
		{field: "order", alts: []alt{
			ord("pos", "ORDER BY 1"), ord("desc", "ORDER BY {a} DESC"), ord("asc", "ORDER BY {a} ASC"),
			ord("collate", "ORDER BY {b} COLLATE NOCASE"), ord("nullsfirst", "ORDER BY {a} NULLS FIRST"),
			ord("descnullslast", "ORDER BY {a} DESC NULLS LAST"), ord("two", "ORDER BY {a}, {b} DESC"),
		}},
		{field: "limit", alts: []alt{a("n", "LIMIT 2"), a("offset", "LIMIT 2 OFFSET 1"), a("comma", "LIMIT 1, 2")}},
	}}

	returning := func(kind string) dim {
		return dim{field: "returning", alts: []alt{
			a("star", "RETURNING *"), a("cols", "RETURNING id, a AS x"),
			a("sub", "RETURNING (SELECT count(*) FROM t2)", rd(kind+".returning", "t2")),
		}}
	}

	insertSk := skel{name: "insert", kind: "insert", family: "dml", dims: []dim{
		kw("INSERT"),
		{field: "or", alts: orActions},
		kw("INTO"),
		{field: "target", def: alt{text: "t1", uses: uses(Insert, "insert.target", "t1")}, alts: []alt{
			a("schema", "main.t1", uses(Insert, "insert.target", "t1")),
			a("as", "t1 AS x", uses(Insert, "insert.target", "t1")),
		}},
		{field: "columns", def: alt{text: "(id, a, b)"}, alts: []alt{a("none", "-"), a("reorder", "(id, b, a)")}},
		{field: "source", def: alt{text: "VALUES (7, 70, 'n')"}, alts: []alt{
			a("conflictrow", "VALUES (1, 70, 'n')"),
			a("multi", "VALUES (7, 70, 'n'), (8, NULL, 'm')"),
			a("default", "DEFAULT VALUES"),
			a("select", "SELECT id + 100, a, b FROM t2", rd("insert.select", "t2")),
			a("selectself", "SELECT id + 100, a, b FROM t1", rd("insert.select", "t1")),
			a("compound", "SELECT id + 100, a, b FROM t2 UNION ALL SELECT id + 200, a, b FROM t3", rd("insert.select", "t2 t3")),
			a("with", "WITH c AS (SELECT id, a, b FROM t2) SELECT id + 100, a, b FROM c", rd("insert.select", "t2")),
			a("valsub", "VALUES (7, (SELECT max(a) FROM t3), 'n')", rd("insert.values", "t3")),
		}},
		{field: "conflict", alts: []alt{
			a("nothing", "ON CONFLICT DO NOTHING"),
			a("idnothing", "ON CONFLICT (id) DO NOTHING"),
			a("update", "ON CONFLICT (id) DO UPDATE SET a = excluded.a"),
			a("updatewhere", "ON CONFLICT (id) DO UPDATE SET a = excluded.a, b = 'z' WHERE t1.a > 5"),
			a("updaterow", "ON CONFLICT (id) DO UPDATE SET (a, b) = (1, 'k')"),
			a("updatesub", "ON CONFLICT (id) DO UPDATE SET a = (SELECT max(a) FROM t3)", rd("insert.conflict.set", "t3")),
			a("targetwhere", "ON CONFLICT (id) WHERE id > 0 DO NOTHING"),
			a("targetcollate", "ON CONFLICT (id COLLATE BINARY) DO UPDATE SET a = 0"),
			a("targetdesc", "ON CONFLICT (id DESC) DO NOTHING"),
		}},
		returning("insert"),
	}}

	updateSk := skel{name: "update", kind: "update", family: "dml", q: "t1.", dims: []dim{
		kw("UPDATE"),
		{field: "or", alts: orActions},
		{field: "target", def: alt{text: "t1", uses: uses(Update, "update.target", "t1")}, alts: []alt{
			a("schema", "main.t1", uses(Update, "update.target", "t1")),
			aq("as", "t1 AS x", "x.", uses(Update, "update.target", "t1")),
		}},
		kw("SET"),
		{field: "set", def: alt{text: "a = {a} + 1"}, alts: []alt{
			a("two", "a = 1, b = 'k'"), a("row", "(a, b) = (1, 'k')"),
			a("sub", "a = (SELECT max(a) FROM t2)", rd("update.set", "t2")),
			a("rowsub", "(a, b) = (SELECT a, b FROM t2 WHERE id = 1)", rd("update.set", "t2")),
		}},
		{field: "from", alts: []alt{
			a("table", "FROM t2", rd("update.from", "t2")),
			a("join", "FROM t2 JOIN t3 ON t2.a = t3.a", rd("update.from", "t2 t3")),
			a("sub", "FROM (SELECT a FROM t3) AS s", rd("update.from", "t3")),
		}},
		{field: "where", alts: []alt{
			a("cmp", "WHERE {id} = 1"),
			a("insub", "WHERE {a} IN (SELECT a FROM t3)", rd("update.where", "t3")),
			a("exists", "WHERE EXISTS (SELECT 1 FROM t2 WHERE t2.a = {a})", rd("update.where", "t2")),
		}},
		returning("update"),
	}}

	deleteSk := skel{name: "delete", kind: "delete", family: "dml", q: "t1.", dims: []dim{
		kw("DELETE FROM"),
		{field: "target", def: alt{text: "t1", uses: uses(Delete, "delete.target", "t1")}, alts: []alt{
			a("schema", "main.t1", uses(Delete, "delete.target", "t1")),
			aq("as", "t1 AS x", "x.", uses(Delete, "delete.target", "t1")),
		}},
		{field: "using", alts: []alt{a("table", "USING t2", rd("delete.using", "t2"))}},
		{field: "where", alts: []alt{
			a("cmp", "WHERE {id} = 1"),
			a("insub", "WHERE {a} IN (SELECT a FROM t3)", rd("delete.where", "t3")),
			a("exists", "WHERE EXISTS (SELECT 1 FROM t2 WHERE t2.a = {a})", rd("delete.where", "t2")),
		}},
		returning("delete"),
	}}

	temp := dim{field: "temp", alts: []alt{a("temp", "TEMP"), a("temporary", "TEMPORARY")}}
	ine := dim{field: "ine", alts: []alt{a("yes", "IF NOT EXISTS")}}
	ie := dim{field: "ie", alts: []alt{a("yes", "IF EXISTS")}}

	createTableSk := skel{name: "createtable", kind: "createtable", family: "ddl", admin: true, dims: []dim{
		kw("CREATE"), temp, kw("TABLE"), ine,
		{field: "name", def: alt{text: "n1"}, alts: []alt{a("schema", "main.n1"), a("quoted", `"n 1"`), a("exists", "t1")}},
		kw("(x"),
		{field: "type", def: alt{text: "INTEGER"}, alts: []alt{
			a("none", "-"), a("int", "INT"), a("varchar", "VARCHAR(10)"), a("decimal", "DECIMAL(10, 2)"),
			a("double", "DOUBLE PRECISION"), a("lower", "int"),
		}},
		{field: "cons", alts: []alt{
			a("pk", "PRIMARY KEY"), a("pkdesc", "PRIMARY KEY DESC"), a("pkasc", "PRIMARY KEY ASC"), a("pkauto", "PRIMARY KEY AUTOINCREMENT"),
			a("pkconflict", "PRIMARY KEY ON CONFLICT REPLACE"), a("notnull", "NOT NULL"), a("notnullconflict", "NOT NULL ON CONFLICT IGNORE"),
			a("unique", "UNIQUE"), a("uniqueconflict", "UNIQUE ON CONFLICT FAIL"), a("check", "CHECK (x > 0)"),
			a("namedcheck", "CONSTRAINT ck CHECK (x > 0 AND x < 10)"), a("namednotnull", "CONSTRAINT nn NOT NULL"),
			a("default", "DEFAULT 5"), a("defaultneg", "DEFAULT -1"), a("defaultstr", "DEFAULT 'q'"), a("defaultexpr", "DEFAULT (1 + 2)"),
			a("defaultnull", "DEFAULT NULL"), a("defaulttrue", "DEFAULT TRUE"),
			alt{name: "defaultnow", text: "DEFAULT CURRENT_TIMESTAMP", noexec: true},
			a("ref", "REFERENCES t2 (id)"), a("refnocols", "REFERENCES t2"),
			a("refactions", "REFERENCES t2 (id) ON DELETE CASCADE ON UPDATE SET NULL"),
			a("refnoaction", "REFERENCES t2 (id) ON UPDATE NO ACTION ON DELETE RESTRICT"),
			a("refdefer", "REFERENCES t2 (id) DEFERRABLE INITIALLY DEFERRED"), a("refnotdefer", "REFERENCES t2 (id) NOT DEFERRABLE"),
			a("namedref", "CONSTRAINT fk REFERENCES t2 (id)"),
			a("collate", "COLLATE NOCASE"), a("generated", "GENERATED ALWAYS AS (y + 1) STORED"), a("as", "AS (y + 1)"),
			a("asvirtual", "AS (y * 2) VIRTUAL"),
		}},
		{field: "cons2", alts: []alt{a("notnull", "NOT NULL"), a("default", "DEFAULT 7"), a("unique", "UNIQUE")}},
		kw(", y INTEGER"),
		{field: "tcons", alts: []alt{
			a("pk", ", PRIMARY KEY (x, y)"), a("pkdesc", ", PRIMARY KEY (x DESC)"), a("pkconflict", ", PRIMARY KEY (x) ON CONFLICT IGNORE"),
			a("unique", ", UNIQUE (x, y) ON CONFLICT REPLACE"), a("namedunique", ", CONSTRAINT nm UNIQUE (y)"),
			a("fk", ", FOREIGN KEY (y) REFERENCES t2 (id) ON DELETE SET DEFAULT"),
			a("fkdefer", ", FOREIGN KEY (y) REFERENCES t2 DEFERRABLE INITIALLY IMMEDIATE"),
			a("check", ", CHECK (x <> y)"), a("namedcheck", ", CONSTRAINT tc CHECK (x <> y OR x IS NULL)"),
		}},
		kw(")"),
		{field: "rowid", alts: []alt{a("without", "WITHOUT ROWID")}},
	}}

	asSelect := func(clause string) dim {
		return dim{field: "select", def: alt{text: "SELECT a, b FROM t1", uses: rd(clause, "t1")}, alts: []alt{
			a("union", "SELECT a, b FROM t1 UNION SELECT a, b FROM t2", rd(clause, "t1 t2")),
			a("join", "SELECT t1.a, t2.b FROM t1 JOIN t2 ON t1.a = t2.a", rd(clause, "t1 t2")),
			a("with", "WITH c AS (SELECT a, b FROM t3) SELECT a, b FROM c", rd(clause, "t3")),
			a("orderlimit", "SELECT a, b FROM t1 ORDER BY a DESC LIMIT 2", rd(clause, "t1")),
			a("group", "SELECT a AS p, count(*) AS q FROM t2 GROUP BY a", rd(clause, "t2")),
			a("wheresub", "SELECT a, b FROM t1 WHERE a IN (SELECT a FROM t3)", rd(clause, "t1 t3")),
		}}
	}

	ctasSk := skel{name: "ctas", kind: "createtable", family: "ddl", admin: true, dims: []dim{
		kw("CREATE"), temp, kw("TABLE"), ine,
		{field: "name", def: alt{text: "n1"}, alts: []alt{a("schema", "main.n1"), a("exists", "t1")}},
		kw("AS"), asSelect("createtable.as"),
	}}

	alterSk := skel{name: "alter", kind: "altertable", family: "ddl", admin: true, dims: []dim{
		kw("ALTER TABLE"),
		{field: "target", def: alt{text: "t1"}, alts: []alt{a("schema", "main.t1"), a("kw", "kw")}},
		{field: "action", def: alt{text: "ADD COLUMN z INTEGER"}, alts: []alt{
			a("addnocolumn", "ADD z TEXT DEFAULT 'q'"), a("addnotnull", "ADD COLUMN z INTEGER NOT NULL DEFAULT 0"),
			a("addref", "ADD COLUMN z INTEGER REFERENCES t2 (id)"), a("addcheck", "ADD COLUMN z INTEGER CHECK (z > 0)"),
			a("addgenerated", "ADD COLUMN z INTEGER GENERATED ALWAYS AS (a + 1) VIRTUAL"), a("addcollate", "ADD COLUMN z TEXT COLLATE NOCASE"),
			a("drop", "DROP COLUMN b"), a("dropnocolumn", "DROP b"), a("rename", "RENAME TO n2"),
			a("renamecol", "RENAME COLUMN b TO bb"), a("renamecolnokw", "RENAME b TO bb"),
		}},
	}}

	createIndexSk := skel{name: "createindex", kind: "createindex", family: "ddl", admin: true, dims: []dim{
		kw("CREATE"),
		{field: "unique", alts: []alt{a("yes", "UNIQUE")}},
		kw("INDEX"), ine,
		{field: "name", def: alt{text: "ni"}, alts: []alt{a("exists", "i1")}},
		kw("ON"),
		{field: "table", def: alt{text: "t1"}, alts: []alt{a("t3", "t3")}},
		{field: "cols", def: alt{text: "(a)"}, alts: []alt{
			a("desc", "(a DESC)"), a("asc", "(a ASC)"), a("two", "(a, b)"), a("collate", "(b COLLATE NOCASE)"),
			a("expr", "(a + 1)"), a("func", "(lower(b))"), a("mixed", "(a DESC, b COLLATE NOCASE ASC)"), a("id", "(id)"),
		}},
		{field: "where", alts: []alt{a("cmp", "WHERE a > 5"), a("logic", "WHERE b IS NOT NULL AND a < 100")}},
	}}

	dropIndexSk := skel{name: "dropindex", kind: "dropindex", family: "ddl", admin: true, dims: []dim{
		kw("DROP INDEX"), ie,
		{field: "name", def: alt{text: "i1"}, alts: []alt{a("schema", "main.i1"), a("i2", "i2"), a("nosuch", "nosuch")}},
	}}

	pgTail := dim{field: "tail", alts: []alt{a("cascade", "CASCADE"), a("restrict", "RESTRICT")}}

	dropTableSk := skel{name: "droptable", kind: "droptable", family: "ddl", admin: true, dims: []dim{
		kw("DROP TABLE"), ie,
		{field: "name", def: alt{text: "t2"}, alts: []alt{a("schema", "main.t2"), a("nosuch", "nosuch"), a("view", "v1"), a("kw", "kw")}},
		pgTail,
	}}

	dropViewSk := skel{name: "dropview", kind: "dropview", family: "ddl", admin: true, dims: []dim{
		kw("DROP VIEW"), ie,
		{field: "name", def: alt{text: "v1"}, alts: []alt{a("nosuch", "nosuch"), a("table", "t1")}},
		pgTail,
	}}

	createViewSk := skel{name: "createview", kind: "createview", family: "ddl", admin: true, dims: []dim{
		kw("CREATE"),
		{field: "orreplace", alts: []alt{a("yes", "OR REPLACE")}},
		temp, kw("VIEW"), ine,
		{field: "name", def: alt{text: "nv"}, alts: []alt{a("exists", "v1")}},
		{field: "cols", alts: []alt{a("two", "(p, q)")}},
		kw("AS"), asSelect("createview.select"),
	}}

	return []skel{selectSk, insertSk, updateSk, deleteSk, createTableSk, ctasSk, alterSk, createIndexSk, dropIndexSk, dropTableSk, dropViewSk, createViewSk}
}

func structFamilies(k, kddl int) []Stmt {
	var out []Stmt

	if kddl == 0 {
		kddl = k
	}

	for _, sk := range skeletons() {
		if sk.family == "ddl" {
			out = append(out, sk.enumerate(kddl)...)
		} else {
			out = append(out, sk.enumerate(k)...)
		}
	}

	return out
}

// txnFamily is the transaction control statements, every spelling.
func txnFamily() []Stmt {
	var out []Stmt

	for _, s := range []string{
		"BEGIN", "BEGIN DEFERRED", "BEGIN IMMEDIATE", "BEGIN EXCLUSIVE", "BEGIN TRANSACTION", "BEGIN WORK",
		"BEGIN IMMEDIATE TRANSACTION", "BEGIN DEFERRED WORK", "BEGIN TRANSACTION tx1",
		"COMMIT", "COMMIT TRANSACTION", "COMMIT WORK", "END", "END TRANSACTION",
		"ROLLBACK", "ROLLBACK TRANSACTION", "ROLLBACK WORK", "ROLLBACK TO sp", "ROLLBACK TO SAVEPOINT sp",
		"ROLLBACK TRANSACTION TO SAVEPOINT sp", "ROLLBACK TRANSACTION TO sp",
		"SAVEPOINT sp", "SAVEPOINT sp2", "RELEASE sp", "RELEASE SAVEPOINT sp", `SAVEPOINT "my sp"`, `RELEASE "sp"`,
	} {
		k := "txn:" + strings.ReplaceAll(strings.ToLower(s), " ", "-")
		out = append(out, Stmt{SQL: s, Kind: "txn", Family: "txn", Key: k, Cell: k})
	}

	return out
}

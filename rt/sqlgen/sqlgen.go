// Package sqlgen is the bounded-exhaustive SQL statement generator shared by the
// checks C15 (authorization of every table a statement touches) and C16
// (reformatting preserves statements).
//
// It derives statements of the grammar accepted by internal/sqlparse as a
// union of six families, each exhaustive inside its own stated bound:
//
//	expr    every expression shape up to a nesting depth, built from ~85
//	        operator/function forms, placed in a SELECT result column
//	select  the SELECT skeleton with every combination of at most K clause
//	        options switched away from the default (9 clause dimensions)
//	dml/ddl INSERT, UPDATE, DELETE, CREATE/ALTER/DROP TABLE, CREATE/DROP INDEX,
//	        CREATE/DROP VIEW and transaction control, same "at most K options"
//	pos     every expression position of every statement kind x every
//	        subquery-bearing expression form x the table the subquery reads
//	cte     WITH clauses that reuse the name of a real table which another part
//	        of the statement, outside that WITH's scope, reads or writes
//	lex     literal, identifier, comment and keyword spellings
//
// Every statement carries, by construction, the list of tables it names and
// the role each one plays (Uses), a class label used to name violation cells,
// and the keys of its immediate simplifications, all of which are themselves
// part of the enumeration (so a harness can report only minimal failures).
package sqlgen

import (
	"sort"
	"strings"
)

// Roles a table plays in a statement.
const (
	Read   = "read"
	Insert = "write"
	Update = "update"
	Delete = "delete"
)

// Use is one table named by a statement, the role it plays there and the
// clause of the statement that names it.
type Use struct {
	Table  string `json:"table"`
	Role   string `json:"role"`
	Clause string `json:"clause"`
}

// Stmt is one generated statement.
type Stmt struct {
	SQL     string   `json:"sql"`
	Kind    string   `json:"kind"`   // select insert update delete createtable altertable createindex dropindex droptable createview dropview txn
	Family  string   `json:"family"` // expr select dml ddl pos cte lex txn
	Cell    string   `json:"cell"`   // class label for violation cells
	Key     string   `json:"key"`    // unique within one enumeration
	Simpler []string `json:"simpler,omitempty"`
	Uses    []Use    `json:"uses,omitempty"`
	Admin   bool     `json:"admin,omitempty"`   // changes the schema
	Ordered bool     `json:"ordered,omitempty"` // top level ORDER BY: results compare in order
	NoExec  bool     `json:"noexec,omitempty"`  // not meaningful/deterministic to execute on SQLite
	Tags    []string `json:"tags,omitempty"`
}

// Tables of the reference schema that carry permissions (views included).
var Tables = []string{"t1", "t2", "t3", "v1", "kw", "s.t2"}

// Schema is the reference SQLite schema and its rows.
var Schema = []string{
	`CREATE TABLE t1 (id INTEGER PRIMARY KEY, a INTEGER, b TEXT)`,
	`CREATE TABLE t2 (id INTEGER PRIMARY KEY, a INTEGER, b TEXT)`,
	`CREATE TABLE t3 (id INTEGER PRIMARY KEY, a INTEGER, b TEXT)`,
	`CREATE TABLE kw ("order" INTEGER, "group" TEXT, "x y" TEXT)`,
	`CREATE TABLE "s.t2" (id INTEGER PRIMARY KEY, a INTEGER, b TEXT)`,
	`CREATE INDEX i1 ON t1 (a)`,
	`CREATE INDEX i2 ON t2 (a)`,
	`CREATE VIEW v1 AS SELECT id, a, b FROM t3`,
	`INSERT INTO t1 (id, a, b) VALUES (1, 10, 'x'), (2, 20, 'y'), (3, NULL, 'x'), (4, 10, NULL), (5, -3, 'X%')`,
	`INSERT INTO t2 (id, a, b) VALUES (1, 10, 'p'), (2, 30, 'x'), (3, NULL, 'q')`,
	`INSERT INTO t3 (id, a, b) VALUES (1, 20, 'm'), (2, 40, 'y')`,
	`INSERT INTO kw ("order", "group", "x y") VALUES (1, 'g', 'z'), (2, 'h', 'w')`,
	`INSERT INTO "s.t2" (id, a, b) VALUES (1, 99, 's')`,
}

// Level selects the bounds.
type Level struct {
	ExprDepth  int // 2: F(G(atom)); 3 adds chains over the reduced form set
	Options    int // K: clause options switched away from the default
	DDLOptions int // K for the DDL skeletons (0 = Options)
	PosTables  []string
	PosNesting bool // positions inside a nested subquery as well
}

// Quick and Thorough are the two tiers.
var (
	Quick    = Level{ExprDepth: 2, Options: 2, PosTables: []string{"t2"}}
	Thorough = Level{ExprDepth: 3, Options: 3, PosTables: []string{"t2", "t3"}, PosNesting: true}
)

// Enumerate returns every statement inside the bounds of lv, in a fixed order
// (families in a fixed order, smaller statements first inside a family).
func Enumerate(lv Level) []Stmt {
	var out []Stmt

	out = append(out, lexFamily()...)
	out = append(out, txnFamily()...)
	out = append(out, posFamily(lv)...)
	out = append(out, cteFamily(lv)...)
	out = append(out, structFamilies(lv.Options, lv.DDLOptions)...)
	out = append(out, exprFamily(lv.ExprDepth)...)

	seen := map[string]int{}

	for i := range out {
		// Keys must be unique; a collision is a generator bug made visible.
		if j, dup := seen[out[i].Key]; dup {
			panic("sqlgen: duplicate key " + out[i].Key + " for\n" + out[i].SQL + "\n" + out[j].SQL)
		}

		seen[out[i].Key] = i
	}

	for i := range out {
		for _, s := range out[i].Simpler {
			if _, ok := seen[s]; !ok {
				panic("sqlgen: " + out[i].Key + " names a simplification outside the enumeration: " + s)
			}
		}
	}

	return out
}

// uses builds a Use list: role and clause for a space separated table list.
func uses(role, clause, tables string) []Use {
	var out []Use

	for _, t := range strings.Fields(tables) {
		out = append(out, Use{Table: strings.ReplaceAll(t, "~", " "), Role: role, Clause: clause})
	}

	return out
}

func cat(lists ...[]Use) []Use {
	var out []Use

	for _, l := range lists {
		out = append(out, l...)
	}

	return out
}

// subsetsUpTo calls f with every subset of {0..n-1} of size <= k, smaller
// subsets first, each in increasing order.
func subsetsUpTo(n, k int, f func(idx []int)) {
	var rec func(start, left int, cur []int)

	rec = func(start, left int, cur []int) {
		if left == 0 {
			f(cur)

			return
		}

		for i := start; i < n; i++ {
			rec(i+1, left-1, append(cur, i))
		}
	}

	for size := 0; size <= k && size <= n; size++ {
		rec(0, size, nil)
	}
}

func sortedCopy(s []string) []string {
	c := append([]string(nil), s...)
	sort.Strings(c)

	return c
}

// Keywords is the SQLite keyword list; an identifier spelled like one of them
// has to be quoted to stay an identifier.
var Keywords = map[string]bool{}

func init() {
	for _, w := range strings.Fields(`ABORT ACTION ADD AFTER ALL ALTER ALWAYS ANALYZE AND AS ASC ATTACH AUTOINCREMENT
BEFORE BEGIN BETWEEN BY CASCADE CASE CAST CHECK COLLATE COLUMN COMMIT CONFLICT CONSTRAINT CREATE CROSS CURRENT
CURRENT_DATE CURRENT_TIME CURRENT_TIMESTAMP DATABASE DEFAULT DEFERRABLE DEFERRED DELETE DESC DETACH DISTINCT DO DROP
EACH ELSE END ESCAPE EXCEPT EXCLUDE EXCLUSIVE EXISTS EXPLAIN FAIL FILTER FIRST FOLLOWING FOR FOREIGN FROM FULL
GENERATED GLOB GROUP GROUPS HAVING IF IGNORE IMMEDIATE IN INDEX INDEXED INITIALLY INNER INSERT INSTEAD INTERSECT INTO
IS ISNULL JOIN KEY LAST LEFT LIKE LIMIT MATCH MATERIALIZED NATURAL NO NOT NOTHING NOTNULL NULL NULLS OF OFFSET ON OR
ORDER OTHERS OUTER OVER PARTITION PLAN PRAGMA PRECEDING PRIMARY QUERY RAISE RANGE RECURSIVE REFERENCES REGEXP REINDEX
RELEASE RENAME REPLACE RESTRICT RETURNING RIGHT ROLLBACK ROW ROWS SAVEPOINT SELECT SET TABLE TEMP TEMPORARY THEN TIES
TO TRANSACTION TRIGGER UNBOUNDED UNION UNIQUE UPDATE USING VACUUM VALUES VIEW VIRTUAL WHEN WHERE WINDOW WITH WITHOUT`) {
		Keywords[w] = true
	}
}

// NumForms is the number of expression forms; NumSubforms the number of
// subquery-bearing forms; NumPositions the number of expression positions.
func NumForms() int     { return len(forms) }
func NumSubforms() int  { return len(subforms) }
func NumPositions() int { return len(positions) }

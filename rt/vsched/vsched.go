// Package vsched is the controlled scheduler of the /verif machinery. Managed
// threads are goroutines that run strictly one at a time; every woven
// synchronisation operation calls Point (a place where the explorer may switch
// threads) and Block (a modelled wait). One execution is fully determined by
// its list of choices, so the explorer (package explore) can enumerate every
// interleaving inside a preemption bound and replay any of them.
package vsched

import (
	"fmt"
	"os"
	"runtime"
	"sort"
	"sync"
	"time"
)

// Thread is a managed goroutine.
type Thread struct {
	ID      int
	Name    string
	Daemon  bool
	wake    chan struct{}
	exited  chan struct{}
	cond    func() bool // non-nil while blocked
	sleepTo time.Time   // non-zero while sleeping on the virtual clock
	done    bool
	goid    int64
	VC      []int // vector clock (index = thread id)
}

// ChoicePoint is one recorded decision.
type ChoicePoint struct {
	Enabled        []int  // thread ids, running thread first if enabled
	Chosen         int    // index into Enabled
	RunningEnabled bool   // a different choice is a preemption
	Kind           string // what the running thread was about to do
}

// Outcome of one execution.
type Outcome struct {
	Points    []ChoicePoint
	Deadlock  bool
	Horizon   bool
	Panic     any
	PanicStk  string
	Steps     int
	BlockedOn []string
}

// Sched is one execution's scheduler.
type Sched struct {
	threads  []*Thread
	cur      *Thread
	prefix   []int
	points   []ChoicePoint
	horizon  int
	steps    int
	finished chan struct{}
	poisoned bool
	wg       sync.WaitGroup
	out      Outcome
	clock    time.Time
	ended    bool
	// Focus decides which Points branch; nil = all.
	Focus func(kind string, obj any) bool
	// Tail picks the choice beyond the prefix; nil = always 0.
	Tail func(n int) int
}

var (
	active *Sched
	// Epoch is where the virtual clock starts in every execution.
	Epoch = time.Date(2030, 1, 2, 3, 4, 5, 0, time.UTC)
)

// Cur returns the active scheduler, or nil in pass-through mode.
func Cur() *Sched { return active }

// Active reports whether a controlled execution is in progress.
func Active() bool { return active != nil }

// Config for Run.
type Config struct {
	Prefix  []int
	Horizon int // max choice points + forced switches; 0 = 100000
	Focus   func(kind string, obj any) bool
	Tail    func(n int) int
}

// Run executes main as thread 0 under a fresh scheduler and returns when every
// non-daemon thread has finished (or on deadlock / horizon / panic). Daemon
// threads still alive are then poisoned (runtime.Goexit at their next
// scheduler call) and joined, so nothing leaks into the next execution.
func Run(cfg Config, main func()) Outcome {
	if active != nil {
		panic("vsched: nested Run")
	}

	s := &Sched{prefix: cfg.Prefix, horizon: cfg.Horizon, finished: make(chan struct{}), clock: Epoch, Focus: cfg.Focus, Tail: cfg.Tail}
	if s.horizon == 0 {
		s.horizon = 100000
	}

	active = s
	t := s.newThread("main", false)
	s.cur = t
	s.start(t, main)
	t.wake <- struct{}{}
	<-s.finished

	// Tear down: poison every thread that is still parked.
	s.poisoned = true
	active = nil

	// One at a time, so that deferred clean-ups of poisoned threads never run
	// concurrently with each other.
	for i := 0; i < len(s.threads); i++ {
		th := s.threads[i]

		select {
		case <-th.exited:
			continue
		default:
		}

		select {
		case th.wake <- struct{}{}:
		default:
		}

		<-th.exited
	}

	s.wg.Wait()

	s.out.Points = s.points
	s.out.Steps = s.steps

	return s.out
}

func (s *Sched) newThread(name string, daemon bool) *Thread {
	t := &Thread{ID: len(s.threads), Name: name, Daemon: daemon, wake: make(chan struct{}, 1), exited: make(chan struct{})}
	s.threads = append(s.threads, t)

	return t
}

type poison struct{}

func (s *Sched) start(t *Thread, f func()) {
	s.wg.Add(1)

	go func() {
		defer s.wg.Done()
		defer close(t.exited)

		<-t.wake

		if s.poisoned {
			t.done = true

			return
		}

		if GoidCheck {
			t.goid = goid()
		}

		defer func() {
			if s.poisoned {
				t.done = true
				// swallow whatever the teardown caused
				_ = recover()

				return
			}

			if r := recover(); r != nil {
				if _, ok := r.(poison); !ok {
					buf := make([]byte, 8192)
					n := runtime.Stack(buf, false)
					s.out.Panic = fmt.Sprint(r)
					s.out.PanicStk = string(buf[:n])
				}

				t.done = true
				s.end()

				return
			}

			t.done = true
			s.threadExit(t)
		}()

		f()
	}()
}

// end finishes the execution (called by the running thread).
func (s *Sched) end() {
	if !s.ended {
		s.ended = true
		close(s.finished)
	}
}

// Go spawns f as a managed thread (or a plain goroutine in pass-through mode).
func Go(f func()) { GoNamed("", false, f) }

// GoDaemon spawns a managed thread whose termination is not awaited.
func GoDaemon(name string, f func()) { GoNamed(name, true, f) }

// GoWoven is what a woven `go` statement of the code under test becomes: a
// managed background thread. Like a goroutine at process exit, it is not
// awaited: the execution ends when the harness's own threads have finished.
func GoWoven(f func()) { GoNamed("woven", true, f) }

// GoNamed spawns a managed thread.
func GoNamed(name string, daemon bool, f func()) {
	s := active
	if s == nil {
		go f()

		return
	}

	t := s.newThread(name, daemon)
	if s.cur != nil {
		t.VC = append([]int(nil), s.cur.VC...)
	}

	s.start(t, f)
	s.Point("go", nil)
}

// MarkDaemon turns the calling thread into a daemon (background worker whose
// termination is not awaited by the execution).
func MarkDaemon() {
	if s := active; s != nil && s.cur != nil {
		s.cur.Daemon = true
	}
}

func (s *Sched) enabled() []*Thread {
	var out []*Thread

	if s.cur != nil && !s.cur.done && s.runnable(s.cur) {
		out = append(out, s.cur)
	}

	for _, t := range s.threads {
		if t == s.cur || t.done {
			continue
		}

		if s.runnable(t) {
			out = append(out, t)
		}
	}

	return out
}

func (s *Sched) runnable(t *Thread) bool {
	if !t.sleepTo.IsZero() {
		return !s.clock.Before(t.sleepTo)
	}

	return t.cond == nil || t.cond()
}

func (s *Sched) choose(n int, kind string, en []*Thread, runningEnabled bool) int {
	i := len(s.points)
	c := 0

	if i < len(s.prefix) {
		c = s.prefix[i]
		if c < 0 || c >= n {
			panic(fmt.Sprintf("vsched: replay divergence at point %d: choice %d of %d enabled (%s)", i, c, n, kind))
		}
	} else if s.Tail != nil {
		c = s.Tail(n)
	}

	ids := make([]int, n)
	for k, t := range en {
		ids[k] = t.ID
	}

	s.points = append(s.points, ChoicePoint{Enabled: ids, Chosen: c, RunningEnabled: runningEnabled, Kind: kind})

	return c
}

// GoidCheck makes every scheduler entry verify that the caller is the managed
// thread that holds the token (catches unmanaged goroutines in woven code).
var GoidCheck = os.Getenv("VERIF_GOID_CHECK") == "1"

func goid() int64 {
	var buf [64]byte

	n := runtime.Stack(buf[:], false)
	// "goroutine 123 ["
	var id int64

	for _, c := range buf[10:n] {
		if c < '0' || c > '9' {
			break
		}

		id = id*10 + int64(c-'0')
	}

	return id
}

func (s *Sched) checkCaller(kind string) {
	if GoidCheck && s.cur != nil && s.cur.goid != 0 && s.cur.goid != goid() {
		fmt.Printf("HARNESS-ERROR: unmanaged goroutine entered the scheduler at %s\n", kind)
		os.Exit(2)
	}
}

// Point is a scheduling point before a visible operation of the running thread.
func (s *Sched) Point(kind string, obj any) {
	if s.poisoned {
		runtime.Goexit()
	}

	s.checkCaller(kind)

	s.steps++
	if s.steps > s.horizon {
		s.out.Horizon = true
		s.end()
		s.park(s.cur)
	}

	if s.Focus != nil && !s.Focus(kind, obj) {
		return
	}

	en := s.enabled()
	if len(en) <= 1 {
		return
	}

	c := s.choose(len(en), kind, en, true)
	if en[c] != s.cur {
		s.switchTo(en[c])
	}
}

// park blocks the calling thread until it is woken (or poisoned).
func (s *Sched) park(t *Thread) {
	<-t.wake

	if s.poisoned {
		runtime.Goexit()
	}
}

func (s *Sched) switchTo(next *Thread) {
	me := s.cur
	s.cur = next
	next.wake <- struct{}{}
	s.park(me)
}

// Block parks the running thread until cond() holds. cond is evaluated only
// while no managed thread runs, so it may read shim state freely.
func (s *Sched) Block(what string, cond func() bool) {
	for !cond() {
		if s.poisoned {
			runtime.Goexit()
		}

		me := s.cur
		me.cond = cond
		s.yieldBlocked(me, what)
		me.cond = nil
	}
}

// SleepUntil parks the running thread until the virtual clock reaches t.
func (s *Sched) SleepUntil(t time.Time) {
	me := s.cur
	for s.clock.Before(t) {
		me.sleepTo = t
		s.yieldBlocked(me, "sleep")
		me.sleepTo = time.Time{}
	}
}

// yieldBlocked hands the token away from a thread that cannot continue.
func (s *Sched) yieldBlocked(me *Thread, what string) {
	s.steps++
	if s.steps > s.horizon {
		s.out.Horizon = true
		s.end()
		s.park(me)
	}

	next := s.pickNext(what)
	if next == nil {
		s.park(me) // execution ended (deadlock or completion); wait for poison
	}

	if next != me {
		s.cur = next
		next.wake <- struct{}{}
		s.park(me)
	}
}

// pickNext chooses among enabled threads when the running one cannot go on.
// If nothing is enabled but sleepers exist, the virtual clock jumps to the
// earliest wake-up (only when every non-sleeping thread is blocked or done).
func (s *Sched) pickNext(what string) *Thread {
	for {
		en := s.enabled()
		if len(en) > 0 {
			c := 0
			if len(en) > 1 {
				c = s.choose(len(en), "blocked:"+what, en, false)
			}

			return en[c]
		}

		// all non-daemon threads done?
		alive := false

		for _, t := range s.threads {
			if !t.done && !t.Daemon {
				alive = true
			}
		}

		if !alive {
			s.end()

			return nil
		}

		// advance the clock to the earliest sleeper, if any
		var earliest time.Time

		for _, t := range s.threads {
			if !t.done && !t.sleepTo.IsZero() && (earliest.IsZero() || t.sleepTo.Before(earliest)) {
				earliest = t.sleepTo
			}
		}

		if earliest.IsZero() {
			s.out.Deadlock = true

			for _, t := range s.threads {
				if !t.done {
					s.out.BlockedOn = append(s.out.BlockedOn, fmt.Sprintf("thread %d %s", t.ID, t.Name))
				}
			}

			s.end()

			return nil
		}

		s.clock = earliest
	}
}

func (s *Sched) threadExit(t *Thread) {
	// Execution is over when all non-daemon threads are done.
	alive := false

	for _, th := range s.threads {
		if !th.done && !th.Daemon {
			alive = true
		}
	}

	if !alive {
		s.end()

		return
	}

	next := s.pickNext("exit")
	if next == nil {
		return
	}

	s.cur = next
	next.wake <- struct{}{}
}

// Now returns the virtual time (or the real time in pass-through mode).
func Now() time.Time {
	if s := active; s != nil {
		return s.clock
	}

	return time.Now()
}

// Advance moves the virtual clock forward; sleepers whose time has come become
// enabled and compete at the next scheduling point.
func Advance(d time.Duration) {
	if s := active; s != nil {
		s.clock = s.clock.Add(d)
		s.Point("advance", nil)
	}
}

// Sleep sleeps on the virtual clock.
func Sleep(d time.Duration) {
	s := active
	if s == nil {
		time.Sleep(d)

		return
	}

	if s.poisoned {
		runtime.Goexit()
	}

	s.Point("sleep", nil)
	s.SleepUntil(s.clock.Add(d))
}

// Settle lets every other runnable thread (background workers woken by a clock
// advance, freshly spawned threads) run until all of them block again, in
// ascending thread-id order under the default schedule. Sequential (E-seq)
// harnesses call it after each event so that background work is deterministic.
func Settle() {
	s := active
	if s == nil {
		return
	}

	me := s.cur
	s.Block("settle", func() bool {
		for _, t := range s.threads {
			if t != me && !t.done && s.runnable(t) {
				return false
			}
		}

		return true
	})
}

// Sleepers returns the wake-up offsets (relative to the virtual now) of the
// threads sleeping on the virtual clock, sorted; part of canonical state keys.
func Sleepers() []time.Duration {
	s := active
	if s == nil {
		return nil
	}

	var out []time.Duration

	for _, t := range s.threads {
		if !t.done && !t.sleepTo.IsZero() {
			out = append(out, t.sleepTo.Sub(s.clock))
		}
	}

	sort.Slice(out, func(i, j int) bool { return out[i] < out[j] })

	return out
}

// Yield is an explicit scheduling point (used inside polling loops).
func Yield() {
	if s := active; s != nil {
		s.Point("yield", nil)
	}
}

// Self returns the running thread id, or -1.
func Self() int {
	if s := active; s != nil && s.cur != nil {
		return s.cur.ID
	}

	return -1
}

// Preemptions counts the preemptive switches in a list of points.
func Preemptions(points []ChoicePoint) int {
	n := 0

	for _, p := range points {
		if p.RunningEnabled && p.Chosen != 0 {
			n++
		}
	}

	return n
}

// Choices extracts the choice list of an outcome.
func (o Outcome) Choices() []int {
	out := make([]int, len(o.Points))
	for i, p := range o.Points {
		out[i] = p.Chosen
	}

	return out
}

// Describe renders a schedule for a human.
func (o Outcome) Describe() []string {
	var out []string

	for i, p := range o.Points {
		ids := append([]int(nil), p.Enabled...)
		_ = sort.IntsAreSorted(ids)
		out = append(out, fmt.Sprintf("#%d %s enabled=%v -> thread %d", i, p.Kind, p.Enabled, p.Enabled[p.Chosen]))
	}

	return out
}

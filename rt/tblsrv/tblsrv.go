// Package tblsrv stands up the table half of the ego REST server inside the
// harness process: the real router with the real table routes
// (tables.AddStaticRoutes), an in-memory user store holding one root user, an
// in-memory DSN store, and a bearer token that the router's own
// Session.Authenticate accepts (it is placed in the token cache, which is
// what a successful logon does). Requests are served with
// Router.ServeHTTP into httptest recorders: parameter validation, paging
// validation, media-type checks, session construction and the handlers are the
// code of the working tree; no socket, no TLS, no bcrypt per request.
package tblsrv

import (
	"bytes"
	"net/http"
	"net/http/httptest"

	"github.com/google/uuid"
	"github.com/tucats/ego/internal/caches"
	"github.com/tucats/ego/internal/defs"
	"github.com/tucats/ego/internal/dsns"
	"github.com/tucats/ego/internal/language/tokens"
	"github.com/tucats/ego/internal/router"
	"github.com/tucats/ego/internal/server/auth"
	"github.com/tucats/ego/internal/server/tables"
)

// Server is the in-process table server.
type Server struct {
	Router *router.Router
	User   string
	token  string
	tok    *tokens.Token
}

// New builds the server. It replaces the process-wide auth and DSN services.
func New() (*Server, error) {
	var err error

	// Nobody logs on with a password here (one bcrypt at start-up, for the
	// default user, is all the password hashing a run performs).
	auth.AuthService, err = auth.NewFileService("", "admin", "")
	if err != nil {
		return nil, err
	}

	dsns.DSNService, err = dsns.NewFileService("memory")
	if err != nil {
		return nil, err
	}

	r := router.NewRouter("verif")
	tables.AddStaticRoutes(r)

	s := &Server{
		Router: r,
		User:   "admin",
		token:  "verif0123456789abcdef0123456789abcdef0123456789abcdef",
		tok:    &tokens.Token{Name: "admin", TokenID: uuid.New()},
	}

	return s, nil
}

// AddSQLiteDSN registers a DSN that names the SQLite file at path.
func (s *Server) AddSQLiteDSN(name, path string, rowID bool) error {
	return dsns.DSNService.WriteDSN(0, s.User, defs.DSN{
		Name:     name,
		Provider: defs.SqliteProvider,
		Database: path,
		RowId:    rowID,
	})
}

// Fresh forgets cached schemas and re-arms the bearer token (cache entries
// age; no verdict may depend on how long a run takes).
func (s *Server) Fresh() {
	caches.Purge(caches.SchemaCache)
	caches.Add(caches.TokenCache, s.token, s.tok)
}

// Do serves one request through the router and returns status and body.
// target is the request URI (path and raw query, already escaped).
func (s *Server) Do(method, target string, body []byte, header map[string]string) (int, []byte, http.Header) {
	var rd *bytes.Reader
	if body != nil {
		rd = bytes.NewReader(body)
	} else {
		rd = bytes.NewReader(nil)
	}

	req := httptest.NewRequest(method, target, rd)
	req.Header.Set("Authorization", "Bearer "+s.token)
	req.Header.Set("Accept", "application/json")

	if body != nil {
		req.Header.Set("Content-Type", "application/json")
	}

	for k, v := range header {
		req.Header.Set(k, v)
	}

	rec := httptest.NewRecorder()
	s.Router.ServeHTTP(rec, req)

	return rec.Code, rec.Body.Bytes(), rec.Header()
}

// Package atomic (import path .../verifrt/vatomic) replaces sync/atomic in
// woven code: same types and functions, plus an optional observation hook and
// scheduling point per operation. With no hook and no scheduler it is a plain
// pass-through.
package atomic

import (
	goatomic "sync/atomic"
	"unsafe"

	"github.com/tucats/ego/internal/verifrt/vsched"
)

// Yield, when true, makes every atomic operation a scheduling point.
var Yield bool

// OnOp, when set, observes every operation (addr identifies the variable).
var OnOp func(kind string, addr unsafe.Pointer)

func op(kind string, addr unsafe.Pointer) {
	if OnOp != nil {
		OnOp(kind, addr)
	}

	if Yield {
		if s := vsched.Cur(); s != nil {
			s.Point("atomic."+kind, addr)
		}
	}
}

type Bool struct{ v goatomic.Bool }

func (x *Bool) Load() bool           { op("Load", unsafe.Pointer(x)); return x.v.Load() }
func (x *Bool) Store(v bool)         { op("Store", unsafe.Pointer(x)); x.v.Store(v) }
func (x *Bool) Swap(v bool) bool     { op("Swap", unsafe.Pointer(x)); return x.v.Swap(v) }
func (x *Bool) CompareAndSwap(o, n bool) bool {
	op("CAS", unsafe.Pointer(x))

	return x.v.CompareAndSwap(o, n)
}

type Int32 struct{ v goatomic.Int32 }

func (x *Int32) Load() int32         { op("Load", unsafe.Pointer(x)); return x.v.Load() }
func (x *Int32) Store(v int32)       { op("Store", unsafe.Pointer(x)); x.v.Store(v) }
func (x *Int32) Swap(v int32) int32  { op("Swap", unsafe.Pointer(x)); return x.v.Swap(v) }
func (x *Int32) Add(d int32) int32   { op("Add", unsafe.Pointer(x)); return x.v.Add(d) }
func (x *Int32) CompareAndSwap(o, n int32) bool {
	op("CAS", unsafe.Pointer(x))

	return x.v.CompareAndSwap(o, n)
}

type Int64 struct{ v goatomic.Int64 }

func (x *Int64) Load() int64         { op("Load", unsafe.Pointer(x)); return x.v.Load() }
func (x *Int64) Store(v int64)       { op("Store", unsafe.Pointer(x)); x.v.Store(v) }
func (x *Int64) Swap(v int64) int64  { op("Swap", unsafe.Pointer(x)); return x.v.Swap(v) }
func (x *Int64) Add(d int64) int64   { op("Add", unsafe.Pointer(x)); return x.v.Add(d) }
func (x *Int64) CompareAndSwap(o, n int64) bool {
	op("CAS", unsafe.Pointer(x))

	return x.v.CompareAndSwap(o, n)
}

type Uint32 struct{ v goatomic.Uint32 }

func (x *Uint32) Load() uint32        { op("Load", unsafe.Pointer(x)); return x.v.Load() }
func (x *Uint32) Store(v uint32)      { op("Store", unsafe.Pointer(x)); x.v.Store(v) }
func (x *Uint32) Swap(v uint32) uint32 { op("Swap", unsafe.Pointer(x)); return x.v.Swap(v) }
func (x *Uint32) Add(d uint32) uint32 { op("Add", unsafe.Pointer(x)); return x.v.Add(d) }
func (x *Uint32) CompareAndSwap(o, n uint32) bool {
	op("CAS", unsafe.Pointer(x))

	return x.v.CompareAndSwap(o, n)
}

type Uint64 struct{ v goatomic.Uint64 }

func (x *Uint64) Load() uint64        { op("Load", unsafe.Pointer(x)); return x.v.Load() }
func (x *Uint64) Store(v uint64)      { op("Store", unsafe.Pointer(x)); x.v.Store(v) }
func (x *Uint64) Swap(v uint64) uint64 { op("Swap", unsafe.Pointer(x)); return x.v.Swap(v) }
func (x *Uint64) Add(d uint64) uint64 { op("Add", unsafe.Pointer(x)); return x.v.Add(d) }
func (x *Uint64) CompareAndSwap(o, n uint64) bool {
	op("CAS", unsafe.Pointer(x))

	return x.v.CompareAndSwap(o, n)
}

type Pointer[T any] struct{ v goatomic.Pointer[T] }

func (x *Pointer[T]) Load() *T        { op("Load", unsafe.Pointer(x)); return x.v.Load() }
func (x *Pointer[T]) Store(v *T)      { op("Store", unsafe.Pointer(x)); x.v.Store(v) }
func (x *Pointer[T]) Swap(v *T) *T    { op("Swap", unsafe.Pointer(x)); return x.v.Swap(v) }
func (x *Pointer[T]) CompareAndSwap(o, n *T) bool {
	op("CAS", unsafe.Pointer(x))

	return x.v.CompareAndSwap(o, n)
}

type Value = goatomic.Value

func AddInt32(a *int32, d int32) int32     { op("Add", unsafe.Pointer(a)); return goatomic.AddInt32(a, d) }
func AddInt64(a *int64, d int64) int64     { op("Add", unsafe.Pointer(a)); return goatomic.AddInt64(a, d) }
func AddUint32(a *uint32, d uint32) uint32 { op("Add", unsafe.Pointer(a)); return goatomic.AddUint32(a, d) }
func AddUint64(a *uint64, d uint64) uint64 { op("Add", unsafe.Pointer(a)); return goatomic.AddUint64(a, d) }
func LoadInt32(a *int32) int32             { op("Load", unsafe.Pointer(a)); return goatomic.LoadInt32(a) }
func LoadInt64(a *int64) int64             { op("Load", unsafe.Pointer(a)); return goatomic.LoadInt64(a) }
func LoadUint32(a *uint32) uint32          { op("Load", unsafe.Pointer(a)); return goatomic.LoadUint32(a) }
func LoadUint64(a *uint64) uint64          { op("Load", unsafe.Pointer(a)); return goatomic.LoadUint64(a) }
func StoreInt32(a *int32, v int32)         { op("Store", unsafe.Pointer(a)); goatomic.StoreInt32(a, v) }
func StoreInt64(a *int64, v int64)         { op("Store", unsafe.Pointer(a)); goatomic.StoreInt64(a, v) }
func StoreUint32(a *uint32, v uint32)      { op("Store", unsafe.Pointer(a)); goatomic.StoreUint32(a, v) }
func StoreUint64(a *uint64, v uint64)      { op("Store", unsafe.Pointer(a)); goatomic.StoreUint64(a, v) }
func SwapInt32(a *int32, v int32) int32    { op("Swap", unsafe.Pointer(a)); return goatomic.SwapInt32(a, v) }
func SwapInt64(a *int64, v int64) int64    { op("Swap", unsafe.Pointer(a)); return goatomic.SwapInt64(a, v) }
func CompareAndSwapInt32(a *int32, o, n int32) bool {
	op("CAS", unsafe.Pointer(a))

	return goatomic.CompareAndSwapInt32(a, o, n)
}
func CompareAndSwapInt64(a *int64, o, n int64) bool {
	op("CAS", unsafe.Pointer(a))

	return goatomic.CompareAndSwapInt64(a, o, n)
}
func CompareAndSwapUint32(a *uint32, o, n uint32) bool {
	op("CAS", unsafe.Pointer(a))

	return goatomic.CompareAndSwapUint32(a, o, n)
}
func CompareAndSwapUint64(a *uint64, o, n uint64) bool {
	op("CAS", unsafe.Pointer(a))

	return goatomic.CompareAndSwapUint64(a, o, n)
}

func LoadPointer(a *unsafe.Pointer) unsafe.Pointer { op("Load", unsafe.Pointer(a)); return goatomic.LoadPointer(a) }
func StorePointer(a *unsafe.Pointer, v unsafe.Pointer) {
	op("Store", unsafe.Pointer(a))
	goatomic.StorePointer(a, v)
}
func SwapPointer(a *unsafe.Pointer, v unsafe.Pointer) unsafe.Pointer {
	op("Swap", unsafe.Pointer(a))

	return goatomic.SwapPointer(a, v)
}
func CompareAndSwapPointer(a *unsafe.Pointer, o, n unsafe.Pointer) bool {
	op("CAS", unsafe.Pointer(a))

	return goatomic.CompareAndSwapPointer(a, o, n)
}
func SwapUint32(a *uint32, v uint32) uint32 { op("Swap", unsafe.Pointer(a)); return goatomic.SwapUint32(a, v) }
func SwapUint64(a *uint64, v uint64) uint64 { op("Swap", unsafe.Pointer(a)); return goatomic.SwapUint64(a, v) }
func LoadUintptr(a *uintptr) uintptr        { op("Load", unsafe.Pointer(a)); return goatomic.LoadUintptr(a) }
func StoreUintptr(a *uintptr, v uintptr)    { op("Store", unsafe.Pointer(a)); goatomic.StoreUintptr(a, v) }
func AddUintptr(a *uintptr, d uintptr) uintptr {
	op("Add", unsafe.Pointer(a))

	return goatomic.AddUintptr(a, d)
}

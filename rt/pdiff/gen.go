package pdiff

import (
	"fmt"
	"strings"
)

// Prog is one abstract generated program: top-level declarations plus the body
// of one parameterless function. "@@" in Decls/Body is replaced by a name that
// is unique to the program, so that many programs can share one source file.
type Prog struct {
	ID      int    `json:"id"`
	Form    string `json:"form"`    // statement-form family (names the cell)
	Typ     string `json:"type"`    // operand type, or "-"
	Variant string `json:"variant"` // values / constants chosen
	Decls   string `json:"decls,omitempty"`
	Body    string `json:"body"`
	Solo    bool   `json:"solo,omitempty"` // always run as its own file (outcome is an abort or compile error)
}

// Key is the canonical identity of the program.
func (p *Prog) Key() string { return p.Form + "|" + p.Typ + "|" + p.Variant }

type gen struct {
	progs    []Prog
	thorough bool
	seen     map[string]bool
}

func (g *gen) add(form, typ, variant, decls, body string) *Prog {
	p := Prog{ID: len(g.progs), Form: form, Typ: typ, Variant: variant, Decls: decls, Body: body}
	if g.seen[p.Key()] {
		panic("duplicate program key " + p.Key())
	}

	g.seen[p.Key()] = true
	g.progs = append(g.progs, p)

	return &g.progs[len(g.progs)-1]
}

// out builds one output statement: a whole line, prefixed OUT|.
func out(format string, args ...string) string {
	if len(args) == 0 {
		return fmt.Sprintf("fmt.Printf(\"OUT|%s\\n\")\n", format)
	}

	return fmt.Sprintf("fmt.Printf(\"OUT|%s\\n\", %s)\n", format, strings.Join(args, ", "))
}

// show prints value and type of each named variable.
func show(names ...string) string {
	var f, a []string

	for _, n := range names {
		f = append(f, "%v %T")
		a = append(a, n, n)
	}

	return out(strings.Join(f, " | "), a...)
}

var intTypes = []string{"int8", "int16", "int32", "int64", "int", "byte", "uint16", "uint32", "uint64", "uint"}
var floatTypes = []string{"float32", "float64"}

func numTypes() []string { return append(append([]string{}, intTypes...), floatTypes...) }

// quickInt / quickNum: the quick tier enumerates a signed narrow, a signed
// middle, the default, an unsigned narrow and an unsigned middle integer type
// and both float types; the thorough tier every numeric type.
var quickInt = []string{"int8", "int32", "int", "byte", "uint16"}

func (g *gen) ints() []string {
	if g.thorough {
		return intTypes
	}

	return quickInt
}

func (g *gen) nums() []string { return append(append([]string{}, g.ints()...), floatTypes...) }

func isFloat(t string) bool  { return t == "float32" || t == "float64" }
func isSigned(t string) bool { return strings.HasPrefix(t, "int") || isFloat(t) }

var maxOf = map[string]string{
	"int8": "127", "int16": "32767", "int32": "2147483647", "int64": "9223372036854775807", "int": "9223372036854775807",
	"byte": "255", "uint16": "65535", "uint32": "4294967295", "uint64": "9223372036854775807", "uint": "9223372036854775807",
	"float32": "3.5e30", "float64": "1.5e300",
}

// values are the initial values of the subject variable of a type.
func (g *gen) values(t string) []string {
	if isFloat(t) {
		if g.thorough {
			return []string{"5", "2.5", "0", "-2.75", maxOf[t]}
		}

		return []string{"5", "2.5"}
	}

	v := []string{"5", maxOf[t]}
	if g.thorough {
		v = append(v, "0", "1")
		if isSigned(t) {
			v = append(v, "-3")
		}
	}

	return v
}

// stmtForms are single statements acting on a variable x of a numeric type
// (y is a second variable of the same type holding K).
var stmtForms = []struct{ name, text string }{
	{"x=x+K", "x = x + K"},
	{"x=x-K", "x = x - K"},
	{"x=x*K", "x = x * K"},
	{"x=x/K", "x = x / K"},
	{"x=K+x", "x = K + x"},
	{"x+=K", "x += K"},
	{"x-=K", "x -= K"},
	{"x*=K", "x *= K"},
	{"x/=K", "x /= K"},
	{"x++", "x++"},
	{"x--", "x--"},
	{"x=-x", "x = -x"},
	{"x=x+y", "x = x + y"},
	{"x=y+x", "x = y + x"},
	{"x=x+x", "x = x + x"},
	{"x=x+K+K", "x = x + K + K"},
}

// Generate enumerates the program set of a tier. The enumeration is
// deterministic and exhaustive over its alphabet: every statement form over
// every numeric type, initial value and constant (thorough: additionally every
// ordered pair of statement forms on the same variable), plus the fixed
// families of Ego-specific forms below.
func Generate(thorough bool) []Prog {
	g := &gen{thorough: thorough, seen: map[string]bool{}}

	g.numericStatements()
	g.comparisons()
	g.constantFolds()
	g.loops()
	g.packageConsts()
	g.globals()
	g.closuresAndFuncs()
	g.tryCatch()
	g.collections()
	g.structs()
	g.strings()
	g.dynamicTyping()
	g.controlFlow()
	g.scopes()
	g.aborts()

	return g.progs
}

func (g *gen) consts(t string) []string {
	if isFloat(t) {
		if g.thorough {
			return []string{"1", "2", "0.5"}
		}

		return []string{"1", "0.5"}
	}

	if g.thorough {
		return []string{"1", "2", "0"}
	}

	return []string{"1"}
}

func (g *gen) numericStatements() {
	for _, t := range g.nums() {
		for _, v := range g.values(t) {
			for _, k := range g.consts(t) {
				for _, f := range stmtForms {
					if !strings.Contains(f.text, "K") && !strings.Contains(f.text, "y") && k != g.consts(t)[0] {
						continue // the constant does not occur: one copy is enough
					}

					s := strings.ReplaceAll(f.text, "K", k)
					body := fmt.Sprintf("var x %s = %s\nvar y %s = %s\n%s\n", t, v, t, k, s) + show("x", "y")
					g.add("stmt:"+f.name, t, "v="+v+",k="+k, "", body)
				}
			}
		}
	}

	// The same statements on a function parameter and on a named result
	// (both are register candidates), on an undeclared-type variable (x := v),
	// and padded so that the function is large enough for optimizer level 1.
	for _, t := range g.nums() {
		v, k := "5", "1"

		for _, f := range stmtForms {
			s := strings.ReplaceAll(f.text, "K", k)

			decl := fmt.Sprintf("func h@@(x %s, y %s) %s {\n%s\nreturn x\n}\n", t, t, t, s)
			body := fmt.Sprintf("var a %s = %s\nvar b %s = %s\nr := h@@(a, b)\n", t, v, t, k) + show("r", "a")
			g.add("param:"+f.name, t, "v="+v+",k="+k, decl, body)

			body = fmt.Sprintf("var x %s = %s\nvar y %s = %s\n%s%s\n", t, v, t, k, padding, s) + show("x", "y")
			g.add("padded:"+f.name, t, "v="+v+",k="+k, "", body)

			body = fmt.Sprintf("var x %s = %s\nvar y %s = %s\nfor i := 0; i < 3; i++ {\n%s\n}\n", t, v, t, k, s) + show("x", "y")
			g.add("inloop:"+f.name, t, "v="+v+",k="+k, "", body)
		}
	}

	for _, f := range stmtForms {
		for _, v := range []string{"5", "2.5", `"ab"`, "true"} {
			s := strings.ReplaceAll(f.text, "K", "1")
			body := fmt.Sprintf("x := %s\ny := %s\n%s\n", v, v, s) + show("x", "y")
			g.add("untyped:"+f.name, "-", "v="+v, "", body)
		}
	}

	if !g.thorough {
		return
	}

	// Thorough: every ordered pair of statement forms on the same variable.
	for _, t := range g.nums() {
		for _, v := range []string{"5"} {
			for _, f1 := range stmtForms {
				for _, f2 := range stmtForms {
					s1 := strings.ReplaceAll(f1.text, "K", "1")
					s2 := strings.ReplaceAll(f2.text, "K", "2")
					body := fmt.Sprintf("var x %s = %s\nvar y %s = 3\n%s\n%s\n", t, v, t, s1, s2) + show("x", "y")
					g.add("pair:"+f1.name+";"+f2.name, t, "v="+v, "", body)
				}
			}
		}
	}
}

// padding makes a function body long enough (and gives it a range loop) for
// optimizer level 1 to consider it; it prints one fixed line.
const padding = `pa := 0
pb := []int{1, 2, 3}
for _, pv := range pb {
pa = pa + pv
}
pc := pa * 2
pd := pc - 1
if pd > 3 {
pd = pd - 3
}
pe := "p"
pe = pe + "q"
pf := 1.5
pf = pf * 2
fmt.Printf("OUT|pad %v %v %v %v\n", pa, pd, pe, pf)
`

var cmpOps = []string{"<", "<=", ">", ">=", "==", "!="}

func (g *gen) comparisons() {
	for _, t := range g.nums() {
		for _, op := range cmpOps {
			ks := []string{"5", "6"}
			if g.thorough {
				ks = []string{"4", "5", "6", "0"}
			}

			for _, k := range ks {
				body := fmt.Sprintf("var x %s = 5\nvar y %s = %s\n", t, t, k)
				body += fmt.Sprintf("a := x %s %s\nb := x %s y\nc := %s %s x\n", op, k, op, k, op)
				body += fmt.Sprintf("d := 0\nif x %s %s {\nd = 1\n} else {\nd = 2\n}\n", op, k)
				body += show("a", "b", "c", "d")
				g.add("cmp:x"+op+"K", t, "k="+k, "", body)
			}
		}
	}

	// Mixed-type comparisons against constants (the fused compare instruction
	// receives the constant unconverted).
	mixed := []struct{ decl, k string }{
		{"x := 5", "5.0"}, {"x := 5", "5.5"}, {"x := 5", `"5"`}, {"x := 2.5", "2"}, {"x := 2.5", "3"},
		{`x := "5"`, "5"}, {`x := "b"`, `"a"`}, {`x := "b"`, `"b"`}, {"x := true", "true"}, {"x := true", "1"},
		{"var x int8 = 5", "5.0"}, {"var x int8 = 5", "300"}, {"var x byte = 5", "-1"}, {"var x float32 = 2.5", "2.5"},
		{"var x int32 = 5", "5.5"}, {"var x uint16 = 5", `"5"`},
	}

	for _, m := range mixed {
		for _, op := range cmpOps {
			body := m.decl + "\n" + fmt.Sprintf("a := x %s %s\n", op, m.k) + show("a")
			g.add("cmpmixed:x"+op+"K", "-", m.decl+",k="+m.k, "", body)
		}
	}

	for _, e := range []string{"true && false", "true || false", "!true", "x && true", "x || false", "!x", "x == true", "x != false", "x && y", "x || y"} {
		body := "x := true\ny := false\n" + fmt.Sprintf("a := %s\n", e) + show("a", "x", "y")
		g.add("bool", "bool", e, "", body)
	}
}

func (g *gen) constantFolds() {
	exprs := []string{
		"2 + 3", "10 - 4", "6 * 7", "20 / 4", "7 / 2", "-7 / 2", "7 / 2.0", "7.0 / 2", "1.5 + 2", "2 + 1.5", "1.5 * 2",
		"1 + 2 + 3", "2 * 3 + 4", "2 + 3 * 4", "(2 + 3) * 4", "10 - 4 - 3", "100 / 5 / 2", "2 - 3", "0 - 1",
		`"a" + "b"`, `"a" + 1`, `1 + "a"`, `"a" + 1.5`, `"a" + true`, `"ab" * 2`, `"a" - "b"`, `"6" / "2"`, `"3" * "4"`,
		"true + 1", "true + true", "1 / 0", "1.0 / 0", "0 / 0", "1 / 0.0", "7 % 3", "7 % 0",
		"9223372036854775807 + 1", "9223372036854775807 * 2", "-9223372036854775807 - 2",
		"1000000 * 1000000", "3000000000 * 4", "0.1 + 0.2", "1e308 * 10", "127 + 1", "255 + 1",
		"int8(100) + int8(100)", "int8(127) + int8(1)", "int8(5) + 1", "1 + int8(5)", "byte(200) + byte(100)", "byte(5) - byte(6)",
		"int16(300) * int16(300)", "int32(5) / int32(2)", "float32(1.5) + float32(2.25)", "float32(0.1) + float32(0.2)",
		"int8(5) + int16(6)", "int32(5) + 2.5", "float32(2.5) + 1", "int64(5) * 2", "uint32(5) - uint32(6)", "uint64(5) - 6",
		"int(2.7) + 1", "float64(3) / 2", "string(65) + \"x\"", "-5 + 3", "-(2 + 3)", "-2 * -3", "2 * -3", "2 - -3",
	}

	for _, e := range exprs {
		g.add("fold:decl", "-", e, "", fmt.Sprintf("x := %s\n", e)+show("x"))
		g.add("fold:assign", "-", e, "", fmt.Sprintf("x := 0\nx = %s\n", e)+show("x"))
		g.add("fold:arg", "-", e, "", out("%v %T", e, e))
	}

	for _, t := range g.nums() {
		for _, e := range []string{"2 + 3", "100 + 100", "7 / 2", "2 - 3", "1.5 + 2", "20 * 20", `"1" + "2"`} {
			g.add("fold:typedvar", t, e, "", fmt.Sprintf("var x %s = %s\n", t, e)+show("x"))
			g.add("fold:typedassign", t, e, "", fmt.Sprintf("var x %s\nx = %s\n", t, e)+show("x"))
			g.add("fold:typedadd", t, e, "", fmt.Sprintf("var x %s = 1\nx = x + %s\n", t, e)+show("x"))
		}
	}

	// Folded expressions next to a variable: the fold must respect precedence
	// and evaluation order.
	for _, e := range []string{"x + 2 + 3", "2 + 3 + x", "x * 2 + 3", "x - 2 - 3", "x - (2 - 3)", "x / 2 / 5", "x * 2 * 3", "2 * 3 * x", "x + 2 * 3", "10 - 4 + x", "x + 1 - 1", "x - 1 + 1", `"a" + "b" + x`, "x + 1.5 + 2"} {
		for _, d := range []string{"x := 100", "x := 2.5", "var x int8 = 100", `x := "s"`} {
			g.add("fold:withvar", "-", d+","+e, "", fmt.Sprintf("%s\nz := %s\n", d, e)+show("z"))
		}
	}
}

func (g *gen) loops() {
	for _, t := range g.nums() {
		body := fmt.Sprintf("var x %s = 0\nfor i := 0; i < 5; i++ {\nx = x + 2\n}\n", t) + show("x")
		g.add("loop:index", t, "x=x+2", "", body)

		body = fmt.Sprintf("var x %s = 0\nvar i %s = 0\nfor i < 5 {\nx = x + i\ni = i + 1\n}\n", t, t) + show("x", "i")
		g.add("loop:cond", t, "i=i+1", "", body)

		body = fmt.Sprintf("var x %s = 1\nfor i := range 6 {\nif i == 1 {\ncontinue\n}\nif i >= 4 {\nbreak\n}\nx = x * 2\n}\n", t) + show("x")
		g.add("loop:range-int", t, "break-continue", "", body)

		body = fmt.Sprintf("a := []%s{1, 2, 3}\nvar x %s = 0\nfor i, v := range a {\nx = x + v\na[i] = v + 1\n}\n", t, t) + show("x", "a")
		g.add("loop:range-slice", t, "sum", "", body)

		body = fmt.Sprintf("var x %s = 0\nfor i := 0; i < 3; i++ {\nfor j := 0; j < 3; j++ {\nif j == 2 {\nbreak\n}\nx++\n}\n}\n", t) + show("x")
		g.add("loop:nested", t, "x++", "", body)

		body = fmt.Sprintf("var x %s = 10\nfor x > 1 {\nx = x - 3\n}\n", t) + show("x")
		g.add("loop:countdown", t, "x=x-3", "", body)

		body = fmt.Sprintf("var x %s = 10\nfor i := 10; i > 0; i = i - 1 {\nx--\n}\n", t) + show("x")
		g.add("loop:step-assign", t, "i=i-1", "", body)
	}

	g.add("loop:string-build", "string", "s=s+c", "", "s := \"\"\nfor i := 0; i < 4; i++ {\ns = s + \"ab\"\n}\n"+show("s"))
	g.add("loop:string-range", "string", "chars", "", "n := 0\nfor i, c := range \"héllo\" {\nn = n + i\n"+out("%v %v", "i", "c")+"}\n"+show("n"))
	g.add("loop:labeled", "int", "outer", "", "n := 0\nouter:\nfor i := 0; i < 4; i++ {\nfor j := 0; j < 4; j++ {\nif j == 2 {\ncontinue outer\n}\nif i == 3 {\nbreak outer\n}\nn = n + 1\n}\n}\n"+show("n"))
	g.add("loop:index-var-after", "int", "i", "", "i := 100\nfor i := 0; i < 3; i++ {\n}\n"+show("i"))
	g.add("loop:closure-in-loop", "int", "capture", "", "fs := []func() int{}\nfor i := 0; i < 3; i++ {\nfs = append(fs, func() int { return i * 10 })\n}\nfor _, f := range fs {\n"+out("%v", "f()")+"}\n")
	g.add("loop:range-map-one", "int", "single-key", "", "m := map[string]int{\"a\": 7}\nfor k, v := range m {\n"+out("%v %v", "k", "v")+"}\n")
	g.add("loop:range-map-sum", "int", "sum", "", "m := map[string]int{\"a\": 7, \"b\": 8, \"c\": 9}\nt := 0\nfor _, v := range m {\nt = t + v\n}\n"+show("t"))
	g.add("loop:zero-iterations", "int", "none", "", "x := 1\nfor i := 0; i < 0; i++ {\nx = 2\n}\nfor x > 5 {\nx = 3\n}\n"+show("x"))
}

func (g *gen) packageConsts() {
	type cv struct{ typ, val string }

	for _, c := range []cv{{"", "5"}, {"", "2.5"}, {"", `"cs"`}, {"", "true"}, {"int8", "5"}, {"int32", "5"}, {"byte", "5"}, {"float32", "2.5"}, {"uint64", "5"}, {"int", "5"}, {"float64", "2.5"}, {"string", `"cs"`}} {
		decl := fmt.Sprintf("const C@@ %s = %s\n", c.typ, c.val)
		name := c.typ + "=" + c.val

		g.add("const:read", "-", name, decl, "x := C@@\n"+show("x"))
		g.add("const:expr", "-", name, decl, "x := C@@ + C@@\n"+show("x"))
		g.add("const:arg", "-", name, decl, out("%v %T", "C@@", "C@@"))

		if c.val != `"cs"` && c.val != "true" {
			g.add("const:add-var", "-", name, decl, "y := 1\nx := y + C@@\nz := C@@ + y\n"+show("x", "z"))
			g.add("const:incr", "-", name, decl, "x := 1\nx = x + C@@\n"+show("x"))
			g.add("const:compare", "-", name, decl, "x := 5\na := x < C@@\nb := x == C@@\nc := C@@ >= x\n"+show("a", "b", "c"))
			g.add("const:loop-bound", "-", name, decl, "n := 0\nfor i := 0; i < C@@; i++ {\nn++\n}\n"+show("n"))

			for _, t := range []string{"int8", "int32", "float32", "int64", "byte"} {
				g.add("const:typed-target", t, name, decl, fmt.Sprintf("var x %s = C@@\n", t)+show("x"))
				g.add("const:typed-add", t, name, decl, fmt.Sprintf("var x %s = 1\nx = x + C@@\n", t)+show("x"))
			}
		}

		// A local that shadows the constant: the fold must not apply.
		g.add("const:shadow-local", "-", name, decl, "a := C@@\nC@@ := 77\nb := C@@\n"+show("a", "b"))
		g.add("const:shadow-block", "-", name, decl, "a := C@@\nif true {\nC@@ := \"inner\"\n"+show("C@@")+"}\nb := C@@\n"+show("a", "b"))
		g.add("const:shadow-param", "-", name, decl+"func f@@(C@@ int) int {\nreturn C@@ + 1\n}\n", "a := f@@(40)\nb := C@@\n"+show("a", "b"))
		g.add("const:in-closure", "-", name, decl, "f := func() any {\nreturn C@@\n}\nx := f()\n"+show("x"))
		g.add("const:in-func", "-", name, decl+"func f@@() any {\nreturn C@@\n}\n", "x := f@@()\n"+show("x"))
		g.add("const:assign-error", "-", name, decl, "try {\nC@@ = 9\n"+out("assigned")+"} catch (e) {\n"+out("caught %v", "e")+"}\n"+show("C@@"))
	}

	g.add("const:derived", "-", "D=C+1", "const C@@ = 5\nconst D@@ = C@@ + 1\nconst E@@ = D@@ * 2\n", "x := E@@\n"+show("x", "C@@", "D@@"))
	g.add("const:group", "-", "paren", "const (\nA@@ = 1\nB@@ = \"two\"\nC@@ = 3.5\n)\n", show("A@@", "B@@", "C@@"))
	g.add("const:iota", "-", "iota", "const (\nA@@ = iota\nB@@\nC@@\n)\n", show("A@@", "B@@", "C@@"))
	g.add("const:local", "-", "local-const", "", "const k = 5\nx := k + 1\n"+show("x", "k"))
	g.add("const:local-shadows-global", "-", "local-const", "const K@@ = 5\n", "a := K@@\nconst K@@ = 6\nb := K@@\n"+show("a", "b"))
	g.add("const:declared-later", "-", "use-before-decl", "func f@@() int {\nreturn L@@ + 1\n}\nconst L@@ = 41\n", "x := f@@()\n"+show("x"))
	g.add("const:same-name-var-in-other-func", "-", "var", "const M@@ = 5\nfunc f@@() int {\nM@@ := 9\nreturn M@@\n}\n", "a := f@@()\nb := M@@\n"+show("a", "b"))
}

func (g *gen) globals() {
	for _, t := range []string{"int", "int8", "int32", "byte", "float64", "float32", "string"} {
		v, k := "5", "1"
		if t == "string" {
			v, k = `"g"`, `"h"`
		}

		decl := fmt.Sprintf("var g@@ %s = %s\n", t, v)

		g.add("global:read", t, "read", decl, "x := g@@\n"+show("x"))
		g.add("global:incr", t, "g=g+k", decl, fmt.Sprintf("g@@ = g@@ + %s\n", k)+show("g@@"))
		g.add("global:opassign", t, "g+=k", decl, fmt.Sprintf("g@@ += %s\n", k)+show("g@@"))
		g.add("global:write-in-callee", t, "callee", decl+fmt.Sprintf("func set@@() {\ng@@ = g@@ + %s\n}\nfunc get@@() %s {\nreturn g@@\n}\n", k, t), "set@@()\nset@@()\nx := get@@()\n"+show("x", "g@@"))
		g.add("global:loop-in-callee", t, "loop", decl+fmt.Sprintf("func bump@@(n int) {\nfor i := 0; i < n; i++ {\ng@@ = g@@ + %s\n}\n}\n", k), "bump@@(3)\n"+show("g@@"))
		g.add("global:shadow-local", t, "shadow", decl, "a := g@@\ng@@ := 99\ng@@ = g@@ + 1\nb := g@@\n"+show("a", "b"))
		g.add("global:shadow-then-callee", t, "shadow", decl+fmt.Sprintf("func get@@() %s {\nreturn g@@\n}\n", t), "a := get@@()\ng@@ := 99\nb := get@@()\n"+show("a", "b", "g@@"))
		g.add("global:deep-recursion", t, "depth", decl+fmt.Sprintf("func deep@@(n int) %s {\nif n == 0 {\nreturn g@@\n}\nreturn deep@@(n - 1)\n}\n", t), "a := deep@@(6)\n"+fmt.Sprintf("g@@ = g@@ + %s\n", k)+"b := deep@@(3)\n"+show("a", "b"))
		g.add("global:closure", t, "closure", decl, fmt.Sprintf("f := func() {\ng@@ = g@@ + %s\n}\nf()\nf()\n", k)+show("g@@"))
		g.add("global:pointer", t, "addr", decl, fmt.Sprintf("p := &g@@\n*p = *p + %s\n", k)+show("g@@"))
		g.add("global:repeat-read", t, "cache", decl+fmt.Sprintf("func rd@@() %s {\nreturn g@@\n}\n", t), "a := rd@@()\n"+fmt.Sprintf("g@@ = g@@ + %s\n", k)+"b := rd@@()\n"+fmt.Sprintf("g@@ = g@@ + %s\n", k)+"c := rd@@()\n"+show("a", "b", "c"))
	}

	g.add("global:param-shadows", "int", "param", "var q@@ = 5\nfunc f@@(q@@ int) int {\nq@@ = q@@ + 1\nreturn q@@\n}\n", "a := f@@(10)\n"+show("a", "q@@"))
	g.add("global:retyped", "-", "dynamic", "var q@@ = 5\n", "try {\nq@@ = \"s\"\n} catch (e) {\n"+out("caught %v", "e")+"}\n"+show("q@@"))
	g.add("global:struct-field", "-", "field", "type T@@ struct {\nn int\n}\nvar s@@ = T@@{n: 1}\nfunc inc@@() {\ns@@.n = s@@.n + 1\n}\n", "inc@@()\ninc@@()\n"+show("s@@.n"))
	g.add("global:slice", "-", "append", "var a@@ = []int{1}\nfunc push@@(v int) {\na@@ = append(a@@, v)\n}\n", "push@@(2)\npush@@(3)\n"+show("a@@"))
	g.add("global:map", "-", "set", "var m@@ = map[string]int{}\nfunc put@@(k string, v int) {\nm@@[k] = v\n}\n", "put@@(\"a\", 1)\nput@@(\"a\", 2)\n"+out("%v %v", "m@@[\"a\"]", "len(m@@)"))
	g.add("global:func-var", "-", "funcvar", "var f@@ = func(x int) int {\nreturn x + 1\n}\n", "a := f@@(1)\nf@@ = func(x int) int {\nreturn x + 100\n}\nb := f@@(1)\n"+show("a", "b"))
	g.add("global:many", "-", "40-globals", manyGlobals(), "t := 0\n"+manyGlobalsSum()+show("t"))
}

func manyGlobals() string {
	var b strings.Builder
	for i := 0; i < 40; i++ {
		fmt.Fprintf(&b, "var v%d@@ = %d\n", i, i)
	}

	return b.String()
}

func manyGlobalsSum() string {
	var b strings.Builder
	for i := 0; i < 40; i++ {
		fmt.Fprintf(&b, "t = t + v%d@@\nv%d@@ = t\n", i, i)
	}

	return b.String()
}

func (g *gen) closuresAndFuncs() {
	g.add("func:closure-counter", "int", "counter", "func mk@@() func() int {\nn := 0\nreturn func() int {\nn = n + 1\nreturn n\n}\n}\n", "c := mk@@()\nc()\nc()\nd := mk@@()\n"+out("%v %v", "c()", "d()"))
	g.add("func:closure-modifies-local", "int", "n++", "", "n := 1\nf := func() {\nn++\n}\nf()\nf()\nn = n + 1\n"+show("n"))
	g.add("func:closure-modifies-param", "int", "param", "func f@@(n int) int {\ng := func() {\nn = n * 2\n}\ng()\nn = n + 1\nreturn n\n}\n", out("%v", "f@@(5)"))
	g.add("func:closure-shadow", "int", "shadow", "", "n := 1\nf := func() int {\nn := 50\nn = n + 1\nreturn n\n}\na := f()\n"+show("a", "n"))
	// a literal that uses a variable of the enclosing function and also declares
	// a same-named local in a nested block of its own body
	g.add("func:closure-write-and-block-shadow", "int", "named", "func f@@(n int) int {\ntotal := 0\nadd := func(k int) {\nif k < 0 {\ntotal := -k\nk = total\n}\ntotal = total + k\n}\nadd(3)\nadd(-4)\nreturn total + n\n}\n", out("%v", "f@@(10)"))
	g.add("func:closure-write-and-block-shadow", "int", "main", "", "total := 0\nadd := func(k int) {\nif k < 0 {\ntotal := -k\nk = total\n}\ntotal = total + k\n}\nadd(3)\nadd(-4)\n"+show("total"))
	g.add("func:closure-read-and-block-shadow", "int", "named", "func g@@(limit int) int {\nx := limit\nh := func() int {\nr := x\nif r > 5 {\nx := 100\nr = r + x\n}\nreturn r\n}\nreturn h() + x\n}\n", out("%v %v", "g@@(7)", "g@@(2)"))
	g.add("func:closure-write-then-shadow-after", "int", "named", "func f@@() int {\nn := 1\nh := func() int {\nn = n + 1\n{\nn := 50\nn++\n}\nreturn n\n}\na := h()\nreturn a*10 + n\n}\n", out("%v", "f@@()"))
	g.add("func:closure-param-write-and-block-shadow", "int", "named", "func f@@(n int) int {\nh := func(k int) {\nfor i := 0; i < k; i++ {\nn := i\nk = k + n - n\n}\nn = n + k\n}\nh(2)\nh(3)\nreturn n\n}\n", out("%v", "f@@(5)"))
	g.add("func:immediate", "int", "iife", "", "x := func(a int) int {\nreturn a + 1\n}(4)\n"+show("x"))
	g.add("func:defer-order", "int", "defer", "func f@@() {\nfor i := 0; i < 3; i++ {\ndefer func(k int) {\n"+out("deferred %v", "k")+"}(i)\n}\n"+out("body")+"}\n", "f@@()\n")
	g.add("func:defer-local", "int", "defer-sees-local", "func f@@() {\nn := 1\ndefer func() {\n"+out("deferred n=%v", "n")+"}()\nn = n + 1\nn++\n}\n", "f@@()\n")
	g.add("func:defer-arg-eval", "int", "arg-time", "func f@@() {\nn := 1\ndefer fmt.Printf(\"OUT|deferred %v\\n\", n)\nn = n + 1\n"+out("body %v", "n")+"}\n", "f@@()\n")
	g.add("func:multi-return", "int", "swap", "func two@@(a int, b int) (int, int) {\nreturn b, a + 1\n}\n", "x, y := two@@(1, 2)\nx, y = y, x\n"+show("x", "y"))
	g.add("func:multi-return-discard", "int", "blank", "func two@@() (int, string) {\nreturn 7, \"s\"\n}\n", "_, s := two@@()\nn, _ := two@@()\n_ = n\n"+show("s", "n"))
	g.add("func:variadic", "int", "sum", "func sum@@(v ...int) int {\nt := 0\nfor _, x := range v {\nt = t + x\n}\nreturn t\n}\n", out("%v %v %v", "sum@@()", "sum@@(1)", "sum@@(1, 2, 3)"))
	g.add("func:recursion-fib", "int", "fib", "func fib@@(n int) int {\nif n < 2 {\nreturn n\n}\nreturn fib@@(n-1) + fib@@(n-2)\n}\n", out("%v", "fib@@(10)"))
	g.add("func:recursion-acc", "int", "acc", "func sum@@(n int, acc int) int {\nif n == 0 {\nreturn acc\n}\nacc = acc + n\nreturn sum@@(n-1, acc)\n}\n", out("%v", "sum@@(10, 0)"))
	g.add("func:named-result", "int", "named", "func f@@(a int) (r int) {\nr = a\nr = r + 1\nr++\nreturn r\n}\n", out("%v", "f@@(1)"))
	g.add("func:param-reassign", "-", "types", "func f@@(a int, b string, c float64, d bool) string {\na = a + 1\nb = b + \"!\"\nc = c + 0.5\nd = !d\nreturn fmt.Sprintf(\"%v %v %v %v\", a, b, c, d)\n}\n", out("%v", "f@@(1, \"s\", 1.5, true)"))
	g.add("func:param-by-value", "int", "caller-unchanged", "func f@@(a int) {\na = a + 1\na++\n}\n", "x := 1\nf@@(x)\n"+show("x"))
	g.add("func:slice-param", "-", "aliasing", "func f@@(a []int) {\na[0] = a[0] + 1\n}\n", "x := []int{1, 2}\nf@@(x)\n"+show("x"))
	g.add("func:pointer-param", "int", "deref", "func f@@(p *int) {\n*p = *p + 1\n}\n", "x := 1\nf@@(&x)\nf@@(&x)\n"+show("x"))
	g.add("func:func-value", "int", "pass", "func ap@@(f func(int) int, v int) int {\nreturn f(f(v))\n}\n", "inc := func(a int) int {\nreturn a + 1\n}\n"+out("%v", "ap@@(inc, 1)"))
	g.add("func:nested-named", "int", "nested", "", "func inner(a int) int {\nreturn a * 2\n}\nx := inner(4)\n"+show("x"))
	g.add("func:local-shadows-func", "int", "shadow", "func q@@() int {\nreturn 1\n}\n", "a := q@@()\nq@@ := 5\nq@@ = q@@ + 1\n"+show("a", "q@@"))
	g.add("func:arg-count-error", "-", "too-many", "func f@@(a int) int {\nreturn a\n}\n", "try {\nx := f@@(1, 2)\n"+show("x")+"} catch (e) {\n"+out("caught %v", "e")+"}\n")
	g.add("func:arg-type-coerce", "-", "coerce", "func f@@(a int, b float64, s string) string {\nreturn fmt.Sprintf(\"%v %T %v %T %v %T\", a, a, b, b, s, s)\n}\n", "try {\n"+out("%v", "f@@(2.7, 3, 5)")+"} catch (e) {\n"+out("caught %v", "e")+"}\n")
	g.add("func:return-coerce", "-", "coerce", "func f@@() int8 {\nx := 300\nreturn x\n}\n", "try {\nr := f@@()\n"+show("r")+"} catch (e) {\n"+out("caught %v", "e")+"}\n")
	g.add("func:many-locals", "int", "40-locals", "", manyLocals())
	g.add("func:many-params", "int", "10-params", "func f@@(a, b, c, d, e, f, g, h, i, j int) int {\na = a + j\nj = j + a\nreturn a + b + c + d + e + f + g + h + i + j\n}\n", out("%v", "f@@(1, 2, 3, 4, 5, 6, 7, 8, 9, 10)"))
}

func manyLocals() string {
	var b strings.Builder

	for i := 0; i < 40; i++ {
		fmt.Fprintf(&b, "v%d := %d\n", i, i)
	}

	b.WriteString("t := 0\n")

	for i := 0; i < 40; i++ {
		fmt.Fprintf(&b, "t = t + v%d\nv%d = t\n", i, i)
	}

	b.WriteString(show("t", "v0", "v39"))

	return b.String()
}

func (g *gen) tryCatch() {
	g.add("try:div-zero", "int", "catch-e", "", "x := 0\ntry {\ny := 5 / x\n"+show("y")+"} catch (e) {\n"+out("caught %v", "e")+"}\n"+show("x"))
	g.add("try:div-zero-const", "int", "const-fold", "", "try {\ny := 5 / 0\n"+show("y")+"} catch (e) {\n"+out("caught %v", "e")+"}\n")
	g.add("try:div-zero-float", "float64", "float", "", "x := 0.0\ntry {\ny := 5.0 / x\n"+show("y")+"} catch (e) {\n"+out("caught %v", "e")+"}\n")
	g.add("try:no-catch", "int", "nice-try", "", "x := 1000\nz := 0\ntry {\nx = 5 / z\n}\n"+show("x"))
	g.add("try:no-error", "int", "clean", "", "x := 1\ntry {\nx = x + 1\n} catch {\nx = 100\n}\n"+show("x"))
	g.add("try:index", "int", "array-index", "", "a := []int{1, 2}\ntry {\n"+out("%v", "a[5]")+"} catch (e) {\n"+out("caught %v", "e")+"}\n")
	g.add("try:in-callee", "int", "callee", "func bad@@(d int) int {\nreturn 10 / d\n}\n", "try {\n"+out("%v", "bad@@(2)")+out("%v", "bad@@(0)")+out("unreached")+"} catch (e) {\n"+out("caught %v", "e")+"}\n")
	g.add("try:nested", "int", "nested", "", "z := 0\ntry {\ntry {\nx := 1 / z\n"+show("x")+"} catch (e) {\n"+out("caught %v", "e")+out("in inner catch")+"y := 2 / z\n"+show("y")+"}\n} catch (e2) {\n"+out("caught %v", "e2")+out("in outer catch")+"}\n")
	g.add("try:in-loop", "int", "continue", "", "n := 0\nfor i := 0; i < 4; i++ {\ntry {\nn = n + 10/(i-2)\n} catch {\nn = n + 1000\ncontinue\n}\nn = n + 1\n}\n"+show("n"))
	g.add("try:break-out", "int", "break", "", "n := 0\nfor i := 0; i < 4; i++ {\ntry {\nif i == 2 {\nbreak\n}\nn++\n} catch {\nn = -1\n}\n}\n"+show("n"))
	g.add("try:return-inside", "int", "return", "func f@@(z int) int {\ntry {\nreturn 10 / z\n} catch {\nreturn -1\n}\nreturn -2\n}\n", out("%v %v", "f@@(2)", "f@@(0)"))
	g.add("try:panic", "string", "panic", "", "try {\npanic(\"boom\")\n} catch (e) {\n"+out("caught %v", "e")+"}\n").Solo = true
	g.add("try:panic-in-callee", "string", "panic", "func p@@(n int) {\nif n > 1 {\npanic(\"too big\")\n}\n}\n", "try {\np@@(1)\n"+out("one ok")+"p@@(2)\n"+out("unreached")+"} catch (e) {\n"+out("caught %v", "e")+"}\n").Solo = true
	g.add("try:error-value", "-", "errors.New", "", "e := errors.New(\"custom\")\n"+out("%v", "e")+"try {\nthrow e\n} catch (c) {\n"+out("caught %v", "c")+"}\n")
	g.add("try:locals-after-catch", "int", "scope", "", "a := 1\nz := 0\ntry {\na = a + 1\nb := 10 / z\na = b\n} catch {\na = a + 10\n}\na = a + 1\n"+show("a"))
	g.add("try:type-error", "-", "coerce", "", "try {\nvar x int = \"abc\"\n"+show("x")+"} catch (e) {\n"+out("caught %v", "e")+"}\n")
	g.add("try:unknown-member", "-", "member", "", "s := {a: 1}\ntry {\n"+out("%v", "s.b")+"} catch (e) {\n"+out("caught %v", "e")+"}\n")
	g.add("try:nil-map", "-", "nil", "", "var m map[string]int\ntry {\nm[\"a\"] = 1\n"+out("stored")+"} catch (e) {\n"+out("caught %v", "e")+"}\n")
	g.add("try:defer-and-error", "int", "defer", "func f@@(z int) int {\ndefer func() {\n"+out("deferred")+"}()\nreturn 10 / z\n}\n", "try {\n"+out("%v", "f@@(0)")+"} catch (e) {\n"+out("caught %v", "e")+"}\n")

	for _, e := range []string{"?(15/x):-1", "?(15/y):-1", "?m[\"a\"]:7", "?m[\"zz\"]:7", "?s.a:9", "?s.nope:9", "?a[1]:8", "?a[9]:8", "?(15/x):-1 + 1", "?(1/0):5", "?(2+3):5"} {
		g.add("optional", "-", e, "", "x := 0\ny := 3\nm := map[string]int{\"a\": 1}\ns := {a: 2}\na := []int{4, 5}\nv := "+e+"\n"+show("v")+"_ = x\n_ = y\n_ = m\n_ = s\n_ = a\n")
	}

	for _, e := range []string{"if x > 1 {\"big\"} else {\"small\"}", "if true {1} else {2}", "if false {1} else {2.5}", "\"got \" + if x == 3 {\"three\"} else {\"other\"} + \"!\""} {
		g.add("conditional-expr", "-", e, "", "x := 3\nv := "+e+"\n"+show("v", "x"))
	}
}

func (g *gen) collections() {
	for _, t := range []string{"int", "int8", "int32", "byte", "float64", "float32", "string"} {
		one, k := "1", "1"
		lit := "1, 2, 3"

		if t == "string" {
			one, k, lit = `"a"`, `"z"`, `"a", "b", "c"`
		}

		g.add("slice:elem=elem+k", t, "a[i]=a[i]+k", "", fmt.Sprintf("a := []%s{%s}\ni := 1\na[i] = a[i] + %s\na[0] = a[0] + %s\n", t, lit, k, k)+show("a"))
		g.add("slice:elem+=k", t, "a[i]+=k", "", fmt.Sprintf("a := []%s{%s}\ni := 1\na[i] += %s\n", t, lit, k)+show("a"))
		g.add("slice:elem=const", t, "a[i]=k", "", fmt.Sprintf("a := []%s{%s}\na[1] = %s\n", t, lit, k)+show("a"))
		g.add("slice:append", t, "append", "", fmt.Sprintf("a := []%s{%s}\na = append(a, %s)\nb := a[1:3]\n", t, lit, k)+show("a", "b")+out("%v", "len(a)"))
		g.add("slice:make", t, "make", "", fmt.Sprintf("a := make([]%s, 3)\na[2] = %s\n", t, k)+show("a"))
		g.add("map:value=value+k", t, "m[k]=m[k]+k", "", fmt.Sprintf("m := map[string]%s{\"a\": %s}\nm[\"a\"] = m[\"a\"] + %s\n", t, one, k)+out("%v %T", "m[\"a\"]", "m[\"a\"]"))
		g.add("map:set-const", t, "m[k]=k", "", fmt.Sprintf("m := map[string]%s{}\nm[\"a\"] = %s\nm[\"a\"] = %s\n", t, one, k)+out("%v %v", "m[\"a\"]", "len(m)"))
	}

	for _, t := range g.ints() {
		g.add("slice:elem++", t, "a[i]++", "", fmt.Sprintf("a := []%s{1, 2, 3}\na[1]++\na[2]--\n", t)+show("a"))
	}

	g.add("map:missing-key", "int", "two-value", "", "m := map[string]int{\"a\": 1}\nv, ok := m[\"zz\"]\nw, ok2 := m[\"a\"]\n"+out("%v %v %v %v", "v", "ok", "w", "ok2"))
	g.add("map:delete", "int", "delete", "", "m := map[string]int{\"a\": 1, \"b\": 2}\ndelete(m, \"a\")\n"+out("%v %v", "len(m)", "m[\"b\"]"))
	g.add("map:int-keys", "string", "int-key", "", "m := map[int]string{1: \"one\"}\nm[2] = \"two\"\nk := 1\n"+out("%v %v %v", "m[k]", "m[k+1]", "len(m)"))
	g.add("map:of-slices", "-", "nested", "", "m := map[string][]int{\"a\": []int{1}}\nm[\"a\"] = append(m[\"a\"], 2)\n"+out("%v", "m[\"a\"]"))
	g.add("slice:index-error-solo", "int", "uncaught", "", "a := []int{1, 2}\ni := 2\na[i] = 5\n"+show("a"))
	g.add("slice:2d", "int", "matrix", "", "a := [][]int{[]int{1, 2}, []int{3, 4}}\na[1][0] = a[1][0] + a[0][1]\n"+show("a"))
	g.add("slice:of-struct", "-", "struct-elem", "type P@@ struct {\nx int\n}\n", "a := []P@@{P@@{x: 1}, P@@{x: 2}}\na[1].x = a[1].x + 5\n"+out("%v %v", "a[0].x", "a[1].x"))
	g.add("slice:len-cap-compare", "int", "len", "", "a := []int{1, 2, 3}\nn := 0\nfor i := 0; i < len(a); i++ {\nn = n + a[i]\n}\nb := len(a) == 3\n"+show("n", "b"))
	g.add("slice:negative-index", "int", "neg", "", "a := []int{1, 2}\ntry {\n"+out("%v", "a[-1]")+"} catch (e) {\n"+out("caught %v", "e")+"}\n")
}

func (g *gen) structs() {
	for _, t := range []string{"int", "int8", "int32", "byte", "float64", "float32", "string"} {
		v, k := "5", "1"
		if t == "string" {
			v, k = `"f"`, `"g"`
		}

		decl := fmt.Sprintf("type S@@ struct {\nf %s\nn int\n}\n", t)

		g.add("struct:field=field+k", t, "s.f=s.f+k", decl, fmt.Sprintf("s := S@@{f: %s, n: 1}\ns.f = s.f + %s\n", v, k)+show("s.f"))
		g.add("struct:field+=k", t, "s.f+=k", decl, fmt.Sprintf("s := S@@{f: %s, n: 1}\ns.f += %s\n", v, k)+show("s.f"))
		g.add("struct:field=const", t, "s.f=k", decl, fmt.Sprintf("s := S@@{f: %s, n: 1}\ns.f = %s\n", v, k)+show("s.f"))
		g.add("struct:method-value", t, "value-receiver", decl+fmt.Sprintf("func (s S@@) get() %s {\nreturn s.f + %s\n}\n", t, k), fmt.Sprintf("s := S@@{f: %s, n: 1}\nx := s.get()\n", v)+show("x", "s.f"))
		g.add("struct:method-pointer", t, "pointer-receiver", decl+fmt.Sprintf("func (s *S@@) bump() {\ns.f = s.f + %s\ns.n++\n}\n", k), fmt.Sprintf("s := S@@{f: %s, n: 1}\ns.bump()\ns.bump()\n", v)+show("s.f", "s.n"))
		g.add("struct:pointer", t, "p.f", decl, fmt.Sprintf("s := S@@{f: %s, n: 1}\np := &s\np.f = p.f + %s\n", v, k)+show("s.f"))
		g.add("struct:copy", t, "copy", decl, fmt.Sprintf("s := S@@{f: %s, n: 1}\nc := s\nc.f = c.f + %s\n", v, k)+show("s.f", "c.f"))
	}

	for _, t := range g.ints() {
		decl := fmt.Sprintf("type S@@ struct {\nf %s\n}\n", t)
		g.add("struct:field++", t, "s.f++", decl, "s := S@@{f: 5}\ns.f++\ns.f--\ns.f++\n"+show("s.f"))
	}

	g.add("struct:nested", "-", "nested", "type I@@ struct {\nv int\n}\ntype O@@ struct {\nin I@@\nname string\n}\n", "o := O@@{in: I@@{v: 1}, name: \"n\"}\no.in.v = o.in.v + 1\no.name = o.name + \"!\"\n"+out("%v %v", "o.in.v", "o.name"))
	g.add("struct:anonymous", "-", "anon", "", "s := {a: 1, b: \"x\"}\ns.a = s.a + 1\n"+out("%v %v", "s.a", "s.b"))
	g.add("struct:print", "-", "format", "type P@@ struct {\nx int\ny float64\n}\n", "p := P@@{x: 1, y: 2.5}\np.x++\n"+out("%v", "p"))
	g.add("struct:method-chain", "-", "chain", "type C@@ struct {\nn int\n}\nfunc (c *C@@) add(k int) *C@@ {\nc.n = c.n + k\nreturn c\n}\n", "c := &C@@{n: 1}\nc.add(2).add(3)\n"+out("%v", "c.n"))
	g.add("struct:method-calls-method", "-", "this", "type C@@ struct {\nn int\n}\nfunc (c C@@) dbl() int {\nreturn c.n * 2\n}\nfunc (c C@@) quad() int {\nreturn c.dbl() + c.dbl()\n}\n", "c := C@@{n: 3}\nd := C@@{n: 5}\n"+out("%v %v %v", "c.quad()", "d.quad()", "c.dbl()"))
	g.add("struct:unknown-field", "-", "error", "type C@@ struct {\nn int\n}\n", "c := C@@{n: 3}\ntry {\nc.zz = 1\n"+out("stored")+"} catch (e) {\n"+out("caught %v", "e")+"}\n")
	g.add("struct:zero-value", "-", "var", "type C@@ struct {\nn int\ns string\nf float64\nb bool\n}\n", "var c C@@\nc.n = c.n + 1\n"+out("%v %v %v %v", "c.n", "c.s", "c.f", "c.b"))
	g.add("struct:user-type", "-", "type-int", "type M@@ int\n", "var m M@@ = 5\nm = m + 1\n"+show("m"))
	g.add("struct:interface", "-", "any", "", "var a any = 5\nb := a\na = \"s\"\n"+show("a", "b"))
	g.add("struct:type-assert", "-", "assert", "", "var a any = 5\nn, ok := a.(int)\ns, ok2 := a.(string)\n"+out("%v %v %v %v", "n", "ok", "s", "ok2"))
}

func (g *gen) strings() {
	for _, s := range []string{`s = s + "a"`, `s += "a"`, `s = "a" + s`, `s = s + s`, `s = s + 1`, `s = s + 1.5`, `s = s + true`, `s = 1 + s`, `s += 1`, `s = s + "a" + "b"`} {
		g.add("string:"+s, "string", "s", "", "s := \"x\"\n"+s+"\n"+show("s"))
		g.add("string-typed:"+s, "string", "var s string", "", "var s string = \"x\"\n"+s+"\n"+show("s"))
	}

	for _, op := range cmpOps {
		g.add("string:cmp"+op, "string", "const", "", "s := \"b\"\nt := \"c\"\n"+fmt.Sprintf("a := s %s \"b\"\nb := s %s t\nc := \"a\" %s s\n", op, op, op)+show("a", "b", "c"))
	}

	g.add("string:len-index", "string", "len", "", "s := \"hello\"\nn := len(s)\nt := s[1:3]\n"+show("n", "t"))
	g.add("string:conversions", "string", "convert", "", "a := string(65)\nb := int(\"42\") + 1\nc := float64(\"1.5\") + 1\nd := string(3.5) + \"!\"\n"+show("a", "b", "c", "d"))
	g.add("string:package", "string", "strings", "", "s := strings.ToUpper(\"ab\") + strings.Repeat(\"z\", 2)\nn := strings.Index(s, \"Z\")\n"+show("s", "n"))
	g.add("string:sprintf", "string", "fmt", "", "s := fmt.Sprintf(\"%d-%s-%v\", 5, \"x\", 1.5)\n"+show("s"))
	g.add("string:multiline", "string", "raw", "", "s := `a\nb`\n"+out("%v", "len(s)"))
	g.add("string:escape", "string", "escape", "", "s := \"a\\tb\\\"c\"\n"+out("%v %v", "len(s)", "s"))
}

func (g *gen) dynamicTyping() {
	g.add("dyn:retype", "-", "int->string", "", "x := 1\nx = \"s\"\n"+show("x")).Solo = true
	g.add("dyn:retype-try", "-", "int->string", "", "x := 1\ntry {\nx = \"s\"\n} catch (e) {\n"+out("caught %v", "e")+"}\n"+show("x"))
	g.add("dyn:retype-float-try", "-", "int->float", "", "x := 1\ntry {\nx = 2.5\n} catch (e) {\n"+out("caught %v", "e")+"}\n"+show("x"))
	g.add("dyn:widen-add", "-", "int+float", "", "x := 1\ntry {\nx = x + 0.5\n} catch (e) {\n"+out("caught %v", "e")+"}\n"+show("x"))
	g.add("dyn:int-plus-string", "-", "int+string", "", "x := 1\ntry {\nx = x + \"a\"\n} catch (e) {\n"+out("caught %v", "e")+"}\n"+show("x"))
	g.add("dyn:var-then-assign", "-", "var int = float", "", "try {\nvar x int\nx = 2.7\n"+show("x")+"} catch (e) {\n"+out("caught %v", "e")+"}\n")
	g.add("dyn:narrow", "-", "int8=300", "", "try {\nvar x int8\nx = 300\n"+show("x")+"} catch (e) {\n"+out("caught %v", "e")+"}\n")
	g.add("dyn:narrow-var", "-", "int8=n", "", "n := 300\ntry {\nvar x int8\nx = n\n"+show("x")+"} catch (e) {\n"+out("caught %v", "e")+"}\n")
	g.add("dyn:mixed-int-widths", "-", "int8+int32", "", "var a int8 = 5\nvar b int32 = 6\ntry {\nc := a + b\n"+show("c")+"} catch (e) {\n"+out("caught %v", "e")+"}\n")
	g.add("dyn:mixed-int-float", "-", "int+float64", "", "var a int = 5\nvar b float64 = 1.5\ntry {\nc := a + b\nd := b + a\n"+show("c", "d")+"} catch (e) {\n"+out("caught %v", "e")+"}\n")
	g.add("dyn:incr-mixed", "-", "int8+=int", "", "var a int8 = 5\nn := 1\ntry {\na = a + n\n"+show("a")+"} catch (e) {\n"+out("caught %v", "e")+"}\n")
	g.add("dyn:incr-float-const", "-", "int+=0.5", "", "var a int = 5\ntry {\na = a + 0.5\n"+show("a")+"} catch (e) {\n"+out("caught %v", "e")+"}\n")
	g.add("dyn:incr-big-const", "-", "int8+=1000", "", "var a int8 = 5\ntry {\na = a + 1000\n"+show("a")+"} catch (e) {\n"+out("caught %v", "e")+"}\n")
	g.add("dyn:byte-minus", "-", "byte-=1 at 0", "", "var a byte = 0\ntry {\na = a - 1\n"+show("a")+"} catch (e) {\n"+out("caught %v", "e")+"}\n")
	g.add("dyn:incr-negative-const", "-", "x=x+-1", "", "var a int8 = 5\nvar b byte = 5\nvar c uint32 = 5\na = a + -1\nb = b + -1\nc = c + -1\n"+show("a", "b", "c"))
	g.add("dyn:compile-type-error-solo", "-", "strict-only", "", "var x int = 5\nvar y string = x\n"+show("y")).Solo = true
	g.add("dyn:bool-from-int", "-", "if 1", "", "x := 1\ntry {\nif x {\n"+out("truthy")+"}\n} catch (e) {\n"+out("caught %v", "e")+"}\n")
	g.add("dyn:undefined-symbol", "-", "undefined", "", "try {\nx := nosuch@@ + 1\n"+show("x")+"} catch (e) {\n"+out("caught %v", "e")+"}\n").Solo = true
	g.add("dyn:unused-var", "-", "unused", "", "x := 1\n"+out("done")).Solo = true
}

func (g *gen) controlFlow() {
	for _, c := range []string{"1 < 2", "2 < 1", "true", "false", "1 == 1.0", "\"a\" < \"b\"", "x < 10", "x > 10", "x == 5", "x != 5", "x < 10 && x > 1", "x > 10 || x == 5", "!(x == 5)"} {
		g.add("if:cond", "-", c, "", "x := 5\nr := 0\nif "+c+" {\nr = 1\n} else {\nr = 2\n}\n"+show("r", "x"))
	}

	g.add("if:init", "int", "if v := ...", "", "x := 5\nif v := x + 1; v > 5 {\n"+out("big %v", "v")+"} else {\n"+out("small %v", "v")+"}\n")
	g.add("if:else-if", "int", "chain", "", "for i := 0; i < 4; i++ {\nif i == 0 {\n"+out("zero")+"} else if i == 1 {\n"+out("one")+"} else if i < 3 {\n"+out("two")+"} else {\n"+out("many")+"}\n}\n")

	for _, t := range []string{"int", "int8", "byte", "float64", "string"} {
		vals := []string{"1", "2", "3"}
		if t == "string" {
			vals = []string{`"1"`, `"2"`, `"3"`}
		}

		body := fmt.Sprintf("for _, x := range []%s{%s} {\nswitch x {\ncase %s:\n", t, strings.Join(vals, ", "), vals[0]) + out("first") + fmt.Sprintf("case %s:\n", vals[1]) + out("second") + "default:\n" + out("other %v", "x") + "}\n}\n"
		g.add("switch:tagged", t, "const-cases", "", body)
	}

	g.add("switch:tagless", "int", "conditions", "", "for x := 0; x < 4; x++ {\nswitch {\ncase x < 1:\n"+out("lt1")+"case x == 1:\n"+out("eq1")+"case x >= 3:\n"+out("ge3")+"default:\n"+out("dflt")+"}\n}\n")
	g.add("switch:fallthrough", "int", "fallthrough", "", "x := 1\nswitch x {\ncase 1:\n"+out("one")+"fallthrough\ncase 2:\n"+out("two")+"case 3:\n"+out("three")+"}\n")
	g.add("switch:break", "int", "break", "", "for i := 0; i < 3; i++ {\nswitch i {\ncase 1:\nif i == 1 {\nbreak\n}\n"+out("unreached")+"default:\n"+out("i=%v", "i")+"}\n}\n")
	g.add("switch:multi-value", "int", "case a,b", "", "for i := 0; i < 4; i++ {\nswitch i {\ncase 0, 2:\n"+out("even %v", "i")+"case 1, 3:\n"+out("odd %v", "i")+"}\n}\n")
	g.add("switch:type", "-", "type-switch", "", "for _, v := range []any{1, \"s\", 2.5, true} {\nswitch t := v.(type) {\ncase int:\n"+out("int %v", "t")+"case string:\n"+out("string %v", "t")+"default:\n"+out("other %v", "t")+"}\n}\n")

	g.add("ptr:local", "int", "*p=*p+1", "", "x := 1\np := &x\n*p = *p + 1\n*p = *p + 1\nx = x + 1\n"+show("x"))
	g.add("ptr:nil", "-", "nil-deref", "", "var p *int\ntry {\nx := *p\n"+show("x")+"} catch (e) {\n"+out("caught %v", "e")+"}\n")
	g.add("conv:narrowing", "-", "casts", "", "a := int8(100)\nb := int(3.7)\nc := float32(1) / 3\nd := byte(65)\ne := int32(a) * 100\nf := float64(b) + 0.5\n"+show("a", "b", "c", "d", "e", "f"))
	g.add("conv:overflow", "-", "int8(300)", "", "n := 300\ntry {\na := int8(n)\n"+show("a")+"} catch (e) {\n"+out("caught %v", "e")+"}\n")
	g.add("blank:discard", "-", "_ =", "func f@@() int {\n"+out("called")+"return 1\n}\n", "_ = f@@()\n_ = 5\n_ = \"s\"\nx := 1\n_ = x\n"+out("done"))
	g.add("parallel-assign", "int", "a,b=b,a", "", "a := 1\nb := 2\na, b = b, a+b\n"+show("a", "b"))
	g.add("parallel-assign-index", "int", "a[0],a[1]", "", "a := []int{1, 2}\na[0], a[1] = a[1], a[0]\n"+show("a"))
	g.add("var:zero-values", "-", "zero", "", "var a int\nvar b string\nvar c float64\nvar d bool\nvar e int8\nvar f []int\n"+show("a", "b", "c", "d", "e")+out("%v", "len(f)"))
	g.add("var:grouped", "-", "var()", "", "var (\na = 1\nb = \"s\"\n)\na = a + 1\n"+show("a", "b"))
	g.add("print:statement", "-", "print", "", "x := 5\nprint \"OUT|p \", x\nprint \"OUT|q\"\n")
	g.add("println", "-", "println", "", "x := 5\nfmt.Println(\"OUT|a\", x, 2.5, \"s\", true)\nfmt.Print(\"OUT|b\", x, \"\\n\")\n")
	g.add("math-funcs", "-", "math", "", "a := math.Sqrt(16.0)\nb := math.Abs(-2.5)\nc := math.Max(1.0, 2.0) + 1\n"+show("a", "b", "c"))
	g.add("builtins", "-", "len/append/min", "", "a := []int{3, 1, 2}\nb := len(a) + 1\nc := append(a, 4)\n"+show("b", "c"))
}

func (g *gen) scopes() {
	g.add("scope:nested-shadow", "int", "5-deep", "", "x := 1\n{\nx := x + 10\n{\nx := x + 100\n{\nx = x + 1000\n"+show("x")+"}\n"+show("x")+"}\n"+show("x")+"}\n"+show("x"))
	g.add("scope:block-assign-outer", "int", "outer", "", "x := 1\n{\nx = x + 1\ny := x\n{\nx = x + y\n}\n}\n"+show("x"))
	g.add("scope:if-shadow", "int", "if-block", "", "x := 1\nif x == 1 {\nx := 50\nx = x + 1\n"+show("x")+"}\nx = x + 1\n"+show("x"))
	g.add("scope:for-shadow", "int", "for-block", "", "x := 1\nfor i := 0; i < 2; i++ {\nx := i\nx = x + 100\n"+show("x")+"}\n"+show("x"))
	g.add("scope:retype-in-shadow", "-", "shadow-other-type", "", "x := 1\n{\nx := \"s\"\nx = x + \"t\"\n"+show("x")+"}\nx = x + 1\n"+show("x"))
	g.add("scope:same-name-sibling-blocks", "-", "siblings", "", "{\nv := 1\nv = v + 1\n"+show("v")+"}\n{\nv := \"s\"\nv = v + \"t\"\n"+show("v")+"}\n{\nv := 2.5\nv = v + 1\n"+show("v")+"}\n")
	g.add("scope:use-before-declare", "-", "undeclared", "", "try {\ny = 5\n"+out("assigned")+"} catch (e) {\n"+out("caught %v", "e")+"}\n").Solo = true
	g.add("scope:redeclare", "-", "x := twice", "", "x := 1\ntry {\nx := 2\n"+show("x")+"} catch (e) {\n"+out("caught %v", "e")+"}\n"+show("x"))
	g.add("scope:param-shadow-in-block", "int", "param", "func f@@(a int) int {\nif a > 0 {\na := a * 10\na = a + 1\n"+show("a")+"}\na = a + 1\nreturn a\n}\n", out("%v", "f@@(2)"))
	g.add("scope:loop-var-per-iteration", "int", "capture", "", "var fs []func() int\nfor i := 0; i < 3; i++ {\nj := i * 2\nfs = append(fs, func() int {\nj = j + 1\nreturn j\n})\n}\n"+out("%v %v %v %v", "fs[0]()", "fs[0]()", "fs[1]()", "fs[2]()"))
	g.add("scope:callee-cannot-see-caller", "int", "isolation", "func peek@@() int {\nreturn hidden@@\n}\n", "hidden@@ := 5\ntry {\n"+out("%v", "peek@@()")+"} catch (e) {\n"+out("caught %v", "e")+"}\n_ = hidden@@\n").Solo = true
	g.add("scope:recursion-locals", "int", "frames", "func r@@(n int) int {\nloc := n * 2\nif n > 0 {\nr@@(n - 1)\n}\nloc = loc + 1\nreturn loc\n}\n", out("%v", "r@@(3)"))
}

// aborts are programs whose outcome is a run-time or compile-time error that
// ends the program: always run as their own file, so that the error line and
// the exit status are part of the comparison.
func (g *gen) aborts() {
	ab := func(form, typ, variant, decls, body string) {
		g.add(form, typ, variant, decls, body).Solo = true
	}

	ab("abort:div-zero", "int", "var", "", out("before")+"z := 0\nx := 5 / z\n"+show("x")+out("after"))
	ab("abort:div-zero-const", "int", "const", "", out("before")+"x := 5 / 0\n"+show("x")+out("after"))
	ab("abort:div-zero-callee", "int", "callee", "func d@@(a int, b int) int {\nreturn a / b\n}\n", out("before")+out("%v", "d@@(4, 2)")+out("%v", "d@@(4, 0)")+out("after"))
	ab("abort:index", "int", "index", "", "a := []int{1}\n"+out("before")+out("%v", "a[3]")+out("after"))
	ab("abort:panic", "string", "panic", "", out("before")+"panic(\"fatal\")\n"+out("after"))
	ab("abort:panic-after-loop", "string", "panic", "", "n := 0\nfor i := 0; i < 3; i++ {\nn = n + 1\n"+out("i=%v", "i")+"}\nif n == 3 {\npanic(\"three\")\n}\n"+out("after"))
	ab("abort:exit-code", "int", "os.Exit(3)", "", out("before")+"os.Exit(3)\n"+out("after"))
	ab("abort:exit-zero", "int", "os.Exit(0)", "", out("before")+"os.Exit(0)\n"+out("after"))
	ab("abort:nil-map-write", "-", "nil-map", "", "var m map[string]int\n"+out("before")+"m[\"a\"] = 1\n"+out("after"))
	ab("abort:unknown-field", "-", "field", "", "s := {a: 1}\n"+out("before")+out("%v", "s.b")+out("after"))
	ab("abort:type-mismatch", "-", "string-int", "", out("before")+"x := \"a\" - 1\n"+show("x")+out("after"))
	ab("abort:type-mismatch-var", "-", "string-int", "", out("before")+"s := \"a\"\nx := s - 1\n"+show("x")+out("after"))
	ab("abort:throw", "-", "throw", "", out("before")+"throw errors.New(\"thrown\")\n"+out("after"))
	ab("abort:in-deferred", "-", "defer", "func f@@() {\ndefer func() {\n"+out("deferred")+"}()\nz := 0\n"+out("%v", "1/z")+"}\n", out("before")+"f@@()\n"+out("after"))
	ab("abort:syntax-error", "-", "syntax", "", "x := := 1\n"+out("after"))
	ab("abort:undefined-func", "-", "undefined", "", out("before")+"nofunc@@(1)\n"+out("after"))
	ab("abort:int8-incr", "int8", "x=x+1", "", "var x int8 = 5\nx = x + 1\n"+show("x"))
	ab("abort:in-try-then-abort", "int", "second-error", "", "z := 0\ntry {\nx := 1 / z\n_ = x\n} catch (e) {\n"+out("caught %v", "e")+"}\ny := 2 / z\n"+show("y"))
	ab("abort:assert-const", "-", "const-write", "const K@@ = 1\n", out("before")+"K@@ = 2\n"+out("after %v", "K@@"))

	for _, t := range g.nums() {
		ab("abort:loop-incr", t, "x=x+1 x3", "", fmt.Sprintf("var x %s = 5\nfor i := 0; i < 3; i++ {\nx = x + 1\n}\n", t)+show("x"))
	}
}

// Styles of a generated source file.
const (
	styleSolo    = iota // the program is called bare from main, no markers
	styleWrapped        // packed: begin/end marker lines, each call inside its own try/catch
	styleBare           // packed: begin/end marker lines, bare calls
)

// Source renders programs as one Ego source file. In the wrapped style each
// program is called inside its own try/catch between begin/end marker lines,
// so an error escaping one program does not end the file; in the bare style
// the markers are kept but the calls are bare; in the solo style the single
// program is called bare from main, so that an error ends the run.
func Source(progs []Prog, style int) string {
	var b strings.Builder

	b.WriteString("package main\n\nimport \"fmt\"\nimport \"strings\"\nimport \"math\"\nimport \"errors\"\nimport \"os\"\n\n")

	for i := range progs {
		p := &progs[i]
		name := fmt.Sprintf("p%d", p.ID)

		b.WriteString(strings.ReplaceAll(p.Decls, "@@", name))
		fmt.Fprintf(&b, "func %s() {\n%s}\n\n", name, strings.ReplaceAll(p.Body, "@@", name))
	}

	b.WriteString("func main() {\n")

	for i := range progs {
		p := &progs[i]

		switch style {
		case styleWrapped:
			fmt.Fprintf(&b, "fmt.Printf(\"OUT|#B %d\\n\")\ntry {\np%d()\n} catch (e) {\nfmt.Printf(\"OUT|#X %%v\\n\", e)\n}\nfmt.Printf(\"OUT|#E %d\\n\")\n", p.ID, p.ID, p.ID)
		case styleBare:
			fmt.Fprintf(&b, "fmt.Printf(\"OUT|#B %d\\n\")\np%d()\nfmt.Printf(\"OUT|#E %d\\n\")\n", p.ID, p.ID, p.ID)
		default:
			fmt.Fprintf(&b, "p%d()\n", p.ID)
		}
	}

	b.WriteString("}\n")

	return b.String()
}

package pdiff

import (
	"crypto/sha256"
	"encoding/hex"
	"fmt"
	"os"
	"path/filepath"
	"regexp"
	"runtime"
	"sort"
	"strconv"
	"strings"
	"sync"
	"time"

	"github.com/tucats/ego/internal/verifrt/report"
)

// Group is a baseline configuration and the configurations compared with it.
type Group struct {
	Base    Config
	Configs []Config // ordered: fewest deviations first
}

// Plan describes one differential check.
type Plan struct {
	Modes        []string
	Groups       []Group
	CorpusGroups []Group // configurations the tests/**.ego corpus is run under
	CorpusModes  []string
	// CorpusDirs limits the corpus directories (quick tier); empty = all.
	CorpusDirs []string
	// CorpusTraceModes, when set, are the only type modes the corpus is run
	// in under --trace.
	CorpusTraceModes []string
	// CorpusDirsPerRun is the number of directories given to one `ego test`
	// command line (default 4).
	CorpusDirsPerRun int
	// CorpusTraceDirs limits the directories run under --trace (tracing is
	// about 20 times slower); empty = all.
	CorpusTraceDirs []string
	OutOnly         bool // only OUT| lines are program output (C12)
	Progs           []Prog
	PackSize        int
	ConfirmCap      int // fresh confirmations per (kind of difference, mode, feature set)
	// ComboModes, when set (quick tier), are the only type modes in which a
	// configuration is run unless its label is listed in AllModes.
	ComboModes []string
	AllModes   map[string]bool
	// DiagModes, when it has an entry for a diagnostics mode, lists the only
	// type modes that diagnostic is run in (quick tier).
	DiagModes map[string][]string
}

func (p *Plan) modeApplies(cfg Config, mode string) bool {
	if ms, ok := p.DiagModes[cfg.Diag]; ok && cfg.Diag != "" {
		for _, m := range ms {
			if m == mode {
				return true
			}
		}

		return false
	}

	if len(p.ComboModes) == 0 || p.AllModes[cfg.Label()] {
		return true
	}

	for _, m := range p.ComboModes {
		if m == mode {
			return true
		}
	}

	return false
}

// Witness is a self-contained failing case.
type Witness struct {
	Kind     string   `json:"kind"` // program | corpus
	Form     string   `json:"form,omitempty"`
	Type     string   `json:"type,omitempty"`
	Variant  string   `json:"variant,omitempty"`
	Mode     string   `json:"mode"`
	Base     Config   `json:"base"`
	Config   Config   `json:"config"`
	Source   string   `json:"source,omitempty"`    // the Ego program (kind=program)
	TestDir  string   `json:"test_dir,omitempty"`  // directory under tests/ (kind=corpus)
	TestName string   `json:"test_name,omitempty"` // test block that differs
	BaseCmd  string   `json:"base_cmd"`
	Cmd      string   `json:"cmd"`
	BaseObs  Obs      `json:"base_result"`
	Obs      Obs      `json:"result"`
	Also     []string `json:"also_differs_under,omitempty"`
}

type engine struct {
	r    *report.R
	run  *Runner
	plan *Plan
	jobs chan func()

	mu        sync.Mutex
	freshBase map[string]Obs // cache of fresh baseline observations
}

func (e *engine) startPool() {
	e.jobs = make(chan func(), 1024)

	for i := 0; i < runtime.NumCPU(); i++ {
		go func() {
			for j := range e.jobs {
				j()
			}
		}()
	}
}

func (e *engine) submit(wg *sync.WaitGroup, f func()) {
	wg.Add(1)
	e.jobs <- func() {
		defer wg.Done()
		f()
	}
}

func (e *engine) soloPath(id int) string {
	return filepath.Join(e.run.Scratch, "src", fmt.Sprintf("s%d.ego", id))
}

func progByID(progs []Prog) map[int]*Prog {
	m := map[int]*Prog{}
	for i := range progs {
		m[progs[i].ID] = &progs[i]
	}

	return m
}

// file is one source file of a mode: packed (several programs) or solo.
type file struct {
	path   string
	ids    []int
	packed bool
	ord    int // creation order of packed files
}

const filesPerUnit = 12

// runFiles executes the files under (cfg, mode) in batch processes and hands
// the raw result of each to sink.
func (e *engine) runFiles(wg *sync.WaitGroup, cfg Config, mode string, files []file, sink func(f file, raw *Raw)) {
	// Packed and solo files are grouped into batch processes separately, so
	// that the grouping of one kind never depends on how many of the other
	// there are.
	var packed, solo []file

	for _, f := range files {
		if f.packed {
			packed = append(packed, f)
		} else {
			solo = append(solo, f)
		}
	}

	e.runChunks(wg, cfg, mode, packed, filesPerUnit, sink)
	e.runChunks(wg, cfg, mode, solo, 3*filesPerUnit, sink)
}

func (e *engine) runChunks(wg *sync.WaitGroup, cfg Config, mode string, files []file, per int, sink func(f file, raw *Raw)) {
	for lo := 0; lo < len(files); lo += per {
		hi := lo + per
		if hi > len(files) {
			hi = len(files)
		}

		chunk := files[lo:hi]

		e.submit(wg, func() {
			items := make([]Item, len(chunk))
			for i, f := range chunk {
				aux := filepath.Join(e.run.Scratch, "unit", fmt.Sprintf("aux-%s-%s-%s", mode, cfg.Label(), filepath.Base(f.path)))
				items[i] = Item{ID: i, Args: append([]string{"ego"}, cfg.Args(mode, f.path, aux)...)}
			}

			res := e.run.Batch(items, cfg.Diag == "debug")

			for i, f := range chunk {
				raw := res[i]
				if raw == nil {
					raw = &Raw{}
				}

				sink(f, raw)
				removeAux(e.run.Scratch, mode, cfg, f)
			}
		})
	}
}

func removeAux(scratch, mode string, cfg Config, f file) {
	aux := filepath.Join(scratch, "unit", fmt.Sprintf("aux-%s-%s-%s", mode, cfg.Label(), filepath.Base(f.path)))
	_ = os.Remove(aux + ".profile.json")
	_ = os.Remove(aux + ".trace.log")
}

// candidate is a disagreement seen in a batch run, to be confirmed fresh.
type candidate struct {
	prog   int
	mode   string
	group  int
	cfg    int // index into group.Configs
	sig    string
	packed bool
	file   string // packed file the program ran in
	has    bool   // packed: the program's segment was present
	base   Obs    // what the batch run saw under the baseline
	got    Obs    // ... and under the configuration
	kind   string
}

// segObs presents a packed segment as an observation: an `#X` line is the
// error that escaped the program.
func segObs(seg []string) Obs {
	var o Obs

	for _, l := range seg {
		if strings.HasPrefix(l, "OUT|#X ") {
			o.Failed = true
			o.Err = append(o.Err, "Error: "+strings.TrimPrefix(l, "OUT|#X "))
		} else {
			o.Out = append(o.Out, l)
		}
	}

	return o
}

var t0 = time.Now()

// progress writes a phase line to stderr when PDIFF_VERBOSE is set.
func progress(f string, a ...any) {
	if os.Getenv("PDIFF_VERBOSE") != "" {
		fmt.Fprintf(os.Stderr, "[%6.1fs] "+f+"\n", append([]any{time.Since(t0).Seconds()}, a...)...)
	}
}

// devFilter restricts the run for harness development only (PDIFF_FORMS =
// regular expression on the form name, PDIFF_MAXCFG = number of
// configurations per group); a filtered run is reported as capped.
func devFilter(r *report.R, plan *Plan) {
	if re := os.Getenv("PDIFF_FORMS"); re != "" {
		rx := regexp.MustCompile(re)

		var keep []Prog

		for _, p := range plan.Progs {
			if rx.MatchString(p.Form) {
				keep = append(keep, p)
			}
		}

		plan.Progs = keep

		r.Capped("development filter PDIFF_FORMS=" + re)
	}

	if re := os.Getenv("PDIFF_CFG"); re != "" {
		rx := regexp.MustCompile(re)

		filter := func(gs []Group) {
			for i := range gs {
				var keep []Config

				for _, c := range gs[i].Configs {
					if rx.MatchString(c.Label()) {
						keep = append(keep, c)
					}
				}

				gs[i].Configs = keep
			}
		}

		filter(plan.Groups)
		filter(plan.CorpusGroups)

		r.Capped("development filter PDIFF_CFG=" + re)
	}

	if n, _ := strconv.Atoi(os.Getenv("PDIFF_MAXCFG")); n > 0 {
		for i := range plan.Groups {
			if len(plan.Groups[i].Configs) > n {
				plan.Groups[i].Configs = plan.Groups[i].Configs[:n]
			}
		}

		for i := range plan.CorpusGroups {
			if len(plan.CorpusGroups[i].Configs) > n {
				plan.CorpusGroups[i].Configs = plan.CorpusGroups[i].Configs[:n]
			}
		}

		r.Capped("development filter PDIFF_MAXCFG")
	}

	if os.Getenv("PDIFF_NOCORPUS") != "" {
		plan.CorpusGroups = nil

		r.Capped("development filter PDIFF_NOCORPUS")
	}
}

// Run executes the plan and reports into r. It does not call Finish.
func Run(r *report.R, plan *Plan) {
	run, err := NewRunner()
	if err != nil {
		report.Fatal("%v", err)
	}

	devFilter(r, plan)

	e := &engine{r: r, run: run, plan: plan, freshBase: map[string]Obs{}}
	e.startPool()

	byID := progByID(plan.Progs)

	for i := range plan.Progs {
		p := &plan.Progs[i]
		if err := os.WriteFile(e.soloPath(p.ID), []byte(Source([]Prog{*p}, styleSolo)), 0o644); err != nil {
			report.Fatal("%v", err)
		}
	}

	var cands []candidate

	for gi := range plan.Groups {
		cands = append(cands, e.runGroup(gi, byID)...)
	}

	progress("batch phase done: %d disagreements", len(cands))
	e.confirm(cands, byID)
	progress("confirmation done")
	e.corpus()
	progress("corpus done")

	r.Set("batch_processes", run.BatchProcs)
	r.Set("batch_command_lines", run.BatchItems)
	r.Set("fresh_ego_processes", run.FreshRuns)
	r.Set("programs", len(plan.Progs))
}

// layout decides, for one mode, which programs share packed files and which
// run solo, by running the group's baseline.
type layout struct {
	files    []file
	packed   map[int][]string
	solo     map[int]Obs
	soloDone map[int]bool
	clean    bool // the first packing came through whole: these results are the reference
}

func (e *engine) pack(dirKey string, gen int, ids []int, byID map[int]*Prog, style int) []file {
	var files []file

	dir := filepath.Join(e.run.Scratch, "src", dirKey)
	_ = os.MkdirAll(dir, 0o755)

	for lo := 0; lo < len(ids); lo += e.plan.PackSize {
		hi := lo + e.plan.PackSize
		if hi > len(ids) {
			hi = len(ids)
		}

		var ps []Prog
		for _, id := range ids[lo:hi] {
			ps = append(ps, *byID[id])
		}

		path := filepath.Join(dir, fmt.Sprintf("g%d_f%d.ego", gen, lo/e.plan.PackSize))
		if err := os.WriteFile(path, []byte(Source(ps, style)), 0o644); err != nil {
			report.Fatal("%v", err)
		}

		files = append(files, file{path: path, ids: append([]int{}, ids[lo:hi]...), packed: true, ord: gen*1000000 + lo})
	}

	return files
}

func (e *engine) buildLayout(gi int, base Config, mode string, byID map[int]*Prog) *layout {
	lay := &layout{packed: map[int][]string{}, solo: map[int]Obs{}, soloDone: map[int]bool{}, clean: true}

	var packIDs, soloIDs []int

	for i := range e.plan.Progs {
		p := &e.plan.Progs[i]
		if p.Solo {
			soloIDs = append(soloIDs, p.ID)
		} else {
			packIDs = append(packIDs, p.ID)
		}
	}

	var (
		mu sync.Mutex
		wg sync.WaitGroup
	)

	// Two packing generations: programs of a file that did not come through
	// whole are tried alone; the clean ones are packed again, the others stay
	// solo in this mode.
	for gen := 0; gen < 2 && len(packIDs) > 0; gen++ {
		files := e.pack(fmt.Sprintf("g%d-%s", gi, mode), gen, packIDs, byID, styleWrapped)

		var failed []int

		e.runFiles(&wg, base, mode, files, func(f file, raw *Raw) {
			segs := Segments(raw, e.plan.OutOnly)
			ok := raw.Done

			for _, id := range f.ids {
				if _, has := segs[id]; !has {
					ok = false
				}
			}

			mu.Lock()
			defer mu.Unlock()

			if !ok {
				failed = append(failed, f.ids...)
				progress("  %s gen %d: %s does not come through whole (done=%v rc=%d): %s", mode, gen, filepath.Base(f.path), raw.Done, raw.RC, firstLine(raw.Stderr))

				return
			}

			lay.files = append(lay.files, f)

			for _, id := range f.ids {
				lay.packed[id] = segs[id]
			}
		})
		wg.Wait()

		sort.Ints(failed)

		if len(failed) == 0 {
			packIDs = nil

			break
		}

		lay.clean = false

		if gen == 1 {
			soloIDs = append(soloIDs, failed...)
			packIDs = nil

			break
		}

		// Try each alone under the baseline.
		var again []int

		var sf []file
		for _, id := range failed {
			sf = append(sf, file{path: e.soloPath(id), ids: []int{id}})
		}

		e.runFiles(&wg, base, mode, sf, func(f file, raw *Raw) {
			o := Observe(raw, e.plan.OutOnly)

			mu.Lock()
			defer mu.Unlock()

			if raw.Done && !o.Failed && len(o.Err) == 0 {
				again = append(again, f.ids[0])
			} else {
				soloIDs = append(soloIDs, f.ids[0])
			}
		})
		wg.Wait()

		sort.Ints(again)
		packIDs = again
	}

	sort.Ints(soloIDs)

	var sf []file
	for _, id := range soloIDs {
		sf = append(sf, file{path: e.soloPath(id), ids: []int{id}})
	}

	e.runFiles(&wg, base, mode, sf, func(f file, raw *Raw) {
		mu.Lock()
		defer mu.Unlock()

		lay.solo[f.ids[0]] = Observe(raw, e.plan.OutOnly)
		lay.soloDone[f.ids[0]] = raw.Done
	})
	wg.Wait()

	sort.Slice(lay.files, func(i, j int) bool { return lay.files[i].ord < lay.files[j].ord })
	lay.files = append(lay.files, sf...)

	return lay
}

func firstLine(s string) string {
	for _, l := range strings.Split(s, "\n") {
		if strings.TrimSpace(l) != "" {
			return l
		}
	}

	return ""
}

func sigOf(lines []string, extra ...string) string {
	h := sha256.New()

	for _, l := range lines {
		h.Write([]byte(l))
		h.Write([]byte{0})
	}

	for _, l := range extra {
		h.Write([]byte{1})
		h.Write([]byte(l))
	}

	return hex.EncodeToString(h.Sum(nil)[:8])
}

// fileset is a list of source files of one mode together with the baseline
// (reference) result of every program in it.
type fileset struct {
	files    []file
	packed   map[int][]string // reference segment per packed program
	solo     map[int]Obs      // reference observation per solo program
	soloDone map[int]bool
	noRef    int
}

func newFileset(files []file) *fileset {
	return &fileset{files: files, packed: map[int][]string{}, solo: map[int]Obs{}, soloDone: map[int]bool{}}
}

// reference runs the baseline over exactly the files, in exactly the order
// and grouping, that every configuration will run (so that a batch process of
// the baseline and one of a configuration differ in the configuration only).
func (e *engine) reference(wg *sync.WaitGroup, mu *sync.Mutex, base Config, mode string, fs *fileset) {
	e.runFiles(wg, base, mode, fs.files, func(f file, raw *Raw) {
		mu.Lock()
		defer mu.Unlock()

		if f.packed {
			segs := Segments(raw, e.plan.OutOnly)

			for _, id := range f.ids {
				if seg, has := segs[id]; has {
					fs.packed[id] = seg
				} else {
					fs.noRef++
				}
			}

			return
		}

		if raw.Done {
			fs.solo[f.ids[0]] = Observe(raw, e.plan.OutOnly)
			fs.soloDone[f.ids[0]] = true
		} else {
			fs.noRef++
		}
	})
}

func escapes(seg []string) bool {
	for _, l := range seg {
		if strings.HasPrefix(l, "OUT|#X") {
			return true
		}
	}

	return false
}

func (e *engine) runGroup(gi int, byID map[int]*Prog) []candidate {
	g := e.plan.Groups[gi]

	var (
		mu    sync.Mutex
		cands []candidate
	)

	layouts := map[string]*layout{}

	var lw, wg sync.WaitGroup

	for _, mode := range e.plan.Modes {
		lw.Add(1)

		go func(mode string) {
			defer lw.Done()

			lay := e.buildLayout(gi, g.Base, mode, byID)

			mu.Lock()
			layouts[mode] = lay
			mu.Unlock()
		}(mode)
	}

	lw.Wait()

	// Set 0: the packed files call every program inside its own try/catch.
	sets := map[string][2]*fileset{}

	for _, mode := range e.plan.Modes {
		lay := layouts[mode]
		fs := newFileset(lay.files)
		sets[mode] = [2]*fileset{fs, nil}

		if lay.clean {
			// The layout run was already the baseline over exactly these
			// files in exactly this grouping.
			fs.packed = lay.packed

			for id, o := range lay.solo {
				if lay.soloDone[id] {
					fs.solo[id] = o
					fs.soloDone[id] = true
				} else {
					fs.noRef++
				}
			}

			continue
		}

		e.reference(&wg, &mu, g.Base, mode, fs)
	}

	wg.Wait()

	// Set 1, for the debugger: the same programs called bare, because a try
	// block around the call is itself affected by the debugger. Programs whose
	// error escapes their function run alone instead.
	needBare := false

	for _, c := range g.Configs {
		if c.Diag == "debug" {
			needBare = true
		}
	}

	if needBare {
		for _, mode := range e.plan.Modes {
			ref := sets[mode][0]

			var packIDs []int

			var files []file

			for _, f := range ref.files {
				for _, id := range f.ids {
					if seg, has := ref.packed[id]; f.packed && has && !escapes(seg) {
						packIDs = append(packIDs, id)
					} else {
						files = append(files, file{path: e.soloPath(id), ids: []int{id}})
					}
				}
			}

			sort.Ints(packIDs)

			bare := e.pack(fmt.Sprintf("g%d-%s-bare", gi, mode), 0, packIDs, byID, styleBare)
			fs := newFileset(append(bare, files...))
			pair := sets[mode]
			pair[1] = fs
			sets[mode] = pair

			e.reference(&wg, &mu, g.Base, mode, fs)
		}

		wg.Wait()
	}

	nPacked, nSolo := 0, 0

	for _, mode := range e.plan.Modes {
		fs := sets[mode][0]

		for _, x := range sets[mode] {
			if x != nil && x.noRef > 0 {
				e.r.Add("programs_without_baseline_result", int64(x.noRef))
				e.r.Capped(fmt.Sprintf("%d programs (%s mode) gave no baseline result in their batch run and were not compared", x.noRef, mode))
			}
		}

		nPacked += len(fs.packed)
		nSolo += len(fs.solo)

		// What counts as a distinct non-trivial case: a program that, in this
		// mode, produced output or an error under the baseline.
		for id, seg := range fs.packed {
			if len(seg) > 0 {
				e.r.Distinct(mode + "|" + byID[id].Key())
			}
		}

		for id, o := range fs.solo {
			if len(o.Out) > 0 || len(o.Err) > 0 {
				e.r.Distinct(mode + "|" + byID[id].Key())
			}
		}

		e.r.Eval(len(fs.packed) + len(fs.solo))
		progress("group %d %s: %d packed programs, %d solo, %d files", gi, mode, len(fs.packed), len(fs.solo), len(fs.files))
	}

	e.r.Add("program_runs_packed_per_config", int64(nPacked))
	e.r.Add("program_runs_solo_per_config", int64(nSolo))

	for ci, cfg := range g.Configs {
		for _, mode := range e.plan.Modes {
			if !e.plan.modeApplies(cfg, mode) {
				continue
			}

			fs := sets[mode][0]
			if cfg.Diag == "debug" {
				fs = sets[mode][1]
			}

			ci, cfg, mode := ci, cfg, mode

			e.runFiles(&wg, cfg, mode, fs.files, func(f file, raw *Raw) {
				var found []candidate

				if f.packed {
					segs := Segments(raw, e.plan.OutOnly)

					for _, id := range f.ids {
						ref, hasRef := fs.packed[id]
						if !hasRef {
							continue
						}

						seg, has := segs[id]
						if !has || !eqLines(seg, ref) {
							sig := "missing"
							if has {
								sig = sigOf(seg)
							}

							got := segObs(seg)
							if !has {
								got = Obs{Failed: true, Err: []string{"Error: no output from this program (the file did not run through)"}}
							}

							found = append(found, candidate{prog: id, mode: mode, group: gi, cfg: ci, sig: sig, packed: true, file: f.path, has: has, base: segObs(ref), got: got})
						}
					}
				} else {
					id := f.ids[0]
					o := Observe(raw, e.plan.OutOnly)

					if !fs.soloDone[id] {
						// no baseline result: nothing to compare with
					} else if !raw.Done || !o.Equal(fs.solo[id]) {
						found = append(found, candidate{prog: id, mode: mode, group: gi, cfg: ci, sig: sigOf(o.Out, o.Err...) + fmt.Sprint(o.Failed, raw.Done), base: fs.solo[id], got: o})
					}
				}

				e.r.Eval(len(f.ids))

				if len(found) > 0 {
					mu.Lock()
					cands = append(cands, found...)
					mu.Unlock()
				}
			})
		}
	}

	wg.Wait()

	return cands
}

var digits = regexp.MustCompile(`\d+`)
var nonWord = regexp.MustCompile(`[^a-z0-9]+`)

func slug(s string, max int) string {
	s = strings.ToLower(s)
	s = strings.TrimPrefix(s, "out|")
	s = strings.TrimPrefix(s, "error: ")
	s = digits.ReplaceAllString(s, "N")
	s = strings.ToLower(s)
	s = nonWord.ReplaceAllString(s, "-")
	s = strings.Trim(s, "-")

	if len(s) > max {
		s = strings.Trim(s[:max], "-")
	}

	if s == "" {
		s = "empty"
	}

	return s
}

var errPos = regexp.MustCompile(`^Error: (at [^,]*, )?`)

var typeWord = regexp.MustCompile(`\b(u?int(8|16|32|64)?|byte|float(32|64)|string|bool)\b`)

// errSlug names an error message without its position prefix and operands.
func errSlug(lines []string) string {
	if len(lines) == 0 {
		return "no-message"
	}

	msg := errPos.ReplaceAllString(lines[0], "")
	if i := strings.Index(msg, ": "); i > 0 {
		msg = msg[:i] // drop the operand part ("type mismatch: int8, int")
	}

	return slug(msg, 48)
}

var caughtPos = regexp.MustCompile(`at [^ ,]*\(line N\), `)

// classify names the kind of difference between a baseline and a configuration
// result; the result is the tail of the violation cell. The names describe the
// symptom class (what the configuration does instead), with operand types,
// numbers and positions abstracted away, so that one defect seen on many
// types and values lands in one cell.
func classify(base, got Obs) string {
	switch {
	case got.Failed && (!base.Failed || !eqLines(base.Err, got.Err)):
		return "error:" + errSlug(got.Err)
	case base.Failed && !got.Failed:
		return "error-vanishes:" + errSlug(base.Err)
	}

	// Same outcome: the output differs. Name the first differing line.
	n := len(base.Out)
	if len(got.Out) < n {
		n = len(got.Out)
	}

	for i := 0; i < n; i++ {
		if base.Out[i] != got.Out[i] {
			b := caughtPos.ReplaceAllString(base.Out[i], "")
			c := caughtPos.ReplaceAllString(got.Out[i], "")

			// The generated programs print a caught error as "caught <msg>":
			// an error that is caught is named like one that is not.
			const caught = "OUT|caught "

			switch bc, cc := strings.HasPrefix(b, caught), strings.HasPrefix(c, caught); {
			case cc:
				return "error:" + errSlug([]string{"Error: " + strings.TrimPrefix(c, caught)})
			case bc:
				return "error-vanishes:" + errSlug([]string{"Error: " + strings.TrimPrefix(b, caught)})
			}

			if d, ok := valueTypeDiff(b, c); ok {
				return d
			}

			if slug(b, 200) == slug(c, 200) {
				return "output-differs:value" // same shape, other numbers
			}

			c = strings.TrimPrefix(c, "OUT|")
			if j := strings.Index(c, ": "); j > 0 {
				c = c[:j]
			}

			return "output-differs:" + slug(typeWord.ReplaceAllString(c, "T"), 40)
		}
	}

	if len(got.Out) < len(base.Out) {
		return "output-lost"
	}

	if len(got.Out) > len(base.Out) {
		return "output-added"
	}

	return "error-text-differs:" + errSlug(got.Err)
}

var typeToken = regexp.MustCompile(`^(\[\]|\*)*(u?int(8|16|32|64)?|byte|float(32|64)|string|bool|interface\{\}|any|error|[A-Z][A-Za-z0-9]*)$`)

// valueTypeDiff recognises two `OUT|value type | value type` lines and says
// whether a value, a type, or both differ.
func valueTypeDiff(a, b string) (string, bool) {
	pa := strings.Split(strings.TrimPrefix(a, "OUT|"), " | ")
	pb := strings.Split(strings.TrimPrefix(b, "OUT|"), " | ")

	if len(pa) != len(pb) {
		return "", false
	}

	valueDiffers, typeDiffers := false, false

	for i := range pa {
		fa, fb := strings.Fields(pa[i]), strings.Fields(pb[i])
		if len(fa) < 2 || len(fb) < 2 {
			return "", false
		}

		ta, tb := fa[len(fa)-1], fb[len(fb)-1]
		if !typeToken.MatchString(ta) || !typeToken.MatchString(tb) {
			return "", false
		}

		va, vb := strings.Join(fa[:len(fa)-1], " "), strings.Join(fb[:len(fb)-1], " ")

		if ta != tb {
			typeDiffers = true
		}

		if va != vb {
			valueDiffers = true
		}
	}

	switch {
	case valueDiffers && typeDiffers:
		return "output-differs:value-and-type", true
	case typeDiffers:
		return "type-differs", true
	case valueDiffers:
		return "output-differs:value", true
	}

	return "", false
}

func cmdLine(args []string) string { return "ego " + strings.Join(args, " ") }

// freshObs runs the solo file of a program fresh under (cfg, mode).
func (e *engine) freshObs(cfg Config, mode string, path string) (Obs, bool) {
	aux := filepath.Join(e.run.Scratch, "fresh", "aux-"+sigOf([]string{path, mode, cfg.Label()}))
	raw := e.run.Fresh(cfg.Args(mode, path, aux), cfg.Diag == "debug")

	_ = os.Remove(aux + ".profile.json")
	_ = os.Remove(aux + ".trace.log")

	return Observe(raw, e.plan.OutOnly), raw.Done
}

// confirm selects disagreements seen in the batch runs and re-runs them in
// fresh processes of the plain binary, twice for each side; only the ones
// that differ reproducibly are reported.
//
// Selection (all deterministic): a disagreement of a program whose same kind
// of difference already shows under a configuration with a proper subset of
// the active features is attributed to that smaller configuration and
// dropped; of the configurations showing the identical result for a program
// only the first (fewest deviations) is kept; then at most ConfirmCap
// programs per (kind of difference, mode, feature set) are confirmed.
func (e *engine) confirm(cands []candidate, byID map[int]*Prog) {
	sort.Slice(cands, func(i, j int) bool {
		a, b := cands[i], cands[j]
		if a.group != b.group {
			return a.group < b.group
		}

		if a.cfg != b.cfg {
			return a.cfg < b.cfg
		}

		if a.prog != b.prog {
			return a.prog < b.prog
		}

		return a.mode < b.mode
	})

	e.r.Set("batch_disagreements", len(cands))

	cands = e.splitStage(cands)

	cfgOf := func(c candidate) Config { return e.plan.Groups[c.group].Configs[c.cfg] }

	type pk struct {
		prog, group int
		mode, kind  string
		diag        string
	}

	feats := map[pk][]int{}

	for i := range cands {
		c := &cands[i]
		c.kind = classify(c.base, c.got)
		k := pk{c.prog, c.group, c.mode, c.kind, cfgOf(*c).Diag}
		feats[k] = append(feats[k], cfgOf(*c).featureBits())
	}

	type pick struct {
		c    candidate
		also []string
	}

	var picks []*pick

	first := map[string]*pick{}
	perKind := map[string]int{}
	explained, skippedCap := 0, 0

	for _, c := range cands {
		cfg := cfgOf(c)
		mine := cfg.featureBits()
		sub := false

		for _, f := range feats[pk{c.prog, c.group, c.mode, c.kind, cfg.Diag}] {
			if f != mine && f&mine == f {
				sub = true

				break
			}
		}

		if sub {
			explained++

			continue
		}

		k := fmt.Sprint(c.prog, "|", c.mode, "|", c.group, "|", c.sig)
		if p, ok := first[k]; ok {
			if len(p.also) < 40 {
				p.also = append(p.also, cfg.Label())
			}

			continue
		}

		label := cfg.Features()
		if cfg.Diag != "" {
			label = cfg.Diag
		}

		ck := fmt.Sprint(c.kind, "|", c.mode, "|", c.group, "|", label)
		if perKind[ck] >= e.plan.ConfirmCap {
			skippedCap++
			first[k] = &pick{c: c} // remembered, not confirmed

			continue
		}

		perKind[ck]++

		p := &pick{c: c}
		first[k] = p
		picks = append(picks, p)
	}

	e.r.Set("disagreements_attributed_to_a_smaller_feature_set", explained)
	e.r.Set("disagreements_selected_for_fresh_confirmation", len(picks))
	e.r.Set("disagreements_not_confirmed_same_kind_cap", skippedCap)

	var confirmed, unstable int64

	var (
		mu         sync.Mutex
		wg         sync.WaitGroup
		found      []confirmedDiff
		packedOnly []candidate
	)

	for _, p := range picks {
		p := p

		e.submit(&wg, func() {
			g := e.plan.Groups[p.c.group]
			cfg := g.Configs[p.c.cfg]
			prog := byID[p.c.prog]
			path := e.soloPath(prog.ID)

			b1, bd1 := e.freshObs(g.Base, p.c.mode, path)
			c1, cd1 := e.freshObs(cfg, p.c.mode, path)

			if !bd1 || !cd1 {
				mu.Lock()
				unstable++
				mu.Unlock()

				return
			}

			if b1.Equal(c1) {
				progress("  not reproduced alone: %s %s [%s] packed=%v", prog.Key(), p.c.mode, cfg.Label(), p.c.packed)
				mu.Lock()
				packedOnly = append(packedOnly, p.c)
				mu.Unlock()

				return
			}

			b2, bd2 := e.freshObs(g.Base, p.c.mode, path)
			c2, cd2 := e.freshObs(cfg, p.c.mode, path)

			if !bd2 || !cd2 || !b1.Equal(b2) || !c1.Equal(c2) {
				mu.Lock()
				unstable++
				mu.Unlock()

				return
			}

			w := Witness{
				Kind: "program", Form: prog.Form, Type: prog.Typ, Variant: prog.Variant, Mode: p.c.mode,
				Base: g.Base, Config: cfg, Source: Source([]Prog{*prog}, styleSolo),
				BaseCmd: cmdLine(g.Base.Args(p.c.mode, "prog.ego", "aux")), Cmd: cmdLine(cfg.Args(p.c.mode, "prog.ego", "aux")),
				BaseObs: b1, Obs: c1, Also: p.also,
			}

			mu.Lock()
			confirmed++
			found = append(found, confirmedDiff{w: w, cfg: cfg, base: g.Base, prog: prog.ID, group: p.c.group, size: len(prog.Body) + len(prog.Decls)})
			mu.Unlock()
		})
	}

	wg.Wait()

	sort.Slice(found, func(i, j int) bool {
		a, b := found[i], found[j]
		if a.prog != b.prog {
			return a.prog < b.prog
		}

		if a.w.Mode != b.w.Mode {
			return a.w.Mode < b.w.Mode
		}

		return a.cfg.Label() < b.cfg.Label()
	})

	for _, d := range found {
		e.reportDiff(d.w, d.cfg, d.base, d.size)
	}

	e.r.Set("disagreements_confirmed_fresh", confirmed)
	e.r.Set("disagreements_unstable_or_cut", unstable)

	if unstable > 0 {
		e.r.Capped(fmt.Sprintf("%d fresh confirmations were cut by the watchdog or did not repeat: inconclusive", unstable))
	}

	// What did not reproduce alone: solo candidates are dropped (a leak
	// between batch items), packed ones are confirmed with their whole file.
	var packed []candidate

	dropped := 0

	for _, c := range packedOnly {
		if c.packed {
			packed = append(packed, c)
		} else {
			dropped++
		}
	}

	sort.Slice(packed, func(i, j int) bool {
		a, b := packed[i], packed[j]
		if a.group != b.group {
			return a.group < b.group
		}

		if a.cfg != b.cfg {
			return a.cfg < b.cfg
		}

		if a.prog != b.prog {
			return a.prog < b.prog
		}

		return a.mode < b.mode
	})

	e.r.Set("disagreements_not_reproduced_fresh", dropped)
	e.r.Set("packed_disagreements_that_need_the_whole_file", len(packed))

	e.confirmPacked(packed, byID)
}

// splitStage deals with packed files that did not run through under a
// configuration (typically a compile error raised by one program): every
// program of such a file is re-run alone, in batch processes, under the
// baseline and the configuration, and the ones that differ alone replace the
// file's candidates. A file that fails the same way under a configuration
// with a subset of the features is looked at only there.
func (e *engine) splitStage(cands []candidate) []candidate {
	type fk struct {
		group, cfg int
		mode, file string
	}

	var (
		out   []candidate
		order []fk
	)

	missing := map[fk][]candidate{}

	for _, c := range cands {
		if !c.packed || c.has {
			out = append(out, c)

			continue
		}

		k := fk{c.group, c.cfg, c.mode, c.file}
		if _, ok := missing[k]; !ok {
			order = append(order, k)
		}

		missing[k] = append(missing[k], c)
	}

	var (
		mu   sync.Mutex
		wg   sync.WaitGroup
		kept []fk
	)

	type res struct {
		base, got map[int]Obs
		done      map[int]bool
	}

	results := map[fk]*res{}
	files, skipped := 0, 0

	for _, k := range order {
		cfg := e.plan.Groups[k.group].Configs[k.cfg]
		dup := false

		for _, o := range kept {
			oc := e.plan.Groups[o.group].Configs[o.cfg]
			if o.group == k.group && o.mode == k.mode && o.file == k.file && oc.Diag == cfg.Diag && oc.featureBits()&cfg.featureBits() == oc.featureBits() {
				dup = true

				break
			}
		}

		if dup {
			skipped++

			continue
		}

		kept = append(kept, k)
		files++

		k := k
		rs := &res{base: map[int]Obs{}, got: map[int]Obs{}, done: map[int]bool{}}
		results[k] = rs

		var fl []file
		for _, c := range missing[k] {
			fl = append(fl, file{path: e.soloPath(c.prog), ids: []int{c.prog}})
		}

		g := e.plan.Groups[k.group]

		e.runFiles(&wg, g.Base, k.mode, fl, func(f file, raw *Raw) {
			mu.Lock()
			rs.base[f.ids[0]] = Observe(raw, e.plan.OutOnly)
			rs.done[f.ids[0]] = raw.Done
			mu.Unlock()
		})
		e.runFiles(&wg, cfg, k.mode, fl, func(f file, raw *Raw) {
			mu.Lock()
			rs.got[f.ids[0]] = Observe(raw, e.plan.OutOnly)
			mu.Unlock()
		})
	}

	wg.Wait()

	for _, k := range kept {
		rs := results[k]
		culprits := 0

		for _, c := range missing[k] {
			b, g := rs.base[c.prog], rs.got[c.prog]
			if rs.done[c.prog] && !b.Equal(g) {
				c.packed, c.has = false, true
				c.base, c.got = b, g
				c.sig = sigOf(g.Out, g.Err...) + fmt.Sprint(g.Failed)
				out = append(out, c)
				culprits++
			}
		}

		if culprits == 0 {
			// Only the combination fails: keep the file itself as the case.
			out = append(out, missing[k][0])
		}
	}

	e.r.Set("packed_files_that_did_not_run_through_split_into_programs", files)
	e.r.Set("packed_file_failures_already_seen_under_fewer_features", skipped)

	sort.SliceStable(out, func(i, j int) bool {
		a, b := out[i], out[j]
		if a.group != b.group {
			return a.group < b.group
		}

		if a.cfg != b.cfg {
			return a.cfg < b.cfg
		}

		if a.prog != b.prog {
			return a.prog < b.prog
		}

		return a.mode < b.mode
	})

	return out
}

type confirmedDiff struct {
	w           Witness
	cfg, base   Config
	prog, group int
	size        int
}

// packedConfirmCap bounds the whole-file confirmations of one run.
const packedConfirmCap = 24

// confirmPacked confirms, in fresh processes, disagreements that only show
// when the program runs inside its packed file (next to the other programs of
// that file). One confirmation per (file, mode, group): the configuration
// with the fewest deviations.
func (e *engine) confirmPacked(cands []candidate, byID map[int]*Prog) {
	type fk struct {
		group int
		mode  string
		file  string
	}

	seen := map[fk]bool{}

	var picks []candidate

	skipped := 0

	for _, c := range cands {
		k := fk{c.group, c.mode, c.file}
		if seen[k] {
			continue
		}

		seen[k] = true

		if len(picks) >= packedConfirmCap {
			skipped++

			continue
		}

		picks = append(picks, c)
	}

	if skipped > 0 {
		e.r.Set("packed_file_confirmations_skipped_cap", skipped)
	}

	var wg sync.WaitGroup

	for _, c := range picks {
		c := c

		e.submit(&wg, func() {
			g := e.plan.Groups[c.group]
			cfg := g.Configs[c.cfg]

			run := func(cf Config) (*Raw, bool) {
				aux := filepath.Join(e.run.Scratch, "fresh", "aux-"+sigOf([]string{c.file, c.mode, cf.Label()}))
				raw := e.run.Fresh(cf.Args(c.mode, c.file, aux), cf.Diag == "debug")
				_ = os.Remove(aux + ".profile.json")
				_ = os.Remove(aux + ".trace.log")

				return raw, raw.Done
			}

			b1, ok1 := run(g.Base)
			c1, ok2 := run(cfg)
			b2, ok3 := run(g.Base)
			c2, ok4 := run(cfg)

			if !ok1 || !ok2 || !ok3 || !ok4 {
				e.r.Add("packed_file_confirmations_cut", 1)
				e.r.Capped("a packed-file confirmation was cut by the watchdog: inconclusive")

				return
			}

			ob1, oc1, ob2, oc2 := Observe(b1, e.plan.OutOnly), Observe(c1, e.plan.OutOnly), Observe(b2, e.plan.OutOnly), Observe(c2, e.plan.OutOnly)
			if !ob1.Equal(ob2) || !oc1.Equal(oc2) {
				e.r.Add("packed_file_confirmations_unstable", 1)

				return
			}

			if ob1.Equal(oc1) {
				e.r.Add("packed_file_disagreements_not_reproduced_fresh", 1)
				progress("  packed file not reproduced fresh: %s %s [%s]", filepath.Base(c.file), c.mode, cfg.Label())

				return
			}

			// Name the first program of the file whose segment differs.
			sb, sc := Segments(b1, e.plan.OutOnly), Segments(c1, e.plan.OutOnly)
			bo, co := ob1, oc1
			prog := byID[c.prog]

			ids := make([]int, 0, len(sb))
			for id := range sb {
				ids = append(ids, id)
			}

			sort.Ints(ids)

			for _, id := range ids {
				if seg, has := sc[id]; has && !eqLines(seg, sb[id]) {
					prog = byID[id]
					bo = Obs{Out: sb[id]}
					co = Obs{Out: seg}

					break
				}
			}

			src, _ := os.ReadFile(c.file)

			w := Witness{
				Kind: "program", Form: prog.Form, Type: prog.Typ, Variant: prog.Variant + " (inside a file of several programs)", Mode: c.mode,
				Base: g.Base, Config: cfg, Source: string(src),
				BaseCmd: cmdLine(g.Base.Args(c.mode, "prog.ego", "aux")), Cmd: cmdLine(cfg.Args(c.mode, "prog.ego", "aux")),
				BaseObs: bo, Obs: co,
			}

			e.r.Add("packed_file_disagreements_confirmed_fresh", 1)
			e.reportDiff(w, cfg, g.Base, 500000+len(src))
		})
	}

	wg.Wait()
}

func (e *engine) reportDiff(w Witness, cfg, base Config, size int) {
	label := cfg.Features()
	if cfg.Diag != "" {
		// C12: name the diagnostic only; the settings are those of the group.
		label = cfg.Diag
	}

	kind := classify(w.BaseObs, w.Obs)
	cell := label + ":" + kind

	if w.Kind == "corpus" {
		kind = corpusKind(w)
		cell = label + ":corpus:" + kind
	}

	msg := fmt.Sprintf("`%s` and `%s` disagree (%s mode): %s; baseline %s, configuration %s",
		w.BaseCmd, w.Cmd, w.Mode, kind, brief(w.BaseObs), brief(w.Obs))

	e.r.Violation(cell, cfg.Deviations()*1000000+size, w, msg)
}

func brief(o Obs) string {
	s := fmt.Sprintf("out=%q err=%q failed=%v", o.Out, o.Err, o.Failed)
	if len(s) > 300 {
		s = s[:300] + "…"
	}

	return s
}

// Replay re-runs one witness in fresh processes.
func Replay(r *report.R, plan *Plan, w Witness) {
	run, err := NewRunner()
	if err != nil {
		report.Fatal("%v", err)
	}

	e := &engine{r: r, run: run, plan: plan, freshBase: map[string]Obs{}}

	if w.Kind == "corpus" {
		e.replayCorpus(w)

		return
	}

	path := filepath.Join(run.Scratch, "src", "replay.ego")
	if err := os.WriteFile(path, []byte(w.Source), 0o644); err != nil {
		report.Fatal("%v", err)
	}

	b, bd := e.freshObs(w.Base, w.Mode, path)
	c, cd := e.freshObs(w.Config, w.Mode, path)

	r.Eval(2)

	if !bd || !cd {
		report.Fatal("replay run was cut")
	}

	if !b.Equal(c) {
		w.BaseObs, w.Obs = b, c
		e.reportDiff(w, w.Config, w.Base, len(w.Source))
	}
}

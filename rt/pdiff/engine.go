package pdiff

import (
	"crypto/sha256"
	"encoding/hex"
	"fmt"
	"os"
	"path/filepath"
	"regexp"
	"runtime"
	"sort"
	"strconv"
	"strings"
	"sync"
	"time"

	"github.com/tucats/ego/internal/verifrt/report"
)

// Group is a baseline configuration and the configurations compared with it.
type Group struct {
	Base    Config
	Configs []Config // ordered: fewest deviations first
}

// Plan describes one differential check.
type Plan struct {
	Modes        []string
	Groups       []Group
	CorpusGroups []Group // configurations the tests/**.ego corpus is run under
	CorpusModes  []string
	OutOnly      bool // only OUT| lines are program output (C12)
	Progs        []Prog
	PackSize     int
	ConfirmCap   int // fresh confirmations per (form, mode, configuration)
}

// Witness is a self-contained failing case.
type Witness struct {
	Kind     string   `json:"kind"` // program | corpus
	Form     string   `json:"form,omitempty"`
	Type     string   `json:"type,omitempty"`
	Variant  string   `json:"variant,omitempty"`
	Mode     string   `json:"mode"`
	Base     Config   `json:"base"`
	Config   Config   `json:"config"`
	Source   string   `json:"source,omitempty"`    // the Ego program (kind=program)
	TestDir  string   `json:"test_dir,omitempty"`  // directory under tests/ (kind=corpus)
	TestName string   `json:"test_name,omitempty"` // test block that differs
	BaseCmd  string   `json:"base_cmd"`
	Cmd      string   `json:"cmd"`
	BaseObs  Obs      `json:"base_result"`
	Obs      Obs      `json:"result"`
	Also     []string `json:"also_differs_under,omitempty"`
}

type engine struct {
	r    *report.R
	run  *Runner
	plan *Plan
	jobs chan func()

	mu        sync.Mutex
	freshBase map[string]Obs // cache of fresh baseline observations
}

func (e *engine) startPool() {
	e.jobs = make(chan func(), 1024)

	for i := 0; i < runtime.NumCPU(); i++ {
		go func() {
			for j := range e.jobs {
				j()
			}
		}()
	}
}

func (e *engine) submit(wg *sync.WaitGroup, f func()) {
	wg.Add(1)
	e.jobs <- func() {
		defer wg.Done()
		f()
	}
}

func (e *engine) soloPath(id int) string {
	return filepath.Join(e.run.Scratch, "src", fmt.Sprintf("s%d.ego", id))
}

func progByID(progs []Prog) map[int]*Prog {
	m := map[int]*Prog{}
	for i := range progs {
		m[progs[i].ID] = &progs[i]
	}

	return m
}

// file is one source file of a mode: packed (several programs) or solo.
type file struct {
	path   string
	ids    []int
	packed bool
}

const filesPerUnit = 12

// runFiles executes the files under (cfg, mode) in batch processes and hands
// the raw result of each to sink.
func (e *engine) runFiles(wg *sync.WaitGroup, cfg Config, mode string, files []file, sink func(f file, raw *Raw)) {
	for lo := 0; lo < len(files); lo += filesPerUnit {
		hi := lo + filesPerUnit
		if hi > len(files) {
			hi = len(files)
		}

		chunk := files[lo:hi]

		e.submit(wg, func() {
			items := make([]Item, len(chunk))
			for i, f := range chunk {
				aux := filepath.Join(e.run.Scratch, "unit", fmt.Sprintf("aux-%s-%s-%s", mode, cfg.Label(), filepath.Base(f.path)))
				items[i] = Item{ID: i, Args: append([]string{"ego"}, cfg.Args(mode, f.path, aux)...)}
			}

			res := e.run.Batch(items, cfg.Diag == "debug")

			for i, f := range chunk {
				raw := res[i]
				if raw == nil {
					raw = &Raw{}
				}

				sink(f, raw)
				removeAux(e.run.Scratch, mode, cfg, f)
			}
		})
	}
}

func removeAux(scratch, mode string, cfg Config, f file) {
	aux := filepath.Join(scratch, "unit", fmt.Sprintf("aux-%s-%s-%s", mode, cfg.Label(), filepath.Base(f.path)))
	_ = os.Remove(aux + ".profile.json")
	_ = os.Remove(aux + ".trace.log")
}

// candidate is a disagreement seen in a batch run, to be confirmed fresh.
type candidate struct {
	prog   int
	mode   string
	group  int
	cfg    int // index into group.Configs
	sig    string
	packed bool
}

var t0 = time.Now()

// progress writes a phase line to stderr when PDIFF_VERBOSE is set.
func progress(f string, a ...any) {
	if os.Getenv("PDIFF_VERBOSE") != "" {
		fmt.Fprintf(os.Stderr, "[%6.1fs] "+f+"\n", append([]any{time.Since(t0).Seconds()}, a...)...)
	}
}

// devFilter restricts the run for harness development only (PDIFF_FORMS =
// regular expression on the form name, PDIFF_MAXCFG = number of
// configurations per group); a filtered run is reported as capped.
func devFilter(r *report.R, plan *Plan) {
	if re := os.Getenv("PDIFF_FORMS"); re != "" {
		rx := regexp.MustCompile(re)

		var keep []Prog

		for _, p := range plan.Progs {
			if rx.MatchString(p.Form) {
				keep = append(keep, p)
			}
		}

		plan.Progs = keep

		r.Capped("development filter PDIFF_FORMS=" + re)
	}

	if n, _ := strconv.Atoi(os.Getenv("PDIFF_MAXCFG")); n > 0 {
		for i := range plan.Groups {
			if len(plan.Groups[i].Configs) > n {
				plan.Groups[i].Configs = plan.Groups[i].Configs[:n]
			}
		}

		for i := range plan.CorpusGroups {
			if len(plan.CorpusGroups[i].Configs) > n {
				plan.CorpusGroups[i].Configs = plan.CorpusGroups[i].Configs[:n]
			}
		}

		r.Capped("development filter PDIFF_MAXCFG")
	}

	if os.Getenv("PDIFF_NOCORPUS") != "" {
		plan.CorpusGroups = nil

		r.Capped("development filter PDIFF_NOCORPUS")
	}
}

// Run executes the plan and reports into r. It does not call Finish.
func Run(r *report.R, plan *Plan) {
	run, err := NewRunner()
	if err != nil {
		report.Fatal("%v", err)
	}

	devFilter(r, plan)

	e := &engine{r: r, run: run, plan: plan, freshBase: map[string]Obs{}}
	e.startPool()

	byID := progByID(plan.Progs)

	for i := range plan.Progs {
		p := &plan.Progs[i]
		if err := os.WriteFile(e.soloPath(p.ID), []byte(Source([]Prog{*p}, false)), 0o644); err != nil {
			report.Fatal("%v", err)
		}
	}

	var cands []candidate

	for gi := range plan.Groups {
		cands = append(cands, e.runGroup(gi, byID)...)
	}

	progress("batch phase done: %d disagreements", len(cands))
	e.confirm(cands, byID)
	progress("confirmation done")
	e.corpus()
	progress("corpus done")

	r.Set("batch_processes", run.BatchProcs)
	r.Set("batch_command_lines", run.BatchItems)
	r.Set("fresh_ego_processes", run.FreshRuns)
	r.Set("programs", len(plan.Progs))
}

// layout decides, for one mode, which programs share packed files and which
// run solo, by running the group's baseline.
type layout struct {
	files    []file
	packed   map[int][]string // baseline segment per packed program
	solo     map[int]Obs      // baseline observation per solo program
	soloDone map[int]bool
}

func (e *engine) pack(dirKey string, gen int, ids []int, byID map[int]*Prog) []file {
	var files []file

	dir := filepath.Join(e.run.Scratch, "src", dirKey)
	_ = os.MkdirAll(dir, 0o755)

	for lo := 0; lo < len(ids); lo += e.plan.PackSize {
		hi := lo + e.plan.PackSize
		if hi > len(ids) {
			hi = len(ids)
		}

		var ps []Prog
		for _, id := range ids[lo:hi] {
			ps = append(ps, *byID[id])
		}

		path := filepath.Join(dir, fmt.Sprintf("g%d_f%d.ego", gen, lo/e.plan.PackSize))
		if err := os.WriteFile(path, []byte(Source(ps, true)), 0o644); err != nil {
			report.Fatal("%v", err)
		}

		files = append(files, file{path: path, ids: append([]int{}, ids[lo:hi]...), packed: true})
	}

	return files
}

func (e *engine) buildLayout(gi int, base Config, mode string, byID map[int]*Prog) *layout {
	lay := &layout{packed: map[int][]string{}, solo: map[int]Obs{}, soloDone: map[int]bool{}}

	var packIDs, soloIDs []int

	for i := range e.plan.Progs {
		p := &e.plan.Progs[i]
		if p.Solo {
			soloIDs = append(soloIDs, p.ID)
		} else {
			packIDs = append(packIDs, p.ID)
		}
	}

	var (
		mu sync.Mutex
		wg sync.WaitGroup
	)

	// Two packing generations: programs of a file that did not come through
	// whole are tried alone; the clean ones are packed again, the others stay
	// solo in this mode.
	for gen := 0; gen < 2 && len(packIDs) > 0; gen++ {
		files := e.pack(fmt.Sprintf("g%d-%s", gi, mode), gen, packIDs, byID)

		var failed []int

		e.runFiles(&wg, base, mode, files, func(f file, raw *Raw) {
			segs := Segments(raw, e.plan.OutOnly)
			ok := raw.Done

			for _, id := range f.ids {
				if _, has := segs[id]; !has {
					ok = false
				}
			}

			mu.Lock()
			defer mu.Unlock()

			if !ok {
				failed = append(failed, f.ids...)

				return
			}

			lay.files = append(lay.files, f)

			for _, id := range f.ids {
				lay.packed[id] = segs[id]
			}
		})
		wg.Wait()

		sort.Ints(failed)

		if len(failed) == 0 {
			packIDs = nil

			break
		}

		if gen == 1 {
			soloIDs = append(soloIDs, failed...)
			packIDs = nil

			break
		}

		// Try each alone under the baseline.
		var again []int

		var sf []file
		for _, id := range failed {
			sf = append(sf, file{path: e.soloPath(id), ids: []int{id}})
		}

		e.runFiles(&wg, base, mode, sf, func(f file, raw *Raw) {
			o := Observe(raw, e.plan.OutOnly)

			mu.Lock()
			defer mu.Unlock()

			if raw.Done && !o.Failed && len(o.Err) == 0 {
				again = append(again, f.ids[0])
			} else {
				soloIDs = append(soloIDs, f.ids[0])
			}
		})
		wg.Wait()

		sort.Ints(again)
		packIDs = again
	}

	sort.Ints(soloIDs)

	var sf []file
	for _, id := range soloIDs {
		sf = append(sf, file{path: e.soloPath(id), ids: []int{id}})
	}

	e.runFiles(&wg, base, mode, sf, func(f file, raw *Raw) {
		mu.Lock()
		defer mu.Unlock()

		lay.solo[f.ids[0]] = Observe(raw, e.plan.OutOnly)
		lay.soloDone[f.ids[0]] = raw.Done
	})
	wg.Wait()

	sort.Slice(lay.files, func(i, j int) bool { return lay.files[i].path < lay.files[j].path })
	lay.files = append(lay.files, sf...)

	return lay
}

func sigOf(lines []string, extra ...string) string {
	h := sha256.New()

	for _, l := range lines {
		h.Write([]byte(l))
		h.Write([]byte{0})
	}

	for _, l := range extra {
		h.Write([]byte{1})
		h.Write([]byte(l))
	}

	return hex.EncodeToString(h.Sum(nil)[:8])
}

func (e *engine) runGroup(gi int, byID map[int]*Prog) []candidate {
	g := e.plan.Groups[gi]

	var (
		mu    sync.Mutex
		cands []candidate
	)

	layouts := map[string]*layout{}

	var lw, wg sync.WaitGroup

	for _, mode := range e.plan.Modes {
		lw.Add(1)

		go func(mode string) {
			defer lw.Done()

			lay := e.buildLayout(gi, g.Base, mode, byID)

			mu.Lock()
			layouts[mode] = lay
			mu.Unlock()
		}(mode)
	}

	lw.Wait()

	for _, mode := range e.plan.Modes {
		progress("group %d layout %s: %d packed programs, %d solo, %d files", gi, mode, len(layouts[mode].packed), len(layouts[mode].solo), len(layouts[mode].files))
	}

	nPacked, nSolo := 0, 0

	for _, mode := range e.plan.Modes {
		lay := layouts[mode]
		nPacked += len(lay.packed)
		nSolo += len(lay.solo)

		// What counts as a distinct non-trivial case: a program that, in this
		// mode, produced output under the baseline.
		for id, seg := range lay.packed {
			if len(seg) > 0 {
				e.r.Distinct(mode + "|" + byID[id].Key())
			}
		}

		for id, o := range lay.solo {
			if len(o.Out) > 0 || len(o.Err) > 0 {
				e.r.Distinct(mode + "|" + byID[id].Key())
			}
		}

		e.r.Eval(len(lay.packed) + len(lay.solo))
	}

	e.r.Add("program_runs_packed_per_config", int64(nPacked))
	e.r.Add("program_runs_solo_per_config", int64(nSolo))

	for ci, cfg := range g.Configs {
		for _, mode := range e.plan.Modes {
			lay := layouts[mode]
			ci, cfg, mode := ci, cfg, mode

			e.runFiles(&wg, cfg, mode, lay.files, func(f file, raw *Raw) {
				var found []candidate

				if f.packed {
					segs := Segments(raw, e.plan.OutOnly)

					for _, id := range f.ids {
						seg, has := segs[id]
						if !has || !eqLines(seg, lay.packed[id]) {
							sig := "missing"
							if has {
								sig = sigOf(seg)
							}

							found = append(found, candidate{prog: id, mode: mode, group: gi, cfg: ci, sig: sig, packed: true})
						}
					}
				} else {
					id := f.ids[0]
					o := Observe(raw, e.plan.OutOnly)

					if !raw.Done || !lay.soloDone[id] || !o.Equal(lay.solo[id]) {
						found = append(found, candidate{prog: id, mode: mode, group: gi, cfg: ci, sig: sigOf(o.Out, o.Err...) + fmt.Sprint(o.Failed, raw.Done)})
					}
				}

				e.r.Eval(len(f.ids))

				if len(found) > 0 {
					mu.Lock()
					cands = append(cands, found...)
					mu.Unlock()
				}
			})
		}
	}

	wg.Wait()

	return cands
}

var digits = regexp.MustCompile(`\d+`)
var nonWord = regexp.MustCompile(`[^a-z0-9]+`)

func slug(s string, max int) string {
	s = strings.ToLower(s)
	s = strings.TrimPrefix(s, "out|")
	s = strings.TrimPrefix(s, "error: ")
	s = digits.ReplaceAllString(s, "N")
	s = strings.ToLower(s)
	s = nonWord.ReplaceAllString(s, "-")
	s = strings.Trim(s, "-")

	if len(s) > max {
		s = strings.Trim(s[:max], "-")
	}

	if s == "" {
		s = "empty"
	}

	return s
}

var errPos = regexp.MustCompile(`^Error: (at [^,]*, )?`)

// errSlug names an error message without its position prefix.
func errSlug(lines []string) string {
	if len(lines) == 0 {
		return "no-message"
	}

	return slug(errPos.ReplaceAllString(lines[0], ""), 48)
}

var caughtPos = regexp.MustCompile(`at [^ ,]*\(line N\), `)

// classify names the kind of difference between a baseline and a configuration
// result; the result is the tail of the violation cell.
func classify(base, got Obs) string {
	switch {
	case !base.Failed && got.Failed:
		return "error-appears:" + errSlug(got.Err)
	case base.Failed && !got.Failed:
		return "error-vanishes:" + errSlug(base.Err)
	case base.Failed && got.Failed && !eqLines(base.Err, got.Err):
		return "error-changes:" + errSlug(base.Err) + "->" + errSlug(got.Err)
	}

	// Same outcome: the output differs. Name the first differing line.
	n := len(base.Out)
	if len(got.Out) < n {
		n = len(got.Out)
	}

	for i := 0; i < n; i++ {
		if base.Out[i] != got.Out[i] {
			b := caughtPos.ReplaceAllString(base.Out[i], "")
			c := caughtPos.ReplaceAllString(got.Out[i], "")

			if bt, ct, ok := typeOnlyDiff(b, c); ok {
				return "type-differs:" + bt + "->" + ct
			}

			return "output-differs:" + slug(b, 40) + "->" + slug(c, 40)
		}
	}

	if len(got.Out) < len(base.Out) {
		return "output-lost:" + slug(base.Out[n], 40)
	}

	if len(got.Out) > len(base.Out) {
		return "output-added:" + slug(got.Out[n], 40)
	}

	return "error-text-differs:" + errSlug(base.Err) + "->" + errSlug(got.Err)
}

// typeOnlyDiff recognises two `value type | value type` lines that differ only
// in a type word.
func typeOnlyDiff(a, b string) (string, string, bool) {
	fa, fb := strings.Fields(a), strings.Fields(b)
	if len(fa) != len(fb) {
		return "", "", false
	}

	at, bt := "", ""

	for i := range fa {
		if fa[i] == fb[i] {
			continue
		}

		if at != "" || !isTypeWord(fa[i]) || !isTypeWord(fb[i]) {
			return "", "", false
		}

		at, bt = fa[i], fb[i]
	}

	return at, bt, at != ""
}

func isTypeWord(s string) bool {
	switch s {
	case "int", "int8", "int16", "int32", "int64", "byte", "uint", "uint8", "uint16", "uint32", "uint64", "float32", "float64", "string", "bool", "interface{}", "any":
		return true
	}

	return false
}

func cmdLine(args []string) string { return "ego " + strings.Join(args, " ") }

// freshObs runs the solo file of a program fresh under (cfg, mode).
func (e *engine) freshObs(cfg Config, mode string, path string) (Obs, bool) {
	aux := filepath.Join(e.run.Scratch, "fresh", "aux-"+sigOf([]string{path, mode, cfg.Label()}))
	raw := e.run.Fresh(cfg.Args(mode, path, aux), cfg.Diag == "debug")

	_ = os.Remove(aux + ".profile.json")
	_ = os.Remove(aux + ".trace.log")

	return Observe(raw, e.plan.OutOnly), raw.Done
}

// confirm re-runs every selected candidate in fresh processes of the plain
// binary, twice for each side, and reports the ones that differ reproducibly.
func (e *engine) confirm(cands []candidate, byID map[int]*Prog) {
	sort.Slice(cands, func(i, j int) bool {
		a, b := cands[i], cands[j]
		if a.group != b.group {
			return a.group < b.group
		}

		if a.cfg != b.cfg {
			return a.cfg < b.cfg
		}

		if a.prog != b.prog {
			return a.prog < b.prog
		}

		return a.mode < b.mode
	})

	e.r.Set("batch_disagreements", len(cands))

	// One confirmation per (program, mode, group, difference signature): the
	// configuration with the fewest deviations. Then a cap per
	// (form, mode, configuration).
	type pick struct {
		c    candidate
		also []string
	}

	var picks []*pick

	first := map[string]*pick{}
	perForm := map[string]int{}
	skippedCap := 0

	for _, c := range cands {
		k := fmt.Sprint(c.prog, "|", c.mode, "|", c.group, "|", c.sig)
		if p, ok := first[k]; ok {
			if len(p.also) < 40 {
				p.also = append(p.also, e.plan.Groups[c.group].Configs[c.cfg].Label())
			}

			continue
		}

		fk := fmt.Sprint(byID[c.prog].Form, "|", c.mode, "|", c.group, "|", c.cfg)
		if perForm[fk] >= e.plan.ConfirmCap {
			skippedCap++
			first[k] = &pick{c: c} // remembered, not confirmed

			continue
		}

		perForm[fk]++

		p := &pick{c: c}
		first[k] = p
		picks = append(picks, p)
	}

	e.r.Set("disagreements_selected_for_fresh_confirmation", len(picks))
	e.r.Set("disagreements_not_confirmed_same_form_cap", skippedCap)

	var confirmed, vanished, unstable int64

	var (
		mu sync.Mutex
		wg sync.WaitGroup
	)

	for _, p := range picks {
		p := p

		e.submit(&wg, func() {
			g := e.plan.Groups[p.c.group]
			cfg := g.Configs[p.c.cfg]
			prog := byID[p.c.prog]
			path := e.soloPath(prog.ID)

			b1, bd1 := e.freshObs(g.Base, p.c.mode, path)
			c1, cd1 := e.freshObs(cfg, p.c.mode, path)

			if !bd1 || !cd1 {
				mu.Lock()
				unstable++
				mu.Unlock()

				return
			}

			if b1.Equal(c1) {
				mu.Lock()
				vanished++
				mu.Unlock()

				return
			}

			b2, bd2 := e.freshObs(g.Base, p.c.mode, path)
			c2, cd2 := e.freshObs(cfg, p.c.mode, path)

			if !bd2 || !cd2 || !b1.Equal(b2) || !c1.Equal(c2) {
				mu.Lock()
				unstable++
				mu.Unlock()

				return
			}

			mu.Lock()
			confirmed++
			mu.Unlock()

			w := Witness{
				Kind: "program", Form: prog.Form, Type: prog.Typ, Variant: prog.Variant, Mode: p.c.mode,
				Base: g.Base, Config: cfg, Source: Source([]Prog{*prog}, false),
				BaseCmd: cmdLine(g.Base.Args(p.c.mode, "prog.ego", "aux")), Cmd: cmdLine(cfg.Args(p.c.mode, "prog.ego", "aux")),
				BaseObs: b1, Obs: c1, Also: p.also,
			}

			e.reportDiff(w, cfg, g.Base, len(prog.Body)+len(prog.Decls))
		})
	}

	wg.Wait()

	e.r.Set("disagreements_confirmed_fresh", confirmed)
	e.r.Set("disagreements_not_reproduced_fresh", vanished)
	e.r.Set("disagreements_unstable_or_cut", unstable)
}

func (e *engine) reportDiff(w Witness, cfg, base Config, size int) {
	label := cfg.Label()
	if base.Label() != "baseline" {
		// C12: name the diagnostic only; the settings are those of the group.
		label = cfg.Diag
	}

	kind := classify(w.BaseObs, w.Obs)
	cell := label + ":" + kind

	if w.Kind == "corpus" {
		cell = label + ":corpus:" + kind
	}

	msg := fmt.Sprintf("`%s` and `%s` disagree (%s mode): %s; baseline %s, configuration %s",
		w.BaseCmd, w.Cmd, w.Mode, kind, brief(w.BaseObs), brief(w.Obs))

	e.r.Violation(cell, cfg.Deviations()*1000000+size, w, msg)
}

func brief(o Obs) string {
	s := fmt.Sprintf("out=%q err=%q failed=%v", o.Out, o.Err, o.Failed)
	if len(s) > 300 {
		s = s[:300] + "…"
	}

	return s
}

// Replay re-runs one witness in fresh processes.
func Replay(r *report.R, plan *Plan, w Witness) {
	run, err := NewRunner()
	if err != nil {
		report.Fatal("%v", err)
	}

	e := &engine{r: r, run: run, plan: plan, freshBase: map[string]Obs{}}

	if w.Kind == "corpus" {
		e.replayCorpus(w)

		return
	}

	path := filepath.Join(run.Scratch, "src", "replay.ego")
	if err := os.WriteFile(path, []byte(w.Source), 0o644); err != nil {
		report.Fatal("%v", err)
	}

	b, bd := e.freshObs(w.Base, w.Mode, path)
	c, cd := e.freshObs(w.Config, w.Mode, path)

	r.Eval(2)

	if !bd || !cd {
		report.Fatal("replay run was cut")
	}

	if !b.Equal(c) {
		w.BaseObs, w.Obs = b, c
		e.reportDiff(w, w.Config, w.Base, len(w.Source))
	}
}

package pdiff

import (
	"bytes"
	"context"
	"encoding/json"
	"fmt"
	"io"
	"os"
	"os/exec"
	"path/filepath"
	"regexp"
	"strconv"
	"strings"
	"sync"
	"time"
)

// Config is one way of running a program: the performance settings of C02 and
// the diagnostics mode of C12.
type Config struct {
	Opt   int    `json:"opt"`   // optimizer level 0..3; -1 = option absent
	Reg   int    `json:"reg"`   // ego.compiler.registers: 1 true, 0 false, -1 absent
	Fold  int    `json:"fold"`  // ego.compiler.constfold
	Cache int    `json:"cache"` // ego.runtime.globalcache
	Alloc int    `json:"alloc"` // --symbol-allocation; 0 = absent
	Diag  string `json:"diag"`  // "", profile, profile-file, trace, trace-logfile, debug
}

// Label names the configuration by its deviations from the C02 baseline
// (opt 0, registers/constfold/globalcache off, default allocation).
func (c Config) Label() string {
	var p []string

	if c.Opt > 0 {
		p = append(p, "opt"+strconv.Itoa(c.Opt))
	}

	if c.Reg != 0 {
		p = append(p, "registers")
	}

	if c.Fold != 0 {
		p = append(p, "constfold")
	}

	if c.Cache != 0 {
		p = append(p, "globalcache")
	}

	if c.Alloc != 0 {
		p = append(p, "alloc"+strconv.Itoa(c.Alloc))
	}

	if c.Diag != "" {
		p = append(p, c.Diag)
	}

	if len(p) == 0 {
		return "baseline"
	}

	return strings.Join(p, "+")
}

// Features names the performance feature a difference under this
// configuration is attributed to. The peephole optimizer (levels 1 and 2)
// rewrites whatever bytecode the other features produce, so when it is active
// it is named alone; otherwise registers and constant folding (switched on,
// or forced on by level 3), the global cache, a non-default symbol
// allocation. (Differences that already show with fewer features active are
// attributed there before this label is used.)
func (c Config) Features() string {
	if c.Opt == 1 || c.Opt == 2 {
		return "peephole"
	}

	var p []string

	if c.Reg == 1 || c.Opt == 3 {
		p = append(p, "registers")
	}

	if c.Fold == 1 || c.Opt == 3 {
		p = append(p, "constfold")
	}

	if c.Cache == 1 {
		p = append(p, "globalcache")
	}

	if c.Alloc != 0 {
		p = append(p, "alloc")
	}

	if len(p) == 0 {
		return "none"
	}

	return strings.Join(p, "+")
}

func (c Config) featureBits() int {
	b := 0

	if c.Opt == 1 || c.Opt == 2 {
		b |= 1
	}

	if c.Reg == 1 || c.Opt == 3 {
		b |= 2
	}

	if c.Fold == 1 || c.Opt == 3 {
		b |= 4
	}

	if c.Cache == 1 {
		b |= 8
	}

	if c.Alloc != 0 {
		b |= 16
	}

	return b
}

// Deviations counts the settings that differ from the baseline.
func (c Config) Deviations() int {
	n := 0

	for _, b := range []bool{c.Opt > 0, c.Reg != 0, c.Fold != 0, c.Cache != 0, c.Alloc != 0, c.Diag != ""} {
		if b {
			n++
		}
	}

	return n
}

func setting(name string, v int) []string {
	switch v {
	case 0:
		return []string{"--set", name + "=false"}
	case 1:
		return []string{"--set", name + "=true"}
	}

	return nil
}

// Args is the ego command line (without the program name) that runs file in
// the given type mode under this configuration. aux is a per-run scratch file
// prefix for --profile-file / --log-file.
func (c Config) Args(mode, file, aux string) []string {
	var a []string

	a = append(a, setting("ego.compiler.registers", c.Reg)...)
	a = append(a, setting("ego.compiler.constfold", c.Fold)...)
	a = append(a, setting("ego.runtime.globalcache", c.Cache)...)
	a = append(a, "run")

	if c.Opt >= 0 {
		a = append(a, "-o", strconv.Itoa(c.Opt))
	}

	a = append(a, "--types", mode)

	if c.Alloc != 0 {
		a = append(a, "--symbol-allocation", strconv.Itoa(c.Alloc))
	}

	switch c.Diag {
	case "profile":
		a = append(a, "--profile")
	case "profile-file":
		a = append(a, "--profile-file", aux+".profile.json")
	case "trace":
		a = append(a, "--trace")
	case "trace-logfile":
		a = append(a, "--trace", "--log-file", aux+".trace.log")
	case "debug":
		a = append(a, "--debug")
	}

	return append(a, file)
}

// TestArgs is the `ego test` command line for the corpus.
func (c Config) TestArgs(mode string, paths ...string) []string {
	var a []string

	a = append(a, setting("ego.compiler.registers", c.Reg)...)
	a = append(a, setting("ego.compiler.constfold", c.Fold)...)
	a = append(a, setting("ego.runtime.globalcache", c.Cache)...)
	a = append(a, "test")

	if c.Opt >= 0 {
		a = append(a, "-o", strconv.Itoa(c.Opt))
	}

	a = append(a, "--types", mode)

	switch c.Diag {
	case "trace":
		a = append(a, "--trace")
	case "debug":
		a = append(a, "--debug")
	}

	return append(a, paths...)
}

// Raw is what one execution produced.
type Raw struct {
	Stdout string
	Stderr string
	RC     int
	Done   bool // false: the process died or was cut before the item finished
}

// Runner executes command lines in batch worker processes (this binary
// re-executed with --batch) and in fresh processes of the plain ego binary.
type Runner struct {
	Self     string // this binary
	Ego      string // plain ego binary ($VERIF_EGO)
	Scratch  string
	Repo     string
	template string
	mu       sync.Mutex
	unit     int
	homes    chan string
	// Counters (measured).
	BatchProcs, BatchItems, FreshRuns, Inconclusive int64
}

// NewRunner prepares the scratch layout.
func NewRunner() (*Runner, error) {
	r := &Runner{Self: os.Args[0], Ego: os.Getenv("VERIF_EGO"), Scratch: os.Getenv("VERIF_SCRATCH"), Repo: os.Getenv("VERIF_REPO")}

	if r.Scratch == "" || r.Repo == "" {
		return nil, fmt.Errorf("VERIF_SCRATCH / VERIF_REPO not set")
	}

	if r.Ego == "" {
		return nil, fmt.Errorf("VERIF_EGO not set (check config needs \"ego\": true)")
	}

	if abs, err := filepath.Abs(r.Self); err == nil {
		r.Self = abs
	}

	r.Scratch = filepath.Join(r.Scratch, "pdiff")

	for _, d := range []string{"src", "unit", "fresh"} {
		if err := os.MkdirAll(filepath.Join(r.Scratch, d), 0o755); err != nil {
			return nil, err
		}
	}

	// The very first ego command in a new HOME creates the profile and runs
	// with different defaults (language extensions are still off) than every
	// later one. Every HOME used here is therefore a copy of one that has
	// already been through that first run.
	r.template = filepath.Join(r.Scratch, "template-home")
	if err := os.MkdirAll(r.template, 0o755); err != nil {
		return nil, err
	}

	warm := filepath.Join(r.Scratch, "src", "warm.ego")
	if err := os.WriteFile(warm, []byte("package main\n\nimport \"fmt\"\n\nfunc main() {\nfmt.Println(\"warm\")\n}\n"), 0o644); err != nil {
		return nil, err
	}

	for i := 0; i < 2; i++ {
		cmd := exec.Command(r.Ego, "run", warm)
		cmd.Dir = r.template
		cmd.Env = r.env(r.template)

		if out, err := cmd.CombinedOutput(); err != nil || !strings.Contains(string(out), "warm") {
			return nil, fmt.Errorf("cannot initialise a profile with %s: %v: %s", r.Ego, err, out)
		}
	}

	if _, err := os.Stat(filepath.Join(r.template, ".ego")); err != nil {
		return nil, fmt.Errorf("ego did not create a profile directory: %v", err)
	}

	const nHomes = 64

	r.homes = make(chan string, nHomes)

	for i := 0; i < nHomes; i++ {
		h := filepath.Join(r.Scratch, "fresh", fmt.Sprintf("h%d", i))
		if err := r.newHome(h); err != nil {
			return nil, err
		}

		r.homes <- h
	}

	return r, nil
}

// newHome creates dir as a HOME holding a copy of the initialised profile.
func (r *Runner) newHome(dir string) error {
	if err := os.MkdirAll(filepath.Join(dir, ".ego"), 0o700); err != nil {
		return err
	}

	ents, err := os.ReadDir(filepath.Join(r.template, ".ego"))
	if err != nil {
		return err
	}

	for _, e := range ents {
		if e.IsDir() {
			continue
		}

		b, err := os.ReadFile(filepath.Join(r.template, ".ego", e.Name()))
		if err != nil {
			return err
		}

		if err := os.WriteFile(filepath.Join(dir, ".ego", e.Name()), b, 0o600); err != nil {
			return err
		}
	}

	return nil
}

func (r *Runner) env(home string) []string {
	var env []string

	for _, e := range os.Environ() {
		if strings.HasPrefix(e, "HOME=") || strings.HasPrefix(e, "EGO_") {
			continue
		}

		env = append(env, e)
	}

	return append(env, "HOME="+home, "EGO_PATH="+r.Repo)
}

// continueStream feeds an endless supply of debugger `continue` commands.
type continueStream struct{}

func (continueStream) Read(p []byte) (int, error) {
	const line = "continue\n"

	n := 0
	for n+len(line) <= len(p) {
		copy(p[n:], line)
		n += len(line)
	}

	if n == 0 {
		n = copy(p, line)
	}

	return n, nil
}

// batchTimeout is a watchdog only: an item cut by it is inconclusive, never a
// verdict.
const batchTimeout = 40 * time.Minute

// Batch runs the items (all of one configuration) in one worker process and
// returns the raw result per item id. If the process dies part-way the item
// that was running is returned with Done=false and the rest are run in a new
// process.
func (r *Runner) Batch(items []Item, continues bool) map[int]*Raw {
	res := map[int]*Raw{}

	for len(items) > 0 {
		got, last := r.batchOnce(items, continues)

		for id, raw := range got {
			res[id] = raw
		}

		// Drop everything up to and including the last item that was started.
		next := items[:0:0]
		seen := last < 0

		for _, it := range items {
			if seen {
				next = append(next, it)
			} else if it.ID == last {
				seen = true
			}
		}

		if last < 0 {
			// Nothing even started: give up on this batch (inconclusive).
			for _, it := range items {
				res[it.ID] = &Raw{}
			}

			break
		}

		items = next
	}

	return res
}

func (r *Runner) batchOnce(items []Item, continues bool) (map[int]*Raw, int) {
	r.mu.Lock()
	r.unit++
	dir := filepath.Join(r.Scratch, "unit", fmt.Sprintf("u%d", r.unit))
	r.BatchProcs++
	r.BatchItems += int64(len(items))
	r.mu.Unlock()

	home := filepath.Join(dir, "home")
	if err := r.newHome(home); err != nil {
		return nil, -1
	}

	defer os.RemoveAll(dir)

	b, _ := json.Marshal(items)
	list := filepath.Join(dir, "list.json")

	if err := os.WriteFile(list, b, 0o644); err != nil {
		return nil, -1
	}

	ctx, cancel := context.WithTimeout(context.Background(), batchTimeout)
	defer cancel()

	var so, se bytes.Buffer

	cmd := exec.CommandContext(ctx, r.Self, "--batch", list)
	cmd.Dir = dir
	cmd.Env = r.env(home)
	cmd.Stdout = &so
	cmd.Stderr = &se

	if continues {
		cmd.Stdin = continueStream{}
	}

	cmd.WaitDelay = 5 * time.Second
	_ = cmd.Run()

	outs, lastOut := splitMarked(so.String())
	errs, _ := splitMarked(se.String())

	res := map[int]*Raw{}

	for id, o := range outs {
		raw := &Raw{Stdout: o.text, RC: o.rc, Done: o.done}

		if e, ok := errs[id]; ok {
			raw.Stderr = e.text
			raw.Done = raw.Done && e.done
		} else {
			raw.Done = false
		}

		res[id] = raw
	}

	return res, lastOut
}

type marked struct {
	text string
	rc   int
	done bool
}

// splitMarked cuts a worker's output stream into the per-item pieces and
// returns the id of the last item that was started (-1 if none).
func splitMarked(s string) (map[int]*marked, int) {
	res := map[int]*marked{}
	last := -1

	var (
		cur  *marked
		body strings.Builder
	)

	for _, line := range strings.SplitAfter(s, "\n") {
		trim := strings.TrimRight(line, "\n")

		switch {
		case strings.HasPrefix(trim, beginMark):
			f := strings.Fields(trim[len(beginMark):])
			if len(f) >= 1 {
				id, _ := strconv.Atoi(f[0])
				cur = &marked{}
				res[id] = cur
				last = id

				body.Reset()
			}
		case strings.HasPrefix(trim, endMark):
			f := strings.Fields(trim[len(endMark):])
			if cur != nil && len(f) >= 2 {
				cur.rc, _ = strconv.Atoi(f[1])
				cur.done = true
				// The marker is preceded by a newline of its own.
				cur.text = strings.TrimSuffix(body.String(), "\n")
				cur = nil
			}
		default:
			if cur != nil {
				body.WriteString(line)
			}
		}
	}

	if cur != nil {
		cur.text = body.String()
	}

	return res, last
}

// freshTimeout is a watchdog only.
const freshTimeout = 20 * time.Minute

// Fresh runs one ego command line in a new process of the plain binary.
func (r *Runner) Fresh(args []string, continues bool) *Raw {
	home := <-r.homes
	defer func() { r.homes <- home }()

	// A run may save settings into the profile: start from the template.
	_ = r.newHome(home)

	r.mu.Lock()
	r.FreshRuns++
	r.mu.Unlock()

	ctx, cancel := context.WithTimeout(context.Background(), freshTimeout)
	defer cancel()

	var so, se bytes.Buffer

	cmd := exec.CommandContext(ctx, r.Ego, args...)
	cmd.Dir = home
	cmd.Env = r.env(home)
	cmd.Stdout = &so
	cmd.Stderr = &se

	if continues {
		cmd.Stdin = io.LimitReader(continueStream{}, 1<<20)
	}

	cmd.WaitDelay = 5 * time.Second
	err := cmd.Run()

	raw := &Raw{Stdout: so.String(), Stderr: se.String(), Done: true}

	if ctx.Err() != nil {
		raw.Done = false

		return raw
	}

	if ee, ok := err.(*exec.ExitError); ok {
		raw.RC = ee.ExitCode()
		if raw.RC < 0 {
			raw.Done = false // killed by a signal
		}
	} else if err != nil {
		raw.Done = false
	}

	return raw
}

// Obs is the observable result the properties speak about.
type Obs struct {
	Out    []string `json:"out"`    // program output lines
	Err    []string `json:"err"`    // error message lines, line numbers normalised
	Failed bool     `json:"failed"` // stopped with an error (non-zero exit status)
}

// Equal reports whether two observations are the same.
func (o Obs) Equal(p Obs) bool {
	return o.Failed == p.Failed && eqLines(o.Out, p.Out) && eqLines(o.Err, p.Err)
}

func eqLines(a, b []string) bool {
	if len(a) != len(b) {
		return false
	}

	for i := range a {
		if a[i] != b[i] {
			return false
		}
	}

	return true
}

var lineNo = regexp.MustCompile(`\bline \d+(:\d+)?`)

// NormErr normalises source positions in a message.
func NormErr(s string) string { return lineNo.ReplaceAllString(s, "line N") }

// Observe reduces a raw solo result. With outOnly, only the OUT| lines count
// as program output (diagnostics share stdout with the program).
func Observe(raw *Raw, outOnly bool) Obs {
	var o Obs

	for _, l := range strings.Split(raw.Stdout, "\n") {
		l = strings.TrimRight(l, "\r")
		if l == "" {
			continue
		}

		if outOnly && !strings.HasPrefix(l, "OUT|") {
			continue
		}

		o.Out = append(o.Out, NormErr(l))
	}

	for _, l := range strings.Split(raw.Stderr, "\n") {
		if strings.HasPrefix(l, "Error") {
			o.Err = append(o.Err, NormErr(l))
		}
	}

	o.Failed = raw.RC != 0

	return o
}

// Segments cuts the output of a packed file into the per-program pieces. A
// program whose begin or end marker is missing gets no entry.
func Segments(raw *Raw, outOnly bool) map[int][]string {
	res := map[int][]string{}
	cur := -1

	var lines []string

	for _, l := range strings.Split(raw.Stdout, "\n") {
		l = strings.TrimRight(l, "\r")

		switch {
		case strings.HasPrefix(l, "OUT|#B "):
			cur, _ = strconv.Atoi(strings.TrimSpace(l[len("OUT|#B "):]))
			lines = []string{}
		case strings.HasPrefix(l, "OUT|#E "):
			id, _ := strconv.Atoi(strings.TrimSpace(l[len("OUT|#E "):]))
			if id == cur {
				res[id] = lines
			}

			cur = -1
		default:
			if cur < 0 || l == "" {
				continue
			}

			if outOnly && !strings.HasPrefix(l, "OUT|") {
				continue
			}

			lines = append(lines, NormErr(l))
		}
	}

	return res
}

// Package pdiff is the shared machinery of the differential language checks
// C02 (performance settings) and C12 (diagnostics modes): a generator of small
// Ego programs, a batch driver that runs the real `ego` command line many
// times inside one process, a fresh-process runner used to confirm every
// disagreement, and the comparison of observable results.
package pdiff

import (
	"bufio"
	"encoding/json"
	"fmt"
	"os"

	"github.com/tucats/ego/internal/cli/app"
	"github.com/tucats/ego/internal/commands"
	"github.com/tucats/ego/internal/errors"
	"github.com/tucats/ego/internal/grammar/class"
	"github.com/tucats/ego/internal/i18n"
	"github.com/tucats/ego/internal/language/bytecode"
	"github.com/tucats/ego/internal/language/data"
)

// Item is one command line to execute in a batch process.
type Item struct {
	ID   int      `json:"id"`
	Args []string `json:"args"` // full argv, Args[0] is the program name
}

// Marker lines written by the batch driver around each item, on both stdout
// and stderr. \x02 cannot be produced by the generated programs.
const (
	beginMark = "\x02BEGIN "
	endMark   = "\x02END "
)

// Dispatch handles the sub-commands of the harness binary: `--batch <list>`
// (worker process) and `--dump <dir>` (development aid: write every generated
// program as its own source file). It returns when neither was asked for.
func Dispatch() {
	if len(os.Args) > 2 && os.Args[1] == "--batch" {
		BatchMain(os.Args[2])
	}

	if len(os.Args) > 2 && os.Args[1] == "--dump" {
		progs := Generate(len(os.Args) > 3 && os.Args[3] == "thorough")
		_ = os.MkdirAll(os.Args[2], 0o755)

		for _, p := range progs {
			name := fmt.Sprintf("%s/s%d.ego", os.Args[2], p.ID)
			_ = os.WriteFile(name, []byte("// "+p.Key()+"\n"+Source([]Prog{p}, styleSolo)), 0o644)
		}

		fmt.Println(len(progs), "programs")
		os.Exit(0)
	}
}

// BatchMain is the body of a batch worker process: it executes every item of
// the list file by repeating what ego's main.go does (app.New(...).Run with
// the class grammar, the end-of-run profile report, the error report), without
// leaving the process, and brackets the output of each item with marker lines.
// A process runs items of ONE configuration only, because settings given on
// the command line stay in the process-global settings table.
func BatchMain(listPath string) {
	b, err := os.ReadFile(listPath)
	if err != nil {
		fmt.Fprintln(os.Stderr, "batch: ", err)
		os.Exit(3)
	}

	var items []Item

	if err := json.Unmarshal(b, &items); err != nil {
		fmt.Fprintln(os.Stderr, "batch: ", err)
		os.Exit(3)
	}

	if err := app.SetEnvironment(".ego"); err != nil {
		fmt.Fprintln(os.Stderr, "batch: ", err)
		os.Exit(3)
	}

	for _, it := range items {
		mark(beginMark, it.ID, 0)

		rc := runOne(it.Args)

		mark(endMark, it.ID, rc)
	}

	os.Exit(0)
}

func mark(kind string, id, rc int) {
	line := fmt.Sprintf("\n%s%d %d\n", kind, id, rc)

	_, _ = os.Stdout.WriteString(line)
	_, _ = os.Stderr.WriteString(line)
}

// runOne mirrors main() and reportError() of ego's main.go, returning the exit
// status instead of exiting.
func runOne(args []string) int {
	a := app.New("ego: "+i18n.T("ego")).
		SetVersion(1, 0, 0).
		SetCopyright("(C) Copyright Tom Cole 2020 - 2026").
		SetDefaultAction(commands.RunAction).
		SetProfileDirectory(".ego").
		SetBuildTime("")

	err := a.Run(class.MainGrammar, args)

	_ = bytecode.PrintProfileReport()

	if err == nil {
		return 0
	}

	code := 1

	if egoErr, ok := err.(*errors.Error); ok {
		if egoErr.Is(nil) {
			code = 0
		} else if !egoErr.Is(errors.ErrExit) {
			_, _ = os.Stderr.WriteString(fmt.Sprintf("%s: %v\n", i18n.L("Error"), err.Error()))
		} else if value := egoErr.GetContext(); value != "" {
			var cerr error

			code, cerr = data.Int(value)
			if cerr != nil {
				code = -99
			}
		}
	} else {
		code = 0
	}

	return code
}

var _ = bufio.NewReader

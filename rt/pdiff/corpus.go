package pdiff

import (
	"fmt"
	"os"
	"path/filepath"
	"regexp"
	"sort"
	"strings"
	"sync"
	"time"

	"github.com/tucats/ego/internal/verifrt/report"
)

// The repository's own Ego corpus, tests/<dir>/*.ego, is run with `ego test`
// one directory per command line. Its output is cut into one block per test
// (the `TEST: name (STATUS)` line and whatever the test printed or failed
// with); a block is compared between configurations only if it was identical
// in two independent baseline runs, so tests that print times, ports or other
// environment-dependent text never decide anything.

// CoreCorpusDirs are the corpus directories about the language core (the
// quick tier runs these; library-bound directories such as cipher, io, exec
// take seconds each and say little about compiler or VM settings).
var CoreCorpusDirs = []string{"builtins", "cast", "compiler", "datamodel", "defer", "directives", "errors", "flow", "functions", "packages", "sort", "strings", "types"}

// corpusSkip are directories whose tests talk to servers or databases.
var corpusSkip = map[string]bool{"ai": true, "server": true, "sql": true, "tables": true}

var (
	testLine  = regexp.MustCompile(`^TEST: (.*?)\s+\((PASS|FAIL|OUTPUT)\)\s*(\S+)?\s*$`)
	totalLine = regexp.MustCompile(`^TEST: Completed a total of (\d+) tests(, (\d+) failed)? in .*$`)
)

// blocks cuts the combined output of one `ego test <dir>` run. The key is the
// test name plus its occurrence number.
func blocks(raw *Raw, outOnly bool) (map[string][]string, []string) {
	res := map[string][]string{}
	seen := map[string]int{}

	var (
		order []string
		cur   string
	)

	for _, l := range strings.Split(raw.Stdout, "\n") {
		l = strings.TrimRight(l, "\r ")
		if l == "" {
			continue
		}

		if m := totalLine.FindStringSubmatch(l); m != nil {
			res["#total"] = []string{"total=" + m[1] + " failed=" + m[3]}
			order = append(order, "#total")
			cur = "#after"

			continue
		}

		if m := testLine.FindStringSubmatch(l); m != nil {
			if m[2] == "OUTPUT" {
				// Output of the test named; its status line follows later.
				seen[m[1]+"|out"]++
				cur = fmt.Sprintf("%s|out#%d", m[1], seen[m[1]+"|out"])
			} else {
				seen[m[1]]++
				cur = fmt.Sprintf("%s#%d", m[1], seen[m[1]])
			}

			res[cur] = []string{"status=" + m[2]}
			order = append(order, cur)

			continue
		}

		if cur == "" {
			cur = "#before"
			order = append(order, cur)
		}

		if outOnly && !strings.HasPrefix(strings.TrimSpace(l), "Error") {
			// Diagnostics share stdout with the tests' own output: only
			// status and error lines are compared.
			continue
		}

		res[cur] = append(res[cur], NormErr(strings.TrimSpace(l)))
	}

	// Error messages arrive on stderr, in order.
	res["#stderr"] = []string{}
	order = append(order, "#stderr")

	for _, l := range strings.Split(raw.Stderr, "\n") {
		l = strings.TrimSpace(l)
		if strings.HasPrefix(l, "Error") {
			res["#stderr"] = append(res["#stderr"], NormErr(l))
		}
	}

	return res, order
}

func corpusDirs(repo string) []string {
	ents, _ := os.ReadDir(filepath.Join(repo, "tests"))

	var out []string

	for _, e := range ents {
		if e.IsDir() && !corpusSkip[e.Name()] {
			if m, _ := filepath.Glob(filepath.Join(repo, "tests", e.Name(), "*.ego")); len(m) > 0 {
				out = append(out, e.Name())
			}
		}
	}

	sort.Strings(out)

	return out
}

var logRecord = regexp.MustCompile(`\[\d{4}-\d\d-\d\d \d\d:\d\d:\d\d\] \d+\s+[A-Z]+\s*:[^\n]*`)

// coarse reduces a run to what stays recognisable when trace lines are mixed
// into the same stream (test header and status are then no longer on one
// line): the summary line, the error lines, and the number of PASS and FAIL
// marks.
func coarse(raw *Raw) map[string][]string {
	res := map[string][]string{"#stderr": {}}

	for _, l := range strings.Split(raw.Stdout, "\n") {
		if m := totalLine.FindStringSubmatch(strings.TrimRight(l, "\r ")); m != nil {
			res["#total"] = []string{"total=" + m[1] + " failed=" + m[3]}
		}
	}

	// Log records (which may quote any text) are removed before counting.
	clean := logRecord.ReplaceAllString(raw.Stdout, "")
	res["#marks"] = []string{fmt.Sprintf("pass=%d fail=%d", strings.Count(clean, "(PASS)"), strings.Count(clean, "(FAIL)"))}

	for _, l := range strings.Split(raw.Stderr, "\n") {
		l = strings.TrimSpace(l)
		if strings.HasPrefix(l, "Error") {
			res["#stderr"] = append(res["#stderr"], NormErr(l))
		}
	}

	return res
}

// view parses a run the way the configuration it is compared with allows.
func view(raw *Raw, outOnly bool, cfg Config) map[string][]string {
	if cfg.Diag == "trace" {
		return coarse(raw)
	}

	b, _ := blocks(raw, outOnly)

	return b
}

// traceUnit is the one unit run under --trace when the plan limits tracing
// to some directories ("" = no limit).
func (e *engine) traceUnit(all []string) string {
	var out []string

	for _, d := range all {
		for _, t := range e.plan.CorpusTraceDirs {
			if d == t {
				out = append(out, d)
			}
		}
	}

	return strings.Join(out, "+")
}

// A corpus unit is a set of directories run by one `ego test` command line
// (every invocation of `ego test` re-imports the whole runtime library, so
// the number of invocations, not the number of tests, is what costs time).
// Its name is the directory names joined with "+".
func unitPaths(repo, unit string) []string {
	var out []string

	for _, d := range strings.Split(unit, "+") {
		out = append(out, filepath.Join(repo, "tests", d))
	}

	return out
}

func shownPaths(unit string) []string {
	var out []string

	for _, d := range strings.Split(unit, "+") {
		out = append(out, "tests/"+d)
	}

	return out
}

// units groups directories, per at a time.
func units(dirs []string, per int) []string {
	var out []string

	for lo := 0; lo < len(dirs); lo += per {
		hi := lo + per
		if hi > len(dirs) {
			hi = len(dirs)
		}

		out = append(out, strings.Join(dirs[lo:hi], "+"))
	}

	return out
}

type corpusRun map[string]map[string][]string // unit -> block key -> lines

// corpusBatch runs every directory under (cfg, mode) in batch processes.
func (e *engine) corpusBatch(wg *sync.WaitGroup, cfg Config, mode string, dirs []string, sink func(dir string, raw *Raw)) {
	const dirsPerUnit = 1

	for lo := 0; lo < len(dirs); lo += dirsPerUnit {
		hi := lo + dirsPerUnit
		if hi > len(dirs) {
			hi = len(dirs)
		}

		chunk := dirs[lo:hi]

		e.submit(wg, func() {
			items := make([]Item, len(chunk))
			for i, d := range chunk {
				items[i] = Item{ID: i, Args: append([]string{"ego"}, cfg.TestArgs(mode, unitPaths(e.run.Repo, d)...)...)}
			}

			t1 := time.Now()
			res := e.run.Batch(items, cfg.Diag == "debug")

			progress("  corpus unit %s %s %v: %.1fs", cfg.Label(), mode, chunk, time.Since(t1).Seconds())

			for i, d := range chunk {
				raw := res[i]
				if raw == nil {
					raw = &Raw{}
				}

				sink(d, raw)
			}
		})
	}
}

func (e *engine) corpus() {
	if len(e.plan.CorpusGroups) == 0 {
		return
	}

	dirs := corpusDirs(e.run.Repo)

	if len(e.plan.CorpusDirs) > 0 {
		var keep []string

		for _, d := range dirs {
			for _, w := range e.plan.CorpusDirs {
				if d == w {
					keep = append(keep, d)
				}
			}
		}

		dirs = keep
	}

	if re := os.Getenv("PDIFF_DIRS"); re != "" {
		rx := regexp.MustCompile(re)

		var keep []string

		for _, d := range dirs {
			if rx.MatchString(d) {
				keep = append(keep, d)
			}
		}

		dirs = keep

		e.r.Capped("development filter PDIFF_DIRS=" + re)
	}

	if len(dirs) == 0 {
		report.Fatal("no corpus under %s/tests", e.run.Repo)
	}

	type cand struct {
		group, cfg int
		mode, dir  string
		sig        string
	}

	var (
		mu    sync.Mutex
		cands []cand
		files int
	)

	for _, d := range dirs {
		m, _ := filepath.Glob(filepath.Join(e.run.Repo, "tests", d, "*.ego"))
		files += len(m)
	}

	e.r.Set("corpus_directories", len(dirs))
	e.r.Set("corpus_files", files)

	per := e.plan.CorpusDirsPerRun
	if per <= 0 {
		per = 4
	}

	traceU := ""
	if len(e.plan.CorpusTraceDirs) > 0 {
		traceU = e.traceUnit(dirs)
	}

	dirs = units(dirs, per)

	// The baseline also runs the unit that only --trace uses.
	baseUnits := dirs
	if traceU != "" {
		baseUnits = append(append([]string{}, dirs...), traceU)
	}

	e.r.Set("corpus_ego_test_command_lines_per_pass", len(dirs))

	var stable, noisy, compared int64

	var all sync.WaitGroup

	for gi, g := range e.plan.CorpusGroups {
		for _, mode := range e.plan.CorpusModes {
			gi, g, mode := gi, g, mode

			all.Add(1)

			go func() {
				defer all.Done()

				// Two independent baseline runs: only blocks equal in both count.
				var wg sync.WaitGroup

				base := [2]corpusRun{{}, {}}
				baseCoarse := [2]corpusRun{{}, {}}
				done := [2]map[string]bool{{}, {}}

				for k := 0; k < 2; k++ {
					k := k

					e.corpusBatch(&wg, g.Base, mode, baseUnits, func(dir string, raw *Raw) {
						b, _ := blocks(raw, e.plan.OutOnly)
						c := coarse(raw)

						mu.Lock()
						base[k][dir] = b
						baseCoarse[k][dir] = c
						done[k][dir] = raw.Done
						mu.Unlock()
					})
				}

				wg.Wait()

				// ref: per-test view; refCoarse: the view used against --trace.
				ref, refCoarse := corpusRun{}, corpusRun{}

				for _, d := range baseUnits {
					ref[d] = map[string][]string{}
					refCoarse[d] = map[string][]string{}

					if !done[0][d] || !done[1][d] {
						mu.Lock()
						noisy++
						mu.Unlock()

						continue
					}

					for k, v := range baseCoarse[0][d] {
						if w, ok := baseCoarse[1][d][k]; ok && eqLines(v, w) {
							refCoarse[d][k] = v
						}
					}

					if d == traceU && traceU != "" && len(dirs) > 0 && d != dirs[0] {
						continue // only the coarse view of this unit is used
					}

					for k, v := range base[0][d] {
						if w, ok := base[1][d][k]; ok && eqLines(v, w) {
							ref[d][k] = v

							mu.Lock()
							stable++
							mu.Unlock()

							if strings.HasPrefix(k, "#") {
								continue
							}

							e.r.Distinct("corpus|" + mode + "|" + d + "|" + k)
						} else {
							mu.Lock()
							noisy++
							mu.Unlock()
						}
					}
				}

				for ci, cfg := range g.Configs {
					ci, cfg := ci, cfg

					if !e.plan.modeApplies(cfg, mode) {
						continue
					}

					if cfg.Diag == "trace" && len(e.plan.CorpusTraceModes) > 0 {
						ok := false

						for _, m := range e.plan.CorpusTraceModes {
							ok = ok || m == mode
						}

						if !ok {
							continue
						}
					}

					want := ref
					if cfg.Diag == "trace" {
						want = refCoarse
					}

					run := dirs
					if cfg.Diag == "trace" && traceU != "" {
						run = []string{traceU}
					}

					e.corpusBatch(&wg, cfg, mode, run, func(dir string, raw *Raw) {
						b := view(raw, e.plan.OutOnly, cfg)
						differs := !raw.Done

						n := 0

						var diff []string

						for k, v := range want[dir] {
							n++

							if w, ok := b[k]; !ok || !eqLines(v, w) {
								differs = true

								diff = append(diff, k+"\x00"+strings.Join(w, "\x01"))
							}
						}

						sort.Strings(diff)

						e.r.Eval(n)

						mu.Lock()
						compared += int64(n)

						if differs && len(want[dir]) > 0 {
							cands = append(cands, cand{gi, ci, mode, dir, sigOf(diff)})
						}
						mu.Unlock()
					})
				}

				wg.Wait()
			}()
		}
	}

	all.Wait()

	e.r.Set("corpus_test_blocks_stable_in_baseline", stable)
	e.r.Set("corpus_test_blocks_excluded_as_environment_dependent", noisy)
	e.r.Set("corpus_test_block_comparisons", compared)

	sort.Slice(cands, func(i, j int) bool {
		a, b := cands[i], cands[j]
		if a.group != b.group {
			return a.group < b.group
		}

		if a.cfg != b.cfg {
			return a.cfg < b.cfg
		}

		if a.dir != b.dir {
			return a.dir < b.dir
		}

		return a.mode < b.mode
	})

	e.r.Set("corpus_batch_disagreements", len(cands))

	// Confirm per (directory, mode): the configuration with fewest deviations.
	seen := map[string]bool{}

	var wg sync.WaitGroup

	for _, c := range cands {
		k := fmt.Sprint(c.group, "|", c.dir, "|", c.mode, "|", c.sig)
		if seen[k] {
			continue
		}

		seen[k] = true
		c := c

		e.submit(&wg, func() {
			g := e.plan.CorpusGroups[c.group]
			e.confirmCorpus(g.Base, g.Configs[c.cfg], c.mode, c.dir, "")
		})
	}

	wg.Wait()
}

func (e *engine) freshCorpus(cfg, viewOf Config, mode, dir string) (map[string][]string, bool) {
	raw := e.run.Fresh(cfg.TestArgs(mode, unitPaths(e.run.Repo, dir)...), cfg.Diag == "debug")

	return view(raw, e.plan.OutOnly, viewOf), raw.Done
}

// confirmCorpus runs one directory twice under each side in fresh processes
// and reports the blocks that are stable on both sides and differ.
func (e *engine) confirmCorpus(base, cfg Config, mode, dir, only string) {
	b1, ok1 := e.freshCorpus(base, cfg, mode, dir)
	b2, ok2 := e.freshCorpus(base, cfg, mode, dir)
	c1, ok3 := e.freshCorpus(cfg, cfg, mode, dir)
	c2, ok4 := e.freshCorpus(cfg, cfg, mode, dir)

	if !ok1 || !ok2 || !ok3 || !ok4 {
		e.r.Add("corpus_confirmations_cut", 1)
		e.r.Capped("a corpus confirmation run (" + dir + ", " + cfg.Label() + ") was cut by the watchdog: inconclusive")

		return
	}

	keys := make([]string, 0, len(b1))
	for k := range b1 {
		keys = append(keys, k)
	}

	sort.Strings(keys)

	// Per-test blocks first; the aggregate blocks (summary line, stderr) only
	// speak when no single test block differs.
	reported := 0

	for pass := 0; pass < 2; pass++ {
		if pass == 1 && reported > 0 {
			break
		}

		for _, k := range keys {
			if only != "" && k != only {
				continue
			}

			if aggregate := strings.HasPrefix(k, "#"); aggregate != (pass == 1) {
				continue
			}

			v := b1[k]

			if w, ok := b2[k]; !ok || !eqLines(v, w) {
				continue // not stable in the baseline
			}

			x, okx := c1[k]
			y, oky := c2[k]

			if okx != oky || !eqLines(x, y) {
				continue // not stable in the configuration
			}

			if okx && eqLines(v, x) {
				continue
			}

			bo := blockObs(v, true)
			co := blockObs(x, okx)

			w := Witness{
				Kind: "corpus", Mode: mode, Base: base, Config: cfg, TestDir: dir, TestName: k,
				BaseCmd: cmdLine(base.TestArgs(mode, shownPaths(dir)...)), Cmd: cmdLine(cfg.TestArgs(mode, shownPaths(dir)...)),
				BaseObs: bo, Obs: co,
			}

			e.reportDiff(w, cfg, base, len(k))
			e.r.Add("corpus_disagreements_confirmed_fresh", 1)

			reported++
		}
	}
}

var testArea = regexp.MustCompile(`^([a-z0-9_]+): `)

// corpusKind names the way a test block changed, with the area the test
// names itself after ("types: ...", "flow: ...").
func corpusKind(w Witness) string {
	bad := func(o Obs) bool { return o.Failed || len(o.Err) > 0 }

	area := "summary"
	if m := testArea.FindStringSubmatch(w.TestName); m != nil {
		area = m[1]
	}

	switch {
	case strings.HasPrefix(w.TestName, "#"):
		return "summary-differs"
	case !bad(w.BaseObs) && bad(w.Obs):
		return "test-fails:" + area
	case bad(w.BaseObs) && !bad(w.Obs):
		return "test-stops-failing:" + area
	case bad(w.BaseObs) && bad(w.Obs):
		return "test-fails-differently:" + area
	}

	return "test-output-differs:" + area
}

// blockObs presents a test block as an observation: a FAIL status or a
// missing block is a failure, its error lines are the messages.
func blockObs(lines []string, present bool) Obs {
	o := Obs{}

	if !present {
		o.Failed = true
		o.Err = []string{"Error: test block missing from the run"}

		return o
	}

	for _, l := range lines {
		switch {
		case l == "status=FAIL":
			o.Failed = true
		case strings.HasPrefix(l, "status="), strings.HasPrefix(l, "total="):
			o.Out = append(o.Out, l)
		case strings.HasPrefix(l, "Error"):
			o.Err = append(o.Err, l)
		default:
			o.Out = append(o.Out, l)
		}
	}

	return o
}

func (e *engine) replayCorpus(w Witness) {
	e.startPool()
	e.confirmCorpus(w.Base, w.Config, w.Mode, w.TestDir, w.TestName)
	e.r.Eval(4)
}

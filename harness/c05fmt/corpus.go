package main

import "github.com/tucats/ego/internal/verifrt/report"

func corpus(r *report.R, scratch string) {}

func replay(r *report.R, scratch string) {}

package main

import (
	"fmt"
	"io"
	"io/fs"
	"os"
	"path/filepath"
	"regexp"
	"sort"
	"strings"
	"sync"

	"github.com/tucats/ego/internal/errors"
	"github.com/tucats/ego/internal/language/compiler"
	"github.com/tucats/ego/internal/language/tokenizer"
	"github.com/tucats/ego/internal/verifrt/egobatch"
	"github.com/tucats/ego/internal/verifrt/report"
)

// compileOnly hands a text to the compiler without running it.
func compileOnly(src string) (msg string) {
	defer func() {
		if r := recover(); r != nil {
			msg = fmt.Sprintf("GO-PANIC: %v", r)
		}
	}()

	setup()

	_, err := compiler.New("corpus").SetInteractive(false).Compile("corpus", tokenizer.New("@extensions true\n"+src, true))
	if !errors.Nil(err) {
		return err.Error()
	}

	return ""
}

func copyTree(src, dst string) error {
	return filepath.WalkDir(src, func(p string, d fs.DirEntry, err error) error {
		if err != nil {
			return err
		}

		rel, _ := filepath.Rel(src, p)
		to := filepath.Join(dst, rel)

		if d.IsDir() {
			return os.MkdirAll(to, 0o755)
		}

		if !d.Type().IsRegular() {
			return nil
		}

		in, err := os.Open(p)
		if err != nil {
			return err
		}

		defer in.Close()

		out, err := os.Create(to)
		if err != nil {
			return err
		}

		defer out.Close()

		_, err = io.Copy(out, in)

		return err
	})
}

var (
	testDuration = regexp.MustCompile(`\)\s+[0-9.]+(ns|µs|ms|s|m[0-9.]+s)\s*$`)
	completedIn  = regexp.MustCompile(` in [0-9.a-zµ]+$`)
	digits       = regexp.MustCompile(`[0-9]+`)
)

// testReport reduces what `ego test` printed to the part the statement speaks
// of: the tests with their results and the error messages, without durations
// and source positions.
func testReport(out string) string {
	var keep []string

	for _, l := range strings.Split(out, "\n") {
		l = strings.TrimRight(l, " \t\r")

		switch {
		case strings.HasPrefix(l, "TEST:"):
			l = testDuration.ReplaceAllString(l, ")")
			l = completedIn.ReplaceAllString(l, "")
			keep = append(keep, l)
		case strings.Contains(l, "Error:"):
			if strings.TrimSpace(l) == compileFailed {
				// the exit status line of the command, not part of the report
				continue
			}

			keep = append(keep, normOut(strings.TrimSpace(l)))
		}
	}

	return strings.Join(keep, "\n")
}

func slug(s string) string {
	s = digits.ReplaceAllString(strings.ToLower(s), "")
	s = strings.NewReplacer(";", " semicolon ", "{", " brace ", "}", " closing brace ", "(", " paren ", ")", " closing paren ").Replace(s)

	var b strings.Builder

	for _, c := range s {
		switch {
		case c >= 'a' && c <= 'z':
			b.WriteRune(c)
		case b.Len() > 0 && !strings.HasSuffix(b.String(), "-"):
			b.WriteByte('-')
		}
	}

	out := strings.Trim(b.String(), "-")
	if len(out) > 48 {
		out = strings.Trim(out[:48], "-")
	}

	if out == "" {
		out = "differs"
	}

	return out
}

// firstReportDiff names the first line of the formatted file's test report
// that the original's report does not have (an error message if there is one).
func firstReportDiff(a, b string) string {
	have := map[string]int{}
	for _, l := range strings.Split(a, "\n") {
		have[l]++
	}

	first := ""

	for _, l := range strings.Split(b, "\n") {
		if have[l] > 0 {
			have[l]--

			continue
		}

		if strings.Contains(l, "Error:") {
			return l
		}

		if first == "" {
			first = l
		}
	}

	if first == "" {
		return "lines missing from the report"
	}

	return first
}

var fileInMsg = regexp.MustCompile(`at [^ ,]*\(line N\),? ?`)

// sameTokensModuloSeparators: the two texts differ at most in statement
// separators (runs of ";", ";" next to a brace) and trailing commas.
func sameTokensModuloSeparators(a, b string) bool {
	norm := func(src string) []string {
		t := tokenizer.New(src, true)

		var out []string

		for i, tok := range t.Tokens {
			sp := tok.Spelling()
			next := ""

			for j := i + 1; j < len(t.Tokens); j++ {
				if t.Tokens[j].Spelling() != ";" {
					next = t.Tokens[j].Spelling()

					break
				}
			}

			switch {
			case sp == ";" && tok.IsClass(tokenizer.SpecialTokenClass):
				if len(out) == 0 || out[len(out)-1] == ";" || out[len(out)-1] == "{" || next == "}" || next == ")" || next == "" {
					continue
				}
			case sp == "," && tok.IsClass(tokenizer.SpecialTokenClass):
				if next == "}" || next == ")" || next == "]" {
					continue
				}
			}

			out = append(out, sp)
		}

		return out
	}

	x, y := norm(a), norm(b)
	if len(x) != len(y) {
		return false
	}

	for i := range x {
		if x[i] != y[i] {
			return false
		}
	}

	return true
}

type corpusFile struct {
	rel  string // path relative to the repository root
	src  string
	f1   string
	kind string // "test" (tests/: run with `ego test`), "other"
}

// observesLines: texts that read their own source positions are outside the
// statement ("ignoring source line numbers").
func observesLines(src string) bool {
	return strings.Contains(src, "Frames(") || strings.Contains(src, "@line")
}

// corpus judges every .ego file of the repository.
func corpus(r *report.R, scratch string) {
	repo := os.Getenv("VERIF_REPO")
	if repo == "" {
		fatal("VERIF_REPO is not set")
	}

	var files []corpusFile

	for _, root := range []string{"tests", "lib", "examples"} {
		_ = filepath.WalkDir(filepath.Join(repo, root), func(p string, d fs.DirEntry, err error) error {
			if err != nil || d.IsDir() || !strings.HasSuffix(p, ".ego") {
				return nil
			}

			b, err := os.ReadFile(p)
			if err != nil {
				return nil
			}

			rel, _ := filepath.Rel(repo, p)
			kind := "other"

			if root == "tests" {
				kind = "test"
			}

			files = append(files, corpusFile{rel: rel, src: string(b), kind: kind})

			return nil
		})
	}

	sort.Slice(files, func(a, b int) bool { return files[a].rel < files[b].rel })

	if len(files) == 0 {
		r.Capped("no .ego corpus files found under " + repo)

		return
	}

	origTree, fmtTree := filepath.Join(scratch, "corpus-orig"), filepath.Join(scratch, "corpus-fmt")

	for _, tree := range []string{origTree, fmtTree} {
		if err := copyTree(filepath.Join(repo, "tests"), filepath.Join(tree, "tests")); err != nil {
			fatal("cannot copy the tests tree: " + err.Error())
		}
	}

	type viol struct {
		cell, msg string
		w         Witness
	}

	var (
		viols      []viol
		rejected   []string
		unjudged   []string
		skipped    []string
		sepOnly    []string
		sameTok    int
		testsToRun []int
	)

	add := func(cell, msg string, w Witness) { viols = append(viols, viol{cell, msg, w}) }

	for i := range files {
		f := &files[i]

		r.Eval(1)

		f1, err := render(f.src, "auto")
		if err != nil {
			if msg := compileOnly(f.src); msg != "" {
				rejected = append(rejected, f.rel+": "+clip(msg, 120))

				continue
			}

			out, status, ok := ego(scratch, "", "fmt", filepath.Join(repo, f.rel))
			if ok && status != 0 {
				add("fmt-fails:corpus:"+slug(err.Error()), f.rel+": the compiler accepts the file, ego fmt does not: "+clip(err.Error(), 200),
					Witness{Family: "corpus", Name: f.rel, File: f.rel, Kind: "fmt-fails", Mode: "auto", Detail: err.Error(), Confirmed: "`ego fmt` exits " + fmt.Sprint(status) + ": " + clip(strings.TrimSpace(out), 200)})
			}

			continue
		}

		f.f1 = f1

		r.Distinct(f.src)

		if f2, err := render(f1, "auto"); err != nil || f2 != f1 {
			d := "second pass differs: "
			if err != nil {
				d = "formatting the formatted file fails: " + err.Error()
			} else {
				d += firstDiff(f1, f2)
			}

			diag := "second-pass-fails"
			if err == nil {
				diag = driftKind(f1, f2)
			}

			add("not-idempotent:corpus:"+diag, f.rel+": "+clip(d, 250), Witness{Family: "corpus", Name: f.rel, File: f.rel, Kind: "not-idempotent", Mode: "auto", Detail: d, Confirmed: "in-process parse+format, the code behind `ego fmt`"})
		}

		if lost := lostComments(f.src, f1); len(lost) > 0 {
			d := fmt.Sprintf("%d comment(s) lost: %s", len(lost), clip(strings.Join(lost, " | "), 200))
			add("comment-lost:corpus", f.rel+": "+d, Witness{Family: "corpus", Name: f.rel, File: f.rel, Kind: "comment-lost", Mode: "auto", Detail: d, Confirmed: "in-process parse+format, the code behind `ego fmt`"})
		}

		if sameTokens(f.src, f1) {
			sameTok++

			continue
		}

		if f.kind == "test" {
			if observesLines(f.src) {
				skipped = append(skipped, f.rel)

				continue
			}

			if !r.Thorough() && sameTokensModuloSeparators(f.src, f1) {
				sepOnly = append(sepOnly, f.rel)

				continue
			}

			if err := os.WriteFile(filepath.Join(fmtTree, f.rel), []byte(f1), 0o644); err != nil {
				fatal(err.Error())
			}

			testsToRun = append(testsToRun, i)

			continue
		}

		// packages, services, examples cannot be run on their own: the formatted
		// file must at least still compile when the original does
		if msg := compileOnly(f.src); msg == "" {
			if msg2 := compileOnly(f1); msg2 != "" {
				add("changes-program:corpus:"+slug(msg2), f.rel+": the original compiles, the formatted file does not: "+clip(msg2, 200),
					Witness{Family: "corpus", Name: f.rel, File: f.rel, Kind: "changes-program", Mode: "auto", Formatted: f1, Detail: msg2, Confirmed: "compiler.Compile in-process on both texts"})

				continue
			}
		}

		unjudged = append(unjudged, f.rel)
	}

	// run the test files, original and formatted, through the real `ego test`
	n := 8
	if len(testsToRun) < 2*n {
		n = (len(testsToRun) + 1) / 2
	}

	if n < 1 {
		n = 1
	}

	poolO, err := egobatch.NewPool(origTree, n)
	if err != nil {
		fatal(err.Error())
	}

	poolF, err := egobatch.NewPool(fmtTree, n)
	if err != nil {
		fatal(err.Error())
	}

	type pair struct{ o, f egobatch.Result }

	results := make([]pair, len(testsToRun))

	var wg sync.WaitGroup

	sem := make(chan struct{}, 2*n)

	for k, i := range testsToRun {
		wg.Add(2)

		go func(k, i int) {
			defer wg.Done()

			sem <- struct{}{}

			defer func() { <-sem }()

			results[k].o, _ = poolO.Run("test", files[i].rel)
		}(k, i)

		go func(k, i int) {
			defer wg.Done()

			sem <- struct{}{}

			defer func() { <-sem }()

			results[k].f, _ = poolF.Run("test", files[i].rel)
		}(k, i)
	}

	wg.Wait()
	poolO.Close()
	poolF.Close()

	ran, differ, flaky := 0, 0, 0

	// files whose reports differ are re-judged twice in fresh processes; a file
	// whose own report is not stable is not judged
	type fresh struct {
		ro, rf [2]string
		ok     bool
	}

	again := map[int]*fresh{}

	var fwg sync.WaitGroup

	for k, i := range testsToRun {
		f := files[i]
		o, fm := results[k].o, results[k].f

		if o.Died || fm.Died {
			r.Capped("ego test did not finish for " + f.rel)

			continue
		}

		ran++

		if testReport(o.Out) == testReport(fm.Out) {
			continue
		}

		fr := &fresh{ok: true}
		fr.ro[0], fr.rf[0] = testReport(o.Out), testReport(fm.Out)
		again[i] = fr

		var mu sync.Mutex

		for t := 1; t < 2; t++ {
			for _, side := range []bool{false, true} {
				fwg.Add(1)

				go func(t int, side bool) {
					defer fwg.Done()

					tree := origTree
					if side {
						tree = fmtTree
					}

					out, _, ok := egoIn(tree, "test", f.rel)

					mu.Lock()
					defer mu.Unlock()

					if !ok {
						fr.ok = false
					}

					if side {
						fr.rf[t] = testReport(out)
					} else {
						fr.ro[t] = testReport(out)
					}
				}(t, side)
			}
		}
	}

	fwg.Wait()

	for _, i := range testsToRun {
		fr := again[i]
		if fr == nil {
			continue
		}

		f := files[i]

		if !fr.ok || fr.ro[0] != fr.ro[1] || fr.rf[0] != fr.rf[1] {
			flaky++

			if os.Getenv("VERIF_C05_CENSUS") != "" {
				fmt.Printf("c05: unstable %s\n--- original, batch worker\n%s\n--- original, fresh\n%s\n--- formatted, batch worker\n%s\n--- formatted, fresh\n%s\n", f.rel, fr.ro[0], fr.ro[1], fr.rf[0], fr.rf[1])
			}

			continue
		}

		if fr.ro[0] == fr.rf[0] {
			continue
		}

		differ++

		line := firstReportDiff(fr.ro[0], fr.rf[0])
		add("changes-program:corpus:"+slug(fileInMsg.ReplaceAllString(strings.TrimPrefix(line, "Error:"), "")), f.rel+": `ego test` reports differently for the formatted file: "+clip(line, 200),
			Witness{Family: "corpus", Name: f.rel, File: f.rel, Kind: "changes-program", Mode: "auto", Formatted: f.f1, Detail: line,
				Confirmed: "`ego test` of the original in a batch worker and in a fresh process agree with each other, the two runs of the formatted file agree with each other, and the two differ"})
	}

	sort.Slice(viols, func(a, b int) bool { return viols[a].w.Name < viols[b].w.Name })

	for _, v := range viols {
		v.w.Cell = v.cell
		r.Violation(v.cell, len(v.w.Name), v.w, v.msg)
	}

	fmt.Printf("c05: corpus files=%d rejected-by-compiler=%d same-tokens=%d separator-only(not run in quick)=%d tests-run=%d differ=%d unstable=%d skipped-line-observers=%d unjudged-behaviour=%d\n",
		len(files), len(rejected), sameTok, len(sepOnly), ran, differ, flaky, len(skipped), len(unjudged))

	r.Set("corpus_files", len(files))
	r.Set("corpus_rejected_by_compiler", rejected)
	r.Set("corpus_formatted_with_same_tokens", sameTok)
	r.Set("corpus_test_files_run_original_and_formatted", ran)
	r.Set("corpus_test_files_with_unstable_report", flaky)
	r.Set("corpus_test_files_differing_only_in_separators_not_run_in_quick_tier", sepOnly)
	r.Set("corpus_skipped_observe_own_line_numbers", skipped)
	r.Set("corpus_behaviour_not_judged_compile_only", unjudged)
	r.Sample(map[string]any{"name": "corpus/" + files[0].rel, "source": clip(files[0].src, 400)})
}

// egoIn runs the plain binary with dir as working directory.
func egoIn(dir string, args ...string) (string, int, bool) {
	return ego(dir, "", args...)
}

func replay(r *report.R, scratch string) {
	var w Witness

	if err := report.LoadReplay(r.Replay, &w); err != nil {
		fatal("cannot load the replay file: " + err.Error())
	}

	r.Rule("replay of one recorded witness")
	r.Eval(1)
	r.Distinct("replay")
	r.Distinct(w.Name)
	r.Sample(w.Name)

	if w.Family == "corpus" {
		corpus(r, scratch)
		r.Finish()

		return
	}

	res := judgeAll(scratch, []Job{{Src: w.Source, Frag: w.Fragment}})

	fs := res[0].Findings
	if strings.Contains(res[0].Died, "run-formatted") {
		fs = append(fs, diedFinding(res[0]))
	}

	for _, f := range fs {
		if f.Kind != w.Kind {
			continue
		}

		if ok, how := confirm(scratch, w.Source, w.Fragment, f); ok {
			w.Confirmed = how
			r.Violation(w.Cell, 1, w, w.Name+": "+f.Detail)

			break
		}
	}

	r.Finish()
}

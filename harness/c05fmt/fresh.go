package main

import (
	"bytes"
	"context"
	"fmt"
	"os"
	"os/exec"
	"path/filepath"
	"strings"
	"sync/atomic"
	"time"
)

var freshSeq atomic.Int64

var freshSem = make(chan struct{}, 6)

// ego runs the plain binary in a new process with its own HOME. stdin may be
// "" (none) or a file name. The boolean is false when the process could not
// be run to its end (watchdog) - never a verdict.
func ego(scratch, stdin string, args ...string) (out string, status int, ok bool) {
	freshSem <- struct{}{}

	defer func() { <-freshSem }()

	bin := os.Getenv("VERIF_EGO")
	if bin == "" {
		fatal("VERIF_EGO is not set (the check config needs \"ego\": true)")
	}

	home := filepath.Join(scratch, fmt.Sprintf("fhome%d", freshSeq.Add(1)))
	_ = os.MkdirAll(home, 0o755)

	defer os.RemoveAll(home)

	ctx, cancel := context.WithTimeout(context.Background(), 240*time.Second)
	defer cancel()

	cmd := exec.CommandContext(ctx, bin, args...)
	cmd.Env = append(os.Environ(), "HOME="+home)
	cmd.Dir = scratch

	if stdin != "" {
		f, err := os.Open(stdin)
		if err != nil {
			fatal(err.Error())
		}

		defer f.Close()

		cmd.Stdin = f
	}

	var buf bytes.Buffer

	cmd.Stdout = &buf
	cmd.Stderr = &buf

	err := cmd.Run()
	if ctx.Err() != nil {
		return buf.String(), -1, false
	}

	if err != nil {
		if ee, isExit := err.(*exec.ExitError); isExit {
			return buf.String(), ee.ExitCode(), true
		}

		return buf.String(), -1, false
	}

	return buf.String(), 0, true
}

func freshRun(scratch, file string, frag bool) (string, bool) {
	if frag {
		out, _, ok := ego(scratch, file, "run")

		return out, ok
	}

	out, _, ok := ego(scratch, "", "run", file)

	return out, ok
}

func fmtArgs(mode, file string) []string {
	switch mode {
	case "program":
		return []string{"fmt", "--program", file}
	case "fragment":
		return []string{"fmt", "--fragment", file}
	}

	return []string{"fmt", file}
}

const compileFailed = "Error: terminated with errors"

// confirm re-judges one finding with the real command line in fresh
// processes: `ego fmt` on the file, `ego run` of the original and of the
// formatted file.
func confirm(scratch, src string, frag bool, f Finding) (bool, string) {
	dir := filepath.Join(scratch, fmt.Sprintf("confirm%d", freshSeq.Add(1)))
	_ = os.MkdirAll(dir, 0o755)

	defer os.RemoveAll(dir)

	// the same file name for both texts: messages name the file
	origDir, fmtDir := filepath.Join(dir, "o"), filepath.Join(dir, "f")
	_ = os.MkdirAll(origDir, 0o755)
	_ = os.MkdirAll(fmtDir, 0o755)

	orig := filepath.Join(origDir, "p.ego")
	if err := os.WriteFile(orig, []byte(src), 0o644); err != nil {
		fatal(err.Error())
	}

	origOut, ok := freshRun(scratch, orig, frag)
	if !ok {
		return false, "the original did not finish in a fresh process"
	}

	if strings.Contains(origOut, compileFailed) {
		return false, "a fresh `ego run` does not accept the original: " + clip(origOut, 200)
	}

	f1, status, ok := ego(scratch, "", fmtArgs(f.Mode, orig)...)
	if !ok {
		return false, "ego fmt did not finish"
	}

	if f.Kind == "fmt-fails" {
		if status != 0 {
			return true, "`ego " + strings.Join(fmtArgs(f.Mode, "p.ego"), " ") + "` exits " + fmt.Sprint(status) + ": " + clip(strings.TrimSpace(f1), 200)
		}

		return false, "ego fmt succeeds in a fresh process"
	}

	if status != 0 {
		return false, "ego fmt fails in a fresh process: " + clip(f1, 200)
	}

	formatted := filepath.Join(fmtDir, "p.ego")
	if err := os.WriteFile(formatted, []byte(f1), 0o644); err != nil {
		fatal(err.Error())
	}

	if f.Diag == "does-not-terminate" {
		// the verdict is the VM's instruction count in the judging worker (the
		// original ended, the formatted text ran past the budget); what a fresh
		// process adds is that `ego fmt` really prints that text
		if strings.TrimRight(f1, "\n") == strings.TrimRight(f.Fmt, "\n") {
			return true, "`ego fmt` prints the text that ran past " + fmt.Sprint(runawayBudget) + " instructions; the original ends"
		}

		return false, "a fresh ego fmt prints a different text"
	}

	switch f.Kind {
	case "comment-lost":
		if lost := lostComments(src, f1); len(lost) > 0 {
			return true, fmt.Sprintf("`ego fmt` output lacks %d comment(s): %s", len(lost), clip(strings.Join(lost, " | "), 120))
		}

		return false, "all comments present in the output of a fresh ego fmt"
	case "not-idempotent":
		f2, status2, ok := ego(scratch, "", fmtArgs(f.Mode, formatted)...)
		if !ok {
			return false, "ego fmt did not finish"
		}

		if status2 != 0 {
			return true, "`ego fmt` of its own output exits " + fmt.Sprint(status2) + ": " + clip(strings.TrimSpace(f2), 200)
		}

		if f2 != f1 {
			return true, "`ego fmt` of its own output differs: " + firstDiff(f1, f2)
		}

		return false, "second pass equals first pass in fresh processes"
	case "changes-program":
		fmtOut, ok := freshRun(scratch, formatted, frag)
		if !ok {
			return false, "the formatted program did not finish in a fresh process"
		}

		if normOut(fmtOut) != normOut(origOut) {
			return true, fmt.Sprintf("`ego run` original: %q; `ego run` of `ego fmt` output: %q", clip(origOut, 200), clip(fmtOut, 200))
		}

		return false, "same output in fresh processes"
	}

	return false, "unknown kind"
}

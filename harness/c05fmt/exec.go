package main

import (
	"fmt"
	"sync"

	"github.com/tucats/ego/internal/builtins"
	"github.com/tucats/ego/internal/cli/settings"
	"github.com/tucats/ego/internal/defs"
	"github.com/tucats/ego/internal/errors"
	"github.com/tucats/ego/internal/language/bytecode"
	"github.com/tucats/ego/internal/language/compiler"
	"github.com/tucats/ego/internal/language/symbols"
	"github.com/tucats/ego/internal/language/tokenizer"
	"github.com/tucats/ego/internal/runtime/profile"
)

var setupOnce sync.Once

func setup() {
	setupOnce.Do(func() {
		_ = profile.InitProfileDefaults(profile.RuntimeDefaults)
		bytecode.GlobalCacheEnabled = true
		symbols.SerializeTableAccess = false

		builtins.AddBuiltins(&symbols.RootSymbolTable)
		symbols.RootSymbolTable.SetAlways(defs.ExtensionsVariable, settings.GetBool(defs.ExtensionsEnabledSetting))
	})
}

// run compiles and executes one program the way `ego run file` does and
// returns what it printed plus the error that ended it.
func run(src string) (out string) {
	var ctx *bytecode.Context

	defer func() {
		if r := recover(); r != nil {
			out += fmt.Sprintf("\nGO-PANIC: %v", r)
		}
	}()

	st := symbols.NewSymbolTable("file verif.ego").Shared(true)
	st.SetAlways(defs.TypeCheckingVariable, defs.NoTypeEnforcement)
	st.SetAlways(defs.ModeVariable, "run")

	comp := compiler.New("run").
		SetNormalization(settings.GetBool(defs.CaseNormalizedSetting)).
		SetExitEnabled(false).
		SetRoot(&symbols.RootSymbolTable).
		SetInteractive(false)

	t := tokenizer.New(src+"\n@entrypoint main", true)

	comp.Fragment(true)

	b, err := comp.Compile("main 'verif.ego'", t)
	if !errors.Nil(err) {
		return "COMPILE: " + err.Error()
	}

	if b == nil {
		return "COMPILE: no code"
	}

	t.Close()

	ctx = bytecode.NewContext(st, b).SetTokenizer(t)
	ctx.EnableConsoleOutput(false)

	err = ctx.Run()
	if errors.Equals(err, errors.ErrStop) {
		err = nil
	}

	out = ctx.GetOutput()
	if err != nil {
		out += "\nRUN: " + err.Error()
	}

	_, _ = comp.Close()

	return out
}

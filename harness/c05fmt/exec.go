package main

import (
	"bufio"
	"encoding/json"
	"fmt"
	"os"
	"regexp"
	"strings"
	"sync"
	"sync/atomic"
	"time"

	"github.com/tucats/ego/internal/builtins"
	"github.com/tucats/ego/internal/cli/settings"
	"github.com/tucats/ego/internal/defs"
	"github.com/tucats/ego/internal/errors"
	"github.com/tucats/ego/internal/language/bytecode"
	"github.com/tucats/ego/internal/language/compiler"
	"github.com/tucats/ego/internal/language/parse"
	"github.com/tucats/ego/internal/language/parse/ast"
	"github.com/tucats/ego/internal/language/parse/format"
	"github.com/tucats/ego/internal/language/symbols"
	"github.com/tucats/ego/internal/language/tokenizer"
	"github.com/tucats/ego/internal/runtime/profile"
)

var setupOnce sync.Once

func setup() {
	setupOnce.Do(func() {
		_ = profile.InitProfileDefaults(profile.RuntimeDefaults)
		bytecode.GlobalCacheEnabled = true
		symbols.SerializeTableAccess = false

		builtins.AddBuiltins(&symbols.RootSymbolTable)
		symbols.RootSymbolTable.SetAlways(defs.ExtensionsVariable, false)
	})
}

const (
	compilePrefix = "COMPILE: "
	runPrefix     = "\nRUN: "
)

// runText compiles and executes one source text in this process and returns
// what it printed followed by the error that ended it. A program (frag=false)
// is handled the way `ego run file` handles a named file (the text plus
// "@entrypoint main", non-interactive compiler); a fragment the way
// `ego run` handles a piped program (interactive compiler, "@line 1;" in
// front, no entry point). The result starts with COMPILE: when the compiler
// does not accept the text.
func runText(src string, frag bool) (out string) {
	var ctx *bytecode.Context

	defer func() {
		if r := recover(); r != nil {
			if ctx != nil {
				out = ctx.GetOutput()
			}

			out += fmt.Sprintf("\nGO-PANIC: %v", r)
		}
	}()

	name := "file verif.ego"
	label := "main 'verif.ego'"
	text := src + "\n@entrypoint main"

	if frag {
		name = "file <stdin>"
		label = "main '<stdin>'"
		text = "@line 1;\n" + src
	}

	st := symbols.NewSymbolTable(name).Shared(true)
	st.SetAlways(defs.TypeCheckingVariable, defs.NoTypeEnforcement)

	if frag {
		st.SetAlways(defs.ModeVariable, "interactive")
	} else {
		st.SetAlways(defs.ModeVariable, "run")
	}

	comp := compiler.New("run").
		SetNormalization(settings.GetBool(defs.CaseNormalizedSetting)).
		SetExitEnabled(false).
		SetRoot(&symbols.RootSymbolTable).
		SetInteractive(frag)

	t := tokenizer.New(text, true)

	comp.Fragment(true)

	b, err := comp.Compile(label, t)
	if !errors.Nil(err) {
		return compilePrefix + err.Error()
	}

	if b == nil {
		return compilePrefix + "no code"
	}

	t.Close()

	ctx = bytecode.NewContext(st, b).SetTokenizer(t)
	ctx.EnableConsoleOutput(false)

	err = ctx.Run()
	if errors.Equals(err, errors.ErrStop) {
		err = nil
	}

	out = ctx.GetOutput()
	if err != nil {
		out += runPrefix + err.Error()
	}

	_, _ = comp.Close()

	return out
}

// render is `ego fmt` as a function: mode "program" (--program), "fragment"
// (--fragment) or "auto" (no flag).
func render(src, mode string) (out string, err error) {
	defer func() {
		if r := recover(); r != nil {
			err = fmt.Errorf("GO-PANIC in the formatter: %v", r)
		}
	}()

	// the body of commands.renderSource / parseSource (internal/commands/fmt.go)
	var file *ast.File

	switch mode {
	case "fragment":
		file, err = parse.ParseStatements(src)
	case "program":
		file, err = parse.ParseProgram(src)
	default:
		file, err = parse.ParseAuto(src)
	}

	if err != nil {
		return "", err
	}

	return format.FileWithOptions(file, format.Options{})
}

// Job is one source text to judge.
type Job struct {
	ID   int    `json:"id"`
	Src  string `json:"src"`
	Frag bool   `json:"frag"`
}

// Finding is one way a text violates the statement.
type Finding struct {
	Kind   string `json:"kind"` // fmt-fails | changes-program | not-idempotent | comment-lost
	Mode   string `json:"mode"`
	Detail string `json:"detail"`
	Diag   string `json:"diagnosis"` // symptom class, names the cell where the generator has no structure to name it
	Fmt    string `json:"formatted,omitempty"`
}

// Res is the judgement of one text.
type Res struct {
	ID         int       `json:"id"`
	Accepted   bool      `json:"accepted"`
	Reject     string    `json:"reject,omitempty"`
	Changed    bool      `json:"changed"` // the formatter changed the text
	Runs       int       `json:"runs"`
	SameTokens bool      `json:"same_tokens,omitempty"`
	Findings   []Finding `json:"findings,omitempty"`
	Died       string    `json:"died,omitempty"` // the worker did not survive this text (phase)
	DiedFmt    string    `json:"died_formatted,omitempty"`
	DiedMode   string    `json:"died_mode,omitempty"`
}

func clip(s string, n int) string {
	if len(s) > n {
		return s[:n] + "..."
	}

	return s
}

var (
	phase    atomic.Value // string: what the worker is doing right now
	lastFmt  atomic.Value // string: the formatted text being run
	lastMode atomic.Value
)

// judge decides one text against the statement of C05.
func judge(j Job) Res {
	res := Res{ID: j.ID}

	phase.Store("run-original")

	orig := runText(j.Src, j.Frag)
	res.Runs++

	if strings.HasPrefix(orig, compilePrefix) {
		res.Reject = clip(orig, 200)

		return res
	}

	res.Accepted = true

	modes := []string{"program", "auto"}
	if j.Frag {
		modes = []string{"fragment", "auto"}
	}

	seen := map[string]bool{}

	for _, mode := range modes {
		phase.Store("format")

		f1, err := render(j.Src, mode)
		if err != nil {
			res.Findings = append(res.Findings, Finding{Kind: "fmt-fails", Mode: mode, Detail: clip(err.Error(), 300), Diag: slug(posInMsg.ReplaceAllString(err.Error(), ""))})

			continue
		}

		if seen[f1] {
			continue
		}

		seen[f1] = true

		if f1 != j.Src {
			res.Changed = true
		}

		// idempotence
		f2, err := render(f1, mode)
		if err != nil {
			res.Findings = append(res.Findings, Finding{Kind: "not-idempotent", Mode: mode, Fmt: f1, Diag: "second-pass-fails",
				Detail: "formatting the formatted text fails: " + clip(err.Error(), 300)})
		} else if f2 != f1 {
			res.Findings = append(res.Findings, Finding{Kind: "not-idempotent", Mode: mode, Fmt: f1, Diag: driftKind(f1, f2),
				Detail: "second pass gives a different text: " + clip(firstDiff(f1, f2), 300)})
		}

		// comments
		if lost := lostComments(j.Src, f1); len(lost) > 0 {
			res.Findings = append(res.Findings, Finding{Kind: "comment-lost", Mode: mode, Fmt: f1, Diag: "lost",
				Detail: fmt.Sprintf("%d comment(s) of the original are not comments of the output: %s", len(lost), clip(strings.Join(lost, " | "), 200))})
		}

		// behaviour: the compiler reads the token stream only; when the formatted
		// text has the same tokens (white space and line breaks apart) it is the
		// same program
		if f1 != j.Src && sameTokens(j.Src, f1) {
			res.SameTokens = true
		} else if f1 != j.Src {
			lastFmt.Store(f1)
			lastMode.Store(mode)
			phase.Store("run-formatted")

			got := runText(f1, j.Frag)
			res.Runs++

			if normOut(got) != normOut(orig) {
				d := "original prints " + fmt.Sprintf("%q", clip(orig, 300)) + ", formatted prints " + fmt.Sprintf("%q", clip(got, 300))
				diag := "output-differs"

				if strings.HasPrefix(got, compilePrefix) {
					d = "the formatted text does not compile: " + clip(got, 300)
					diag = "formatted-does-not-compile"
				}

				res.Findings = append(res.Findings, Finding{Kind: "changes-program", Mode: mode, Fmt: f1, Detail: d, Diag: diag})
			}
		}
	}

	phase.Store("idle")

	return res
}

// sameTokens reports whether two texts give ego's tokenizer the same token
// sequence (class and spelling; positions ignored).
func sameTokens(a, b string) bool {
	ta, tb := tokenizer.New(a, true), tokenizer.New(b, true)
	if len(ta.Tokens) != len(tb.Tokens) {
		return false
	}

	for i := range ta.Tokens {
		if ta.Tokens[i].Spelling() != tb.Tokens[i].Spelling() || ta.Tokens[i].Class() != tb.Tokens[i].Class() {
			return false
		}
	}

	return true
}

var posInMsg = regexp.MustCompile(`at line [0-9]+(:[0-9]+)?,? ?`)

// driftKind says how the second formatting pass differs from the first.
func driftKind(f1, f2 string) string {
	strip := func(s string, nl bool) string {
		var b strings.Builder

		for _, c := range s {
			if c == ' ' || c == '\t' || nl && c == '\n' {
				continue
			}

			b.WriteRune(c)
		}

		return b.String()
	}

	switch {
	case strip(f1, false) == strip(f2, false):
		return "indentation-drifts"
	case strip(f1, true) == strip(f2, true):
		return "line-breaks-drift"
	}

	return "text-changes"
}

func firstDiff(a, b string) string {
	la, lb := strings.Split(a, "\n"), strings.Split(b, "\n")
	for i := 0; i < len(la) || i < len(lb); i++ {
		x, y := "<none>", "<none>"
		if i < len(la) {
			x = la[i]
		}

		if i < len(lb) {
			y = lb[i]
		}

		if x != y {
			return fmt.Sprintf("line %d: %q vs %q", i+1, x, y)
		}
	}

	return "texts differ"
}

// instruction budget of one text (original + formatted runs); the generated
// programs execute a few thousand instructions.
const runawayBudget = 30_000_000

// evalWorkerMain is the body of a judging worker process: jobs (JSON lines) on
// stdin, judgements on fd 3. A text whose runs exceed the instruction budget
// ends the worker with a "died" record naming the phase; the count is the
// VM's own instruction counter, not a clock.
func evalWorkerMain() {
	proto := os.NewFile(3, "proto")
	if proto == nil {
		os.Exit(4)
	}

	setup()

	enc := json.NewEncoder(proto)

	var (
		mu      sync.Mutex
		current atomic.Int64
		start   atomic.Int64
	)

	current.Store(-1)
	phase.Store("idle")

	go func() {
		for {
			time.Sleep(100 * time.Millisecond)

			id := current.Load()
			if id >= 0 && atomic.LoadInt64(&bytecode.InstructionsExecuted)-start.Load() > runawayBudget {
				mu.Lock()
				r := Res{ID: int(id), Accepted: true, Died: "more than " + fmt.Sprint(runawayBudget) + " instructions in phase " + phase.Load().(string)}
				if phase.Load().(string) == "run-formatted" {
					r.DiedFmt, _ = lastFmt.Load().(string)
					r.DiedMode, _ = lastMode.Load().(string)
				}

				_ = enc.Encode(r)
				os.Exit(3)
			}
		}
	}()

	sc := bufio.NewScanner(os.Stdin)
	sc.Buffer(make([]byte, 1<<16), 1<<24)

	for sc.Scan() {
		var j Job
		if err := json.Unmarshal(sc.Bytes(), &j); err != nil {
			os.Exit(4)
		}

		start.Store(atomic.LoadInt64(&bytecode.InstructionsExecuted))
		current.Store(int64(j.ID))

		r := judge(j)

		current.Store(-1)

		mu.Lock()
		err := enc.Encode(r)
		mu.Unlock()

		if err != nil {
			os.Exit(4)
		}
	}
}

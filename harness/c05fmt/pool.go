package main

import (
	"bufio"
	"encoding/json"
	"fmt"
	"io"
	"os"
	"os/exec"
	"path/filepath"
	"runtime"
	"sync"
	"time"
)

// evalProc is one judging worker process.
type evalProc struct {
	cmd *exec.Cmd
	in  io.WriteCloser
	w   *bufio.Writer
	sc  *bufio.Scanner
	pr  *os.File
}

func spawnEval(scratch string, id int) (*evalProc, error) {
	home := filepath.Join(scratch, fmt.Sprintf("ehome%d", id))
	_ = os.MkdirAll(home, 0o755)

	pr, pw, err := os.Pipe()
	if err != nil {
		return nil, err
	}

	null, _ := os.OpenFile(os.DevNull, os.O_WRONLY, 0)

	cmd := exec.Command(os.Args[0], "c05eval")
	cmd.Env = append(os.Environ(), "HOME="+home, "GOMAXPROCS=2")
	cmd.Dir = scratch
	cmd.Stdout = null
	cmd.Stderr = null
	cmd.ExtraFiles = []*os.File{pw}

	in, err := cmd.StdinPipe()
	if err != nil {
		return nil, err
	}

	if err := cmd.Start(); err != nil {
		return nil, err
	}

	_ = pw.Close()

	if null != nil {
		_ = null.Close()
	}

	sc := bufio.NewScanner(pr)
	sc.Buffer(make([]byte, 1<<16), 1<<24)

	return &evalProc{cmd: cmd, in: in, w: bufio.NewWriter(in), sc: sc, pr: pr}, nil
}

func (e *evalProc) stop() {
	_ = e.in.Close()
	_ = e.cmd.Process.Kill()
	_, _ = e.cmd.Process.Wait()
	_ = e.pr.Close()
}

// one sends a job and waits for its judgement; ok=false: the worker is gone
// or silent (a blocked program: the watchdog is a harness safety net, the job
// is then reported as cut, never as a verdict).
func (e *evalProc) one(j Job) (Res, bool) {
	b, _ := json.Marshal(j)

	if _, err := e.w.Write(append(b, '\n')); err != nil {
		return Res{}, false
	}

	if err := e.w.Flush(); err != nil {
		return Res{}, false
	}

	type answer struct {
		r  Res
		ok bool
	}

	ch := make(chan answer, 1)

	go func() {
		if !e.sc.Scan() {
			ch <- answer{}

			return
		}

		var r Res
		if json.Unmarshal(e.sc.Bytes(), &r) != nil || r.ID != j.ID {
			ch <- answer{}

			return
		}

		ch <- answer{r, true}
	}()

	select {
	case a := <-ch:
		return a.r, a.ok
	case <-time.After(jobWatchdog):
		return Res{ID: j.ID, Died: "no answer inside the harness watchdog (blocked program?)"}, true
	}
}

const jobWatchdog = 40 * time.Second

// judgeAll judges every job in worker processes and returns the judgements in
// job order. A job that kills its worker (instruction budget, crash) comes
// back with Died set.
func judgeAll(scratch string, jobs []Job) []Res {
	out := make([]Res, len(jobs))

	n := runtime.NumCPU()
	if n > 16 {
		n = 16
	}

	if n > len(jobs) {
		n = len(jobs)
	}

	if n < 1 {
		return out
	}

	var (
		mu   sync.Mutex
		next int
		wg   sync.WaitGroup
	)

	const chunk = 16

	for w := 0; w < n; w++ {
		wg.Add(1)

		go func(w int) {
			defer wg.Done()

			var p *evalProc

			defer func() {
				if p != nil {
					_ = p.in.Close()
					_ = p.cmd.Wait()
					_ = p.pr.Close()
				}
			}()

			for {
				mu.Lock()
				lo := next
				next += chunk
				mu.Unlock()

				if lo >= len(jobs) {
					return
				}

				hi := lo + chunk
				if hi > len(jobs) {
					hi = len(jobs)
				}

				if lo%4096 == 0 && lo > 0 {
					fmt.Printf("c05: %d of %d texts judged\n", lo, len(jobs))
				}

				for i := lo; i < hi; i++ {
					if p == nil {
						var err error

						p, err = spawnEval(scratch, w)
						if err != nil {
							fatal("cannot start a judging worker: " + err.Error())
						}
					}

					jobs[i].ID = i

					r, ok := p.one(jobs[i])
					if ok && r.Died == "" {
						out[i] = r

						continue
					}

					if !ok {
						r = Res{ID: i, Died: "worker process ended without an answer"}
					}

					out[i] = r

					p.stop()
					p = nil
				}
			}
		}(w)
	}

	wg.Wait()

	return out
}

// C05: `ego fmt` keeps programs and comments intact.
//
// Bounded-exhaustive: every expression production of the formatter's grammar
// in every header / statement position, every statement form (alone and in
// ordered pairs) in every block context, every top-level declaration form
// (alone and in ordered pairs), comments in every token gap of base programs,
// and the .ego corpus of the repository are formatted by the code behind
// `ego fmt`; the original and the formatted text are both compiled and run and
// must print the same; formatting must be idempotent and keep every comment.
package main

import (
	"fmt"
	"os"
	"sort"
	"strings"
	"sync"
	"time"

	"github.com/tucats/ego/internal/verifrt/egobatch"
	"github.com/tucats/ego/internal/verifrt/report"
)

func fatal(msg string) { report.Fatal("%s", msg) }

// Witness is the self-contained replay record of a violation.
type Witness struct {
	Family    string `json:"family"`
	Name      string `json:"name"`
	Fragment  bool   `json:"fragment"`
	Source    string `json:"source"`
	Kind      string `json:"kind"`
	Mode      string `json:"mode"`
	Formatted string `json:"formatted,omitempty"`
	Detail    string `json:"detail"`
	Cell      string `json:"cell"`
	Confirmed string `json:"confirmed_by_fresh_ego_process"`
	File      string `json:"file,omitempty"`
}

func main() {
	if len(os.Args) > 1 && os.Args[1] == "worker" {
		egobatch.WorkerMain()

		return
	}

	if len(os.Args) > 1 && os.Args[1] == "c05eval" {
		evalWorkerMain()

		return
	}

	r := report.New("exploration")
	scratch := os.Getenv("VERIF_SCRATCH")

	if scratch == "" {
		fatal("VERIF_SCRATCH is not set")
	}

	if r.Replay != "" {
		replay(r, scratch)

		return
	}

	thorough := r.Thorough()

	var items []item

	items = append(items, exprItems(thorough)...)
	items = append(items, stmtItems(thorough)...)
	items = append(items, declItems(thorough)...)
	items = append(items, commentItems(thorough)...)

	if only := os.Getenv("VERIF_C05_FAMILIES"); only != "" {
		var keep []item

		for _, it := range items {
			if strings.Contains(","+only+",", ","+it.family+",") {
				keep = append(keep, it)
			}
		}

		items = keep
	}

	count := map[string]int{}
	for _, it := range items {
		count[it.family]++
	}

	fmt.Printf("c05: texts per family: %v\n", count)

	if os.Getenv("VERIF_C05_COUNT") != "" {
		os.Exit(2)
	}

	jobs := make([]Job, len(items))
	for i, it := range items {
		jobs[i] = Job{ID: i, Src: it.src, Frag: it.frag}
	}

	fmt.Printf("c05: %d generated texts\n", len(jobs))

	t0 := time.Now()
	res := judgeAll(scratch, jobs)

	fmt.Printf("c05: generated texts judged in %.1fs\n", time.Since(t0).Seconds())

	t0 = time.Now()

	analyse(r, scratch, items, res)

	fmt.Printf("c05: cells confirmed in fresh processes in %.1fs\n", time.Since(t0).Seconds())

	t0 = time.Now()

	if os.Getenv("VERIF_C05_FAMILIES") == "" || strings.Contains(os.Getenv("VERIF_C05_FAMILIES"), "corpus") {
		corpus(r, scratch)
	}

	fmt.Printf("c05: corpus judged in %.1fs\n", time.Since(t0).Seconds())

	r.Rule("a case is one source text (generated: expression production x position, statement form or ordered pair x block context, " +
		"declaration form or ordered pair, base program + comments in token gaps, each as program and as fragment; corpus: one .ego file); " +
		"distinct = distinct source text that the compiler accepts")
	r.Assume("the in-process runner repeats what `ego run <file>` (programs) and `ego run` with a piped script (fragments) do; every reported witness is re-judged with the real `ego fmt` / `ego run` / `ego test` in fresh processes and dropped if it does not reproduce")
	r.Assume("comments of a text are found by Go's lexical rules (own scanner), compared after trimming each line")
	r.Assume("output is compared after replacing `line N[:M]` positions; programs that observe their own line numbers (runtime.Frames, @line) are outside the statement and skipped in the corpus")

	r.Finish()
}

// census prints acceptance and finding statistics per family (development aid
// and part of the run log).
func analyse(r *report.R, scratch string, items []item, res []Res) {
	byName := map[string]int{}
	for i, it := range items {
		byName[it.name] = i
	}

	type fam struct{ n, accepted, rejected, changed, died, runs int }

	fams := map[string]*fam{}
	rejects := map[string][]string{}

	// the finding that names a text's cell: the gravest one
	primary := func(fs []Finding) (Finding, bool) {
		for _, kind := range []string{"fmt-fails", "changes-program", "comment-lost", "not-idempotent"} {
			for _, f := range fs {
				if f.Kind == kind {
					return f, true
				}
			}
		}

		return Finding{}, false
	}

	kindCount := map[string]int{}

	type cand struct {
		i int
		f Finding
	}

	cells := map[string][]cand{}
	attributed := 0
	died := 0
	sameTok := 0

	for i, it := range items {
		fm := fams[it.family]
		if fm == nil {
			fm = &fam{}
			fams[it.family] = fm
		}

		fm.n++
		fm.runs += res[i].Runs

		r.Eval(1)

		if res[i].Died != "" {
			fm.died++
			died++

			if strings.Contains(res[i].Died, "run-formatted") {
				// the formatted program does not terminate inside the instruction budget, the original did
				f := diedFinding(res[i])
				cells["changes-program:"+it.cell] = append(cells["changes-program:"+it.cell], cand{i, f})
			} else {
				r.Capped("a judging worker did not survive " + it.name + ": " + res[i].Died)
			}

			continue
		}

		if !res[i].Accepted {
			fm.rejected++

			if len(rejects[it.family]) < 12 || os.Getenv("VERIF_C05_CENSUS") == "all" && (strings.Contains(it.name, "@body/program") || it.family == "decl" || strings.Contains(it.name, "@call-arg") || strings.Contains(it.name, "@define")) {
				rejects[it.family] = append(rejects[it.family], it.name+": "+res[i].Reject)
			}

			continue
		}

		fm.accepted++

		if it.nontriv {
			r.Distinct(it.src)
		}

		if res[i].Changed {
			fm.changed++
		}

		for _, f := range res[i].Findings {
			kindCount[f.Kind]++
		}

		if res[i].SameTokens {
			sameTok++
		}

		if f, bad := primary(res[i].Findings); bad {
			explained := false

			for _, ex := range it.explain {
				if j, ok := byName[ex]; ok && len(res[j].Findings) > 0 {
					explained = true

					break
				}
			}

			if explained {
				attributed++

				continue
			}

			key := f.Kind + ":" + it.cell
			if strings.HasPrefix(it.family, "comment") && it.family != "comment0" {
				// comments can stand anywhere: the symptom names the cell
				key = f.Kind + ":comment:" + f.Diag
			}

			cells[key] = append(cells[key], cand{i, f})
		}
	}

	for k, v := range kindCount {
		r.Add("findings_"+k, int64(v))
	}

	r.Add("formatted_text_has_the_same_tokens", int64(sameTok))

	names := make([]string, 0, len(fams))
	for k := range fams {
		names = append(names, k)
	}

	sort.Strings(names)

	for _, k := range names {
		f := fams[k]
		fmt.Printf("c05: family %-9s texts=%d accepted=%d rejected=%d changed-by-fmt=%d runs=%d died=%d\n", k, f.n, f.accepted, f.rejected, f.changed, f.runs, f.died)
		r.Add("texts_"+k, int64(f.n))
		r.Add("accepted_"+k, int64(f.accepted))
		r.Add("programs_run", int64(f.runs))
	}

	if os.Getenv("VERIF_C05_CENSUS") != "" {
		for _, k := range names {
			for _, s := range rejects[k] {
				fmt.Println("c05: rejected", s)
			}
		}
	}

	r.Add("findings_counted_under_a_smaller_text", int64(attributed))

	keys := make([]string, 0, len(cells))
	for k := range cells {
		keys = append(keys, k)
	}

	sort.Strings(keys)

	// confirm the smallest witnesses of every cell in fresh processes of the
	// real binary (cells in parallel, reported in key order)
	type confirmed struct {
		ok  bool
		c   cand
		how string
		log []string
	}

	results := make([]confirmed, len(keys))

	var wg sync.WaitGroup

	for k, key := range keys {
		cs := cells[key]

		sort.SliceStable(cs, func(a, b int) bool {
			if items[cs[a].i].size != items[cs[b].i].size {
				return items[cs[a].i].size < items[cs[b].i].size
			}

			return items[cs[a].i].name < items[cs[b].i].name
		})

		wg.Add(1)

		go func(k int, key string, cs []cand) {
			defer wg.Done()

			for t, c := range cs {
				if t >= 3 {
					break
				}

				it := items[c.i]
				ok, how := confirm(scratch, it.src, it.frag, c.f)

				results[k].log = append(results[k].log, fmt.Sprintf("c05: cell %s n=%d witness %s confirmed=%v (%s)\n      %s", key, len(cs), it.name, ok, how, c.f.Detail))

				if ok {
					results[k].ok, results[k].c, results[k].how = true, c, how

					return
				}
			}
		}(k, key, cs)
	}

	wg.Wait()

	for k, key := range keys {
		cs := cells[key]
		res := results[k]

		if os.Getenv("VERIF_C05_CENSUS") != "" {
			for _, l := range res.log {
				fmt.Println(l)
			}
		}

		r.Add("witnesses_not_reproduced_by_fresh_process", int64(len(res.log)-map[bool]int{true: 1}[res.ok]))

		if !res.ok {
			fmt.Printf("c05: cell %s (%d texts) not reproduced by fresh ego processes, not reported\n", key, len(cs))

			continue
		}

		it := items[res.c.i]
		w := Witness{Family: it.family, Name: it.name, Fragment: it.frag, Source: it.src, Kind: res.c.f.Kind, Mode: res.c.f.Mode,
			Formatted: res.c.f.Fmt, Detail: res.c.f.Detail, Confirmed: res.how, Cell: key}

		for range cs {
			r.Violation(key, it.size, w, it.name+": "+res.c.f.Detail)
		}
	}

	if len(items) > 0 {
		r.Sample(map[string]any{"name": items[0].name, "source": items[0].src})
		r.Sample(map[string]any{"name": items[len(items)/2].name, "source": items[len(items)/2].src})
		r.Sample(map[string]any{"name": items[len(items)-1].name, "source": items[len(items)-1].src})
	}
}

// diedFinding: the original ended, the formatted text ran past the
// instruction budget of the judging worker.
func diedFinding(res Res) Finding {
	return Finding{Kind: "changes-program", Mode: res.DiedMode, Fmt: res.DiedFmt, Diag: "does-not-terminate",
		Detail: "the original ends, the formatted text does not terminate: " + res.Died}
}

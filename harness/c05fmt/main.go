package main

import (
	"fmt"
	"os"
	"time"

	"github.com/tucats/ego/internal/verifrt/egobatch"
)

func main() {
	if len(os.Args) > 1 && os.Args[1] == "worker" {
		egobatch.WorkerMain()

		return
	}

	setup()

	src := "package main\nimport \"fmt\"\nfunc main() {\n    fmt.Println(\"hi\", 1+2)\n    print \"x\", 3\n    x := []int{1,2}\n    fmt.Println(x[5])\n}\n"
	for i := 0; i < 3; i++ {
		t0 := time.Now()
		out := run(src)
		fmt.Printf("%v %q\n", time.Since(t0), out)
	}

	t0 := time.Now()
	for i := 0; i < 200; i++ {
		run(src)
	}
	fmt.Println("200 runs", time.Since(t0))
	os.Exit(2)
}

package main

import (
	"sort"
	"strings"
)

// item is one generated source text with what the report needs to know about
// it: the cell of a violation found on it is kind + ":" + cell, unless one of
// its explainers (smaller texts of the same family) already shows the same
// kind of violation, in which case it is counted under that one's cell.
type item struct {
	family   string
	name     string
	cell     string
	explain  []string // names of smaller items whose failure explains this one's
	src      string
	frag     bool
	size     int
	nontriv  bool // counts as a distinct non-trivial case
	comments int
}

func form(frag bool) string {
	if frag {
		return "fragment"
	}

	return "program"
}

func build(decls, body string, frag bool) string {
	if frag {
		return fragment(decls, body)
	}

	return program(decls, body)
}

// plainPos is the plainest position of every expression type: an expression
// that is already mis-formatted there explains its failures elsewhere.
var plainPos = map[string]string{"int": "call-arg", "bool": "call-arg-bool", "str": "call-arg-str", "ints": "define-ints", "map": "define-map"}

func typeOf(prod string) string {
	for _, p := range productions {
		if p.name == prod {
			return p.typ
		}
	}

	return ""
}

// exprItems: every expression in every position of its type.
func exprItems(thorough bool) []item {
	var out []item

	d1 := depth1()

	for _, pos := range positions {
		for _, e := range d1 {
			if e.typ != pos.typ {
				continue
			}

			for _, frag := range []bool{false, true} {
				if frag && !thorough && !pos.quick && pos.name != plainPos[e.typ] {
					continue
				}

				var ex []string
				if pos.name != plainPos[e.typ] {
					ex = []string{"expr/" + e.name + "@" + plainPos[e.typ] + "/" + form(frag)}
				}

				out = append(out, item{
					family: "expr", name: "expr/" + e.name + "@" + pos.name + "/" + form(frag),
					cell: e.class + "@" + pos.class, explain: ex, src: build("", strings.ReplaceAll(pos.src, "§", e.src), frag), frag: frag,
					size: len(e.src) + len(pos.src), nontriv: true,
				})
			}
		}
	}

	// representatives: the first production of every (class, type)
	rep := map[string]bool{}
	seenClass := map[string]bool{}

	for _, p := range productions {
		if !seenClass[p.class+"/"+p.typ] {
			seenClass[p.class+"/"+p.typ] = true
			rep[p.name] = true
		}
	}

	d2 := depth2()

	for _, pos := range positions {
		for _, e := range d2 {
			if e.typ != pos.typ {
				continue
			}

			// quick: representative inner productions in the reduced position set;
			// thorough: every inner production in the reduced position set and the
			// representative ones everywhere
			if thorough {
				if !pos.quick && !(rep[e.parts[1]] && pos.class != "statement") {
					continue
				}
			} else if !pos.quick || !rep[e.parts[1]] {
				continue
			}

			for _, frag := range []bool{false, true} {
				// the expression printer does not depend on the file form: depth 2 as programs only
				if frag {
					continue
				}

				ex := []string{
					"expr/" + e.parts[0] + "@" + pos.name + "/" + form(frag),
					"expr/" + e.parts[0] + "@" + plainPos[e.typ] + "/" + form(frag),
					"expr/" + e.parts[1] + "@" + plainPos[typeOf(e.parts[1])] + "/" + form(frag),
				}

				// the same expression in the plain statement position of the depth-2 set
				if ref := map[string]string{"int": "define", "ints": "define-ints"}[e.typ]; ref != "" && ref != pos.name {
					ex = append(ex, "expr/"+e.name+"@"+ref+"/"+form(frag))
				}

				// the inner production in the positions of this position's class
				for _, p2 := range positions {
					if p2.class == pos.class {
						ex = append(ex, "expr/"+e.parts[1]+"@"+p2.name+"/"+form(frag))
					}
				}

				inner := ""

				for _, p := range productions {
					if p.name == e.parts[1] {
						inner = p.class
					}
				}

				out = append(out, item{
					family: "expr2", name: "expr/" + e.name + "@" + pos.name + "/" + form(frag),
					cell: e.class + "(" + inner + ")@" + pos.class, explain: ex,
					src: build("", strings.ReplaceAll(pos.src, "§", e.src), frag), frag: frag,
					size: 1000 + len(e.src) + len(pos.src), nontriv: true,
				})
			}
		}
	}

	return out
}

func seqBody(forms []stmtForm, ctx blockCtx) string {
	var b strings.Builder

	for i, f := range forms {
		b.WriteString(indent(slot(f.src, i+1), ctx.depth))
	}

	return strings.Replace(ctx.src, "«»", b.String(), 1)
}

// stmtItems: every statement form alone and every ordered pair of forms in
// the block contexts.
func stmtItems(thorough bool) []item {
	var out []item

	for _, ctx := range contexts {
		for _, f := range stmtForms {
			if f.loop && !ctx.loop {
				continue
			}

			for _, frag := range []bool{false, true} {
				out = append(out, item{
					family: "stmt", name: "stmt/" + f.name + "@" + ctx.name + "/" + form(frag),
					cell: "stmt-" + f.class + "@" + ctx.class, src: build("", seqBody([]stmtForm{f}, ctx), frag), frag: frag,
					size: len(f.src) + len(ctx.src), nontriv: true,
				})
			}
		}
	}

	// representatives: the first form of every class
	rep := map[string]bool{}
	seenClass := map[string]bool{}

	for _, f := range stmtForms {
		if !seenClass[f.class] {
			seenClass[f.class] = true
			rep[f.name] = true
		}
	}

	for _, extra := range []string{"define", "var", "if-else", "for3", "for-range", "return-values", "switch-fallthrough", "print-comma", "closure", "continue"} {
		rep[extra] = true
	}

	for _, ctx := range contexts {
		for _, f1 := range stmtForms {
			for _, f2 := range stmtForms {
				if (f1.loop || f2.loop) && !ctx.loop {
					continue
				}

				// quick: pairs of representative forms in the reduced context set;
				// thorough: all pairs there, representative pairs everywhere
				both := rep[f1.name] && rep[f2.name]

				if thorough {
					if !(ctx.name == "body" || ctx.name == "case-first") && !both {
						continue
					}
				} else if !ctx.quick || !both {
					continue
				}

				for _, frag := range []bool{false, true} {
					// statements at the top level of a file follow their own layout rules:
					// the fragment form matters most for the outermost context
					if frag && ctx.name != "body" {
						continue
					}

					out = append(out, item{
						family: "stmt2", name: "stmt/" + f1.name + "+" + f2.name + "@" + ctx.name + "/" + form(frag),
						cell:    "seq-" + f1.class + "+" + f2.class + "@" + ctx.class,
						explain: pairExplain(f1.name, f2.name, ctx.class),
						src:     build("", seqBody([]stmtForm{f1, f2}, ctx), frag), frag: frag,
						size: 1000 + len(f1.src) + len(f2.src) + len(ctx.src), nontriv: true,
					})
				}
			}
		}
	}

	return out
}

// declItems: every top-level declaration form alone and every ordered pair.
func declItems(thorough bool) []item {
	var out []item

	for _, d := range declForms {
		for _, frag := range []bool{false, true} {
			out = append(out, item{
				family: "decl", name: "decl/" + d.name + "/" + form(frag), cell: "decl-" + d.name,
				src: build("\n"+slot(d.decl, 1), slot(d.use, 1), frag), frag: frag, size: len(d.decl), nontriv: true,
			})
		}
	}

	repDecl := map[string]bool{}
	seenDecl := map[string]bool{}

	for _, d := range declForms {
		if !seenDecl[d.class] {
			seenDecl[d.class] = true
			repDecl[d.name] = true
		}
	}

	for _, d1 := range declForms {
		for _, d2 := range declForms {
			// quick: pairs inside one class and pairs of class representatives
			if !thorough && d1.class != d2.class && !(repDecl[d1.name] && repDecl[d2.name]) {
				continue
			}

			for _, frag := range []bool{false, true} {
				if frag && !thorough {
					continue
				}

				for _, blank := range []string{"\n", ""} {
					if blank == "" && !thorough && d1.class != d2.class {
						continue
					}

					tag := "+"
					if blank == "" {
						tag = "~"
					}

					out = append(out, item{
						family: "decl2", name: "decl/" + d1.name + tag + d2.name + "/" + form(frag),
						cell:    "decl-seq-" + d1.class + "+" + d2.class,
						explain: []string{"decl/" + d1.name + "/" + form(frag), "decl/" + d2.name + "/" + form(frag)},
						src:     build("\n"+slot(d1.decl, 1)+blank+slot(d2.decl, 2), slot(d1.use, 1)+slot(d2.use, 2), frag), frag: frag,
						size: 1000 + len(d1.decl) + len(d2.decl), nontriv: true,
					})
				}
			}
		}
	}

	return out
}

// commentItems: one comment in every gap of every base program in every form,
// and two comments in gaps at most `window` apart.
func commentItems(thorough bool) []item {
	var out []item

	window := 1
	if thorough {
		window = 3
	}

	for _, bp := range basePrograms {
		baseName := "comment/" + bp.name + "/base"
		out = append(out, item{family: "comment0", name: baseName, cell: "comment-base-" + bp.name, src: bp.src, frag: bp.frag, size: 1, nontriv: true})

		gaps := lexGaps(bp.src)

		type placed struct {
			g    int
			form string
			in   insertion
		}

		var singles []placed

		for gi, g := range gaps {
			for _, f := range commentForms {
				in, ok := insertAt(g, f, 1)
				if !ok {
					continue
				}

				singles = append(singles, placed{gi, f, in})

				out = append(out, item{
					family: "comment1", name: "comment/" + bp.name + "/" + f + "@" + itoa(gi),
					cell:    "comment-" + f + "@" + tokenClass(g.before) + "_" + tokenClass(g.after),
					explain: []string{baseName},
					src:     withInsertions(bp.src, []insertion{in}), frag: bp.frag, size: 100 + gi, nontriv: true, comments: 1,
				})
			}
		}

		for i, a := range singles {
			for j := i; j < len(singles); j++ {
				b := singles[j]
				if b.g-a.g > window {
					break
				}

				if i == j {
					continue
				}

				if !thorough && (a.form == "multiline-block-after" || b.form == "multiline-block-after" || a.form == "block-before" || b.form == "block-before") {
					continue
				}

				in2, _ := insertAt(gaps[b.g], b.form, 2)
				ins := []insertion{a.in, in2}

				sort.SliceStable(ins, func(x, y int) bool { return ins[x].at < ins[y].at })

				out = append(out, item{
					family: "comment2", name: "comment/" + bp.name + "/" + a.form + "@" + itoa(a.g) + "+" + b.form + "@" + itoa(b.g),
					cell: "comment-pair-" + a.form + "+" + b.form,
					explain: []string{
						baseName,
						"comment/" + bp.name + "/" + a.form + "@" + itoa(a.g),
						"comment/" + bp.name + "/" + b.form + "@" + itoa(b.g),
					},
					src: withInsertions(bp.src, ins), frag: bp.frag, size: 2000 + a.g, nontriv: true, comments: 2,
				})
			}
		}
	}

	return out
}

func itoa(i int) string {
	if i == 0 {
		return "0"
	}

	s := ""
	for ; i > 0; i /= 10 {
		s = string(rune('0'+i%10)) + s
	}

	return s
}

// pairExplain: a pair of statement forms is explained by either form failing
// alone in a context of the same class, as a program or as a fragment (a
// statement that is the last thing of a file can behave differently from one
// that is followed by another).
func pairExplain(f1, f2, class string) []string {
	var out []string

	for _, c := range contexts {
		if c.class != class {
			continue
		}

		for _, f := range []string{f1, f2} {
			out = append(out, "stmt/"+f+"@"+c.name+"/program", "stmt/"+f+"@"+c.name+"/fragment")
		}
	}

	return out
}

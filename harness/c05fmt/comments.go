package main

import (
	"fmt"
	"strings"
)

// Base programs of the comment family. They are written in the formatter's
// own layout and avoid the constructs the expression family shows to be
// mis-formatted, so that what fails here is about comments.
type baseProgram struct {
	name string
	frag bool
	src  string
}

var basePrograms = []baseProgram{
	{"flow", false, `@extensions true
package main

import "fmt"

func classify(v int) string {
    switch v {
    case 1:
        return "one"
    case 2, 3:
        fmt.Println("two-three")
        fallthrough
    default:
        return "many"
    }
}

func main() {
    total := 0
    list := []int{1, 2, 5}

    for i := 0; i < 3; i++ {
        if i == 1 {
            continue
        } else if i == 2 {
            total += 10
        } else {
            total = total + 1
        }
    }

    for _, v := range list {
        fmt.Println(classify(v))
    }

outer:
    for i := range list {
        for {
            if i > 0 {
                break outer
            }

            break
        }
    }

    fmt.Println(total)
}
`},
	{"decls", false, `@extensions true
package main

import (
    "fmt"
    "strings"
)

const (
    Low = 1
    High = "high"
)

var (
    counter int
    label = "lbl"
)

type Shape struct {
    w, h int
    name string
}

type Sizer interface {
    Area() int
}

func (s Shape) Area() int {
    return s.w * s.h
}

func (s *Shape) Grow(by int) {
    s.w += by
}

func join(sep string, parts ...string) (out string, n int) {
    out = strings.Join(parts, sep)
    n = len(parts)

    return out, n
}

func main() {
    sh := &Shape{w: 2, h: 3, name: "r"}
    sh.Grow(Low)
    text, n := join("-", "a", "b")
    fmt.Println(sh.Area(), text, n, High, counter, label)
}
`},
	{"exprs", false, `@extensions true
package main

import "fmt"

type P struct {
    x int
    tags []string
}

func apply(f func(int) int, v int) int {
    return f(v)
}

func main() {
    nums := []int{
        1,
        2,
    }
    byName := map[string]P{
        "a": {x: 1, tags: []string{"t"}},
    }
    var any interface{} = nums[0]
    r := apply(func(v int) int {
        return v * 2
    }, nums[1] + 1)
    fmt.Println(len(nums[1:]), byName["a"].x, any.(int), r, -r * (2 + 3), !(r > 2))
    fmt.Println("multi",
        float64(r) / 4.0)
}
`},
	{"ext", false, `@extensions true
package main

import "fmt"

func risky(v int) int {
    defer fmt.Println("deferred", v)

    if v > 1 {
        throw "too big"
    }

    return v
}

func main() {
    list := []int{4, 5}

    try {
        fmt.Println(risky(1))
        fmt.Println(risky(2))
    } catch (e) {
        print "caught ", e
    }

    size := if len(list) > 1 { "many" } else { "few" }
    last := ?list[9] : -1
    print size, last
    call risky(0)
}
`},
	{"frag", true, `@extensions true
import "fmt"

func double(v int) int {
    return v * 2
}

x := 3
y := []int{x, double(x)}

for i, v := range y {
    if v > 3 {
        fmt.Println("big", i, v)
    } else {
        fmt.Println("small", i, v)
    }
}

{
    z := x + 1
    fmt.Println(z)
}

switch x {
case 3:
    fmt.Println("three")
default:
    fmt.Println("other")
}
`},
}

// gap is a boundary between two tokens of a base program (or the start / end
// of the text): a comment can be put right after the token before it (p1) or
// right before the token after it (p2). nl says whether the two are on
// different lines.
type gap struct {
	p1, p2 int
	nl     bool
	ind    string // indentation of the line the next token starts on
	before string // token before the gap ("" at the start)
	after  string // token after the gap ("" at the end)
}

var multiOps = []string{"...", "<<=", ">>=", ":=", "==", "!=", "<=", ">=", "&&", "||", "<-", "++", "--", "+=", "-=", "*=", "/=", "<<", ">>"}

func isWord(c byte) bool {
	return c == '_' || c >= '0' && c <= '9' || c >= 'a' && c <= 'z' || c >= 'A' && c <= 'Z' || c >= 0x80
}

// lexGaps splits a base program into tokens (identifiers and numbers, string
// and rune literals, operators) and returns the gaps between them.
func lexGaps(src string) []gap {
	type tok struct{ lo, hi int }

	var toks []tok

	for i := 0; i < len(src); {
		c := src[i]

		switch {
		case c == ' ' || c == '\t' || c == '\n' || c == '\r':
			i++
		case c == '"' || c == '\'' || c == '`':
			j := i + 1
			for j < len(src) && src[j] != c {
				if src[j] == '\\' && c != '`' {
					j++
				}

				j++
			}

			toks = append(toks, tok{i, j + 1})
			i = j + 1
		case isWord(c):
			j := i
			for j < len(src) && (isWord(src[j]) || src[j] == '.' && j+1 < len(src) && src[j+1] >= '0' && src[j+1] <= '9' && src[i] >= '0' && src[i] <= '9') {
				j++
			}

			toks = append(toks, tok{i, j})
			i = j
		default:
			n := 1

			for _, op := range multiOps {
				if strings.HasPrefix(src[i:], op) {
					n = len(op)

					break
				}
			}

			toks = append(toks, tok{i, i + n})
			i += n
		}
	}

	lineIndent := func(at int) string {
		ls := strings.LastIndexByte(src[:at], '\n') + 1
		j := ls

		for j < len(src) && (src[j] == ' ' || src[j] == '\t') {
			j++
		}

		return src[ls:j]
	}

	var gaps []gap

	if len(toks) == 0 {
		return nil
	}

	gaps = append(gaps, gap{p1: 0, p2: toks[0].lo, nl: true, ind: "", after: src[toks[0].lo:toks[0].hi]})

	for k := 0; k+1 < len(toks); k++ {
		a, b := toks[k], toks[k+1]
		gaps = append(gaps, gap{
			p1: a.hi, p2: b.lo, nl: strings.Contains(src[a.hi:b.lo], "\n"), ind: lineIndent(b.lo),
			before: src[a.lo:a.hi], after: src[b.lo:b.hi],
		})
	}

	last := toks[len(toks)-1]
	gaps = append(gaps, gap{p1: last.hi, p2: len(src), nl: true, before: src[last.lo:last.hi]})

	return gaps
}

// The ways a comment is put into a gap.
var commentForms = []string{"block-after", "line-after", "block-before", "line-before", "multiline-block-after"}

type insertion struct {
	at   int
	text string
}

// insertAt renders comment number k in the given form at gap g; ok=false when
// the form coincides with another one at this gap.
func insertAt(g gap, form string, k int) (insertion, bool) {
	body := fmt.Sprintf("c%d", k)

	switch form {
	case "block-after":
		if g.p1 == 0 {
			return insertion{}, false
		}

		return insertion{g.p1, " /* " + body + " */"}, true
	case "line-after":
		if g.p1 == 0 {
			return insertion{}, false
		}

		if g.nl {
			return insertion{g.p1, " // " + body}, true
		}

		return insertion{g.p1, " // " + body + "\n" + g.ind + "    "}, true
	case "block-before":
		if !g.nl {
			return insertion{}, false
		}

		if g.after == "" {
			return insertion{g.p2, "/* " + body + " */\n"}, true
		}

		return insertion{g.p2, "/* " + body + " */ "}, true
	case "line-before":
		if !g.nl {
			return insertion{}, false
		}

		return insertion{g.p2, "// " + body + "\n" + g.ind}, true
	case "multiline-block-after":
		if g.p1 == 0 {
			return insertion{g.p2, "/*\n * " + body + "\n */\n"}, true
		}

		return insertion{g.p1, " /* " + body + "\n" + g.ind + "   more " + body + " */"}, true
	}

	return insertion{}, false
}

// withInsertions applies insertions (sorted by position, stable) to src.
func withInsertions(src string, ins []insertion) string {
	var b strings.Builder

	last := 0

	for _, in := range ins {
		b.WriteString(src[last:in.at])
		b.WriteString(in.text)
		last = in.at
	}

	b.WriteString(src[last:])

	return b.String()
}

func tokenClass(t string) string {
	switch {
	case t == "":
		return "edge"
	case t[0] == '"' || t[0] == '`' || t[0] == '\'' || t[0] >= '0' && t[0] <= '9':
		return "lit"
	case isWord(t[0]):
		switch t {
		case "package", "import", "func", "type", "struct", "interface", "const", "var", "return", "if", "else", "for",
			"range", "switch", "case", "default", "fallthrough", "break", "continue", "defer", "try", "catch", "throw",
			"print", "call", "map":
			return t
		}

		return "name"
	}

	return t
}

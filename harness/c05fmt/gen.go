package main

import (
	"fmt"
	"strings"
)

// ---------------------------------------------------------------------------
// The environment every generated program runs in. It is written in the
// formatter's own layout.
// ---------------------------------------------------------------------------

const envImports = `import (
    "fmt"
    "strings"
)
`

const envDecls = `type T struct {
    a int
    b string
}

func (t T) get() int {
    return t.a
}

func (t *T) set(v int) {
    t.a = v
}

func id(x int) int {
    return x
}

func add(x int, y int) int {
    return x + y
}

func sum(xs ...int) int {
    r := 0

    for _, x := range xs {
        r = r + x
    }

    return r
}

func two() (int, string) {
    return 1, "s"
}

func mk() []int {
    return []int{1, 2, 3}
}
`

const envVars = `a := 1
b := 2
s := "str"
xs := []int{1, 2, 3}
m := map[string]int{"k": 1}
t := T{a: 1, b: "x"}
p := &t
q := &a
f := func(x int) int {
    return x + 1
}
ok := true

var e interface{} = 1

n := 0
ch := make(chan, 16)

for i := 0; i < 8; i++ {
    ch <- i
}

fmt.Println(a, b, s, xs, m, t.get(), p.a, *q, f(1), ok, e, n, strings.ToUpper(s))
`

// The language extensions (print, try/catch, throw, if-expressions, ...) are
// off in a fresh `ego run`; every generated text switches them on the way the
// Ego test suite does.
const extensionsOn = "@extensions true\n"

func indent(s string, levels int) string {
	pad := strings.Repeat("    ", levels)
	lines := strings.Split(strings.TrimRight(s, "\n"), "\n")

	for i, l := range lines {
		if l != "" {
			lines[i] = pad + l
		}
	}

	return strings.Join(lines, "\n") + "\n"
}

// program wraps declarations and a main body as a complete program.
func program(decls, body string) string {
	return extensionsOn + "package main\n\n" + envImports + "\n" + envDecls + decls + "\nfunc main() {\n" + indent(envVars+body, 1) + "}\n"
}

// fragment is the same code as a statement fragment (no package, no main).
func fragment(decls, body string) string {
	return extensionsOn + envImports + "\n" + envDecls + decls + "\n" + envVars + body
}

// ---------------------------------------------------------------------------
// Expression productions
// ---------------------------------------------------------------------------

// A production is an expression form. Holes "§T" take an expression of type T
// (int, bool, str, ints, map); at depth 1 they are filled with the atom of the
// type, at depth 2 with every depth-1 expression of the type.
type production struct {
	name  string
	class string // root-cause class: names the cell of a violation
	typ   string
	src   string
}

var atoms = map[string]string{"int": "a", "bool": "ok", "str": "s", "ints": "xs", "map": "m"}

var productions = []production{
	// literals
	{"int-dec", "literal", "int", "7"},
	{"int-hex", "literal", "int", "0x1F"},
	{"int-oct", "literal", "int", "0o17"},
	{"int-bin", "literal", "int", "0b101"},
	{"int-sep", "literal", "int", "1_000"},
	{"int-rune", "literal-rune", "int", "int('a')"},
	{"int-rune-esc", "literal-rune", "int", `int('\n')`},
	{"int-float", "literal", "int", "int(2.5 * 2.0)"},
	{"int-exp", "literal", "int", "int(1e3)"},
	// names, parentheses, unary
	{"ident", "basic", "int", "a"},
	{"paren", "basic", "int", "(§int)"},
	{"paren2", "basic", "int", "((§int))"},
	{"neg", "unary", "int", "-§int"},
	{"neg-paren", "unary", "int", "-(§int + 1)"},
	{"neg-neg", "unary", "int", "- -§int"},
	{"deref", "unary", "int", "*q"},
	{"addr-deref", "unary", "int", "*&a"},
	// binary operators and precedence
	{"add", "binary", "int", "§int + b"},
	{"sub", "binary", "int", "§int - b"},
	{"mul", "binary", "int", "§int * b"},
	{"div", "binary", "int", "§int / b"},
	{"mod", "binary", "int", "§int % b"},
	{"or", "binary", "int", "§int | 6"},
	{"and", "binary", "int", "§int & 3"},
	{"xor", "binary", "int", "a ^ 5"},
	{"shl", "binary", "int", "§int << 2"},
	{"shr", "binary", "int", "§int >> 1"},
	{"prec-1", "precedence", "int", "§int + b * 3"},
	{"prec-2", "precedence", "int", "(§int + b) * 3"},
	{"prec-3", "precedence", "int", "9 - (§int - b)"},
	{"prec-4", "precedence", "int", "9 - §int - b"},
	{"prec-5", "precedence", "int", "12 / (§int * 2)"},
	{"prec-6", "precedence", "int", "12 / 2 * §int"},
	{"prec-7", "precedence", "int", "§int | b & 1"},
	{"prec-8", "precedence", "int", "1 << §int + 1"},
	{"prec-9", "precedence", "int", "-§int * -b"},
	{"prec-10", "precedence", "int", "8 - -§int"},
	// calls
	{"call", "call", "int", "id(§int)"},
	{"call-2", "call", "int", "add(§int, b)"},
	{"call-variadic", "call", "int", "sum(§int, 2, 3)"},
	{"call-spread", "call", "int", "sum(§ints...)"},
	{"call-empty", "call", "int", "sum()"},
	{"call-method", "call", "int", "t.get()"},
	{"call-ptr-method", "call", "int", "p.get()"},
	{"call-pkg", "call", "int", "strings.Index(§str, \"t\")"},
	{"call-len", "call", "int", "len(§ints)"},
	{"call-nested", "call", "int", "id(add(§int, id(b)))"},
	{"call-closure", "call", "int", "f(§int)"},
	{"call-trailing-comma", "call", "int", "add(§int, b,)"},
	// selectors, index, slice
	{"sel", "selector", "int", "t.a"},
	{"sel-ptr", "selector", "int", "p.a"},
	{"sel-deref", "selector", "int", "(*p).a"},
	{"index", "index", "int", "§ints[1]"},
	{"index-expr", "index", "int", "xs[§int - 1]"},
	{"index-map", "index", "int", "§map[\"k\"]"},
	{"index-call", "index", "int", "mk()[§int]"},
	{"slice-lo", "slice", "int", "len(§ints[1:])"},
	{"slice-hi", "slice", "int", "len(§ints[:§int])"},
	{"slice-lohi", "slice", "int", "len(xs[§int:2])"},
	{"slice-str", "slice", "int", "len(§str[1:2])"},
	{"slice-index", "slice", "int", "§ints[1:][0]"},
	// conversions, assertions
	{"cast-int", "cast", "int", "int(§int)"},
	{"cast-float", "cast", "int", "int(float64(§int) + 0.5)"},
	{"cast-string", "cast", "int", "len(string(§int + 64))"},
	{"cast-bytes", "cast", "int", "len([]byte(§str))"},
	{"assert", "type-assert", "int", "e.(int)"},
	{"assert-paren", "type-assert", "int", "(e).(int)"},
	// function literals
	{"funclit-call", "func-literal", "int", "func(x int) int {\n    return x * 2\n}(§int)"},
	{"funclit-1line", "func-literal", "int", "func(x int) int { return x * 2 }(§int)"},
	{"funclit-noarg", "func-literal", "int", "func() int { return §int }()"},
	{"funclit-2stmt", "func-literal", "int", "func(x int) int { y := x + 1; return y }(§int)"},
	// Ego extensions
	{"if-expr", "if-expr", "int", "if §int == 1 { 10 } else { 20 }"},
	{"if-expr-bool", "if-expr", "int", "if §bool { §int } else { 0 }"},
	{"optional", "optional-expr", "int", "?xs[§int + 7] : 9"},
	{"optional-ok", "optional-expr", "int", "?xs[0] : §int"},
	// composite literals reduced to an int
	{"slice-lit", "composite-literal", "int", "[]int{§int, 2}[0]"},
	{"slice-lit-idx", "composite-literal", "int", "[]int{1, 2, 3}[§int]"},
	{"slice-lit-len", "composite-literal", "int", "len([]int{§int})"},
	{"slice-lit-empty", "composite-literal", "int", "len([]int{})"},
	{"slice-lit-trailing", "composite-literal", "int", "[]int{§int, 2,}[0]"},
	{"slice-lit-multiline", "composite-literal", "int", "[]int{\n    §int,\n    2,\n}[0]"},
	{"str-slice-lit", "composite-literal", "int", "len([]string{\"x\", §str})"},
	{"map-lit", "composite-literal", "int", "map[string]int{\"k\": §int}[\"k\"]"},
	{"map-lit-empty", "composite-literal", "int", "len(map[string]int{})"},
	{"map-lit-intkey", "composite-literal", "int", "map[int]int{§int: 5}[§int]"},
	{"struct-lit-keyed", "composite-literal", "int", "T{a: §int, b: \"x\"}.a"},
	{"struct-lit-pos", "composite-literal", "int", "T{§int, \"x\"}.a"},
	{"struct-lit-method", "composite-literal", "int", "T{a: §int}.get()"},
	{"struct-lit-empty", "composite-literal", "int", "T{}.a"},
	{"struct-lit-addr", "composite-literal", "int", "(&T{a: §int}).a"},
	{"struct-lit-paren", "composite-literal", "int", "(T{a: §int}).a"},
	{"anon-struct-lit", "composite-literal", "int", "struct{ v int }{v: §int}.v"},
	{"nested-slice-lit", "composite-literal", "int", "[][]int{{§int}, {2, 3}}[0][0]"},
	{"nested-struct-lit", "composite-literal", "int", "[]T{{a: §int}, T{a: 2}}[0].a"},
	{"nested-map-lit", "composite-literal", "int", "map[string]T{\"k\": {a: §int}}[\"k\"].a"},
	{"nested-map-slice", "composite-literal", "int", "map[string][]int{\"k\": {§int, 2}}[\"k\"][0]"},
	{"array-lit", "array-literal", "int", "[§int, 2][0]"},
	{"array-lit-len", "array-literal", "int", "len([§int, 2, 3])"},
	{"make-slice", "call", "int", "len(make([]int, §int))"},
	{"append", "call", "int", "len(append(§ints, §int))"},

	// bool
	{"b-ident", "basic", "bool", "ok"},
	{"b-lit", "literal", "bool", "true"},
	{"b-not", "unary", "bool", "!§bool"},
	{"b-not-paren", "unary", "bool", "!(§int == 2)"},
	{"b-eq", "binary", "bool", "§int == 1"},
	{"b-ne", "binary", "bool", "§int != 2"},
	{"b-lt", "binary", "bool", "§int < 2"},
	{"b-le", "binary", "bool", "§int <= 1"},
	{"b-gt", "binary", "bool", "§int > 0"},
	{"b-ge", "binary", "bool", "§int >= 1"},
	{"b-and", "binary", "bool", "§bool && §int == 1"},
	{"b-or", "binary", "bool", "§int == 9 || §bool"},
	{"b-prec", "precedence", "bool", "§int == 9 || §bool && b == 2"},
	{"b-prec-paren", "precedence", "bool", "(§int == 9 || §bool) && b == 2"},
	{"b-nil", "binary", "bool", "p != nil"},
	{"b-str-eq", "binary", "bool", "§str == \"str\""},
	{"b-call", "call", "bool", "strings.HasPrefix(§str, \"s\")"},
	{"b-complit", "composite-literal", "bool", "T{a: §int}.a == 1"},
	{"b-slice-lit", "composite-literal", "bool", "[]bool{true, false}[0]"},
	{"b-complit-rhs", "composite-literal", "bool", "1 == T{a: §int}.a"},
	{"b-complit-len", "composite-literal", "bool", "len([]int{§int}) == 1"},

	// strings
	{"s-ident", "basic", "str", "s"},
	{"s-lit", "literal", "str", `"str"`},
	{"s-empty", "literal", "str", `""`},
	{"s-concat", "binary", "str", `§str + "x"`},
	{"s-esc-tab", "literal-string", "str", `"a\tb"`},
	{"s-esc-quote", "literal-string", "str", `"q\"q"`},
	{"s-esc-backslash", "literal-string", "str", `"b\\s"`},
	{"s-esc-newline", "literal-string", "str", `"n\nl"`},
	{"s-esc-cr", "literal-string-control", "str", `"c\rr"`},
	{"s-esc-nul", "literal-string-control", "str", `"z\x00z"`},
	{"s-esc-bell", "literal-string-control", "str", `"z\az"`},
	{"s-esc-hex", "literal-string", "str", `"\x41B"`},
	{"s-esc-u", "literal-string", "str", `"ét"`},
	{"s-utf8", "literal-string", "str", `"été"`},
	{"s-slash-slash", "literal-string", "str", `"http://x"`},
	{"s-comment-like", "literal-string", "str", `"a /* b */ c"`},
	{"s-raw", "literal-raw-string", "str", "`raw`"},
	{"s-raw-quote", "literal-raw-string", "str", "`ra\"w`"},
	{"s-raw-backslash", "literal-raw-string", "str", "`ra\\w\\n`"},
	{"s-raw-multiline", "literal-raw-string", "str", "`l1\nl2`"},
	{"s-raw-multiline-indent", "literal-raw-string", "str", "`l1\n    l2\n`"},
	{"s-sprint", "call", "str", "fmt.Sprint(§int)"},
	{"s-sprintf", "call", "str", `fmt.Sprintf("%d-%s", §int, s)`},
	{"s-slice", "slice", "str", "§str[1:]"},
	{"s-index-lit", "composite-literal", "str", `[]string{§str, "y"}[0]`},
	{"s-map-lit", "composite-literal", "str", `map[int]string{1: §str}[1]`},
	{"s-struct-lit", "composite-literal", "str", `T{b: §str}.b`},
	{"s-cast", "cast", "str", "string(§int + 64)"},

	// []int
	{"l-ident", "basic", "ints", "xs"},
	{"l-call", "call", "ints", "mk()"},
	{"l-lit", "composite-literal", "ints", "[]int{§int, 2, 3}"},
	{"l-lit-empty", "composite-literal", "ints", "[]int{}"},
	{"l-lit-paren", "composite-literal", "ints", "([]int{§int, 2})"},
	{"l-lit-multiline", "composite-literal", "ints", "[]int{\n    §int,\n    2,\n}"},
	{"l-array-lit", "array-literal", "ints", "[§int, 2, 3]"},
	{"l-slice", "slice", "ints", "§ints[1:]"},
	{"l-append", "call", "ints", "append(§ints, §int)"},
	{"l-make", "call", "ints", "make([]int, 2)"},
	{"l-funclit", "func-literal", "ints", "func() []int { return []int{§int} }()"},
	{"l-index-nested", "composite-literal", "ints", "[][]int{{§int, 2}}[0]"},
	{"l-map-index", "composite-literal", "ints", "map[string][]int{\"k\": {§int}}[\"k\"]"},

	// map[string]int
	{"m-ident", "basic", "map", "m"},
	{"m-lit", "composite-literal", "map", "map[string]int{\"k\": §int}"},
	{"m-lit-empty", "composite-literal", "map", "map[string]int{}"},
	{"m-lit-multiline", "composite-literal", "map", "map[string]int{\n    \"k\": §int,\n}"},
}

// expression is a production with its holes filled.
type expression struct {
	name  string
	class string
	typ   string
	src   string
	depth int
	parts []string // for depth 2: the names of the outer and inner productions
}

func holes(src string) []string {
	var out []string

	if containsIntHole(src) {
		out = append(out, "int")
	}

	for _, t := range []string{"bool", "str", "ints", "map"} {
		if strings.Contains(src, "§"+t) {
			out = append(out, t)
		}
	}

	return out
}

// "§int" is a prefix of "§ints": look for a real int hole.
func containsIntHole(src string) bool {
	for i := 0; ; {
		j := strings.Index(src[i:], "§int")
		if j < 0 {
			return false
		}

		end := i + j + len("§int")
		if end >= len(src) || src[end] != 's' {
			return true
		}

		i = end
	}
}

func fill(src string, with map[string]string) string {
	// longest hole names first (§ints before §int)
	src = strings.ReplaceAll(src, "§ints", "\x00L")
	for _, t := range []string{"int", "bool", "str", "map"} {
		src = strings.ReplaceAll(src, "§"+t, with[t])
	}

	return strings.ReplaceAll(src, "\x00L", with["ints"])
}

// depth1 fills every hole with the atom of its type.
func depth1() []expression {
	var out []expression

	for _, p := range productions {
		out = append(out, expression{name: p.name, class: p.class, typ: p.typ, src: fill(p.src, atoms), depth: 1})
	}

	return out
}

// depth2 fills, for every production with holes, one hole type at a time with
// every depth-1 expression of that type (the other holes keep their atoms).
func depth2() []expression {
	d1 := depth1()

	var out []expression

	for _, p := range productions {
		for _, h := range holes(p.src) {
			for _, in := range d1 {
				if in.typ != h || in.src == atoms[h] {
					continue
				}

				with := map[string]string{}
				for k, v := range atoms {
					with[k] = v
				}

				with[h] = in.src

				out = append(out, expression{
					name: p.name + "(" + in.name + ")", class: p.class, typ: p.typ,
					src: fill(p.src, with), depth: 2, parts: []string{p.name, in.name},
				})
			}
		}
	}

	return out
}

// ---------------------------------------------------------------------------
// Positions
// ---------------------------------------------------------------------------

// A position is a statement template with one hole "§" for an expression of
// the given type. Positions of class "header" put the expression into the
// header of an if/for/switch statement (where the formatter's parser
// suppresses composite literals), the others into ordinary statements.
type position struct {
	name  string
	class string
	typ   string
	src   string
	quick bool // part of the reduced position set used for depth-2 expressions in the quick tier
}

var positions = []position{
	// control-flow headers, int
	{"if-cond", "header", "int", "if § == 1 {\n    fmt.Println(\"then\")\n} else {\n    fmt.Println(\"else\")\n}\n", true},
	{"if-cond-rhs", "header", "int", "if 1 == § {\n    fmt.Println(\"then\")\n} else {\n    fmt.Println(\"else\")\n}\n", false},
	{"if-init", "header", "int", "if v := §; v == 1 {\n    fmt.Println(\"then\", v)\n} else {\n    fmt.Println(\"else\", v)\n}\n", false},
	{"if-init-cond", "header", "int", "if v := 1; v == § {\n    fmt.Println(\"then\", v)\n} else {\n    fmt.Println(\"else\", v)\n}\n", false},
	{"else-if-cond", "header", "int", "if a == 5 {\n    fmt.Println(\"first\")\n} else if § == 1 {\n    fmt.Println(\"second\")\n} else {\n    fmt.Println(\"third\")\n}\n", false},
	{"for-cond", "header", "int", "for n < § {\n    n++\n\n    if n > 40 {\n        break\n    }\n}\n\nfmt.Println(\"n\", n)\n", false},
	{"for3-init", "header", "int", "for i := §; i < 3; i++ {\n    fmt.Println(\"i\", i)\n\n    if i < -40 {\n        break\n    }\n}\n", false},
	{"for3-cond", "header", "int", "for i := 0; i < §; i++ {\n    fmt.Println(\"i\", i)\n\n    if i > 40 {\n        break\n    }\n}\n", false},
	{"for3-post", "header", "int", "for i := 0; i < 3; n = § {\n    fmt.Println(\"i\", i, n)\n    i++\n}\n", false},
	{"switch-tag", "header", "int", "switch § {\ncase 1:\n    fmt.Println(\"one\")\ndefault:\n    fmt.Println(\"other\")\n}\n", false},
	{"switch-init", "header", "int", "switch v := §; v {\ncase 1:\n    fmt.Println(\"one\", v)\ndefault:\n    fmt.Println(\"other\", v)\n}\n", false},
	{"switch-init-tag", "header", "int", "switch v := 1; v + § {\ncase 2:\n    fmt.Println(\"two\", v)\ndefault:\n    fmt.Println(\"other\", v)\n}\n", false},
	{"range-int", "header", "int", "for i := range § {\n    fmt.Println(\"i\", i)\n\n    if i > 40 {\n        break\n    }\n}\n", false},
	// control-flow headers, bool
	{"if-bool", "header", "bool", "if § {\n    fmt.Println(\"then\")\n} else {\n    fmt.Println(\"else\")\n}\n", true},
	{"for-bool", "header", "bool", "for § {\n    fmt.Println(\"once\")\n\n    break\n}\n", false},
	{"for3-cond-bool", "header", "bool", "for i := 0; § && i < 2; i++ {\n    fmt.Println(\"i\", i)\n\n    if i > 40 {\n        break\n    }\n}\n", false},
	{"if-init-bool", "header", "bool", "if v := 3; § {\n    fmt.Println(\"then\", v)\n}\n", false},
	// control-flow headers, string
	{"if-str", "header", "str", "if § == \"str\" {\n    fmt.Println(\"then\")\n} else {\n    fmt.Println(\"else\")\n}\n", true},
	{"switch-str", "header", "str", "switch § {\ncase \"str\":\n    fmt.Println(\"str\")\ndefault:\n    fmt.Println(\"other\")\n}\n", false},
	{"range-str", "header", "str", "for i, c := range § {\n    fmt.Println(i, c)\n}\n", false},
	// range headers
	{"range-kv", "header", "ints", "for i, v := range § {\n    fmt.Println(i, v)\n}\n", true},
	{"range-k", "header", "ints", "for i := range § {\n    fmt.Println(i)\n}\n", false},
	{"range-blank", "header", "ints", "for _, v := range § {\n    fmt.Println(v)\n}\n", false},
	{"range-assign", "header", "ints", "i := 7\nv := 7\n\nfor i, v = range § {\n    fmt.Println(i, v)\n}\n\nfmt.Println(\"after\", i, v)\n", false},
	{"range-map", "header", "map", "for k, v := range § {\n    fmt.Println(k, v)\n}\n", false},
	// case lists
	{"case-expr", "case", "int", "switch a {\ncase §:\n    fmt.Println(\"hit\")\ncase 0, § + 1:\n    fmt.Println(\"second\")\ndefault:\n    fmt.Println(\"default\")\n}\n", false},
	{"case-bool", "case", "bool", "switch {\ncase §:\n    fmt.Println(\"hit\")\ndefault:\n    fmt.Println(\"default\")\n}\n", false},
	{"case-str", "case", "str", "switch s {\ncase §, \"other\":\n    fmt.Println(\"hit\")\ndefault:\n    fmt.Println(\"default\")\n}\n", false},
	// ordinary statements, int
	{"define", "statement", "int", "x := §\nfmt.Println(\"x\", x)\n", true},
	{"assign", "statement", "int", "n = §\nfmt.Println(\"n\", n)\n", false},
	{"op-assign", "statement", "int", "n += §\nn -= 1\nn *= §\nfmt.Println(\"n\", n)\n", false},
	{"multi-define", "statement", "int", "x, y := §, 2\nfmt.Println(x, y)\n", false},
	{"multi-define-2", "statement", "int", "x, y := 2, §\nfmt.Println(x, y)\n", false},
	{"var-typed", "statement", "int", "var v int = §\nfmt.Println(\"v\", v)\n", false},
	{"var-untyped", "statement", "int", "var v = §\nfmt.Println(\"v\", v)\n", false},
	{"return", "statement", "int", "r := func() int {\n    return §\n}\nfmt.Println(\"r\", r())\n", false},
	{"return-2", "statement", "int", "r := func() (int, int) {\n    return §, 2\n}\nfmt.Println(r())\n", false},
	{"call-arg", "statement", "int", "fmt.Println(\"v\", §)\n", false},
	{"call-arg-2", "statement", "int", "fmt.Println(§, §)\n", false},
	{"index-assign", "statement", "int", "xs[§ * 0] = §\nfmt.Println(xs)\n", false},
	{"defer", "statement", "int", "func() {\n    defer fmt.Println(\"deferred\", §)\n    fmt.Println(\"body\")\n}()\n", false},
	{"send", "statement", "int", "ch <- §\nfmt.Println(<-ch, <-ch, <-ch)\n", false},
	{"panic", "statement", "int", "try {\n    panic(§)\n} catch (err) {\n    fmt.Println(\"caught\", err)\n}\n", false},
	{"throw", "statement", "int", "try {\n    throw §\n} catch (err) {\n    fmt.Println(\"caught\", err)\n}\n", false},
	{"print", "statement", "int", "print §\n", false},
	{"print-list", "statement", "int", "print \"v\", §\n", false},
	{"print-comma", "statement", "int", "{\n    print §,\n}\nprint \" end\"\n", false},
	{"element", "statement", "int", "ys := []int{§, 2}\nfmt.Println(ys)\n", false},
	{"field", "statement", "int", "tt := T{a: §}\nfmt.Println(tt.a)\n", false},
	{"map-key", "statement", "int", "mm := map[int]int{§: 1}\nfmt.Println(mm)\n", false},
	{"inc-target", "statement", "int", "ys := []int{0, 0, 0, 0, 0, 0, 0, 0}\nys[§ & 7]++\nfmt.Println(ys)\n", false},
	{"const", "statement", "int", "const c = §\nfmt.Println(\"c\", c)\n", false},
	// ordinary statements, other types
	{"define-bool", "statement", "bool", "x := §\nfmt.Println(\"x\", x)\n", false},
	{"call-arg-bool", "statement", "bool", "fmt.Println(\"v\", §)\n", false},
	{"define-str", "statement", "str", "x := § + \"!\"\nfmt.Println(\"x\", x, len(x))\n", false},
	{"call-arg-str", "statement", "str", "fmt.Println(\"v\", §, len(§))\n", false},
	{"print-str", "statement", "str", "print §\n", false},
	{"const-str", "statement", "str", "const c = §\nfmt.Println(c, len(c))\n", false},
	{"define-ints", "statement", "ints", "ys := §\nfmt.Println(ys, len(ys))\n", true},
	{"spread", "statement", "ints", "fmt.Println(sum(§...))\n", false},
	{"define-map", "statement", "map", "mm := §\nfmt.Println(mm, len(mm))\n", false},
}

// ---------------------------------------------------------------------------
// Statement forms and block contexts
// ---------------------------------------------------------------------------

// A stmtForm is one statement of the formatter's grammar (sometimes with a
// follow-up line that shows its effect). "$" is replaced by the slot number so
// that two forms in one block declare different names.
type stmtForm struct {
	name  string
	class string
	src   string
	loop  bool // only legal inside a loop body
}

var stmtForms = []stmtForm{
	{"call", "simple", "fmt.Println(\"call$\")\n", false},
	{"assign", "simple", "n = 2\nfmt.Println(n)\n", false},
	{"define", "simple", "x$ := 3\nfmt.Println(x$)\n", false},
	{"op-assign", "simple", "n += 2\nn -= 1\nn *= 3\nn /= 2\nfmt.Println(n)\n", false},
	{"inc", "simple", "n++\nfmt.Println(n)\n", false},
	{"dec", "simple", "n--\nfmt.Println(n)\n", false},
	{"swap", "simple", "a, b = b, a\nfmt.Println(a, b)\n", false},
	{"multi-call-define", "simple", "u$, w$ := two()\nfmt.Println(u$, w$)\n", false},
	{"index-assign", "simple", "xs[0] = 5\nm[\"z\"] = 2\nt.a = 7\nfmt.Println(xs, len(m), t.a)\n", false},
	{"ptr-assign", "simple", "p.a = 3\n*q = 4\nfmt.Println(t.a, a)\n", false},
	{"send-recv", "channel", "ch <- 5\nfmt.Println(<-ch)\n", false},
	{"recv-define", "channel", "r$ := <-ch\nfmt.Println(r$)\n", false},
	{"semicolon-joined", "simple", "n = 1; fmt.Println(n)\n", false},
	{"var", "declaration", "var v$ int\nfmt.Println(v$)\n", false},
	{"var-init", "declaration", "var v$ = 3\nfmt.Println(v$)\n", false},
	{"var-typed-init", "declaration", "var v$ string = \"q\"\nfmt.Println(v$)\n", false},
	{"var-multi", "declaration", "var v$, w$ int\nfmt.Println(v$, w$)\n", false},
	{"var-multi-init", "declaration", "var v$, w$ = 1, \"w\"\nfmt.Println(v$, w$)\n", false},
	{"var-group", "declaration", "var (\n    v$ int\n    w$ = \"s\"\n)\n\nfmt.Println(v$, w$)\n", false},
	{"var-struct", "declaration", "var v$ T\nfmt.Println(v$.a)\n", false},
	{"var-slice", "declaration", "var v$ []int\nfmt.Println(len(v$))\n", false},
	{"var-map", "declaration", "var v$ map[string]int\nfmt.Println(len(v$))\n", false},
	{"var-iface", "declaration", "var v$ interface{} = \"i\"\nfmt.Println(v$)\n", false},
	{"const", "declaration", "const c$ = 3\nfmt.Println(c$)\n", false},
	{"const-typed", "declaration", "const c$ int = 3\nfmt.Println(c$)\n", false},
	{"const-group", "declaration", "const (\n    c$ = 1\n    d$ = \"two\"\n)\n\nfmt.Println(c$, d$)\n", false},
	{"type-struct", "declaration", "type L$ struct {\n    q int\n    r, s string\n}\n\nfmt.Println(L${q: 1}.q)\n", false},
	{"type-named", "declaration", "type N$ int\n\nvar z$ N$ = 3\n\nfmt.Println(z$)\n", false},
	{"if", "if", "if a == 1 {\n    fmt.Println(\"then$\")\n}\n", false},
	{"if-else", "if", "if a == 2 {\n    fmt.Println(\"then$\")\n} else {\n    fmt.Println(\"else$\")\n}\n", false},
	{"if-chain", "if", "if a == 5 {\n    fmt.Println(\"one$\")\n} else if a == 1 {\n    fmt.Println(\"two$\")\n} else if b == 2 {\n    fmt.Println(\"three$\")\n} else {\n    fmt.Println(\"four$\")\n}\n", false},
	{"if-init", "if", "if z$ := a + b; z$ > 2 {\n    fmt.Println(\"big$\", z$)\n}\n", false},
	{"if-empty", "if", "if a == 1 {\n}\n", false},
	{"if-empty-else", "if", "if a == 2 {} else {\n    fmt.Println(\"else$\")\n}\n", false},
	{"if-1line", "if", "if a == 1 { fmt.Println(\"then$\") }\n", false},
	{"if-nested", "if", "if a == 1 {\n    if b == 2 {\n        fmt.Println(\"both$\")\n    }\n}\n", false},
	{"for-forever", "for", "for {\n    n++\n\n    if n > 2 {\n        break\n    }\n}\n\nfmt.Println(n)\n", false},
	{"for-cond", "for", "for n < 3 {\n    n++\n}\n\nfmt.Println(n)\n", false},
	{"for3", "for", "for i$ := 0; i$ < 2; i$++ {\n    fmt.Println(\"i$\", i$)\n}\n", false},
	{"for-range", "for", "for i$, v$ := range xs {\n    fmt.Println(i$, v$)\n}\n", false},
	{"for-range-key", "for", "for i$ := range xs {\n    fmt.Println(i$)\n}\n", false},
	{"for-range-int", "for", "for i$ := range 2 {\n    fmt.Println(i$)\n}\n", false},
	{"for-range-map", "for", "for k$, v$ := range m {\n    fmt.Println(k$, v$)\n}\n", false},
	{"for-empty", "for", "for i$ := 0; i$ < 2; i$++ {\n}\n", false},
	{"for-1line", "for", "for i$ := 0; i$ < 2; i$++ { fmt.Println(i$) }\n", false},
	{"for-labeled", "for-labeled", "outer$:\nfor i$ := 0; i$ < 2; i$++ {\n    for j$ := 0; j$ < 3; j$++ {\n        if j$ == 1 {\n            continue outer$\n        }\n\n        fmt.Println(i$, j$)\n    }\n}\n", false},
	{"for-labeled-break", "for-labeled", "out$:\nfor i$ := 0; i$ < 2; i$++ {\n    for j$ := 0; j$ < 2; j$++ {\n        break out$\n    }\n\n    fmt.Println(\"in$\", i$)\n}\n\nfmt.Println(\"after$\")\n", false},
	{"for-continue", "for", "for i$ := 0; i$ < 3; i$++ {\n    if i$ == 1 {\n        continue\n    }\n\n    fmt.Println(i$)\n}\n", false},
	{"break", "jump", "if n > 100 {\n    break\n}\n", true},
	{"continue", "jump", "if n > 100 {\n    continue\n}\n", true},
	{"switch-tag", "switch", "switch a {\ncase 1:\n    fmt.Println(\"one$\")\ncase 2, 3:\n    fmt.Println(\"more$\")\ndefault:\n    fmt.Println(\"other$\")\n}\n", false},
	{"switch-notag", "switch", "switch {\ncase a > 5:\n    fmt.Println(\"big$\")\ncase a > 0:\n    fmt.Println(\"small$\")\n}\n", false},
	{"switch-fallthrough", "switch", "switch a {\ncase 1:\n    fmt.Println(\"one$\")\n    fallthrough\ncase 2:\n    fmt.Println(\"two$\")\ncase 3:\n    fmt.Println(\"three$\")\n}\n", false},
	{"switch-init", "switch", "switch z$ := a + 1; z$ {\ncase 2:\n    fmt.Println(\"two$\")\n}\n", false},
	{"switch-type", "switch", "switch v$ := e.(type) {\ncase int:\n    fmt.Println(\"int$\", v$)\ncase string:\n    fmt.Println(\"string$\")\ndefault:\n    fmt.Println(\"other$\")\n}\n", false},
	{"switch-default-first", "switch", "switch a {\ndefault:\n    fmt.Println(\"d$\")\ncase 1:\n    fmt.Println(\"one$\")\n}\n", false},
	{"switch-empty-case", "switch", "switch a {\ncase 1:\ncase 2:\n    fmt.Println(\"two$\")\ndefault:\n}\n", false},
	{"switch-multi-stmt", "switch", "switch a {\ncase 1:\n    n = 4\n\n    if n == 4 {\n        fmt.Println(\"four$\")\n    }\n\n    for i$ := 0; i$ < 1; i$++ {\n        fmt.Println(i$)\n    }\n}\n", false},
	{"switch-break", "switch", "switch a {\ncase 1:\n    if b == 2 {\n        break\n    }\n\n    fmt.Println(\"not reached$\")\n}\n", false},
	{"try-catch", "try", "try {\n    fmt.Println(xs[9])\n} catch (err$) {\n    fmt.Println(\"caught$\", err$)\n}\n", false},
	{"try-catch-novar", "try", "try {\n    fmt.Println(xs[9])\n} catch {\n    fmt.Println(\"caught$\")\n}\n", false},
	{"try-only", "try", "try {\n    n = xs[9]\n}\n\nfmt.Println(\"after$\", n)\n", false},
	{"try-throw", "try", "try {\n    throw \"boom$\"\n} catch (err$) {\n    fmt.Println(err$)\n}\n", false},
	{"try-panic", "try", "try {\n    panic(\"pan$\")\n} catch (err$) {\n    fmt.Println(\"p\", err$)\n}\n", false},
	{"defer", "defer", "func() {\n    defer fmt.Println(\"deferred$\")\n    defer func() {\n        fmt.Println(\"deferred lit$\")\n    }()\n\n    fmt.Println(\"body$\")\n}()\n", false},
	{"block", "block", "{\n    n = 5\n    fmt.Println(n)\n}\n", false},
	{"block-empty", "block", "{}\n", false},
	{"block-empty-2", "block", "{\n}\n", false},
	{"block-nested", "block", "{\n    {\n        fmt.Println(\"inner$\")\n    }\n}\n", false},
	{"funclit-call", "func-literal", "func() {\n    fmt.Println(\"lit$\")\n}()\n", false},
	{"closure", "func-literal", "g$ := func(x int) int {\n    return x + a\n}\n\nfmt.Println(g$(2))\n", false},
	{"closure-1line", "func-literal", "g$ := func() { fmt.Println(\"g$\") }\ng$()\n", false},
	{"closure-empty", "func-literal", "g$ := func() {}\ng$()\n", false},
	{"closure-arg", "func-literal", "fmt.Println(func(x int) int {\n    return x * 3\n}(2), \"after$\")\n", false},
	{"func-nested", "func-decl", "func inner$(x int) int {\n    return x + 1\n}\n\nfmt.Println(inner$(2))\n", false},
	{"return-early", "jump", "func() {\n    if a == 1 {\n        return\n    }\n\n    fmt.Println(\"not reached$\")\n}()\n", false},
	{"return-values", "jump", "g$ := func() (int, string) {\n    n = 9\n\n    return n, \"r\"\n}\n\nfmt.Println(g$())\n", false},
	{"print", "print", "print \"p$\", a\n", false},
	{"print-comma", "print", "{\n    print \"p$\",\n}\nprint \"q$\"\n", false},
	{"print-empty", "print", "print\n", false},
	{"call-stmt", "call-stmt", "call id(3)\n", false},
	{"multi-line-call", "multi-line", "fmt.Println(\"one$\",\n    \"two$\",\n    \"three$\")\n", false},
	{"multi-line-slice", "multi-line", "ys$ := []int{\n    1,\n    2,\n}\n\nfmt.Println(ys$)\n", false},
	{"multi-line-struct", "multi-line", "tt$ := T{\n    a: 4,\n    b: \"y\",\n}\n\nfmt.Println(tt$.a, tt$.b)\n", false},
	{"multi-line-map", "multi-line", "mm$ := map[string]int{\n    \"p\": 1,\n}\n\nfmt.Println(mm$)\n", false},
	{"multi-line-chain", "multi-line", "z$ := strings.\n    ToUpper(s)\n\nfmt.Println(z$)\n", false},
	{"delete", "simple", "delete(m, \"k\")\nfmt.Println(len(m))\n", false},
	{"assert", "directive", "@assert a > 0\n", false},
}

// A context is a place where a statement sequence can stand. "«»" takes the
// sequence (already indented by the generator).
type blockCtx struct {
	name  string
	class string
	src   string
	depth int  // indentation levels of the sequence inside the template
	loop  bool // break/continue are legal here
	quick bool // used for pairs in the quick tier
}

var contexts = []blockCtx{
	{"body", "block", "«»", 0, false, true},
	{"block", "block", "{\n«»}\n", 1, false, false},
	{"if-then", "block", "if a == 1 {\n«»} else {\n    fmt.Println(\"else\")\n}\n", 1, false, false},
	{"if-else", "block", "if a == 2 {\n    fmt.Println(\"then\")\n} else {\n«»}\n", 1, false, false},
	{"else-if", "block", "if a == 2 {\n    fmt.Println(\"then\")\n} else if b == 2 {\n«»}\n", 1, false, false},
	{"for-body", "block", "for k := 0; k < 2; k++ {\n«»}\n", 1, true, true},
	{"range-body", "block", "for _, k := range [1, 2] {\n    fmt.Println(k)\n«»}\n", 1, true, false},
	{"labeled-body", "block", "lab:\nfor k := 0; k < 2; k++ {\n«»}\n", 1, true, false},
	{"case-first", "case-body", "switch a {\ncase 1:\n«»case 2:\n    fmt.Println(\"two\")\ndefault:\n    fmt.Println(\"default\")\n}\n", 1, false, true},
	{"case-last", "case-body", "switch a {\ncase 2:\n    fmt.Println(\"two\")\ncase 1:\n«»}\n", 1, false, false},
	{"case-default", "case-body", "switch a {\ncase 2:\n    fmt.Println(\"two\")\ndefault:\n«»}\n", 1, false, false},
	{"try-body", "block", "try {\n«»} catch (err) {\n    fmt.Println(\"caught\", err)\n}\n", 1, false, false},
	{"catch-body", "block", "try {\n    fmt.Println(xs[8])\n} catch (err) {\n«»}\n", 1, false, false},
	{"funclit-body", "block", "func() {\n«»}()\n", 1, false, true},
}

func slot(src string, i int) string { return strings.ReplaceAll(src, "$", fmt.Sprint(i)) }

// ---------------------------------------------------------------------------
// Top-level declarations
// ---------------------------------------------------------------------------

// A declForm is a top-level declaration with the statements (for main) that
// show what it declares.
type declForm struct {
	name  string
	class string
	decl  string
	use   string
}

var declForms = []declForm{
	{"import-single", "import", "import \"math\"\n", "fmt.Println(math.Abs(-2.0))\n"},
	{"import-group", "import", "import (\n    \"math\"\n    \"sort\"\n)\n", "fmt.Println(math.Abs(-2.0))\n"},
	{"import-alias", "import", "import mm \"math\"\n", "fmt.Println(mm.Abs(-2.0))\n"},
	{"import-group-1", "import", "import (\n    \"math\"\n)\n", "fmt.Println(math.Abs(-2.0))\n"},
	{"const", "const", "const C$ = 3\n", "fmt.Println(C$)\n"},
	{"const-typed", "const", "const C$ int = 3\n", "fmt.Println(C$)\n"},
	{"const-expr", "const", "const C$ = 2 * 3 + 1\n", "fmt.Println(C$)\n"},
	{"const-string", "const", "const C$ = \"c\\tq\"\n", "fmt.Println(C$)\n"},
	{"const-group", "const", "const (\n    C$ = 1\n    D$ = \"two\"\n)\n", "fmt.Println(C$, D$)\n"},
	{"const-group-1", "const", "const (\n    C$ = 1\n)\n", "fmt.Println(C$)\n"},
	{"var", "var", "var V$ int\n", "fmt.Println(V$)\n"},
	{"var-init", "var", "var V$ = 3\n", "fmt.Println(V$)\n"},
	{"var-typed-init", "var", "var V$ int = 3\n", "fmt.Println(V$)\n"},
	{"var-multi", "var", "var V$, W$ int\n", "fmt.Println(V$, W$)\n"},
	{"var-multi-init", "var", "var V$, W$ = 1, \"w\"\n", "fmt.Println(V$, W$)\n"},
	{"var-group", "var", "var (\n    V$ int\n    W$ = \"s\"\n)\n", "fmt.Println(V$, W$)\n"},
	{"var-slice", "var", "var V$ = []int{1, 2}\n", "fmt.Println(V$)\n"},
	{"var-map-type", "var", "var V$ map[string][]int\n", "fmt.Println(len(V$))\n"},
	{"var-func-type", "var", "var V$ func(int) int\n", "V$ = id\nfmt.Println(V$(2))\n"},
	{"var-ptr-type", "var", "var V$ *T\n", "V$ = &T{a: 2}\nfmt.Println(V$.a)\n"},
	{"type-struct", "type", "type S$ struct {\n    x int\n    y, z string\n}\n", "fmt.Println(S${x: 1, y: \"y\"}.y)\n"},
	{"type-struct-1line", "type", "type S$ struct { x int }\n", "fmt.Println(S${x: 1}.x)\n"},
	{"type-struct-embedded", "type", "type S$ struct {\n    T\n    x int\n}\n", "v$ := S${x: 1}\nfmt.Println(v$.x)\n"},
	{"type-struct-nested", "type", "type S$ struct {\n    in struct {\n        q int\n    }\n    x int\n}\n", "v$ := S${x: 1}\nfmt.Println(v$.x, v$.in.q)\n"},
	{"type-struct-complex-fields", "type", "type S$ struct {\n    l []int\n    m map[string]int\n    p *T\n    f func(int) int\n    i interface{}\n}\n", "v$ := S${l: []int{1}, f: id}\nfmt.Println(v$.l, v$.f(3))\n"},
	{"type-named", "type", "type N$ int\n", "fmt.Println(N$(3))\n"},
	{"type-slice", "type", "type N$ []int\n", "fmt.Println(len(N${1, 2}))\n"},
	{"type-map", "type", "type N$ map[string]int\n", "fmt.Println(len(N${\"a\": 1}))\n"},
	{"type-func", "type", "type F$ func(int) int\n", "var g$ F$ = id\nfmt.Println(g$(2))\n"},
	{"type-interface", "type", "type I$ interface {\n    get() int\n}\n", "fmt.Println(t.get())\n"},
	{"type-interface-empty", "type", "type I$ interface{}\n", "var v$ I$ = 2\nfmt.Println(v$)\n"},
	{"type-interface-multi", "type", "type I$ interface {\n    get() int\n    set(v int)\n    both(a, b int) (int, error)\n}\n", "fmt.Println(t.get())\n"},
	{"func", "func", "func F$() {\n    fmt.Println(\"F$\")\n}\n", "F$()\n"},
	{"func-empty", "func", "func F$() {}\n", "F$()\n"},
	{"func-empty-2", "func", "func F$() {\n}\n", "F$()\n"},
	{"func-1line", "func", "func F$() int { return 3 }\n", "fmt.Println(F$())\n"},
	{"func-params-shared", "func", "func F$(x, y int, z string) int {\n    return x + y + len(z)\n}\n", "fmt.Println(F$(1, 2, \"z\"))\n"},
	{"func-variadic", "func", "func F$(pre string, xs ...int) int {\n    return len(pre) + len(xs)\n}\n", "fmt.Println(F$(\"p\", 1, 2))\n"},
	{"func-named-result", "func", "func F$(x int) (r int) {\n    r = x + 1\n\n    return r\n}\n", "fmt.Println(F$(1))\n"},
	{"func-named-results", "func", "func F$(x int) (r int, err error) {\n    r = x + 1\n\n    return r, nil\n}\n", "fmt.Println(F$(1))\n"},
	{"func-multi-result", "func", "func F$() (int, string, bool) {\n    return 1, \"s\", true\n}\n", "fmt.Println(F$())\n"},
	{"func-func-param", "func", "func F$(g func(int) int, x int) int {\n    return g(x)\n}\n", "fmt.Println(F$(id, 4))\n"},
	{"func-func-result", "func", "func F$() func(int) int {\n    return id\n}\n", "fmt.Println(F$()(4))\n"},
	{"func-iface-param", "func", "func F$(x interface{}, y any) string {\n    return fmt.Sprint(x, y)\n}\n", "fmt.Println(F$(1, \"y\"))\n"},
	{"func-slice-map-param", "func", "func F$(x []int, y map[string]int, z *T) int {\n    return len(x) + len(y) + z.a\n}\n", "fmt.Println(F$(xs, m, p))\n"},
	{"func-struct-result", "func", "func F$() T {\n    return T{a: 3}\n}\n", "fmt.Println(F$().a)\n"},
	{"func-ptr-result", "func", "func F$() *T {\n    return &T{a: 3}\n}\n", "fmt.Println(F$().a)\n"},
	{"method-value", "func", "type R$ struct {\n    v int\n}\n\nfunc (r R$) Val() int {\n    return r.v\n}\n", "fmt.Println(R${v: 2}.Val())\n"},
	{"method-pointer", "func", "type R$ struct {\n    v int\n}\n\nfunc (r *R$) Inc() {\n    r.v++\n}\n", "r$ := &R${v: 2}\nr$.Inc()\nfmt.Println(r$.v)\n"},
	{"func-unnamed-params", "func", "type I$ interface {\n    m(int, string) bool\n}\n", "fmt.Println(\"I$\")\n"},
}

package main

import (
	"regexp"
	"sort"
	"strings"
)

// scanComments lists the comments of a source text by the lexical rules Ego
// shares with Go: "//" to the end of the line and "/* ... */", except inside
// "interpreted", `raw` and 'rune' literals. It is the check's own, independent
// reading of "every comment of the original" (the formatter uses the side
// list of ego's tokenizer).
func scanComments(src string) []string {
	var out []string

	i, n := 0, len(src)

	for i < n {
		c := src[i]

		switch {
		case c == '"' || c == '\'':
			// interpreted string / rune: ends at the same quote or at the line end
			i++

			for i < n && src[i] != c && src[i] != '\n' {
				if src[i] == '\\' && i+1 < n && src[i+1] != '\n' {
					i++
				}

				i++
			}

			i++
		case c == '`':
			i++

			for i < n && src[i] != '`' {
				i++
			}

			i++
		case c == '/' && i+1 < n && src[i+1] == '/':
			j := i
			for j < n && src[j] != '\n' {
				j++
			}

			out = append(out, src[i:j])
			i = j
		case c == '/' && i+1 < n && src[i+1] == '*':
			j := strings.Index(src[i+2:], "*/")
			if j < 0 {
				out = append(out, src[i:])
				i = n
			} else {
				out = append(out, src[i:i+2+j+2])
				i = i + 2 + j + 2
			}
		default:
			i++
		}
	}

	return out
}

// normComment makes a comment comparable across re-indentation: every line is
// stripped of surrounding white space (the formatter re-indents the interior
// lines of a block comment and aligns the stars of a star comment).
func normComment(c string) string {
	lines := strings.Split(strings.ReplaceAll(c, "\r", ""), "\n")
	for i, l := range lines {
		lines[i] = strings.TrimSpace(l)
	}

	return strings.Join(lines, "\n")
}

// lostComments returns the comments of orig (as a multiset) that are not
// comments of out.
func lostComments(orig, out string) []string {
	have := map[string]int{}
	for _, c := range scanComments(out) {
		have[normComment(c)]++
	}

	var lost []string

	for _, c := range scanComments(orig) {
		k := normComment(c)
		if have[k] > 0 {
			have[k]--

			continue
		}

		lost = append(lost, c)
	}

	sort.Strings(lost)

	return lost
}

var lineNo = regexp.MustCompile(`(line|Line) ?[0-9]+(:[0-9]+)?`)

// normOut strips the source positions from what a run printed: the statement
// compares output and outcome "ignoring source line numbers in messages".
func normOut(s string) string {
	s = lineNo.ReplaceAllString(s, "line N")

	// call frame listings: "  at: main '<stdin>'   71  (block 0)"
	return frameLine.ReplaceAllStringFunc(s, func(l string) string { return anyDigits.ReplaceAllString(l, "N") })
}

var (
	frameLine = regexp.MustCompile(`(?m)^\s*at: .*$`)
	anyDigits = regexp.MustCompile(`[0-9]+`)
)

// C23: an authorization code yields tokens at most once, a refresh token is
// exchanged at most once, however many token requests present it concurrently;
// a PKCE-bound code only yields tokens with the matching verifier.
//
// E-sched: N threads call the real consumeCode/consumeRefreshToken (seam) and
// the real TokenHandler (end to end) on one stored code / refresh token; every
// interleaving of the woven caches lock operations inside the preemption bound
// is executed; the oracle counts successful redemptions per execution.
package main

import (
	"crypto/sha256"
	"encoding/base64"
	"encoding/json"
	"fmt"
	"net/http"
	"net/http/httptest"
	"net/url"
	"os"
	"strings"

	"github.com/tucats/ego/internal/caches"
	"github.com/tucats/ego/internal/router"
	"github.com/tucats/ego/internal/server/oauth/authserver"
	"github.com/tucats/ego/internal/verifrt/enum"
	"github.com/tucats/ego/internal/verifrt/explore"
	"github.com/tucats/ego/internal/verifrt/report"
	"github.com/tucats/ego/internal/verifrt/vsched"
	vsync "github.com/tucats/ego/internal/verifrt/vsync"
)

const verifier = "dBjftJeZ4CVP-mB92K27uhbUJU1p1r_wW1gFWFOEjXk"

func challenge(v string) string {
	h := sha256.Sum256([]byte(v))

	return base64.RawURLEncoding.EncodeToString(h[:])
}

func pending(pkce bool) authserver.PendingAuthorization {
	p := authserver.PendingAuthorization{ClientID: "app", RedirectURI: "https://app/cb", Scopes: []string{"openid"}, Username: "alice"}
	if pkce {
		p.CodeChallenge, p.CodeChallengeMethod = challenge(verifier), "S256"
	}

	return p
}

type tokenResp struct {
	Access  string `json:"access_token"`
	Refresh string `json:"refresh_token"`
}

func post(form url.Values) (int, tokenResp) {
	req := httptest.NewRequest(http.MethodPost, "/oauth2/token", strings.NewReader(form.Encode()))
	req.Header.Set("Content-Type", "application/x-www-form-urlencoded")

	w := httptest.NewRecorder()
	st := authserver.TokenHandler(&router.Session{ID: 7}, w, req)

	var tr tokenResp

	_ = json.Unmarshal(w.Body.Bytes(), &tr)

	return st, tr
}

func codeForm(code, ver string) url.Values {
	f := url.Values{}
	f.Set("grant_type", "authorization_code")
	f.Set("client_id", "app")
	f.Set("code", code)
	f.Set("redirect_uri", "https://app/cb")

	if ver != "" {
		f.Set("code_verifier", ver)
	}

	return f
}

type witness struct {
	Scenario string   `json:"scenario"`
	Threads  int      `json:"threads"`
	Schedule []int    `json:"schedule"`
	Trace    []string `json:"trace"`
	Results  []string `json:"results"`
}

type scen struct {
	name    string
	threads int
	setup   func()
	op      func(i int) string // returns "ok:<detail>" or "refused"
	after   func() string      // a later, sequential attempt must be refused
}

func scenarios(n int) []scen {
	var refresh string

	return []scen{
		{name: "seam:consumeCode", threads: n,
			setup: func() { authserver.VerifStoreCode("CODE", pending(true)) },
			op: func(int) string {
				if _, ok := authserver.VerifConsumeCode("CODE"); ok {
					return "ok"
				}

				return "refused"
			},
			after: func() string {
				if _, ok := authserver.VerifConsumeCode("CODE"); ok {
					return "ok"
				}

				return "refused"
			}},
		{name: "seam:consumeRefreshToken", threads: n,
			setup: func() { caches.Add(caches.OAuthRefreshCache, "RT", authserver.RefreshTokenData{ClientID: "app", Username: "alice"}) },
			op: func(int) string {
				if _, ok := authserver.VerifConsumeRefresh("RT"); ok {
					return "ok"
				}

				return "refused"
			},
			after: func() string {
				if _, ok := authserver.VerifConsumeRefresh("RT"); ok {
					return "ok"
				}

				return "refused"
			}},
		{name: "handler:authorization_code", threads: n,
			setup: func() { authserver.VerifStoreCode("CODE", pending(true)) },
			op: func(int) string {
				st, tr := post(codeForm("CODE", verifier))
				if st == 200 && tr.Access != "" {
					return "ok"
				}

				return fmt.Sprintf("refused:%d", st)
			},
			after: func() string {
				st, _ := post(codeForm("CODE", verifier))
				if st == 200 {
					return "ok"
				}

				return "refused"
			}},
		{name: "handler:refresh_token", threads: n,
			setup: func() {
				refresh = "RT0"
				caches.Add(caches.OAuthRefreshCache, refresh, authserver.RefreshTokenData{ClientID: "app", Username: "alice", Scopes: []string{"openid"}})
			},
			op: func(int) string {
				f := url.Values{}
				f.Set("grant_type", "refresh_token")
				f.Set("client_id", "app")
				f.Set("refresh_token", refresh)

				st, tr := post(f)
				if st == 200 && tr.Access != "" {
					return "ok"
				}

				return fmt.Sprintf("refused:%d", st)
			},
			after: func() string {
				f := url.Values{}
				f.Set("grant_type", "refresh_token")
				f.Set("client_id", "app")
				f.Set("refresh_token", refresh)

				if st, _ := post(f); st == 200 {
					return "ok"
				}

				return "refused"
			}},
	}
}

func main() {
	r := report.New("model_checking")

	if err := authserver.VerifSetup(os.Getenv("VERIF_SCRATCH")); err != nil {
		report.Fatal("setup: %v", err)
	}

	bound := r.Pick(2, 3)
	threadCounts := []int{2, 3}

	if r.Thorough() {
		threadCounts = []int{2, 3, 4}
	}

	states, transitions := 0, 0
	outcomes := map[string]int{}

	for _, n := range threadCounts {
		for _, sc := range scenarios(n) {
			sc := sc
			results := make([]string, sc.threads)
			afterRes := ""
			b := bound

			if strings.HasPrefix(sc.name, "seam:") && n <= 2 {
				b = -1 // unbounded: two threads at the seam are tiny
			}

			ex := &explore.Scenario{
				Name: fmt.Sprintf("%s/%d", sc.name, n), Bound: b, Horizon: 20000,
				// schedules branch where a thread is about to take a lock; spawn,
				// sleep and join points of the harness itself do not branch
				Focus: func(kind string, _ any) bool {
					return strings.HasPrefix(kind, "Mutex.") || strings.HasPrefix(kind, "RWMutex.")
				},
				Setup: func() {
					caches.VerifReset(0)
					sc.setup()

					for i := range results {
						results[i] = ""
					}
				},
				Body: func() {
					var wg vsync.WaitGroup

					for i := 0; i < sc.threads; i++ {
						i := i

						wg.Add(1)
						vsched.Go(func() {
							defer wg.Done()

							results[i] = sc.op(i)
						})
					}

					wg.Wait()

					// afterwards, sequentially, the credential must be gone
					afterRes = sc.after()
				},
				Observe: func() any { return strings.Join(results, ",") },
			}

			ex.Check = func(out vsched.Outcome) {
				r.Eval(1)
				transitions += len(out.Points) + 1

				key := strings.Join(results, ",")
				outcomes[ex.Name+" "+key]++
				r.Distinct(ex.Name + fmt.Sprint(out.Choices()))

				w := witness{Scenario: sc.name, Threads: sc.threads, Schedule: out.Choices(), Results: append([]string(nil), results...)}
				if out.Deadlock || out.Panic != nil || strings.Count(key, "ok") > 1 || afterRes == "ok" {
					w.Trace = out.Describe()
				}

				if os.Getenv("VERIF_DEBUG") != "" && r.Evals()%10000 == 0 {
					fmt.Println("DEBUG", ex.Name, r.Evals(), len(out.Points), out.Choices())
				}

				if out.Deadlock || out.Panic != nil {
					r.Violation("crash:"+sc.name, len(out.Points), w, fmt.Sprintf("deadlock=%v panic=%v %v\n%s", out.Deadlock, out.Panic, out.BlockedOn, out.PanicStk))

					return
				}

				if out.Horizon {
					r.Capped("horizon hit in " + ex.Name)

					return
				}

				ok := 0

				for _, res := range results {
					if strings.HasPrefix(res, "ok") {
						ok++
					}
				}

				if ok > 1 {
					r.Violation("double-redemption:"+sc.name, len(out.Points)*10+vsched.Preemptions(out.Points), w, fmt.Sprintf("%d of %d concurrent requests redeemed the same credential", ok, sc.threads))
				}

				if ok == 0 {
					r.Violation("lost-redemption:"+sc.name, len(out.Points), w, "no request redeemed a valid credential")
				}

				// sequentially afterwards the credential must be gone (state left by this schedule)
				if afterRes == "ok" {
					r.Violation("reusable-after:"+sc.name, len(out.Points), w, "the credential was accepted again after the concurrent batch finished")
				}
			}

			if err := ex.Determinism(); err != nil {
				report.Fatal("%v", err)
			}

			if os.Getenv("VERIF_DEBUG") != "" {
				o := ex.Replay(nil)
				fmt.Println("DEBUG", ex.Name, "default schedule:")

				for _, l := range o.Describe() {
					fmt.Println("   ", l)
				}
			}

			res := ex.Explore()
			if res.MaxPoints == 0 {
				report.Fatal("scenario %s has no choice points: the seams are lost", ex.Name)
			}

			if res.Capped {
				r.Capped("execution cap in " + ex.Name)
			}

			states += res.Schedules
			r.Set("scenario:"+ex.Name, map[string]any{"schedules": res.Schedules, "bound": res.Bound, "max_points": res.MaxPoints, "deadlocks": res.Deadlocks, "panics": res.Panics})
			r.Sample(map[string]any{"scenario": ex.Name, "preemption_bound": b, "schedules": res.Schedules})
		}
	}

	// PKCE clause: every verifier string up to length 3 over a small alphabet, plus the right one.
	caches.VerifReset(0)

	vs := enum.AllStrings([]string{"a", "d", "-", "_"}, 0, r.Pick(3, 5))
	vs = append(vs, verifier, verifier+"x", verifier[:len(verifier)-1], strings.ToUpper(verifier), challenge(verifier))

	for _, v := range vs {
		for _, pk := range []bool{true, false} {
			authserver.VerifStoreCode("C2", pending(pk))
			st, _ := post(codeForm("C2", v))
			r.Eval(1)
			transitions++
			r.Distinct(fmt.Sprint("pkce|", v, pk))

			want := pk && v == verifier // a public client without challenge must be refused (PKCE required)
			if (st == 200) != want && pk {
				r.Violation("pkce:wrong-verifier-accepted", len(v), map[string]any{"verifier": v, "status": st}, "code with PKCE challenge redeemed with a non-matching verifier, or refused with the right one")
			}

			if !pk && st == 200 {
				// not part of C23's statement (public client without PKCE): recorded only
				r.Add("public_client_without_pkce_accepted", 1)
			}
		}
	}

	r.Set("states", states+len(vs)*2)
	r.Set("transitions", transitions)
	r.Set("traces_validated_against_impl", states)
	r.Set("distinct_outcomes", outcomes)
	r.Rule("every interleaving (preemption bound in coverage; unbounded at the consume seam) of N threads redeeming one code / refresh token through the real handler with caches' lock woven; every verifier string up to the stated length against a PKCE-bound code. states = schedules executed, each on the implementation.")
	r.Assume("scheduling points at the woven sync operations of internal/caches and authserver; plain memory accesses between them are not interleaved (separate -race run covers them)")
	r.Finish()
}

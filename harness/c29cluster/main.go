// C29: cluster cache invalidation is bounded and complete.
//
// E-seq: breadth-first search (rt/seqx) over every history of a simulated
// cluster of 1..5 nodes that runs the real internal/caches and
// internal/server/cluster code (see world.go). Events: Purge(node, cache),
// Add(node, cache), deliver / lose / reject an in-flight flush message, a node
// leaves (real cluster.Shutdown), a node crashes (stays listed, unreachable),
// a forged flush with hop counts 0..6. After every event the reference judges
// the statement's three clauses:
//
//	complete  a purge makes the node contact every peer listed active at that
//	          moment (all of them by the time its broadcast ends), and a
//	          delivered flush makes the receiving peer discard that cache;
//	bounded   a broadcast contacts only those peers, each at most once, and no
//	          message is ever sent without a purge;
//	no relay  handling a received flush (genuine or forged, any hop count)
//	          never sends a flush.
package main

import (
	"encoding/json"
	"errors"
	"fmt"
	"net/http"
	"net/http/httptest"
	"os"
	"os/exec"
	"path/filepath"
	"runtime"
	"runtime/pprof"
	"sort"
	"strconv"
	"strings"
	gosync "sync"

	"github.com/tucats/ego/internal/caches"
	"github.com/tucats/ego/internal/server/cluster"
	"github.com/tucats/ego/internal/verifrt/report"
	"github.com/tucats/ego/internal/verifrt/seqx"
	"github.com/tucats/ego/internal/verifrt/vsched"
)

// Ev is one event of a history.
type Ev struct {
	Op    string `json:"op"`    // add purge deliver lose reject quiesce leave crash forge
	Node  int    `json:"node"`  // 1-based (add purge leave crash forge)
	Cache string `json:"cache"` // "A" | "B"
	Slot  int    `json:"slot"`  // deliver/lose/reject: index into the canonical list of in-flight messages
	Hops  int    `json:"hops"`  // forge
}

func (e Ev) String() string {
	switch e.Op {
	case "add", "purge":
		return fmt.Sprintf("%s(n%d,%s)", e.Op, e.Node, e.Cache)
	case "deliver", "lose", "reject":
		return fmt.Sprintf("%s(#%d)", e.Op, e.Slot)
	case "quiesce":
		return "quiesce"
	case "forge":
		return fmt.Sprintf("forge(n%d,%s,hops=%d)", e.Node, e.Cache, e.Hops)
	}

	return fmt.Sprintf("%s(n%d)", e.Op, e.Node)
}

// maxInflight bounds the number of broadcasts that wait for an answer.
const maxInflight = 3

func alphabet(n int, thorough bool) []Ev {
	var evs []Ev

	for i := 1; i <= n; i++ {
		for _, c := range []string{"A", "B"} {
			evs = append(evs, Ev{Op: "purge", Node: i, Cache: c}, Ev{Op: "add", Node: i, Cache: c})
		}
	}

	for s := 0; s < maxInflight; s++ {
		evs = append(evs, Ev{Op: "deliver", Slot: s}, Ev{Op: "lose", Slot: s})

		if thorough {
			evs = append(evs, Ev{Op: "reject", Slot: s})
		}
	}

	evs = append(evs, Ev{Op: "quiesce"})

	for i := 1; i <= n; i++ {
		evs = append(evs, Ev{Op: "leave", Node: i})

		if thorough {
			evs = append(evs, Ev{Op: "crash", Node: i})
		}

		// forged flushes go to the first two nodes (the nodes differ only in
		// their place in the joining order)
		if i <= 2 {
			for h := 0; h <= 6; h++ {
				evs = append(evs, Ev{Op: "forge", Node: i, Cache: "A", Hops: h})
			}
		}
	}

	return evs
}

// model is the reference's view of the cluster.
type model struct {
	n       int
	left    map[int]bool
	crashed map[int]bool
	listed  map[int]bool // rows that say "active" (read from the real table after every leave)
}

func newModel(n int) *model {
	m := &model{n: n, left: map[int]bool{}, crashed: map[int]bool{}, listed: map[int]bool{}}
	for i := 1; i <= n; i++ {
		m.listed[i] = true
	}

	return m
}

func (m *model) gone(i int) bool { return m.left[i] || m.crashed[i] }

func (m *model) key() string {
	s := ""

	for i := 1; i <= m.n; i++ {
		switch {
		case m.left[i]:
			s += "L"
		case m.crashed[i]:
			s += "C"
		default:
			s += "."
		}

		if m.listed[i] {
			s += "a"
		} else {
			s += "r"
		}
	}

	return s
}

func (w *world) outstandingFrom(i int) bool {
	for _, bc := range w.bcs {
		if bc.origin == i {
			return true
		}
	}

	return false
}

func (w *world) enabled(e Ev) bool {
	switch e.Op {
	case "add", "forge":
		return !w.m.gone(e.Node)
	case "purge":
		return !w.m.gone(e.Node) && len(w.bcs) < maxInflight
	case "leave", "crash":
		// a node goes away between broadcasts, not in the middle of one
		return !w.m.gone(e.Node) && !w.outstandingFrom(e.Node)
	case "deliver", "lose", "reject":
		return e.Slot < len(w.inflight())
	case "quiesce":
		return len(w.inflight()) > 0
	}

	return false
}

// step runs one event on the implementation and judges it. side collects
// violations that do not end the exploration below this state.
func (w *world) step(e Ev, side func(cell, msg string)) (cell, msg string) {
	w.fresh = nil

	var purgeTargets map[int]bool

	switch e.Op {
	case "add":
		w.switchTo(w.nodes[e.Node])
		caches.Add(classes[e.Cache], cacheKey, "v")
		vsched.Settle()

	case "purge":
		w.switchTo(w.nodes[e.Node])

		purgeTargets = map[int]bool{}

		for i := range w.m.listed {
			if i != e.Node {
				purgeTargets[i] = true
			}
		}

		caches.Purge(classes[e.Cache])
		vsched.Settle()

	case "leave":
		w.switchTo(w.nodes[e.Node])
		cluster.Shutdown()
		vsched.Settle()

		w.dirty[e.Node] = true
		w.m.left[e.Node] = true
		w.m.listed = w.listed()

	case "crash":
		w.m.crashed[e.Node] = true

	case "forge":
		nd := w.nodes[e.Node]
		w.switchTo(nd)

		cls := classes[e.Cache]
		body, _ := json.Marshal(map[string]any{"cache_id": cls, "sender_id": "forged-node", "hops": e.Hops})
		hdr := http.Header{}
		hdr.Set("Content-Type", "application/json")
		hdr.Set("Authorization", cluster.ClusterAuthHeader())

		a := &attempt{method: http.MethodPost, url: fmt.Sprintf("https://%s:%d/services/cluster/flush", nd.cl.Member.Host, nd.cl.Member.Port), header: hdr, body: body}
		before := w.items(nd, cls)
		rec, routeStatus := w.serve(a)
		vsched.Settle()

		if !ok2xx(routeStatus) && ok2xx(rec.Code) {
			w.routeRef[routeStatus]++
		}

		if before > 0 {
			verdict := "ignored"
			if w.items(nd, cls) <= 0 {
				verdict = "applied"
			}

			if old, seen := w.hopTable[e.Hops]; seen && old != verdict {
				verdict = "mixed"
			}

			w.hopTable[e.Hops] = verdict
		}

	case "deliver", "lose", "reject":
		if cell, msg := w.resolve(w.inflight()[e.Slot], e.Op, side); cell != "" {
			return cell, msg
		}

	case "quiesce":
		// an instant network: deliver whatever is on the wire until nothing is
		for rounds := 0; len(w.inflight()) > 0; rounds++ {
			if rounds > 64 {
				return "bounded:flush-traffic-does-not-end", "after 64 deliveries there are still flush messages on the wire"
			}

			if cell, msg := w.resolve(w.inflight()[0], "deliver", side); cell != "" {
				return cell, msg
			}

			if cell, msg := w.judge(Ev{Op: "deliver"}, nil); cell != "" {
				return cell, msg
			}

			w.fresh = nil
		}
	}

	return w.judge(e, purgeTargets)
}

// resolve decides the fate of one in-flight message: "deliver" serves it on
// the target node and hands the answer to the sender, "reject" answers 503
// without handling it, "lose" makes the sender time out.
func (w *world) resolve(a *attempt, fate string, side func(cell, msg string)) (cell, msg string) {
	target := w.nodes[a.to]

	switch {
	case fate == "lose":
		a.err = errors.New("context deadline exceeded (Client.Timeout exceeded while awaiting headers)")

	case w.m.gone(a.to):
		// the target went away while the message was on the wire
		a.err = errRefused

	case fate == "reject":
		rec := httptest.NewRecorder()
		rec.WriteHeader(http.StatusServiceUnavailable)
		a.resp = rec.Result()

	default:
		w.switchTo(target)

		rec, routeStatus := w.serve(a)
		vsched.Settle() // whatever the handler started runs as the target node

		if !ok2xx(rec.Code) {
			return fmt.Sprintf("complete:genuine-flush-refused-by-handler:%d", rec.Code),
				fmt.Sprintf("node %d answered HTTP %d to the flush of cache %s sent by node %d's purge (route table said %d): the peer does not discard the cache", a.to, rec.Code, className(a.bc.cache), a.from, routeStatus)
		}

		if !ok2xx(routeStatus) {
			w.routeRef[routeStatus]++
			side(fmt.Sprintf("complete:genuine-flush-refused-by-route:%d", routeStatus),
				fmt.Sprintf("node %d's server answers HTTP %d to the flush request that node %d's purge of cache %s sends (POST %s, headers %v) before the flush handler runs: no peer ever discards a cache. (The exploration continues as if the handler had been reached.)", a.to, routeStatus, a.from, className(a.bc.cache), a.url, headerNames(a.header)))
		}

		if left := w.items(target, a.bc.cache); left > 0 {
			return "complete:delivered-flush-does-not-discard",
				fmt.Sprintf("node %d handled the flush of cache %s from node %d (HTTP %d, message names cache id %d, hops %d) and still holds %d item(s) of that cache", a.to, className(a.bc.cache), a.from, rec.Code, a.cacheID, a.hops, left)
		}

		a.resp = rec.Result()
	}

	a.resolved = true

	vsched.Settle() // the sender goes on with its next peer

	return "", ""
}

func headerNames(h http.Header) []string {
	var out []string
	for k := range h {
		out = append(out, k)
	}

	sort.Strings(out)

	return out
}

// judge attributes the messages sent during the event to broadcasts and
// checks the bounded / complete / no-relay clauses.
func (w *world) judge(e Ev, purgeTargets map[int]bool) (cell, msg string) {
	var purgeBC *broadcast

	receiving := e.Op == "deliver" || e.Op == "forge"

	for _, a := range w.fresh {
		desc := fmt.Sprintf("flush{cache id %d, sender %q, hops %d} from node %d to node %d", a.cacheID, a.sender, a.hops, a.from, a.to)

		bc := w.byTid[a.tid]
		if bc == nil || a.sync {
			switch {
			case receiving:
				return "relay:flush-sent-while-handling-a-received-flush",
					fmt.Sprintf("while handling %s the receiving node sent %s: a node re-broadcast a flush it received", e, desc)
			case a.sync:
				report.Fatal("the purge hook ran on the calling thread during %s; this harness needs it to be a goroutine", e)
			case e.Op != "purge":
				return "bounded:flush-sent-without-a-purge:" + e.Op,
					fmt.Sprintf("%s made a node send %s", e, desc)
			case purgeBC != nil:
				return "bounded:two-broadcasts-for-one-purge",
					fmt.Sprintf("%s started a second broadcast (%s)", e, desc)
			}

			bc = &broadcast{origin: e.Node, cache: classes[e.Cache], targets: purgeTargets, tid: a.tid}
			purgeBC = bc
			w.byTid[a.tid] = bc
			w.bcs = append(w.bcs, bc)
		}

		a.bc = bc

		if a.from != bc.origin {
			report.Fatal("a broadcast thread of node %d ran as node %d", bc.origin, a.from)
		}

		switch {
		case !a.bodyOK:
			return "complete:flush-body-unreadable", "the flush request body is not a ClusterFlushRequest: " + string(a.body)
		case a.to == bc.origin:
			return "bounded:flush-sent-to-itself", fmt.Sprintf("the broadcast of node %d's purge of cache %s sent %s", bc.origin, className(bc.cache), desc)
		case !bc.targets[a.to]:
			return "bounded:flush-sent-to-a-node-that-is-not-an-active-peer",
				fmt.Sprintf("the broadcast of node %d's purge of cache %s sent %s; the peers listed active at the purge were %v (url %s)", bc.origin, className(bc.cache), desc, sortedSet(bc.targets), a.url)
		case contains(bc.tried, a.to):
			return "bounded:peer-contacted-twice-for-one-purge",
				fmt.Sprintf("the broadcast of node %d's purge of cache %s sent %s after already contacting %v: more messages than peers", bc.origin, className(bc.cache), desc, bc.tried)
		case a.cacheID != bc.cache:
			return "complete:flush-names-another-cache",
				fmt.Sprintf("node %d purged cache %s (id %d) but sent %s", bc.origin, className(bc.cache), bc.cache, desc)
		}

		bc.tried = append(bc.tried, a.to)
		bc.cur = a
	}

	if e.Op == "purge" && purgeBC == nil && len(purgeTargets) > 0 {
		return "complete:purge-not-broadcast",
			fmt.Sprintf("%s sent no flush at all; active peers: %v", e, sortedSet(purgeTargets))
	}

	// broadcasts that are no longer waiting have ended: did they reach everybody?
	kept := w.bcs[:0]

	for _, bc := range w.bcs {
		if bc.cur != nil && bc.cur.inflight && !bc.cur.resolved {
			kept = append(kept, bc)

			continue
		}

		delete(w.byTid, bc.tid)

		if len(bc.tried) < len(bc.targets) && cell == "" {
			var missed []int

			for t := range bc.targets {
				if !contains(bc.tried, t) {
					missed = append(missed, t)
				}
			}

			sort.Ints(missed)

			cell = "complete:broadcast-ended-before-every-peer-was-contacted"
			msg = fmt.Sprintf("the broadcast of node %d's purge of cache %s ended after contacting %v; active peers %v were never sent the flush (last event %s)", bc.origin, className(bc.cache), bc.tried, missed, e)
		}
	}

	w.bcs = kept

	return cell, msg
}

func contains(s []int, x int) bool {
	for _, v := range s {
		if v == x {
			return true
		}
	}

	return false
}

func sortedSet(m map[int]bool) []int {
	out := make([]int, 0, len(m))
	for k := range m {
		out = append(out, k)
	}

	sort.Ints(out)

	return out
}

// found is a state reached by a level worker.
type found struct {
	H []Ev   `json:"h"`
	K string `json:"k"`
}

type witness struct {
	Nodes   int    `json:"nodes"`
	History []Ev   `json:"history"`
	Text    string `json:"text"`
}

func histText(h []Ev) string {
	parts := make([]string, len(h))
	for i, e := range h {
		parts[i] = e.String()
	}

	return strings.Join(parts, "; ")
}

// explore runs the BFS for one cluster size below the given roots.
func explore(r *report.R, n, depth int, roots [][]Ev, onFrontier func([][]Ev), reached func(h []Ev, key string)) seqx.Stats {
	if roots != nil && len(roots) == 0 {
		return seqx.Stats{}
	}

	var (
		hist    []Ev
		stepped bool // the history's newest event has just been applied (not a re-execution of a root)
	)

	return seqx.Run(seqx.Spec[Ev]{
		Events: alphabet(n, r.Thorough()), MaxDepth: depth, StopAtViolation: true, Roots: roots, Frontier: onFrontier,
		Wrap: func(body func()) {
			out := vsched.Run(vsched.Config{Horizon: 200000}, func() {
				body()
				w.drain()
			})
			if out.Panic != nil || out.Deadlock || out.Horizon {
				h := append([]Ev(nil), hist...)
				r.Violation("crash", len(h), map[string]any{"nodes": n, "history": h, "text": histText(h), "panic": out.Panic, "deadlock": out.Deadlock, "horizon": out.Horizon, "blocked": out.BlockedOn, "stack": out.PanicStk, "pid": os.Getpid(), "args": os.Args[1:], "trace": out.Describe()},
					"a history crashed, deadlocked or did not end")
			}
		},
		Fresh: func() {
			w.freshHistory()
			hist = hist[:0]
			stepped = false
		},
		Enabled: func(e Ev) bool { return w.enabled(e) },
		Step: func(e Ev, last bool) (string, string) {
			hist = append(hist, e)
			stepped = last
			r.Eval(1)

			return w.step(e, func(cell, msg string) {
				if last {
					h := append([]Ev(nil), hist...)
					r.Violation(cell, len(h), witness{Nodes: n, History: h, Text: histText(h)}, msg)
				}
			})
		},
		Key: func() string {
			k := fmt.Sprintf("n%d|%s|%s", n, w.m.key(), w.implKey())
			r.Distinct(k)

			if reached != nil && (stepped || len(hist) == 0) {
				reached(hist, k)
			}

			return k
		},
		Violation: func(h []Ev, cell, msg string) {
			r.Violation(cell, len(h), witness{Nodes: n, History: h, Text: histText(h)}, msg)
		},
	})
}

// depthFor gives the history depth per cluster size and tier.
func depthFor(r *report.R, n int) int {
	quick := map[int]int{1: 7, 2: 5, 3: 4, 4: 3, 5: 3}
	thorough := map[int]int{1: 9, 2: 7, 3: 5, 4: 4, 5: 4}

	return r.Pick(quick[n], thorough[n])
}

const splitDepth = 2

func envOr(k, d string) string {
	if v := os.Getenv(k); v != "" {
		return v
	}

	return d
}

func saveCov(r *report.R) {
	for h, v := range w.hopTable {
		r.Set(fmt.Sprintf("forged_hops_%d", h), v)
	}

	for st, n := range w.routeRef {
		r.Add(fmt.Sprintf("route_refused_%d", st), int64(n))
	}
}

func main() {
	r := report.New("model_checking")

	if r.Replay != "" {
		var wit witness
		if err := report.LoadReplay(r.Replay, &wit); err != nil {
			report.Fatal("%v", err)
		}

		w = newWorld(wit.Nodes)

		vsched.Run(vsched.Config{}, func() {
			w.freshHistory()

			for i, e := range wit.History {
				if !w.enabled(e) {
					fmt.Printf("  %d %-22s not enabled\n", i, e)

					break
				}

				cell, msg := w.step(e, func(cell, msg string) {
					fmt.Printf("     side: %s %s\n", cell, msg)
					r.Violation(cell, len(wit.History), wit, msg)
				})

				var fl []string
				for _, a := range w.inflight() {
					fl = append(fl, fmt.Sprintf("n%d>n%d:%s", a.from, a.to, className(a.cacheID)))
				}

				fmt.Printf("  %d %-22s in flight %v state %s %s %s\n", i, e, fl, w.implKey(), cell, msg)

				if cell != "" {
					r.Violation(cell, len(wit.History), wit, msg)

					break
				}
			}

			w.drain()
		})

		r.Eval(1)
		r.Finish()
	}

	// worker: one BFS level below a part of the frontier of one cluster size;
	// it reports every state it reaches (history + canonical key), the parent
	// deduplicates across workers
	if len(os.Args) > 5 && os.Args[1] == "level" {
		n, _ := strconv.Atoi(os.Args[2])

		var roots [][]Ev

		b, err := os.ReadFile(os.Args[3])
		if err != nil || json.Unmarshal(b, &roots) != nil {
			report.Fatal("worker: cannot read roots %s", os.Args[3])
		}

		w = newWorld(n)

		if pf := os.Getenv("VERIF_C29_PROF"); pf != "" {
			f, _ := os.Create(fmt.Sprintf("%s.%d", pf, os.Getpid()))
			_ = pprof.StartCPUProfile(f)
		}

		var (
			out   []found
			local = map[string]bool{}
		)

		st := explore(r, n, 1, roots, nil, func(h []Ev, k string) {
			if len(h) > 0 && !local[k] {
				local[k] = true
				out = append(out, found{append([]Ev(nil), h...), k})
			}
		})

		pprof.StopCPUProfile()

		fb, _ := json.Marshal(out)
		if err := os.WriteFile(os.Args[5], fb, 0o644); err != nil {
			report.Fatal("worker: %v", err)
		}

		r.Add("transitions", int64(st.Transitions))
		r.Add(fmt.Sprintf("transitions_n%d", n), int64(st.Transitions))
		saveCov(r)
		r.SavePartial(os.Args[4])
	}

	// parent: the first levels of every cluster size in this process, then
	// level by level with worker processes; the parent owns the set of seen states
	type sizeRun struct {
		n        int
		depth    int
		frontier [][]Ev
		seen     map[string]bool
		parts    []string // partial reports in deterministic order
		perDepth []int
		err      string
	}

	var runs []*sizeRun

	perSize := map[string]any{}

	for n := 1; n <= 5; n++ {
		// debugging aid: VERIF_C29_SIZES=2,3 restricts the cluster sizes (the run then says so)
		if only := os.Getenv("VERIF_C29_SIZES"); only != "" && !strings.Contains(","+only+",", fmt.Sprintf(",%d,", n)) {
			r.Capped(fmt.Sprintf("cluster size %d skipped by VERIF_C29_SIZES", n))

			continue
		}

		w = newWorld(n)

		sr := &sizeRun{n: n, depth: depthFor(r, n), seen: map[string]bool{}}

		top := sr.depth
		if top > splitDepth {
			top = splitDepth
		}

		st := explore(r, n, top, nil, func(h [][]Ev) { sr.frontier = h }, func(_ []Ev, k string) { sr.seen[k] = true })
		r.Add("transitions", int64(st.Transitions))
		r.Add(fmt.Sprintf("transitions_n%d", n), int64(st.Transitions))
		saveCov(r)

		sr.perDepth = st.PerDepth
		runs = append(runs, sr)

		if n == 2 {
			evs := alphabet(n, r.Thorough())
			r.Sample(map[string]any{"nodes": n, "history": "purge(n1,A); deliver(#0)", "events_of_the_alphabet": []string{evs[0].String(), evs[1].String(), evs[8].String(), evs[9].String(), evs[len(evs)-1].String()}})
		}
	}

	slots := make(chan struct{}, runtime.NumCPU())

	var wg gosync.WaitGroup

	for _, sr := range runs {
		sr := sr

		wg.Add(1)

		go func() {
			defer wg.Done()

			for level := splitDepth + 1; level <= sr.depth && len(sr.frontier) > 0; level++ {
				// about 150 states per worker, at most 16 workers
				shards := (len(sr.frontier) + 149) / 150
				if shards > 16 {
					shards = 16
				}

				parts := make([][][]Ev, shards)
				for i, h := range sr.frontier {
					parts[i%shards] = append(parts[i%shards], h)
				}

				type res struct {
					part, found string
					err         error
					out         []byte
				}

				results := make([]res, shards)

				var lw gosync.WaitGroup

				for i := range parts {
					i := i

					lw.Add(1)

					go func() {
						defer lw.Done()

						slots <- struct{}{}

						defer func() { <-slots }()

						base := filepath.Join(os.Getenv("VERIF_SCRATCH"), fmt.Sprintf("n%d-l%d-%d", sr.n, level, i))
						b, _ := json.Marshal(parts[i])
						_ = os.WriteFile(base+".roots", b, 0o644)

						cmd := exec.Command(os.Args[0], "level", strconv.Itoa(sr.n), base+".roots", base+".part", base+".found")
						cmd.Env = append(os.Environ(), "GOMAXPROCS="+envOr("VERIF_C29_PROCS", "2"), "GOGC="+envOr("VERIF_C29_GOGC", "400"))
						out, err := cmd.CombinedOutput()
						results[i] = res{base + ".part", base + ".found", err, out}
					}()
				}

				lw.Wait()

				var next [][]Ev

				for i, rs := range results {
					if rs.err != nil {
						sr.err = fmt.Sprintf("worker n=%d level=%d part=%d failed: %v\n%s", sr.n, level, i, rs.err, rs.out)

						return
					}

					sr.parts = append(sr.parts, rs.part)

					var fs []found

					b, err := os.ReadFile(rs.found)
					if err != nil || json.Unmarshal(b, &fs) != nil {
						sr.err = fmt.Sprintf("worker n=%d level=%d part=%d: unreadable result", sr.n, level, i)

						return
					}

					for _, f := range fs {
						if !sr.seen[f.K] {
							sr.seen[f.K] = true
							next = append(next, f.H)
						}
					}

					_ = os.Remove(rs.found)
				}

				sr.frontier = next
				sr.perDepth = append(sr.perDepth, len(next))
			}
		}()
	}

	wg.Wait()

	for _, sr := range runs {
		if sr.err != "" {
			report.Fatal("%s", sr.err)
		}

		for _, p := range sr.parts {
			r.MergePartial(p)
		}

		perSize[fmt.Sprintf("n%d", sr.n)] = map[string]any{"depth": sr.depth, "alphabet": len(alphabet(sr.n, r.Thorough())), "states": len(sr.seen), "new_states_per_depth": sr.perDepth}
	}

	trans := r.IntCov("transitions")
	r.Set("states", r.NDistinct())
	r.Set("transitions", trans)
	r.Set("traces_validated_against_impl", trans)
	r.Set("per_cluster_size", perSize)
	r.Set("max_inflight", maxInflight)
	r.Set("hop_limit", cluster.VerifC29MaxHops())
	r.Rule("BFS over every history up to the depth given per cluster size (1..5 nodes) over purge/add on 2 cache classes, deliver/lose (thorough: reject) of each in-flight flush, leave (thorough: crash) of each node and forged flushes with hops 0..6, at most 3 broadcasts waiting at a time, on the real caches+cluster code with the real membership table and route table; distinct = canonical states (cluster size, per-node cache contents, membership, waiting broadcasts with the peers they already contacted)")
	r.Assume("nodes are multiplexed in one process by swapping the package state of internal/caches and internal/server/cluster; each node ran the real cluster.Initialize against one shared SQLite file",
		"the HTTP transport is replaced: a POST blocks its sending goroutine until the history delivers, rejects or loses it; delivery serves the sender's own request through the server's real route table on the target node",
		"whether a forged flush is applied is recorded (forged_hops_*) but not judged: the statement only forbids relaying it",
		"the health checker is not running; crash = unreachable but still listed active")
	r.Finish()
}

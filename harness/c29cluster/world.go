package main

// The simulated cluster. Nodes 1..N run the REAL internal/caches and
// internal/server/cluster code in one process: each node owns an instance of
// the package state of both packages (cache map and purge hook; cluster name,
// node id, database handle, own member row), obtained from a real
// cluster.Initialize call and swapped in whenever that node runs. The
// membership table is one real SQLite file that every node opened itself.
// http.DefaultTransport (what cluster.SendCacheFlush's client uses) is
// replaced: a flush POST becomes an in-flight message and the sending
// goroutine -- the woven `go OnPurge(id)` of caches.Purge, a managed vsched
// thread -- blocks in it, as the real sender blocks in client.Do, until the
// history delivers the message (the request is served by the target node
// through the server's real route table) or loses it.

import (
	"bytes"
	"encoding/json"
	"errors"
	"fmt"
	"io"
	"net/http"
	"net/http/httptest"
	"os"
	"path/filepath"
	"sort"
	"strconv"
	"strings"

	"github.com/tucats/ego/internal/caches"
	"github.com/tucats/ego/internal/cli/cli"
	"github.com/tucats/ego/internal/cli/settings"
	"github.com/tucats/ego/internal/commands"
	"github.com/tucats/ego/internal/defs"
	"github.com/tucats/ego/internal/router"
	"github.com/tucats/ego/internal/server/auth"
	"github.com/tucats/ego/internal/server/cluster"
	"github.com/tucats/ego/internal/verifrt/report"
	"github.com/tucats/ego/internal/verifrt/vsched"
)

const (
	clusterName = "c29"
	basePort    = 9000
	cacheKey    = "k"
)

// cache classes of the alphabet
var classes = map[string]int{"A": caches.UserCache, "B": caches.DSNCache}

func className(id int) string {
	for n, c := range classes {
		if c == id {
			return n
		}
	}

	return fmt.Sprintf("#%d", id)
}

type node struct {
	idx int // 1-based
	cs  *caches.VerifC29State
	cl  *cluster.VerifC29Node
}

// attempt is one call of the transport by the code under test: one flush
// message put on the wire (or refused at once when the target is gone).
type attempt struct {
	tid      int
	from     int // node that was running
	to       int // target node by port (0: no such node)
	cacheID  int
	sender   string
	hops     int
	bodyOK   bool
	method   string
	url      string
	header   http.Header
	body     []byte
	inflight bool
	resolved bool
	resp     *http.Response
	err      error
	bc       *broadcast
	sync     bool // sent from the history's driving thread
}

// broadcast is one run of the purge hook (one managed thread) with what the
// reference expects of it.
type broadcast struct {
	origin  int
	cache   int
	targets map[int]bool // peers listed active when the purge happened
	tried   []int
	tid     int
	cur     *attempt
}

type world struct {
	n        int
	nodes    []*node // [0] unused
	cur      *node
	rt       *router.Router
	dbPath   string
	stmts    *cluster.VerifC29Stmts
	dirty    map[int]bool // nodes whose membership row differs from the initial one
	shutdown bool         // end of a history: release blocked senders
	mainTid  int

	// per history
	m        *model
	bcs      []*broadcast
	byTid    map[int]*broadcast
	fresh    []*attempt // attempts made during the current event
	sessions int

	// coverage
	hopTable map[int]string
	routeRef map[int]int // router status -> count of refused genuine requests
}

var w *world

func jsonCtx(users string, port int) *cli.Context {
	return &cli.Context{Grammar: []cli.Option{
		{LongName: "cluster", OptionType: cli.StringType, Found: true, Value: clusterName},
		{LongName: "users", OptionType: cli.StringType, Found: true, Value: users},
		{LongName: "port", OptionType: cli.IntType, Found: true, Value: port},
		{LongName: "not-secure", OptionType: cli.BooleanType, Found: false, Value: false},
	}}
}

// newWorld starts n nodes the way `ego server --cluster c29 --users <db> --port p`
// does as far as clustering is concerned: the real cluster.Initialize per node.
func newWorld(n int) *world {
	w := &world{n: n, nodes: make([]*node, n+1), hopTable: map[int]string{}, routeRef: map[int]int{}}

	settings.SetDefault(defs.ServerTokenKeySetting, "c29-shared-token-key")

	var err error

	// Building the route table configures a cache (SetExpiration), which would
	// launch that cache's sweeper as a plain goroutine (no scheduler is active
	// here); one minute later it would enter the woven lock from outside the
	// scheduler. Do it in a state whose classes all have "a sweeper already".
	caches.VerifC29Load(caches.VerifC29New())

	// nobody logs on with a password here; the router only needs a user service
	auth.AuthService, err = auth.NewFileService("", "admin", "")
	if err != nil {
		report.Fatal("user service: %v", err)
	}

	w.rt, err = commands.VerifC29ServerRouter()
	if err != nil {
		report.Fatal("server route table: %v", err)
	}

	w.dbPath = filepath.Join(os.Getenv("VERIF_SCRATCH"), fmt.Sprintf("c29-system-%d-%d.db", n, os.Getpid()))

	for i := 1; i <= n; i++ {
		nd := &node{idx: i, cs: caches.VerifC29New()}

		caches.VerifC29Load(nd.cs)
		cluster.VerifC29Enter(nil)

		defs.InstanceID = fmt.Sprintf("node-%d", i)

		if err := cluster.Initialize(jsonCtx("sqlite://"+w.dbPath, basePort+i)); err != nil {
			report.Fatal("cluster.Initialize node %d: %v", i, err)
		}

		nd.cl = cluster.VerifC29Capture()
		caches.VerifC29Save(nd.cs)

		if nd.cl.Name != clusterName || nd.cl.ID != defs.InstanceID || nd.cl.DB == nil || nd.cl.Member.Port != basePort+i {
			report.Fatal("node %d did not initialize as expected: %+v", i, nd.cl)
		}

		if !nd.cs.VerifC29Hooked() {
			report.Fatal("cluster.Initialize did not install the purge hook on node %d", i)
		}

		// nodes joined one second apart (the table is listed in joining order)
		stamp := fmt.Sprintf("2030-01-02T03:04:%02dZ", i)
		nd.cl.Member.JoinedAt, nd.cl.Member.LastSeen = stamp, stamp
		w.nodes[i] = nd
	}

	w.cur = nil

	// the initial table: everybody active, written by the real upsertMember
	if err := cluster.VerifC29WipeTable(w.nodes[1].cl.DB); err != nil {
		report.Fatal("wipe membership table: %v", err)
	}

	for i := 1; i <= w.n; i++ {
		if err := cluster.VerifC29Rejoin(w.nodes[i].cl); err != nil {
			report.Fatal("rejoin node %d: %v", i, err)
		}
	}

	if w.stmts, err = cluster.VerifC29Prepare(w.nodes[1].cl.DB); err != nil {
		report.Fatal("prepare: %v", err)
	}

	w.dirty = map[int]bool{}

	if got := w.listed(); len(got) != n {
		report.Fatal("initial membership table lists %v", got)
	}

	http.DefaultTransport = transport{}

	return w
}

// resetTable restores the rows of the nodes that left in the last history.
func (w *world) resetTable() {
	for i := range w.dirty {
		if err := w.stmts.VerifC29Restore(w.nodes[i].cl); err != nil {
			report.Fatal("restore the row of node %d: %v", i, err)
		}

		delete(w.dirty, i)
	}
}

// listed returns the nodes whose row says "active", read through node 1's handle.
func (w *world) listed() map[int]bool {
	tab, err := w.stmts.VerifC29Table()
	if err != nil {
		report.Fatal("read membership table: %v", err)
	}

	out := map[int]bool{}

	for i := 1; i <= w.n; i++ {
		if tab[w.nodes[i].cl.ID] == cluster.ActiveState {
			out[i] = true
		}
	}

	return out
}

func (w *world) switchTo(nd *node) {
	if w.cur == nd {
		return
	}

	if w.cur != nil {
		caches.VerifC29Save(w.cur.cs)
	}

	caches.VerifC29Load(nd.cs)
	cluster.VerifC29Enter(nd.cl)
	w.cur = nd
}

// freshHistory returns every node to its start-up state.
func (w *world) freshHistory() {
	w.resetTable()

	w.cur = nil

	for i := 1; i <= w.n; i++ {
		w.nodes[i].cs.VerifC29Wipe()
	}

	w.m = newModel(w.n)
	w.bcs = nil
	w.byTid = map[int]*broadcast{}
	w.fresh = nil
	w.shutdown = false
	w.mainTid = vsched.Self()
}

// drain ends a history: every sender still waiting for an answer gets a
// transport error and runs to completion (nothing leaks into the next history).
func (w *world) drain() {
	w.shutdown = true

	for _, bc := range w.bcs {
		if bc.cur != nil && !bc.cur.resolved {
			bc.cur.err = errors.New("verif: end of history")
			bc.cur.resolved = true
		}
	}

	vsched.Settle()

	if w.cur != nil {
		caches.VerifC29Save(w.cur.cs)
	}
}

type transport struct{}

var errRefused = errors.New("dial tcp: connect: connection refused")

func (transport) RoundTrip(req *http.Request) (*http.Response, error) {
	var body []byte

	if req.Body != nil {
		body, _ = io.ReadAll(req.Body)
		req.Body.Close()
	}

	if w.shutdown {
		return nil, errors.New("verif: end of history")
	}

	a := &attempt{tid: vsched.Self(), method: req.Method, url: req.URL.String(), header: req.Header.Clone(), body: body}
	if w.cur != nil {
		a.from = w.cur.idx
	}

	if p, err := strconv.Atoi(req.URL.Port()); err == nil && p > basePort && p <= basePort+w.n {
		a.to = p - basePort
	}

	var fr defs.ClusterFlushRequest
	if json.Unmarshal(body, &fr) == nil {
		a.bodyOK, a.cacheID, a.sender, a.hops = true, fr.CacheID, fr.SenderID, fr.Hops
	}

	w.fresh = append(w.fresh, a)

	if a.tid == w.mainTid || vsched.Cur() == nil {
		a.sync = true

		return nil, errors.New("verif: flush sent from the thread that drives the history")
	}

	if a.to == 0 || w.m.gone(a.to) {
		return nil, errRefused
	}

	me := w.cur
	a.inflight = true

	vsched.Cur().Block("flush in flight", func() bool { return a.resolved })

	a.inflight = false

	w.switchTo(me)

	if a.err != nil {
		return nil, a.err
	}

	return a.resp, nil
}

// inflight returns the messages on the wire in canonical order.
func (w *world) inflight() []*attempt {
	var out []*attempt

	for _, bc := range w.bcs {
		if bc.cur != nil && bc.cur.inflight && !bc.cur.resolved {
			out = append(out, bc.cur)
		}
	}

	sort.SliceStable(out, func(i, j int) bool { return out[i].sortKey() < out[j].sortKey() })

	return out
}

func (a *attempt) sortKey() string {
	return fmt.Sprintf("%d>%d c%d h%d %s", a.from, a.to, a.cacheID, a.hops, a.bc.key())
}

func (bc *broadcast) key() string {
	tr := append([]int(nil), bc.tried...)
	sort.Ints(tr)

	tg := make([]int, 0, len(bc.targets))
	for t := range bc.targets {
		tg = append(tg, t)
	}

	sort.Ints(tg)

	to := 0
	if bc.cur != nil {
		to = bc.cur.to
	}

	return fmt.Sprintf("%d:%s%v/%v>%d", bc.origin, className(bc.cache), tr, tg, to)
}

// request rebuilds the sender's request as the target's server receives it
// (plus the two headers Go's HTTP transport adds on the wire).
func (a *attempt) request() *http.Request {
	req := httptest.NewRequest(a.method, a.url, bytes.NewReader(a.body))

	for k, v := range a.header {
		req.Header[k] = append([]string(nil), v...)
	}

	if req.Header.Get("User-Agent") == "" {
		req.Header.Set("User-Agent", "Go-http-client/1.1")
	}

	req.Header.Set("Accept-Encoding", "gzip")

	return req
}

// serve runs one flush request on the node that is current: through the
// server's route table; when that refuses it, once more straight into the
// handler (as the repository's own tests call it) so that the rest of the
// protocol is still explored. routeStatus is the route table's answer.
func (w *world) serve(a *attempt) (rec *httptest.ResponseRecorder, routeStatus int) {
	rec = httptest.NewRecorder()
	w.rt.ServeHTTP(rec, a.request())
	routeStatus = rec.Code

	if routeStatus >= 200 && routeStatus < 300 {
		return rec, routeStatus
	}

	w.sessions++
	rec2 := httptest.NewRecorder()
	status := cluster.FlushCacheHandler(&router.Session{ID: 1000 + w.sessions, Language: "en"}, rec2, a.request())

	if rec2.Code == http.StatusOK && status != http.StatusOK {
		rec2.Code = status
	}

	return rec2, routeStatus
}

func ok2xx(code int) bool { return code >= 200 && code < 300 }

func (w *world) items(nd *node, cls int) int {
	if w.cur == nd {
		caches.VerifC29Save(nd.cs)
	}

	return nd.cs.VerifC29Count(cls)
}

// implKey is the canonical dump of the implementation side of the state.
func (w *world) implKey() string {
	if w.cur != nil {
		caches.VerifC29Save(w.cur.cs)
	}

	var sb strings.Builder

	for i := 1; i <= w.n; i++ {
		sb.WriteString(w.nodes[i].cs.VerifC29Dump())
		sb.WriteByte('|')
	}

	keys := make([]string, 0, len(w.bcs))
	for _, bc := range w.bcs {
		keys = append(keys, bc.key())
	}

	sort.Strings(keys)
	sb.WriteString(strings.Join(keys, ";"))

	return sb.String()
}

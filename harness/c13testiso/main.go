// C13: `ego test` isolates each test.
//
// Bounded-exhaustive: every sequence (up to a length) of @test blocks drawn
// from a small alphabet of block kinds (passing, failing @assert, runtime
// error, three shapes of compile error, error inside try, @fail, ...) is
// written as one test file and run through the real `ego test` command; the
// report it prints is checked against what the property statement demands:
// every test before the first @fail is reported with its own result, in file
// order, whatever the tests before it did.
package main

import (
	"fmt"
	"os"
	"path/filepath"
	"regexp"
	"runtime"
	"sort"
	"strconv"
	"strings"
	"sync"
	"sync/atomic"

	"github.com/tucats/ego/internal/verifrt/egobatch"
	"github.com/tucats/ego/internal/verifrt/enum"
	"github.com/tucats/ego/internal/verifrt/report"
)

type kind struct {
	letter byte
	name   string
	passes bool // the statement says this test is reported as passed
	stops  bool // @fail
	body   func(i int) string
	cell   string // name used in cell keys when it differs from name (same root cause, same cell)
}

func (k *kind) cellName() string {
	if k.cell != "" {
		return k.cell
	}

	return k.name
}

// every "...-with-type" kind declares a type of the SAME name inside its body
const typeDecl = "type point struct {\n\t\tx int\n\t\ty int\n\t}"

func braced(lines ...string) string {
	return "{\n\t" + strings.Join(lines, "\n\t") + "\n}\n"
}

// The alphabet. Names are used in cell keys.
var kinds = []kind{
	{'p', "pass", true, false, func(i int) string { return braced("x := 1", "@assert x == 1") }, ""},
	{'o', "pass-with-output", true, false, func(i int) string {
		return braced(fmt.Sprintf(`fmt.Println("OUT%d")`, i), "@assert true")
	}, ""},
	{'a', "assert-fails", false, false, func(i int) string { return braced("x := 1", "@assert x == 2") }, ""},
	{'q', "output-then-assert-fails", false, false, func(i int) string {
		return braced(fmt.Sprintf(`fmt.Println("OUT%d")`, i), "@assert false")
	}, ""},
	{'e', "runtime-error", false, false, func(i int) string {
		return braced("zero := 0", "y := 1 / zero", "fmt.Println(y)")
	}, ""},
	{'n', "runtime-error-in-function-with-defer", false, false, func(i int) string {
		return braced(
			"f := func() int {",
			fmt.Sprintf(`	defer fmt.Println("DEF%d")`, i),
			"	zero := 0",
			"	return 1 / zero",
			"}",
			"y := f()",
			"fmt.Println(y)")
	}, ""},
	{'t', "error-inside-try", true, false, func(i int) string {
		return braced("zero := 0", "r := 0", "try {", "	r = 1 / zero", "} catch {", "	r = 7", "}", "@assert r == 7")
	}, ""},
	{'d', "pass-with-defer", true, false, func(i int) string {
		return braced(
			"f := func() int {",
			fmt.Sprintf(`	defer fmt.Println("DEF%d")`, i),
			"	return 5",
			"}",
			"@assert f() == 5")
	}, ""},
	{'r', "pass-with-return", true, false, func(i int) string {
		return braced("x := 1", "if x == 1 {", "	return", "}", "@assert false")
	}, ""},
	{'x', "compile-error-bad-token", false, false, func(i int) string { return braced("x := := 3") }, ""},
	{'u', "undefined-symbol", false, false, func(i int) string {
		return braced(fmt.Sprintf("y := undefinedthing%d + 1", i), "fmt.Println(y)")
	}, ""},
	{'m', "compile-error-missing-close-brace", false, false, func(i int) string {
		return "{\n\tif true {\n\t\tx := 1\n\t\tfmt.Println(x)\n}\n"
	}, ""},
	{'k', "compile-error-extra-close-brace", false, false, func(i int) string {
		return "{\n\tx := 1\n\tfmt.Println(x)\n}\n}\n"
	}, ""},
	{'f', "fail-directive", false, true, func(i int) string { return braced(`@fail "stop"`) }, ""},
	{'P', "pass-with-type", true, false, func(i int) string {
		return braced(typeDecl, "p := point{x: 3, y: 4}", "@assert p.x+p.y == 7")
	}, ""},
	{'A', "assert-fails-after-type", false, false, func(i int) string {
		return braced(typeDecl, "p := point{x: 3, y: 4}", "@assert p.x == 5")
	}, ""},
	{'E', "runtime-error-after-type", false, false, func(i int) string {
		return braced(typeDecl, "p := point{x: 0, y: 4}", "q := p.y / p.x", "fmt.Println(q)")
	}, ""},
	{'X', "bad-token-after-type", false, false, func(i int) string {
		return braced(typeDecl, "p := point{x: 1, y: 2}", "@assert p.x == == 1")
	}, ""},
	{'M', "missing-brace-after-type", false, false, func(i int) string {
		return "{\n\t" + typeDecl + "\n\tp := point{x: 1, y: 2}\n\tif true {\n\t\tfmt.Println(p.x)\n}\n"
	}, "compile-error-missing-close-brace"},
	{'K', "extra-brace-after-type", false, false, func(i int) string {
		return "{\n\t" + typeDecl + "\n\tp := point{x: 1, y: 2}\n\tfmt.Println(p.x)\n}\n}\n"
	}, "compile-error-extra-close-brace"},
}

// typeAlphabet: the kinds that declare the shared type name, next to a plain
// pass, a plain compile error and @fail.
const typeAlphabet = "pPAEXMKxf"

var kindOf = func() map[byte]*kind {
	m := map[byte]*kind{}
	for i := range kinds {
		m[kinds[i].letter] = &kinds[i]
	}

	return m
}()

func testName(prefix string, i int, k *kind) string {
	return fmt.Sprintf("%st%d-%s", prefix, i, k.name)
}

// source is the test file of one sequence. With a prefix (batch mode: several
// files in one `ego test <dir>` run) the file starts with a passing sentinel
// test "<prefix>begin" whose (PASS) line delimits the file's part of the report.
func source(seq string, prefix string) string {
	var sb strings.Builder

	if prefix != "" {
		fmt.Fprintf(&sb, "@test %q\n{\n\t@assert true\n}\n\n", prefix+"begin")
	}

	for i := 0; i < len(seq); i++ {
		k := kindOf[seq[i]]
		fmt.Fprintf(&sb, "@test %q\n%s\n", testName(prefix, i, k), k.body(i))
	}

	return sb.String()
}

type item struct {
	typ  string // PASS FAIL ERR
	name string
}

var (
	reTest    = regexp.MustCompile(`^TEST: (\S+)\s+\((PASS|FAIL|OUTPUT)\)`)
	reSummary = regexp.MustCompile(`^TEST: Completed(?: a total of (\d+))? tests(?:, (\d+) failed)?`)
)

type parsed struct {
	items      []item
	hasSummary bool
	total      int
	failed     int
}

func parse(out string) parsed {
	var p parsed

	for _, ln := range strings.Split(out, "\n") {
		ln = strings.TrimRight(ln, "\r")

		if m := reSummary.FindStringSubmatch(ln); m != nil {
			p.hasSummary = true
			p.total, _ = strconv.Atoi(m[1])
			p.failed, _ = strconv.Atoi(m[2])

			continue
		}

		if m := reTest.FindStringSubmatch(ln); m != nil {
			if m[2] != "OUTPUT" {
				p.items = append(p.items, item{m[2], m[1]})
			}

			continue
		}

		// the indented follow-up line of a failed test
		if strings.HasPrefix(ln, " ") && strings.HasPrefix(strings.TrimLeft(ln, " "), "Error:") {
			p.items = append(p.items, item{"ERR", ""})
		}
	}

	return p
}

type problem struct {
	effect string
	at     int // index of the first affected test, len(seq) for summary/exit problems
	msg    string
}

// judge checks the report of one file against the statement. whole: the report
// is that of a run of this file alone, so the summary line and the status
// (failedStatus: the command ended with an error status) are judged too.
func judge(seq string, prefix string, p parsed, whole bool, failedStatus bool) *problem {
	n := len(seq)
	stop := n
	hasStop := false

	for i := 0; i < n; i++ {
		if kindOf[seq[i]].stops {
			stop = i
			hasStop = true

			break
		}
	}

	name := make([]string, n)
	idx := map[string]int{}

	for i := 0; i < n; i++ {
		name[i] = testName(prefix, i, kindOf[seq[i]])
		idx[name[i]] = i
	}

	passAt := make([][]int, n) // positions in items of PASS lines per test
	failAt := make([][]int, n)

	for pos, it := range p.items {
		if i, ok := idx[it.name]; ok {
			if it.typ == "PASS" {
				passAt[i] = append(passAt[i], pos)
			} else if it.typ == "FAIL" {
				failAt[i] = append(failAt[i], pos)
			}
		}
	}

	var first *problem

	note := func(effect string, at int, f string, a ...any) {
		if first == nil || at < first.at {
			first = &problem{effect, at, fmt.Sprintf(f, a...)}
		}
	}

	// 1. passing tests before the first @fail: exactly one PASS line each, in file order
	lastPos := -1

	for i := 0; i < stop; i++ {
		k := kindOf[seq[i]]
		if !k.passes {
			if len(passAt[i]) > 0 {
				note("failing-test-reported-as-passed", i, "test %s must fail but has a (PASS) line", name[i])
			}

			continue
		}

		switch {
		case len(passAt[i]) == 0 && len(failAt[i]) > 0:
			note("passing-test-reported-as-failed", i, "passing test %s has a (FAIL) line and no (PASS) line", name[i])
		case len(passAt[i]) == 0:
			note("later-tests-lost", i, "passing test %s has no (PASS) line", name[i])
		case len(passAt[i]) > 1:
			note("reported-twice", i, "test %s has %d (PASS) lines", name[i], len(passAt[i]))
		default:
			if len(failAt[i]) > 0 {
				note("passing-test-reported-as-failed", i, "passing test %s also has a (FAIL) line", name[i])
			}

			if passAt[i][0] < lastPos {
				note("out-of-order", i, "(PASS) line of %s is printed before that of an earlier test", name[i])
			}

			lastPos = passAt[i][0]
		}
	}

	// 2. failing tests before the first @fail are visible at their position:
	// between the (PASS) lines of the neighbouring passing tests there is one
	// failure report (a (FAIL) line and/or an indented Error line) per failing test.
	i := 0
	for i < stop {
		if kindOf[seq[i]].passes {
			i++

			continue
		}

		j := i
		for j < stop && !kindOf[seq[j]].passes {
			j++
		}

		// gap of failing tests [i,j); its borders in the item list
		lo := 0

		if i > 0 && len(passAt[i-1]) == 1 {
			lo = passAt[i-1][0] + 1
		} else if i > 0 {
			lo = -1 // the preceding passing test is itself lost: already noted
		}

		hi := len(p.items)

		if j < stop {
			if len(passAt[j]) == 1 {
				hi = passAt[j][0]
			} else {
				hi = -1
			}
		}

		if lo >= 0 && hi >= 0 {
			reports := 0

			for pos := lo; pos < hi; pos++ {
				switch p.items[pos].typ {
				case "FAIL":
					reports++

					if pos+1 < hi && p.items[pos+1].typ == "ERR" {
						pos++
					}
				case "ERR":
					reports++
				}
			}

			if reports < j-i {
				note("later-tests-lost", i+reports, "%d failing test(s) %s.. are expected to be reported between their neighbours but only %d failure report(s) are printed there", j-i, name[i], reports)
			}
		}

		i = j
	}

	// 3. summary counts and exit status (only when the run is not cut by @fail)
	if !whole {
		return first
	}

	if !hasStop {
		wantFailed := 0

		for i := 0; i < n; i++ {
			if !kindOf[seq[i]].passes {
				wantFailed++
			}
		}

		if !p.hasSummary {
			note("summary-wrong", n, "no summary line")
		} else if p.total != n || p.failed != wantFailed {
			note("summary-wrong", n, "summary says %d tests, %d failed; the file has %d tests of which %d fail", p.total, p.failed, n, wantFailed)
		}

		if (wantFailed > 0) != failedStatus {
			note("exit-status-wrong", n, "%d failing tests but error status = %v", wantFailed, failedStatus)
		}
	} else if !failedStatus {
		note("exit-status-wrong", n, "a run stopped by @fail ended with a success status")
	}

	return first
}

// culprit names the block kind held responsible: the last non-passing test
// before the first affected one (the affected test itself if there is none).
func culprit(seq string, at int) string {
	for i := at - 1; i >= 0; i-- {
		if !kindOf[seq[i]].passes {
			return kindOf[seq[i]].cellName()
		}
	}

	if at < len(seq) && !kindOf[seq[at]].passes {
		return kindOf[seq[at]].cellName()
	}

	return "none"
}

type witness struct {
	Seq    string   `json:"kinds"`
	Names  []string `json:"tests"`
	Source string   `json:"file"`
	Output string   `json:"fresh_process_output"`
	Status string   `json:"status"`
}

var (
	rep     *report.R
	scratch string
	fileSeq atomic.Int64
)

func fatal(f string, a ...any) { report.Fatal(f, a...) }

func writeTemp(text string) string {
	p := filepath.Join(scratch, "src", fmt.Sprintf("s%d_test.ego", fileSeq.Add(1)))
	if err := os.WriteFile(p, []byte(text), 0o644); err != nil {
		fatal("write %s: %v", p, err)
	}

	return p
}

func names(seq string) []string {
	out := make([]string, len(seq))
	for i := range out {
		out[i] = testName("", i, kindOf[seq[i]])
	}

	return out
}

type confirmed struct {
	cell string
	size int
	w    witness
	msg  string
}

// confirm runs the file alone in a fresh `ego test` process; only what
// survives here is reported.
func confirm(seq string) *confirmed {
	src := source(seq, "")
	path := writeTemp(src)

	res, err := egobatch.Fresh(scratch, "test", path)
	if err != nil {
		fatal("%v", err)
	}

	_ = os.Remove(path)

	rep.Add("fresh_process_confirmations", 1)

	if res.Died {
		rep.Capped("fresh process for " + seq + ": " + res.Why)

		return nil
	}

	pr := judge(seq, "", parse(res.Out), true, res.Err != "")
	if pr == nil {
		rep.Add("disagreements_not_reproduced_in_fresh_process", 1)

		return nil
	}

	out := strings.ReplaceAll(res.Out, filepath.Base(path), "FILE")
	if len(out) > 2500 {
		out = out[:2500] + "…"
	}

	// among witnesses of one length prefer the one with fewer failing tests
	size := len(seq) * 100

	for i := 0; i < len(seq); i++ {
		if !kindOf[seq[i]].passes {
			size++
		}
	}

	return &confirmed{culprit(seq, pr.at) + ":" + pr.effect, size, witness{seq, names(seq), src, out, res.Err}, pr.msg}
}

func main() {
	if len(os.Args) > 1 && os.Args[1] == "worker" {
		egobatch.WorkerMain()

		return
	}

	if len(os.Args) > 2 && os.Args[1] == "dump" {
		fmt.Print(source(os.Args[2], ""))

		return
	}

	rep = report.New("exploration")
	scratch = os.Getenv("VERIF_SCRATCH")

	if scratch == "" {
		fatal("VERIF_SCRATCH is not set")
	}

	_ = os.MkdirAll(filepath.Join(scratch, "src"), 0o755)

	if rep.Replay != "" {
		var w witness
		if err := report.LoadReplay(rep.Replay, &w); err != nil {
			fatal("%v", err)
		}

		for i := 0; i < len(w.Seq); i++ {
			if kindOf[w.Seq[i]] == nil {
				fatal("replay: unknown block kind %q", w.Seq[i])
			}
		}

		if c := confirm(w.Seq); c != nil {
			rep.Violation(c.cell, c.size, c.w, c.msg)
		}

		rep.Eval(1)
		rep.Finish()
	}

	all := "" // the 14 kinds without type declarations
	for _, k := range kinds {
		if k.letter >= 'a' && k.letter <= 'z' {
			all += string(k.letter)
		}
	}

	// Sweeps. @fail ends the judged part of a file (nothing is demanded of the
	// tests after it), so it is only enumerated as the last test of a sequence.
	type sweep struct {
		alpha string // always holds 'f'
		min   int
		max   int
	}

	// soloSweeps: these sequences are also run alone, without sentinel, with
	// the summary line and the exit status judged.
	var sweeps, soloSweeps []sweep

	if rep.Thorough() {
		sweeps = []sweep{{all, 1, 4}, {"paextf", 5, 5}, {typeAlphabet, 1, 4}}
		soloSweeps = []sweep{{all, 1, 2}, {"poaextfmk", 3, 3}, {typeAlphabet, 1, 3}}
	} else {
		sweeps = []sweep{{all, 1, 3}, {"poaextfmk", 4, 4}, {typeAlphabet, 1, 3}}
		soloSweeps = []sweep{{all, 1, 2}, {typeAlphabet, 1, 2}}
	}

	if ms := os.Getenv("C13_MAXLEN"); ms != "" {
		n, _ := strconv.Atoi(ms)

		var keep []sweep

		for _, s := range sweeps {
			if s.min <= n {
				if s.max > n {
					s.max = n
				}

				keep = append(keep, s)
			}
		}

		sweeps = keep
		keep = nil

		for _, s := range soloSweeps {
			if s.min <= n {
				if s.max > n {
					s.max = n
				}

				keep = append(keep, s)
			}
		}

		soloSweeps = keep

		rep.Capped("C13_MAXLEN=" + ms)
	}

	var plain, stopping, solo []string // sequences without @fail / ending in @fail / run alone

	for _, s := range sweeps {
		letters := strings.Split(strings.ReplaceAll(s.alpha, "f", ""), "")

		for _, q := range enum.AllStrings(letters, s.min, s.max) {
			plain = append(plain, q)
		}

		for _, q := range enum.AllStrings(letters, s.min-1, s.max-1) {
			stopping = append(stopping, q+"f")
		}
	}

	for _, s := range soloSweeps {
		letters := strings.Split(strings.ReplaceAll(s.alpha, "f", ""), "")
		solo = append(solo, enum.AllStrings(letters, s.min, s.max)...)

		for _, q := range enum.AllStrings(letters, s.min-1, s.max-1) {
			solo = append(solo, q+"f")
		}
	}

	// sweeps overlap (sequences over the kinds they share): each sequence once
	dedupe := func(in []string) []string {
		seen := map[string]bool{}
		out := in[:0:0]

		for _, q := range in {
			if !seen[q] {
				seen[q] = true

				out = append(out, q)
			}
		}

		return out
	}

	plain, stopping, solo = dedupe(plain), dedupe(stopping), dedupe(solo)

	// Batches: up to batchSize files in one directory, run by one
	// `ego test <dir>`; a sequence ending in @fail is always the last file.
	const batchSize = 16

	type batch struct{ seqs []string }

	var batches []batch

	{
		si := 0

		for lo := 0; lo < len(plain) || si < len(stopping); {
			var b batch

			for len(b.seqs) < batchSize-1 && lo < len(plain) {
				b.seqs = append(b.seqs, plain[lo])
				lo++
			}

			if si < len(stopping) {
				b.seqs = append(b.seqs, stopping[si])
				si++
			} else if lo < len(plain) {
				b.seqs = append(b.seqs, plain[lo])
				lo++
			}

			batches = append(batches, b)
		}
	}

	pool, err := egobatch.NewPool(scratch, runtime.NumCPU())
	if err != nil {
		fatal("cannot start batch workers: %v", err)
	}

	var (
		mu       sync.Mutex
		badSet   = map[string]bool{}
		kindSeen = map[string]int{}
		dirSeq   atomic.Int64
		reruns   atomic.Int64
	)

	markBad := func(seq string) {
		mu.Lock()
		badSet[seq] = true
		mu.Unlock()
	}

	runSolo := func(seq string) {
		path := writeTemp(source(seq, ""))

		res, err := pool.Run("test", path)
		if err != nil {
			fatal("%v", err)
		}

		_ = os.Remove(path)

		if res.Died {
			rep.Capped("a batch worker died or hung on " + seq + " (" + res.Why + "); no verdict for it")

			return
		}

		if pr := judge(seq, "", parse(res.Out), true, res.Err != ""); pr != nil {
			markBad(seq)
		}
	}

	var runBatch func(seqs []string)

	runBatch = func(seqs []string) {
		if len(seqs) == 1 {
			runSolo(seqs[0])

			return
		}

		dir := filepath.Join(scratch, "src", fmt.Sprintf("b%d", dirSeq.Add(1)))
		_ = os.MkdirAll(dir, 0o755)

		defer os.RemoveAll(dir)

		prefix := make([]string, len(seqs))

		for j, q := range seqs {
			prefix[j] = fmt.Sprintf("b%d", j)

			if err := os.WriteFile(filepath.Join(dir, fmt.Sprintf("f%03d_test.ego", j)), []byte(source(q, prefix[j])), 0o644); err != nil {
				fatal("%v", err)
			}
		}

		res, err := pool.Run("test", dir)
		if err != nil {
			fatal("%v", err)
		}

		if res.Died {
			for _, q := range seqs {
				runSolo(q)
			}

			return
		}

		// cut the report at the sentinels
		all := parse(res.Out)
		start := make([]int, len(seqs))

		for j := range start {
			start[j] = -1
		}

		for pos, it := range all.items {
			if it.typ == "PASS" && strings.HasSuffix(it.name, "begin") {
				for j := range seqs {
					if it.name == prefix[j]+"begin" && start[j] < 0 {
						start[j] = pos
					}
				}
			}
		}

		// Files after the last one that began were never reached (an earlier
		// file stopped the run): they are run again. A file without sentinel
		// that is followed by one that began produced nothing itself.
		lastBegun := -1

		for j := range seqs {
			if start[j] >= 0 {
				lastBegun = j
			}
		}

		for j, q := range seqs {
			if j > lastBegun {
				break
			}

			part := parsed{}

			if start[j] >= 0 {
				end := len(all.items)

				for k := j + 1; k < len(seqs); k++ {
					if start[k] >= 0 {
						end = start[k]

						break
					}
				}

				part.items = all.items[start[j]+1 : end]
			}

			if pr := judge(q, prefix[j], part, false, false); pr != nil {
				markBad(q)
			}
		}

		if lost := seqs[lastBegun+1:]; len(lost) > 0 {
			reruns.Add(1)

			// the last file that began may be what stopped the run: alone, its
			// summary line and status are judged as well
			if lastBegun >= 0 {
				runSolo(seqs[lastBegun])
			}

			if len(lost) == len(seqs) {
				for _, q := range lost {
					runSolo(q)
				}
			} else {
				runBatch(lost)
			}
		}
	}

	nb := len(batches)

	enum.Par(nb+len(solo), func(i int) {
		if i < nb {
			runBatch(batches[i].seqs)
			rep.Eval(len(batches[i].seqs))

			for _, q := range batches[i].seqs {
				rep.Distinct("batch|" + q)
			}

			return
		}

		q := solo[i-nb]
		runSolo(q)
		rep.Eval(1)
		rep.Distinct("solo|" + q)
	})

	pool.Close()

	for i := 3; i < nb && i < 3+4*397; i += 397 {
		q := batches[i].seqs[0]
		rep.Sample(map[string]any{"kinds": q, "tests": names(q), "mode": "one of the files of an `ego test <dir>` run"})
	}

	for i := 5; i < len(solo) && i < 5+2*97; i += 97 {
		q := solo[i]
		rep.Sample(map[string]any{"kinds": q, "tests": names(q), "mode": "file run alone; summary line and exit status judged too"})
	}

	for _, q := range append(append([]string{}, plain...), stopping...) {
		for i := 0; i < len(q); i++ {
			kindSeen[kindOf[q[i]].name]++
		}
	}

	// Confirm in fresh processes. One root cause shows in very many sequences,
	// so only sequences none of whose shorter sub-sequences (one test deleted)
	// already disagree are confirmed and reported with their file; the others
	// are counted under the same rule from the batch run.
	var bad, minimal []string

	for q := range badSet {
		bad = append(bad, q)
	}

	sort.Strings(bad)

	for _, q := range bad {
		isMin := true

		for d := 0; d < len(q) && isMin; d++ {
			if badSet[q[:d]+q[d+1:]] {
				isMin = false
			}
		}

		if isMin {
			minimal = append(minimal, q)
		}
	}

	results := make([]*confirmed, len(minimal))

	enum.Par(len(minimal), func(i int) { results[i] = confirm(minimal[i]) })

	for _, c := range results {
		if c != nil {
			rep.Violation(c.cell, c.size, c.w, c.msg)
		}
	}

	rep.Set("files_in_directory_runs", len(plain)+len(stopping))
	rep.Set("files_run_alone", len(solo))
	rep.Set("directory_runs", nb)
	rep.Set("directory_runs_cut_short_and_rerun", reruns.Load())
	rep.Set("files_disagreeing_in_batch", len(bad))
	rep.Set("minimal_disagreeing_files", len(minimal))
	rep.Set("tests_of_kind", kindSeen)
	rep.Set("batch_worker_restarts", pool.Restarts())

	var desc []string
	for _, s := range sweeps {
		desc = append(desc, fmt.Sprintf("length %d..%d over {%s}", s.min, s.max, s.alpha))
	}

	var sdesc []string
	for _, s := range soloSweeps {
		sdesc = append(sdesc, fmt.Sprintf("length %d..%d over {%s}", s.min, s.max, s.alpha))
	}

	kd := []string{}
	for _, k := range kinds {
		kd = append(kd, string(k.letter)+"="+k.name)
	}

	rep.Rule("every sequence of @test blocks of " + strings.Join(desc, "; ") + " with @fail only as the last block (" + strings.Join(kd, ", ") + "): one test file per sequence, behind a passing sentinel test, " + fmt.Sprint(batchSize) + " files per `ego test <dir>` run; additionally, as the only file of a run with summary line and exit status judged, every sequence of " + strings.Join(sdesc, "; ") + "; distinct = (mode, sequence)")
	rep.Assume(
		"a failed test counts as reported when a (FAIL) line with its name or an indented Error line is printed between the reports of its neighbours (today runtime failures print only the Error line); the exact (FAIL) line is not demanded",
		"nothing is demanded of tests after the first @fail, so sequences with @fail in the middle are not enumerated",
		"bulk runs repeat main.go's app.Run in batch worker processes; only files none of whose one-test-shorter sub-sequences disagree are re-run alone in a fresh `ego test` process and reported; the rest are counted from the batch run",
	)
	rep.Finish()
}

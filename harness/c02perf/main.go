// C02: performance settings never change program behaviour.
//
// E-enum, differential. A generated set of small Ego programs (every statement
// form over every numeric type, plus fixed families of Ego-specific forms) and
// the repository's tests/**.ego corpus are run through the real `ego` command
// line under the baseline (optimizer 0, registers / constant folding / global
// cache off, default symbol allocation) and under every other configuration,
// in each type mode; standard output, error message (line numbers normalised)
// and failure status must be identical. The bulk runs packed (many programs
// per file, each called inside its own try/catch) in batch worker processes
// that repeat ego's main() per command line; every disagreement is re-run,
// alone, in fresh processes of the plain ego binary, twice per side, and only
// a reproducible difference is reported.
package main

import (
	"fmt"
	"sort"

	"github.com/tucats/ego/internal/verifrt/pdiff"
	"github.com/tucats/ego/internal/verifrt/report"
)

func configs(thorough bool) (pdiff.Config, []pdiff.Config, []pdiff.Config) {
	base := pdiff.Config{Opt: 0}

	var all []pdiff.Config

	if thorough {
		// The full product of optimizer level and the three switches; the
		// smallest and a large symbol allocation at the four corners.
		for opt := 0; opt <= 3; opt++ {
			for bits := 0; bits < 8; bits++ {
				c := pdiff.Config{Opt: opt, Reg: bits & 1, Fold: (bits >> 1) & 1, Cache: (bits >> 2) & 1}
				if c != base {
					all = append(all, c)
				}
			}
		}

		for _, alloc := range []int{16, 1024} {
			for _, opt := range []int{0, 2} {
				all = append(all, pdiff.Config{Opt: opt, Alloc: alloc}, pdiff.Config{Opt: opt, Reg: 1, Fold: 1, Cache: 1, Alloc: alloc})
			}
		}
	} else {
		// Single flips. In every type mode: optimizer 2, each switch on alone,
		// everything on. In dynamic mode only: optimizer 1 and 3, optimizer 2
		// with registers or constant folding, all switches on at level 0, the
		// smallest and a large symbol allocation at two corners.
		all = append(all, pdiff.Config{Opt: 1}, pdiff.Config{Opt: 2}, pdiff.Config{Opt: 3})
		all = append(all, pdiff.Config{Reg: 1}, pdiff.Config{Fold: 1}, pdiff.Config{Cache: 1})
		all = append(all, pdiff.Config{Opt: 2, Reg: 1}, pdiff.Config{Opt: 2, Fold: 1})
		all = append(all, pdiff.Config{Reg: 1, Fold: 1, Cache: 1}, pdiff.Config{Opt: 2, Reg: 1, Fold: 1, Cache: 1})
		all = append(all, pdiff.Config{Alloc: 16}, pdiff.Config{Opt: 2, Reg: 1, Fold: 1, Cache: 1, Alloc: 1024})
	}

	sort.SliceStable(all, func(i, j int) bool { return all[i].Deviations() < all[j].Deviations() })

	// The corpus runs through `ego test`, which has no allocation option.
	var corpus []pdiff.Config

	for _, c := range all {
		if c.Alloc != 0 {
			continue
		}

		// Quick: the optimizer alone, the switches alone, both together.
		if on := c.Reg + c.Fold + c.Cache; thorough || (on == 0 && c.Opt == 2) || on == 3 {
			corpus = append(corpus, c)
		}
	}

	return base, all, corpus
}

func main() {
	pdiff.Dispatch()

	r := report.New("exploration")

	base, all, corpus := configs(r.Thorough())
	modes := []string{"dynamic", "relaxed", "strict"}

	plan := &pdiff.Plan{
		Modes:        modes,
		Groups:       []pdiff.Group{{Base: base, Configs: all}},
		CorpusGroups: []pdiff.Group{{Base: base, Configs: corpus}},
		CorpusModes:  modes,
		PackSize:     40,
		ConfirmCap:   2,
	}

	if !r.Thorough() {
		plan.CorpusDirs = pdiff.CoreCorpusDirs
		plan.CorpusDirsPerRun = len(pdiff.CoreCorpusDirs) // one `ego test` command line per pass
		plan.ComboModes = []string{"dynamic"}
		plan.AllModes = map[string]bool{}

		for _, c := range []pdiff.Config{{Opt: 2}, {Reg: 1}, {Fold: 1}, {Cache: 1}, {Opt: 2, Fold: 1}, {Opt: 2, Reg: 1, Fold: 1, Cache: 1}} {
			plan.AllModes[c.Label()] = true
		}
	}

	r.Rule(fmt.Sprintf("programs: every statement form (16 assignment/increment shapes, comparisons, constant expressions, loops, package constants, globals, closures, try/catch, collections, structs, strings, dynamic typing, control flow, scopes, aborting programs) over every numeric type and the listed initial values/constants%s; each program x %d configurations (optimizer 0-3 x registers/constfold/globalcache %s) x type modes against the baseline (optimizer 0, all three off); plus every test block of the tests/**.ego corpus (quick: the 13 language-core directories; thorough: all but ai/server/sql/tables) under %d configurations. distinct = (mode, program) that produces output or an error under the baseline, and (mode, corpus test block) stable in two baseline runs",
		map[bool]string{false: "", true: " and every ordered pair of statement forms on one variable"}[r.Thorough()],
		len(all), map[bool]string{false: "as single flips: in all 3 modes optimizer 2, each switch on alone, optimizer 2 with constfold, everything on; in dynamic mode optimizer 1 and 3, optimizer 2 with registers, all switches on at level 0, symbol allocation 16 and 1024 at two corners", true: "in all 8 combinations, plus symbol allocation 16 and 1024 at the four corners (optimizer 0/2 x all switches off/on)"}[r.Thorough()], len(corpus)))
	r.Assume("the batch worker repeats ego's main() in one process per configuration; state leaking between its items can hide a difference but cannot raise one, because every disagreement is re-run in fresh `ego run` processes (twice per side) before it is reported",
		"error messages are compared with source line numbers normalised",
		"corpus test blocks whose text differs between two baseline runs (timings, ports, environment) are not compared; tests/{ai,server,sql,tables} are not run")

	if r.Replay != "" {
		var w pdiff.Witness
		if err := report.LoadReplay(r.Replay, &w); err != nil {
			report.Fatal("%v", err)
		}

		pdiff.Replay(r, plan, w)
		r.Finish()
	}

	plan.Progs = pdiff.Generate(r.Thorough())

	for i := 0; i < len(plan.Progs); i += len(plan.Progs)/5 + 1 {
		p := plan.Progs[i]
		r.Sample(map[string]any{"form": p.Form, "type": p.Typ, "variant": p.Variant, "body": p.Body})
	}

	r.Set("configurations", len(all)+1)
	r.Set("corpus_configurations", len(corpus)+1)
	r.Set("type_modes", len(modes))

	pdiff.Run(r, plan)
	r.Finish()
}

// C33: for every semicolon-terminated script, the minified script (with or
// without local renaming) is valid JavaScript and behaves like the original;
// property names, file-scope names and globals are never renamed; every
// shipped dashboard file still parses after minification.
//
// Bounded-exhaustive: every sequence of up to L statements over the statement
// catalogue (catalogue.go) with names from a small pool is minified by the real
// javascript.Minify with renaming off and on; original and minified texts are
// run by node (runner.js) and must log the same values, end the same way and
// leave the same file-scope bindings behind. The shipped dashboard scripts are
// minified, parsed, and compared with their originals as syntax trees
// (identical without renaming, identical up to a consistent renaming of locals
// with renaming).
package main

import (
	"bufio"
	_ "embed"
	"encoding/json"
	"fmt"
	"io"
	"os"
	"os/exec"
	"path/filepath"
	"runtime"
	"sort"
	"strings"
	"sync"
	"time"

	"github.com/tucats/ego/internal/util/javascript"
	"github.com/tucats/ego/internal/verifrt/enum"
	"github.com/tucats/ego/internal/verifrt/report"
)

//go:embed runner.js
var runnerJS []byte

//go:embed alpha.js
var alphaJS []byte

// ── atoms and programs ──────────────────────────────────────────────────────

type atom struct {
	t    int // index in catalogue
	n, m string
}

func (a atom) key() string { return fmt.Sprintf("%d.%s.%s", a.t, a.n, a.m) }

func (a atom) render(pos int) string {
	s := catalogue[a.t].text
	s = strings.ReplaceAll(s, "§F", fmt.Sprintf("f%d", pos))
	s = strings.ReplaceAll(s, "§N", a.n)
	s = strings.ReplaceAll(s, "§M", a.m)

	return s
}

// atomsOver instantiates every template with every name of pool (two-hole
// templates with every ordered pair of different names; templates without a
// name hole once).
func atomsOver(pool []string) []atom {
	var out []atom

	for i, t := range catalogue {
		hasN, hasM := strings.Contains(t.text, "§N"), strings.Contains(t.text, "§M")

		switch {
		case !hasN:
			out = append(out, atom{t: i})
		case !hasM:
			for _, n := range pool {
				out = append(out, atom{t: i, n: n})
			}
		default:
			for _, n := range pool {
				for _, m := range pool {
					if m != n {
						out = append(out, atom{t: i, n: n, m: m})
					}
				}
			}
		}
	}

	return out
}

func programText(seq []atom) string {
	parts := make([]string, len(seq))
	for i, a := range seq {
		parts[i] = a.render(i + 1)
	}

	return strings.Join(parts, "\n")
}

// ── node workers ────────────────────────────────────────────────────────────

type nodeProc struct {
	cmd *exec.Cmd
	in  io.WriteCloser
	out *bufio.Reader
}

var jsDir string

func startNode() *nodeProc {
	cmd := exec.Command("node", "--expose-internals", "--no-warnings", filepath.Join(jsDir, "runner.js"))
	cmd.Stderr = os.Stderr

	in, err := cmd.StdinPipe()
	if err != nil {
		report.Fatal("node: %v", err)
	}

	out, err := cmd.StdoutPipe()
	if err != nil {
		report.Fatal("node: %v", err)
	}

	if err := cmd.Start(); err != nil {
		report.Fatal("cannot start node: %v", err)
	}

	return &nodeProc{cmd: cmd, in: in, out: bufio.NewReaderSize(out, 1<<20)}
}

func (p *nodeProc) stop() {
	_ = p.in.Close()
	_ = p.cmd.Process.Kill()
	_, _ = p.cmd.Process.Wait()
}

// call sends one request and waits for the answer. ok=false means the worker
// did not answer within the watchdog (never a verdict); the worker is dead then.
func (p *nodeProc) call(req any, ans any) (ok bool) {
	b, err := json.Marshal(req)
	if err != nil {
		report.Fatal("marshal: %v", err)
	}

	type rd struct {
		line []byte
		err  error
	}

	ch := make(chan rd, 1)

	go func() {
		if _, err := p.in.Write(append(b, '\n')); err != nil {
			ch <- rd{nil, err}

			return
		}

		line, err := p.out.ReadBytes('\n')
		ch <- rd{line, err}
	}()

	select {
	case r := <-ch:
		if r.err != nil {
			report.Fatal("node worker died: %v", r.err)
		}

		if err := json.Unmarshal(r.line, ans); err != nil {
			report.Fatal("bad answer from node: %v: %.200s", err, r.line)
		}

		return true
	case <-time.After(10 * time.Minute):
		p.stop()

		return false
	}
}

type pool struct{ ch chan *nodeProc }

func newPool(n int) *pool {
	p := &pool{ch: make(chan *nodeProc, n)}
	for i := 0; i < n; i++ {
		p.ch <- startNode()
	}

	return p
}

func (p *pool) get() *nodeProc  { return <-p.ch }
func (p *pool) put(n *nodeProc) { p.ch <- n }
func (p *pool) close() {
	for {
		select {
		case n := <-p.ch:
			n.stop()
		default:
			return
		}
	}
}

type item struct {
	N []string `json:"n"`
	O string   `json:"o"`
	V []string `json:"v"`
}

type batchReq struct {
	T     string `json:"t"`
	Items []item `json:"items"`
}

// namesIn returns the pool names that occur in text as identifiers. Only
// those exist as host globals for that program (and are probed afterwards), so
// a short name the minifier makes up can never be a host global by accident.
func namesIn(text string, pool []string) []string {
	out := []string{}

	for _, n := range pool {
		for i := 0; i+len(n) <= len(text); i++ {
			if text[i:i+len(n)] == n && (i == 0 || !identByte(text[i-1])) && (i+len(n) == len(text) || !identByte(text[i+len(n)])) {
				out = append(out, n)

				break
			}
		}
	}

	return out
}

func identByte(b byte) bool {
	return b == '_' || b == '$' || (b >= '0' && b <= '9') || (b >= 'a' && b <= 'z') || (b >= 'A' && b <= 'Z')
}

type itemAns struct {
	F int    `json:"f"`
	O string `json:"o"`
	G string `json:"g"`
}

type batchAns struct {
	R     []*itemAns `json:"r"`
	Error string     `json:"error"`
}

// ── judging programs ────────────────────────────────────────────────────────

type outcome struct {
	invalid  bool   // the original is not a valid program: not a case
	variant  string // "" = held; "strip" = fails without renaming; "rename" = fails only with renaming
	kind     string // parse | behaviour
	renamed  bool   // renaming changed the text
	minified string
	want     string
	got      string
	evals    int
}

// judgeBatch minifies every text with renaming off and on, has node run the
// original and the minified texts and compares. ok=false: the node worker did
// not answer within the watchdog (never a verdict).
func judgeBatch(np *pool, texts []string, names []string) (out []outcome, ok bool) {
	req := batchReq{T: "batch", Items: make([]item, len(texts))}
	out = make([]outcome, len(texts))

	for i, text := range texts {
		off := string(javascript.Minify([]byte(text), false))
		on := string(javascript.Minify([]byte(text), true))
		out[i].renamed = on != off
		req.Items[i] = item{N: namesIn(text, names), O: text, V: []string{off}}

		if out[i].renamed {
			req.Items[i].V = append(req.Items[i].V, on)
		}
	}

	if d := os.Getenv("VERIF_C33_SAVE"); d != "" && len(texts) > 100 { // debugging aid
		b, _ := json.Marshal(req)
		fh, _ := os.OpenFile(d, os.O_APPEND|os.O_CREATE|os.O_WRONLY, 0o644)
		_, _ = fh.Write(append(b, '\n'))
		fh.Close()
	}

	var ans batchAns

	n := np.get()
	if !n.call(req, &ans) {
		np.put(startNode())

		return nil, false
	}

	np.put(n)

	if ans.Error != "" || len(ans.R) != len(texts) {
		report.Fatal("runner: %d answers for %d programs: %s", len(ans.R), len(texts), ans.Error)
	}

	for i, a := range ans.R {
		o := &out[i]

		switch {
		case a == nil:
			o.invalid = true
		case a.F < 0:
			o.evals = len(req.Items[i].V)
		default:
			o.evals = a.F + 1
			o.variant = []string{"strip", "rename"}[a.F]
			o.kind = "behaviour"

			if strings.HasPrefix(a.G, "parse:") {
				o.kind = "parse"
			}

			o.minified, o.want, o.got = req.Items[i].V[a.F], a.O, a.G
		}
	}

	return out, true
}

type progWitness struct {
	Cell       string   `json:"cell"`
	Statements []string `json:"statements,omitempty"`
	Program    string   `json:"program"`
	Variant    string   `json:"variant"`
	Minified   string   `json:"minified"`
	Original   string   `json:"original_result"`
	Result     string   `json:"minified_result"`
	Names      []string `json:"names"`
	File       string   `json:"file,omitempty"`
}

type failure struct {
	seq []atom
	o   outcome
}

func message(o outcome) string {
	what := "with renaming off"
	if o.variant == "rename" {
		what = "with renaming on (the output without renaming behaves like the original)"
	}

	if o.kind == "parse" {
		return fmt.Sprintf("the minified script %s is not valid JavaScript: %s", what, strings.TrimPrefix(o.got, "parse:"))
	}

	return fmt.Sprintf("the minified script %s does not behave like the original: [log lines, outcome, file-scope values of the pool names afterwards] original %s, minified %s", what, clip(o.want, 300), clip(o.got, 300))
}

func clip(s string, n int) string {
	if len(s) > n {
		return s[:n] + "…"
	}

	return s
}

// ── main ────────────────────────────────────────────────────────────────────

func main() {
	r := report.New("exploration")
	repo := os.Getenv("VERIF_REPO")

	if repo == "" {
		repo = "/repo"
	}

	scratch := os.Getenv("VERIF_SCRATCH")
	if scratch == "" {
		scratch = os.TempDir()
	}

	jsDir = filepath.Join(scratch, "c33js")
	if err := os.MkdirAll(jsDir, 0o755); err != nil {
		report.Fatal("%v", err)
	}

	if err := os.WriteFile(filepath.Join(jsDir, "runner.js"), runnerJS, 0o644); err != nil {
		report.Fatal("%v", err)
	}

	if err := os.WriteFile(filepath.Join(jsDir, "alpha.js"), alphaJS, 0o644); err != nil {
		report.Fatal("%v", err)
	}

	workers := runtime.NumCPU()
	if r.Replay != "" {
		workers = 1
	}

	t0 := time.Now()
	phase := func(what string) {
		if os.Getenv("VERIF_C33_TIMING") != "" {
			fmt.Fprintf(os.Stderr, "c33: %6.1fs %s\n", time.Since(t0).Seconds(), what)
		}
	}

	np := newPool(workers)
	phase("node workers started")

	var ping struct {
		Acorn bool   `json:"acorn"`
		Node  string `json:"node"`
	}

	{
		n := np.get()
		if !n.call(map[string]string{"t": "ping"}, &ping) {
			report.Fatal("node does not answer")
		}

		np.put(n)
	}

	r.Set("node_version", ping.Node)
	r.Set("syntax_tree_comparison_available", ping.Acorn)

	// x: an ordinary name; a: the first short name the minifier hands out;
	// thorough adds b (the second short name) and k (a second ordinary name).
	poolNames := []string{"x", "a"}
	if r.Thorough() {
		poolNames = append(poolNames, "b", "k")
	}

	// names that are host globals when a program mentions them: the pool and b
	// (the "taken-*" templates use a and b as fixed names in every tier)
	hostNames := append([]string{}, poolNames...)
	if !r.Thorough() {
		hostNames = append(hostNames, "b")
	}

	// Tiers. Level 1 and 2: every sequence over the atoms of the full pool.
	// Level 3: every sequence over the atoms of a smaller pool (renaming is
	// decided per name, so statements interact when they share a name).
	full := atomsOver(poolNames)
	// Level 3, quick: the declaration, use and plain-local templates with the
	// one name x (second name a). Thorough: every renaming template with the name x.
	var level3 []atom

	for _, a := range full {
		if (a.n != "" && a.n != "x") || (a.m != "" && a.m != "a") {
			continue
		}

		// (tokenizer templates react to their neighbours only: pairs cover them)
		if (r.Thorough() && !catalogue[a.t].lex) || level3Core(catalogue[a.t]) {
			level3 = append(level3, a)
		}
	}

	levels := [][]atom{nil, full, full, level3}

	r.Rule(fmt.Sprintf("programs = every sequence of 1 and 2 statements over %d statement instances (%d templates of harness/c33jsmin/catalogue.go × names %v) and every sequence of 3 statements over %d instances (%s); each program is minified by javascript.Minify with shortenNames=false and =true and all texts are run by node; distinct = program text for which renaming changed the output or which contains a tokenizer/emitter template; plus the shipped .js files under lib/assets",
		len(full), len(catalogue), poolNames, len(level3), map[bool]string{false: "the file-scope declaration, global/property use and plain local templates with the name x, second name a", true: "every template except the tokenizer/emitter ones, with the name x, second name a"}[r.Thorough()]))
	r.Assume("node "+ping.Node+" is the reference for what is valid JavaScript and for what a script does",
		"a program's observable result = the values passed to console.log in order, whether it ends normally or with which error class, and the value each pool name has at file scope afterwards (read by a closure appended after the minified text, as another script on the page would); function source text and error messages are not compared",
		"programs run as the body of a sloppy-mode function whose enclosing function's parameters play the host globals (console, o, and the pool names that occur in the program), the same wrapper for original and minified text; validity is judged by compiling the bare text as a Script",
		"the minifier hands out short names in map-iteration order; a name it can make up is never an identifier of the program nor a host global of that run, so the verdict does not depend on that order")

	if r.Replay != "" {
		var w progWitness
		if err := report.LoadReplay(r.Replay, &w); err != nil {
			report.Fatal("%v", err)
		}

		if w.File != "" {
			judgeFile(r, np, repo, w.File)
		} else {
			os2, ok := judgeBatch(np, []string{w.Program}, w.Names)
			if !ok {
				report.Fatal("node did not answer")
			}

			o := os2[0]
			r.Eval(o.evals)

			if o.variant != "" {
				w.Minified, w.Original, w.Result, w.Variant = o.minified, o.want, o.got, o.variant
				r.Violation(w.Cell, len(w.Program), w, message(o))
			}
		}

		np.close()
		r.Finish()
	}

	var (
		mu       sync.Mutex
		invalid  int64
		hung     int64
		programs int64
		renamedN int64
		minimal  = map[string]string{} // variant|kind|atom keys -> cell
	)

	for L := 1; L <= 3; L++ {
		atoms := levels[L]
		k := len(atoms)
		total := enum.Count(k, L, L)

		var fails []failure

		const batch = 200

		nb := (total + batch - 1) / batch

		enum.Par(nb, func(bi int) {
			lo, hi := bi*batch, (bi+1)*batch
			if hi > total {
				hi = total
			}

			seqs := make([][]atom, 0, hi-lo)
			texts := make([]string, 0, hi-lo)

			for i := lo; i < hi; i++ {
				seq := make([]atom, L)
				x := i

				for p := L - 1; p >= 0; p-- {
					seq[p] = atoms[x%k]
					x /= k
				}

				seqs = append(seqs, seq)
				texts = append(texts, programText(seq))
			}

			outs, ok := judgeBatch(np, texts, hostNames)
			if !ok {
				mu.Lock()
				hung += int64(len(texts))
				mu.Unlock()

				return
			}

			var evals int

			mu.Lock()
			defer mu.Unlock()

			for i, o := range outs {
				if o.invalid {
					invalid++

					continue
				}

				evals += o.evals
				programs++

				lex := false
				for _, a := range seqs[i] {
					lex = lex || catalogue[a.t].lex
				}

				if o.renamed || lex {
					r.Distinct(texts[i])
				}

				if o.renamed {
					renamedN++
				}

				if o.variant != "" {
					fails = append(fails, failure{seqs[i], o})
				}
			}

			r.Eval(evals)
		})

		// Attribute failures: a failing program that contains a shorter failing
		// program (as a subsequence, same variant and kind) belongs to that
		// one's cell; otherwise it is a minimal failure and names a cell itself.
		sort.Slice(fails, func(i, j int) bool { return programText(fails[i].seq) < programText(fails[j].seq) })

		if d := os.Getenv("VERIF_C33_DUMP"); d != "" { // debugging aid: every failing program of this run
			fh, _ := os.OpenFile(d, os.O_APPEND|os.O_CREATE|os.O_WRONLY, 0o644)
			for _, f := range fails {
				fmt.Fprintf(fh, "%s|%s|%q\n", f.o.variant, f.o.kind, programText(f.seq))
			}

			fh.Close()
		}

		phase(fmt.Sprintf("level %d run", L))

		// pass 1: which failures are minimal
		cells := make([]string, len(fails))

		var fresh []int

		for i, f := range fails {
			for _, sub := range properSubsequences(f.seq) {
				if c, ok := minimal[f.o.variant+"|"+f.o.kind+"|"+seqKey(sub)]; ok {
					cells[i] = c

					break
				}
			}

			if cells[i] == "" {
				fresh = append(fresh, i)
			}
		}

		// pass 2: name the cells of the minimal ones
		enum.Par(len(fresh), func(j int) {
			f := fails[fresh[j]]
			cell := f.o.variant + ":" + f.o.kind + ":" + cellName(f.seq)

			if f.o.variant == "rename" && f.o.kind == "behaviour" && ping.Acorn {
				cell = renameCell(np, f)
			}

			cells[fresh[j]] = cell
		})

		for _, i := range fresh {
			f := fails[i]
			minimal[f.o.variant+"|"+f.o.kind+"|"+seqKey(f.seq)] = cells[i]
		}

		r.Set(fmt.Sprintf("minimal_failing_programs_of_%d_statements", L), len(fresh))
		phase(fmt.Sprintf("level %d attributed", L))

		for i, f := range fails {
			text := programText(f.seq)
			stmts := make([]string, len(f.seq))

			for k2, a := range f.seq {
				stmts[k2] = catalogue[a.t].tag
			}

			r.Violation(cells[i], L*100000+len(text), progWitness{Cell: cells[i], Statements: stmts, Program: text, Variant: f.o.variant, Minified: f.o.minified,
				Original: f.o.want, Result: f.o.got, Names: hostNames}, message(f.o))
		}

		r.Set(fmt.Sprintf("programs_of_%d_statements", L), total)
	}

	if hung > 0 {
		r.Capped(fmt.Sprintf("%d programs did not finish in node within the watchdog and were not judged", hung))
	}

	r.Set("programs_judged", programs)
	r.Set("programs_with_renamed_locals", renamedN)
	r.Set("sequences_skipped_original_not_valid", invalid)
	r.Set("statement_templates", len(catalogue))
	r.Set("statement_instances", len(full))

	for _, s := range [][]atom{{find("shorthand-local", "x", "")}, {find("file-var", "x", ""), find("param", "x", "")}, {find("local-and-global", "x", "a"), find("top-key", "x", "")}} {
		text := programText(s)
		r.Sample(map[string]any{"program": text, "minified_renamed": string(javascript.Minify([]byte(text), true))})
	}

	// Shipped scripts.
	var files []string

	_ = filepath.Walk(filepath.Join(repo, "lib", "assets"), func(p string, info os.FileInfo, err error) error {
		if err == nil && !info.IsDir() && strings.HasSuffix(p, ".js") {
			files = append(files, p)
		}

		return nil
	})

	sort.Strings(files)

	if len(files) == 0 {
		report.Fatal("no .js file under %s/lib/assets", repo)
	}

	shipped := []any{}

	for _, f := range files {
		rel, _ := filepath.Rel(repo, f)
		shipped = append(shipped, judgeFile(r, np, repo, rel))
		r.Distinct("file|" + rel)
	}

	phase("shipped files judged")
	r.Set("shipped", shipped)
	r.Sample(map[string]any{"shipped_files": shipped})
	np.close()
	r.Finish()
}

var level3Tags = map[string]bool{
	"file-var": true, "file-let": true, "file-function": true, "file-block-var": true, "file-block-let": true,
	"top-ref": true, "top-template": true, "top-shorthand": true, "top-key": true, "top-method": true, "top-assign": true,
	"param": true, "local-var": true, "closure": true, "shorthand-local": true, "key-and-member": true, "destructure-local": true, "local-and-global": true,
	"global-in-function": true, "global-write": true,
}

func level3Core(t tpl) bool { return level3Tags[t.tag] }

func find(tag, n, m string) atom {
	for i, t := range catalogue {
		if t.tag == tag {
			return atom{t: i, n: n, m: m}
		}
	}

	report.Fatal("no template %s", tag)

	return atom{}
}

func seqKey(seq []atom) string {
	ks := make([]string, len(seq))
	for i, a := range seq {
		ks[i] = a.key()
	}

	return strings.Join(ks, ",")
}

func properSubsequences(seq []atom) [][]atom {
	var out [][]atom

	n := len(seq)
	for mask := 1; mask < (1<<n)-1; mask++ {
		var s []atom

		for i := 0; i < n; i++ {
			if mask&(1<<i) != 0 {
				s = append(s, seq[i])
			}
		}

		out = append(out, s)
	}

	sort.SliceStable(out, func(i, j int) bool { return len(out[i]) < len(out[j]) })

	return out
}

// renameCell names the cell of a minimal failure that only shows with
// renaming: what the scope-aware tree comparison finds first (a global, a
// property, a file-scope name renamed, a reference left unbound…) and the
// statement it sits in (its tag when the program is that one statement, its
// role otherwise).
func renameCell(np *pool, f failure) string {
	text := programText(f.seq)

	var ans struct {
		Alpha any    `json:"alpha"`
		Kind  string `json:"kind"`
		At    int    `json:"at"`
	}

	n := np.get()
	if !n.call(map[string]string{"t": "alpha", "o": text, "v": f.o.minified}, &ans) {
		report.Fatal("node did not answer")
	}

	np.put(n)

	if ans.Kind == "" || ans.Kind == "error" {
		return "rename:behaviour:" + cellName(f.seq)
	}

	if len(f.seq) == 1 {
		return "rename:" + ans.Kind + ":" + catalogue[f.seq[0].t].tag
	}

	idx, off := 0, 0

	for i, a := range f.seq {
		l := len(a.render(i+1)) + 1
		if ans.At < off+l {
			idx = i

			break
		}

		off += l
		idx = i
	}

	cls := catalogue[f.seq[idx].t].cls
	if i := strings.LastIndex(cls, "+"); i >= 0 {
		cls = cls[i+1:]
	}

	return "rename:" + ans.Kind + ":" + cls
}

// cellName: the statement's own tag for a one-statement failure, the sorted
// set of statement roles for a failure that needs several statements.
func cellName(seq []atom) string {
	if len(seq) == 1 {
		return catalogue[seq[0].t].tag
	}

	set := map[string]bool{}
	for _, a := range seq {
		for _, c := range strings.Split(catalogue[a.t].cls, "+") {
			set[c] = true
		}
	}

	var cls []string
	for c := range set {
		cls = append(cls, c)
	}

	sort.Strings(cls)

	return strings.Join(cls, "+")
}

type fileAns struct {
	O         *string   `json:"o"`
	V         []*string `json:"v"`
	AST       any       `json:"ast"`
	Nodes     int       `json:"nodes"`
	Alpha     any       `json:"alpha"`
	AlphaKind string    `json:"alphaKind"`
	Bindings  int       `json:"bindings"`
	Renamed   int       `json:"renamed"`
	Error     string    `json:"error"`
}

func judgeFile(r *report.R, np *pool, repo, rel string) map[string]any {
	b, err := os.ReadFile(filepath.Join(repo, rel))
	if err != nil {
		report.Fatal("%v", err)
	}

	off := string(javascript.Minify(b, false))
	on := string(javascript.Minify(b, true))

	var ans fileAns

	n := np.get()
	if !n.call(map[string]any{"t": "file", "o": string(b), "v": []string{off, on}}, &ans) {
		report.Fatal("node did not answer for %s", rel)
	}

	np.put(n)

	if ans.Error != "" {
		report.Fatal("runner: %s", ans.Error)
	}

	if ans.O != nil {
		report.Fatal("%s itself is not valid JavaScript: %s", rel, *ans.O)
	}

	info := map[string]any{"file": rel, "bytes": len(b), "minified_bytes": len(off), "syntax_tree_nodes": ans.Nodes, "bindings": ans.Bindings, "bindings_renamed": ans.Renamed}
	w := func(variant, min string) progWitness {
		return progWitness{File: rel, Variant: variant, Program: clip(string(b), 200), Minified: clip(min, 200), Names: []string{}}
	}

	for i, variant := range []string{"strip", "rename"} {
		r.Eval(1)

		if ans.V[i] != nil {
			wit := w(variant, []string{off, on}[i])
			wit.Cell = "shipped:parse:" + variant
			r.Violation(wit.Cell, len(b), wit, fmt.Sprintf("%s is not valid JavaScript after minification (%s): %s", rel, variant, *ans.V[i]))
		}
	}

	if s, ok := ans.AST.(string); ok && s != "unavailable" {
		wit := w("strip", off)
		wit.Cell = "shipped:tree-changed:strip"
		r.Violation(wit.Cell, len(b), wit, fmt.Sprintf("%s: the syntax tree of the minified file (no renaming) differs from the original's at %s", rel, s))
	}

	if s, ok := ans.Alpha.(string); ok && s != "unavailable" {
		wit := w("rename", on)
		wit.Cell = "shipped:rename:" + ans.AlphaKind
		r.Violation(wit.Cell, len(b), wit, fmt.Sprintf("%s minified with renaming is not the original with locals consistently renamed: %s", rel, s))
	}

	return info
}

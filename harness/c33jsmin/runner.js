// C33 reference side: runs the original and the minified text of generated
// programs in node and reports what each of them did. One JSON request per
// line on stdin, one JSON answer per line on stdout.
//
// request {t:"batch", items:[{n:[<host global names>], o:<original>, v:[<minified>, ...]}, ...]}
//   answer {r:[null | {f:-1} | {f:<index of the first differing variant>, o:<result>, g:<result>}, ...]}
//   result = "parse:<SyntaxError text>" when the text is not a valid Script,
//            otherwise a JSON string of [trace, outcome, probe].
// request {t:"file", o:<original>, v:[<minified without renaming>, <with renaming>]}
//   answer {o:<parse result>, v:[...], ast:<null | first AST difference original vs v[0] | "unavailable">}
'use strict';
const vm = require('vm');
const readline = require('readline');

let acorn = null;
try { acorn = require('internal/deps/acorn/acorn/dist/acorn'); } catch (e) { acorn = null; }

function fmt(v, depth) {
  depth = depth || 0;
  switch (typeof v) {
    case 'function': return '[fn]';
    case 'undefined': return 'undefined';
    case 'string': return JSON.stringify(v);
    case 'number': return Object.is(v, -0) ? '-0' : String(v);
    case 'boolean': return String(v);
    case 'bigint': return String(v) + 'n';
    case 'symbol': return '[sym]';
  }
  if (v === null) return 'null';
  if (depth > 4) return '[deep]';
  if (Array.isArray(v)) return '[' + v.map((x) => fmt(x, depth + 1)).join(',') + ']';
  const tag = Object.prototype.toString.call(v);
  if (tag === '[object RegExp]') return 'RegExp(' + v.source + ',' + v.flags + ')';
  if (tag === '[object Error]') return 'Error(' + v.name + ')';
  if (tag === '[object Date]') return 'Date(' + v.getTime() + ')';
  const keys = Object.getOwnPropertyNames(v);
  return '{' + keys.map((k) => {
    let s;
    try { s = fmt(v[k], depth + 1); } catch (e) { s = '!' + (e && e.name); }
    return JSON.stringify(k) + ':' + s;
  }).join(',') + '}';
}

function parseCheck(code) {
  try { new vm.Script(code, { filename: 'program.js' }); return null; } catch (e) { return 'parse:' + (e && e.name) + ': ' + (e && e.message); }
}

// run executes code as the body of a function nested in a function whose
// parameters are the host globals (console, o, one per pool name). A probe
// closure declared after the program (and so never seen by the minifier)
// reads every pool name in the program's file scope afterwards, the way a
// second script or an inline handler sharing the page would.
const baseGlobals = new Set(Object.getOwnPropertyNames(globalThis));
let probeNames = '', probeSrc = '';

function run(code, names) {
  const pe = parseCheck(code);
  if (pe) return pe;
  if (probeNames !== names.join(',')) {
    probeNames = names.join(',');
    probeSrc = 'function __probe(){return [' + names.map((n) =>
      '(function(){try{return typeof ' + n + '==="undefined"?"undef":__h.fmt(' + n + ')}catch(e){return "!"+e.name}})()').join(',') + '];}';
  }
  const trace = [];
  const h = { probe: null, fmt };
  let fn;
  try {
    fn = new vm.Script('(function(console,o,__h,' + probeNames + '){return (function(){__h.probe=__probe;\n' + code + '\n;' + probeSrc + '\n}).call(undefined);})',
      { filename: 'wrapped.js' }).runInThisContext();
  } catch (e) {
    return 'parse:wrapped:' + (e && e.name) + ': ' + (e && e.message);
  }
  const o = {};
  for (const n of names) o[n] = 'o' + n;
  o.z = 'oz';
  const con = { log: (...a) => { trace.push(a.map((x) => fmt(x)).join(' ')); } };
  let outcome = 'ok';
  try { fn(con, o, h, ...names.map((n) => 'G' + n)); } catch (e) { outcome = 'throw:' + (e && e.name); }
  let probe;
  try { probe = h.probe ? h.probe() : ['no-probe']; } catch (e) { probe = ['!probe:' + (e && e.name)]; }
  // a broken variant may have created globals by assigning to an unbound name
  for (const k of Object.getOwnPropertyNames(globalThis)) if (!baseGlobals.has(k)) delete globalThis[k];
  return JSON.stringify([trace, outcome, probe]);
}

// ── AST comparison for the shipped files ────────────────────────────────────
function strip(n) {
  if (Array.isArray(n)) return n.map(strip);
  if (n instanceof RegExp) return String(n);
  if (typeof n === 'bigint') return String(n) + 'n';
  if (n && typeof n === 'object') {
    const out = {};
    for (const k of Object.keys(n)) { if (k !== 'start' && k !== 'end') out[k] = strip(n[k]); }
    return out;
  }
  return n;
}
function firstDiff(a, b, path) {
  if (typeof a !== typeof b) return path + ': ' + typeof a + ' vs ' + typeof b;
  if (a === null || b === null || typeof a !== 'object') return a === b ? null : path + ': ' + JSON.stringify(a) + ' vs ' + JSON.stringify(b);
  if (Array.isArray(a) !== Array.isArray(b)) return path + ': array vs object';
  for (const k of new Set([...Object.keys(a), ...Object.keys(b)])) {
    const d = firstDiff(a[k], b[k], path + '.' + k);
    if (d) return d;
  }
  return null;
}
function countNodes(n) {
  if (Array.isArray(n)) return n.reduce((s, x) => s + countNodes(x), 0);
  if (n && typeof n === 'object') { let s = typeof n.type === 'string' ? 1 : 0; for (const k of Object.keys(n)) s += countNodes(n[k]); return s; }
  return 0;
}

const alpha = require('./alpha.js');

// one program: null = the original is not a program; otherwise
// {f: -1} = every variant gave the original's result, or
// {f: i, o: original result, g: result of variant i} for the first that did not.
function prog(item, names) {
  const o = run(item.o, names);
  if (o.startsWith('parse:')) return null;
  for (let i = 0; i < item.v.length; i++) {
    const g = run(item.v[i], names);
    if (g !== o) return { f: i, o, g };
  }
  return { f: -1 };
}

function handle(req) {
  if (req.t === 'batch') return { r: req.items.map((it) => prog(it, it.n)) };
  if (req.t === 'file') {
    const ans = { o: parseCheck(req.o), v: req.v.map(parseCheck), ast: 'unavailable', nodes: 0, alpha: 'unavailable', bindings: 0, renamed: 0 };
    if (acorn && !ans.o) {
      const opt = { ecmaVersion: 'latest', sourceType: 'script' };
      const A = acorn.parse(req.o, opt);
      ans.nodes = countNodes(A);
      if (!ans.v[0]) ans.ast = firstDiff(strip(A), strip(acorn.parse(req.v[0], opt)), '$');
      if (!ans.v[1]) {
        const r = alpha.compare(A, acorn.parse(req.v[1], opt));
        ans.alpha = r.diff; ans.alphaKind = r.kind; ans.bindings = r.bindings; ans.renamed = r.renamed;
      }
    }
    return ans;
  }
  if (req.t === 'alpha') { // generated program: scope-aware comparison original vs renamed
    if (!acorn) return { alpha: 'unavailable' };
    const opt = { ecmaVersion: 'latest', sourceType: 'script' };
    try {
      const r = alpha.compare(acorn.parse(req.o, opt), acorn.parse(req.v, opt));
      return { alpha: r.diff, kind: r.kind, at: r.at };
    } catch (e) { return { alpha: 'error: ' + e.message, kind: 'error' }; }
  }
  if (req.t === 'ping') return { acorn: !!acorn, node: process.version };
  return { error: 'unknown request' };
}

const rl = readline.createInterface({ input: process.stdin, terminal: false });
rl.on('line', (line) => {
  let ans;
  try { ans = handle(JSON.parse(line)); } catch (e) { ans = { error: String(e && e.stack || e) }; }
  process.stdout.write(JSON.stringify(ans) + '\n');
});
rl.on('close', () => process.exit(0));
process.stdout.on('error', () => process.exit(0));

package main

// The statement catalogue of the C33 program generator. A program is a
// sequence of top-level statements; every statement is one template with its
// name holes filled from the pool:
//
//	§N  the name under test (local, parameter, property, file-scope name, global…)
//	§M  a second, different pool name (two-hole templates only)
//	§F  a file-scope helper name unique to the statement's position (f1, f2, …)
//
// Host globals visible to every program: console.log, the object o (one
// property per host name plus z) and one global (value "G<name>") per pool
// name and for b, each only when the program mentions it.
// Every simple statement ends in a semicolon, so no program relies on automatic
// semicolon insertion.
//
// cls is the coarse role used to name the cell of a failure that needs several
// statements; tag names the cell of a failure a statement shows on its own.
type tpl struct {
	tag, cls string
	text     string
	lex      bool // exercises the tokenizer/emitter rather than renaming
}

var catalogue = []tpl{
	// ── file-scope declarations ──────────────────────────────────────────
	{tag: "file-var", cls: "filedecl", text: `var §N = "v§N";`},
	{tag: "file-let", cls: "filedecl", text: `let §N = "l§N";`},
	{tag: "file-function", cls: "filedecl", text: `function §N() { return "f§N"; }`},
	{tag: "file-class", cls: "filedecl", text: `class §N { static m() { return "k§N"; } }`},
	{tag: "file-for-var", cls: "filedecl", text: `for (var §N = 0; §N < 2; §N++) { console.log(§N); }`},
	{tag: "file-destructure", cls: "filedecl", text: `var { §N } = o;`},
	{tag: "file-arrow-param", cls: "filedecl", text: `const §F = (§N) => §N + "!"; console.log(§F("p"));`},
	{tag: "file-catch", cls: "filedecl", text: `try { null.p; } catch (§N) { console.log(typeof §N); }`},
	{tag: "file-block-var", cls: "blockvar", text: `if (o) { var §N = "b§N"; }`},
	{tag: "file-block-let", cls: "local", text: `{ let §N = "bl§N"; console.log(§N); }`},

	// ── uses at file scope ───────────────────────────────────────────────
	{tag: "top-ref", cls: "globaluse", text: `console.log(§N);`},
	{tag: "top-template", cls: "globaluse", text: "console.log(`t${String(§N).slice(0, 3)}`);"},
	{tag: "top-shorthand", cls: "globaluse", text: `console.log({ §N });`},
	{tag: "top-key", cls: "propuse", text: `console.log({ §N: 1 }, o.§N, o?.§N);`},
	{tag: "top-method", cls: "methodkey", text: `console.log({ §N() { return 2; } }.§N());`},
	{tag: "top-assign", cls: "globaluse", text: `§N = "w§N"; console.log(§N);`},
	{tag: "top-typeof", cls: "globaluse", text: `console.log(typeof §N, [§N].length);`},
	{tag: "top-destructure-assign", cls: "globaluse", text: `({ §N } = o); console.log(§N);`},

	// ── functions with a local called §N ─────────────────────────────────
	{tag: "param", cls: "local", text: `function §F(§N) { console.log(§N); } §F("p§N");`},
	{tag: "local-var", cls: "local", text: `function §F() { var §N = "l1"; console.log(§N); } §F();`},
	{tag: "closure", cls: "local", text: `function §F() { let §N = "l2"; return function () { return §N; }; } console.log(§F()());`},
	{tag: "shorthand-local", cls: "local", text: `function §F(§N) { console.log({ §N }); return { §N, z: 1 }; } console.log(§F("p"));`},
	{tag: "key-and-member", cls: "local", text: `function §F(§N) { console.log({ §N: §N }, o.§N, o?.§N); } §F("p");`},
	{tag: "template-local", cls: "local", text: "function §F(§N) { console.log(`t${§N}`); } §F(\"p\");"},
	{tag: "destructure-local", cls: "local", text: `function §F() { const { §N } = o; console.log(§N); } §F();`},
	{tag: "destructure-default", cls: "local", text: `function §F() { const { §N = "d" } = o; console.log(§N); } §F();`},
	{tag: "destructure-param", cls: "local", text: `function §F({ §N }) { console.log(§N); } §F(o);`},
	{tag: "destructure-default", cls: "local", text: `function §F({ §N = "dd" }) { console.log(§N); } §F(o);`},
	{tag: "destructure-array", cls: "local", text: `function §F() { const [§N] = ["e"]; console.log(§N); } §F();`},
	{tag: "destructure-rename", cls: "local", text: `function §F({ z: §N }) { console.log(§N); } §F(o);`},
	{tag: "destructure-key", cls: "local", text: `function §F() { const { §N: q1 } = o; console.log(q1); } §F();`},
	{tag: "method-shorthand", cls: "local", text: `function §F(§N) { return { §N() { return "m"; } }; } console.log(§F(1).§N());`},
	{tag: "class-method", cls: "local", text: `function §F(§N) { class C { §N() { return "cm"; } } return new C(); } console.log(§F(1).§N());`},
	{tag: "accessor", cls: "local", text: `function §F(§N) { return { get §N() { return "gt"; } }; } console.log(§F(1).§N);`},
	{tag: "default-and-rest", cls: "local", text: `function §F(§N = "df", ...r) { console.log(§N, r.length); } §F();`},
	{tag: "for-let", cls: "local", text: `function §F() { for (let §N = 0; §N < 2; §N++) { console.log(§N); } } §F();`},
	{tag: "for-of-in", cls: "local", text: `function §F() { for (const §N of ["q"]) { console.log(§N); } for (const §N in { z: 1 }) { console.log(§N); } } §F();`},
	{tag: "ternary-in-object", cls: "local", text: `function §F(§N) { return §N ? { r: §N ? 1 : 2 } : { s: 3 }; } console.log(§F(1));`},
	{tag: "spread-computed", cls: "local", text: `function §F(§N) { return { ...§N, [§N.z]: 1, "§N": 2 }; } console.log(§F({ z: "w" }));`},
	{tag: "shadow-in-block", cls: "local", text: `function §F() { var §N = "h"; { let §N = "i"; console.log(§N); } console.log(§N); } §F();`},
	{tag: "arrow-inside", cls: "local", text: `function §F(§N) { var r = §N => §N + 1; return r(§N); } console.log(§F(1));`},
	{tag: "optional-chain", cls: "local", text: `function §F(§N) { return §N?.z ?? "nn"; } console.log(§F(null), §F(o));`},
	{tag: "function-expression", cls: "local", text: `var §F = function (§N) { return { §N }; }; console.log(§F("p"));`},
	{tag: "object-method-param", cls: "local", text: `var §F = { m(§N) { return [§N]; } }; console.log(§F.m("p"));`},
	{tag: "nested-function", cls: "local", text: `function §F(§N) { function §M() { return "in"; } return §M() + §N; } console.log(§F("p"));`},
	{tag: "local-and-global", cls: "local+globaluse", text: `function §F(§N) { console.log(§N, §M); } §F("p");`},
	{tag: "catch-inside", cls: "local", text: `function §F(§N) { try { null.p; } catch (§M) { console.log(typeof §M, §N); } } §F("p");`},
	{tag: "object-local", cls: "local", text: `function §F() { var §N = { §M: 1 }; console.log(§N.§M, §N); } §F();`},

	// ── the first short names (a, b, c) are already taken by bindings the
	// minifier never renames; the local must get a name behind all of them ──
	{tag: "taken-arrow-params", cls: "local", text: `function §F(§N) { return [[2, 0], [1, 0]].sort((a, b) => a[§N] - b[§N]); } console.log(§F(0));`},
	{tag: "taken-file-scope", cls: "local+globaluse", text: `var b = "fb"; function §F(§N) { return [§N, typeof a, b]; } console.log(§F("p"));`},
	{tag: "taken-catch-param", cls: "local+globaluse", text: `function §F(§N) { try { null.p; } catch (b) { return [typeof a, typeof b, §N]; } } console.log(§F("p"));`},
	{tag: "taken-three", cls: "local", text: `function §F(§N) { return [1, 2, 3].map((a, b, c) => a + b + c.length + §N); } console.log(§F(10));`},
	{tag: "taken-globals", cls: "local+globaluse", text: `function §F(§N) { return [§N, a, b]; } console.log(§F("p"));`},

	// ── a function that uses the global §N ───────────────────────────────
	{tag: "global-in-function", cls: "globaluse", text: `function §F() { console.log(§N); } §F();`},
	{tag: "global-in-template", cls: "globaluse", text: "function §F() { return `t${String(§N).slice(0, 3)}`; } console.log(§F());"},
	{tag: "global-shorthand", cls: "globaluse", text: `function §F() { return { §N }; } console.log(§F());`},
	{tag: "global-write", cls: "globaluse", text: `function §F() { §N = "s§N"; } §F(); console.log(§N);`},

	// ── tokenizer / emitter ──────────────────────────────────────────────
	{tag: "regex-and-division", cls: "lex", lex: true, text: `console.log(4 / 2 / 1, "a  b".replace(/a  b/g, "c"));`},
	{tag: "regex-class", cls: "lex", lex: true, text: `console.log(/[/"']/.test("/"), "x,y".split(/,/).length);`},
	{tag: "division-contexts", cls: "lex", lex: true, text: `var §F = 8; console.log(§F / 2, (§F) / 2 / 1, [§F][0] / 4, §F /2/ 1);`},
	{tag: "unary-runs", cls: "lex", lex: true, text: `console.log(1 + +"2", 1 - -1, 3 - +1, 2 + -1);`},
	{tag: "increments", cls: "lex", lex: true, text: `var §F = 1; console.log(§F++ + 1, §F-- - 1, + +§F, - -§F, §F + ++§F, §F - --§F, §F++ + +1);`},
	{tag: "comment-like-strings", cls: "lex", lex: true, text: "console.log(\"// no comment\", '/* nor */', \"it's\", 'say \"hi\"'); // trailing comment"},
	{tag: "block-comments", cls: "lex", lex: true, text: `/* block */ console.log(1 /* inner */ + 2, "a" + /* c */ "b", 4 /* c */ / 2);`},
	{tag: "template-spaces", cls: "lex", lex: true, text: "console.log(`a  b ${1 + 1}  c // d`, `e \\` f  g`);"},
	{tag: "template-nested", cls: "lex", lex: true, text: "console.log(`x${o ? `in  ner` : \"\"}y`);"},
	{tag: "template-multiline", cls: "lex", lex: true, text: "console.log(`line1\n  line2`, \"a\\\nb\");"},
	{tag: "keyword-operators", cls: "lex", lex: true, text: `console.log(typeof o, void 0, "z" in o, o instanceof Object, new Date(0).getTime());`},
	{tag: "numbers", cls: "lex", lex: true, text: `console.log(o ? .5 : 2, 0.5.toFixed(1), 1..toString(), 1e3, 0x1f, 1_000, 10n, 1e-3);`},
	{tag: "if-else", cls: "lex", lex: true, text: `if (o) console.log("if"); else console.log("else");`},
	{tag: "do-while", cls: "lex", lex: true, text: `do console.log("do"); while (false);`},
	{tag: "regex-after-operators", cls: "lex", lex: true, text: `console.log(o ? /x  y/.test("x  y") : /x  z/.test("x  z"), [4, 2].map(v => v / 2 / 1), !/q  r/.test("q  r"), o && /q  s/.test("q  s"), !o || /q  t/.test("q  t"));`},
	{tag: "regex-after-punctuation", cls: "lex", lex: true, text: `var §F = /a  b/; console.log(§F.source, [/u  v/.source, /u  w/.source], (/p  q/).source, { r: /r  s/.source }, ["c  d"].map(v => /c  d/.test(v)), null ?? /n  n/.source);`},
	{tag: "regex-escapes", cls: "lex", lex: true, text: `console.log(/\//.source, /[\]/]/.source, "\\", '\'', /\\/.test("\\"));`},
	{tag: "comparison-operators", cls: "lex", lex: true, text: `console.log(1 < 2, 2 > 1, 1 <= 1, 1 >>> 0, 2 ** 3, 1 !== 2, null ?? 1, 6 % 4, 1 << 2);`},
	{tag: "switch", cls: "lex", lex: true, text: `switch (1) { case 1: console.log("c1"); break; default: console.log("d"); }`},
	{tag: "regex-after-paren", cls: "lex", lex: true, text: `if (o) /b  c/.test("b  c") && console.log("re");`},
	{tag: "regex-after-brace", cls: "lex", lex: true, text: `function §F() {} /x  y/.test("x  y") && console.log("re2");`},
	{tag: "return-forms", cls: "lex", lex: true, text: `function §F(q1) { if (q1) return -q1; if (q1 === 0) return /r  e/.source; return "s" + q1; } console.log(§F(1), §F(0), §F(""));`},
	{tag: "in-of-loops", cls: "lex", lex: true, text: `for (var q2 in { z: 1 }) console.log(q2); for (var q3 of [1]) console.log(q3);`},
	{tag: "line-comment-between", cls: "lex", lex: true, text: "console.log(1 // one\n + 2);"},
	{tag: "getter-setter-keys", cls: "lex", lex: true, text: `var §F = { get: 1, set: 2, of: 3, in: 4, get g1() { return 5; }, set s1(v) { this.t = v; } }; §F.s1 = 6; console.log(§F);`},
}

// Scope-aware comparison of two ESTree programs (acorn): B must be A with
// locally bound names consistently replaced. Everything else has to be equal:
// the tree shape, literals, property names, the names of free (global)
// references and of bindings made at file scope; every reference has to resolve
// to the corresponding binding.
//
// Approximations (all on the lenient side for the code under test):
// function parameters and body share one scope; a function declared inside a
// block is bound function-wide (Annex B); labels are ignored; `with` and
// direct eval are not modelled.
'use strict';

class Scope {
  constructor(parent, fn) { this.parent = parent; this.map = new Map(); this.fnScope = fn ? this : parent.fnScope; }
  declare(name, an) {
    let b = this.map.get(name);
    if (!b) { b = { id: an.nextId++, name, top: this === an.root }; this.map.set(name, b); an.bindings.push(b); }
    return b;
  }
  resolve(name) { for (let s = this; s; s = s.parent) { const b = s.map.get(name); if (b) return b; } return null; }
}

function patternNames(p, out) {
  if (!p) return;
  switch (p.type) {
    case 'Identifier': out.push(p.name); break;
    case 'ObjectPattern': for (const q of p.properties) patternNames(q.type === 'RestElement' ? q.argument : q.value, out); break;
    case 'ArrayPattern': for (const q of p.elements) patternNames(q, out); break;
    case 'AssignmentPattern': patternNames(p.left, out); break;
    case 'RestElement': patternNames(p.argument, out); break;
  }
}

function analyse(program) {
  const an = { nextId: 0, bindings: [], events: [], root: null };
  const root = new Scope(null, true);
  an.root = root;

  function declarePattern(scope, p) { const ns = []; patternNames(p, ns); for (const n of ns) scope.declare(n, an); }

  // var declarations (and Annex B functions in blocks) of a function body
  function collectVars(n, fnScope, topLevel) {
    if (!n || typeof n.type !== 'string') return;
    switch (n.type) {
      case 'VariableDeclaration':
        if (n.kind === 'var') for (const d of n.declarations) declarePattern(fnScope, d.id);
        return;
      case 'FunctionDeclaration':
        if (!topLevel && n.id) fnScope.declare(n.id.name, an);
        return;
      case 'BlockStatement': for (const s of n.body) collectVars(s, fnScope, false); return;
      case 'IfStatement': collectVars(n.consequent, fnScope, false); collectVars(n.alternate, fnScope, false); return;
      case 'ForStatement': collectVars(n.init, fnScope, false); collectVars(n.body, fnScope, false); return;
      case 'ForInStatement': case 'ForOfStatement': collectVars(n.left, fnScope, false); collectVars(n.body, fnScope, false); return;
      case 'WhileStatement': case 'DoWhileStatement': case 'LabeledStatement': case 'WithStatement': collectVars(n.body, fnScope, false); return;
      case 'TryStatement': collectVars(n.block, fnScope, false); if (n.handler) collectVars(n.handler.body, fnScope, false); collectVars(n.finalizer, fnScope, false); return;
      case 'SwitchStatement': for (const c of n.cases) for (const s of c.consequent) collectVars(s, fnScope, false); return;
    }
  }
  function collectLexical(stmts, scope, fnTop) {
    for (const s of stmts) {
      if (!s) continue;
      if (s.type === 'VariableDeclaration' && s.kind !== 'var') for (const d of s.declarations) declarePattern(scope, d.id);
      else if (s.type === 'ClassDeclaration' && s.id) scope.declare(s.id.name, an);
      else if (s.type === 'FunctionDeclaration' && s.id) (fnTop ? scope : scope.fnScope).declare(s.id.name, an);
    }
  }

  function ref(node, scope) { an.events.push({ k: 'ref', name: node.name, b: scope.resolve(node.name), at: node.start }); }
  function prop(node) { an.events.push({ k: 'prop', name: node.name, at: node.start }); }

  function visitFunction(n, scope) {
    let outer = scope;
    if (n.type === 'FunctionExpression' && n.id) { outer = new Scope(scope, false); outer.declare(n.id.name, an); }
    const fs = new Scope(outer, true);
    for (const p of n.params) declarePattern(fs, p);
    if (n.body.type === 'BlockStatement') {
      for (const s of n.body.body) collectVars(s, fs, true);
      collectLexical(n.body.body, fs, true);
    }
    if (n.id) ref(n.id, n.type === 'FunctionExpression' ? outer : scope);
    for (const p of n.params) visit(p, fs);
    if (n.body.type === 'BlockStatement') for (const s of n.body.body) visit(s, fs); else visit(n.body, fs);
  }

  function visitKeyed(n, scope) { // Property, MethodDefinition, PropertyDefinition
    if (n.computed) visit(n.key, scope); else if (n.key.type === 'Identifier') prop(n.key); else if (n.key.type !== 'Literal' && n.key.type !== 'PrivateIdentifier') visit(n.key, scope);
    if (n.value) visit(n.value, scope);
  }

  function visit(n, scope) {
    if (!n) return;
    if (Array.isArray(n)) { for (const x of n) visit(x, scope); return; }
    if (typeof n.type !== 'string') return;
    switch (n.type) {
      case 'Identifier': ref(n, scope); return;
      case 'MemberExpression': visit(n.object, scope); if (n.computed) visit(n.property, scope); else if (n.property.type === 'Identifier') prop(n.property); return;
      case 'Property': case 'MethodDefinition': case 'PropertyDefinition': visitKeyed(n, scope); return;
      case 'LabeledStatement': visit(n.body, scope); return;
      case 'BreakStatement': case 'ContinueStatement': case 'MetaProperty': return;
      case 'FunctionDeclaration': case 'FunctionExpression': case 'ArrowFunctionExpression': visitFunction(n, scope); return;
      case 'ClassDeclaration': case 'ClassExpression': {
        let s = scope;
        if (n.type === 'ClassExpression' && n.id) { s = new Scope(scope, false); s.declare(n.id.name, an); }
        if (n.id) ref(n.id, s);
        visit(n.superClass, s); visit(n.body, s); return;
      }
      case 'StaticBlock': { const s = new Scope(scope, true); for (const x of n.body) collectVars(x, s, true); collectLexical(n.body, s, true); for (const x of n.body) visit(x, s); return; }
      case 'BlockStatement': { const s = new Scope(scope, false); collectLexical(n.body, s, false); for (const x of n.body) visit(x, s); return; }
      case 'ForStatement': case 'ForInStatement': case 'ForOfStatement': {
        const s = new Scope(scope, false);
        const d = n.type === 'ForStatement' ? n.init : n.left;
        if (d && d.type === 'VariableDeclaration' && d.kind !== 'var') for (const x of d.declarations) declarePattern(s, x.id);
        if (n.type === 'ForStatement') { visit(n.init, s); visit(n.test, s); visit(n.update, s); } else { visit(n.left, s); visit(n.right, s); }
        visit(n.body, s); return;
      }
      case 'SwitchStatement': {
        visit(n.discriminant, scope);
        const s = new Scope(scope, false);
        for (const c of n.cases) collectLexical(c.consequent, s, false);
        for (const c of n.cases) { visit(c.test, s); visit(c.consequent, s); }
        return;
      }
      case 'CatchClause': { const s = new Scope(scope, false); if (n.param) declarePattern(s, n.param); visit(n.param, s); visit(n.body, s); return; }
    }
    for (const k of Object.keys(n)) {
      if (k === 'type' || k === 'start' || k === 'end') continue;
      const v = n[k];
      if (v && typeof v === 'object') visit(v, scope);
    }
  }

  for (const s of program.body) collectVars(s, root, true);
  collectLexical(program.body, root, true);
  for (const s of program.body) visit(s, root);
  return an;
}

function shape(n) { // the tree without positions and identifier spellings; shorthand is a spelling too
  if (Array.isArray(n)) return n.map(shape);
  if (n instanceof RegExp) return String(n);
  if (typeof n === 'bigint') return String(n) + 'n';
  if (n && typeof n === 'object') {
    const out = {};
    for (const k of Object.keys(n)) {
      if (k === 'start' || k === 'end') continue;
      if (k === 'shorthand' && n.type === 'Property') continue;
      if (k === 'name' && n.type === 'Identifier') continue;
      out[k] = shape(n[k]);
    }
    return out;
  }
  return n;
}
function firstDiff(a, b, path) {
  if (typeof a !== typeof b) return path + ': ' + typeof a + ' vs ' + typeof b;
  if (a === null || b === null || typeof a !== 'object') return a === b ? null : path + ': ' + JSON.stringify(a) + ' vs ' + JSON.stringify(b);
  if (Array.isArray(a) !== Array.isArray(b)) return path + ': array vs object';
  for (const k of new Set([...Object.keys(a), ...Object.keys(b)])) { const d = firstDiff(a[k], b[k], path + '.' + k); if (d) return d; }
  return null;
}

function compare(A, B) {
  const sd = firstDiff(shape(A), shape(B), '$');
  if (sd) return { diff: 'tree shape differs at ' + sd, kind: 'shape', bindings: 0, renamed: 0 };
  const a = analyse(A), b = analyse(B);
  const res = { diff: null, kind: null, at: 0, bindings: a.bindings.length, renamed: 0 }; // at: offset in the original of the first difference
  if (a.events.length !== b.events.length || a.bindings.length !== b.bindings.length) {
    return Object.assign(res, { diff: 'scope structure differs (' + a.bindings.length + ' vs ' + b.bindings.length + ' bindings)', kind: 'scope' });
  }
  for (let i = 0; i < a.bindings.length; i++) {
    if (a.bindings[i].name !== b.bindings[i].name) {
      res.renamed++;
      if (a.bindings[i].top && !res.diff) {
        res.diff = 'file-scope name ' + a.bindings[i].name + ' became ' + b.bindings[i].name; res.kind = 'file-scope-renamed';
        const ev = a.events.find((e) => e.b === a.bindings[i]);
        res.at = ev ? ev.at : 0;
      }
    }
  }
  if (res.diff) return res;
  for (let i = 0; i < a.events.length; i++) {
    const x = a.events[i], y = b.events[i];
    res.at = x.at;
    if (x.k !== y.k) return Object.assign(res, { diff: 'identifier role differs at ' + y.at, kind: 'scope' });
    if (x.k === 'prop') {
      if (x.name !== y.name) return Object.assign(res, { diff: 'property name ' + x.name + ' became ' + y.name + ' (minified offset ' + y.at + ')', kind: 'property-renamed' });
      continue;
    }
    if (!x.b) {
      if (y.b) return Object.assign(res, { diff: 'global ' + x.name + ' is captured by a local after renaming (' + y.name + ' at minified offset ' + y.at + ')', kind: 'global-captured' });
      if (x.name !== y.name) return Object.assign(res, { diff: 'global ' + x.name + ' became ' + y.name + ' (minified offset ' + y.at + ')', kind: 'global-renamed' });
      continue;
    }
    if (!y.b) return Object.assign(res, { diff: 'reference to local ' + x.name + ' (original offset ' + x.at + ') is the unbound name ' + y.name + ' after renaming (minified offset ' + y.at + ')', kind: 'reference-unbound' });
    if (x.b.id !== y.b.id) return Object.assign(res, { diff: 'reference to ' + x.name + ' (original offset ' + x.at + ') binds to a different declaration after renaming (' + y.name + ' at minified offset ' + y.at + ')', kind: 'reference-rebound' });
  }
  return res;
}

module.exports = { compare, analyse };

// C34: minifying a stylesheet removes only comments, insignificant whitespace
// and redundant semicolons; the sequence of CSS tokens (with whitespace kept
// where it separates tokens or forms a descendant combinator) is unchanged.
//
// Bounded-exhaustive: every sequence of up to L pieces over a fixed alphabet of
// CSS fragments (selectors, combinators, punctuation, whitespace, comments,
// strings with escapes, url(), numbers, at-keywords), each placed in three
// contexts (alone, as the prelude of a rule, as the body of a rule, as the
// prelude of a rule inside an @media block), goes
// through the real javascript.MinifyCSS; original and result are tokenized with
// a reference CSS Syntax 3 tokenizer (csstok.go) and compared. The shipped
// stylesheets are judged the same way.
package main

import (
	"fmt"
	"os"
	"path/filepath"
	"sort"
	"strings"
	"sync"

	"github.com/tucats/ego/internal/util/javascript"
	"github.com/tucats/ego/internal/verifrt/enum"
	"github.com/tucats/ego/internal/verifrt/report"
)

var alphabet = []string{
	"a", ".b", "#c", ":hover", "::before", "*", "[d]",
	">", "+", "~", ",",
	"{", "}", ";", ";;", ":",
	" ", "\n", "/*x*/",
	`"s  t"`, `'q\'; }'`, `"\\"`, "url(d:e;f,g)",
	"1px", "-1", "@media", "(", ")", "!important",
}

// contexts: the enumerated sequence S is judged as prefix+S+suffix.
var contexts = []struct{ name, prefix, suffix string }{
	{"bare", "", ""},
	{"prelude", "", "{c:d}"},
	{"body", "e{", "}"},
	{"nested-prelude", "@media x{", "{c:d}}"}, // a rule prelude at brace depth 1, inside an at-rule block
}

type witness struct {
	Context  string   `json:"context"`
	Pieces   []string `json:"pieces,omitempty"`
	File     string   `json:"file,omitempty"`
	Input    string   `json:"input"`
	Minified string   `json:"minified"`
	Detail   string   `json:"detail,omitempty"`
}

// sig is a token that counts (not whitespace, not a comment) with what stood
// between it and the previous one.
type sig struct {
	kind          tokKind
	raw           string
	value         string
	wsBefore      bool // whitespace between the previous significant token and this one
	commentBefore bool // a comment between the previous significant token and this one
	afterDropped  bool // a redundant semicolon was dropped just before this token
}

func significant(src string) ([]sig, string) {
	s, toks := tokenizeCSS(src)
	out := make([]sig, 0, len(toks))
	kinds := make([]byte, len(toks))
	ws, cm := false, false

	for i, t := range toks {
		kinds[i] = 'A' + byte(t.kind)

		switch t.kind {
		case tWhitespace:
			ws = true
		case tComment:
			cm = true
		default:
			out = append(out, sig{kind: t.kind, raw: s[t.start:t.end], value: t.value, wsBefore: ws, commentBefore: cm})
			ws, cm = false, false
		}
	}

	return out, string(kinds)
}

// dropRedundantSemicolons removes every ';' whose next significant token is
// another ';' or a '}' — the two kinds of semicolon the statement lets the
// minifier remove (an empty declaration, the terminator before the block end).
func dropRedundantSemicolons(in []sig) []sig {
	out := in[:0:0]
	dropped := false

	for i, t := range in {
		if t.kind == tSemicolon && i+1 < len(in) && (in[i+1].kind == tSemicolon || in[i+1].kind == tRBrace) {
			dropped = true

			continue
		}

		if dropped {
			t.afterDropped = true
			dropped = false
		}

		out = append(out, t)
	}

	return out
}

func sameToken(a, b sig) bool {
	if a.kind != b.kind {
		return false
	}

	switch a.kind {
	case tBadURL:
		return true // a bad-url token carries no value
	case tURL:
		return a.value == b.value
	case tFunction:
		return strings.TrimRight(a.raw, " \n\t") == strings.TrimRight(b.raw, " \n\t")
	}

	return a.raw == b.raw
}

func dump(ts []sig) string {
	var sb strings.Builder

	for i, t := range ts {
		if i > 0 {
			sb.WriteByte(' ')
		}

		if len(sb.String()) > 400 {
			sb.WriteString("…")

			break
		}

		fmt.Fprintf(&sb, "<%s %s>", t.kind, t.raw)
	}

	return sb.String()
}

func sepName(t sig) string {
	switch {
	case t.wsBefore && t.commentBefore:
		return "whitespace+comment"
	case t.wsBefore:
		return "whitespace"
	case t.commentBefore:
		return "comment"
	}

	return "nothing"
}

// classify names the root-cause class of a token-sequence difference at index d.
func classify(o, m []sig, d int) string {
	if d < len(o) && d < len(m) {
		if d+1 < len(o) && len(m[d].raw) > len(o[d].raw) && strings.HasPrefix(m[d].raw, o[d].raw) {
			return "merged-across-" + sepName(o[d+1])
		}

		switch {
		case o[d].kind == tSemicolon && m[d].kind != tSemicolon:
			return "semicolon-removed"
		case m[d].kind == tSemicolon && o[d].kind != tSemicolon:
			return "semicolon-added"
		case o[d].kind == tString || o[d].kind == tBadString:
			return "string-altered"
		case o[d].kind == tURL || o[d].kind == tBadURL || (o[d].kind == tFunction && strings.HasPrefix(strings.ToLower(o[d].raw), "url(")):
			return "url-altered"
		case len(o[d].raw) > len(m[d].raw) && strings.HasPrefix(o[d].raw, m[d].raw):
			return "token-split:" + o[d].kind.String()
		}

		return "token-changed:" + o[d].kind.String() + "->" + m[d].kind.String()
	}

	if d < len(o) {
		if o[d].kind == tSemicolon {
			return "semicolon-removed"
		}

		return "token-lost:" + o[d].kind.String()
	}

	return "token-added:" + m[d].kind.String()
}

// ── where whitespace is a descendant combinator ─────────────────────────────

var ruleContainers = map[string]bool{"media": true, "supports": true, "layer": true, "container": true, "document": true}

func selectorToken(t sig) bool {
	switch t.kind {
	case tIdent, tHash, tColon, tComma, tLBracket, tRBracket, tLParen, tRParen, tFunction, tString, tNumber, tDimension, tPercentage:
		return true
	case tDelim:
		return strings.Contains(".*>+~&|=^$", t.raw)
	}

	return false
}

func endsCompound(t sig) bool {
	switch t.kind {
	case tIdent, tHash, tRBracket, tRParen:
		return true
	case tDelim:
		return t.raw == "*" || t.raw == "&"
	}

	return false
}

func startsCompound(t sig) bool {
	switch t.kind {
	case tIdent, tHash, tLBracket, tColon:
		return true
	case tDelim:
		return t.raw == "." || t.raw == "*" || t.raw == "&"
	}

	return false
}

// combinatorPositions returns the indices k of o such that o[k-1] ends a
// compound selector and o[k] starts one inside the prelude of a qualified rule
// (top level, or directly inside @media/@supports/@layer/@container): the
// places where whitespace, if present, is a descendant combinator. The walk is
// deliberately conservative: anything it does not understand (unbalanced
// brackets, a prelude holding tokens no selector has) yields no positions.
func combinatorPositions(o []sig) (pos []int, preludes int) {
	var stack []byte // 'R' block holding rules, 'D' anything else

	i := 0

	for i < len(o) {
		level := byte('R')
		if len(stack) > 0 {
			level = stack[len(stack)-1]
		}

		if level == 'D' {
			depth := 0

			for i < len(o) {
				t := o[i]
				i++

				switch t.kind {
				case tLParen, tFunction, tLBracket:
					depth++
				case tRParen, tRBracket:
					depth--
					if depth < 0 {
						return pos, preludes
					}
				case tLBrace:
					if depth != 0 {
						return pos, preludes
					}

					stack = append(stack, 'D')
				case tRBrace:
					if depth != 0 {
						return pos, preludes
					}

					stack = stack[:len(stack)-1]
				}

				if t.kind == tRBrace || t.kind == tLBrace {
					break
				}
			}

			continue
		}

		// rule level: a prelude starts here
		if o[i].kind == tRBrace {
			if len(stack) == 0 {
				return pos, preludes
			}

			stack = stack[:len(stack)-1]
			i++

			continue
		}

		start := i
		atRule := o[i].kind == tAtKeyword
		clean := !atRule
		paren, brack := 0, 0

		var cand []int

		j := i
		ended := false

		for ; j < len(o) && !ended; j++ {
			t := o[j]

			switch t.kind {
			case tLParen, tFunction:
				paren++
			case tLBracket:
				brack++
			case tRParen:
				paren--
			case tRBracket:
				brack--
			case tLBrace, tRBrace, tSemicolon:
				if paren != 0 || brack != 0 {
					return pos, preludes
				}

				if t.kind == tRBrace || (t.kind == tSemicolon && !atRule) {
					return pos, preludes // not a well-formed rule: stop judging structure
				}

				ended = true

				continue
			}

			if paren < 0 || brack < 0 {
				return pos, preludes
			}

			if !selectorToken(t) {
				clean = false
			}

			if j > start && brack == 0 && t.kind != tRBracket && endsCompound(o[j-1]) && startsCompound(t) {
				cand = append(cand, j)
			}
		}

		if !ended {
			return pos, preludes // prelude runs into the end of input: no rule
		}

		end := j - 1 // index of the '{' or ';'

		if o[end].kind == tSemicolon {
			i = end + 1

			continue
		}

		if atRule {
			if ruleContainers[strings.ToLower(o[start].raw[1:])] {
				stack = append(stack, 'R')
			} else {
				stack = append(stack, 'D')
			}
		} else {
			if clean && end > start {
				pos = append(pos, cand...)
				preludes++
			}

			stack = append(stack, 'D')
		}

		i = end + 1
	}

	return pos, preludes
}

// verdict of one input.
type verdict struct {
	cell      string
	msgf      func() string
	size      int
	changed   bool   // the minifier changed the text
	signature string // kinds of all tokens of the input
	combPos   int
	preludes  int
}

// judge runs the minifier on input and compares. An input the minifier hands
// back unchanged has nothing to compare and is not tokenized at all.
func judge(input string) (verdict, string) {
	min := string(javascript.MinifyCSS([]byte(input)))

	var v verdict

	v.changed = min != input
	if !v.changed {
		return v, min
	}

	oAll, signature := significant(input)
	mAll, _ := significant(min)
	v.signature = signature
	o := dropRedundantSemicolons(oAll)
	m := dropRedundantSemicolons(mAll)

	n := len(o)
	if len(m) < n {
		n = len(m)
	}

	d := -1

	for k := 0; k < n; k++ {
		if !sameToken(o[k], m[k]) {
			d = k

			break
		}
	}

	if d < 0 && len(o) != len(m) {
		d = n
	}

	if d >= 0 {
		v.cell = "tokens:" + classify(o, m, d)
		v.size = d
		v.msgf = func() string {
			return fmt.Sprintf("token sequence changed at token %d: original %s | minified %s", d, dump(o), dump(m))
		}

		return v, min
	}

	pos, preludes := combinatorPositions(o)
	v.combPos, v.preludes = len(pos), preludes

	for _, k := range pos {
		if o[k].afterDropped || m[k].afterDropped {
			continue
		}

		if o[k].wsBefore && !m[k].wsBefore {
			v.cell = "descendant:removed:before-" + o[k].kind.String()
			l, rr := o[k-1].raw, o[k].raw
			v.msgf = func() string {
				return fmt.Sprintf("whitespace between %q and %q is a descendant combinator in a selector and was removed", l, rr)
			}

			return v, min
		}

		if !o[k].wsBefore && m[k].wsBefore {
			v.cell = "descendant:added:before-" + o[k].kind.String()
			l, rr := o[k-1].raw, o[k].raw
			v.msgf = func() string {
				return fmt.Sprintf("whitespace appeared between %q and %q in a selector, which makes it a descendant combinator", l, rr)
			}

			return v, min
		}
	}

	return v, min
}

// violations funnels violations into the report; the witness and the message
// are only built when they can become the smallest of their cell.
type violations struct {
	mu   sync.Mutex
	best map[string]int
	r    *report.R
}

func (vs *violations) add(cell string, size int, w func() (witness, string)) {
	vs.mu.Lock()
	defer vs.mu.Unlock()

	if b, ok := vs.best[cell]; ok && b <= size {
		vs.r.Violation(cell, size, nil, "")

		return
	}

	vs.best[cell] = size
	wit, msg := w()
	vs.r.Violation(cell, size, wit, msg)
}

func main() {
	r := report.New("exploration")
	maxLen := r.Pick(4, 5)
	repo := os.Getenv("VERIF_REPO")

	if repo == "" {
		repo = "/repo"
	}

	r.Rule(fmt.Sprintf("every sequence of 0..%d pieces over the %d-piece alphabet %q, each in the contexts bare / S+\"{c:d}\" (S is a rule prelude) / \"e{\"+S+\"}\" (S is a rule body) / \"@media x{\"+S+\"{c:d}}\" (S is a rule prelude inside an at-rule block), through javascript.MinifyCSS; plus every .css file under lib/ whole and rule by rule; distinct = (context, kinds of all CSS tokens of the input incl. whitespace and comments) of inputs whose text the minifier changed",
		maxLen, len(alphabet), alphabet))
	r.Assume("the CSS Syntax Level 3 tokenizer in harness/c34css/csstok.go is the reference for what the tokens of a text are",
		"a semicolon is redundant when the next token is ';' or '}'",
		"whitespace is a descendant combinator when it stands between a token that ends a compound selector (ident, hash, ], ), *, &) and one that starts one (ident, hash, ., [, :, *, &) in the prelude of a well-formed qualified rule at top level or directly inside @media/@supports/@layer/@container; preludes the walker does not understand are not judged for combinators (their tokens still are)",
		"url tokens are compared by value, bad-url tokens by kind, everything else by source text")

	vs := &violations{best: map[string]int{}, r: r}

	if r.Replay != "" {
		var w witness
		if err := report.LoadReplay(r.Replay, &w); err != nil {
			report.Fatal("%v", err)
		}

		if w.File != "" && w.Context == "file" {
			b, err := os.ReadFile(filepath.Join(repo, w.File))
			if err != nil {
				report.Fatal("%v", err)
			}

			w.Input = string(b)
		}

		v, min := judge(w.Input)
		if v.cell != "" {
			w.Minified = excerpt(min)
			w.Input = excerpt(w.Input)
			cell := v.cell

			if w.File != "" {
				cell = "shipped:" + cell
			}

			r.Violation(cell, len(w.Input), w, v.msgf())
		}

		r.Eval(1)
		r.Finish()
	}

	k := len(alphabet)

	var (
		mu                   sync.Mutex
		combTotal, prelTotal int64
		changedTotal         int64
	)

	// prefixLen pieces are spread over the CPUs; the remaining pieces are
	// enumerated inside each work item.
	for n := 0; n <= maxLen; n++ {
		prefixLen := n
		if prefixLen > 3 {
			prefixLen = 3
		}

		work := enum.Count(k, prefixLen, prefixLen)

		enum.Par(work, func(wi int) {
			idx := make([]int, n)
			x := wi

			for p := prefixLen - 1; p >= 0; p-- {
				idx[p] = x % k
				x /= k
			}

			var (
				evals, comb, prel, changed int64
				buf                        []byte
			)

			for {
				buf = buf[:0]
				for _, a := range idx {
					buf = append(buf, alphabet[a]...)
				}

				seq := string(buf)

				for _, c := range contexts {
					input := c.prefix + seq + c.suffix
					v, min := judge(input)
					evals++

					if !v.changed {
						continue
					}

					comb += int64(v.combPos)
					prel += int64(v.preludes)
					changed++

					r.Distinct(c.name + "|" + v.signature)

					if v.cell != "" {
						vs.add(v.cell, n*1000+len(input), func() (witness, string) {
							pieces := make([]string, n)
							for p, a := range idx {
								pieces[p] = alphabet[a]
							}

							return witness{Context: c.name, Pieces: pieces, Input: input, Minified: min}, v.msgf()
						})
					}
				}

				// next suffix
				p := n - 1
				for p >= prefixLen {
					idx[p]++
					if idx[p] < k {
						break
					}

					idx[p] = 0
					p--
				}

				if p < prefixLen {
					break
				}
			}

			r.Eval(int(evals))
			mu.Lock()
			combTotal += comb
			prelTotal += prel
			changedTotal += changed
			mu.Unlock()
		})
	}

	r.Set("sequences", enum.Count(k, 0, maxLen))
	r.Set("max_pieces", maxLen)
	r.Set("alphabet_size", k)

	// A few enumerated cases written out (fixed choices, so every run shows the same).
	for _, in := range []string{"a  .b > #c{c:d}", "a :hover , .b{c:d}", "e{a : 1px ;; }", "@media x{.b :hover , a ::before{c:d}}", "e{;;\"s  t\" ;}", ".b/*x*/ .b\n{c:d}"} {
		v, min := judge(in)
		r.Sample(map[string]any{"input": in, "minified": min, "combinator_positions_judged": v.combPos, "verdict": map[bool]string{true: "same tokens", false: v.cell}[v.cell == ""]})
	}

	// Shipped stylesheets.
	var files []string

	_ = filepath.Walk(filepath.Join(repo, "lib"), func(p string, info os.FileInfo, err error) error {
		if err == nil && !info.IsDir() && strings.HasSuffix(p, ".css") {
			files = append(files, p)
		}

		return nil
	})

	sort.Strings(files)

	if len(files) == 0 {
		report.Fatal("no .css file found under %s/lib", repo)
	}

	shipped := []map[string]any{}

	for _, f := range files {
		b, err := os.ReadFile(f)
		if err != nil {
			report.Fatal("%v", err)
		}

		rel, _ := filepath.Rel(repo, f)
		whole := string(b)
		v, min := judge(whole)
		r.Eval(1)
		r.Distinct("file|" + rel)

		combTotal += int64(v.combPos)
		prelTotal += int64(v.preludes)

		if v.cell != "" {
			r.Violation("shipped:"+v.cell, len(b), witness{Context: "file", File: rel, Input: excerpt(whole), Minified: excerpt(min), Detail: "the replay reads the file itself; the texts shown are truncated"}, rel+": "+v.msgf())
		}

		chunks := topLevelChunks(whole)
		toks, _ := significant(whole)
		shipped = append(shipped, map[string]any{"file": rel, "bytes": len(b), "minified_bytes": len(min), "tokens": len(toks), "rules": len(chunks), "selector_preludes_judged": v.preludes, "combinator_positions_judged": v.combPos})

		// every top-level rule of the file on its own as well
		for _, chunk := range chunks {
			cv, cmin := judge(chunk)
			r.Eval(1)

			if cv.changed {
				r.Distinct("rule|" + cv.signature)
			}

			if cv.cell != "" {
				r.Violation("shipped:"+cv.cell, len(chunk), witness{Context: "file-rule", File: rel, Input: chunk, Minified: cmin}, rel+": "+cv.msgf())
			}
		}
	}

	r.Set("shipped", shipped)
	r.Set("inputs_changed_by_minifier", changedTotal)
	r.Set("selector_preludes_judged", prelTotal)
	r.Set("combinator_positions_judged", combTotal)
	r.Set("shipped_files", len(files))
	r.Finish()
}

func excerpt(s string) string {
	if len(s) > 300 {
		return s[:300] + "…"
	}

	return s
}

// topLevelChunks cuts a stylesheet after every top-level '}' found by the
// reference tokenizer (so braces in strings and comments do not count).
func topLevelChunks(src string) []string {
	s, toks := tokenizeCSS(src)

	var out []string

	depth, from := 0, 0

	for _, t := range toks {
		switch t.kind {
		case tLBrace:
			depth++
		case tRBrace:
			if depth > 0 {
				depth--
			}

			if depth == 0 {
				out = append(out, s[from:t.end])
				from = t.end
			}
		}
	}

	if strings.TrimSpace(s[from:]) != "" {
		out = append(out, s[from:])
	}

	return out
}

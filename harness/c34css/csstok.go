// A reference CSS tokenizer: CSS Syntax Module Level 3, section 4
// (https://www.w3.org/TR/css-syntax-3/#tokenization), written from the
// specification text and independent of the code under test. Comments are
// returned as pseudo tokens (the specification consumes them silently) so that
// the oracle can tell what separated two tokens in the source.
package main

import "strings"

type tokKind uint8

const (
	tIdent tokKind = iota
	tFunction
	tAtKeyword
	tHash
	tString
	tBadString
	tURL
	tBadURL
	tDelim
	tNumber
	tPercentage
	tDimension
	tWhitespace
	tCDO
	tCDC
	tColon
	tSemicolon
	tComma
	tLBracket
	tRBracket
	tLParen
	tRParen
	tLBrace
	tRBrace
	tComment // pseudo token
)

var kindNames = [...]string{"ident", "function", "at-keyword", "hash", "string", "bad-string", "url", "bad-url", "delim", "number",
	"percentage", "dimension", "whitespace", "CDO", "CDC", "colon", "semicolon", "comma", "[", "]", "(", ")", "{", "}", "comment"}

func (k tokKind) String() string { return kindNames[k] }

type cssToken struct {
	kind       tokKind
	start, end int    // byte offsets in the preprocessed input
	value      string // url: the decoded value; otherwise unused
}

// preprocess implements section 3.3: CR LF, CR and FF become LF.
func preprocess(s string) string {
	if !strings.ContainsAny(s, "\r\f\x00") {
		return s
	}

	s = strings.ReplaceAll(s, "\r\n", "\n")
	s = strings.ReplaceAll(s, "\r", "\n")
	s = strings.ReplaceAll(s, "\f", "\n")
	s = strings.ReplaceAll(s, "\x00", "�")

	return s
}

type cssLexer struct {
	s string
	i int
}

func (l *cssLexer) at(k int) int {
	if l.i+k < len(l.s) {
		return int(l.s[l.i+k])
	}

	return -1 // EOF
}

func isWS(c int) bool     { return c == ' ' || c == '\t' || c == '\n' }
func isDigitC(c int) bool { return c >= '0' && c <= '9' }
func isHex(c int) bool    { return isDigitC(c) || (c >= 'a' && c <= 'f') || (c >= 'A' && c <= 'F') }
func isNameStart(c int) bool {
	return (c >= 'a' && c <= 'z') || (c >= 'A' && c <= 'Z') || c == '_' || c >= 0x80
}
func isName(c int) bool { return isNameStart(c) || isDigitC(c) || c == '-' }
func isNonPrintable(c int) bool {
	return (c >= 0 && c <= 8) || c == 0x0b || (c >= 0x0e && c <= 0x1f) || c == 0x7f
}

func validEscape(a, b int) bool { return a == '\\' && b != '\n' }

func startsIdent(a, b, c int) bool {
	switch {
	case a == '-':
		return isNameStart(b) || b == '-' || validEscape(b, c)
	case isNameStart(a):
		return true
	case a == '\\':
		return validEscape(a, b)
	}

	return false
}

func startsNumber(a, b, c int) bool {
	switch {
	case a == '+' || a == '-':
		if isDigitC(b) {
			return true
		}

		return b == '.' && isDigitC(c)
	case a == '.':
		return isDigitC(b)
	}

	return isDigitC(a)
}

// consumeEscape: the backslash has been consumed already.
func (l *cssLexer) consumeEscape(sb *strings.Builder) {
	c := l.at(0)
	if c < 0 {
		sb.WriteString("�")

		return
	}

	if isHex(c) {
		n, v := 0, 0
		for n < 6 && isHex(l.at(0)) {
			d := l.at(0)

			switch {
			case isDigitC(d):
				v = v*16 + d - '0'
			case d >= 'a':
				v = v*16 + d - 'a' + 10
			default:
				v = v*16 + d - 'A' + 10
			}

			l.i++
			n++
		}

		if isWS(l.at(0)) {
			l.i++
		}

		if v == 0 || v > 0x10FFFF || (v >= 0xD800 && v <= 0xDFFF) {
			v = 0xFFFD
		}

		sb.WriteRune(rune(v))

		return
	}

	sb.WriteByte(byte(c))
	l.i++
}

func (l *cssLexer) consumeIdentSeq() string {
	var sb strings.Builder

	for {
		c := l.at(0)

		switch {
		case isName(c):
			sb.WriteByte(byte(c))
			l.i++
		case validEscape(c, l.at(1)):
			l.i++
			l.consumeEscape(&sb)
		default:
			return sb.String()
		}
	}
}

func (l *cssLexer) consumeNumber() {
	if c := l.at(0); c == '+' || c == '-' {
		l.i++
	}

	for isDigitC(l.at(0)) {
		l.i++
	}

	if l.at(0) == '.' && isDigitC(l.at(1)) {
		l.i += 2
		for isDigitC(l.at(0)) {
			l.i++
		}
	}

	if c := l.at(0); c == 'e' || c == 'E' {
		if isDigitC(l.at(1)) {
			l.i += 2
		} else if (l.at(1) == '+' || l.at(1) == '-') && isDigitC(l.at(2)) {
			l.i += 3
		} else {
			return
		}

		for isDigitC(l.at(0)) {
			l.i++
		}
	}
}

func (l *cssLexer) consumeNumeric(start int) cssToken {
	l.consumeNumber()

	if startsIdent(l.at(0), l.at(1), l.at(2)) {
		l.consumeIdentSeq()

		return cssToken{kind: tDimension, start: start, end: l.i}
	}

	if l.at(0) == '%' {
		l.i++

		return cssToken{kind: tPercentage, start: start, end: l.i}
	}

	return cssToken{kind: tNumber, start: start, end: l.i}
}

func (l *cssLexer) consumeString(start int, quote int) cssToken {
	for {
		c := l.at(0)

		switch {
		case c == quote:
			l.i++

			return cssToken{kind: tString, start: start, end: l.i}
		case c < 0:
			return cssToken{kind: tString, start: start, end: l.i}
		case c == '\n':
			return cssToken{kind: tBadString, start: start, end: l.i}
		case c == '\\':
			if l.at(1) < 0 {
				l.i++
			} else if l.at(1) == '\n' {
				l.i += 2
			} else {
				l.i++

				var sb strings.Builder

				l.consumeEscape(&sb)
			}
		default:
			l.i++
		}
	}
}

func (l *cssLexer) badURLRemnants() {
	for {
		c := l.at(0)

		switch {
		case c == ')':
			l.i++

			return
		case c < 0:
			return
		case validEscape(c, l.at(1)):
			l.i++

			var sb strings.Builder

			l.consumeEscape(&sb)
		default:
			l.i++
		}
	}
}

func (l *cssLexer) consumeURL(start int) cssToken {
	var sb strings.Builder

	for isWS(l.at(0)) {
		l.i++
	}

	for {
		c := l.at(0)

		switch {
		case c == ')':
			l.i++

			return cssToken{kind: tURL, start: start, end: l.i, value: sb.String()}
		case c < 0:
			return cssToken{kind: tURL, start: start, end: l.i, value: sb.String()}
		case isWS(c):
			for isWS(l.at(0)) {
				l.i++
			}

			if l.at(0) == ')' {
				l.i++

				return cssToken{kind: tURL, start: start, end: l.i, value: sb.String()}
			}

			if l.at(0) < 0 {
				return cssToken{kind: tURL, start: start, end: l.i, value: sb.String()}
			}

			l.badURLRemnants()

			return cssToken{kind: tBadURL, start: start, end: l.i}
		case c == '"' || c == '\'' || c == '(' || isNonPrintable(c):
			l.badURLRemnants()

			return cssToken{kind: tBadURL, start: start, end: l.i}
		case c == '\\':
			if validEscape(c, l.at(1)) {
				l.i++
				l.consumeEscape(&sb)
			} else {
				l.badURLRemnants()

				return cssToken{kind: tBadURL, start: start, end: l.i}
			}
		default:
			sb.WriteByte(byte(c))
			l.i++
		}
	}
}

func (l *cssLexer) consumeIdentLike(start int) cssToken {
	name := l.consumeIdentSeq()

	if len(name) == 3 && strings.EqualFold(name, "url") && l.at(0) == '(' {
		l.i++

		for isWS(l.at(0)) && isWS(l.at(1)) {
			l.i++
		}

		a, b := l.at(0), l.at(1)
		if a == '"' || a == '\'' || (isWS(a) && (b == '"' || b == '\'')) {
			return cssToken{kind: tFunction, start: start, end: l.i}
		}

		return l.consumeURL(start)
	}

	if l.at(0) == '(' {
		l.i++

		return cssToken{kind: tFunction, start: start, end: l.i}
	}

	return cssToken{kind: tIdent, start: start, end: l.i}
}

func (l *cssLexer) next() (cssToken, bool) {
	start := l.i
	c := l.at(0)

	if c < 0 {
		return cssToken{}, false
	}

	if c == '/' && l.at(1) == '*' {
		l.i += 2
		for l.i < len(l.s) && !(l.at(0) == '*' && l.at(1) == '/') {
			l.i++
		}

		if l.i < len(l.s) {
			l.i += 2
		}

		return cssToken{kind: tComment, start: start, end: l.i}, true
	}

	single := func(k tokKind) (cssToken, bool) {
		l.i++

		return cssToken{kind: k, start: start, end: l.i}, true
	}

	switch {
	case isWS(c):
		for isWS(l.at(0)) {
			l.i++
		}

		return cssToken{kind: tWhitespace, start: start, end: l.i}, true
	case c == '"' || c == '\'':
		l.i++

		return l.consumeString(start, c), true
	case c == '#':
		if isName(l.at(1)) || validEscape(l.at(1), l.at(2)) {
			l.i++
			l.consumeIdentSeq()

			return cssToken{kind: tHash, start: start, end: l.i}, true
		}

		return single(tDelim)
	case c == '(':
		return single(tLParen)
	case c == ')':
		return single(tRParen)
	case c == '+' || c == '.':
		if startsNumber(c, l.at(1), l.at(2)) {
			return l.consumeNumeric(start), true
		}

		return single(tDelim)
	case c == ',':
		return single(tComma)
	case c == '-':
		if startsNumber(c, l.at(1), l.at(2)) {
			return l.consumeNumeric(start), true
		}

		if l.at(1) == '-' && l.at(2) == '>' {
			l.i += 3

			return cssToken{kind: tCDC, start: start, end: l.i}, true
		}

		if startsIdent(c, l.at(1), l.at(2)) {
			return l.consumeIdentLike(start), true
		}

		return single(tDelim)
	case c == ':':
		return single(tColon)
	case c == ';':
		return single(tSemicolon)
	case c == '<':
		if l.at(1) == '!' && l.at(2) == '-' && l.at(3) == '-' {
			l.i += 4

			return cssToken{kind: tCDO, start: start, end: l.i}, true
		}

		return single(tDelim)
	case c == '@':
		if startsIdent(l.at(1), l.at(2), l.at(3)) {
			l.i++
			l.consumeIdentSeq()

			return cssToken{kind: tAtKeyword, start: start, end: l.i}, true
		}

		return single(tDelim)
	case c == '[':
		return single(tLBracket)
	case c == ']':
		return single(tRBracket)
	case c == '\\':
		if validEscape(c, l.at(1)) {
			return l.consumeIdentLike(start), true
		}

		return single(tDelim)
	case c == '{':
		return single(tLBrace)
	case c == '}':
		return single(tRBrace)
	case isDigitC(c):
		return l.consumeNumeric(start), true
	case isNameStart(c):
		return l.consumeIdentLike(start), true
	}

	return single(tDelim)
}

// tokenizeCSS returns the preprocessed text and every token of it, comments
// and whitespace included.
func tokenizeCSS(src string) (string, []cssToken) {
	s := preprocess(src)
	l := &cssLexer{s: s}
	out := make([]cssToken, 0, 16)

	for {
		t, ok := l.next()
		if !ok {
			return s, out
		}

		out = append(out, t)
	}
}

package main

import (
	"fmt"
	"sort"
	"strings"
	"time"
)

// Ev is one operation of the alphabet.
type Ev struct {
	Op  string `json:"op"` // add find delete purge purgelocal setexp advance sweep
	Cls int    `json:"cls,omitempty"`
	Key string `json:"key,omitempty"`
	Val string `json:"val,omitempty"`
	Dur string `json:"dur,omitempty"`
}

func (e Ev) String() string {
	switch e.Op {
	case "add":
		return fmt.Sprintf("Add(%d,%s,%s)", e.Cls, e.Key, e.Val)
	case "find", "delete":
		return fmt.Sprintf("%s(%d,%s)", e.Op, e.Cls, e.Key)
	case "setexp":
		return fmt.Sprintf("SetExpiration(%d,%s)", e.Cls, e.Dur)
	case "advance":
		return "advance(" + e.Dur + ")"
	}

	return fmt.Sprintf("%s(%d)", e.Op, e.Cls)
}

// Report is one eviction-listener call.
type Report struct {
	Cls int
	Key string
	Val string
}

// Obs is what the implementation answered for one event.
type Obs struct {
	Found   bool
	Val     string
	Deleted bool
	Reports []Report
	Size    map[int]int
}

type entry struct {
	val      string
	expires  time.Time
	maybeCap bool // uncertain since an Add at capacity
	suspect  bool // stored after "SetExpiration; purge": its lifetime is the one a purge may have forgotten
	reported bool
}

type mcache struct {
	items    map[string]*entry
	lifetime time.Duration
	setexp   bool // SetExpiration was called
	purged   bool // purged since SetExpiration
}

// model is the boring reference: a bounded expiring map per class.
type model struct {
	cls   map[int]*mcache
	limit int
	now   time.Time
}

const defaultLifetime = 60 * time.Second

func newModel(limit int, now time.Time) *model {
	return &model{cls: map[int]*mcache{}, limit: limit, now: now}
}

func (m *model) cache(c int) *mcache {
	mc := m.cls[c]
	if mc == nil {
		mc = &mcache{items: map[string]*entry{}, lifetime: defaultLifetime}
		m.cls[c] = mc
	}

	return mc
}

func (m *model) expired(e *entry) bool { return m.now.After(e.expires) }

// step applies ev with the implementation's observation and returns a violation cell.
func (m *model) step(ev Ev, o Obs) (cell, msg string) {
	mc := m.cache(ev.Cls)

	// every listener report must name an entry the model knows, with its
	// latest value, and at most once
	judgeReports := func(allowed func(k string, e *entry) bool) (string, string) {
		for _, rp := range o.Reports {
			c2 := m.cache(rp.Cls)
			e := c2.items[rp.Key]

			if e == nil {
				return "evict:reports-unknown-entry", fmt.Sprintf("listener told of %v which is not in the cache", rp)
			}

			if e.val != rp.Val {
				return "evict:reports-stale-value", fmt.Sprintf("listener told of %v, latest value is %s", rp, e.val)
			}

			if e.reported {
				return "evict:reported-twice", fmt.Sprintf("listener told of %v twice", rp)
			}

			if !allowed(rp.Key, e) || rp.Cls != ev.Cls && ev.Op != "advance" && ev.Op != "sweep" {
				if e.suspect && (ev.Op == "advance" || ev.Op == "sweep") {
					return "purge:forgets-configured-lifetime", fmt.Sprintf("entry %v was expired and evicted before its configured lifetime %v ended (the cache was purged after SetExpiration)", rp, c2.lifetime)
				}

				return "evict:reports-live-entry", fmt.Sprintf("listener told of %v which was neither deleted nor expired", rp)
			}

			e.reported = true
		}

		return "", ""
	}

	switch ev.Op {
	case "add":
		if c, g := judgeReports(func(string, *entry) bool { return false }); c != "" {
			return c, g
		}

		delete(mc.items, ev.Key)

		sure, maybe := 0, 0

		for _, e := range mc.items {
			if e.maybeCap || m.expired(e) {
				maybe++
			} else {
				sure++
			}
		}

		ne := &entry{val: ev.Val, expires: m.now.Add(mc.lifetime), suspect: mc.setexp && mc.purged}

		if sure+maybe >= m.limit {
			// possibly at capacity: a bounded map may refuse the new entry or drop others
			ne.maybeCap = true

			if sure >= m.limit || true {
				for _, e := range mc.items {
					e.maybeCap = true
				}
			}
		}

		mc.items[ev.Key] = ne

	case "find":
		if c, g := judgeReports(func(string, *entry) bool { return false }); c != "" {
			return c, g
		}

		e := mc.items[ev.Key]
		if e == nil {
			if o.Found {
				return "find:returns-removed-value", fmt.Sprintf("Find(%d,%s) returned %q but the key was never stored, or was deleted/purged/expired-and-reported", ev.Cls, ev.Key, o.Val)
			}

			break
		}

		if o.Found {
			if o.Val != e.val {
				return "find:stale-value", fmt.Sprintf("Find(%d,%s) returned %q, latest stored value is %q", ev.Cls, ev.Key, o.Val, e.val)
			}

			e.maybeCap = false
			e.expires = m.now.Add(mc.lifetime)
			e.suspect = mc.setexp && mc.purged
		} else {
			if !e.maybeCap && !m.expired(e) {
				if e.suspect {
					return "purge:forgets-configured-lifetime", fmt.Sprintf("Find(%d,%s) missed an entry %s before its configured lifetime %v ended (the cache was purged after SetExpiration)", ev.Cls, ev.Key, m.now.Sub(e.expires.Add(-mc.lifetime)), mc.lifetime)
				}

				return "find:live-entry-missing", fmt.Sprintf("Find(%d,%s) missed a live entry (value %q, %v left)", ev.Cls, ev.Key, e.val, e.expires.Sub(m.now))
			}

			if !e.maybeCap && m.expired(e) && !e.reported {
				return "evict:expiry-not-reported", fmt.Sprintf("entry (%d,%s) was removed by expiry but never reported to the eviction listener", ev.Cls, ev.Key)
			}

			delete(mc.items, ev.Key)
		}

	case "delete":
		e := mc.items[ev.Key]

		if c, g := judgeReports(func(k string, _ *entry) bool { return k == ev.Key }); c != "" {
			return c, g
		}

		if e == nil {
			if o.Deleted {
				return "delete:reports-absent-key", fmt.Sprintf("Delete(%d,%s) returned true for an absent key", ev.Cls, ev.Key)
			}

			break
		}

		if !o.Deleted && !e.maybeCap && !m.expired(e) {
			return "delete:live-entry-missing", fmt.Sprintf("Delete(%d,%s) did not find a live entry", ev.Cls, ev.Key)
		}

		if o.Deleted && !e.reported {
			return "evict:delete-not-reported", fmt.Sprintf("Delete(%d,%s) removed the entry but the eviction listener was not told", ev.Cls, ev.Key)
		}

		if !o.Deleted && e.reported && len(o.Reports) > 0 {
			return "evict:reported-without-delete", fmt.Sprintf("Delete(%d,%s) returned false but reported an eviction", ev.Cls, ev.Key)
		}

		if !o.Deleted && !e.maybeCap && m.expired(e) && !e.reported {
			return "evict:expiry-not-reported", fmt.Sprintf("entry (%d,%s) was removed by expiry but never reported to the eviction listener", ev.Cls, ev.Key)
		}

		delete(mc.items, ev.Key)

	case "purge", "purgelocal":
		// purge notifications are not part of the statement: any known entry of the class may be reported once
		if c, g := judgeReports(func(string, *entry) bool { return true }); c != "" {
			return c, g
		}

		mc.items = map[string]*entry{}
		if mc.setexp {
			mc.purged = true
		}

	case "setexp":
		d, _ := time.ParseDuration(ev.Dur)
		mc.lifetime = d
		mc.setexp = true
		mc.purged = false

	case "advance", "sweep":
		if ev.Op == "advance" {
			d, _ := time.ParseDuration(ev.Dur)
			m.now = m.now.Add(d)
		}

		if c, g := judgeReports(func(_ string, e *entry) bool { return m.expired(e) }); c != "" {
			return c, g
		}

		for _, c2 := range m.cls {
			for k, e := range c2.items {
				if e.reported {
					delete(c2.items, k)
				}
			}
		}

		if ev.Op == "sweep" {
			// an explicit sweep must remove every expired entry of the class (and report it)
			for k, e := range mc.items {
				if m.expired(e) && !e.maybeCap {
					return "evict:expiry-not-reported", fmt.Sprintf("sweep left or silently dropped expired entry (%d,%s)", ev.Cls, k)
				}
			}
		}
	}

	// bounded: never more entries than the limit; and not fewer than the sure ones
	for c, n := range o.Size {
		if n > m.limit {
			return "size:exceeds-limit", fmt.Sprintf("cache %d holds %d entries, limit %d", c, n, m.limit)
		}
	}

	return "", ""
}

func (m *model) key() string {
	var parts []string

	for c, mc := range m.cls {
		var es []string

		for k, e := range mc.items {
			left := int64(e.expires.Sub(m.now) / time.Second)
			if m.expired(e) {
				left = -1 // how long ago it expired does not matter
			}

			es = append(es, fmt.Sprintf("%s=%s@%d%v%v%v", k, e.val, left, e.maybeCap, e.reported, e.suspect))
		}

		sort.Strings(es)
		parts = append(parts, fmt.Sprintf("%d:%v:%v:%v:%v", c, mc.lifetime, mc.setexp, mc.purged, es))
	}

	sort.Strings(parts)

	return strings.Join(parts, ";")
}

// C28: server caches behave like bounded expiring maps.
//
// Part 1 (E-seq): breadth-first search over all histories of
// add/find/delete/purge/purge-local/set-expiration/time-advance on the real
// internal/caches package (sync, time and go statements woven: the sweeper is
// a managed thread on the virtual clock), each answer judged by the reference
// model in model.go; states deduplicated on implementation dump + model state.
// Part 2 (E-sched): three threads (add/find, delete/find, sweep or purge) under
// the controlled scheduler, every interleaving within the preemption bound;
// each complete execution's call/return history is checked for linearizability
// against the same reference by brute force over all orders.
// Part 3: free-running -race pass of the same thread bodies (auxiliary).
package main

import (
	"fmt"
	"os"
	"os/exec"
	"runtime"
	"sort"
	"strings"
	gosync "sync"
	"time"

	"github.com/tucats/ego/internal/caches"
	"github.com/tucats/ego/internal/verifrt/enum"
	"github.com/tucats/ego/internal/verifrt/explore"
	"github.com/tucats/ego/internal/verifrt/report"
	"github.com/tucats/ego/internal/verifrt/seqx"
	"github.com/tucats/ego/internal/verifrt/vsched"
	vsync "github.com/tucats/ego/internal/verifrt/vsync"
	vtime "github.com/tucats/ego/internal/verifrt/vtime"
)

const (
	clsA  = caches.UserCache
	clsB  = caches.OAuthCodeCache
	limit = 2
)

var (
	reports   []Report
	reportsMu gosync.Mutex
)

func listener(id int, key any, value any) {
	reportsMu.Lock()
	reports = append(reports, Report{Cls: id, Key: fmt.Sprint(key), Val: fmt.Sprint(value)})
	reportsMu.Unlock()
}

func takeReports() []Report {
	reportsMu.Lock()
	defer reportsMu.Unlock()

	out := reports
	reports = nil

	return out
}

func fresh() {
	caches.VerifReset(limit)
	caches.SetOnEvict(listener)
	takeReports()
}

// apply runs one event on the implementation.
func apply(ev Ev) Obs {
	var o Obs

	switch ev.Op {
	case "add":
		caches.Add(ev.Cls, ev.Key, ev.Val)
	case "find":
		v, ok := caches.Find(ev.Cls, ev.Key)
		o.Found = ok

		if ok {
			o.Val = fmt.Sprint(v)
		}
	case "delete":
		o.Deleted = caches.Delete(ev.Cls, ev.Key)
	case "purge":
		caches.Purge(ev.Cls)
	case "purgelocal":
		caches.PurgeLocal(ev.Cls)
	case "setexp":
		_ = caches.SetExpiration(ev.Cls, ev.Dur)
	case "advance":
		d, _ := time.ParseDuration(ev.Dur)
		vtime.Advance(d)
	case "sweep":
		caches.VerifSweep(ev.Cls)
	}

	vsched.Settle() // background sweeper runs to its next sleep

	o.Reports = takeReports()
	o.Size = map[int]int{clsA: caches.Size(clsA), clsB: caches.Size(clsB)}

	return o
}

func alphabet(thorough bool) []Ev {
	var evs []Ev

	keys := []string{"a", "b", "c"}
	for _, k := range keys {
		for _, v := range []string{"x", "y"} {
			evs = append(evs, Ev{Op: "add", Cls: clsA, Key: k, Val: v})
		}
	}

	for _, k := range keys {
		evs = append(evs, Ev{Op: "find", Cls: clsA, Key: k})
	}

	for _, k := range keys {
		evs = append(evs, Ev{Op: "delete", Cls: clsA, Key: k})
	}

	evs = append(evs,
		Ev{Op: "purge", Cls: clsA}, Ev{Op: "purgelocal", Cls: clsA},
		Ev{Op: "setexp", Cls: clsA, Dur: "5m"}, Ev{Op: "setexp", Cls: clsA, Dur: "20s"},
		Ev{Op: "advance", Dur: "30s"}, Ev{Op: "advance", Dur: "61s"}, Ev{Op: "advance", Dur: "6m"},
		// a second class: independence of classes
		Ev{Op: "add", Cls: clsB, Key: "a", Val: "z"}, Ev{Op: "find", Cls: clsB, Key: "a"}, Ev{Op: "purge", Cls: clsB},
	)

	if thorough {
		evs = append(evs, Ev{Op: "delete", Cls: clsB, Key: "a"}, Ev{Op: "setexp", Cls: clsB, Dur: "5m"}, Ev{Op: "sweep", Cls: clsA})
	}

	return evs
}

type seqWitness struct {
	Part    string `json:"part"`
	History []Ev   `json:"history"`
	Text    string `json:"text"`
}

func histText(h []Ev) string {
	parts := make([]string, len(h))
	for i, e := range h {
		parts[i] = e.String()
	}

	return strings.Join(parts, "; ")
}

func runSeq(r *report.R, evs []Ev, depth int, maxStates int) seqx.Stats {
	var m *model

	return seqx.Run(seqx.Spec[Ev]{
		Events: evs, MaxDepth: depth, MaxStates: maxStates, StopAtViolation: true,
		Wrap: func(body func()) {
			out := vsched.Run(vsched.Config{Horizon: 200000}, body)
			if out.Panic != nil || out.Deadlock || out.Horizon {
				r.Violation("seq:crash", 0, map[string]any{"panic": out.Panic, "deadlock": out.Deadlock, "horizon": out.Horizon, "stack": out.PanicStk}, "a sequential history crashed, deadlocked or did not end")
			}
		},
		Fresh: func() {
			fresh()
			m = newModel(limit, vsched.Now())
		},
		Step: func(e Ev, last bool) (string, string) {
			o := apply(e)
			r.Eval(1)

			return m.step(e, o)
		},
		Key: func() string {
			k := caches.VerifDump(vsched.Now()) + "|" + m.key() + "|" + fmt.Sprint(vsched.Sleepers())
			r.Distinct("seq|" + k)

			return k
		},
		Violation: func(h []Ev, cell, msg string) {
			r.Violation(cell, len(h), seqWitness{Part: "seq", History: h, Text: histText(h)}, msg)
		},
	})
}

// ---------- concurrent part ----------

type call struct {
	Thread int
	Ev     Ev
	Obs    Obs
	Start  int
	End    int
}

type concWitness struct {
	Part     string   `json:"part"`
	Scenario string   `json:"scenario"`
	Schedule []int    `json:"schedule"`
	Calls    []string `json:"calls"`
	Trace    []string `json:"trace,omitempty"`
}

type concScenario struct {
	name    string
	setup   []Ev   // sequential prefix (in thread 0)
	threads [][]Ev // one op list per thread
}

func concScenarios() []concScenario {
	A := func(k, v string) Ev { return Ev{Op: "add", Cls: clsA, Key: k, Val: v} }
	F := func(k string) Ev { return Ev{Op: "find", Cls: clsA, Key: k} }
	D := func(k string) Ev { return Ev{Op: "delete", Cls: clsA, Key: k} }
	sweep := Ev{Op: "sweep", Cls: clsA}
	purge := Ev{Op: "purgelocal", Cls: clsA}
	adv := Ev{Op: "advance", Dur: "61s"}

	return []concScenario{
		{"add-find|delete-find|sweep", []Ev{A("b", "old"), adv}, [][]Ev{{A("a", "x"), F("b")}, {D("a"), F("a")}, {sweep}}},
		{"add-find|delete-delete|purge", []Ev{A("a", "x")}, [][]Ev{{A("a", "y"), F("a")}, {D("a"), D("a")}, {purge}}},
		{"readd|delete|sweep-expired", []Ev{A("a", "old"), adv}, [][]Ev{{A("a", "new"), F("a")}, {D("a")}, {sweep, F("a")}}},
		{"delete|delete|find", []Ev{A("a", "x")}, [][]Ev{{D("a")}, {D("a")}, {F("a"), A("a", "y")}}},
		{"add-add|find-find|delete", nil, [][]Ev{{A("a", "x"), A("a", "y")}, {F("a"), F("a")}, {D("a")}}},
	}
}

// applyConc runs one event without Settle (threads interleave at lock points).
func applyConc(ev Ev) Obs {
	var o Obs

	switch ev.Op {
	case "add":
		caches.Add(ev.Cls, ev.Key, ev.Val)
	case "find":
		v, ok := caches.Find(ev.Cls, ev.Key)
		o.Found = ok

		if ok {
			o.Val = fmt.Sprint(v)
		}
	case "delete":
		o.Deleted = caches.Delete(ev.Cls, ev.Key)
	case "purgelocal":
		caches.PurgeLocal(ev.Cls)
	case "sweep":
		caches.VerifSweep(ev.Cls)
	case "advance":
		d, _ := time.ParseDuration(ev.Dur)
		vtime.Advance(d)
	}

	return o
}

// linearizable: is there a total order of the calls, consistent with real-time
// order, that the sequential reference accepts? Eviction reports are judged as
// a whole afterwards (each removed entry exactly once).
func linearizable(setup []Ev, calls []call, t0 time.Time) bool {
	n := len(calls)
	ok := false

	enum.Permutations(n, func(p []int) {
		if ok {
			return
		}

		// real-time order: if a.End < b.Start then a before b
		pos := make([]int, n)
		for i, c := range p {
			pos[c] = i
		}

		for a := 0; a < n; a++ {
			for b := 0; b < n; b++ {
				if calls[a].End < calls[b].Start && pos[a] > pos[b] {
					return
				}
			}
		}

		m := newModel(1000, t0)

		for _, e := range setup {
			m.step(e, Obs{})
		}

		for _, ci := range p {
			o := calls[ci].Obs
			o.Reports = nil

			// reports are judged globally; tell the model what a delete/sweep removed
			c := calls[ci]
			if c.Ev.Op == "delete" && o.Deleted {
				if e := m.cache(c.Ev.Cls).items[c.Ev.Key]; e != nil {
					o.Reports = []Report{{c.Ev.Cls, c.Ev.Key, e.val}}
				}
			}

			if c.Ev.Op == "sweep" {
				for k, e := range m.cache(c.Ev.Cls).items {
					if m.expired(e) {
						o.Reports = append(o.Reports, Report{c.Ev.Cls, k, e.val})
					}
				}
			}

			if cell, _ := m.step(c.Ev, o); cell != "" {
				return
			}
		}

		ok = true
	})

	return ok
}

func callStrings(cs []call) []string {
	out := make([]string, len(cs))
	for i, c := range cs {
		out[i] = fmt.Sprintf("T%d %s -> found=%v val=%q deleted=%v [%d,%d]", c.Thread, c.Ev, c.Obs.Found, c.Obs.Val, c.Obs.Deleted, c.Start, c.End)
	}

	return out
}

func runConc(r *report.R, bound int) (schedules, transitions int) {
	for _, sc := range concScenarios() {
		sc := sc

		var (
			calls []call
			tick  int
			t0    time.Time
			final map[string]string
		)

		ex := &explore.Scenario{
			Name: sc.name, Bound: bound, Horizon: 50000,
			Focus: func(kind string, _ any) bool {
				return strings.HasPrefix(kind, "Mutex.") || strings.HasPrefix(kind, "RWMutex.")
			},
			Setup: func() {
				caches.VerifReset(1000)
				caches.SetOnEvict(listener)
				takeReports()

				calls, tick = nil, 0
				t0 = vsched.Now()

				for _, e := range sc.setup {
					applyConc(e)
				}
			},
			Body: func() {
				var wg vsync.WaitGroup

				for ti, ops := range sc.threads {
					ti, ops := ti, ops

					wg.Add(1)
					vsched.Go(func() {
						defer wg.Done()

						for _, e := range ops {
							tick++
							c := call{Thread: ti, Ev: e, Start: tick}
							c.Obs = applyConc(e)
							tick++
							c.End = tick
							calls = append(calls, c)
						}
					})
				}

				wg.Wait()

				// final state, read sequentially
				final = map[string]string{}

				for _, k := range []string{"a", "b"} {
					if v, ok := caches.Find(clsA, k); ok {
						final[k] = fmt.Sprint(v)
					}
				}
			},
			Observe: func() any { return fmt.Sprint(callStrings(calls), final) },
		}

		outcomes := map[string]int{}

		ex.Check = func(out vsched.Outcome) {
			r.Eval(1)
			transitions += len(out.Points) + 1
			r.Distinct("conc|" + sc.name + fmt.Sprint(out.Choices()))

			w := concWitness{Part: "conc", Scenario: sc.name, Schedule: out.Choices(), Calls: callStrings(calls)}
			size := len(out.Points)*10 + vsched.Preemptions(out.Points)

			if out.Panic != nil || out.Deadlock {
				w.Trace = out.Describe()
				r.Violation("conc:crash:"+sc.name, size, w, fmt.Sprintf("panic=%v deadlock=%v %v\n%s", out.Panic, out.Deadlock, out.BlockedOn, out.PanicStk))

				return
			}

			if out.Horizon {
				r.Capped("horizon in " + sc.name)

				return
			}

			outcomes[fmt.Sprint(callStrings(calls))]++

			// final reads are two more sequential calls after everything
			all := append([]call(nil), calls...)

			for _, k := range []string{"a", "b"} {
				tick++
				v, ok := final[k]
				all = append(all, call{Thread: 9, Ev: Ev{Op: "find", Cls: clsA, Key: k}, Obs: Obs{Found: ok, Val: v}, Start: tick, End: tick + 1})
				tick++
			}

			if !linearizable(sc.setup, all, t0) {
				w.Trace = out.Describe()
				w.Calls = callStrings(all)
				r.Violation("conc:not-linearizable:"+sc.name, size, w, "no sequential order of these calls (respecting call/return order) is accepted by the reference map")
			}

			// each removed entry is reported exactly once
			seen := map[string]int{}
			for _, rp := range takeReports() {
				seen[fmt.Sprint(rp)]++
			}

			for k, n := range seen {
				if n > 1 {
					w.Trace = out.Describe()
					r.Violation("conc:evict-reported-twice", size, w, fmt.Sprintf("eviction listener told %d times of %s", n, k))
				}
			}

			removed := 0

			for _, c := range calls {
				if c.Ev.Op == "delete" && c.Obs.Deleted {
					removed++
				}
			}

			nrep := 0
			for _, n := range seen {
				nrep += n
			}

			if nrep < removed {
				w.Trace = out.Describe()
				r.Violation("conc:evict-not-reported", size, w, fmt.Sprintf("%d successful deletes but only %d eviction reports", removed, nrep))
			}
		}

		if err := ex.Determinism(); err != nil {
			report.Fatal("%v", err)
		}

		res := ex.Explore()
		if res.MaxPoints == 0 {
			report.Fatal("scenario %s has no choice points: the seams are lost", sc.name)
		}

		schedules += res.Schedules
		r.Set("conc:"+sc.name, map[string]any{"schedules": res.Schedules, "bound": res.Bound, "max_points": res.MaxPoints, "distinct_call_histories": len(outcomes)})
		r.Sample(map[string]any{"concurrent_scenario": sc.name, "threads": sc.threads, "schedules": res.Schedules, "preemption_bound": bound})
	}

	return schedules, transitions
}

// ---------- free-running race pass (same thread bodies, real goroutines) ----------

func racePass() {
	caches.VerifReset(1000)
	caches.SetOnEvict(listener)

	for _, procs := range []int{1, 2, 4, 16} {
		runtime.GOMAXPROCS(procs)

		for rep := 0; rep < 300; rep++ {
			for _, sc := range concScenarios() {
				caches.VerifClear(1000)

				for _, e := range sc.setup {
					if e.Op != "advance" {
						applyConc(e)
					}
				}

				var wg gosync.WaitGroup

				for _, ops := range sc.threads {
					ops := ops

					wg.Add(1)

					go func() {
						defer wg.Done()

						for _, e := range ops {
							applyConc(e)
						}
					}()
				}

				wg.Wait()
			}
		}
	}

	fmt.Println("RACEPASS-DONE")
}

func main() {
	if len(os.Args) > 1 && os.Args[1] == "racepass" {
		racePass()

		return
	}

	r := report.New("model_checking")
	evs := alphabet(r.Thorough())
	depth := r.Pick(5, 6)
	maxStates := r.Pick(300000, 3000000)

	if r.Replay != "" {
		var w seqWitness
		if err := report.LoadReplay(r.Replay, &w); err != nil {
			report.Fatal("%v", err)
		}

		if w.Part == "seq" {
			var m *model

			vsched.Run(vsched.Config{}, func() {
				fresh()
				m = newModel(limit, vsched.Now())

				for i, e := range w.History {
					o := apply(e)
					cell, msg := m.step(e, o)
					fmt.Printf("  %d %-28s found=%v val=%q deleted=%v reports=%v size=%v %s %s\n", i, e, o.Found, o.Val, o.Deleted, o.Reports, o.Size, cell, msg)

					if cell != "" {
						r.Violation(cell, len(w.History), w, msg)
					}
				}
			})
		}

		r.Eval(1)
		r.Finish()
	}

	st := runSeq(r, evs, depth, maxStates)
	if st.Capped {
		r.Capped(fmt.Sprintf("state cap %d reached at depth %d", maxStates, st.Depth))
	}

	for i := 0; i < 3 && i < len(evs); i++ {
		r.Sample(map[string]any{"event": evs[i*7%len(evs)].String()})
	}

	sched, trans := runConc(r, r.Pick(2, 3))

	r.Set("seq_states", st.States)
	r.Set("seq_transitions", st.Transitions)
	r.Set("seq_depth", st.Depth)
	r.Set("seq_states_per_depth", st.PerDepth)
	r.Set("alphabet", len(evs))
	r.Set("states", st.States+sched)
	r.Set("transitions", st.Transitions+trans)
	r.Set("traces_validated_against_impl", st.Transitions+sched)


	// auxiliary: free-running -race pass of the same thread bodies
	if rb := os.Getenv("VERIF_RACE_BIN"); rb != "" {
		cmd := exec.Command(rb, "racepass")
		cmd.Env = append(os.Environ(), "GORACE=halt_on_error=0 exitcode=0")

		out, err := cmd.CombinedOutput()
		text := string(out)

		switch {
		case strings.Contains(text, "WARNING: DATA RACE"):
			frames := raceFrames(text)
			r.Violation("race:"+frames, 1, map[string]any{"report": firstRace(text)}, "the Go race detector reports an unsynchronized access in internal/caches under concurrent use")
		case err != nil || !strings.Contains(text, "RACEPASS-DONE"):
			if strings.Contains(text, "fatal error") {
				r.Violation("race:fatal", 1, map[string]any{"output": tail(text, 1500)}, "the free-running pass died with a Go fatal error")
			} else {
				report.Fatal("race pass failed: %v\n%s", err, tail(text, 1500))
			}
		}

		r.Set("race_pass", "5 scenarios x 300 repetitions x GOMAXPROCS{1,2,4,16}, real goroutines, -race")
	}

	r.Rule(fmt.Sprintf("BFS over every history of depth<=%d over %d events (3 keys x 2 values, 2 classes, limit 2, virtual clock, sweeper thread managed) on the real caches package, each answer judged by the reference map; plus every interleaving (preemption bound in coverage) of 5 three-thread scenarios with a brute-force linearizability check; distinct = distinct canonical states / schedules", depth, len(evs)))
	r.Assume("reference model: bounded map with sliding expiry (a Find renews the entry, as the implementation documents); purge notifications and Active() are outside the statement and not judged",
		"scheduling points are lock acquisitions; the free-running -race pass is auxiliary evidence for plain memory accesses")
	r.Finish()
}

func tail(s string, n int) string {
	if len(s) > n {
		return s[len(s)-n:]
	}

	return s
}

func firstRace(s string) string {
	i := strings.Index(s, "WARNING: DATA RACE")
	s = s[i:]

	if j := strings.Index(s, "=================="); j > 0 {
		s = s[:j]
	}

	return tail(s, 3000)
}

// raceFrames names the racing functions (cell key).
func raceFrames(s string) string {
	var fns []string

	for _, line := range strings.Split(firstRace(s), "\n") {
		line = strings.TrimSpace(line)
		if strings.HasPrefix(line, "github.com/tucats/ego/internal/caches.") {
			fn := strings.TrimPrefix(line, "github.com/tucats/ego/internal/caches.")
			if i := strings.Index(fn, "("); i > 0 {
				fn = fn[:i]
			}

			fns = append(fns, fn)
		}
	}

	sort.Strings(fns)

	if len(fns) > 2 {
		fns = fns[:2]
	}

	return strings.Join(fns, "+")
}

package main

import (
	"fmt"
	"net/http"
	"sort"
	"strings"

	"github.com/tucats/ego/internal/defs"
	"github.com/tucats/ego/internal/verifrt/report"
)

// probe is one request by one caller.
type probe struct {
	Kind  string `json:"kind"`
	User  string `json:"user"`
	DSN   string `json:"dsn"`
	Table string `json:"table"`
}

func (p probe) String() string { return p.Kind + " by " + p.User + " on " + p.DSN + "." + p.Table }

// kinds of request and the permission each one needs.
var kinds = []struct{ kind, perm string }{
	{"rows-read", defs.TableReadPermission},
	{"rows-insert", defs.TableWritePermission},
	{"rows-update", defs.TableUpdatePermission},
	{"rows-delete", defs.TableDeletePermission},
	{"abstract-read", defs.TableReadPermission},
	{"abstract-insert", defs.TableWritePermission},
	{"abstract-update", defs.TableUpdatePermission},
	{"tx-select", defs.TableReadPermission},
	{"tx-readrows", defs.TableReadPermission},
	{"tx-insert", defs.TableWritePermission},
	{"tx-update", defs.TableUpdatePermission},
	{"tx-delete", defs.TableDeletePermission},
	{"tx-drop", defs.TableAdminPermission},
	{"table-delete", defs.TableAdminPermission},
}

// rowKinds are the kinds whose granted form must be seen to work at least once.
var rowKinds = func() []string {
	var out []string

	for _, k := range kinds {
		if k.kind != "table-delete" {
			out = append(out, k.kind)
		}
	}

	return out
}()

func permOf(kind string) string {
	for _, k := range kinds {
		if k.kind == kind {
			return k.perm
		}
	}

	return defs.TableAdminPermission // table-create
}

const newTable = "t9"

var probeList []probe

// probes lists the requests made in every state. The non-administrators are
// probed on both tables of the restricted DSN; the callers that are not
// limited (administrator, open DSN) on t1 only in the quick tier.
func probes(thorough bool) []probe {
	if probeList != nil {
		return probeList
	}

	add := func(user, dsn string) {
		for _, t := range tables {
			if !thorough && t != "t1" && (user == "admin" || dsn == dsnO) {
				continue
			}

			for _, k := range kinds {
				probeList = append(probeList, probe{k.kind, user, dsn, t})
			}
		}

		probeList = append(probeList, probe{"table-create", user, dsn, newTable})
	}

	for _, u := range nonAdmins {
		add(u, dsnR)
	}

	add("admin", dsnR)
	add(nonAdmins[0], dsnO)

	return probeList
}

func (p probe) request() (method, target string, body []byte) {
	base := "/dsns/" + p.DSN + "/tables/" + p.Table
	tx := func(task string) (string, string, []byte) {
		return "POST", "/dsns/" + p.DSN + "/tables/@transaction", []byte("[" + task + "]")
	}

	switch p.Kind {
	case "rows-read":
		return "GET", base + "/rows", nil
	case "rows-insert":
		return "PUT", base + "/rows", []byte(`{"id":9,"name":"p"}`)
	case "rows-update":
		return "PATCH", base + "/rows?filter=EQ(id,1)", []byte(`{"name":"q"}`)
	case "rows-delete":
		return "DELETE", base + "/rows?filter=EQ(id,2)", nil
	case "abstract-read":
		return "GET", base + "/rows?abstract=true", nil
	case "abstract-insert":
		return "PUT", base + "/rows?abstract=true", []byte(`{"columns":[{"name":"id"},{"name":"name"},{"name":"_row_id_"}],"rows":[[9,"p",""]],"count":1}`)
	case "abstract-update":
		return "PATCH", base + "/rows?filter=EQ(id,1)&abstract=true", []byte(`{"columns":[{"name":"name"}],"rows":[["q"]],"count":1}`)
	case "tx-select":
		return tx(`{"operation":"select","table":"` + p.Table + `","filters":["EQ(id,1)"]}`)
	case "tx-readrows":
		return tx(`{"operation":"readrows","table":"` + p.Table + `"}`)
	case "tx-insert":
		return tx(`{"operation":"insert","table":"` + p.Table + `","data":{"id":9,"name":"p"}}`)
	case "tx-update":
		return tx(`{"operation":"update","table":"` + p.Table + `","filters":["EQ(id,1)"],"data":{"name":"q"}}`)
	case "tx-delete":
		return tx(`{"operation":"delete","table":"` + p.Table + `","filters":["EQ(id,2)"]}`)
	case "tx-drop":
		return tx(`{"operation":"drop","table":"` + p.Table + `"}`)
	case "table-delete":
		return "DELETE", base, nil
	case "table-create":
		return "PUT", base, []byte(`[{"name":"a","type":"int"}]`)
	}

	report.Fatal("unknown probe kind %q", p.Kind)

	return "", "", nil
}

type counters struct{ n map[string]int64 }

func newCounters() *counters { return &counters{map[string]int64{}} }

func (c *counters) save(r *report.R) {
	keys := make([]string, 0, len(c.n))
	for k := range c.n {
		keys = append(keys, k)
	}

	sort.Strings(keys)

	for _, k := range keys {
		r.Add(k, c.n[k])
	}
}

// holds reports whether the store records perm (or the table's admin
// permission) for exactly (user, dsn, table); why names what the store holds
// instead when it does not.
func holds(rows []grantRow, user, dsn, table, perm string) (bool, string) {
	idx := map[string]int{}
	for i, p := range perms {
		idx[p] = i
	}

	var own, otherUser, otherTable, otherDSN bool

	any := func(g grantRow) bool {
		for _, f := range g.Flags {
			if f {
				return true
			}
		}

		return false
	}

	for _, g := range rows {
		switch {
		case g.User == user && g.DSN == dsn && g.Table == table:
			if g.Flags[idx[perm]] || g.Flags[idx[defs.TableAdminPermission]] {
				return true, ""
			}

			own = true
		case g.DSN == dsn && g.Table == table && any(g):
			otherUser = true
		case g.User == user && g.DSN == dsn && any(g):
			otherTable = true
		case g.User == user && g.Table == table && any(g):
			otherDSN = true
		}
	}

	switch {
	case own:
		return false, "own-row-lacks-the-permission"
	case otherUser:
		return false, "grant-of-another-user"
	case otherTable:
		return false, "grant-on-another-table"
	case otherDSN:
		return false, "grant-on-another-dsn"
	}

	return false, "no-related-grant"
}

func clip(s string, n int) string {
	s = strings.Join(strings.Fields(s), " ")
	if len(s) > n {
		return s[:n] + "…"
	}

	return s
}

// probeOne serves one probe in the current state, judges it and undoes it.
func (w *world) probeOne(r *report.R, s state, rows []grantRow, p probe, c *counters) {
	method, target, body := p.request()

	dataBefore := w.dataDump(p.DSN)
	cols, vals := w.rawStore()

	status, resp := w.do(p.User, method, target, body)

	r.Eval(1)
	r.Distinct(w.backend + "|" + s.Key + "|" + p.String())

	var changed []string

	if d := w.dataDump(p.DSN); d != dataBefore {
		changed = append(changed, "data file of DSN "+p.DSN)
	}

	storeNow := storeKey(w.storeRows())
	if storeNow != s.Key {
		changed = append(changed, "permission store")
	}

	effective := (status >= 200 && status < 300) || len(changed) > 0

	// undo
	if len(changed) > 0 {
		if storeNow != s.Key {
			w.restoreStore(cols, vals)
		}

		w.resetData(p.DSN)
	}

	perm := permOf(p.Kind)
	wit := func(needs string) witness {
		st := make([]string, len(rows))
		for i, g := range rows {
			st[i] = g.String()
		}

		return witness{History: s.History, Text: text(s.History), Store: st, Probe: p, Status: status, Body: clip(resp, 240), Changed: strings.Join(changed, ", "), Needs: needs, Backend: w.backend}
	}

	size := len(s.History)*1000 + len(rows)

	if p.User == "admin" || p.DSN == dsnO {
		who := "administrator"
		if p.User != "admin" {
			who = "unrestricted-dsn"
		}

		if status == http.StatusForbidden {
			c.n["unlimited_caller_refused"]++
			r.Violation("refused-though-not-limited:"+who, size, wit("nothing: "+who), fmt.Sprintf("%s was refused (403) although %s is not subject to table grants", p, who))
		} else if effective {
			c.n["unlimited_and_effective:"+who]++
		} else {
			c.n["unlimited_other_failure:"+who]++
		}

		return
	}

	granted, why := holds(rows, p.User, p.DSN, p.Table, perm)
	needs := fmt.Sprintf("%s (or admin) for %s on %s.%s", perm, p.User, p.DSN, p.Table)

	switch {
	case effective && !granted:
		c.n["ungranted_and_effective"]++
		r.Violation("effect-without-grant:"+why, size, wit(needs), fmt.Sprintf("%s took effect (status %d%s) although the store records no %s", p, status, func() string {
			if len(changed) > 0 {
				return ", changed: " + strings.Join(changed, ", ")
			}

			return ""
		}(), needs))
	case effective:
		c.n["granted_and_effective:"+p.Kind]++
	case granted:
		c.n["granted_but_not_effective:"+p.Kind]++
	default:
		c.n["ungranted_and_refused"]++

		if status != http.StatusForbidden {
			c.n["ungranted_and_failed_otherwise"]++
		}
	}
}

package main

import (
	"context"
	gosql "database/sql"
	"fmt"
	"os"
	"path/filepath"
	"sort"
	"strings"

	"github.com/google/uuid"
	_ "modernc.org/sqlite"

	"github.com/tucats/ego/internal/caches"
	"github.com/tucats/ego/internal/cli/settings"
	"github.com/tucats/ego/internal/defs"
	"github.com/tucats/ego/internal/dsns"
	"github.com/tucats/ego/internal/language/tokens"
	"github.com/tucats/ego/internal/server/auth"
	"github.com/tucats/ego/internal/verifrt/report"
	"github.com/tucats/ego/internal/verifrt/tblsrv"
	vsql "github.com/tucats/ego/internal/verifrt/vsql"
)

const (
	dsnR = "r" // restricted
	dsnO = "o" // open (unrestricted)
)

var (
	nonAdmins = []string{"alice", "bob"}
	tables    = []string{"t1", "t2"}
	perms     = []string{defs.TableReadPermission, defs.TableWritePermission, defs.TableUpdatePermission, defs.TableDeletePermission, defs.TableAdminPermission}
)

var fixtureSQL = []string{
	`CREATE TABLE t1 (id INTEGER, name TEXT, _row_id_ TEXT UNIQUE)`,
	`INSERT INTO t1 VALUES (1,'a','r1'),(2,'b','r2'),(3,'c','r3')`,
	`CREATE TABLE t2 (id INTEGER, name TEXT, _row_id_ TEXT UNIQUE)`,
	`INSERT INTO t2 VALUES (1,'x','q1'),(2,'y','q2'),(3,'z','q3')`,
}

type token struct {
	text string
	tok  *tokens.Token
}

type world struct {
	srv      *tblsrv.Server
	tok      map[string]token
	store    *gosql.Conn            // the table_perms database, seen from outside
	data     map[string]*gosql.Conn // the two data files, seen from outside
	pristine string
	backend  string
	keep     []*gosql.DB
	requests int
}

func must(err error, what string) {
	if err != nil {
		report.Fatal("%s: %v", what, err)
	}
}

func openPlain(base string) (*gosql.DB, *gosql.Conn) {
	db, err := gosql.Open("sqlite", base+"&_pragma=busy_timeout(10000)")
	must(err, "open "+base)

	c, err := db.Conn(context.Background())
	must(err, "connect "+base)

	return db, c
}

// newWorld builds users, DSNs, data and the server. backend "file": each DSN
// is a SQLite file in WAL mode; backend "memdb": each DSN is a database of
// SQLite's in-memory VFS shared by the connections of this process (a request
// costs a fifth of what it costs on a WAL file). The permission store is a
// SQLite file in both cases.
func newWorld(dir, backend string) *world {
	must(os.MkdirAll(dir, 0o755), "scratch")

	w := &world{tok: map[string]token{}, data: map[string]*gosql.Conn{}, backend: backend}
	ctx := context.Background()

	var err error

	w.srv, err = tblsrv.New()
	must(err, "table server")

	// users: the root user "admin" comes with tblsrv; alice and bob may log on and nothing else
	for i, u := range nonAdmins {
		must(auth.AuthService.WriteUser(0, defs.User{Name: u, ID: uuid.New(), Permissions: []string{defs.LogonPermission}}), "user "+u)
		w.tok[u] = token{fmt.Sprintf("verif43%d0123456789abcdef0123456789abcdef0123456789abcdef", i), &tokens.Token{Name: u, TokenID: uuid.New()}}
	}

	// the permission store
	storePath := filepath.Join(dir, "perms.db")
	settings.Set(defs.LogonUserdataSetting, "sqlite://"+storePath)

	// two DSNs, each its own SQLite file with the same two tables
	for _, d := range []string{dsnR, dsnO} {
		p := filepath.Join(dir, d+".db")

		for _, sfx := range []string{"", "-wal", "-shm", "-journal"} {
			_ = os.Remove(p + sfx)
		}

		base := "file:" + p + "?_pragma=synchronous(off)"
		if backend == "memdb" {
			base = "file:/c43" + d + ".db?vfs=memdb"
		}

		db, c := openPlain(base)
		w.keep = append(w.keep, db)
		w.data[d] = c

		if backend == "file" {
			_, err = c.ExecContext(ctx, "PRAGMA journal_mode=WAL")
			must(err, "journal mode")
		}

		for _, q := range fixtureSQL {
			_, err = c.ExecContext(ctx, q)
			must(err, "fixture "+q)
		}

		must(dsns.DSNService.WriteDSN(0, "admin", defs.DSN{
			Name: d, Provider: defs.SqliteProvider, Database: base, RowId: true, Restricted: d == dsnR,
		}), "DSN "+d)
	}

	// alice and bob may open the restricted DSN for reading and writing (not
	// administer it); what they may do to a table is the subject of the check.
	for _, u := range nonAdmins {
		must(dsns.DSNService.GrantDSN(0, u, dsnR, dsns.DSNReadAction|dsns.DSNWriteAction, true), "DSN grant")
	}

	if d, _ := dsns.DSNService.ReadDSN(0, "admin", dsnO, true); d.Restricted {
		report.Fatal("the open DSN became restricted")
	}

	w.pristine = w.dataDump(dsnR)
	vsql.VerifSetHook(func(vsql.VerifEvent) {})

	// a first request makes the server create table_perms
	if st, body := w.do("admin", "GET", "/dsns/"+dsnR+"/tables/t1/permissions", nil); st != 200 {
		report.Fatal("cannot read permissions: %d %s", st, body)
	}

	db, c := openPlain("file:" + storePath + "?_pragma=synchronous(off)")
	w.keep = append(w.keep, db)
	w.store = c
	w.clearStore()

	return w
}

func (w *world) close() {
	vsql.VerifCloseAll()
	_ = w.store.Close()

	for _, c := range w.data {
		_ = c.Close()
	}

	for _, db := range w.keep {
		_ = db.Close()
	}
}

// do serves one request as user.
func (w *world) do(user, method, target string, body []byte) (int, string) {
	w.srv.Fresh()

	var hdr map[string]string

	if user != "admin" {
		t := w.tok[user]
		caches.Add(caches.TokenCache, t.text, t.tok)
		hdr = map[string]string{"Authorization": "Bearer " + t.text}
	}

	st, rb, _ := w.srv.Do(method, target, body, hdr)
	w.requests++

	// the abstract handlers leave their database handle open
	vsql.VerifCloseAll()

	return st, string(rb)
}

// grantRow is one row of table_perms as the store holds it.
type grantRow struct {
	User, DSN, Table string
	Flags            [5]bool // read write update delete admin (order of perms)
}

func (g grantRow) String() string {
	var s []string

	for i, f := range g.Flags {
		if f {
			s = append(s, perms[i])
		}
	}

	return g.User + "/" + g.DSN + "." + g.Table + "=[" + strings.Join(s, ",") + "]"
}

func truthy(v any) bool {
	switch x := v.(type) {
	case bool:
		return x
	case int64:
		return x != 0
	case string:
		return x == "true" || x == "1"
	case []byte:
		return string(x) == "true" || string(x) == "1"
	}

	return false
}

// storeRows reads the permission store through a connection of the harness's
// own: this is "what the permission store records".
func (w *world) storeRows() []grantRow {
	rows, err := w.store.QueryContext(context.Background(), `SELECT "user","dsn","table","read","write","update","delete","admin" FROM table_perms`)
	must(err, "read table_perms")

	defer rows.Close()

	var out []grantRow

	for rows.Next() {
		var (
			g grantRow
			f [5]any
		)

		must(rows.Scan(&g.User, &g.DSN, &g.Table, &f[0], &f[1], &f[2], &f[3], &f[4]), "scan table_perms")

		for i := range f {
			g.Flags[i] = truthy(f[i])
		}

		out = append(out, g)
	}

	must(rows.Err(), "read table_perms")
	sort.Slice(out, func(i, j int) bool { return out[i].String() < out[j].String() })

	return out
}

func storeKey(rows []grantRow) string {
	s := make([]string, len(rows))
	for i, g := range rows {
		s[i] = g.String()
	}

	return strings.Join(s, " ")
}

// rawStore / restoreStore save and put back the store byte for byte (ids too).
func (w *world) rawStore() (cols []string, vals [][]any) {
	rows, err := w.store.QueryContext(context.Background(), `SELECT * FROM table_perms ORDER BY 1`)
	must(err, "save table_perms")

	defer rows.Close()

	cols, _ = rows.Columns()

	for rows.Next() {
		v := make([]any, len(cols))
		p := make([]any, len(cols))

		for i := range v {
			p[i] = &v[i]
		}

		must(rows.Scan(p...), "save table_perms")
		vals = append(vals, v)
	}

	return cols, vals
}

func (w *world) restoreStore(cols []string, vals [][]any) {
	ctx := context.Background()

	_, err := w.store.ExecContext(ctx, "DELETE FROM table_perms")
	must(err, "clear table_perms")

	if len(vals) == 0 {
		return
	}

	q := make([]string, len(cols))
	m := make([]string, len(cols))

	for i, c := range cols {
		q[i] = `"` + c + `"`
		m[i] = "?"
	}

	stmt := "INSERT INTO table_perms (" + strings.Join(q, ",") + ") VALUES (" + strings.Join(m, ",") + ")"

	for _, v := range vals {
		_, err := w.store.ExecContext(ctx, stmt, v...)
		must(err, "restore table_perms")
	}
}

func (w *world) clearStore() { w.restoreStore(nil, nil) }

// dataDump renders schema and rows of a data file.
func (w *world) dataDump(dsn string) string {
	ctx := context.Background()
	c := w.data[dsn]

	rows, err := c.QueryContext(ctx, "SELECT name FROM sqlite_master WHERE type='table' ORDER BY name")
	must(err, "dump schema")

	var names []string

	for rows.Next() {
		var n string

		must(rows.Scan(&n), "dump")
		names = append(names, n)
	}

	rows.Close()

	var b strings.Builder

	for _, n := range names {
		b.WriteString(n + ":")

		rs, err := c.QueryContext(ctx, `SELECT id, name FROM "`+n+`" ORDER BY id, name`)
		if err != nil {
			// a table created by a probe has other columns
			b.WriteString("(other columns)\n")

			continue
		}

		for rs.Next() {
			var id, name any

			must(rs.Scan(&id, &name), "dump row")

			if bs, ok := name.([]byte); ok {
				name = string(bs)
			}

			fmt.Fprintf(&b, "(%v,%v)", id, name)
		}

		rs.Close()
		b.WriteString("\n")
	}

	return b.String()
}

func (w *world) resetData(dsn string) {
	ctx := context.Background()
	c := w.data[dsn]

	rows, err := c.QueryContext(ctx, "SELECT name FROM sqlite_master WHERE type='table'")
	must(err, "reset")

	var names []string

	for rows.Next() {
		var n string

		must(rows.Scan(&n), "reset")
		names = append(names, n)
	}

	rows.Close()

	for _, n := range names {
		_, err = c.ExecContext(ctx, `DROP TABLE "`+n+`"`)
		must(err, "reset: drop "+n)
	}

	for _, q := range fixtureSQL {
		_, err = c.ExecContext(ctx, q)
		must(err, "reset: "+q)
	}

	caches.Purge(caches.SchemaCache)

	if w.dataDump(dsn) != w.pristine {
		report.Fatal("reset did not restore %s", dsn)
	}
}

// C43: row endpoints enforce table grants.
//
// E-seq (rt/seqx): breadth-first search over every history of grant / revoke /
// revoke-all events (user x DSN x table x permission) issued through the real
// permission endpoints, states deduplicated on the content of the permission
// store. In every distinct state every row and table request is probed, by
// every kind of caller, through the real router and handlers:
//
//	non-administrators on the restricted DSN: the request may take effect only
//	if the store records, for exactly that user, DSN and table, the matching
//	permission (or the table's admin permission);
//	the administrator on the restricted DSN and a non-administrator on the
//	unrestricted DSN: the request is never refused for want of a grant.
//
// "What the store records" is read from table_perms by a connection of the
// harness's own, not through the code under test. A request "takes effect" if
// it answers 2xx or changes the data file or the store. Effects of probes are
// undone before the next probe.
package main

import (
	"encoding/json"
	"fmt"
	"os"
	"os/exec"
	"path/filepath"
	"runtime"
	"sort"
	"strconv"
	"strings"
	"sync"

	"github.com/tucats/ego/internal/verifrt/report"
	"github.com/tucats/ego/internal/verifrt/seqx"
)

// Ev is one event of a history.
type Ev struct {
	Op    string `json:"op"` // grant revoke revoke-all
	User  string `json:"user"`
	DSN   string `json:"dsn"`
	Table string `json:"table"`
	Perm  string `json:"perm,omitempty"`
}

func (e Ev) String() string {
	if e.Op == "revoke-all" {
		return fmt.Sprintf("revoke-all(%s,%s.%s)", e.User, e.DSN, e.Table)
	}

	return fmt.Sprintf("%s(%s,%s.%s,%s)", e.Op, e.User, e.DSN, e.Table, e.Perm)
}

func text(h []Ev) string {
	s := make([]string, len(h))
	for i, e := range h {
		s[i] = e.String()
	}

	return strings.Join(s, "; ")
}

// key is one (grantee, DSN, table) the events address.
type key struct{ u, d, t string }

// search is one breadth-first search: its keys (every key contributes grant
// and revoke of each of the five permissions and revoke-all) and its depth.
type search struct {
	Keys  []key
	Depth int
}

func (s search) String() string {
	k := make([]string, len(s.Keys))
	for i, x := range s.Keys {
		k[i] = x.u + "/" + x.d + "." + x.t
	}

	return fmt.Sprintf("depth<=%d over %d events on {%s}", s.Depth, len(s.events()), strings.Join(k, " "))
}

// searches of a tier. Quick: depth 2 over four keys -- alice/r.t1 and, relative
// to it, another user (bob/r.t1), another table (alice/r.t2) and another DSN
// (alice/o.t1). Thorough: depth 2 over alice and bob on all four dsn.table
// pairs, and a deeper search (depth 3) on alice/r.t1, bob/r.t1, alice/r.t2
// (orders of grant, revoke, re-grant and revoke-all on rows that interfere).
func searches(thorough bool) []search {
	wide := []key{{"alice", dsnR, "t1"}, {"bob", dsnR, "t1"}, {"alice", dsnR, "t2"}, {"alice", dsnO, "t1"}}

	if thorough {
		wide = nil

		for _, u := range nonAdmins {
			wide = append(wide, key{u, dsnR, "t1"}, key{u, dsnR, "t2"}, key{u, dsnO, "t1"}, key{u, dsnO, "t2"})
		}
	}

	out := []search{{wide, 2}}

	if thorough {
		out = append(out, search{[]key{{"alice", dsnR, "t1"}, {"bob", dsnR, "t1"}, {"alice", dsnR, "t2"}}, 3})
	}

	if v := os.Getenv("VERIF_C43_DEPTH"); v != "" {
		n, _ := strconv.Atoi(v)
		out = []search{{wide, n}}
	}

	return out
}

func (s search) events() []Ev {
	var evs []Ev

	for _, x := range s.Keys {
		for _, p := range perms {
			evs = append(evs, Ev{"grant", x.u, x.d, x.t, p}, Ev{"revoke", x.u, x.d, x.t, p})
		}

		evs = append(evs, Ev{Op: "revoke-all", User: x.u, DSN: x.d, Table: x.t})
	}

	return evs
}

func (w *world) apply(e Ev) int {
	target := "/dsns/" + e.DSN + "/tables/" + e.Table + "/permissions?user=" + e.User

	switch e.Op {
	case "grant":
		st, _ := w.do("admin", "PUT", target, []byte(`["`+e.Perm+`"]`))

		return st
	case "revoke":
		st, _ := w.do("admin", "PUT", target, []byte(`["-`+e.Perm+`"]`))

		return st
	}

	st, _ := w.do("admin", "DELETE", target, nil)

	return st
}

// matrix is the reference: what each history should leave in the store.
type matrix map[string]*[5]bool

func (m matrix) apply(e Ev) {
	k := e.User + "/" + e.DSN + "." + e.Table

	if e.Op == "revoke-all" {
		delete(m, k)

		return
	}

	if m[k] == nil {
		m[k] = &[5]bool{}
	}

	for i, p := range perms {
		if p == e.Perm {
			m[k][i] = e.Op == "grant"
		}
	}
}

func (m matrix) key() string {
	var rows []grantRow

	for k, f := range m {
		u, rest, _ := strings.Cut(k, "/")
		d, t, _ := strings.Cut(rest, ".")
		rows = append(rows, grantRow{u, d, t, *f})
	}

	sort.Slice(rows, func(i, j int) bool { return rows[i].String() < rows[j].String() })

	return storeKey(rows)
}

// fileDepth: states reached by at most this many events are probed on SQLite
// files in WAL mode too.
const fileDepth = 1

type state struct {
	Key     string `json:"store"`
	History []Ev   `json:"history"`
}

type witness struct {
	History []Ev     `json:"history"`
	Text    string   `json:"history_text"`
	Store   []string `json:"permission_store"`
	Probe   probe    `json:"request"`
	Status  int      `json:"status"`
	Body    string   `json:"response"`
	Changed string   `json:"changed,omitempty"`
	Needs   string   `json:"needs"`
	Backend string   `json:"backend"`
}

// explore runs the search in the parent and returns the distinct states in
// the order they were first reached.
func explore(r *report.R, w *world, evs []Ev, depth int, seen map[string]bool) ([]state, seqx.Stats) {
	var (
		cur    []Ev
		m      matrix
		states []state
	)

	st := seqx.Run(seqx.Spec[Ev]{
		Events: evs, MaxDepth: depth,
		Fresh: func() {
			w.clearStore()
			cur = cur[:0]
			m = matrix{}
		},
		Step: func(e Ev, last bool) (string, string) {
			status := w.apply(e)
			cur = append(cur, e)
			m.apply(e)

			if last {
				r.Eval(1)

				if status != 200 {
					r.Add("events_not_answered_200", 1)
				}

				if storeKey(w.storeRows()) == m.key() {
					r.Add("transitions_store_equals_reference_matrix", 1)
				} else {
					r.Add("transitions_store_differs_from_reference_matrix", 1)
				}
			}

			return "", ""
		},
		Key: func() string {
			k := storeKey(w.storeRows())
			if !seen[k] {
				seen[k] = true
				states = append(states, state{k, append([]Ev(nil), cur...)})
			}

			return k
		},
		Violation: func([]Ev, string, string) {},
	})

	return states, st
}

// probeState replays the history of s and probes every request.
func probeState(r *report.R, w *world, s state, c *counters) {
	w.clearStore()

	for _, e := range s.History {
		w.apply(e)
	}

	rows := w.storeRows()
	if k := storeKey(rows); k != s.Key {
		report.Fatal("replaying %q gave the store %q, the search saw %q", text(s.History), k, s.Key)
	}

	for _, p := range probes(r.Thorough()) {
		w.probeOne(r, s, rows, p, c)
	}
}

func worker(spec, in, out string) {
	var i, n int

	if _, err := fmt.Sscanf(spec, "%d/%d", &i, &n); err != nil || n < 1 {
		report.Fatal("bad worker spec %q", spec)
	}

	b, err := os.ReadFile(in)
	must(err, "states")

	var states []state

	must(json.Unmarshal(b, &states), "states")

	r := report.New("model_checking")
	c := newCounters()

	// every state on the in-memory backend; the states of depth <= fileDepth
	// once more on SQLite files in WAL mode
	for _, backend := range []string{"file", "memdb"} {
		w := newWorld(filepath.Join(os.Getenv("VERIF_SCRATCH"), fmt.Sprintf("w%d", i)), backend)

		for k := i; k < len(states); k += n {
			if backend == "file" && len(states[k].History) > fileDepth {
				continue
			}

			probeState(r, w, states[k], c)
			r.Add("states_probed:"+backend, 1)
		}

		w.close()
	}

	c.save(r)
	r.SavePartial(out)
}

func main() {
	if len(os.Args) > 4 && os.Args[1] == "worker" {
		worker(os.Args[2], os.Args[3], os.Args[4])
	}

	r := report.New("model_checking")
	scratch := os.Getenv("VERIF_SCRATCH")

	if scratch == "" {
		report.Fatal("VERIF_SCRATCH is not set")
	}

	plan := searches(r.Thorough())
	planText := make([]string, len(plan))

	for i, sp := range plan {
		planText[i] = sp.String()
	}

	r.Rule(fmt.Sprintf("BFS (rt/seqx) over every history of %s (events: grant / revoke of one of %v, and revoke-all, per user/dsn.table key, through the real permission endpoints; r restricted, o unrestricted), fresh store + replay per history; in every distinct state %d requests are probed (rows read/insert/update/delete, abstract read/insert/update, table delete, table create, transaction insert/update/delete/select/readrows/drop by alice and bob on r.t1 and r.t2, by the administrator on r and by alice on o%s); distinct = (backend, store content, request)", strings.Join(planText, " and of "), perms, len(probes(r.Thorough())), map[bool]string{true: "", false: " (these two on t1 only)"}[r.Thorough()]))
	r.Assume(
		"what the store records is read from table_perms by the harness's own SQLite connection; a request takes effect if it answers 2xx or the data file or the store differs afterwards; refused for want of a grant = 403",
		"one-directional, as the statement: a non-administrator's request on the restricted DSN that takes effect without the matching grant (or the table's admin grant; for table delete/create/drop: the table's admin grant) recorded for exactly that user, DSN and table is a violation; a request that is refused although granted is counted, never a violation; if no granted request of a kind ever succeeds the run is void (exit 2)",
		"alice and bob hold read+write (not admin) authority on the restricted DSN itself, fixed for the whole run; histories consist of permission events only, the effects of probes (rows written, tables dropped/created, store rows added/removed by table create/delete) are undone before the next probe",
		"SQLite DSNs; in-memory user and DSN services of rt/tblsrv; bearer tokens placed in the token cache",
	)

	if r.Replay != "" {
		var wit witness

		must(report.LoadReplay(r.Replay, &wit), "replay")

		if wit.Backend == "" {
			wit.Backend = "file"
		}

		w := newWorld(filepath.Join(scratch, "replay"), wit.Backend)
		w.clearStore()

		for _, e := range wit.History {
			fmt.Printf("  %-40s -> %d\n", e, w.apply(e))
		}

		rows := w.storeRows()
		fmt.Printf("  store: %s\n", storeKey(rows))

		c := newCounters()
		w.probeOne(r, state{storeKey(rows), wit.History}, rows, wit.Probe, c)
		r.Set("states", 1)
		r.Set("transitions", len(wit.History))
		r.Set("traces_validated_against_impl", 1)
		r.Sample(wit.Probe)
		r.Finish()
	}

	w := newWorld(filepath.Join(scratch, "parent"), "memdb")

	var (
		states []state
		st     seqx.Stats
		seen   = map[string]bool{}
	)

	for _, sp := range plan {
		ss, s1 := explore(r, w, sp.events(), sp.Depth, seen)
		states = append(states, ss...)
		st.Transitions += s1.Transitions

		if s1.Depth > st.Depth {
			st.Depth = s1.Depth
		}

		if s1.Capped {
			r.Capped("state cap reached")
		}

		r.Set("search: "+sp.String(), map[string]any{"states": s1.States, "transitions": s1.Transitions, "states_per_depth": s1.PerDepth, "new_distinct_states": len(ss)})
	}

	st.States = len(states)

	b, err := json.Marshal(states)
	must(err, "states")

	in := filepath.Join(scratch, "states.json")
	must(os.WriteFile(in, b, 0o644), "states")

	n := runtime.NumCPU()
	if v := os.Getenv("VERIF_C43_PROCS"); v != "" {
		n, _ = strconv.Atoi(v)
	}

	if n > len(states) {
		n = len(states)
	}

	type res struct {
		path string
		err  error
		out  []byte
	}

	results := make([]res, n)

	// one goroutine per worker process (enum.Par hands out indices in chunks of
	// 64, which would run them one after the other)
	var wg sync.WaitGroup

	for i := 0; i < n; i++ {
		wg.Add(1)

		go func(i int) {
			defer wg.Done()

			p := filepath.Join(scratch, fmt.Sprintf("part-%d.json", i))
			cmd := exec.Command(os.Args[0], "worker", fmt.Sprintf("%d/%d", i, n), in, p)
			cmd.Env = append(os.Environ(), "GOMAXPROCS=2")
			out, err := cmd.CombinedOutput()
			results[i] = res{p, err, out}
		}(i)
	}

	wg.Wait()

	for i, rs := range results {
		if rs.err != nil {
			s := string(rs.out)
			if len(s) > 4000 {
				s = s[len(s)-4000:]
			}

			report.Fatal("worker %d failed: %v\n%s", i, rs.err, s)
		}

		r.MergePartial(rs.path)
	}

	if got := r.IntCov("states_probed:memdb"); got != int64(len(states)) {
		report.Fatal("workers probed %d states, the search found %d", got, len(states))
	}

	// a run in which granted requests never succeed shows nothing
	for _, k := range rowKinds {
		if r.IntCov("granted_and_effective:"+k) == 0 {
			report.Fatal("void run: no granted %s request by a non-administrator on the restricted DSN ever took effect", k)
		}
	}

	r.Set("states", st.States)
	r.Set("transitions", st.Transitions)
	r.Set("traces_validated_against_impl", st.Transitions)
	r.Set("depth", st.Depth)
	r.Set("probes_per_state", len(probes(r.Thorough())))

	for i, s := range states {
		if i == 1 || i == len(states)/2 || i == len(states)-1 {
			r.Sample(map[string]any{"history": text(s.History), "store": s.Key})
		}
	}

	r.Finish()
}

package main

import "strings"

// Every program is valid Ego and, once the untyped Ego channel type `chan` is
// spelled `chan int`, valid Go (see goText); uses goroutines with mutexes,
// WaitGroups and channels, and is fully synchronized by construction: its
// output is the same under every schedule.
type program struct {
	Name string
	Text string
}

var programs = []program{
	{"mutex-counter", `package main

import "fmt"
import "sync"

var mu sync.Mutex
var wg sync.WaitGroup
var n int

func worker(k int) {
	for i := 0; i < 2; i++ {
		mu.Lock()
		n = n + k
		mu.Unlock()
	}
	wg.Done()
}

func main() {
	wg.Add(2)
	go worker(1)
	go worker(10)
	wg.Wait()
	fmt.Println("n =", n)
}
`},
	{"channel-pipeline", `package main

import "fmt"

func producer(ch chan, n int) {
	for i := 1; i <= n; i++ {
		ch <- i
	}
	ch <- -1
}

func main() {
	ch := make(chan, 1)
	go producer(ch, 3)
	total := 0
	for {
		v := <-ch
		if v < 0 {
			break
		}
		total = total + v
	}
	fmt.Println("total =", total)
}
`},
	{"two-producers", `package main

import "fmt"

func producer(ch chan, base int) {
	ch <- base + 1
	ch <- base + 2
}

func main() {
	ch := make(chan, 3)
	go producer(ch, 10)
	go producer(ch, 100)
	sum := 0
	for i := 0; i < 4; i++ {
		v := <-ch
		sum = sum + v
	}
	fmt.Println("sum =", sum)
}
`},
	{"closure-capture", `package main

import "fmt"
import "sync"

func main() {
	var mu sync.Mutex
	var wg sync.WaitGroup
	total := 0
	x := 5
	wg.Add(2)
	go func() {
		mu.Lock()
		total = total + x
		mu.Unlock()
		wg.Done()
	}()
	go func() {
		mu.Lock()
		total = total + 2*x
		mu.Unlock()
		wg.Done()
	}()
	wg.Wait()
	fmt.Println("total =", total)
}
`},
	{"loop-variable-argument", `package main

import "fmt"
import "sync"

var mu sync.Mutex
var wg sync.WaitGroup
var acc int

func add(i int) {
	mu.Lock()
	acc = acc + (i+1)*(i+1)
	mu.Unlock()
	wg.Done()
}

func main() {
	wg.Add(3)
	for i := 0; i < 3; i++ {
		go add(i)
	}
	wg.Wait()
	fmt.Println("acc =", acc)
}
`},
	{"nested-goroutine", `package main

import "fmt"

func leaf(ch chan, v int) {
	ch <- v * 2
}

func branch(ch chan, v int) {
	go leaf(ch, v)
	ch <- v
}

func main() {
	ch := make(chan, 2)
	go branch(ch, 7)
	a := <-ch
	b := <-ch
	fmt.Println("sum =", a+b)
}
`},
	{"once-init", `package main

import "fmt"
import "sync"

var mu sync.Mutex
var wg sync.WaitGroup
var ready bool
var inits int
var uses int

func use() {
	mu.Lock()
	if !ready {
		inits = inits + 1
		ready = true
	}
	uses = uses + 1
	mu.Unlock()
	wg.Done()
}

func main() {
	wg.Add(3)
	go use()
	go use()
	go use()
	wg.Wait()
	fmt.Println("inits =", inits, "uses =", uses)
}
`},
	{"results-by-index", `package main

import "fmt"

func square(ch chan, i int) {
	ch <- i*100 + i*i
}

func main() {
	ch := make(chan, 3)
	for i := 1; i <= 3; i++ {
		go square(ch, i)
	}
	r1 := 0
	r2 := 0
	r3 := 0
	for k := 0; k < 3; k++ {
		v := <-ch
		if v/100 == 1 {
			r1 = v
		}
		if v/100 == 2 {
			r2 = v
		}
		if v/100 == 3 {
			r3 = v
		}
	}
	fmt.Println(r1, r2, r3)
}
`},
}

// goText is the Go spelling of an Ego program: Ego channels carry no element type.
func goText(ego string) string {
	ego = strings.ReplaceAll(ego, "ch chan,", "ch chan int,")
	ego = strings.ReplaceAll(ego, "make(chan,", "make(chan int,")

	return ego
}

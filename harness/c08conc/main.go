// C08: concurrent Ego programs cannot corrupt the interpreter, and a fully
// synchronized program prints the same result under every schedule — the
// result Go prints.
//
// E-sched on the woven VM: sync and sync/atomic are redirected module-wide to
// the scheduler-visible shims, the Ego `go` statement spawns managed threads,
// Ego channels are modelled. Each generated program runs on the real compiler +
// bytecode interpreter under every interleaving within the preemption bound at
// two granularities: (sync) every lock/WaitGroup/channel operation of program
// and interpreter, (instr) additionally every bytecode instruction. Oracle per
// schedule: no Go panic, no deadlock, no Ego error, output equal to the output
// of the same source compiled by Go. A free-running -race pass of the same
// programs is auxiliary evidence for plain memory accesses.
package main

import (
	"fmt"
	"os"
	"os/exec"
	"path/filepath"
	"runtime"
	"sort"
	"strconv"
	"strings"
	"unsafe"

	"github.com/tucats/ego/internal/builtins"
	"github.com/tucats/ego/internal/language/bytecode"
	"github.com/tucats/ego/internal/language/compiler"
	"github.com/tucats/ego/internal/language/symbols"
	"github.com/tucats/ego/internal/language/tokenizer"
	"github.com/tucats/ego/internal/verifrt/enum"
	"github.com/tucats/ego/internal/verifrt/explore"
	"github.com/tucats/ego/internal/verifrt/report"
	vatomic "github.com/tucats/ego/internal/verifrt/vatomic"
	"github.com/tucats/ego/internal/verifrt/vsched"
)

func runProgram(text string) (string, error) {
	st := symbols.NewSymbolTable("file main").Shared(true)
	st.SetGlobalSingleton()
	builtins.AddBuiltins(st.Root())

	comp := compiler.New("run").SetRoot(&symbols.RootSymbolTable)
	_ = comp.AutoImport(true, st)
	comp.Fragment(true)

	bc, err := comp.Compile("main", tokenizer.New(text+"\n@entrypoint main", true))
	if err != nil {
		return "", fmt.Errorf("compile: %v", err)
	}

	ctx := bytecode.NewContext(st, bc)
	ctx.EnableConsoleOutput(false)
	err = ctx.Run()

	return ctx.GetOutput(), err
}

// goReference compiles and runs the same source with the Go toolchain.
func goReference(i int) (string, error) {
	dir := filepath.Join(os.Getenv("VERIF_SCRATCH"), "goref", strconv.Itoa(i))
	if err := os.MkdirAll(dir, 0o755); err != nil {
		return "", err
	}

	_ = os.WriteFile(filepath.Join(dir, "go.mod"), []byte("module ref\n\ngo 1.23\n"), 0o644)
	_ = os.WriteFile(filepath.Join(dir, "main.go"), []byte(goText(programs[i].Text)), 0o644)

	cmd := exec.Command("go", "run", ".")
	cmd.Dir = dir
	cmd.Env = append(os.Environ(), "GOFLAGS=-mod=mod", "GOPROXY=off", "GOWORK=off")

	out, err := cmd.CombinedOutput()

	return string(out), err
}

type witness struct {
	Program  string   `json:"program"`
	Level    string   `json:"level"`
	Schedule []int    `json:"schedule"`
	Output   string   `json:"output"`
	Expected string   `json:"expected"`
	Error    string   `json:"error,omitempty"`
	Trace    []string `json:"trace,omitempty"`
}

func focus(level string) func(string, any) bool {
	instr := unsafe.Pointer(&bytecode.InstructionsExecuted)

	return func(kind string, obj any) bool {
		if strings.HasPrefix(kind, "Mutex.") || strings.HasPrefix(kind, "RWMutex.") || strings.HasPrefix(kind, "WaitGroup.") || strings.HasPrefix(kind, "chan.") {
			return true
		}

		if level == "instr" && kind == "atomic.Add" {
			if p, ok := obj.(unsafe.Pointer); ok && p == instr {
				return true
			}
		}

		return false
	}
}

func exploreProgram(r *report.R, i int, level string, bound int, expected string) {
	p := programs[i]
	vatomic.Yield = level == "instr"

	var (
		out string
		err error
	)

	sc := &explore.Scenario{
		Name: p.Name + "/" + level, Bound: bound, Horizon: 2000000, Focus: focus(level),
		Body:    func() { out, err = runProgram(p.Text) },
		Observe: func() any { return fmt.Sprint(out, err) },
	}

	outcomes := map[string]int{}
	maxExec := r.Pick(20000, 400000)
	sc.MaxExec = maxExec

	sc.Check = func(o vsched.Outcome) {
		r.Eval(1)
		r.Add("transitions", int64(len(o.Points)+1))
		r.Distinct(sc.Name + fmt.Sprint(o.Choices()))

		w := witness{Program: p.Name, Level: level, Schedule: o.Choices(), Output: out, Expected: expected}
		size := len(o.Points)*10 + vsched.Preemptions(o.Points)

		// Confirm before believing: an Ego error or a wrong output is reported
		// only if replaying the same schedule shows it again.
		if o.Panic == nil && !o.Deadlock && !o.Horizon && (err != nil || out != expected) {
			firstOut, firstErr := out, err
			again := false

			for k := 0; k < 3 && !again; k++ {
				ro := sc.Replay(o.Choices())
				if ro.Panic != nil || ro.Deadlock || err != nil || out != expected {
					again = true
				}
			}

			out, err = firstOut, firstErr

			if !again {
				r.Add("unconfirmed_differences", 1)
				r.Set("unconfirmed_sample", map[string]any{"program": p.Name, "level": level, "schedule": o.Choices(), "output": firstOut, "error": fmt.Sprint(firstErr)})
				outcomes[expected]++

				return
			}
		}

		switch {
		case o.Panic != nil:
			w.Error = fmt.Sprint(o.Panic) + "\n" + o.PanicStk
			r.Violation("go-panic:"+p.Name, size, w, "the interpreter panicked under this schedule: "+fmt.Sprint(o.Panic))
		case o.Deadlock:
			w.Error = fmt.Sprint(o.BlockedOn)
			w.Trace = tailTrace(o)
			r.Violation("deadlock:"+p.Name, size, w, "the program deadlocked under this schedule (Go completes it)")
		case o.Horizon:
			r.Capped("step horizon reached in " + sc.Name)
		case err != nil:
			w.Error = err.Error()
			w.Trace = tailTrace(o)
			r.Violation("ego-error:"+p.Name, size, w, "a synchronized program failed under this schedule: "+err.Error())
		case out != expected:
			w.Trace = tailTrace(o)
			r.Violation("output-differs:"+p.Name, size, w, fmt.Sprintf("output %q differs from Go's %q under this schedule", out, expected))
		}

		outcomes[out]++
	}

	shardTag := ""
	if sh := os.Getenv("VERIF_SHARD"); sh != "" {
		fmt.Sscanf(sh, "%d/%d", &sc.ShardIndex, &sc.ShardCount)
		shardTag = "#" + sh
	}

	if derr := sc.Determinism(); derr != nil {
		report.Fatal("%v", derr)
	}

	if os.Getenv("VERIF_DEBUG") != "" {
		o := sc.Replay(nil)
		fmt.Println("DEBUG", sc.Name, "points", len(o.Points), "steps", o.Steps, "out", out, "err", err, o.Deadlock, o.BlockedOn)

		for _, l := range o.Describe() {
			fmt.Println("   ", l)
		}
	}

	res := sc.Explore()
	if res.MaxPoints == 0 {
		report.Fatal("%s: no choice points, the seams are lost", sc.Name)
	}

	if res.Capped {
		r.Capped(fmt.Sprintf("%s: execution cap %d reached before the bound-%d space was exhausted", sc.Name, maxExec, bound))
	}

	r.Add("states", int64(res.Schedules))
	r.Set("scenario:"+sc.Name+shardTag, map[string]any{"schedules": res.Schedules, "preemption_bound": bound, "points_min": res.MinPoints, "points_max": res.MaxPoints, "distinct_outputs": len(outcomes), "capped": res.Capped})
	r.Sample(map[string]any{"program": p.Name, "granularity": level, "preemption_bound": bound, "schedules": res.Schedules})
}

func tailTrace(o vsched.Outcome) []string {
	d := o.Describe()
	if len(d) > 40 {
		d = d[len(d)-40:]
	}

	return d
}

func racePass() {
	for _, procs := range []int{1, 2, 4, 16} {
		runtime.GOMAXPROCS(procs)

		for rep := 0; rep < 6; rep++ {
			for _, p := range programs {
				if _, err := runProgram(p.Text); err != nil {
					fmt.Println("RACEPASS-EGO-ERROR", p.Name, err)
				}
			}
		}
	}

	fmt.Println("RACEPASS-DONE")
}

type job struct {
	prog  int
	level string
	bound int
	shard int
	of    int
}

func main() {
	if len(os.Args) > 1 && os.Args[1] == "racepass" {
		racePass()

		return
	}

	r := report.New("model_checking")

	if len(os.Args) > 5 && os.Args[1] == "job" {
		i, _ := strconv.Atoi(os.Args[2])
		b, _ := strconv.Atoi(os.Args[4])
		exp, _ := os.ReadFile(os.Args[5])
		exploreProgram(r, i, os.Args[3], b, string(exp))
		r.SavePartial(os.Args[6])
	}

	// reference outputs from the Go toolchain
	expected := make([]string, len(programs))
	errs := make([]error, len(programs))

	enum.Par(len(programs), func(i int) { expected[i], errs[i] = goReference(i) })

	for i, e := range errs {
		if e != nil {
			report.Fatal("Go reference for %s failed: %v\n%s", programs[i].Name, e, expected[i])
		}
	}

	if r.Replay != "" {
		var w witness
		if err := report.LoadReplay(r.Replay, &w); err != nil {
			report.Fatal("%v", err)
		}

		for i, p := range programs {
			if p.Name != w.Program {
				continue
			}

			vatomic.Yield = w.Level == "instr"

			var (
				out string
				err error
			)

			o := vsched.Run(vsched.Config{Prefix: w.Schedule, Horizon: 2000000, Focus: focus(w.Level)}, func() { out, err = runProgram(p.Text) })
			fmt.Printf("replay %s/%s: out=%q err=%v expected=%q deadlock=%v panic=%v\n", p.Name, w.Level, out, err, expected[i], o.Deadlock, o.Panic)

			if o.Panic != nil || o.Deadlock || err != nil || out != expected[i] {
				r.Violation("replayed:"+p.Name, 1, w, "the recorded schedule still fails")
			}
		}

		r.Eval(1)
		r.Finish()
	}

	syncBound, instrBound := r.Pick(2, 3), r.Pick(1, 2)

	var jobs []job

	for i, p := range programs {
		if os.Getenv("C08_ONLY_RACE") != "" {
			break // coordinator's tool for enumerating race reports; never set by a registered check
		}

		// programs with three goroutines get one preemption less at lock
		// granularity, so that the bound is completed rather than capped
		sb := syncBound
		if strings.Count(p.Text, "go ") >= 3 || strings.Contains(p.Text, "for i := 0; i < 3; i++ {\n\t\tgo ") || strings.Contains(p.Text, "for i := 1; i <= 3; i++ {\n\t\tgo ") {
			sb--
		}

		jobs = append(jobs, job{i, "instr", instrBound, 0, 1})

		for sh := 0; sh < 3; sh++ {
			jobs = append(jobs, job{i, "sync", sb, sh, 3})
		}
	}

	type res struct {
		path string
		err  error
		out  []byte
	}

	results := make([]res, len(jobs))

	enum.Par(len(jobs), func(k int) {
		j := jobs[k]
		part := filepath.Join(os.Getenv("VERIF_SCRATCH"), fmt.Sprintf("part-%d.json", k))
		expf := filepath.Join(os.Getenv("VERIF_SCRATCH"), fmt.Sprintf("expected-%d.txt", k))
		_ = os.WriteFile(expf, []byte(expected[j.prog]), 0o644)

		cmd := exec.Command(os.Args[0], "job", strconv.Itoa(j.prog), j.level, strconv.Itoa(j.bound), expf, part)
		cmd.Env = append(os.Environ(), "GOMAXPROCS=2")
		if j.of > 1 {
			cmd.Env = append(cmd.Env, fmt.Sprintf("VERIF_SHARD=%d/%d", j.shard, j.of))
		}

		out, err := cmd.CombinedOutput()
		results[k] = res{part, err, out}
	})

	for k, rs := range results {
		if rs.err != nil {
			report.Fatal("worker %v failed: %v\n%s", jobs[k], rs.err, tail(string(rs.out), 3000))
		}

		r.MergePartial(rs.path)
	}

	states := r.IntCov("states")
	r.Set("traces_validated_against_impl", states)

	if rb := os.Getenv("VERIF_RACE_BIN"); rb != "" {
		cmd := exec.Command(rb, "racepass")
		cmd.Env = append(os.Environ(), "GORACE=halt_on_error=0 exitcode=0")

		out, err := cmd.CombinedOutput()
		text := string(out)

		switch {
		case strings.Contains(text, "WARNING: DATA RACE"):
			for _, rep := range allRaces(text) {
				r.Violation("race:"+raceFrames(rep), 1, map[string]any{"report": tail(rep, 3000)}, "the Go race detector reports an unsynchronized access inside the interpreter while running a synchronized program")
			}
		case strings.Contains(text, "fatal error"):
			r.Violation("race:fatal", 1, map[string]any{"output": tail(text, 2000)}, "the free-running pass died with a Go fatal error")
		case strings.Contains(text, "RACEPASS-EGO-ERROR"):
			r.Violation("race:ego-error", 1, map[string]any{"output": tail(text, 2000)}, "a synchronized program failed in the free-running pass")
		case err != nil || !strings.Contains(text, "RACEPASS-DONE"):
			report.Fatal("race pass failed: %v\n%s", err, tail(text, 2000))
		}

		r.Set("race_pass", fmt.Sprintf("%d programs x 6 repetitions x GOMAXPROCS{1,2,4,16}, real goroutines, -race", len(programs)))
	}

	r.Rule(fmt.Sprintf("%d synchronized Ego programs (mutex counter, channel pipeline, two producers, closure capture, loop-variable argument, nested goroutine, once-style init, results by index) x every interleaving with <=%d preemptions (one less for the three-goroutine programs) at every lock/WaitGroup/channel operation of program and interpreter, and with <=%d preemptions at every bytecode instruction; distinct = distinct schedules", len(programs), syncBound, instrBound))
	r.Assume("the Go toolchain is the reference for the expected output", "an Ego error or wrong output is reported only if replaying the same schedule shows it again (up to 3 replays); non-repeating differences are counted under unconfirmed_differences", "scheduling points: woven sync operations module-wide, modelled Ego channels, the per-instruction atomic counter; plain memory accesses between them are covered only by the auxiliary -race pass", "memory-ordering effects below Go's happens-before are not modelled")
	r.Finish()
}

func tail(s string, n int) string {
	if len(s) > n {
		return s[len(s)-n:]
	}

	return s
}

func firstRace(s string) string {
	i := strings.Index(s, "WARNING: DATA RACE")
	s = s[i:]

	if j := strings.Index(s, "=================="); j > 0 {
		s = s[:j]
	}

	return tail(s, 3000)
}

// raceFrames names a race by the innermost interpreter function of each of
// the two conflicting accesses (sorted): the cell of the finding.
func raceFrames(s string) string {
	var fns []string

	rep := firstRace(s)
	for _, part := range strings.SplitN(rep, "Previous ", 2) {
		if i := strings.Index(part, "Goroutine "); i > 0 {
			part = part[:i]
		}

		for _, line := range strings.Split(part, "\n") {
			line = strings.TrimSpace(line)
			if strings.HasPrefix(line, "github.com/tucats/ego/internal/") && !strings.Contains(line, "verifharness") && !strings.Contains(line, "verifrt") {
				fn := strings.TrimPrefix(line, "github.com/tucats/ego/internal/")
				if i := strings.Index(fn, "("); i > 0 && !strings.HasPrefix(fn[i:], "(*") {
					fn = fn[:i]
				}

				fn = strings.NewReplacer("(", "", ")", "", "*", "").Replace(fn)
				fns = append(fns, fn)

				break
			}
		}
	}

	sort.Strings(fns)

	return strings.Join(fns, "+")
}

// allRaces splits the detector output into its reports.
func allRaces(s string) []string {
	var out []string

	for {
		i := strings.Index(s, "WARNING: DATA RACE")
		if i < 0 {
			return out
		}

		s = s[i:]
		j := strings.Index(s[10:], "==================")

		if j < 0 {
			out = append(out, s)

			return out
		}

		out = append(out, s[:j+10])
		s = s[j+10:]
	}
}

// C04: a program that runs to completion without a type error under strict
// type checking produces exactly the same output under relaxed type checking.
//
// E-enum, differential. The generator (gen.go) puts every constant literal and
// a non-constant value of every numeric type through each of the four
// documented coercion boundaries (assignment, expression, function argument,
// return value), through the statement forms (x += k, x = x + k, x++ ...),
// unary minus, loops and container stores, for a target of each of the 14
// numeric types; the thorough tier adds every ordered pair of boundary
// statements over a shared variable. Every program is run under --types
// strict at optimizer levels 0..3; where that run completes without any
// error, the same program is run under --types relaxed at the same level and
// must print the same lines. Runs are in-process through the repository's
// compiler and bytecode packages, driven like `ego run` (fresh compiler and
// symbol table per program); a stratified subset is run by the real binary
// (programs packed as functions of one file per fresh process), and every
// difference is re-run alone as two fresh `ego run` processes before it is
// reported. An opt-in corpus half (corpus.go, VERIF_C04_CORPUS=1) runs the
// repository's own tests/ suites under both modes.
package main

import (
	"fmt"
	"os"
	"sort"
	"strings"
	"sync"
	"time"

	ev "github.com/tucats/ego/internal/verifrt/egoeval"
	"github.com/tucats/ego/internal/verifrt/enum"
	"github.com/tucats/ego/internal/verifrt/report"
)

// diffKind classifies how the relaxed run departs from the accepted strict
// run ("" = same output).
func diffKind(strict, relaxed ev.Result) string {
	if strict.Err != "" {
		return ""
	}

	if relaxed.Err != "" {
		return "relaxed-fails"
	}

	if strict.Lines() == relaxed.Lines() {
		return ""
	}

	if len(strict.Out) != len(relaxed.Out) {
		return "output-length"
	}

	for i := range strict.Out {
		a, b := strict.Out[i], relaxed.Out[i]
		if a.T != b.T {
			return "type"
		}

		if a != b {
			return "value"
		}
	}

	return "value"
}

type finding struct {
	P      prog
	Opt    int
	Kind   string
	Strict ev.Result
	Relax  ev.Result
	Via    string
}

func (f finding) group() string {
	fam := f.P.Family
	if i := strings.IndexByte(fam, ':'); i >= 0 && strings.HasPrefix(fam, "expr:") {
		switch fam[i+1:] {
		case "==", "<":
			fam = "expr:compare"
		default:
			fam = "expr:arith"
		}
	}

	return fam + ":" + f.Kind
}

type witness struct {
	Cell     string    `json:"cell"`
	Program  prog      `json:"generated"`
	Optimize int       `json:"optimize"`
	Commands []string  `json:"commands"`
	File     string    `json:"file_for_ego_run"`
	Strict   ev.Result `json:"strict_fresh_ego_run"`
	Relaxed  ev.Result `json:"relaxed_fresh_ego_run"`
	Affected []string  `json:"affected,omitempty"`
}

func mkWitness(cell string, f finding, s, x ev.Result, affected []string) witness {
	return witness{
		Cell: cell, Program: f.P, Optimize: f.Opt,
		Commands: []string{fmt.Sprintf("ego run --types strict -o %d prog.ego", f.Opt), fmt.Sprintf("ego run --types relaxed -o %d prog.ego", f.Opt)},
		File:     ev.ForEgo(f.P.Src), Strict: s, Relaxed: x, Affected: affected,
	}
}

// confirmAlone runs the program alone in two fresh processes of the real
// binary and reports whether the difference is still there.
func confirmAlone(f finding) (kind string, s, x ev.Result, err error) {
	s, err = ev.RunEgo(f.P.Src, ev.Strict, f.Opt)
	if err != nil {
		return "", s, x, err
	}

	if s.Err != "" {
		return "", s, x, nil
	}

	x, err = ev.RunEgo(f.P.Src, ev.Relaxed, f.Opt)
	if err != nil {
		return "", s, x, err
	}

	return diffKind(s, x), s, x, nil
}

func describe(f finding, s, x ev.Result) string {
	relaxed := strings.ReplaceAll(strings.TrimSpace(x.Lines()), "\n", " / ")
	if x.Err != "" {
		relaxed += " then " + x.Err
	}

	return fmt.Sprintf("accepted by `ego run --types strict -o %d` printing %q, but `--types relaxed -o %d` prints %q", f.Opt, strings.ReplaceAll(strings.TrimSpace(s.Lines()), "\n", " / "), f.Opt, relaxed)
}

func replay(r *report.R) {
	var cw corpusWitness

	if err := report.LoadReplay(r.Replay, &cw); err == nil && cw.Corpus {
		replayCorpus(r, cw)
	}

	var w witness

	if err := report.LoadReplay(r.Replay, &w); err != nil {
		report.Fatal("%v", err)
	}

	f := finding{P: w.Program, Opt: w.Optimize}

	kind, s, x, err := confirmAlone(f)
	if err != nil {
		report.Fatal("cannot run ego: %v", err)
	}

	r.Eval(2)
	r.Distinct("replay")
	r.Distinct(w.Cell)
	r.Sample(w.Program)

	if kind != "" {
		f.Kind = kind
		r.Violation(w.Cell, 1, mkWitness(w.Cell, f, s, x, nil), "replayed: "+describe(f, s, x))
	}

	r.Finish()
}

func main() {
	r := report.New("exploration")

	if !ev.EgoAvailable() {
		report.Fatal("VERIF_EGO is not set (checks/C04.json needs \"ego\": true)")
	}

	r.Rule("programs = for each of 14 numeric target types: {assignment (3 spellings), function argument, return value, returned expression, array element, struct field, map value, binary expression with + - * / % == < in both operand orders, x+=k x-=k x=x+k x=x-k x*=k x=x*k, x++ x--, unary minus, counted loop} x {constant literals around every width boundary, 2.0, 2.5, an imaginary; a non-constant value of each of the 14 types}; thorough adds more values and all ordered pairs of 20 boundary statements on one shared variable. Each program x optimizer level 0..3: strict run, then (if strict completed without error) relaxed run. distinct = (program, level) accepted by strict mode")
	r.Assume(
		"a program is in the property's domain only when its strict run ends with no error at all; generated programs contain no try/catch, so any type error ends the run",
		"output = the OUT lines (tag, %T, %v of each observed value) in order, and error vs no error",
		"bulk runs are in-process through internal/language/compiler + bytecode driven like `ego run`; a stratified subset is run by the real binary and every reported difference is confirmed alone by two fresh `ego run` processes",
	)

	if r.Replay != "" {
		replay(r)
	}

	thorough := r.Thorough()

	// The corpus half (opt-in, see corpus.go) runs beside the generated half.
	corpusDone := make(chan struct{})

	go func() {
		if os.Getenv("VERIF_C04_CORPUS") != "" {
			levels := []int{0}
			if thorough {
				levels = []int{0, 1, 2, 3}
			}

			corpusPass(r, levels)
		}

		close(corpusDone)
	}()

	plain := generate(thorough, false)
	padded := generate(thorough, true)

	var (
		mu       sync.Mutex
		findings []finding
	)

	stride := r.Pick(29, 31)
	t0 := time.Now()

	type egoItem struct {
		p   prog
		opt int
	}

	var egoItems []egoItem

	for opt := 0; opt <= 3; opt++ {
		progs := plain
		if opt == 1 {
			progs = padded
		}

		strictRes := make([]ev.Result, len(progs))

		ev.Configure(ev.Strict, opt)
		enum.Par(len(progs), func(i int) { strictRes[i] = ev.Eval(progs[i].Src, ev.Strict) })

		var accepted []int

		for i := range progs {
			if strictRes[i].Err == "" {
				accepted = append(accepted, i)
			}
		}

		ev.Configure(ev.Relaxed, opt)
		enum.Par(len(accepted), func(k int) {
			i := accepted[k]
			x := ev.Eval(progs[i].Src, ev.Relaxed)

			if kind := diffKind(strictRes[i], x); kind != "" {
				mu.Lock()
				findings = append(findings, finding{P: progs[i], Opt: opt, Kind: kind, Strict: strictRes[i], Relax: x, Via: "inproc"})
				mu.Unlock()
			}
		})

		r.Eval(len(progs) + len(accepted))
		r.Add("strict_runs", int64(len(progs)))
		r.Add("strict_accepted_and_rerun_relaxed", int64(len(accepted)))

		for _, i := range accepted {
			r.Distinct(fmt.Sprint(opt, "|", progs[i].Src))
		}

		for i := (opt * 5) % stride; i < len(progs); i += stride {
			egoItems = append(egoItems, egoItem{progs[i], opt})
		}

		if opt == 0 {
			for _, i := range []int{0, len(progs) / 3, len(progs) / 2, len(progs) - 1} {
				r.Sample(map[string]any{"family": progs[i].Family, "types": progs[i].Label, "program": progs[i].Src, "strict": strictRes[i]})
			}
		}

		fmt.Printf("progress: -o %d: %d programs strict, %d accepted and re-run relaxed, %.0fs\n", opt, len(progs), len(accepted), time.Since(t0).Seconds())
	}

	// Stratified subset through the real binary: per level, chunks of items
	// packed into one file, one fresh process for strict and one for relaxed.
	type chunk struct {
		opt   int
		items []prog
	}

	var chunks []chunk

	for opt := 0; opt <= 3; opt++ {
		var items []prog

		for _, e := range egoItems {
			if e.opt == opt {
				items = append(items, e.p)
			}
		}

		for len(items) > 0 {
			n := len(items)
			if n > 400 {
				n = 400
			}

			chunks = append(chunks, chunk{opt, items[:n]})
			items = items[n:]
		}
	}

	var infraErr error

	enum.Par(len(chunks), func(ci int) {
		c := chunks[ci]
		srcs := make([]string, len(c.items))

		for i, p := range c.items {
			srcs[i] = p.Src
		}

		s, err := ev.RunEgoPacked(srcs, ev.Strict, c.opt)
		if err != nil {
			mu.Lock()
			infraErr = err
			mu.Unlock()

			return
		}

		var acc []int

		for i := range srcs {
			if s[i].Err == "" {
				acc = append(acc, i)
			}
		}

		accSrc := make([]string, len(acc))
		for k, i := range acc {
			accSrc[k] = srcs[i]
		}

		x, err := ev.RunEgoPacked(accSrc, ev.Relaxed, c.opt)
		if err != nil {
			mu.Lock()
			infraErr = err
			mu.Unlock()

			return
		}

		r.Eval(len(srcs) + len(acc))
		r.Add("programs_real_binary", int64(len(srcs)+len(acc)))

		for k, i := range acc {
			if kind := diffKind(s[i], x[k]); kind != "" {
				mu.Lock()
				findings = append(findings, finding{P: c.items[i], Opt: c.opt, Kind: kind, Strict: s[i], Relax: x[k], Via: "ego"})
				mu.Unlock()
			}
		}
	})

	if infraErr != nil {
		report.Fatal("cannot run the ego binary: %v", infraErr)
	}

	fmt.Printf("progress: real-binary pass done, %.0fs\n", time.Since(t0).Seconds())

	reportFindings(r, findings)

	<-corpusDone

	r.Set("programs_per_level", len(plain))
	r.Set("optimizer_levels", []int{0, 1, 2, 3})
	r.Finish()
}

// reportFindings confirms differences with the real binary and groups them
// into cells: family:kind plus the signature (levels, operand type labels).
func reportFindings(r *report.R, findings []finding) {
	type bucket struct {
		group   string
		opt     int
		label   string
		members []finding
		ok      bool
		f       finding
		s, x    ev.Result
	}

	buckets := map[string]*bucket{}

	for _, f := range findings {
		k := fmt.Sprint(f.group(), "|", f.Opt, "|", f.P.Label)

		b := buckets[k]
		if b == nil {
			b = &bucket{group: f.group(), opt: f.Opt, label: f.P.Label}
			buckets[k] = b
		}

		b.members = append(b.members, f)
	}

	keys := make([]string, 0, len(buckets))
	for k := range buckets {
		keys = append(keys, k)
	}

	sort.Strings(keys)

	for _, k := range keys {
		b := buckets[k]

		sort.SliceStable(b.members, func(x, y int) bool {
			if len(b.members[x].P.Src) != len(b.members[y].P.Src) {
				return len(b.members[x].P.Src) < len(b.members[y].P.Src)
			}

			return b.members[x].P.Src < b.members[y].P.Src
		})
	}

	var (
		infraErr error
		mu       sync.Mutex
	)

	// Stage 1: for every bucket its smallest member is re-run by the real
	// binary, strict then relaxed (per level one fresh process each, the
	// programs packed as functions of one file); up to three members are tried.
	for round := 0; round < 3; round++ {
		perOpt := map[int][]*bucket{}

		var opts []int

		for _, k := range keys {
			b := buckets[k]
			if b.ok || round >= len(b.members) {
				continue
			}

			if perOpt[b.opt] == nil {
				opts = append(opts, b.opt)
			}

			perOpt[b.opt] = append(perOpt[b.opt], b)
		}

		enum.Par(len(opts), func(i int) {
			bs := perOpt[opts[i]]
			srcs := make([]string, len(bs))

			for k, b := range bs {
				srcs[k] = b.members[round].P.Src
			}

			s, err := ev.RunEgoPacked(srcs, ev.Strict, opts[i])
			if err == nil {
				var x []ev.Result

				x, err = ev.RunEgoPacked(srcs, ev.Relaxed, opts[i])
				if err == nil {
					for k, b := range bs {
						if diffKind(s[k], x[k]) == b.members[round].Kind {
							b.ok, b.f, b.s, b.x = true, b.members[round], s[k], x[k]
						}
					}
				}
			}

			if err != nil {
				mu.Lock()
				infraErr = err
				mu.Unlock()
			}
		})

		if infraErr != nil {
			report.Fatal("cannot run the ego binary: %v", infraErr)
		}
	}

	type agg struct {
		labels map[string]bool
		opts   map[int]bool
		cands  []*bucket
		count  int
	}

	groups := map[string]*agg{}
	unconfirmed := 0

	for _, k := range keys {
		b := buckets[k]
		if !b.ok {
			unconfirmed += len(b.members)

			fmt.Printf("NOTE: %d in-process difference(s) of %s (-o %d, %s) did not reproduce in fresh `ego run` processes; not reported. e.g.\n%s", len(b.members), b.group, b.opt, b.label, b.members[0].P.Src)

			continue
		}

		a := groups[b.group]
		if a == nil {
			a = &agg{labels: map[string]bool{}, opts: map[int]bool{}}
			groups[b.group] = a
		}

		a.labels[b.label] = true
		a.opts[b.opt] = true
		a.count += len(b.members)
		a.cands = append(a.cands, b)
	}

	r.Set("differences_not_reproduced_by_fresh_ego_run", unconfirmed)

	gnames := make([]string, 0, len(groups))
	for g := range groups {
		gnames = append(gnames, g)
	}

	sort.Strings(gnames)

	for _, g := range gnames {
		a := groups[g]

		ls := make([]string, 0, len(a.labels))
		for l := range a.labels {
			ls = append(ls, l)
		}

		sort.Strings(ls)

		lv := ""
		for o := 0; o <= 3; o++ {
			if a.opts[o] {
				lv += fmt.Sprint(o)
			}
		}

		if lv == "0123" {
			lv = "*"
		}

		cell := fmt.Sprintf("%s:o%s[%s]", g, lv, compress(ls))

		// Stage 2: the cell's witness alone, in two fresh processes.
		sort.SliceStable(a.cands, func(x, y int) bool { return len(a.cands[x].f.P.Src) < len(a.cands[y].f.P.Src) })

		reported := false

		for n, b := range a.cands {
			if n == 3 {
				break
			}

			kind, s, x, err := confirmAlone(b.f)
			if err != nil {
				report.Fatal("cannot run the ego binary: %v", err)
			}

			if kind != b.f.Kind {
				continue
			}

			w := mkWitness(cell, b.f, s, x, []string{"-o " + lv + ": " + strings.Join(ls, ",")})
			msg := fmt.Sprintf("%s; %d differing (program, level) runs in this cell, witness confirmed alone in fresh processes", describe(b.f, s, x), a.count)

			for i := 0; i < a.count; i++ {
				r.Violation(cell, len(b.f.P.Src), w, msg)
			}

			reported = true

			break
		}

		if !reported {
			fmt.Printf("NOTE: cell %s was not reproduced by a program run alone in fresh processes; not reported\n", cell)
			r.Add("cells_not_reproduced_alone", 1)
		}
	}
}

// compress shortens a list of labels for a cell name.
func compress(ls []string) string {
	if len(ls) <= 6 {
		return strings.Join(ls, ",")
	}

	h := uint32(2166136261)

	for _, l := range ls {
		for i := 0; i < len(l); i++ {
			h = (h ^ uint32(l[i])) * 16777619
		}

		h = (h ^ '|') * 16777619
	}

	return fmt.Sprintf("%d-labels-%08x", len(ls), h)
}

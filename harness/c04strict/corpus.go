package main

import (
	"bytes"
	"context"
	"fmt"
	"os"
	"os/exec"
	"path/filepath"
	"regexp"
	"sort"
	"strconv"
	"strings"
	"time"

	ev "github.com/tucats/ego/internal/verifrt/egoeval"
	"github.com/tucats/ego/internal/verifrt/report"
)

// The corpus half of C04 is OFF by default and runs only with
// VERIF_C04_CORPUS=1: `ego test tests/` is not deterministic on a loaded
// machine (intermittently the Ego-source members of library packages fail to
// load - "unknown package member: Pi" - and 35 tests vanish from the output),
// so its counts cannot be part of a reproducible check. It is kept as an
// auxiliary tool.
//
// The corpus half of C04: the repository's own test suites (tests/**.ego, run
// by `ego test`) are programs too. Every test that passes under --types strict
// must pass under --types relaxed at the same optimizer level: its @assert
// lines are the observable meaning of the test. Only verdicts are compared
// (the printed durations and a few tests' free-form output are not), and a
// candidate counts only when it repeats: strict passes and relaxed fails in
// the first run and in two further sequential runs of both modes.

type testVerdict struct {
	Name string
	Pass bool
}

var verdictLine = regexp.MustCompile(`^TEST: (.+?)\s+\((PASS|FAIL)\)`)

// runCorpus runs `ego test --types <mode> -o <opt> <repo>/tests` in a fresh
// process with its own home and working directory.
func runCorpus(mode, opt int, tag string) ([]testVerdict, error) {
	scratch := os.Getenv("VERIF_SCRATCH")
	dir := filepath.Join(scratch, "corpus-"+tag)
	home := filepath.Join(dir, "home")

	if err := os.MkdirAll(home, 0o755); err != nil {
		return nil, err
	}

	// The deadline is a watchdog only, never an observation.
	ctx, cancel := context.WithTimeout(context.Background(), 30*time.Minute)
	defer cancel()

	repo := os.Getenv("VERIF_REPO")
	cmd := exec.CommandContext(ctx, os.Getenv("VERIF_EGO"), "test", "--types", ev.ModeNames[mode], "-o", strconv.Itoa(opt), filepath.Join(repo, "tests"))
	cmd.Dir = dir
	cmd.Env = append(os.Environ(), "HOME="+home, "TMPDIR="+dir)

	var out bytes.Buffer

	cmd.Stdout, cmd.Stderr = &out, &out

	err := cmd.Run()
	if ctx.Err() != nil {
		return nil, fmt.Errorf("ego test exceeded its watchdog")
	}

	if err != nil {
		if _, isExit := err.(*exec.ExitError); !isExit {
			return nil, err
		}
	}

	if keep := os.Getenv("VERIF_C04_KEEP_CORPUS"); keep != "" {
		_ = os.MkdirAll(keep, 0o755)
		_ = os.WriteFile(filepath.Join(keep, tag+".txt"), out.Bytes(), 0o644)
	}

	var vs []testVerdict

	for _, line := range strings.Split(out.String(), "\n") {
		if m := verdictLine.FindStringSubmatch(line); m != nil {
			vs = append(vs, testVerdict{Name: m[1], Pass: m[2] == "PASS"})
		}
	}

	if len(vs) == 0 {
		return nil, fmt.Errorf("ego test printed no verdicts: %.300s", out.String())
	}

	return vs, nil
}

// candidates lists the tests (by position and name) that pass in s and do not
// pass in x. Both lists come from the same files in the same order; positions
// whose names differ are not judged.
func candidates(s, x []testVerdict) (cands map[string]bool, judged int) {
	cands = map[string]bool{}

	n := len(s)
	if len(x) < n {
		n = len(x)
	}

	for i := 0; i < n; i++ {
		if s[i].Name != x[i].Name {
			continue
		}

		if s[i].Pass {
			judged++

			if !x[i].Pass {
				cands[fmt.Sprintf("%d:%s", i, s[i].Name)] = true
			}
		}
	}

	return cands, judged
}

type corpusWitness struct {
	Cell     string   `json:"cell"`
	Corpus   bool     `json:"corpus"`
	Optimize int      `json:"optimize"`
	Tests    []string `json:"tests_passing_strict_failing_relaxed"`
	Commands []string `json:"commands"`
}

func bothModes(opt int, tag string) (s, x []testVerdict, err error) {
	type res struct {
		v   []testVerdict
		err error
	}

	cs, cx := make(chan res, 1), make(chan res, 1)

	go func() { v, e := runCorpus(ev.Strict, opt, tag+"-strict"); cs <- res{v, e} }()
	go func() { v, e := runCorpus(ev.Relaxed, opt, tag+"-relaxed"); cx <- res{v, e} }()

	a, b := <-cs, <-cx
	if a.err != nil {
		return nil, nil, a.err
	}

	return a.v, b.v, b.err
}

// corpusPass runs the corpus differential at the given optimizer levels.
func corpusPass(r *report.R, opts []int) {
	for _, opt := range opts {
		s, x, err := bothModes(opt, fmt.Sprintf("o%d", opt))
		if err != nil {
			report.Fatal("cannot run the corpus: %v", err)
		}

		cands, judged := candidates(s, x)

		r.Eval(len(s) + len(x))
		r.Add("corpus_tests_run_strict", int64(len(s)))
		r.Add("corpus_tests_passing_strict_and_compared", int64(judged))

		for i := range s {
			if s[i].Pass {
				r.Distinct(fmt.Sprint("corpus|", opt, "|", i, "|", s[i].Name))
			}
		}

		// A candidate must repeat in two further runs, one mode at a time.
		for round := 0; round < 2 && len(cands) > 0; round++ {
			s2, err := runCorpus(ev.Strict, opt, fmt.Sprintf("o%d-again%d-strict", opt, round))
			if err != nil {
				report.Fatal("cannot run the corpus: %v", err)
			}

			x2, err := runCorpus(ev.Relaxed, opt, fmt.Sprintf("o%d-again%d-relaxed", opt, round))
			if err != nil {
				report.Fatal("cannot run the corpus: %v", err)
			}

			again, _ := candidates(s2, x2)

			for k := range cands {
				if !again[k] {
					delete(cands, k)
					r.Add("corpus_candidates_not_repeatable", 1)
				}
			}
		}

		if len(cands) == 0 {
			continue
		}

		names := make([]string, 0, len(cands))
		for k := range cands {
			names = append(names, k[strings.IndexByte(k, ':')+1:])
		}

		sort.Strings(names)

		cell := fmt.Sprintf("corpus:relaxed-fails:o%d[%s]", opt, compress(sanitize(names)))
		w := corpusWitness{
			Cell: cell, Corpus: true, Optimize: opt, Tests: names,
			Commands: []string{fmt.Sprintf("ego test --types strict -o %d tests/", opt), fmt.Sprintf("ego test --types relaxed -o %d tests/", opt)},
		}

		for range names {
			r.Violation(cell, 100000, w, fmt.Sprintf("%d test(s) of tests/ pass under --types strict -o %d and fail under --types relaxed -o %d (repeated 3 times): %s", len(names), opt, opt, strings.Join(names, "; ")))
		}
	}
}

func sanitize(names []string) []string {
	out := make([]string, len(names))

	for i, n := range names {
		out[i] = strings.Map(func(c rune) rune {
			if c == ' ' || c == '\t' {
				return '_'
			}

			return c
		}, n)
	}

	return out
}

// replayCorpus re-runs the corpus differential of a corpus witness.
func replayCorpus(r *report.R, w corpusWitness) {
	corpusPass(r, []int{w.Optimize})
	r.Distinct("replay")
	r.Sample(w)
	r.Finish()
}

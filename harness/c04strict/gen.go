package main

import (
	"fmt"
	"strings"

	ev "github.com/tucats/ego/internal/verifrt/egoeval"
)

// prog is one generated program: family and operand-type label name the cell
// of a difference, Src is the program text (helpers, then main).
type prog struct {
	Family string `json:"family"`
	Label  string `json:"types"`
	Src    string `json:"program"`
}

// rhs is a value crossing a boundary: a constant literal or a non-constant
// value (a variable y of some numeric type, declared by Decl).
type rhs struct {
	Text  string // expression text at the boundary
	Decl  string // declaration line(s) needed before it ("" for a constant)
	Label string // "int-const", "float-const", "imag-const" or a type name
}

func constRHS(n ev.Num) rhs {
	kind := map[ev.TID]string{ev.Int: "int-const", ev.F64: "float-const", ev.C128: "imag-const"}[n.T]

	return rhs{Text: n.ConstLit(), Label: kind}
}

func varRHS(n ev.Num) rhs {
	return rhs{Text: "y", Decl: "    y := " + n.VarInit() + "\n", Label: n.T.Short()}
}

// padding makes a function long enough for optimizer level 1 to touch it.
const padding = "    pad := 1\n" +
	"    pad = pad * 2\n    pad = pad * 2\n    pad = pad * 2\n    pad = pad * 2\n    pad = pad * 2\n    pad = pad * 2\n    pad = pad * 2\n    pad = pad * 2\n" +
	"    pad = pad * 2\n    pad = pad * 2\n    pad = pad * 2\n    pad = pad * 2\n    pad = pad * 2\n    pad = pad * 2\n    pad = pad * 2\n    pad = pad * 2\n" +
	"    emit(\"pad\", pad)\n"

// mk assembles a program; with pad the main function (and a helper body marked
// with the comment "//pad") gets the padding block.
func mk(family, label, helpers, body string, pad bool) prog {
	p := ""
	if pad {
		p = padding
		helpers = strings.ReplaceAll(helpers, "//pad\n", strings.ReplaceAll(padding, "emit(\"pad\", pad)", "emit(\"hpad\", pad)"))
	} else {
		helpers = strings.ReplaceAll(helpers, "//pad\n", "")
	}

	return prog{Family: family, Label: label, Src: "package main\n" + helpers + "func main() {\n" + p + body + "}\n"}
}

// rhsList lists the values that cross a boundary into a target of type t: the
// constant literals and one (thorough: three) non-constant value of every type.
func rhsList(thorough bool) []rhs {
	var out []rhs

	for _, k := range ev.Constants(thorough) {
		out = append(out, constRHS(k))
	}

	for _, u := range ev.AllTypes() {
		vs := ev.Values(u, 0)
		if !thorough {
			vs = vs[:1]
		}

		for _, v := range vs {
			out = append(out, varRHS(v))
		}
	}

	return out
}

var binOps = []string{"+", "-", "*", "/", "%", "==", "<"}

// generate enumerates the programs of a tier. pad selects the padded variant
// (used at optimizer level 1).
func generate(thorough bool, pad bool) []prog {
	var out []prog

	add := func(family, label, helpers, body string) {
		out = append(out, mk(family, label, helpers, body, pad))
	}

	rs := rhsList(thorough)

	for _, t := range ev.AllTypes() {
		tn := t.String()
		xs := ev.Values(t, 0)

		if !thorough {
			xs = xs[:1]
		}

		for xi, x := range xs {
			declX := "    x := " + x.VarInit() + "\n"

			for _, r := range rs {
				lab := t.Short() + "<-" + r.Label

				// 1. assignment
				if xi == 0 {
					add("assign", lab, "", declX+r.Decl+"    x = "+r.Text+"\n    emit(\"x\", x)\n")
					add("assign-var", lab, "", "    var x "+tn+"\n"+r.Decl+"    x = "+r.Text+"\n    emit(\"x\", x)\n")
					add("declare", lab, "", r.Decl+"    var x "+tn+" = "+r.Text+"\n    emit(\"x\", x)\n")

					// 3. argument
					add("argument", lab, "func fITEM(p "+tn+") {\n//pad\n    emit(\"p\", p)\n}\n", r.Decl+"    fITEM("+r.Text+")\n")

					// 4. return value
					add("return", lab, "func gITEM() "+tn+" {\n//pad\n"+r.Decl+"    return "+r.Text+"\n}\n", "    z := gITEM()\n    emit(\"z\", z)\n")

					// containers
					add("array-element", lab, "", "    a := make([]"+tn+", 2)\n"+r.Decl+"    a[1] = "+r.Text+"\n    q := a[1]\n    emit(\"q\", q)\n")
					add("struct-field", lab, "type sITEM struct {\n    f "+tn+"\n}\n", declX+"    s := sITEM{f: x}\n"+r.Decl+"    s.f = "+r.Text+"\n    q := s.f\n    emit(\"q\", q)\n")
					add("map-value", lab, "", "    m := map[string]"+tn+"{}\n"+r.Decl+"    m[\"k\"] = "+r.Text+"\n    q := m[\"k\"]\n    emit(\"q\", q)\n")
				}

				// 2. expression, both operand orders
				for _, op := range binOps {
					add("expr:"+op, lab, "", declX+r.Decl+"    z := x "+op+" "+r.Text+"\n    emit(\"z\", z)\n")

					if r.Decl == "" {
						add("expr:"+op, lab, "", declX+"    z := "+r.Text+" "+op+" x\n    emit(\"z\", z)\n")
					}
				}

				// return of an expression over a parameter (the document's
				// own example: return x * 2 / return x * 2.7)
				if xi == 0 && r.Decl == "" {
					add("return-expr", lab, "func hITEM(p "+tn+") "+tn+" {\n//pad\n    return p * "+r.Text+"\n}\n", declX+"    z := hITEM(x)\n    emit(\"z\", z)\n")
				}

				// statement forms
				for _, f := range []string{"x += %s", "x -= %s", "x = x + %s", "x = x - %s", "x *= %s", "x = x * %s"} {
					add("form", lab, "", declX+r.Decl+"    "+fmt.Sprintf(f, r.Text)+"\n    emit(\"x\", x)\n")
				}
			}

			add("form", t.Short(), "", declX+"    x++\n    emit(\"x\", x)\n")
			add("form", t.Short(), "", declX+"    x--\n    emit(\"x\", x)\n")
			add("negate", t.Short(), "", declX+"    z := -x\n    emit(\"z\", z)\n")

			// a loop counter of the type (increment inside a loop body is
			// where the optimizer's fused increment fires)
			add("loop", t.Short(), "", declX+"    n := 0\n    for i := 0; i < 3; i++ {\n        x += 1\n        n = n + 1\n    }\n    emit(\"x\", x)\n    emit(\"n\", n)\n")
		}
	}

	if thorough {
		out = append(out, pairs(pad)...)
	}

	return out
}

// pairs enumerates every ordered pair of boundary statements over one shared
// variable x of every type (thorough tier).
func pairs(pad bool) []prog {
	var out []prog

	for _, t := range ev.AllTypes() {
		tn := t.String()
		x := ev.Values(t, 0)[0]
		other := ev.I32

		if t == ev.I32 {
			other = ev.F64
		}

		y := ev.Values(other, 0)[0]
		same := ev.Values(t, 0)[1]

		frags := []string{
			"    x = 3\n", "    x = 200\n", "    x = 2.0\n", "    x = 2.5\n",
			"    x = y\n", "    x = w\n",
			"    x++\n", "    x--\n", "    x += 1\n", "    x += 2.0\n", "    x = x + 3\n", "    x = x * 2\n", "    x = x * 2.5\n", "    x = x + w\n", "    x = x + y\n",
			"    x = fITEM(x)\n", "    x = fITEM(3)\n", "    x = fITEM(2.5)\n", "    x = fITEM(y)\n",
			"    x = -x\n",
		}

		helpers := "func fITEM(p " + tn + ") " + tn + " {\n//pad\n    return p + 1\n}\n"
		decl := "    x := " + x.VarInit() + "\n    y := " + y.VarInit() + "\n    w := " + same.VarInit() + "\n    emit(\"y\", y)\n    emit(\"w\", w)\n"

		for i, a := range frags {
			for j, b := range frags {
				out = append(out, mk("pair", fmt.Sprintf("%s:%d.%d", t.Short(), i, j), helpers, decl+a+"    emit(\"x1\", x)\n"+b+"    emit(\"x2\", x)\n", pad))
			}
		}
	}

	return out
}

// C14: table REST requests cannot inject SQL.
//
// The real router with the real table routes serves, in-process, every request
// of a bounded family of requests (11 request kinds x the parameter that
// deviates x every string of hostile symbols up to a length) against a fresh
// SQLite database that holds the addressed table t1 and two other tables.
// internal/server/tables/database is woven so that its sql.Open goes through
// verifrt/vsql: every statement text that reaches the SQLite driver is seen.
//
// Sentence 1 of the property is judged on those texts: one statement per text
// (SQLite's own token rules decide where a statement ends), only row
// statements, and the program SQLite compiles for it (EXPLAIN, on a pristine
// read-only copy) opens no b-tree but those of the addressed table; afterwards
// the other tables and the schema are unchanged and no value stored only in
// another table is in the response. Sentence 2 is judged with a reference
// reading of the documented filter grammar: an accepted request read / updated
// / deleted exactly the rows the filter selects (documented filters), or no
// row / the rows of its leading documented clauses (anything else).
package main

import (
	"bufio"
	"encoding/json"
	"fmt"
	"os"
	"os/exec"
	"path/filepath"
	"runtime/pprof"
	"sort"
	"strconv"
	"strings"
	"sync"

	"github.com/tucats/ego/internal/verifrt/report"
)

type witness struct {
	Case       Case     `json:"case"`
	Request    string   `json:"request"`
	Status     int      `json:"status"`
	Statements []string `json:"statements"`
	Response   string   `json:"response,omitempty"`
}

type workerMsg struct {
	T        string         `json:"t"`
	Index    int            `json:"i,omitempty"`
	Cell     string         `json:"cell,omitempty"`
	Msg      string         `json:"msg,omitempty"`
	Witness  *witness       `json:"w,omitempty"`
	Size     int            `json:"size,omitempty"`
	Reached  []int          `json:"reached,omitempty"`
	Counters map[string]int `json:"counters,omitempty"`
	Samples  []any          `json:"samples,omitempty"`
	Err      string         `json:"err,omitempty"`
}

func tierBounds(thorough bool) bounds {
	if thorough {
		return bounds{top: 3, core: 2, rest: 2, minor: 2, deep: 3, qtop: 4, qrest: 2}
	}

	return bounds{top: 2, core: 2, rest: 1, minor: 1, deep: 2, qtop: 3, qrest: 2}
}

func dedupe(cases []Case) []Case {
	seen := map[string]bool{}
	out := cases[:0]

	for _, c := range cases {
		k := c.key()
		if !seen[k] {
			seen[k] = true
			out = append(out, c)
		}
	}

	return out
}

func makeWitness(c Case, o outcome) *witness {
	m, t, b := c.request(dsnName)

	req := m + " " + t
	if b != nil {
		req += " " + string(b)
	}

	return &witness{Case: c, Request: req, Status: o.Status, Statements: o.Statements, Response: clip(o.Body, 400)}
}

// witnessSize orders witnesses: shorter requests first, ties broken by the
// case itself so that the reported witness does not depend on worker timing.
func witnessSize(c Case) int {
	h := 0
	for _, b := range []byte(c.key()) {
		h = (h*31 + int(b)) % 1000
	}

	return len(c.key())*1000 + h
}

// worker runs the cases i with i % n == k and writes its messages to stdout.
func worker(k, n int, thorough bool) {
	enc := json.NewEncoder(os.Stdout)
	cases := dedupe(enumerate(tierBounds(thorough)))

	w, err := newWorld(filepath.Join(os.Getenv("VERIF_SCRATCH"), fmt.Sprintf("w%d", k)))
	if err != nil {
		_ = enc.Encode(workerMsg{T: "fatal", Err: err.Error()})
		os.Exit(2)
	}

	done := workerMsg{T: "done", Counters: map[string]int{}}

	if p := os.Getenv("VERIF_C14_PROF"); p != "" && p != "1" {
		pf, _ := os.Create(p)
		_ = pprof.StartCPUProfile(pf)

		defer pprof.StopCPUProfile()
	}

	limit := len(cases)
	if v, err := strconv.Atoi(os.Getenv("VERIF_C14_LIMIT")); err == nil && v > 0 && v < limit {
		limit = v // profiling aid only; the parent refuses an incomplete run
	}

	for i := k; i < limit; i += n {
		c := cases[i]

		o, err := w.run(c)
		if err != nil {
			_ = enc.Encode(workerMsg{T: "fatal", Err: fmt.Sprintf("case %s: %v", c.key(), err)})
			os.Exit(2)
		}

		done.Counters["evaluations"]++
		done.Counters["statements_judged"] += len(o.Statements)

		if o.Reached {
			done.Reached = append(done.Reached, i)
		}

		if o.Rejected {
			done.Counters["rejected"]++
		} else {
			done.Counters["accepted"]++
		}

		done.Counters["kind:"+c.Kind]++
		done.Counters["param:"+c.Param]++

		if len(done.Samples) < 2 && o.Reached && i%97 == k%97 {
			done.Samples = append(done.Samples, makeWitness(c, o))
		}

		for _, f := range o.Findings {
			_ = enc.Encode(workerMsg{T: "v", Index: i, Cell: f.Cell, Msg: f.Msg, Witness: makeWitness(c, o), Size: witnessSize(c)})
		}
	}

	done.Counters["file_restores"] = w.fx.restores
	done.Counters["row_restores"] = w.fx.fastRestores

	if os.Getenv("VERIF_C14_PROF") != "" {
		fmt.Fprintln(os.Stderr, "profile:", prof)
	}
	_ = enc.Encode(done)
}

func main() {
	if spec := os.Getenv("VERIF_C14_WORKER"); spec != "" {
		parts := strings.Split(spec, "/")
		k, _ := strconv.Atoi(parts[0])
		n, _ := strconv.Atoi(parts[1])

		worker(k, n, os.Getenv("VERIF_TIER") == "thorough")

		return
	}

	r := report.New("exploration")
	b := tierBounds(r.Thorough())

	r.Rule(fmt.Sprintf("11 request kinds (row read/update/delete/insert, abstract read/update/insert, transaction select/update/delete/insert) x deviating parameter "+
		"(filter in 13 slot skeletons, filter pair, sort, columns, start, limit, table name, payload key, payload value, upsert key/value) x every string of 0..N symbols "+
		"over the %d-symbol alphabet %q (N=%d for the core skeletons of a parameter on its first primary kind, %d on its other primary kinds, %d for the other skeletons on primary kinds, %d on the remaining kinds, %d for one filter skeleton on row read), "+
		"plus quoted table names (a quoted real or other table name followed by 0..%d symbols -- 0..%d on the kinds that look the table up first -- over %q, kept when the name ends with a double quote) on every kind, "+
		"plus %d filters of the documented grammar per filter-taking kind; "+
		"each request is served by the real router/handlers on a pristine SQLite file; distinct = a request from which a statement reached the driver",
		len(alphabet), alphabet, b.top, b.core, b.rest, b.minor, b.deep, b.qtop, b.qrest, quotedSymbols, len(documentedFilters())))
	r.Assume(
		"SQLite's EXPLAIN on an identical read-only copy names every b-tree a single statement can open; texts SQLite refuses to compile execute nothing",
		"statement separation follows SQLite's token rules (strings, quoted identifiers, comments); the modernc driver runs every statement of a text",
		"requests are made by a root user through Router.ServeHTTP with httptest recorders (no socket); SQLite backend only",
		"the reference filter reader accepts only the grammar of docs/API.md#readrows; type-mixed comparisons, column-vs-column operands, bare words and paging without sort are not judged for rows",
	)

	if r.Replay != "" {
		var w witness
		if err := report.LoadReplay(r.Replay, &w); err != nil {
			report.Fatal("%v", err)
		}

		wd, err := newWorld(filepath.Join(os.Getenv("VERIF_SCRATCH"), "replay"))
		if err != nil {
			report.Fatal("%v", err)
		}

		o, err := wd.run(w.Case)
		if err != nil {
			report.Fatal("%v", err)
		}

		fmt.Printf("replay: %s\n  status %d\n", makeWitness(w.Case, o).Request, o.Status)

		for _, s := range o.Statements {
			fmt.Printf("  statement: %q\n", s)
		}

		for _, f := range o.Findings {
			r.Violation(f.Cell, len(w.Case.key()), makeWitness(w.Case, o), f.Msg)
		}

		r.Eval(1)
		r.Distinct(w.Case.key())
		r.Distinct("replay")
		r.Sample(makeWitness(w.Case, o))
		r.Finish()
	}

	cases := dedupe(enumerate(b))

	nw := 6
	if v, err := strconv.Atoi(os.Getenv("VERIF_C14_WORKERS")); err == nil && v > 0 {
		nw = v
	}

	self, err := os.Executable()
	if err != nil {
		report.Fatal("%v", err)
	}

	var (
		wg       sync.WaitGroup
		mu       sync.Mutex
		counters = map[string]int{}
		fatal    string
	)

	// Debugging aid: every finding, one per line.
	var dump *os.File
	if p := os.Getenv("VERIF_C14_DUMP"); p != "" {
		dump, _ = os.Create(p)

		defer dump.Close()
	}

	for k := 0; k < nw; k++ {
		wg.Add(1)

		go func(k int) {
			defer wg.Done()

			cmd := exec.Command(self)
			cmd.Env = append(os.Environ(), fmt.Sprintf("VERIF_C14_WORKER=%d/%d", k, nw), "GOMAXPROCS=2")
			cmd.Stderr = os.Stderr

			out, err := cmd.StdoutPipe()
			if err != nil {
				mu.Lock()
				fatal = err.Error()
				mu.Unlock()

				return
			}

			if err := cmd.Start(); err != nil {
				mu.Lock()
				fatal = err.Error()
				mu.Unlock()

				return
			}

			sc := bufio.NewScanner(out)
			sc.Buffer(make([]byte, 1<<20), 1<<28)

			finished := false

			for sc.Scan() {
				var m workerMsg
				if err := json.Unmarshal(sc.Bytes(), &m); err != nil {
					continue // stray output of the server code
				}

				switch m.T {
				case "v":
					r.Violation(m.Cell, m.Size, m.Witness, m.Msg)

					if dump != nil {
						mu.Lock()
						fmt.Fprintf(dump, "%s\t%s\t%d\t%q\n", m.Cell, m.Witness.Case.key(), m.Witness.Status, m.Witness.Statements)
						mu.Unlock()
					}
				case "fatal":
					mu.Lock()
					fatal = m.Err
					mu.Unlock()
				case "done":
					finished = true

					mu.Lock()
					for key, v := range m.Counters {
						counters[key] += v
					}
					mu.Unlock()

					for _, i := range m.Reached {
						r.Distinct(cases[i].key())
					}

					for _, s := range m.Samples {
						r.Sample(s)
					}
				}
			}

			if err := cmd.Wait(); err != nil || !finished {
				mu.Lock()
				if fatal == "" {
					fatal = fmt.Sprintf("worker %d ended early: %v", k, err)
				}
				mu.Unlock()
			}
		}(k)
	}

	wg.Wait()

	if fatal != "" {
		report.Fatal("%s", fatal)
	}

	if counters["evaluations"] != len(cases) {
		report.Fatal("workers ran %d of %d cases", counters["evaluations"], len(cases))
	}

	r.Eval(counters["evaluations"])

	keys := make([]string, 0, len(counters))
	for k := range counters {
		keys = append(keys, k)
	}

	sort.Strings(keys)

	for _, k := range keys {
		if k != "evaluations" {
			r.Set(k, counters[k])
		}
	}

	r.Set("cases", len(cases))
	r.Set("fill_len_top", b.top)
	r.Set("fill_len_core", b.core)
	r.Set("fill_len_rest", b.rest)
	r.Set("fill_len_minor", b.minor)
	r.Set("fill_len_deep", b.deep)
	r.Set("quoted_table_len_top", b.qtop)
	r.Set("quoted_table_len_rest", b.qrest)
	r.Set("workers", nw)
	r.Finish()
}

package main

import (
	"fmt"
	"sort"
	"strings"
	"sync"
)

// splitStatements cuts a statement text at the semicolons SQLite's tokenizer
// would see as statement separators: those outside '…' strings, "…" / `…` /
// […] identifiers, -- comments and /* */ comments. Pieces holding only white
// space and comments are dropped. (An unterminated string or comment swallows
// the rest of the text, as it does in SQLite, where it is an error.)
func splitStatements(q string) []string {
	var (
		out   []string
		start = 0
		solid = false // the current piece holds something besides space/comments
	)

	flush := func(end int) {
		if solid {
			out = append(out, strings.TrimSpace(q[start:end]))
		}

		start, solid = end+1, false
	}

	for i := 0; i < len(q); i++ {
		c := q[i]

		switch {
		case c == '\'' || c == '"' || c == '`':
			solid = true
			j := i + 1

			for j < len(q) {
				if q[j] == c {
					if j+1 < len(q) && q[j+1] == c {
						j += 2

						continue
					}

					break
				}

				j++
			}

			i = j
		case c == '[':
			solid = true

			j := strings.IndexByte(q[i:], ']')
			if j < 0 {
				i = len(q)
			} else {
				i += j
			}
		case c == '-' && i+1 < len(q) && q[i+1] == '-':
			j := strings.IndexByte(q[i:], '\n')
			if j < 0 {
				i = len(q)
			} else {
				i += j
			}
		case c == '/' && i+1 < len(q) && q[i+1] == '*':
			j := strings.Index(q[i+2:], "*/")
			if j < 0 {
				i = len(q)
			} else {
				i += j + 3
			}
		case c == ';':
			flush(i)
		case c == ' ' || c == '\t' || c == '\n' || c == '\r' || c == '\f':
		default:
			solid = true
		}
	}

	if start < len(q) {
		flush(len(q))
	}

	return out
}

// firstWord is the first keyword of a statement, upper-cased, comments skipped.
func firstWord(q string) string {
	i := 0

	for i < len(q) {
		switch {
		case q[i] == ' ' || q[i] == '\t' || q[i] == '\n' || q[i] == '\r' || q[i] == '\f':
			i++
		case strings.HasPrefix(q[i:], "--"):
			j := strings.IndexByte(q[i:], '\n')
			if j < 0 {
				return ""
			}

			i += j + 1
		case strings.HasPrefix(q[i:], "/*"):
			j := strings.Index(q[i+2:], "*/")
			if j < 0 {
				return ""
			}

			i += j + 4
		default:
			j := i
			for j < len(q) && (q[j] == '_' || q[j] >= 'a' && q[j] <= 'z' || q[j] >= 'A' && q[j] <= 'Z') {
				j++
			}

			return strings.ToUpper(q[i:j])
		}
	}

	return ""
}

// The two statements database.Open itself issues on every connection.
var housekeeping = map[string]bool{
	"PRAGMA journal_mode=WAL;":  true,
	"PRAGMA busy_timeout=5000;": true,
}

// verdict of one statement text.
type stmtVerdict struct {
	Compiles bool     // SQLite accepts it against the fixture schema
	Tables   []string // tables whose b-trees the compiled program opens, clears or destroys
	Bad      []string // opcodes that are not row access at all (DDL, pragma, attach, virtual tables …)
	Err      string
}

// Opcodes that are never part of reading or changing rows of an ordinary table.
var badOpcodes = map[string]bool{
	"Destroy": true, "CreateBtree": true, "SqlExec": true, "ParseSchema": true, "LoadAnalysis": true,
	"DropTable": true, "DropIndex": true, "DropTrigger": true, "IntegrityCk": true, "Vacuum": true,
	"JournalMode": true, "Checkpoint": true, "SetCookie": true, "VBegin": true, "VCreate": true,
	"VDestroy": true, "VOpen": true, "VUpdate": true, "VRename": true, "Pagecount": true,
	"MaxPgcnt": true, "IncrVacuum": true, "AutoCommit": true, "Savepoint": true, "Program": true,
	"ResetSequence": true, "TableLock": true, "VFilter": true, "VColumn": true, "VNext": true,
	"VInitIn": true, "VCheck": true,
}

// SQL functions that reach outside the database.
var badFunctions = []string{"load_extension", "sqlite_attach", "sqlite_detach", "readfile", "writefile", "fts3_tokenizer", "edit"}

var (
	judgeMu    sync.Mutex
	judgeCache = map[string]*stmtVerdict{}
)

// judgeStatement compiles one single statement with EXPLAIN on the pristine,
// read-only copy of the database and reports which tables its program touches.
// The caller has made sure q is a single statement.
func (f *fixture) judgeStatement(q string, nargs int) *stmtVerdict {
	key := fmt.Sprint(nargs, "|", q)

	judgeMu.Lock()
	v := judgeCache[key]
	judgeMu.Unlock()

	if v != nil {
		return v
	}

	v = &stmtVerdict{}

	args := make([]any, nargs)

	rows, err := f.judge.Query("EXPLAIN "+q, args...)
	if err != nil {
		v.Err = err.Error()
	} else {
		tables := map[string]bool{}
		bad := map[string]bool{}

		for rows.Next() {
			var (
				addr, p1, p2, p3 int64
				op               string
				p4, p5, comment  any
			)

			if err := rows.Scan(&addr, &op, &p1, &p2, &p3, &p4, &p5, &comment); err != nil {
				v.Err = err.Error()

				break
			}

			v.Compiles = true

			switch op {
			case "OpenRead", "OpenWrite", "ReopenIdx":
				if p3 != 0 {
					tables[fmt.Sprintf("db#%d", p3)] = true
				} else if t, ok := f.roots[p2]; ok {
					tables[t] = true
				} else {
					tables[fmt.Sprintf("root#%d", p2)] = true
				}
			case "Clear":
				if p2 != 0 {
					tables[fmt.Sprintf("db#%d", p2)] = true
				} else if t, ok := f.roots[p1]; ok {
					tables[t] = true
				} else {
					tables[fmt.Sprintf("root#%d", p1)] = true
				}
			case "Function", "PureFunc", "Function0":
				name := strings.ToLower(fmt.Sprint(p4))
				if b, ok := p4.([]byte); ok {
					name = strings.ToLower(string(b))
				}

				for _, fn := range badFunctions {
					if strings.HasPrefix(name, fn+"(") {
						bad["Function:"+fn] = true
					}
				}
			default:
				if badOpcodes[op] {
					bad[op] = true
				}
			}
		}

		if err := rows.Err(); err != nil && v.Err == "" {
			v.Err = err.Error()
			v.Compiles = false
		}

		rows.Close()

		for t := range tables {
			v.Tables = append(v.Tables, t)
		}

		for b := range bad {
			v.Bad = append(v.Bad, b)
		}

		sort.Strings(v.Tables)
		sort.Strings(v.Bad)
	}

	judgeMu.Lock()
	judgeCache[key] = v
	judgeMu.Unlock()

	return v
}

// addressed resolves the table name of a request to a table of the fixture.
// Generously: white space and quotes at either end (the server strips a
// quote at either end of a name), a qualifier in front of a dot and letter
// case do not change which table a name is taken to mean. "" when the name is no table's.
func (f *fixture) addressed(name string) string {
	n := strings.ToLower(strings.Trim(name, "\"' \t"))

	// A dotted name is qualifier.table ("main.t1", `"x"."t1"`): the table part
	// is what the request addresses, whatever the qualifier is worth.
	if i := strings.LastIndex(n, "."); i >= 0 {
		n = n[i+1:]
	}

	n = strings.Trim(n, "\"' \t")

	return f.tables[n]
}

// leadingTable is the fixture table whose name starts the given name ("t1--",
// "t1 x", "t1,zsecret" -> t1): what is left when SQL reads the name as text.
func (f *fixture) leadingTable(name string) string {
	n := strings.TrimLeft(strings.ToLower(name), "\"' \t")
	n = strings.TrimPrefix(n, "main.")

	j := 0
	for j < len(n) && (isLetter(n[j]) || isDigit(n[j])) {
		j++
	}

	return f.tables[n[:j]]
}

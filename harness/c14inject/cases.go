package main

import (
	"encoding/json"
	"net/url"
	"sort"
	"strings"

	"github.com/tucats/ego/internal/verifrt/enum"
)

// Request kinds of the property statement.
const (
	kRead      = "read"
	kReadAbs   = "readabs"
	kUpdate    = "update"
	kUpdateAbs = "updateabs"
	kDelete    = "delete"
	kInsert    = "insert"
	kInsertAbs = "insertabs"
	kTxSelect  = "tx-select"
	kTxUpdate  = "tx-update"
	kTxDelete  = "tx-delete"
	kTxInsert  = "tx-insert"
)

var allKinds = []string{kRead, kReadAbs, kUpdate, kUpdateAbs, kDelete, kInsert, kInsertAbs, kTxSelect, kTxUpdate, kTxDelete, kTxInsert}

func family(kind string) string {
	switch kind {
	case kReadAbs, kUpdateAbs, kInsertAbs:
		return "abstract"
	case kTxSelect, kTxUpdate, kTxDelete, kTxInsert:
		return "tx"
	}

	return "rows"
}

func isUpdate(kind string) bool { return kind == kUpdate || kind == kUpdateAbs || kind == kTxUpdate }
func isInsert(kind string) bool { return kind == kInsert || kind == kInsertAbs || kind == kTxInsert }
func isDelete(kind string) bool { return kind == kDelete || kind == kTxDelete }

// Case is one request; it is also the (self-contained) replay witness.
type Case struct {
	Kind    string         `json:"kind"`
	Param   string         `json:"param"` // the parameter that deviates from a well-formed request
	Table   string         `json:"table"`
	Filters []string       `json:"filters,omitempty"`
	Columns []string       `json:"columns,omitempty"`
	Sort    []string       `json:"sort,omitempty"`
	Start   *string        `json:"start,omitempty"`
	Limit   *string        `json:"limit,omitempty"`
	Upsert  *string        `json:"upsert,omitempty"`
	Data    map[string]any `json:"data,omitempty"`
}

func (c Case) key() string {
	b, _ := json.Marshal(c)

	return string(b)
}

// request renders the case as method, request URI and body.
func (c Case) request(dsn string) (method, target string, body []byte) {
	q := url.Values{}

	switch family(c.Kind) {
	case "tx":
		op := strings.TrimPrefix(c.Kind, "tx-")
		task := map[string]any{"operation": op, "table": c.Table}

		if len(c.Filters) > 0 {
			task["filters"] = c.Filters
		}

		if len(c.Columns) > 0 {
			task["columns"] = c.Columns
		}

		if c.Data != nil {
			task["data"] = c.Data
		}

		body, _ = json.Marshal([]any{task})

		return "POST", "/dsns/" + dsn + "/tables/@transaction", body
	case "abstract":
		q.Set("abstract", "true")
	}

	for _, f := range c.Filters {
		q.Add("filter", f)
	}

	for _, v := range c.Columns {
		q.Add("columns", v)
	}

	for _, v := range c.Sort {
		q.Add("sort", v)
	}

	if c.Start != nil {
		q.Set("start", *c.Start)
	}

	if c.Limit != nil {
		q.Set("limit", *c.Limit)
	}

	if c.Upsert != nil {
		q.Set("upsert", *c.Upsert)
	}

	target = "/dsns/" + dsn + "/tables/" + url.PathEscape(c.Table) + "/rows"
	if enc := q.Encode(); enc != "" {
		target += "?" + enc
	}

	switch c.Kind {
	case kRead, kReadAbs:
		method = "GET"
	case kDelete:
		method = "DELETE"
	case kUpdate:
		method = "PATCH"
		body, _ = json.Marshal(c.Data)
	case kInsert:
		method = "PUT"
		body, _ = json.Marshal(c.Data)
	case kUpdateAbs, kInsertAbs:
		method = "PATCH"
		if c.Kind == kInsertAbs {
			method = "PUT"
		}

		keys := make([]string, 0, len(c.Data))
		for k := range c.Data {
			keys = append(keys, k)
		}

		sort.Strings(keys)

		cols := []any{}
		vals := []any{}

		for _, k := range keys {
			cols = append(cols, map[string]any{"name": k})
			vals = append(vals, c.Data[k])
		}

		body, _ = json.Marshal(map[string]any{"columns": cols, "rows": []any{vals}, "count": 1})
	}

	return method, target, body
}

// ---- alphabet -----------------------------------------------------------------

// Symbols a deviation is spelled with: quoting and comment characters, the
// separators of the filter grammar, and ready-made hostile fragments (so that a
// classic attack is three symbols long, not thirty).
var alphabet = []string{
	`'`, `"`, `\`, `a`, `1`, `,`, `(`, `)`, `;`, `--`, `/*`, ` `,
	` OR 1=1`,
	`(SELECT sval FROM zsecret)`,
	`;DELETE FROM zsecret`,
	` UNION SELECT * FROM zother`,
	`') OR ('1'='1`,
	`name`, `zsecret`, `=`, `*`,
}

// A slot skeleton: the fill replaces the box.
const box = "□"

func ptr(s string) *string { return &s }

func base(kind, param string) Case {
	c := Case{Kind: kind, Param: param, Table: "t1"}

	switch {
	case isUpdate(kind):
		c.Data = map[string]any{"name": "zz"}
		c.Filters = []string{"EQ(id,2)"}
	case isInsert(kind):
		c.Data = map[string]any{"id": 9, "name": "n", "score": 1.25}
	case isDelete(kind):
		c.Filters = []string{"EQ(id,2)"}
	}

	return c
}

func takesFilter(kind string) bool { return !isInsert(kind) }

// documentedFilters is every filter of the documented grammar up to two
// levels over a small operand set (all of them well typed).
func documentedFilters() []string {
	type pair struct{ col, val string }

	pairs := []pair{{"id", "1"}, {"id", "2"}, {"id", "9"}, {"id", "1.5"}, {"name", "'a'"}, {"name", `"b"`}, {"name", "'zz'"}, {"score", "1.5"}, {"score", "2"}}

	var leaves, out []string

	for _, op := range []string{"EQ", "LT", "LE", "GT", "GE"} {
		for _, p := range pairs {
			leaves = append(leaves, op+"("+p.col+","+p.val+")")
		}
	}

	out = append(out, leaves...)

	for _, l := range leaves {
		out = append(out, "NOT("+l+")")
	}

	few := []string{"EQ(id,1)", "GT(id,1)", "EQ(name,'a')", "LE(name,\"ab\")", "LT(score,2)", "GE(id,9)"}

	for _, op := range []string{"AND", "OR"} {
		for _, a := range few {
			for _, b := range few {
				out = append(out, op+"("+a+","+b+")")
			}
		}

		out = append(out, op+"("+few[1]+","+few[3]+","+few[4]+")", op+"(NOT("+few[0]+"),"+few[2]+")")
	}

	out = append(out, "HAS(name,'a')", "HAS(name,'a','b')", "HASALL(name,'a','b')", "HASALL(name,'z')")

	return out
}

// bounds of one tier: the length of the symbol strings that fill a slot.
type bounds struct {
	top   int // core skeletons on the first of the primary request kinds of a parameter
	core  int // core skeletons on the other primary kinds
	rest  int // the other skeletons on the primary kinds
	minor int // every skeleton on the remaining kinds
	deep  int // one filter skeleton on row read
	qtop  int // quoted table names: symbols after the leading quoted name, on the kinds without a metadata probe
	qrest int // the same on the other kinds
}

// Quoted table names: a name that begins and ends with a double quote and
// holds an even number of them -- the shape of a name that is already a
// delimited identifier -- with SQL between the quoted parts. Every symbol that
// carries quotes carries a balanced pair.
var quotedSymbols = []string{` `, `--`, `;`, ` WHERE 0`, `DELETE FROM `, `.`, `"t1"`, `"zsecret"`, `""`}

func quotedTableNames(n int) []string {
	var out []string

	for _, first := range []string{`"t1"`, `"zsecret"`} {
		for _, rest := range enum.AllStrings(quotedSymbols, 0, n) {
			name := first + rest
			if strings.HasSuffix(name, `"`) && !strings.Contains(name, "/") {
				out = append(out, name)
			}
		}
	}

	return out
}

// rank of a kind for a parameter: 0 the first primary kind, 1 another primary
// kind, 2 any other kind.
func rank(primary []string, kind string) int {
	for i, k := range primary {
		if k == kind {
			return min(i, 1)
		}
	}

	return 2
}

// slot is a skeleton and whether it is a core one.
type slot struct {
	text string
	core bool
}

type fillSets struct {
	b    bounds
	memo map[int][]string
}

func (f *fillSets) upTo(n int) []string {
	if f.memo == nil {
		f.memo = map[int][]string{}
	}

	if _, ok := f.memo[n]; !ok {
		f.memo[n] = enum.AllStrings(alphabet, 0, n)
	}

	return f.memo[n]
}

// forSlot: every fill a slot gets on a request kind of the given rank.
func (f *fillSets) forSlot(s slot, rank int) []string {
	switch {
	case rank == 0 && s.core:
		return f.upTo(f.b.top)
	case rank == 1 && s.core:
		return f.upTo(f.b.core)
	case rank <= 1:
		return f.upTo(f.b.rest)
	}

	return f.upTo(f.b.minor)
}

func enumerate(b bounds) []Case {
	var out []Case

	fs := &fillSets{b: b}

	// 1. Documented filters: every kind that takes a filter; as a single filter
	//    and (transactions) as a pair of filters.
	docs := documentedFilters()

	for _, k := range allKinds {
		if !takesFilter(k) {
			continue
		}

		for _, f := range docs {
			c := base(k, "filter-documented")
			c.Filters = []string{f}
			out = append(out, c)
		}

		if family(k) == "tx" {
			for i := 0; i+1 < len(docs); i += 7 {
				c := base(k, "filter-documented")
				c.Filters = []string{docs[i], docs[(i*3+1)%len(docs)]}
				out = append(out, c)
			}
		}
	}

	// 2. Deviating filters. The translation of a filter is shared by all
	//    kinds; one read, one row write and one transaction write go deepest.
	filterPrimary := []string{kRead, kDelete, kTxUpdate}
	filterSlots := []slot{
		{box, true},
		{"EQ(id," + box + ")", true},
		{"EQ(name," + box + ")", true},
		{"EQ(name,'" + box + "')", true},
		{"EQ(name,\"" + box + "\")", true},
		{"EQ(id,1)" + box, true},
		{"EQ(" + box + ",1)", false},
		{box + "EQ(id,1)", false},
		{"AND(EQ(id,1)," + box + ")", false},
		{"OR(EQ(id,9)," + box + ")", false},
		{"NOT(" + box + ")", false},
		{"HAS(name," + box + ")", false},
		{"EQ(id,1" + box, false},
	}

	for _, k := range allKinds {
		if !takesFilter(k) {
			continue
		}

		for _, sk := range filterSlots {
			for _, f := range fs.forSlot(sk, rank(filterPrimary, k)) {
				c := base(k, "filter")
				c.Filters = []string{strings.Replace(sk.text, box, f, 1)}
				out = append(out, c)
			}
		}
	}

	for n := b.top + 1; n <= b.deep; n++ {
		for _, f := range enum.AllStrings(alphabet, n, n) {
			c := base(kRead, "filter")
			c.Filters = []string{"EQ(name," + f + ")"}
			out = append(out, c)
		}
	}

	// 3. Two filters (transaction tasks take an array): a deviation split
	//    over two filters, so that each half looks harmless on its own.
	for _, k := range []string{kTxSelect, kTxDelete} {
		for _, f1 := range enum.AllStrings(alphabet, 1, 1) {
			for _, f2 := range fs.upTo(b.minor) {
				c := base(k, "filter-pair")
				c.Filters = []string{"EQ(name,'x" + f1 + ")", "EQ(name," + f2 + "')"}
				out = append(out, c)

				c = base(k, "filter-pair")
				c.Filters = []string{"EQ(id,1)" + f1, f2 + "EQ(id,1)"}
				out = append(out, c)
			}
		}
	}

	// 4. Sort.
	for _, k := range []string{kRead, kReadAbs} {
		for _, doc := range [][]string{{"id"}, {"~id"}, {"name"}, {"id,name"}, {"id", "name"}, {"~name,id"}, {""}} {
			c := base(k, "sort-documented")
			c.Sort = doc
			out = append(out, c)
		}

		for _, sk := range []slot{{box, true}, {"id" + box, true}, {"~" + box, false}} {
			for _, f := range fs.forSlot(sk, rank([]string{kRead, kReadAbs}, k)) {
				c := base(k, "sort")
				c.Sort = []string{strings.Replace(sk.text, box, f, 1)}
				out = append(out, c)
			}
		}
	}

	// 5. Columns.
	columnsPrimary := []string{kRead, kReadAbs, kTxSelect}

	for _, k := range []string{kRead, kReadAbs, kUpdate, kTxSelect, kTxUpdate} {
		for _, doc := range [][]string{{"id"}, {"name"}, {"id,name"}, {"name", "id"}, {"score,id,name"}, {""}} {
			c := base(k, "columns-documented")
			c.Columns = doc

			if family(k) == "tx" {
				c.Columns = strings.Split(strings.Join(doc, ","), ",")
				if doc[0] == "" {
					continue
				}
			}

			out = append(out, c)
		}

		for _, sk := range []slot{{box, true}, {"count(" + box, true}, {"name" + box, false}, {"name," + box, false}} {
			for _, f := range fs.forSlot(sk, rank(columnsPrimary, k)) {
				c := base(k, "columns")
				c.Columns = []string{strings.Replace(sk.text, box, f, 1)}
				out = append(out, c)
			}
		}
	}

	// 6. Paging (the router validates these before any handler runs).
	for _, k := range []string{kRead, kReadAbs} {
		for _, doc := range [][2]string{{"1", "2"}, {"2", "1"}, {"3", "5"}, {"1", "1000"}, {"4", "1"}} {
			c := base(k, "paging-documented")
			c.Start, c.Limit = ptr(doc[0]), ptr(doc[1])
			c.Sort = []string{"id"}
			out = append(out, c)
		}

		for _, f := range fs.upTo(b.rest) {
			for _, sk := range []string{box, "1" + box} {
				v := strings.Replace(sk, box, f, 1)

				c := base(k, "start")
				c.Start = ptr(v)
				out = append(out, c)

				c = base(k, "limit")
				c.Limit = ptr(v)
				out = append(out, c)
			}
		}
	}

	// 7. Table name.
	tablePrimary := []string{kRead, kReadAbs, kTxUpdate, kInsert}

	for _, k := range allKinds {
		for _, sk := range []slot{{"t1" + box, true}, {box, true}, {box + "t1", false}, {"zsecret" + box, false}} {
			for _, f := range fs.forSlot(sk, rank(tablePrimary, k)) {
				name := strings.Replace(sk.text, box, f, 1)
				if name == "" || strings.Contains(name, "/") {
					continue
				}

				c := base(k, "table")
				c.Table = name
				out = append(out, c)
			}
		}
	}

	// 7b. Quoted table names. Row delete and the transaction delete task build
	//     their statement without looking the table up first; they go deepest.
	quotedPrimary := []string{kDelete, kTxDelete, kTxUpdate}

	for _, k := range allKinds {
		n := b.qrest
		if rank(quotedPrimary, k) <= 1 {
			n = b.qtop
		}

		for _, name := range quotedTableNames(n) {
			c := base(k, "table-quoted")
			c.Table = name
			out = append(out, c)
		}
	}

	// 8. Payload keys and values.
	payloadPrimary := []string{kInsert, kUpdateAbs, kTxUpdate}

	for _, k := range allKinds {
		if !isUpdate(k) && !isInsert(k) {
			continue
		}

		primary := rank(payloadPrimary, k)

		for _, sk := range []slot{{box, true}, {"name" + box, false}} {
			for _, f := range fs.forSlot(sk, primary) {
				c := base(k, "payload-key")
				c.Data = map[string]any{strings.Replace(sk.text, box, f, 1): "zz"}

				if isInsert(k) {
					c.Data["id"] = 9
				}

				out = append(out, c)
			}
		}

		for _, f := range fs.forSlot(slot{core: true}, primary) {
			c := base(k, "payload-value")
			c.Data["name"] = "n" + f
			out = append(out, c)
		}

		for _, f := range fs.forSlot(slot{}, primary) {
			c := base(k, "payload-value")
			c.Data["id"] = f
			out = append(out, c)
		}
	}

	// 9. The upsert key list of a row insert, and the value matched with it.
	for _, f := range fs.upTo(b.rest) {
		c := base(kInsert, "upsert")
		c.Upsert = ptr("name")
		c.Data["name"] = "a" + f
		out = append(out, c)

		c = base(kInsert, "upsert")
		c.Upsert = ptr("name" + f)
		c.Data["name"] = "a"
		out = append(out, c)
	}

	return out
}

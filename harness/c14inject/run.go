package main

import (
	"bytes"
	"encoding/json"
	"fmt"
	"sort"
	"strconv"
	"strings"
	"time"

	"github.com/tucats/ego/internal/verifrt/tblsrv"
	vsql "github.com/tucats/ego/internal/verifrt/vsql"
)

// finding is one violated clause of the property for one case.
type finding struct {
	Cell string `json:"cell"`
	Msg  string `json:"msg"`
}

// outcome is everything observed while one case ran.
type outcome struct {
	Status     int       `json:"status"`
	Statements []string  `json:"statements"` // texts that reached the driver (housekeeping left out)
	Body       string    `json:"body,omitempty"`
	Findings   []finding `json:"findings,omitempty"`
	Reached    bool      `json:"reached"` // a statement built from the request reached the driver
	Rejected   bool      `json:"rejected"`
}

type world struct {
	fx  *fixture
	srv *tblsrv.Server
	ev  []vsql.VerifEvent
}

const dsnName = "d"

var prof = map[string]time.Duration{}

func newWorld(dir string) (*world, error) {
	fx, err := newFixture(dir)
	if err != nil {
		return nil, err
	}

	srv, err := tblsrv.New()
	if err != nil {
		return nil, err
	}

	if err := srv.AddSQLiteDSN(dsnName, fx.dsnDatabase(), true); err != nil {
		return nil, err
	}

	w := &world{fx: fx, srv: srv}

	vsql.VerifSetHook(func(ev vsql.VerifEvent) { w.ev = append(w.ev, ev) })

	return w, nil
}

func setOf(m map[string]bool) string {
	ids := make([]string, 0, len(m))
	for k := range m {
		ids = append(ids, k)
	}

	sort.Strings(ids)

	return strings.Join(ids, ",")
}

func size(set string) int {
	if set == "" {
		return 0
	}

	return strings.Count(set, ",") + 1
}

// run executes one case against a pristine database and judges it.
func (w *world) run(c Case) (out outcome, err error) {
	if w.fx.dirty {
		t := time.Now()

		if err := w.fx.restoreRows(); err != nil {
			return out, err
		}

		prof["restore"] += time.Since(t)
	}

	w.srv.Fresh()
	w.ev = w.ev[:0]

	method, target, body := c.request(dsnName)

	t0 := time.Now()
	status, respBody, _ := w.srv.Do(method, target, body, nil)
	t1 := time.Now()
	vsql.VerifCloseAll()
	t2 := time.Now()
	prof["do"] += t1.Sub(t0)
	prof["close"] += t2.Sub(t1)
	defer func() { prof["judge+dump"] += time.Since(t2) }()

	out.Status = status
	out.Rejected = status >= 400
	out.Body = clip(string(respBody), 600)

	// Filters, sort lists, column lists and paging are turned into SQL by the
	// shared parsing package whatever the request kind; the table name and the
	// payload are handled by each family of handlers on its own.
	fam := family(c.Kind)

	switch strings.SplitN(c.Param, "-", 2)[0] {
	case "filter", "sort", "columns", "start", "limit", "paging":
		fam = "parsing"
	}

	// One more split keeps two different root causes apart: a column
	// specification that starts with "count(" is passed through on purpose, a
	// column name is not; a filter that is an operator form is translated, a
	// filter that starts with anything else is not.
	param := c.Param

	switch c.Param {
	case "columns":
		if len(c.Columns) > 0 && strings.HasPrefix(strings.ToLower(c.Columns[0]), "count(") {
			param = "columns-count"
		}
	case "filter":
		if p := (&parser{s: c.Filters[0]}); arityOf(p.word()) && p.lit('(') {
			param = "filter-operator-form" + quoteShape(c.Filters)
		}
	case "filter-documented", "filter-pair":
		param += quoteShape(c.Filters)
	}

	cell := func(shape string) string { return fam + ":" + param + ":" + shape }
	seen := map[string]bool{}
	add := func(shape, msg string) {
		if !seen[shape] {
			seen[shape] = true
			out.Findings = append(out.Findings, finding{Cell: cell(shape), Msg: msg})
		}
	}

	// ---- sentence 1: the statements that reached the driver -------------------
	addressed := w.fx.addressed(c.Table)

	for _, ev := range w.ev {
		switch ev.Kind {
		case "exec", "query", "prepare", "stmt-exec", "stmt-query":
		default:
			continue
		}

		if housekeeping[ev.SQL] {
			continue
		}

		out.Statements = append(out.Statements, ev.SQL)
		out.Reached = true

		// The driver runs the statements of a text one after the other and
		// stops at the first one SQLite refuses to compile.
		pieces := splitStatements(ev.SQL)

		for n, piece := range pieces {
			row := false

			switch firstWord(piece) {
			case "SELECT", "INSERT", "UPDATE", "DELETE", "WITH", "REPLACE", "VALUES":
				row = true
			}

			v := w.fx.judgeStatement(piece, len(ev.Args))
			if !v.Compiles && len(ev.Args) > 0 && n > 0 {
				v = w.fx.judgeStatement(piece, 0)
			}

			if !v.Compiles {
				break // nothing of this piece, or of what follows it, is executed
			}

			if n > 0 {
				// Whatever the further statement does, it is the same defect.
				add("multi-statement", fmt.Sprintf("statement %d of one text is executed too (it opens %s): %q", n+1, strings.Join(v.Tables, ","), ev.SQL))

				continue
			}

			if !row || len(v.Bad) > 0 {
				add("non-row-statement", fmt.Sprintf("a statement that does more than read or change rows is executed (%s %s): %q", firstWord(piece), strings.Join(v.Bad, ","), ev.SQL))
			}

			var foreign []string

			for _, t := range v.Tables {
				if t != addressed || addressed == "" {
					foreign = append(foreign, t)
				}
			}

			if len(foreign) > 0 {
				shape := "touches-other-table"
				if lead := w.fx.leadingTable(c.Table); addressed == "" && len(foreign) == 1 && foreign[0] == lead {
					// "t1--", "t1 x": no table has that name, the statement
					// goes to the table whose name the text begins with.
					shape = "table-name-read-as-sql"
				}

				add(shape, fmt.Sprintf("request addresses table %q but an executed statement opens %s: %q", c.Table, strings.Join(foreign, ","), ev.SQL))
			}
		}
	}

	// ---- the database afterwards ----------------------------------------------
	// (PRAGMA data_version tells whether anybody committed anything at all.)
	untouched := w.fx.untouched()
	pristineOthers := w.fx.others
	others := pristineOthers

	if !untouched || len(extraFiles(w.fx.dir)) > 0 {
		var derr error

		others, derr = w.fx.dumpOthers()
		if derr != nil {
			w.fx.dirty = true

			return out, fmt.Errorf("cannot read the database after the case: %v", derr)
		}
	}

	if others != pristineOthers {
		w.fx.dirty = true

		if (addressed == "" || addressed == "t1") && !seen["multi-statement"] {
			add("other-table-or-schema-changed", "tables other than the addressed one, or the schema, differ after the request: "+firstDiff(pristineOthers, others))
		}
	}

	// Canary values of the other tables in the response.
	if addressed == "t1" || addressed == "" {
		if bytes.Contains(respBody, []byte(canaryText)) || bytes.Contains(respBody, []byte(fmt.Sprint(canaryInt))) {
			add("canary-in-response", "a value stored only in another table is in the response: "+clip(string(respBody), 300))
		}
	}

	// ---- sentence 2: which rows were read / changed ---------------------------
	after := map[string]row{}
	for _, r := range pristineRows {
		after[r.RowID] = r
	}

	if !untouched {
		var ok bool

		after, ok = w.fx.t1Rows()
		if !ok {
			w.fx.dirty = true

			return out, nil
		}
	}

	changed, deleted, inserted := map[string]bool{}, map[string]bool{}, map[string]bool{}

	for _, r := range pristineRows {
		a, still := after[r.RowID]

		switch {
		case !still:
			deleted[r.RowID] = true
		case a != r:
			changed[r.RowID] = true
		}
	}

	for id := range after {
		found := false

		for _, r := range pristineRows {
			if r.RowID == id {
				found = true
			}
		}

		if !found {
			inserted[id] = true
		}
	}

	if len(changed)+len(deleted)+len(inserted) > 0 {
		w.fx.dirty = true
	}

	if addressed != "t1" {
		// The request addresses another (or no) table: t1 is then one of the
		// tables that must not change.
		if len(changed)+len(deleted)+len(inserted) > 0 && addressed != "" {
			add("other-table-or-schema-changed", fmt.Sprintf("request addresses %q but t1 changed: changed=%s deleted=%s inserted=%d", c.Table, setOf(changed), setOf(deleted), len(inserted)))
		}

		return out, nil
	}

	if len(out.Findings) > 0 {
		// A statement that should never have run did: what it did to the rows
		// is the same defect, not another one.
		return out, nil
	}

	if out.Rejected {
		if len(changed)+len(deleted)+len(inserted) > 0 {
			add("rows:rejected-but-changed", fmt.Sprintf("status %d, yet rows changed: changed=%s deleted=%s inserted=%d", status, setOf(changed), setOf(deleted), len(inserted)))
		}

		return out, nil
	}

	exp := expect(pristineRows, c.Filters)
	if len(c.Filters) == 0 {
		all, _ := selectRows(pristineRows, nil)
		exp = expectation{class: docYes, sets: []string{all}}
	}

	count, ids, haveIDs := readResponse(c.Kind, respBody)

	judgeSet := func(what, got string) {
		switch {
		case exp.class == docUnjudged:
		case exp.class == docYes && !exp.allows(got):
			add("rows:documented-filter-wrong-rows", fmt.Sprintf("filters %q: rows %s = {%s}, the documented meaning selects {%s}", c.Filters, what, got, exp.sets[0]))
		case exp.class == docNo && !exp.allows(got):
			add("rows:undocumented-filter-selects-rows", fmt.Sprintf("filters %q are not of the documented grammar, the request was accepted (status %d) and rows %s = {%s}", c.Filters, status, what, got))
		}
	}

	switch {
	case c.Kind == kRead || c.Kind == kReadAbs:
		if len(changed)+len(deleted)+len(inserted) > 0 {
			add("rows:read-changed-rows", fmt.Sprintf("a read changed t1: changed=%s deleted=%s inserted=%d", setOf(changed), setOf(deleted), len(inserted)))
		}

		if c.Param == "paging-documented" {
			// "start: first row of the result set (1-based)", "limit: at most this many rows".
			st, _ := strconv.Atoi(*c.Start)
			lim, _ := strconv.Atoi(*c.Limit)

			if want := max(0, min(lim, len(pristineRows)-(st-1))); count != want {
				add("rows:paging-wrong-count", fmt.Sprintf("start=%d limit=%d over %d rows: %d rows read, %d expected", st, lim, len(pristineRows), count, want))
			}

			break
		}

		if c.Start != nil || c.Limit != nil || c.Param == "columns" {
			// Deviating paging values and column specifications are judged by
			// the statements they produce, not by a row set.
			break
		}

		if haveIDs {
			judgeSet("read", ids)
		} else if exp.class == docYes && count >= 0 && count != size(exp.sets[0]) {
			add("rows:documented-filter-wrong-rows", fmt.Sprintf("filters %q: %d rows read, the documented meaning selects {%s}", c.Filters, count, exp.sets[0]))
		}

		if c.Param == "columns-documented" && len(c.Columns) > 0 && c.Columns[0] != "" {
			if extra := extraColumns(c, respBody); extra != "" {
				add("columns:unnamed-column-returned", "response holds column "+extra+" which the request did not name")
			}
		}
	case c.Kind == kTxSelect:
		if len(changed)+len(deleted)+len(inserted) > 0 {
			add("rows:read-changed-rows", fmt.Sprintf("a select task changed t1: changed=%s deleted=%s inserted=%d", setOf(changed), setOf(deleted), len(inserted)))
		}

		// A select task reads at most one row and reports only a count.
		if count >= 0 && exp.class != docUnjudged {
			okCount := false

			for _, s := range exp.sets {
				if count == min(1, size(s)) {
					okCount = true
				}
			}

			if !okCount {
				shape := "rows:documented-filter-wrong-rows"
				if exp.class == docNo {
					shape = "rows:undocumented-filter-selects-rows"
				}

				add(shape, fmt.Sprintf("filters %q: select task read %d row(s); allowed row sets %q", c.Filters, count, exp.sets))
			}
		}
	case isDelete(c.Kind):
		if len(changed)+len(inserted) > 0 {
			add("rows:collateral-change", fmt.Sprintf("a delete changed or inserted rows: changed=%s inserted=%d", setOf(changed), len(inserted)))
		}

		judgeSet("deleted", setOf(deleted))
	case isUpdate(c.Kind):
		if len(deleted)+len(inserted) > 0 {
			add("rows:collateral-change", fmt.Sprintf("an update deleted or inserted rows: deleted=%s inserted=%d", setOf(deleted), len(inserted)))
		}

		got := setOf(changed)

		// An update that assigns nothing new changes nothing; the reported
		// count then speaks for the rows it addressed.
		if !exp.allows(got) && exp.class != docUnjudged && count >= 0 && subsetOfSome(changed, exp.sets, count) {
			break
		}

		judgeSet("updated", got)
	case isInsert(c.Kind):
		if len(deleted) > 0 {
			add("rows:collateral-change", fmt.Sprintf("an insert deleted rows: %s", setOf(deleted)))
		}

		if len(changed) > 0 {
			legit := false

			if c.Upsert != nil {
				// upsert: rows whose key equals the payload's may be updated;
				// only the plain "name" key is judged.
				if *c.Upsert != "name" {
					legit = true
				} else if name, isStr := c.Data["name"].(string); isStr {
					match := map[string]bool{}

					for _, r := range pristineRows {
						if r.Name == name {
							match[r.RowID] = true
						}
					}

					legit = setOf(match) == setOf(changed)
				}
			}

			if !legit {
				add("rows:insert-changed-existing-rows", fmt.Sprintf("an insert changed existing rows %s (payload %v, upsert %v)", setOf(changed), c.Data, deref(c.Upsert)))
			}
		}
	}

	return out, nil
}

// quoteShape classifies the string operands of the documented clauses of the
// filters: a quote character inside a string value, a quote character at its
// first or last position, or neither.
func quoteShape(filters []string) string {
	shape := ""

	var walk func(n *node)

	walk = func(n *node) {
		if n.kind == kStr && len(n.text) > 0 {
			if len(n.text) > 2 && strings.ContainsAny(n.text[1:len(n.text)-1], `'"`) {
				shape = "/inner-quote"
			} else if shape == "" && (strings.ContainsAny(n.text[:1], `'"`) || strings.ContainsAny(n.text[len(n.text)-1:], `'"`)) {
				shape = "/edge-quote"
			}
		}

		for _, a := range n.args {
			walk(a)
		}
	}

	for _, f := range filters {
		for _, c := range parseFilter(f).clauses {
			walk(c)
		}
	}

	return shape
}

func deref(s *string) string {
	if s == nil {
		return "<none>"
	}

	return *s
}

func subsetOfSome(changed map[string]bool, sets []string, count int) bool {
	for _, s := range sets {
		if size(s) != count {
			continue
		}

		in := map[string]bool{}
		for _, id := range strings.Split(s, ",") {
			in[id] = true
		}

		all := true

		for id := range changed {
			if !in[id] {
				all = false
			}
		}

		if all {
			return true
		}
	}

	return false
}

func clip(s string, n int) string {
	s = strings.Join(strings.Fields(s), " ")
	if len(s) > n {
		return s[:n] + "…"
	}

	return s
}

func firstDiff(a, b string) string {
	la, lb := strings.Split(a, "\n"), strings.Split(b, "\n")

	for i := 0; i < len(la) || i < len(lb); i++ {
		x, y := "", ""
		if i < len(la) {
			x = la[i]
		}

		if i < len(lb) {
			y = lb[i]
		}

		if x != y {
			return fmt.Sprintf("was %q, is %q", clip(x, 120), clip(y, 120))
		}
	}

	return "?"
}

// readResponse extracts the count and, where the response holds rows with
// their row ids, the set of row ids read.
func readResponse(kind string, body []byte) (count int, ids string, haveIDs bool) {
	count = -1

	switch kind {
	case kRead:
		var rs struct {
			Rows  []map[string]any `json:"rows"`
			Count *int             `json:"count"`
		}

		if json.Unmarshal(body, &rs) != nil || rs.Count == nil {
			return -1, "", false
		}

		count = len(rs.Rows)
		set := map[string]bool{}
		haveIDs = true

		for _, r := range rs.Rows {
			id, ok := r["_row_id_"].(string)
			if !ok {
				haveIDs = false

				break
			}

			set[id] = true
		}

		if len(set) != len(rs.Rows) {
			haveIDs = false
		}

		return count, setOf(set), haveIDs
	case kReadAbs:
		var rs struct {
			Columns []struct {
				Name string `json:"name"`
			} `json:"columns"`
			Rows  [][]any `json:"rows"`
			Count *int    `json:"count"`
		}

		if json.Unmarshal(body, &rs) != nil || rs.Count == nil {
			return -1, "", false
		}

		count = len(rs.Rows)
		idx := -1

		for i, c := range rs.Columns {
			if c.Name == "_row_id_" {
				idx = i
			}
		}

		if idx < 0 {
			return count, "", false
		}

		set := map[string]bool{}

		for _, r := range rs.Rows {
			if idx >= len(r) {
				return count, "", false
			}

			id, ok := r[idx].(string)
			if !ok {
				return count, "", false
			}

			set[id] = true
		}

		if len(set) != len(rs.Rows) {
			return count, "", false
		}

		return count, setOf(set), true
	default:
		var rc struct {
			Count *int `json:"count"`
		}

		if json.Unmarshal(body, &rc) == nil && rc.Count != nil {
			count = *rc.Count
		}

		return count, "", false
	}
}

// extraColumns names a column present in a read response although the
// (documented) columns parameter did not list it; "" if none. The row id is
// always allowed: the API documents that it accompanies every row.
func extraColumns(c Case, body []byte) string {
	named := map[string]bool{"_row_id_": true}

	for _, v := range c.Columns {
		for _, n := range strings.Split(v, ",") {
			named[strings.TrimSpace(n)] = true
		}
	}

	switch c.Kind {
	case kRead:
		var rs struct {
			Rows []map[string]any `json:"rows"`
		}

		if json.Unmarshal(body, &rs) != nil {
			return ""
		}

		for _, r := range rs.Rows {
			for k := range r {
				if !named[k] {
					return k
				}
			}
		}
	case kReadAbs:
		var rs struct {
			Columns []struct {
				Name string `json:"name"`
			} `json:"columns"`
		}

		if json.Unmarshal(body, &rs) != nil {
			return ""
		}

		for _, col := range rs.Columns {
			if !named[col.Name] {
				return col.Name
			}
		}
	}

	return ""
}

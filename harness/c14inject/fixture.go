package main

import (
	gosql "database/sql"
	"fmt"
	"io"
	"os"
	"path/filepath"
	"sort"
	"strings"

	_ "modernc.org/sqlite"
)

// The database every case starts from. t1 is the table the requests address;
// zsecret and zother are the tables no table request for t1 may touch. Their
// values (canaries) are strings and numbers no request ever contains.
const (
	canaryText = "CANARY7391"
	canaryInt  = 73910017
)

var fixtureSQL = []string{
	`PRAGMA journal_mode=WAL`,
	`CREATE TABLE t1 (id INTEGER, name TEXT, score REAL, _row_id_ TEXT UNIQUE)`,
	`INSERT INTO t1 VALUES (1,'a',1.5,'r1'),(2,'b',2.5,'r2'),(3,'ab',0.5,'r3')`,
	`CREATE TABLE zsecret (skey TEXT, sval TEXT, n INTEGER, m INTEGER)`,
	`INSERT INTO zsecret VALUES ('k1','` + canaryText + `',1,2),('k2','` + canaryText + `x',3,4)`,
	`CREATE TABLE zother (id INTEGER, name TEXT, score REAL, _row_id_ TEXT UNIQUE)`,
	fmt.Sprintf(`INSERT INTO zother VALUES (%d,'%s',0.25,'q1')`, canaryInt, canaryText),
}

// row is one row of t1 as the reference model sees it.
type row struct {
	RowID string
	ID    int64
	Name  string
	Score float64
}

var pristineRows = []row{{"r1", 1, "a", 1.5}, {"r2", 2, "b", 2.5}, {"r3", 3, "ab", 0.5}}

// fixture owns the files of one worker: the pristine template, the database
// the server works on, a never-modified copy used to EXPLAIN statements, and a
// plain (uncaptured) connection used to look at the result of a case.
type fixture struct {
	dir      string
	template string
	work     string
	check    *gosql.DB
	judge    *gosql.DB
	pristine string            // dump of the pristine database
	roots    map[int64]string  // root page -> table the b-tree belongs to
	tables   map[string]string // lower-case table name -> table name
	dirty    bool
	restores int
	version  int64
	others   string // the pristine dump without t1

	fastRestores int
}

// restoreSQL empties the three tables and fills them again.
var restoreSQL = func() []string {
	out := []string{`DELETE FROM t1`, `DELETE FROM zsecret`, `DELETE FROM zother`}

	for _, q := range fixtureSQL {
		if strings.HasPrefix(q, "INSERT") {
			out = append(out, q)
		}
	}

	return out
}()

func newFixture(dir string) (*fixture, error) {
	f := &fixture{dir: dir, template: filepath.Join(dir, "template.db"), work: filepath.Join(dir, "work.db")}

	_ = os.MkdirAll(dir, 0o755)
	rmDB(f.template)

	db, err := gosql.Open("sqlite", f.template)
	if err != nil {
		return nil, err
	}

	for _, q := range fixtureSQL {
		if _, err := db.Exec(q); err != nil {
			return nil, fmt.Errorf("fixture %q: %v", q, err)
		}
	}

	if err := db.Close(); err != nil {
		return nil, err
	}

	// The judge database: same schema, same root pages, opened read-only.
	jp := filepath.Join(dir, "judge.db")
	rmDB(jp)

	if err := copyFile(f.template, jp); err != nil {
		return nil, err
	}

	f.judge, err = gosql.Open("sqlite", "file:"+jp+"?mode=ro&_pragma=query_only(1)")
	if err != nil {
		return nil, err
	}

	f.judge.SetMaxOpenConns(1)

	f.roots = map[int64]string{1: "sqlite_master"}
	f.tables = map[string]string{}

	rows, err := f.judge.Query(`SELECT type, name, tbl_name, rootpage FROM sqlite_master`)
	if err != nil {
		return nil, err
	}

	for rows.Next() {
		var (
			typ, name, tbl string
			root           int64
		)

		if err := rows.Scan(&typ, &name, &tbl, &root); err != nil {
			return nil, err
		}

		if root > 0 {
			f.roots[root] = tbl
		}

		if typ == "table" {
			f.tables[strings.ToLower(name)] = name
		}
	}

	rows.Close()

	if err := f.restore(); err != nil {
		return nil, err
	}

	f.pristine, err = f.dump()
	if err != nil {
		return nil, err
	}

	f.others = f.pristine[:strings.Index(f.pristine, "\n#t1\n")]

	return f, nil
}

func rmDB(p string) {
	_ = os.Remove(p)
	_ = os.Remove(p + "-wal")
	_ = os.Remove(p + "-shm")
	_ = os.Remove(p + "-journal")
}

func copyFile(src, dst string) error {
	in, err := os.Open(src)
	if err != nil {
		return err
	}

	defer in.Close()

	out, err := os.Create(dst)
	if err != nil {
		return err
	}

	if _, err := io.Copy(out, in); err != nil {
		out.Close()

		return err
	}

	return out.Close()
}

// restore puts the pristine database in place of the working one.
func (f *fixture) restore() error {
	if f.check != nil {
		_ = f.check.Close()
		f.check = nil
	}

	rmDB(f.work)

	for _, n := range extraFiles(f.dir) {
		_ = os.RemoveAll(filepath.Join(f.dir, n))
	}

	if err := copyFile(f.template, f.work); err != nil {
		return err
	}

	db, err := gosql.Open("sqlite", f.work)
	if err != nil {
		return err
	}

	db.SetMaxOpenConns(1)
	f.check = db
	f.dirty = false
	f.restores++
	f.version = f.dataVersion()

	return nil
}

// restoreRows puts the pristine rows back through the checking connection
// (opening and closing SQLite connections is by far the most expensive thing a
// case does); when that does not give the pristine database back -- the schema
// was changed -- the file itself is replaced.
func (f *fixture) restoreRows() error {
	ok := false

	if tx, err := f.check.Begin(); err == nil {
		ok = true

		for _, q := range restoreSQL {
			if _, err := tx.Exec(q); err != nil {
				ok = false

				break
			}
		}

		if ok {
			ok = tx.Commit() == nil
		} else {
			_ = tx.Rollback()
		}
	}

	if ok {
		if d, err := f.dump(); err == nil && d == f.pristine {
			f.dirty = false
			f.version = f.dataVersion()
			f.fastRestores++

			return nil
		}
	}

	return f.restore()
}

// dataVersion is SQLite's "PRAGMA data_version" as seen by the checking
// connection: it changes exactly when another connection commits a change to
// the database file.
func (f *fixture) dataVersion() int64 {
	var v int64

	if err := f.check.QueryRow(`PRAGMA data_version`).Scan(&v); err != nil {
		return -1
	}

	return v
}

// untouched reports that no other connection committed anything since the
// last restore or check.
func (f *fixture) untouched() bool {
	v := f.dataVersion()
	same := v >= 0 && v == f.version
	f.version = v

	return same
}

// dsnDatabase is the "database" field of the DSN: the working file, with
// fsync switched off (a DSN option, not a change to the server).
func (f *fixture) dsnDatabase() string {
	return "file:" + f.work + "?_pragma=synchronous(off)"
}

// dump renders the schema and every row of every table, t1 last and separately
// marked, in a canonical order.
func (f *fixture) dump() (string, error) {
	other, err := f.dumpOthers()
	if err != nil {
		return "", err
	}

	t1, err := f.dumpTable("t1")

	return other + "\n#t1\n" + t1, err
}

func (f *fixture) dumpOthers() (string, error) {
	var sb strings.Builder

	rows, err := f.check.Query(`SELECT type, name, tbl_name, rootpage, coalesce(sql,'') FROM sqlite_master ORDER BY name`)
	if err != nil {
		return "", err
	}

	var names []string

	for rows.Next() {
		var (
			typ, name, tbl, sql string
			root                int64
		)

		if err := rows.Scan(&typ, &name, &tbl, &root, &sql); err != nil {
			rows.Close()

			return "", err
		}

		fmt.Fprintf(&sb, "schema %s %s %s %d %s\n", typ, name, tbl, root, sql)

		if typ == "table" && name != "t1" {
			names = append(names, name)
		}
	}

	rows.Close()
	sort.Strings(names)

	for _, n := range names {
		d, err := f.dumpTable(n)
		if err != nil {
			return "", err
		}

		sb.WriteString("#" + n + "\n" + d)
	}

	// Databases attached or files created next to the working file.
	for _, n := range extraFiles(f.dir) {
		fmt.Fprintf(&sb, "file %s\n", n)
	}

	return sb.String(), nil
}

func extraFiles(dir string) []string {
	var out []string

	ents, _ := os.ReadDir(dir)
	for _, e := range ents {
		switch e.Name() {
		case "template.db", "judge.db", "judge.db-wal", "judge.db-shm", "work.db", "work.db-wal", "work.db-shm", "work.db-journal":
		default:
			out = append(out, e.Name())
		}
	}

	return out
}

func (f *fixture) dumpTable(name string) (string, error) {
	var sb strings.Builder

	rows, err := f.check.Query(`SELECT * FROM "` + strings.ReplaceAll(name, `"`, `""`) + `" ORDER BY rowid`)
	if err != nil {
		return "", err
	}

	defer rows.Close()

	cols, _ := rows.Columns()

	for rows.Next() {
		vals := make([]any, len(cols))
		ptrs := make([]any, len(cols))

		for i := range vals {
			ptrs[i] = &vals[i]
		}

		if err := rows.Scan(ptrs...); err != nil {
			return "", err
		}

		for i, v := range vals {
			fmt.Fprintf(&sb, "%s=%T:%v|", cols[i], v, v)
		}

		sb.WriteString("\n")
	}

	return sb.String(), rows.Err()
}

// t1Rows reads t1 as model rows; ok is false when t1 no longer has the shape
// the model knows (which is reported as a schema change elsewhere).
func (f *fixture) t1Rows() (map[string]row, bool) {
	out := map[string]row{}

	rows, err := f.check.Query(`SELECT _row_id_, id, name, score FROM t1`)
	if err != nil {
		return nil, false
	}

	defer rows.Close()

	n := 0

	for rows.Next() {
		var (
			rid, id, name, score any
		)

		if err := rows.Scan(&rid, &id, &name, &score); err != nil {
			return nil, false
		}

		n++
		r := row{RowID: fmt.Sprint(rid)}

		if v, ok := id.(int64); ok {
			r.ID = v
		} else {
			r.ID = -999
		}

		r.Name = fmt.Sprintf("%T:%v", name, name)
		if s, ok := name.(string); ok {
			r.Name = s
		}

		if v, ok := score.(float64); ok {
			r.Score = v
		} else {
			r.Score = -999
		}

		if _, dup := out[r.RowID]; dup {
			r.RowID = fmt.Sprintf("%s#%d", r.RowID, n)
		}

		out[r.RowID] = r
	}

	return out, rows.Err() == nil
}

package main

import (
	"sort"
	"strconv"
	"strings"
)

// Reference reading of the filter grammar of docs/API.md (#readrows):
//
//	filter  := OP "(" operand { "," operand } ")"
//	operand := filter | column | number | 'string' | "string"
//	OP      := EQ LT LE GT GE (two operands) | NOT (one) | AND OR (two or more)
//	           | HAS HASALL (a string operand, then one or more substrings)
//
// Nothing else is read: no nil, no CONTAINS, no signs glued to names, no
// escapes inside strings. Operator names are matched without regard to case
// and white space between tokens is ignored (both only make more filters
// "documented"; a rejected request is always acceptable).

type nodeKind int

const (
	kExpr nodeKind = iota
	kCol
	kNum
	kStr
	kIdent // a bare word that is no column of t1
)

type node struct {
	kind nodeKind
	op   string
	args []*node
	text string
	num  float64
}

// judgement of how much the documentation says about a filter.
type docClass int

const (
	docYes      docClass = iota // documented, well typed: the rows are determined
	docUnjudged                 // grammatical, but the documentation does not determine the rows (type mix, column vs column, bare words …)
	docNo                       // not a filter of the documented grammar
)

type parser struct {
	s   string
	pos int
}

func (p *parser) ws() {
	for p.pos < len(p.s) && (p.s[p.pos] == ' ' || p.s[p.pos] == '\t') {
		p.pos++
	}
}

func isLetter(c byte) bool { return c == '_' || c >= 'a' && c <= 'z' || c >= 'A' && c <= 'Z' }
func isDigit(c byte) bool  { return c >= '0' && c <= '9' }

func (p *parser) word() string {
	p.ws()

	i := p.pos
	if i < len(p.s) && isLetter(p.s[i]) {
		j := i + 1
		for j < len(p.s) && (isLetter(p.s[j]) || isDigit(p.s[j])) {
			j++
		}

		p.pos = j

		return p.s[i:j]
	}

	return ""
}

func (p *parser) lit(c byte) bool {
	p.ws()

	if p.pos < len(p.s) && p.s[p.pos] == c {
		p.pos++

		return true
	}

	return false
}

var arity = map[string][2]int{
	"EQ": {2, 2}, "LT": {2, 2}, "LE": {2, 2}, "GT": {2, 2}, "GE": {2, 2},
	"NOT": {1, 1}, "AND": {2, 99}, "OR": {2, 99}, "HAS": {2, 99}, "HASALL": {2, 99},
}

func arityOf(word string) bool {
	_, ok := arity[strings.ToUpper(word)]

	return ok
}

var t1Columns = map[string]bool{"id": true, "name": true, "score": true, "_row_id_": true}

// operand parses one operand; nil when the text at pos is none.
func (p *parser) operand() *node {
	p.ws()

	if p.pos >= len(p.s) {
		return nil
	}

	c := p.s[p.pos]

	switch {
	case c == '\'' || c == '"':
		// A string ends at the next quote of the kind that opened it (no
		// escapes are documented); the other kind of quote is just a character.
		j := p.pos + 1
		for j < len(p.s) && p.s[j] != c {
			j++
		}

		if j >= len(p.s) {
			return nil
		}

		n := &node{kind: kStr, text: p.s[p.pos+1 : j]}
		p.pos = j + 1

		return n
	case isDigit(c):
		j := p.pos
		for j < len(p.s) && isDigit(p.s[j]) {
			j++
		}

		if j+1 < len(p.s) && p.s[j] == '.' && isDigit(p.s[j+1]) {
			j++
			for j < len(p.s) && isDigit(p.s[j]) {
				j++
			}
		}

		// "1x", "1.": not a number of the documented spelling.
		if j < len(p.s) && (isLetter(p.s[j]) || p.s[j] == '.') {
			return nil
		}

		v, err := strconv.ParseFloat(p.s[p.pos:j], 64)
		if err != nil {
			return nil
		}

		n := &node{kind: kNum, num: v, text: p.s[p.pos:j]}
		p.pos = j

		return n
	case isLetter(c):
		save := p.pos
		w := p.word()

		if _, isOp := arity[strings.ToUpper(w)]; isOp {
			p.ws()

			if p.pos < len(p.s) && p.s[p.pos] == '(' {
				p.pos = save

				return p.expr()
			}
		}

		if t1Columns[w] {
			return &node{kind: kCol, text: w}
		}

		return &node{kind: kIdent, text: w}
	}

	return nil
}

// expr parses OP(operands); nil when the text at pos is none.
func (p *parser) expr() *node {
	save := p.pos
	op := strings.ToUpper(p.word())

	ar, ok := arity[op]
	if !ok || !p.lit('(') {
		p.pos = save

		return nil
	}

	n := &node{kind: kExpr, op: op}

	for {
		a := p.operand()
		if a == nil {
			p.pos = save

			return nil
		}

		n.args = append(n.args, a)

		if p.lit(',') {
			continue
		}

		break
	}

	if !p.lit(')') || len(n.args) < ar[0] || len(n.args) > ar[1] {
		p.pos = save

		return nil
	}

	return n
}

// parsed is the reference reading of one filter string.
type parsed struct {
	clauses []*node // complete clauses at the start of the text, separated by commas
	whole   bool    // the text is exactly one clause
}

func parseFilter(s string) parsed {
	p := &parser{s: s}

	var out parsed

	for {
		save := p.pos

		e := p.expr()
		if e == nil {
			p.pos = save

			break
		}

		out.clauses = append(out.clauses, e)

		save = p.pos
		if !p.lit(',') {
			p.pos = save

			break
		}
	}

	p.ws()
	out.whole = len(out.clauses) == 1 && p.pos == len(s)

	return out
}

type value struct {
	isNum bool
	num   float64
	str   string
}

// eval returns the truth of an expression for a row; ok is false when the
// documentation does not determine it.
func (n *node) eval(r row) (truth bool, ok bool) {
	if n.kind != kExpr {
		return false, false
	}

	switch n.op {
	case "AND", "OR":
		res := n.op == "AND"

		for _, a := range n.args {
			t, ok := a.eval(r)
			if !ok {
				return false, false
			}

			if n.op == "AND" {
				res = res && t
			} else {
				res = res || t
			}
		}

		return res, true
	case "NOT":
		t, ok := n.args[0].eval(r)

		return !t, ok
	case "HAS", "HASALL":
		subject, ok := n.args[0].value(r)
		if !ok || subject.isNum || n.args[0].kind != kCol {
			return false, false
		}

		res := n.op == "HASALL"

		for _, a := range n.args[1:] {
			if a.kind != kStr {
				return false, false
			}

			has := strings.Contains(subject.str, a.text)
			if n.op == "HASALL" {
				res = res && has
			} else {
				res = res || has
			}
		}

		return res, true
	}

	a, ok1 := n.args[0].value(r)
	b, ok2 := n.args[1].value(r)

	// "Column <op> value": a column on the left, a literal of the column's
	// kind on the right. Everything else is left unjudged.
	if !ok1 || !ok2 || a.isNum != b.isNum || n.args[0].kind != kCol || n.args[1].kind == kCol {
		return false, false
	}

	cmp := 0

	switch {
	case a.isNum && a.num < b.num, !a.isNum && a.str < b.str:
		cmp = -1
	case a.isNum && a.num > b.num, !a.isNum && a.str > b.str:
		cmp = 1
	}

	switch n.op {
	case "EQ":
		return cmp == 0, true
	case "LT":
		return cmp < 0, true
	case "LE":
		return cmp <= 0, true
	case "GT":
		return cmp > 0, true
	case "GE":
		return cmp >= 0, true
	}

	return false, false
}

func (n *node) value(r row) (value, bool) {
	switch n.kind {
	case kNum:
		return value{isNum: true, num: n.num}, true
	case kStr:
		if strings.ContainsAny(n.text, `\`) {
			return value{}, false
		}

		return value{str: n.text}, true
	case kCol:
		switch n.text {
		case "id":
			return value{isNum: true, num: float64(r.ID)}, true
		case "score":
			return value{isNum: true, num: r.Score}, true
		case "name":
			return value{str: r.Name}, true
		case "_row_id_":
			return value{str: r.RowID}, true
		}
	}

	return value{}, false
}

// expectation: which sets of rows (row ids, sorted, joined by ",") a request
// with these filters may read or change when it is not rejected. nil = the
// documentation does not decide (nothing is demanded).
type expectation struct {
	class docClass
	sets  []string
}

func selectRows(rows []row, clauses []*node) (string, bool) {
	var ids []string

	for _, r := range rows {
		all := true

		for _, c := range clauses {
			t, ok := c.eval(r)
			if !ok {
				return "", false
			}

			all = all && t
		}

		if all {
			ids = append(ids, r.RowID)
		}
	}

	sort.Strings(ids)

	return strings.Join(ids, ","), true
}

// expect combines the filters of a request (they are ANDed) into the row sets
// the documentation allows.
func expect(rows []row, filters []string) expectation {
	var (
		all      []*node
		allWhole = true
	)

	prefixes := [][]*node{}

	for _, f := range filters {
		if strings.TrimSpace(f) == "" {
			// an empty filter parameter: nothing documented about it
			return expectation{class: docUnjudged}
		}

		p := parseFilter(f)
		if !p.whole {
			allWhole = false
		}

		if allWhole {
			all = append(all, p.clauses...)
		}

		prefixes = append(prefixes, p.clauses)
	}

	if allWhole {
		set, ok := selectRows(rows, all)
		if !ok {
			return expectation{class: docUnjudged}
		}

		return expectation{class: docYes, sets: []string{set}}
	}

	// Not documented. Tolerated outcomes: no row at all, or the rows of a
	// reading that keeps, of every filter, some number of its leading
	// complete clauses (at least one of the first filter that has any).
	exp := expectation{class: docNo, sets: []string{""}}

	var combos func(i int, acc []*node, used bool)

	combos = func(i int, acc []*node, used bool) {
		if exp.class == docUnjudged {
			return
		}

		if i == len(prefixes) {
			if used {
				set, ok := selectRows(rows, acc)
				if !ok {
					exp.class = docUnjudged

					return
				}

				exp.sets = append(exp.sets, set)
			}

			return
		}

		for k := 0; k <= len(prefixes[i]); k++ {
			combos(i+1, append(append([]*node{}, acc...), prefixes[i][:k]...), used || k > 0)
		}
	}

	combos(0, nil, false)

	if exp.class == docUnjudged {
		return expectation{class: docUnjudged}
	}

	return exp
}

func (e expectation) allows(set string) bool {
	for _, s := range e.sets {
		if s == set {
			return true
		}
	}

	return false
}

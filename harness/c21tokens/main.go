// C21: a native bearer token is accepted iff it was issued by this server with
// the current key, unaltered, unexpired and not on the revocation list at the
// time of the request — for every history of issue / revoke / un-revoke / flush /
// cache purge / cache expiry / validation, and for every single-byte alteration
// or truncation of a token.
//
// Part 1 (E-seq): BFS over histories on the real tokens + caches + router code
// (virtual clock; Argon2id memoised), three validation paths judged against a
// reference {issued, revoked} model after every event.
// Part 2 (E-enum): every truncation and 3 substitutions per position of a token.
// Part 3 (E-sched): request || revoke || request under every interleaving of lock
// acquisitions within the bound; afterwards the revocation must be honoured.
package main

import (
	"encoding/json"
	"fmt"
	"net/http"
	"net/http/httptest"
	"os"
	"os/exec"
	"path/filepath"
	"sort"
	"strconv"
	"strings"
	"time"

	"github.com/tucats/ego/internal/caches"
	"github.com/tucats/ego/internal/cli/settings"
	"github.com/tucats/ego/internal/defs"
	"github.com/tucats/ego/internal/language/tokens"
	"github.com/tucats/ego/internal/router"
	"github.com/tucats/ego/internal/server/auth"
	"github.com/tucats/ego/internal/verifrt/enum"
	"github.com/tucats/ego/internal/verifrt/explore"
	"github.com/tucats/ego/internal/verifrt/report"
	"github.com/tucats/ego/internal/verifrt/seqx"
	"github.com/tucats/ego/internal/verifrt/vsched"
	vsync "github.com/tucats/ego/internal/verifrt/vsync"
	vtime "github.com/tucats/ego/internal/verifrt/vtime"
)

const instance = "3f2a8c1e-5b7d-4e9f-8a6b-1c2d3e4f5a6b"

// a minimal user service: token authentication looks permissions up through it
type users struct{}

func (users) ReadUser(_ int, name string, _ bool) (defs.User, error) {
	return defs.User{Name: name, Permissions: []string{defs.LogonPermission}}, nil
}
func (users) WriteUser(int, defs.User) error          { return nil }
func (users) DeleteUser(int, string) error            { return nil }
func (users) ListUsers(bool) map[string]defs.User     { return nil }
func (users) Flush() error                            { return nil }
func (users) Close() error                            { return nil }

type Ev struct {
	Op  string `json:"op"` // issue revoke unrevoke flush purge advance check
	Tok int    `json:"tok,omitempty"`
	Arg string `json:"arg,omitempty"`
}

func (e Ev) String() string {
	switch e.Op {
	case "issue", "revoke", "unrevoke":
		return fmt.Sprintf("%s(t%d)", e.Op, e.Tok)
	case "check":
		return fmt.Sprintf("check(t%d via %s)", e.Tok, e.Arg)
	case "flush":
		return "flush"
	}

	return e.Op + "(" + e.Arg + ")"
}

var (
	names     = []string{"alice", "bob"}
	intervals = []string{"1h", "90s"}
)

type slot struct {
	token   string
	id      string
	expires time.Time
}

type world struct {
	slots   [2]*slot
	revoked map[string]bool
}

// token cache: (slot, issue offset seconds) -> token; a token is generated once
// by the real tokens.New at that virtual time and reused across histories
var issued = map[string]*slot{}

func issue(i int) *slot {
	off := int64(vsched.Now().Sub(vsched.Epoch) / time.Second)
	k := fmt.Sprintf("%d@%d", i, off)

	if s, ok := issued[k]; ok {
		// same operations on the code under test as a first issue (identical
		// scheduling points whether or not the token string was generated before)
		if _, err := tokens.Unwrap(s.token, 0); err != nil {
			report.Fatal("cached token does not unwrap: %v", err)
		}

		return s
	}

	tok, err := tokens.New(names[i], "", intervals[i], instance, 0)
	if err != nil {
		report.Fatal("tokens.New: %v", err)
	}

	t, err := tokens.Unwrap(tok, 0)
	if err != nil {
		report.Fatal("fresh token does not unwrap: %v", err)
	}

	s := &slot{token: tok, id: t.TokenID.String(), expires: t.Expires}
	issued[k] = s

	return s
}

func checkVia(via, tok string) bool {
	switch via {
	case "router":
		req := httptest.NewRequest(http.MethodGet, "/x", nil)
		req.Header.Set("Authorization", "Bearer "+tok)

		s := (&router.Session{ID: 1}).Authenticate(req)

		return s.Authenticated
	case "validate":
		ok, _ := tokens.Validate(tok, 0)

		return ok
	default:
		t, err := tokens.Unwrap(tok, 0)

		return err == nil && t != nil
	}
}

var w *world

func fresh() {
	caches.VerifReset(0)

	if err := tokens.VerifResetBlacklist(); err != nil {
		report.Fatal("reset blacklist: %v", err)
	}

	w = &world{revoked: map[string]bool{}}
}

// step applies one event to the implementation and the model; returns a violation cell.
func step(e Ev) (string, string) {
	switch e.Op {
	case "issue":
		w.slots[e.Tok] = issue(e.Tok)
	case "revoke":
		// revoking an id twice is refused by the table's unique key: still revoked
		if err := tokens.Blacklist(w.slots[e.Tok].id); err != nil && !w.revoked[w.slots[e.Tok].id] {
			report.Fatal("Blacklist: %v", err)
		}

		w.revoked[w.slots[e.Tok].id] = true
	case "unrevoke":
		err := tokens.Delete(w.slots[e.Tok].id)
		if (err == nil) != w.revoked[w.slots[e.Tok].id] {
			return "unrevoke:wrong-answer", fmt.Sprintf("un-revoking reported %v, the id was on the list: %v", err, w.revoked[w.slots[e.Tok].id])
		}

		delete(w.revoked, w.slots[e.Tok].id)
	case "flush":
		if _, err := tokens.Flush(); err != nil {
			report.Fatal("Flush: %v", err)
		}

		w.revoked = map[string]bool{}
	case "purge":
		switch e.Arg {
		case "token":
			caches.Purge(caches.TokenCache)
		case "blacklist":
			caches.Purge(caches.BlacklistCache)
		}
	case "advance":
		d, _ := time.ParseDuration(e.Arg)
		vtime.Advance(d)
	case "check":
		s := w.slots[e.Tok]
		got := checkVia(e.Arg, s.token)
		want := !vsched.Now().After(s.expires) && !w.revoked[s.id]

		if got != want {
			kind := "accepted"
			if !got {
				kind = "refused"
			}

			why := "valid"
			if w.revoked[s.id] {
				why = "revoked"
			} else if vsched.Now().After(s.expires) {
				why = "expired"
			}

			return fmt.Sprintf("%s:%s-token:%s", e.Arg, why, kind), fmt.Sprintf("%s token of %s was %s by the %s path", why, names[e.Tok], kind, e.Arg)
		}
	}

	vsched.Settle()

	return "", ""
}

func enabled(e Ev) bool {
	switch e.Op {
	case "issue":
		return w.slots[e.Tok] == nil
	case "revoke", "unrevoke", "check":
		return w.slots[e.Tok] != nil
	}

	return true
}

func key() string {
	var parts []string

	for i, s := range w.slots {
		if s != nil {
			left := int64(s.expires.Sub(vsched.Now()) / time.Second)
			if left < 0 {
				left = -1
			}

			parts = append(parts, fmt.Sprintf("t%d:%d:%v", i, left, w.revoked[s.id]))
		}
	}

	list, _ := tokens.List()
	ids := []string{}

	for _, it := range list {
		ids = append(ids, fmt.Sprintf("%s/%v", it.ID, it.Active))
	}

	sort.Strings(ids)

	return strings.Join(parts, ",") + "|" + strings.Join(ids, ",") + "|" + caches.VerifDump(vsched.Now()) + "|" + fmt.Sprint(vsched.Sleepers())
}

func alphabet() []Ev {
	evs := []Ev{}

	for i := 0; i < 2; i++ {
		evs = append(evs, Ev{Op: "issue", Tok: i})
	}

	for i := 0; i < 2; i++ {
		for _, via := range []string{"router", "validate", "unwrap"} {
			evs = append(evs, Ev{Op: "check", Tok: i, Arg: via})
		}
	}

	for i := 0; i < 2; i++ {
		evs = append(evs, Ev{Op: "revoke", Tok: i}, Ev{Op: "unrevoke", Tok: i})
	}

	evs = append(evs, Ev{Op: "flush"}, Ev{Op: "purge", Arg: "token"}, Ev{Op: "purge", Arg: "blacklist"},
		Ev{Op: "advance", Arg: "61s"}, Ev{Op: "advance", Arg: "2m"})

	return evs
}

type witness struct {
	Part    string   `json:"part"`
	History []Ev     `json:"history,omitempty"`
	Text    string   `json:"text,omitempty"`
	Edit    string   `json:"edit,omitempty"`
	Sched   []int    `json:"schedule,omitempty"`
	Trace   []string `json:"trace,omitempty"`
}

func setupWorld() {
	settings.SetDefault(defs.ServerTokenKeySetting, "verif-fixed-token-key-0123456789")
	settings.SetDefault(defs.ServerAuthoritySetting, "")

	auth.AuthService = users{}

	if err := tokens.SetDatabasePath("sqlite3://" + filepath.Join(os.Getenv("VERIF_SCRATCH"), fmt.Sprintf("blacklist-%d.db", os.Getpid()))); err != nil {
		report.Fatal("blacklist database: %v", err)
	}
}

func text(h []Ev) string {
	p := make([]string, len(h))
	for i, e := range h {
		p[i] = e.String()
	}

	return strings.Join(p, "; ")
}



func mutations(r *report.R) {
	var tok string

	vsched.Run(vsched.Config{}, func() {
		fresh()
		tok = issue(0).token
	})

	type job struct {
		s, what string
	}

	var jobs []job

	for n := 0; n < len(tok); n++ {
		jobs = append(jobs, job{tok[:n], fmt.Sprintf("truncate to %d", n)})
	}

	hexd := "0123456789abcdef"

	for i := 0; i < len(tok); i++ {
		cur := strings.IndexByte(hexd, tok[i])
		for _, d := range []int{1, 8, 15}[:r.Pick(1, 3)] {
			c := hexd[(cur+d)%16]
			jobs = append(jobs, job{tok[:i] + string(c) + tok[i+1:], fmt.Sprintf("position %d: %c -> %c", i, tok[i], c)})
		}
	}

	jobs = append(jobs, job{tok + "00", "extend by one byte"}, job{tok + "0", "extend by a nibble"}, job{strings.ToUpper(tok), "upper-case hex"}, job{"zz" + tok[2:], "non-hex prefix"})

	// pass-through mode (no scheduler): Validate/Unwrap are pure here
	enum.Par(len(jobs), func(i int) {
		j := jobs[i]
		r.Eval(1)
		r.Distinct("edit|" + j.what)

		if j.s == tok || strings.EqualFold(j.s, tok) && j.what == "upper-case hex" {
			return // hex decoding is case-insensitive: the same bytes, not an alteration
		}

		if ok, _ := tokens.Validate(j.s, 0); ok {
			r.Violation("altered-token:accepted:validate", i, witness{Part: "edit", Edit: j.what}, "an altered token string was accepted by Validate: "+j.what)
		}

		if t, err := tokens.Unwrap(j.s, 0); err == nil && t != nil {
			r.Violation("altered-token:accepted:unwrap", i, witness{Part: "edit", Edit: j.what}, "an altered token string was accepted by Unwrap: "+j.what)
		}
	})

	if ok, _ := tokens.Validate(tok, 0); !ok {
		report.Fatal("the unaltered token is not valid: harness problem")
	}

	r.Set("token_edits", len(jobs))
	r.Sample(map[string]any{"token_edit": jobs[len(jobs)/2].what})
}

func concurrent(r *report.R, only int) (int, int) {
	scheds, trans := 0, 0

	type scen struct {
		name    string
		pre     []Ev
		threads [][]Ev
	}

	R := func(i int) Ev { return Ev{Op: "check", Tok: i, Arg: "router"} }
	scens := []scen{
		{"request|revoke", []Ev{{Op: "issue", Tok: 0}}, [][]Ev{{R(0)}, {{Op: "revoke", Tok: 0}}}},
		{"request|revoke|request", []Ev{{Op: "issue", Tok: 0}}, [][]Ev{{R(0)}, {{Op: "revoke", Tok: 0}}, {R(0)}}},
		{"cached-request|revoke|validate", []Ev{{Op: "issue", Tok: 0}, R(0)}, [][]Ev{{R(0)}, {{Op: "revoke", Tok: 0}}, {{Op: "check", Tok: 0, Arg: "validate"}}}},
		{"request|revoke-unrevoke", []Ev{{Op: "issue", Tok: 0}}, [][]Ev{{R(0)}, {{Op: "revoke", Tok: 0}, {Op: "unrevoke", Tok: 0}}}},
	}

	for si, sc := range scens {
		sc := sc

		if only >= 0 && si != only {
			continue
		}

		// two-thread scenarios get the larger preemption bound
		bound := r.Pick(1, 2)
		if len(sc.threads) == 2 {
			bound = r.Pick(2, 3)
		}

		var afterOK bool

		ex := &explore.Scenario{
			Name: sc.name, Bound: bound, Horizon: 100000,
			Focus: func(kind string, _ any) bool {
				return strings.HasPrefix(kind, "Mutex.") || strings.HasPrefix(kind, "RWMutex.")
			},
			Setup: func() {
				fresh()

				for _, e := range sc.pre {
					step(e)
				}
			},
			Body: func() {
				var wg vsync.WaitGroup

				for _, ops := range sc.threads {
					ops := ops

					wg.Add(1)
					vsched.Go(func() {
						defer wg.Done()

						for _, e := range ops {
							applyOnly(e)
						}
					})
				}

				wg.Wait()

				// all threads are done: a further request must reflect the revocation list as it now is
				afterOK = checkVia("router", w.slots[0].token)
			},
			Observe: func() any { return afterOK },
		}

		ex.Check = func(out vsched.Outcome) {
			r.Eval(1)
			trans += len(out.Points) + 1
			r.Distinct("conc|" + sc.name + fmt.Sprint(out.Choices()))

			wit := witness{Part: "conc", Text: sc.name, Sched: out.Choices()}

			if out.Panic != nil || out.Deadlock {
				wit.Trace = out.Describe()
				r.Violation("conc:crash:"+sc.name, len(out.Points), wit, fmt.Sprintf("panic=%v deadlock=%v %v\n%s", out.Panic, out.Deadlock, out.BlockedOn, out.PanicStk))

				return
			}

			if out.Horizon {
				r.Capped("horizon in " + sc.name)

				return
			}

			list, _ := tokens.List()
			revokedNow := false

			for _, it := range list {
				if it.ID == w.slots[0].id && it.Active {
					revokedNow = true
				}
			}

			if afterOK == revokedNow {
				wit.Trace = out.Describe()
				kind := "a revoked token is still accepted after the revocation completed"

				cell := "conc:revoked-token-accepted-afterwards"
				if !afterOK {
					kind = "a token that is not on the revocation list is refused"
					cell = "conc:valid-token-refused-afterwards"
				}

				r.Violation(cell, len(out.Points)*10+vsched.Preemptions(out.Points), wit, kind+" (scenario "+sc.name+")")
			}
		}

		if err := ex.Determinism(); err != nil {
			report.Fatal("%v", err)
		}

		res := ex.Explore()
		if res.MaxPoints == 0 {
			report.Fatal("scenario %s has no choice points", sc.name)
		}

		scheds += res.Schedules
		r.Set("conc:"+sc.name, map[string]any{"schedules": res.Schedules, "bound": bound, "max_points": res.MaxPoints})
		r.Sample(map[string]any{"concurrent_scenario": sc.name, "threads": sc.threads, "schedules": res.Schedules, "preemption_bound": bound})
	}

	return scheds, trans
}

// applyOnly runs an event on the implementation without judging it.
func applyOnly(e Ev) {
	switch e.Op {
	case "revoke":
		_ = tokens.Blacklist(w.slots[e.Tok].id)
	case "unrevoke":
		_ = tokens.Delete(w.slots[e.Tok].id)
	case "check":
		checkVia(e.Arg, w.slots[e.Tok].token)
	}
}

func main() {
	r := report.New("model_checking")
	setupWorld()

	depth := r.Pick(5, 7)

	if len(os.Args) > 2 && os.Args[1] == "conc" {
		which, _ := strconv.Atoi(os.Args[2])
		scheds, trans := concurrent(r, which)
		r.Add("conc_schedules", int64(scheds))
		r.Add("conc_transitions", int64(trans))
		r.SavePartial(os.Args[3])
	}

	// worker mode: one first event
	if len(os.Args) > 2 && os.Args[1] == "shard" {
		var roots [][]Ev

		b, err := os.ReadFile(os.Args[2])
		if err != nil || json.Unmarshal(b, &roots) != nil {
			report.Fatal("worker: cannot read roots %s", os.Args[2])
		}

		st := runSeqFrom(r, depth-splitDepth, roots, nil)
		r.Add("seq_states", int64(st.States-len(roots)))
		r.Add("seq_transitions", int64(st.Transitions))
		r.SavePartial(os.Args[3])
	}

	if r.Replay != "" {
		var wit witness
		if err := report.LoadReplay(r.Replay, &wit); err != nil {
			report.Fatal("%v", err)
		}

		vsched.Run(vsched.Config{}, func() {
			fresh()

			for i, e := range wit.History {
				cell, msg := step(e)
				fmt.Printf("  %d %-28s %s %s\n", i, e, cell, msg)

				if cell != "" {
					r.Violation(cell, len(wit.History), wit, msg)
				}
			}
		})
		r.Eval(1)
		r.Finish()
	}

	// part 1: the parent explores to depth 2, the frontier is dealt to worker processes
	t0 := time.Now()
	evs := alphabet()
	var frontier [][]Ev

	top := runSeqFrom(r, splitDepth, nil, func(h [][]Ev) { frontier = h })
	r.Add("seq_states", int64(top.States))
	r.Add("seq_transitions", int64(top.Transitions))

	const nWorkers = 12
	shards := make([][][]Ev, nWorkers)

	for i, h := range frontier {
		shards[i%nWorkers] = append(shards[i%nWorkers], h)
	}
	type res struct {
		path string
		err  error
		out  []byte
	}

	const nConc = 4
	results := make([]res, nWorkers+nConc)

	enum.Par(len(results), func(i int) {
		p := filepath.Join(os.Getenv("VERIF_SCRATCH"), fmt.Sprintf("part-%d.json", i))

		var cmd *exec.Cmd

		if i >= nWorkers {
			cmd = exec.Command(os.Args[0], "conc", strconv.Itoa(i-nWorkers), p)
		} else {
			rp := filepath.Join(os.Getenv("VERIF_SCRATCH"), fmt.Sprintf("roots-%d.json", i))
			b, _ := json.Marshal(shards[i])
			_ = os.WriteFile(rp, b, 0o644)
			cmd = exec.Command(os.Args[0], "shard", rp, p)
		}
		cmd.Env = append(os.Environ(), "GOMAXPROCS=2")
		out, err := cmd.CombinedOutput()
		results[i] = res{p, err, out}
	})

	for i, rs := range results {
		if rs.err != nil {
			report.Fatal("worker %d failed: %v\n%s", i, rs.err, rs.out)
		}

		r.MergePartial(rs.path)
	}

	t1 := time.Now()
	r.Set("seq_wall_s", time.Since(t0).Seconds())
	mutations(r)
	r.Set("edits_wall_s", time.Since(t1).Seconds())
	scheds, trans := int(r.IntCov("conc_schedules")), int(r.IntCov("conc_transitions"))

	states := int(r.IntCov("seq_states"))
	transitions := int(r.IntCov("seq_transitions"))
	r.Set("states", states+scheds)
	r.Set("transitions", transitions+trans)
	r.Set("traces_validated_against_impl", transitions+scheds)
	r.Set("depth", depth)
	r.Set("alphabet", len(evs))
	r.Sample(map[string]any{"history_event_examples": []string{evs[0].String(), evs[2].String(), evs[8].String(), evs[12].String()}})
	r.Rule(fmt.Sprintf("BFS over every history of depth<=%d over %d events (2 tokens of 2 users with 1h and 90s lifetimes; issue, revoke, un-revoke, flush, purge token/blacklist cache, advance 61s/2m, validate via router/Validate/Unwrap), sharded by first event; every truncation and 1 (thorough 3) substitutions per hex position of a token; 4 concurrent scenarios under every interleaving within the preemption bound. distinct = canonical states (model + revocation table + caches dump) and schedules", depth, len(evs)))
	r.Assume("Argon2id key derivation is memoised (same function); the user service is a stub that grants logon to every name; virtual clock in tokens, caches and router",
		"scheduling points are lock acquisitions in caches and tokens; SQLite runs unmodified")
	r.Finish()
}

const splitDepth = 2

// runSeqFrom explores depth more events below the given root histories (nil: the empty history).
func runSeqFrom(r *report.R, depth int, roots [][]Ev, onFrontier func([][]Ev)) seqx.Stats {
	if roots != nil && len(roots) == 0 {
		return seqx.Stats{}
	}

	return seqx.Run(seqx.Spec[Ev]{
		Events: alphabet(), MaxDepth: depth, StopAtViolation: true, Roots: roots, Frontier: onFrontier,
		Wrap: func(body func()) {
			out := vsched.Run(vsched.Config{Horizon: 500000}, body)

			if out.Panic != nil || out.Deadlock || out.Horizon {
				r.Violation("seq:crash", 0, map[string]any{"panic": out.Panic, "deadlock": out.Deadlock, "stack": out.PanicStk}, "a sequential history crashed or deadlocked")
			}
		},
		Fresh: fresh,
		Step: func(e Ev, last bool) (string, string) {
			r.Eval(1)

			return step(e)
		},
		Enabled: enabled,
		Key: func() string {
			k := key()
			r.Distinct("seq|" + k)

			return k
		},
		Violation: func(h []Ev, cell, msg string) {
			r.Violation(cell, len(h), witness{Part: "seq", History: h, Text: text(h)}, msg)
		},
	})
}

// C36: langlint rewrites are crash-safe.
//
// E-fault. The real lintFile/rewriteFile of tools/langlint (re-homed as an
// importable package, its "os" import woven to verifrt/vos) rewrites a message
// file in a scratch directory. A zero-crash run numbers the file-system
// operations; then EVERY number is used as a crash point (the run stops
// immediately before that operation; a write also stops half-way through).
// After each stop the harness looks at the directory:
//
//   - the target path must hold exactly the original bytes or exactly the
//     formatted bytes (statement, first half);
//   - a later, un-crashed run on the same directory that succeeds must leave
//     behind no file that it created itself (statement, second half). Files
//     abandoned by the stopped run are counted in the evidence, not judged.
//
// The enumeration runs in-process on the in-memory file system of the shim
// (stop = panic + frozen file system; the real disk of this machine needs
// milliseconds per replace-by-rename). A subset, and every violating case up
// to a per-cell quota, is repeated on the REAL disk with a child process that
// really exits at the crash point; the two directory states (names, mode
// bits, bytes) must be identical (a disagreement is a harness error, exit 2).
package main

import (
	"bytes"
	"crypto/sha256"
	"encoding/hex"
	"fmt"
	"os"
	"os/exec"
	"path/filepath"
	"regexp"
	"sort"
	"strconv"
	"strings"

	"github.com/tucats/ego/internal/verifharness/langlintpkg"
	"github.com/tucats/ego/internal/verifrt/enum"
	"github.com/tucats/ego/internal/verifrt/report"
	vos "github.com/tucats/ego/internal/verifrt/vos"
)

const fileName = "messages_xx.txt"

var lineAlphabet = []string{"#c", "", "[s]", "k=v", "j=w", " k=x", "junk", "b=a=b"}

var tempName = regexp.MustCompile(`^` + regexp.QuoteMeta(fileName) + `\.langlint-[0-9]+$`)

// The numeric suffix of a temp file is random: it is normalised wherever a
// name reaches the evidence, a witness or a message.
var tempSuffix = regexp.MustCompile(`\.langlint-[0-9]+`)

func norm(s string) string { return tempSuffix.ReplaceAllString(s, ".langlint-<N>") }

func normAll(l []string) []string {
	out := make([]string, len(l))
	for i, s := range l {
		out[i] = norm(s)
	}

	return out
}

type witness struct {
	Content string   `json:"content"`
	Mode    string   `json:"mode"`
	Crash   int      `json:"crash_point"`
	How     string   `json:"how"` // "in-process" or "real-exit"
	Ops     []string `json:"ops"`
	Before  string   `json:"about_to_run"`
	State   []string `json:"directory_after_crash"`
}

// dirState is the canonical description of a directory: one line per entry,
// temp-file names normalised (their numeric suffix is random).
func dirState(dir string) []string {
	ents, err := os.ReadDir(dir)
	if err != nil {
		report.Fatal("readdir %s: %v", dir, err)
	}

	var out []string

	for _, e := range ents {
		name := e.Name()

		b, err := os.ReadFile(filepath.Join(dir, name))
		if err != nil {
			report.Fatal("read %s: %v", name, err)
		}

		info, err := e.Info()
		if err != nil {
			report.Fatal("stat %s: %v", name, err)
		}

		if tempName.MatchString(name) {
			name = fileName + ".langlint-<N>"
		}

		out = append(out, fmt.Sprintf("%s %04o %q", name, info.Mode().Perm(), b))
	}

	sort.Strings(out)

	return out
}

const memDir = "/c36/case"

// freshMem empties the in-memory file system and stores the original file.
func freshMem(content []byte, mode os.FileMode) (dir, path string) {
	vos.VerifMemClear()

	path = filepath.Join(memDir, fileName)
	vos.VerifMemPut(path, content, mode)

	return memDir, path
}

// memState is dirState for the in-memory file system.
func memState(dir string) []string {
	var out []string

	for _, p := range vos.VerifMemList() {
		if filepath.Dir(p) != dir {
			continue
		}

		b, _ := vos.VerifMemGet(p)
		m, _ := vos.VerifMemMode(p)
		name := filepath.Base(p)

		if tempName.MatchString(name) {
			name = fileName + ".langlint-<N>"
		}

		out = append(out, fmt.Sprintf("%s %04o %q", name, m.Perm(), b))
	}

	sort.Strings(out)

	return out
}

func memNames(dir string) map[string]bool {
	out := map[string]bool{}

	for _, p := range vos.VerifMemList() {
		if filepath.Dir(p) == dir {
			out[filepath.Base(p)] = true
		}
	}

	return out
}

// lint runs the real lintFile with crash point k armed (0 = none).
func lint(path string, k int) (crashed bool, crash vos.VerifCrash, err error, log []string) {
	vos.VerifArm(k, vos.VerifPanic)

	defer func() {
		log = normAll(vos.VerifLog())

		vos.VerifDisarm()

		if rec := recover(); rec != nil {
			c, ok := rec.(vos.VerifCrash)
			if !ok {
				panic(rec)
			}

			c.Op = norm(c.Op)
			crashed, crash = true, c
		}
	}()

	_, _, err = langlintpkg.VerifLintFile(path, false)

	return
}

// opKind names the operation a crash came before, relative to the target path
// (used for the violation cell, so that the random temp name does not matter).
func opKind(op string) string {
	f := strings.Fields(op)
	if len(f) == 0 {
		return "none"
	}

	kind := f[0]
	if kind == "write" && len(f) > 1 && strings.HasPrefix(f[1], "(torn") {
		kind = "torn-write"
	}

	if kind == "rename" && len(f) >= 4 {
		switch {
		case f[3] == fileName:
			return "rename-into-place"
		case f[1] == fileName:
			return "rename-aside"
		}

		return "rename-other"
	}

	last := f[len(f)-1]

	switch {
	case last == fileName:
		return kind + ":path"
	case last == fileName+".langlint-<N>", tempName.MatchString(last):
		return kind + ":temp"
	case strings.HasSuffix(last, ".langlint-bak"):
		return kind + ":backup"
	}

	return kind
}

func leftoverKind(name string) string {
	switch {
	case tempName.MatchString(name):
		return "temp"
	case strings.HasSuffix(name, ".langlint-bak"):
		return "backup"
	}

	return "other"
}

type checker struct {
	r       *report.R
	root    string
	seq     int
	states  map[string]struct{}
	quota   map[string]int
	realRun int
	max     int
}

func (c *checker) freshDir(content []byte, mode os.FileMode) (dir, path string) {
	c.seq++
	dir = filepath.Join(c.root, strconv.Itoa(c.seq))

	if err := os.MkdirAll(dir, 0o755); err != nil {
		report.Fatal("%v", err)
	}

	path = filepath.Join(dir, fileName)

	if err := os.WriteFile(path, content, 0o600); err != nil {
		report.Fatal("%v", err)
	}

	if err := os.Chmod(path, mode); err != nil {
		report.Fatal("%v", err)
	}

	return dir, path
}

// realExit repeats crash point k in a child process that really exits there.
func (c *checker) realExit(content []byte, mode os.FileMode, k int) (dir, path string, fired bool) {
	dir, path = c.freshDir(content, mode)

	cmd := exec.Command(os.Args[0], "child", path, strconv.Itoa(k))
	cmd.Stdout, cmd.Stderr = nil, os.Stderr
	err := cmd.Run()
	c.realRun++

	if err == nil {
		return dir, path, false
	}

	if ee, ok := err.(*exec.ExitError); ok && ee.ExitCode() == vos.VerifExitStatus {
		return dir, path, true
	}

	report.Fatal("child for crash point %d failed: %v", k, err)

	return
}

// judge applies the oracle to the directory a stopped (or complete) run left.
// It returns the cells violated.
func (c *checker) judge(dir, path string, content, formatted []byte, formatOK bool, mode os.FileMode, k int, how string, crashed bool, crash vos.VerifCrash, log []string) []string {
	state := memState(dir)
	w := witness{Content: string(content), Mode: fmt.Sprintf("%04o", mode), Crash: k, How: how, Ops: log, Before: crash.Op, State: state}
	size := len(content)*100 + k

	var cells []string

	viol := func(cell, msg string) {
		cells = append(cells, cell)
		c.r.Violation(cell, size, w, msg)
	}

	when, stop := "complete-run", "a complete run"
	if crashed {
		when = "crash-before:" + opKind(crash.Op)
		stop = "a stop at " + crash.String()
	}

	got, exists := vos.VerifMemGet(path)

	switch {
	case !exists:
		viol("path-missing:"+when, fmt.Sprintf("after %s the path %s does not exist (neither original nor formatted content)", stop, fileName))
	case bytes.Equal(got, content), formatOK && bytes.Equal(got, formatted):
	default:
		kind := "other"

		switch {
		case len(got) == 0:
			kind = "empty"
		case formatOK && bytes.HasPrefix(formatted, got), bytes.HasPrefix(content, got):
			kind = "truncated"
		}

		viol("path-corrupt:"+kind+":"+when, fmt.Sprintf("after %s the path holds %q: neither the original %q nor the formatted %q", stop, got, content, formatted))
	}

	// The later run (statement: "a later successful run leaves no temporary or
	// backup files behind"). Judged: the files that run itself created.
	before := memNames(dir)

	crashed2, _, err2, _ := lint(path, 0)
	if crashed2 {
		report.Fatal("un-armed run crashed")
	}

	if !crashed {
		// A complete run is itself a successful run: nothing but the file may remain.
		for name := range before {
			if name != fileName {
				viol("complete-run:leftover:"+leftoverKind(name), fmt.Sprintf("a complete, successful run left %s behind", norm(name)))
			}
		}
	}

	if err2 != nil {
		c.r.Add("later_run_failed", 1)

		return cells
	}

	after := memNames(dir)
	stale := 0

	for name := range after {
		if name == fileName {
			continue
		}

		if before[name] {
			stale++

			continue
		}

		viol("later-run:leftover:"+leftoverKind(name), fmt.Sprintf("the later successful run created %s and left it behind", norm(name)))
	}

	if stale > 0 {
		c.r.Add("stale_files_of_crashed_run_still_present_after_later_run_not_judged", int64(stale))
	}

	return cells
}

// oneCase runs every crash point of one (content, mode).
func (c *checker) oneCase(content []byte, mode os.FileMode, onlyK int, realAll bool) {
	formatted, _, ferr := langlintpkg.Format(content)
	formatOK := ferr == nil

	// Zero-crash run: numbers the operations.
	dir, path := freshMem(content, mode)

	crashed, _, err, log := lint(path, 0)
	if crashed {
		report.Fatal("zero-crash run crashed")
	}

	n := len(log)
	cstate := memState(dir)

	if (err == nil) != formatOK {
		report.Fatal("lintFile error %v but Format error %v for %q", err, ferr, content)
	}

	if onlyK == 0 {
		c.r.Eval(1)
		c.judge(dir, path, content, formatted, formatOK, mode, 0, "in-process", false, vos.VerifCrash{}, log)
		c.r.Add("complete_runs", 1)

		if n > c.max {
			c.max = n
			c.r.Set("max_crash_points_per_rewrite", n)
			c.r.Set("operations_of_longest_rewrite", log)
		}
	}

	if realAll && onlyK == 0 {
		// The complete run, on the real disk, in a child process.
		rdir, _, fired := c.realExit(content, mode, 0)
		if fired {
			report.Fatal("child without crash point exited as if crashed")
		}

		rstate := dirState(rdir)
		_ = os.RemoveAll(rdir)

		if strings.Join(rstate, "\n") != strings.Join(cstate, "\n") {
			report.Fatal("complete run in memory and on the real disk disagree for %q:\n in-memory %q\n real disk %q", content, cstate, rstate)
		}

		c.r.Add("complete_runs_confirmed_on_the_real_disk", 1)
	}

	rewrite := n > 1

	for k := 1; k <= n; k++ {
		if onlyK != 0 && k != onlyK {
			continue
		}

		dir, path := freshMem(content, mode)

		crashed, crash, _, klog := lint(path, k)
		if !crashed {
			report.Fatal("crash point %d of %d did not fire for %q (operations are not deterministic?)", k, n, content)
		}

		c.r.Eval(1)
		c.r.Add("crash_runs", 1)

		state := memState(dir)
		h := sha256.Sum256([]byte(strings.Join(state, "\n")))
		c.states[hex.EncodeToString(h[:8])] = struct{}{}

		if rewrite {
			c.r.Distinct(fmt.Sprintf("%q|%o|%d", content, mode, k))
		}

		if len(state) > 1 || (len(state) == 1 && !strings.HasPrefix(state[0], fileName+" ")) {
			c.r.Sample(witness{Content: string(content), Mode: fmt.Sprintf("%04o", mode), Crash: k, How: "in-process", Ops: klog, Before: crash.Op, State: state})
		}

		cells := c.judge(dir, path, content, formatted, formatOK, mode, k, "in-process", true, crash, klog)

		// Real process exit: always for the configured subset, and for
		// violating cases until each cell has its quota of confirmations.
		confirm := realAll

		for _, cell := range cells {
			if c.quota[cell] < 25 {
				c.quota[cell]++
				confirm = true
			}
		}

		if !confirm {
			continue
		}

		rdir, _, fired := c.realExit(content, mode, k)
		if !fired {
			report.Fatal("real-exit child did not reach crash point %d for %q", k, content)
		}

		rstate := dirState(rdir)
		_ = os.RemoveAll(rdir)

		if strings.Join(rstate, "\n") != strings.Join(state, "\n") {
			report.Fatal("in-memory stop and real process exit on the real disk disagree at point %d of %q:\n in-memory %q\n real-exit %q", k, content, state, rstate)
		}

		c.r.Add("crash_states_confirmed_by_real_process_exit", 1)
	}
}

func contents(maxLines int) [][]byte {
	var out [][]byte

	seen := map[string]bool{}

	for n := 0; n <= maxLines; n++ {
		sizes := make([]int, n)
		for i := range sizes {
			sizes[i] = len(lineAlphabet)
		}

		gen := func(idx []int) {
			for _, eol := range []string{"\n", "\r\n"} {
				var b strings.Builder

				for _, i := range idx {
					b.WriteString(lineAlphabet[i])
					b.WriteString(eol)
				}

				if !seen[b.String()] {
					seen[b.String()] = true
					out = append(out, []byte(b.String()))
				}
			}
		}

		if n == 0 {
			gen(nil)

			continue
		}

		enum.Product(sizes, gen)
	}

	return out
}

func childMain() {
	// child <path> <k>: run the real lintFile and really exit at crash point k.
	k, err := strconv.Atoi(os.Args[3])
	if err != nil {
		os.Exit(3)
	}

	vos.VerifArm(k, vos.VerifExit)
	_, _, _ = langlintpkg.VerifLintFile(os.Args[2], false)
	os.Exit(0)
}

func main() {
	if len(os.Args) > 3 && os.Args[1] == "child" {
		childMain()
	}

	r := report.New("fault_enumeration")
	maxLines := r.Pick(3, 4)
	modes := []os.FileMode{0o644, 0o600, 0o444}

	if r.Thorough() {
		modes = append(modes, 0o755)
	}

	root := filepath.Join(os.Getenv("VERIF_SCRATCH"), "c36")
	if os.Getenv("VERIF_SCRATCH") == "" {
		report.Fatal("VERIF_SCRATCH not set")
	}

	c := &checker{r: r, root: root, states: map[string]struct{}{}, quota: map[string]int{}}

	vos.VerifMemFS(true) // the parent enumerates in memory; children use the real disk

	r.Rule(fmt.Sprintf("every message file of 0..%d lines over the line alphabet %q with LF and with CRLF line ends x original mode bits %04o is rewritten by the real lintFile; the zero-crash run numbers the file-system operations (a write of >=2 bytes counts twice: before it and torn half-way) and every number is one crash case; distinct non-trivial = (content, mode, crash point) of a file that langlint actually rewrites", maxLines, lineAlphabet, modes))
	r.Assume(
		"a crash is a process stop: operations already issued are in the file system, later ones never happen (no power loss, no kernel reordering)",
		"the enumeration runs on the shim's in-memory file system with an in-process stop (panic + frozen shim); it is checked against a real process exit on the real disk for a subset and for every violating case up to 25 per cell: the two directory states (names, modes, bytes) must be identical",
		"files abandoned by the stopped run itself (temp file, .langlint-bak) are counted, not judged; judged are the target path and what a later successful run creates and leaves",
		"the formatted content is what Format returns for the original bytes")

	if r.Replay != "" {
		var w witness
		if err := report.LoadReplay(r.Replay, &w); err != nil {
			report.Fatal("%v", err)
		}

		m, err := strconv.ParseUint(w.Mode, 8, 32)
		if err != nil {
			report.Fatal("bad mode in witness: %v", err)
		}

		if w.Crash == 0 {
			c.oneCase([]byte(w.Content), os.FileMode(m), 0, false)
		} else {
			c.oneCase([]byte(w.Content), os.FileMode(m), w.Crash, true)
		}

		r.Finish()
	}

	all := contents(maxLines)
	r.Set("file_contents", len(all))
	r.Set("modes", len(modes))

	rewritten := 0

	for i, content := range all {
		for mi, mode := range modes {
			// Real disk + real process exit for every crash point of the short
			// files (<=1 line, thorough <=2) and of every 61st (thorough 193rd)
			// content, in the first mode.
			short, stride := 1, 61
			if r.Thorough() {
				short, stride = 2, 193
			}

			realAll := mi == 0 && (bytes.Count(content, []byte("\n")) <= short || i%stride == 0)
			c.oneCase(content, mode, 0, realAll)
		}

		if f, _, err := langlintpkg.Format(content); err == nil && !bytes.Equal(f, content) {
			rewritten++
		}
	}

	r.Set("file_contents_that_are_rewritten", rewritten)
	r.Set("distinct_directory_states_after_crash", len(c.states))
	r.Set("real_exit_child_runs", c.realRun)
	r.Finish()
}

// C31: the file-backed and the database-backed (SQLite) user stores give
// identical answers for every history of user creations, updates, permission
// changes, deletions and lookups, and each gives the same answers after being
// flushed, closed and reopened.
//
// E-seq, differential: breadth-first search over histories. A state is reached
// by replaying its shortest history on BOTH real services from their first-start
// state; every event of the alphabet is then applied to both, and every answer
// about users (ReadUser, ListUsers with both flags, GetPermissions,
// GetPermission) is compared between the two; a reopen event additionally
// compares each store with itself before and after. States are merged on the
// private state of the file service, the file on disk, the raw database rows
// and the credential cache. The package keeps process-global state (the active
// service, the cache), so executions run in worker subprocesses, one at a time
// each.
package main

import (
	"bufio"
	"crypto/sha256"
	"encoding/hex"
	"encoding/json"
	"fmt"
	"os"
	"os/exec"
	"path/filepath"
	"runtime"
	"runtime/pprof"
	"strings"
	"sync"

	"github.com/tucats/ego/internal/verifrt/report"
)

type witness struct {
	History []Event  `json:"history"`
	Event   Event    `json:"event"`
	Trace   []string `json:"trace"`
	Detail  string   `json:"detail"`
}

type finding struct {
	Cell   string `json:"cell"`
	Msg    string `json:"msg"`
	Detail string `json:"detail"`
}

type job struct {
	ID      int     `json:"id"`
	Hist    []Event `json:"hist"`
	Event   Event   `json:"event"`
	WantKey string  `json:"want_key"`
	NoEvent bool    `json:"no_event"` // only replay + dump (initial state)
	Sample  bool    `json:"sample"`   // send the full observation back
}

type result struct {
	ID         int       `json:"id"`
	Key        string    `json:"key"` // hash of the state dump
	Findings   []finding `json:"findings,omitempty"`
	Trace      []string  `json:"trace,omitempty"` // only with findings or for a sample
	ObsHash    string    `json:"obs_hash"`        // hash of the file store's observation (outcome statistics)
	Obs        string    `json:"obs,omitempty"`   // the observation itself, for a sample
	NonTrivial bool      `json:"nontrivial"`      // a user besides the bootstrap administrator exists before or after
	Fatal      string    `json:"fatal,omitempty"`
}

func hash(s string) string {
	h := sha256.Sum256([]byte(s))

	return hex.EncodeToString(h[:12])
}

func hasUsers(dump string) bool {
	return strings.Contains(dump, `"`+users[0]+`"`) || strings.Contains(dump, `"`+users[1]+`"`)
}

func hasReopen(h []Event) bool {
	for _, e := range h {
		if e.Op == "reopen" {
			return true
		}
	}

	return false
}

// execute runs one job on the worker's stores.
func execute(s *Stores, j job) (res result) {
	res.ID = j.ID

	if err := s.reset(); err != nil {
		res.Fatal = "reset: " + err.Error()

		return res
	}

	for _, h := range j.Hist {
		a := s.apply(h, false)
		res.Trace = append(res.Trace, fmt.Sprintf("%s -> file err=%q db err=%q", h, a.FileErr, a.DBErr))

		if a.Panic != "" {
			res.Fatal = fmt.Sprintf("panic while replaying %s: %s", h, a.Panic)

			return res
		}
	}

	before := s.dump()

	if j.WantKey != "" && hash(before) != j.WantKey {
		res.Fatal = fmt.Sprintf("replay of %v reached a different state (hash %s, want %s):\n%s", texts(j.Hist), hash(before), j.WantKey, before)

		return res
	}

	if j.NoEvent {
		res.Key = hash(before)

		return res
	}

	phase := "live"
	if hasReopen(j.Hist) || j.Event.Op == "reopen" {
		phase = "after-reopen"
	}

	add := func(cell, msg, detail string) {
		res.Findings = append(res.Findings, finding{Cell: cell, Msg: msg, Detail: detail})
	}

	a := s.apply(j.Event, true)
	res.Trace = append(res.Trace, fmt.Sprintf("%s -> file err=%q db err=%q", j.Event, a.FileErr, a.DBErr))

	if a.Panic != "" {
		add("panic:"+j.Event.Op, fmt.Sprintf("%s panicked: %s", j.Event, a.Panic), a.Panic)

		return res
	}

	after := s.dump()
	res.Key = hash(after)
	res.NonTrivial = hasUsers(before) || hasUsers(after)

	if (a.FileErr == "") != (a.DBErr == "") {
		add("diff:error:"+j.Event.Op+":"+phase, fmt.Sprintf("%s: one store reports an error, the other does not", j.Event), fmt.Sprintf("file: %q, database: %q", a.FileErr, a.DBErr))
	}

	if j.Event.Op == "read" && a.FileUser != a.DBUser {
		add("diff:readuser:"+phase, fmt.Sprintf("%s returns different records", j.Event), fmt.Sprintf("file: %s, database: %s", a.FileUser, a.DBUser))
	}

	of, od := s.observe(s.file), s.observe(s.db)

	if aspect, detail := diff(of, od); aspect != "" {
		add("diff:"+aspect+":"+phase, fmt.Sprintf("after %s the file store and the database store answer differently (%s)", j.Event, aspect), "file vs database — "+detail)
	}

	if j.Event.Op == "reopen" && a.BeforeF != nil {
		if aspect, detail := diff(a.BeforeF, of); aspect != "" {
			add("persist:file:"+aspect, fmt.Sprintf("the file store answers differently after flush, close and reopen (%s)", aspect), "before vs after — "+detail)
		}

		if aspect, detail := diff(a.BeforeD, od); aspect != "" {
			add("persist:database:"+aspect, fmt.Sprintf("the database store answers differently after flush, close and reopen (%s)", aspect), "before vs after — "+detail)
		}
	}

	b, _ := json.Marshal(of)
	res.ObsHash = hash(string(b))

	switch {
	case len(res.Findings) > 0:
		bd, _ := json.Marshal(od)
		res.Trace = append(res.Trace, "file store now answers: "+string(b), "database store now answers: "+string(bd))
	case j.Sample:
		res.Obs = string(b)
	default:
		res.Trace = nil
	}

	return res
}

// ---- worker process -----------------------------------------------------

func workerMain() {
	// Debug aid: C31_PROF=<file> writes a CPU profile of worker 0.
	if p := os.Getenv("C31_PROF"); p != "" && os.Getenv("C31_WORKER") == "0" {
		if f, err := os.Create(p); err == nil {
			_ = pprof.StartCPUProfile(f)

			defer pprof.StopCPUProfile()
		}
	}

	in := os.NewFile(3, "jobs")
	out := os.NewFile(4, "results")
	w := bufio.NewWriter(out)
	enc := json.NewEncoder(w)

	s, err := openStores(filepath.Join(os.Getenv("VERIF_SCRATCH"), "c31", "w"+os.Getenv("C31_WORKER")))
	if err != nil {
		_ = enc.Encode(result{ID: -1, Fatal: "worker start: " + err.Error()})
		_ = w.Flush()

		os.Exit(3)
	}

	_ = enc.Encode(result{ID: -1})
	_ = w.Flush()

	sc := bufio.NewScanner(in)
	sc.Buffer(make([]byte, 1<<20), 1<<26)

	for sc.Scan() {
		var j job
		if err := json.Unmarshal(sc.Bytes(), &j); err != nil {
			_ = enc.Encode(result{ID: -2, Fatal: "bad job: " + err.Error()})
			_ = w.Flush()

			continue
		}

		_ = enc.Encode(execute(s, j))
		_ = w.Flush()
	}

	s.closeAll()
}

type worker struct {
	cmd *exec.Cmd
	in  *os.File
	enc *json.Encoder
	sc  *bufio.Scanner
}

func startWorker(i int, logDir string) (*worker, error) {
	jr, jw, err := os.Pipe()
	if err != nil {
		return nil, err
	}

	rr, rw, err := os.Pipe()
	if err != nil {
		return nil, err
	}

	cmd := exec.Command(os.Args[0])
	cmd.Env = append(os.Environ(), fmt.Sprintf("C31_WORKER=%d", i), "GOMAXPROCS=1")
	cmd.ExtraFiles = []*os.File{jr, rw}

	logf, err := os.Create(filepath.Join(logDir, fmt.Sprintf("worker%d.log", i)))
	if err != nil {
		return nil, err
	}

	cmd.Stdout, cmd.Stderr = logf, logf

	if err := cmd.Start(); err != nil {
		return nil, err
	}

	jr.Close()
	rw.Close()
	logf.Close()

	w := &worker{cmd: cmd, in: jw, enc: json.NewEncoder(jw), sc: bufio.NewScanner(rr)}
	w.sc.Buffer(make([]byte, 1<<20), 1<<26)

	r, err := w.recv()
	if err != nil {
		return nil, fmt.Errorf("worker %d did not start: %v", i, err)
	}

	if r.Fatal != "" {
		return nil, fmt.Errorf("worker %d: %s", i, r.Fatal)
	}

	return w, nil
}

func (w *worker) recv() (result, error) {
	var r result

	if !w.sc.Scan() {
		if err := w.sc.Err(); err != nil {
			return r, err
		}

		return r, fmt.Errorf("worker closed its result pipe")
	}

	return r, json.Unmarshal(w.sc.Bytes(), &r)
}

func (w *worker) stop() {
	w.in.Close()
	_ = w.cmd.Wait()
}

// runAll executes the jobs on the workers; results come back by job index.
func runAll(ws []*worker, jobs []job) []result {
	results := make([]result, len(jobs))
	done := make([]bool, len(jobs))

	for i := range jobs {
		jobs[i].ID = i
	}

	var wg sync.WaitGroup

	// Worker k gets jobs k, k+n, k+2n, ... in one stream (no round trip per
	// job: a hand-off between two processes costs a scheduling delay each way);
	// its results are read concurrently and filed by job index.
	for k, w := range ws {
		mine := 0
		for i := k; i < len(jobs); i += len(ws) {
			mine++
		}

		if mine == 0 {
			continue
		}

		wg.Add(2)

		go func(k int, w *worker) {
			defer wg.Done()

			for i := k; i < len(jobs); i += len(ws) {
				if err := w.enc.Encode(jobs[i]); err != nil {
					return
				}
			}
		}(k, w)

		go func(k int, w *worker, mine int) {
			defer wg.Done()

			for n := 0; n < mine; n++ {
				r, err := w.recv()
				if err != nil || r.ID < 0 || r.ID >= len(jobs) {
					return
				}

				results[r.ID], done[r.ID] = r, true
			}
		}(k, w, mine)
	}

	wg.Wait()

	for i := range jobs {
		if !done[i] {
			results[i] = result{Fatal: fmt.Sprintf("no result for %v + %s: the worker process failed (see its log)", texts(jobs[i].Hist), jobs[i].Event)}
		}
	}

	return results
}

// ---- alphabet -----------------------------------------------------------

func alphabet(variants int) []Event {
	var ev []Event

	for u := range users {
		for v := 0; v < variants; v++ {
			ev = append(ev, Event{Op: "write", User: u, Var: v})
		}
	}

	for u := 0; u <= len(users); u++ {
		ev = append(ev, Event{Op: "delete", User: u})
	}

	for u := range users {
		for p := range perms {
			ev = append(ev, Event{Op: "perm", User: u, Perm: p, On: true}, Event{Op: "perm", User: u, Perm: p, On: false})
		}
	}

	ev = append(ev, Event{Op: "perm", User: len(users), Perm: 0, On: true})

	for u := range users {
		ev = append(ev, Event{Op: "read", User: u})
	}

	ev = append(ev, Event{Op: "flush"}, Event{Op: "reopen"})

	return ev
}

type state struct {
	key  string
	hist []Event
}

func main() {
	if os.Getenv("C31_WORKER") != "" {
		workerMain()

		return
	}

	r := report.New("model_checking")
	variants := r.Pick(2, 3)
	maxDepth := r.Pick(4, 6)
	events := alphabet(variants)

	r.Assume(
		"SQLite (modernc.org/sqlite) backs the database service; PostgreSQL is not executed",
		"the bootstrap administrator both services create on first start is never touched and never compared (its id and password are random)",
		"a reopen is Flush + Close + a new service on the same file / database with an empty credential cache (a restarted server); a crash without flush is not modelled",
		"the spelling of the mask in ListUsers(true) is not compared, only that the stored credential is not shown; a nil and an empty permission list are the same answer; passkeys are compared as JSON values",
		"no user-data encryption key is configured (plain JSON file)",
		"the cache clock is frozen (woven time): credential-cache expiry is C28's subject",
	)
	r.Rule(fmt.Sprintf("BFS over histories up to depth %d of {WriteUser(2 users x %d record variants), DeleteUser(2 users + unknown), setPermission(2 users x {root, Logon} x on/off + unknown user), ReadUser(2 users), Flush, Flush+Close+reopen} = %d events, applied to the file service and the database service together; after each event every answer about users (ReadUser exact/other-case/unknown, ListUsers(false/true), GetPermissions, GetPermission) is compared between the two stores, and across each reopen within a store. States merged on file-service private state + file on disk + raw credentials rows + credential cache. distinct = (state,event) pairs with at least one user besides the bootstrap administrator in either store.", maxDepth, variants, len(events)))

	scratch := os.Getenv("VERIF_SCRATCH")
	if scratch == "" {
		scratch, _ = os.MkdirTemp("", "c31-")
		os.Setenv("VERIF_SCRATCH", scratch)

		defer os.RemoveAll(scratch)
	}

	logDir := filepath.Join(scratch, "c31", "logs")
	_ = os.MkdirAll(logDir, 0o755)

	if r.Replay != "" {
		var w witness
		if err := report.LoadReplay(r.Replay, &w); err != nil {
			report.Fatal("%v", err)
		}

		s, err := openStores(filepath.Join(scratch, "c31", "replay"))
		if err != nil {
			report.Fatal("%v", err)
		}

		res := execute(s, job{Hist: w.History, Event: w.Event})
		s.closeAll()

		if res.Fatal != "" {
			report.Fatal("%s", res.Fatal)
		}

		for _, l := range res.Trace {
			fmt.Println("replay:", l)
		}

		for _, f := range res.Findings {
			r.Violation(f.Cell, len(w.History), witness{History: w.History, Event: w.Event, Trace: res.Trace, Detail: f.Detail}, f.Msg)
		}

		r.Eval(1)
		r.Finish()
	}

	nw := runtime.NumCPU()
	if nw > 16 {
		nw = 16
	}

	workers := make([]*worker, 0, nw)

	var (
		wmu sync.Mutex
		wg  sync.WaitGroup
	)

	startErr := ""

	for i := 0; i < nw; i++ {
		wg.Add(1)

		go func(i int) {
			defer wg.Done()

			w, err := startWorker(i, logDir)

			wmu.Lock()
			defer wmu.Unlock()

			if err != nil {
				startErr = err.Error()

				return
			}

			workers = append(workers, w)
		}(i)
	}

	wg.Wait()

	if startErr != "" {
		report.Fatal("%s", startErr)
	}

	stopAll := func() {
		for _, w := range workers {
			w.stop()
		}
	}

	init := runAll(workers[:1], []job{{NoEvent: true}})[0]
	if init.Fatal != "" {
		report.Fatal("%s", init.Fatal)
	}

	// The first-start state must be the same in every worker.
	for _, res := range runAll(workers, makeJobs(len(workers)*2, job{NoEvent: true, WantKey: init.Key})) {
		if res.Fatal != "" {
			report.Fatal("first-start state differs between workers: %s", res.Fatal)
		}
	}

	seen := map[string]bool{init.Key: true}
	frontier := []state{{key: init.Key}}
	states, transitions, depthReached := 1, 0, 0
	outcomes := map[string]bool{}
	perOp := map[string]int64{}
	sampled := map[string]int{}

	for depth := 0; len(frontier) > 0 && depth < maxDepth; depth++ {
		depthReached = depth + 1

		jobs := make([]job, 0, len(frontier)*len(events))
		for _, st := range frontier {
			for _, e := range events {
				j := job{ID: len(jobs), Hist: st.hist, Event: e, WantKey: st.key}

				// A few written-out cases: the 5th job of each (operation, depth) shape from depth 2 on.
				shape := fmt.Sprintf("%s/%d", e.Op, depth)
				if depth >= 2 {
					sampled[shape]++
					j.Sample = sampled[shape] == 5
				}

				jobs = append(jobs, j)
			}
		}

		results := runAll(workers, jobs)

		var next []state

		for i, res := range results {
			st, e := frontier[i/len(events)], events[i%len(events)]

			if res.Fatal != "" {
				report.Fatal("%s", res.Fatal)
			}

			transitions++
			r.Eval(1)
			perOp[e.Op]++

			if res.NonTrivial {
				r.Distinct(st.key + "|" + e.String())
			}

			if len(res.Findings) == 0 {
				outcomes[res.ObsHash] = true
			}

			if res.Obs != "" {
				r.Sample(map[string]any{"history": texts(st.hist), "event": e.String(), "both_stores_then_answer": json.RawMessage(res.Obs)})
			}

			if len(res.Findings) > 0 {
				for _, f := range res.Findings {
					e.Text = e.String()
					r.Violation(f.Cell, len(st.hist), witness{History: withText(st.hist), Event: e, Trace: res.Trace, Detail: f.Detail}, f.Msg)
				}

				continue // the stores have diverged: no meaningful future
			}

			if !seen[res.Key] {
				seen[res.Key] = true
				states++

				next = append(next, state{key: res.Key, hist: append(append([]Event{}, st.hist...), e)})
			}
		}

		r.Set(fmt.Sprintf("new_states_depth_%d", depth+1), len(next))
		frontier = next
	}

	if len(frontier) > 0 {
		r.Set("unexpanded_states_at_bound", len(frontier))
	}

	r.Set("states", states)
	r.Set("transitions", transitions)
	r.Set("traces_validated_against_impl", transitions)
	r.Set("max_depth", depthReached)
	r.Set("events", len(events))
	r.Set("distinct_agreed_observations", len(outcomes))
	r.Set("transitions_per_op", perOp)
	r.Set("workers", len(workers))
	stopAll()
	r.Finish()
}

func makeJobs(n int, j job) []job {
	out := make([]job, n)
	for i := range out {
		out[i] = j
		out[i].ID = i
	}

	return out
}

func texts(h []Event) []string {
	out := make([]string, len(h))
	for i, e := range h {
		out[i] = e.String()
	}

	return out
}

func withText(h []Event) []Event {
	out := make([]Event, len(h))
	for i, e := range h {
		e.Text = e.String()
		out[i] = e
	}

	return out
}

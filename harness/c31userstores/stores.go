package main

import (
	"bytes"
	"encoding/json"
	"fmt"
	"os"
	"path/filepath"
	"sort"
	"strings"
	gotime "time"

	"github.com/google/uuid"
	"github.com/tucats/ego/internal/caches"
	"github.com/tucats/ego/internal/defs"
	"github.com/tucats/ego/internal/server/auth"
	vtime "github.com/tucats/ego/internal/verifrt/vtime"
)

// The alphabet's names. "ALICE" (other case) and "nobody" are only looked up.
var (
	users     = []string{"alice", "bob"}
	otherCase = "ALICE"
	ghost     = "nobody"
	perms     = []string{"root", "Logon"} // handed in as written; setPermission lower-cases
	admin     = "admin"
)

// Event is one step of a history.
type Event struct {
	Op   string `json:"op"` // write delete perm flush reopen read
	User int    `json:"user,omitempty"`
	Var  int    `json:"var,omitempty"`
	Perm int    `json:"perm,omitempty"`
	On   bool   `json:"on,omitempty"`
	Text string `json:"text,omitempty"`
}

func userName(i int) string {
	if i >= len(users) {
		return ghost
	}

	return users[i]
}

func (e Event) String() string {
	switch e.Op {
	case "write":
		return fmt.Sprintf("WriteUser(%s,v%d)", userName(e.User), e.Var)
	case "delete":
		return fmt.Sprintf("DeleteUser(%s)", userName(e.User))
	case "perm":
		return fmt.Sprintf("setPermission(%s,%q,%v)", userName(e.User), perms[e.Perm], e.On)
	case "read":
		return fmt.Sprintf("ReadUser(%s)", userName(e.User))
	case "flush":
		return "Flush()"
	case "reopen":
		return "Flush+Close+reopen"
	}

	return e.Op
}

var ids = []uuid.UUID{
	uuid.MustParse("11111111-1111-4111-8111-111111111111"),
	uuid.MustParse("22222222-2222-4222-8222-222222222222"),
	uuid.MustParse("33333333-3333-4333-8333-333333333333"),
	uuid.MustParse("44444444-4444-4444-8444-444444444444"),
}

// mkUser builds a fresh value (no slice shared between calls or stores).
func mkUser(u, v int) defs.User {
	switch v {
	case 0:
		return defs.User{Name: users[u], ID: ids[u], Password: "pw-hash-0"}
	case 1:
		return defs.User{Name: users[u], ID: ids[2+u], Password: `$2a$12$abc'def"gh`, Permissions: []string{"logon", "table_admin"},
			Passkeys: json.RawMessage(`[{"id":"k1","n":[1,2]}]`), LastTokenAt: "2026-01-02T03:04:05Z"}
	default:
		return defs.User{Name: users[u], ID: ids[u], Password: "", Permissions: []string{}}
	}
}

// canonUser is the comparison form of a user record: a nil and an empty
// permission list are the same list, passkeys are compared as JSON values.
type canonUser struct {
	Name, ID, Password, Passkeys, LastTokenAt string
	Permissions                               []string
}

func canonOf(u defs.User) canonUser {
	c := canonUser{Name: u.Name, ID: u.ID.String(), Password: u.Password, LastTokenAt: u.LastTokenAt, Permissions: []string{}}
	c.Permissions = append(c.Permissions, u.Permissions...)

	if len(u.Passkeys) > 0 {
		var b bytes.Buffer
		if err := json.Compact(&b, u.Passkeys); err == nil {
			c.Passkeys = b.String()
		} else {
			c.Passkeys = "INVALID:" + string(u.Passkeys)
		}
	}

	return c
}

func (c canonUser) String() string {
	b, _ := json.Marshal(c)

	return string(b)
}

// maskAdmin blanks what is random in the bootstrap administrator.
func maskAdmin(u defs.User) defs.User {
	if u.Name == admin {
		u.ID = uuid.Nil
		u.Password = "<bootstrap>"
	}

	return u
}

// Stores is the pair of real services of one worker process.
type Stores struct {
	dir      string
	filePath string
	conn     string
	pristine []byte
	file     auth.VerifC31Service
	db       auth.VerifC31Service
	reopened bool
}

func openStores(dir string) (*Stores, error) {
	// The cache package is woven onto a manual clock that never moves: cached
	// entries never age during a run and the sweeper goroutine never wakes.
	vtime.Set(gotime.Date(2030, 1, 1, 0, 0, 0, 0, gotime.UTC))
	vtime.SleepHook = func(gotime.Duration) { select {} }

	if err := os.MkdirAll(dir, 0o700); err != nil {
		return nil, err
	}

	s := &Stores{dir: dir, filePath: filepath.Join(dir, "users.json")}
	// synchronous=OFF: no fsync per commit; nothing here depends on power-loss durability.
	s.conn = "sqlite://" + filepath.Join(dir, "users.db") + "?_pragma=synchronous(0)"

	f, err := auth.NewFileService(s.filePath, admin, "bootstrap-password")
	if err != nil {
		return nil, fmt.Errorf("file service: %v", err)
	}

	if err := f.Flush(); err != nil {
		return nil, fmt.Errorf("file service flush: %v", err)
	}

	if s.pristine, err = os.ReadFile(s.filePath); err != nil {
		return nil, err
	}

	if s.db, err = auth.NewDatabaseService(s.conn, admin, "bootstrap-password"); err != nil {
		return nil, fmt.Errorf("database service: %v", err)
	}

	return s, nil
}

// reset puts both stores into the state of a first start: the file store is a
// new service on a copy of the pristine file; the database keeps its
// connection but holds only the bootstrap administrator; the cache is empty.
func (s *Stores) reset() error {
	caches.PurgeLocal(caches.AuthCache)

	if err := os.WriteFile(s.filePath, s.pristine, 0o600); err != nil {
		return err
	}

	f, err := auth.NewFileService(s.filePath, admin, "bootstrap-password")
	if err != nil {
		return err
	}

	s.file = f

	h := auth.VerifC31DBHandle(s.db)
	if h == nil {
		return fmt.Errorf("no database handle")
	}

	if _, err := h.Database.Exec(`delete from "credentials" where "name" <> $1`, admin); err != nil {
		// Something still holds the database: start over on a new file.
		_ = s.db.Close()
		_ = os.Remove(filepath.Join(s.dir, "users.db"))

		if s.db, err = auth.NewDatabaseService(s.conn, admin, "bootstrap-password"); err != nil {
			return err
		}
	}

	caches.PurgeLocal(caches.AuthCache)

	// A first start looks its default user up (NewDatabaseService does), which
	// leaves that record in the credential cache: do the same, so that this
	// state and the state after a reopen with nothing changed are one state.
	_, _ = s.db.ReadUser(0, admin, true)

	s.reopened = false

	return nil
}

func (s *Stores) closeAll() {
	if s.db != nil {
		_ = s.db.Close()
	}
}

func errText(err error) string {
	if err == nil {
		return ""
	}

	if t := err.Error(); t != "" {
		return t
	}

	return "error"
}

// Answer is what the two stores said to one event.
type Answer struct {
	FileErr, DBErr   string
	FileUser, DBUser string // read: the record returned
	BeforeF, BeforeD *Obs   // reopen: the observations just before closing
	Panic            string
}

func (s *Stores) apply(e Event, check bool) (a Answer) {
	defer func() {
		if x := recover(); x != nil {
			a.Panic = fmt.Sprint(x)
		}
	}()

	name := userName(e.User)

	switch e.Op {
	case "write":
		a.FileErr = errText(s.file.WriteUser(1, mkUser(e.User, e.Var)))
		a.DBErr = errText(s.db.WriteUser(1, mkUser(e.User, e.Var)))
	case "delete":
		a.FileErr = errText(s.file.DeleteUser(1, name))
		a.DBErr = errText(s.db.DeleteUser(1, name))
	case "perm":
		auth.VerifC31Use(s.file)
		a.FileErr = errText(auth.VerifC31SetPermission(1, name, perms[e.Perm], e.On))

		auth.VerifC31Use(s.db)
		a.DBErr = errText(auth.VerifC31SetPermission(1, name, perms[e.Perm], e.On))
	case "read":
		u, err := s.file.ReadUser(1, name, false)
		a.FileErr = errText(err)

		if err == nil {
			a.FileUser = canonOf(u).String()
		}

		u, err = s.db.ReadUser(1, name, false)
		a.DBErr = errText(err)

		if err == nil {
			a.DBUser = canonOf(u).String()
		}
	case "flush":
		a.FileErr = errText(s.file.Flush())
		a.DBErr = errText(s.db.Flush())
	case "reopen":
		if check {
			a.BeforeF, a.BeforeD = s.observe(s.file), s.observe(s.db)
		}

		a.FileErr = errText(s.file.Flush())
		if err := s.file.Close(); err != nil && a.FileErr == "" {
			a.FileErr = errText(err)
		}

		a.DBErr = errText(s.db.Flush())
		if err := s.db.Close(); err != nil && a.DBErr == "" {
			a.DBErr = errText(err)
		}

		// A restarted server starts with empty caches.
		caches.PurgeLocal(caches.AuthCache)

		f, err := auth.NewFileService(s.filePath, admin, "bootstrap-password")
		if err != nil {
			a.FileErr = "reopen: " + errText(err)
		}

		if f != nil {
			s.file = f
		}

		d, err := auth.NewDatabaseService(s.conn, admin, "bootstrap-password")
		if err != nil {
			a.DBErr = "reopen: " + errText(err)
		} else {
			s.db = d
		}

		s.reopened = true
	}

	return a
}

// Obs is every answer about users a store gives, in comparison form.
type Obs struct {
	Read   map[string]string   `json:"read"`          // ReadUser: name -> record | "absent"
	List   map[string]string   `json:"list"`          // ListUsers(false), bootstrap admin left out
	Masked map[string]string   `json:"masked"`        // ListUsers(true): record with the password field judged
	Perms  map[string][]string `json:"permissions"`   // GetPermissions
	Has    map[string]bool     `json:"hasPermission"` // GetPermission(user, p)
}

func (s *Stores) observe(svc auth.VerifC31Service) *Obs {
	o := &Obs{Read: map[string]string{}, List: map[string]string{}, Masked: map[string]string{}, Perms: map[string][]string{}, Has: map[string]bool{}}

	auth.VerifC31Use(svc)

	real := map[string]string{}

	for k, u := range svc.ListUsers(false) {
		if u.Name == admin && k == admin {
			continue
		}

		c := canonOf(u)
		real[k] = c.Password
		o.List[k] = c.String()
	}

	for k, u := range svc.ListUsers(true) {
		if u.Name == admin && k == admin {
			continue
		}

		c := canonOf(u)

		// The spelling of the mask is not an answer about the user; that the
		// stored credential is not shown is.
		if stored, ok := real[k]; ok && stored != "" && c.Password == stored {
			c.Password = "<STORED CREDENTIAL SHOWN>"
		} else {
			c.Password = "<masked>"
		}

		o.Masked[k] = c.String()
	}

	for _, n := range []string{users[0], users[1], otherCase, ghost} {
		u, err := svc.ReadUser(1, n, false)
		if err != nil {
			o.Read[n] = "absent"
		} else {
			o.Read[n] = canonOf(u).String()
		}

		p := auth.GetPermissions(1, n)
		o.Perms[n] = append([]string{}, p...)

		for _, q := range []string{"root", "logon", "table_admin"} {
			o.Has[n+"/"+q] = auth.GetPermission(1, n, q)
		}
	}

	return o
}

// diff names the first aspect in which two observations differ ("" = none).
func diff(a, b *Obs) (aspect, detail string) {
	ja, _ := json.Marshal(a)
	jb, _ := json.Marshal(b)

	if bytes.Equal(ja, jb) {
		return "", ""
	}

	cmpMaps := func(what string, x, y map[string]string) (string, string) {
		names := map[string]bool{}
		for k := range x {
			names[k] = true
		}

		for k := range y {
			names[k] = true
		}

		keys := make([]string, 0, len(names))
		for k := range names {
			keys = append(keys, k)
		}

		sort.Strings(keys)

		for _, k := range keys {
			vx, okx := x[k]
			vy, oky := y[k]

			if !okx {
				vx = "absent"
			}

			if !oky {
				vy = "absent"
			}

			if vx == vy {
				continue
			}

			if vx == "absent" || vy == "absent" {
				return "existence", fmt.Sprintf("%s %s: %s vs %s", what, k, vx, vy)
			}

			var cx, cy canonUser

			_ = json.Unmarshal([]byte(vx), &cx)
			_ = json.Unmarshal([]byte(vy), &cy)

			field := "record"

			switch {
			case cx.Name != cy.Name:
				field = "name"
			case cx.ID != cy.ID:
				field = "id"
			case cx.Password != cy.Password:
				field = "credential"
			case strings.Join(cx.Permissions, ",") != strings.Join(cy.Permissions, ","):
				field = "permissions"
			case cx.Passkeys != cy.Passkeys:
				field = "passkeys"
			case cx.LastTokenAt != cy.LastTokenAt:
				field = "lasttokenat"
			}

			return field, fmt.Sprintf("%s %s: %s vs %s", what, k, vx, vy)
		}

		return "", ""
	}

	if f, d := cmpMaps("ReadUser", a.Read, b.Read); f != "" {
		return f, d
	}

	if f, d := cmpMaps("ListUsers(false)", a.List, b.List); f != "" {
		return f, d
	}

	if f, d := cmpMaps("ListUsers(true)", a.Masked, b.Masked); f != "" {
		return f, d
	}

	sorted := func(n int, each func(add func(string))) []string {
		out := make([]string, 0, n)
		each(func(k string) { out = append(out, k) })
		sort.Strings(out)

		return out
	}

	for _, k := range sorted(len(a.Perms), func(add func(string)) {
		for k := range a.Perms {
			add(k)
		}
	}) {
		if strings.Join(a.Perms[k], ",") != strings.Join(b.Perms[k], ",") {
			return "permissions", fmt.Sprintf("GetPermissions %s: %v vs %v", k, a.Perms[k], b.Perms[k])
		}
	}

	for _, k := range sorted(len(a.Has), func(add func(string)) {
		for k := range a.Has {
			add(k)
		}
	}) {
		if a.Has[k] != b.Has[k] {
			return "permissions", fmt.Sprintf("GetPermission %s: %v vs %v", k, a.Has[k], b.Has[k])
		}
	}

	return "other", string(ja) + " vs " + string(jb)
}

// dump is the canonical key of the implementation state: the private state of
// the file service, the file on disk, the raw rows of the database table and
// the contents of the credential cache.
func (s *Stores) dump() string {
	var b strings.Builder

	b.WriteString("FILE " + auth.VerifC31FileState(s.file, maskAdmin) + "\n")

	disk := map[string]defs.User{}

	if raw, err := os.ReadFile(s.filePath); err == nil {
		var lines []string

		for _, l := range strings.Split(string(raw), "\n") {
			if !strings.HasPrefix(l, "//") && !strings.HasPrefix(l, "#") {
				lines = append(lines, l)
			}
		}

		if err := json.Unmarshal([]byte(strings.Join(lines, "\n")), &disk); err != nil {
			b.WriteString("DISK unreadable: " + err.Error() + "\n")
		}
	} else {
		b.WriteString("DISK missing\n")
	}

	names := make([]string, 0, len(disk))
	for k := range disk {
		names = append(names, k)
	}

	sort.Strings(names)

	for _, k := range names {
		u := maskAdmin(disk[k])
		j, _ := json.Marshal(u)
		fmt.Fprintf(&b, "DISK %q=%s nilperm=%v\n", k, j, u.Permissions == nil)
	}

	if h := auth.VerifC31DBHandle(s.db); h != nil {
		rows, err := h.Database.Query(`select * from "credentials"`)
		if err != nil {
			b.WriteString("DB unreadable: " + err.Error() + "\n")
		} else {
			cols, _ := rows.Columns()

			var out []string

			for rows.Next() {
				vals := make([]any, len(cols))
				ptrs := make([]any, len(cols))

				for i := range vals {
					ptrs[i] = &vals[i]
				}

				if err := rows.Scan(ptrs...); err != nil {
					out = append(out, "scan: "+err.Error())

					continue
				}

				isAdmin := false

				for i, c := range cols {
					if c == "name" && fmt.Sprint(vals[i]) == admin {
						isAdmin = true
					}
				}

				line := ""

				for i, c := range cols {
					v := vals[i]
					if x, ok := v.([]byte); ok {
						v = string(x)
					}

					if isAdmin && (c == "id" || c == "password") {
						v = "<bootstrap>"
					}

					line += fmt.Sprintf("%s=%T:%v;", c, v, v)
				}

				out = append(out, line)
			}

			rows.Close()
			sort.Strings(out)

			for _, l := range out {
				b.WriteString("DB " + l + "\n")
			}
		}
	}

	items := caches.VerifC31Items(caches.AuthCache)
	ck := make([]string, 0, len(items))

	for k, v := range items {
		if u, ok := v.(defs.User); ok {
			u = maskAdmin(u)
			j, _ := json.Marshal(u)
			ck = append(ck, fmt.Sprintf("%v=%s nilperm=%v", k, j, u.Permissions == nil))
		} else {
			ck = append(ck, fmt.Sprintf("%v=%T", k, v))
		}
	}

	sort.Strings(ck)

	for _, l := range ck {
		b.WriteString("CACHE " + l + "\n")
	}

	return b.String()
}

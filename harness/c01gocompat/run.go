package main

// Running the two sides: the Go reference (many programs per binary, one
// process per program) and Ego (packed files for the bulk, a fresh `ego run`
// process per program for aborting programs, representatives and every
// disagreement).

import (
	"bytes"
	"context"
	"fmt"
	"os"
	"os/exec"
	"os/user"
	"path/filepath"
	"strconv"
	"strings"
	"sync"
	"time"

	"github.com/tucats/ego/internal/verifrt/report"
)

type outcome struct {
	Stdout   string `json:"stdout"`
	Stderr   string `json:"stderr,omitempty"`
	Exit     int    `json:"exit"`
	TimedOut bool   `json:"timed_out,omitempty"`
}

func run(timeout time.Duration, dir string, env []string, name string, args ...string) outcome {
	ctx, cancel := context.WithTimeout(context.Background(), timeout)
	defer cancel()

	cmd := exec.CommandContext(ctx, name, args...)
	cmd.Dir = dir
	cmd.Env = env

	var so, se bytes.Buffer

	// No WaitDelay: Run returns only when both pipes have been read to the end,
	// so output can never be cut short on a loaded machine (the children start
	// no processes of their own that could keep a pipe open).
	cmd.Stdout, cmd.Stderr = &so, &se
	err := cmd.Run()

	o := outcome{Stdout: so.String(), Stderr: se.String()}

	if ctx.Err() != nil {
		o.TimedOut = true
		o.Exit = -1

		return o
	}

	if err != nil {
		if ee, ok := err.(*exec.ExitError); ok {
			o.Exit = ee.ExitCode()
		} else {
			o.Exit = -2
			o.Stderr += err.Error()
		}
	}

	if len(o.Stderr) > 2000 {
		o.Stderr = o.Stderr[:2000]
	}

	return o
}

// ---- Go reference ---------------------------------------------------------

var scratch string

// goEnv is the environment for the reference build: the default `go` command,
// module mode, offline. GOTOOLCHAIN is left alone on purpose.
func goEnv() []string {
	env := []string{}

	for _, e := range os.Environ() {
		if strings.HasPrefix(e, "GOFLAGS=") || strings.HasPrefix(e, "GOPROXY=") || strings.HasPrefix(e, "HOME=") || strings.HasPrefix(e, "GOTOOLCHAIN=") {
			continue
		}

		env = append(env, e)
	}

	// The harness runs with a scratch HOME; the Go build cache lives under
	// the real one (a cold cache only costs time).
	home := "/root"
	if u, err := user.Current(); err == nil && u.HomeDir != "" {
		home = u.HomeDir
	}

	return append(env, "HOME="+home, "GOFLAGS=-mod=mod", "GOPROXY=off")
}

// buildGo compiles the given programs into one binary that runs program i
// when called with argument i.
func buildGo(env []string, dir string, ps []*prog) (string, error) {
	if err := os.MkdirAll(dir, 0o755); err != nil {
		return "", err
	}

	var b strings.Builder

	b.WriteString("package main\n\nimport (\n\t\"fmt\"\n\t\"os\"\n\t\"strconv\"\n)\n\n")

	for _, p := range ps {
		b.WriteString(p.fn())
		b.WriteString("\n")
	}

	b.WriteString("var progs = map[int]func(){\n")

	for _, p := range ps {
		fmt.Fprintf(&b, "\t%d: p%d,\n", p.idx, p.idx)
	}

	b.WriteString("}\n\nvar order = []int{")

	for _, p := range ps {
		fmt.Fprintf(&b, "%d, ", p.idx)
	}

	// "all" runs every program of the batch in one process, each guarded by a
	// recover: this only finds out which programs panic (those are then run
	// again, alone, and that run is the reference).
	b.WriteString("}\n\nfunc guarded(f func()) (panicked bool) {\n\tdefer func() {\n\t\tif e := recover(); e != nil {\n\t\t\tpanicked = true\n\t\t}\n\t}()\n\tf()\n\treturn false\n}\n\n" +
		"func main() {\n\tif os.Args[1] == \"all\" {\n\t\tfor _, n := range order {\n\t\t\tfmt.Printf(\"#B %d\\n\", n)\n\t\t\tif guarded(progs[n]) {\n\t\t\t\tfmt.Printf(\"#P %d\\n\", n)\n\t\t\t}\n\t\t\tfmt.Printf(\"#E %d\\n\", n)\n\t\t}\n\t\treturn\n\t}\n" +
		"\tn, _ := strconv.Atoi(os.Args[1])\n\tf, ok := progs[n]\n\tif !ok {\n\t\tfmt.Println(\"no such program\")\n\t\tos.Exit(3)\n\t}\n\tf()\n}\n")

	if err := os.WriteFile(filepath.Join(dir, "main.go"), []byte(b.String()), 0o644); err != nil {
		return "", err
	}

	if err := os.WriteFile(filepath.Join(dir, "go.mod"), []byte("module ref\n\ngo 1.23\n"), 0o644); err != nil {
		return "", err
	}

	o := run(10*time.Minute, dir, env, "go", "build", "-o", "ref.bin", ".")
	if o.Exit != 0 || o.TimedOut {
		msg := o.Stderr + o.Stdout
		if len(msg) > 1500 {
			msg = msg[:1500]
		}

		return "", fmt.Errorf("reference does not compile (generator bug, not a verdict): %s", msg)
	}

	return filepath.Join(dir, "ref.bin"), nil
}

type refResult struct {
	Stdout string
	Abort  bool
	Panic  string // first line of the panic report
}

// reference builds and runs every program with Go.
func reference(ps []*prog, workers int) []refResult {
	const batch = 1500

	env := goEnv()
	res := make([]refResult, len(ps))
	nb := (len(ps) + batch - 1) / batch
	bins := make([]string, nb)
	errs := make([]error, nb)

	parallel(nb, 4, func(_ int, b int) {
		lo, hi := b*batch, (b+1)*batch
		if hi > len(ps) {
			hi = len(ps)
		}

		bins[b], errs[b] = buildGo(env, filepath.Join(scratch, "ref", fmt.Sprint("b", b)), ps[lo:hi])
	})

	for _, e := range errs {
		if e != nil {
			report.Fatal("%v", e)
		}
	}

	// pass 1: one process per batch finds the programs that panic
	panics := make([]bool, len(ps))

	parallel(nb, workers, func(_ int, b int) {
		o := run(10*time.Minute, scratch, env, bins[b], "all")
		if o.TimedOut || o.Exit != 0 {
			report.Fatal("reference batch %d: exit %d timed-out=%v: %s", b, o.Exit, o.TimedOut, o.Stderr)
		}

		lo, hi := b*batch, (b+1)*batch
		if hi > len(ps) {
			hi = len(ps)
		}

		out := o.Stdout
		pos := 0

		for i := lo; i < hi; i++ {
			begin, end := fmt.Sprintf("#B %d\n", ps[i].idx), fmt.Sprintf("#E %d\n", ps[i].idx)
			if !strings.HasPrefix(out[pos:], begin) {
				report.Fatal("reference batch %d: output of program %d not found", b, i)
			}

			start := pos + len(begin)

			k := strings.Index(out[start:], end)
			if k < 0 {
				report.Fatal("reference batch %d: end of program %d not found", b, i)
			}

			sect := out[start : start+k]
			pos = start + k + len(end)

			if mark := fmt.Sprintf("#P %d\n", ps[i].idx); strings.HasSuffix(sect, mark) {
				panics[i] = true
			} else {
				res[i] = refResult{Stdout: sect}
			}
		}
	})

	// pass 2: every panicking program alone, in its own process
	var idx []int

	for i, p := range panics {
		if p {
			idx = append(idx, i)
		}
	}

	parallel(len(idx), workers, func(_ int, k int) {
		i := idx[k]

		o := run(5*time.Minute, scratch, env, bins[i/batch], strconv.Itoa(ps[i].idx))
		if o.TimedOut {
			report.Fatal("reference program %d timed out", i)
		}

		if o.Exit != 2 || !strings.HasPrefix(o.Stderr, "panic: ") {
			report.Fatal("reference program %d: expected a panic, got exit %d: %s", i, o.Exit, o.Stderr)
		}

		res[i] = refResult{Stdout: o.Stdout, Abort: true, Panic: strings.SplitN(o.Stderr, "\n", 2)[0]}
	})

	return res
}

// parallel runs f(worker, i) for every i in [0,n) on the given number of
// workers; which worker gets which index never influences a result.
func parallel(n, workers int, f func(worker, i int)) {
	if workers > n {
		workers = n
	}

	if workers < 1 {
		workers = 1
	}

	var (
		wg   sync.WaitGroup
		mu   sync.Mutex
		next int
	)

	for w := 0; w < workers; w++ {
		wg.Add(1)

		go func(w int) {
			defer wg.Done()

			for {
				mu.Lock()
				i := next
				next++
				mu.Unlock()

				if i >= n {
					return
				}

				f(w, i)
			}
		}(w)
	}

	wg.Wait()
}

// ---- Ego --------------------------------------------------------------------

var modes = []string{"dynamic", "relaxed", "strict"}

// Time limits only protect against a hang; a run that hits one is never
// judged. They are generous because the machine may be heavily loaded.
const (
	aloneLimit = 5 * time.Minute
	packLimit  = 15 * time.Minute
)

type egoRunner struct {
	bin   string
	repo  string
	homes []string
	seq   []int
}

// newEgoRunner prepares one HOME per worker. A brand-new HOME makes the very
// first `ego` invocation run before the default profile exists (language
// extensions, and with them try/catch, are then off), so each HOME is
// initialised by one throw-away run and then verified.
func newEgoRunner(workers int) *egoRunner {
	e := &egoRunner{bin: os.Getenv("VERIF_EGO"), repo: os.Getenv("VERIF_REPO")}
	if e.bin == "" {
		report.Fatal("VERIF_EGO is not set (check config needs \"ego\": true)")
	}

	e.homes = make([]string, workers)
	e.seq = make([]int, workers)
	probe := "package main\n\nimport \"fmt\"\n\nfunc main() {\n\ttry {\n\t\tfmt.Println(\"probe-ok\")\n\t} catch (e) {\n\t\tfmt.Println(e)\n\t}\n}\n"

	parallel(workers, workers, func(_ int, w int) {
		h := filepath.Join(scratch, "egohome", fmt.Sprint("w", w))
		if err := os.MkdirAll(filepath.Join(h, "work"), 0o755); err != nil {
			report.Fatal("%v", err)
		}

		e.homes[w] = h
		f := filepath.Join(h, "work", "probe.ego")
		_ = os.WriteFile(f, []byte(probe), 0o644)
		_ = e.runFile(w, "dynamic", f, 60*time.Second)

		o := e.runFile(w, "dynamic", f, 60*time.Second)
		if o.Exit != 0 || o.Stdout != "probe-ok\n" {
			report.Fatal("ego probe failed in %s: exit=%d stdout=%q stderr=%q", h, o.Exit, o.Stdout, o.Stderr)
		}
	})

	return e
}

func (e *egoRunner) env(w int) []string {
	return []string{"HOME=" + e.homes[w], "EGO_PATH=" + e.repo, "PATH=" + os.Getenv("PATH"), "TZ=UTC", "LANG=C", "EGO_LOCALE=en"}
}

// runFile runs ego in the file's directory and names the file relatively, so
// that the messages ego prints do not depend on the scratch path.
func (e *egoRunner) runFile(w int, mode, file string, timeout time.Duration) outcome {
	return run(timeout, filepath.Dir(file), e.env(w), e.bin, "run", "--types", mode, filepath.Base(file))
}

// alone runs one program by itself in a fresh ego process.
func (e *egoRunner) alone(w int, mode string, p *prog) outcome {
	f := filepath.Join(e.homes[w], "work", fmt.Sprintf("prog%d.ego", p.idx))

	if err := os.WriteFile(f, []byte(p.standalone()), 0o644); err != nil {
		report.Fatal("%v", err)
	}

	defer os.Remove(f)

	return e.runFile(w, mode, f, aloneLimit)
}

// packed outcome of one program inside a packed file
type packedResult struct {
	resolved bool   // both delimiters were seen
	stdout   string // what the program printed
	errText  string // non-empty: the try block caught this error
}

func packSource(ps []*prog) string {
	var b strings.Builder

	b.WriteString("package main\n\nimport \"fmt\"\n\n")

	for _, p := range ps {
		b.WriteString(p.fn())
		b.WriteString("\n")
	}

	b.WriteString("func main() {\n")

	for _, p := range ps {
		fmt.Fprintf(&b, "\tfmt.Println(\"#B %d\")\n\ttry {\n\t\tp%d()\n\t} catch (e) {\n\t\tfmt.Println(\"#X %d\", e)\n\t}\n\tfmt.Println(\"#E %d\")\n", p.idx, p.idx, p.idx, p.idx)
	}

	b.WriteString("}\n")

	return b.String()
}

// runPacked runs the programs as one file and splits the output per program.
func (e *egoRunner) runPacked(w int, mode string, ps []*prog) (map[int]packedResult, outcome) {
	e.seq[w]++
	f := filepath.Join(e.homes[w], "work", fmt.Sprintf("pack%d.ego", e.seq[w]))

	if err := os.WriteFile(f, []byte(packSource(ps)), 0o644); err != nil {
		report.Fatal("%v", err)
	}

	if os.Getenv("C01_KEEP") == "" {
		defer os.Remove(f)
	}

	o := e.runFile(w, mode, f, packLimit)
	res := map[int]packedResult{}
	out := o.Stdout
	pos := 0

	for _, p := range ps {
		begin := fmt.Sprintf("#B %d\n", p.idx)
		end := fmt.Sprintf("#E %d\n", p.idx)

		if !strings.HasPrefix(out[pos:], begin) {
			break
		}

		start := pos + len(begin)

		k := strings.Index(out[start:], end)
		if k < 0 || (k > 0 && out[start+k-1] != '\n') {
			break
		}

		sect := out[start : start+k]
		pos = start + k + len(end)
		r := packedResult{resolved: true, stdout: sect}
		marker := fmt.Sprintf("#X %d ", p.idx)

		if x := strings.LastIndex(sect, marker); x >= 0 && (x == 0 || sect[x-1] == '\n') {
			r.stdout = sect[:x]
			r.errText = strings.TrimSpace(sect[x+len(marker):])

			if r.errText == "" {
				r.errText = "error"
			}
		}

		res[p.idx] = r
	}

	return res, o
}

package main

// The program generator of C01: every program is a well-typed Go program that
// stays inside the Go-compatible core the Ego language reference documents
// (see the property statement). A program is a set of top-level declarations
// plus the body of one parameterless function; the character '§' in a name is
// replaced by the program's index so that many programs can share one file.
//
// Output discipline (so that only what the statement covers is compared):
//   * integers, strings and booleans are printed with fmt.Println;
//   * floating-point values are printed with fmt.Printf("%v\n") - Println's
//     own number format is a documented difference;
//   * collections and structs are never printed as a whole, only element by
//     element / field by field;
//   * the value read from a map with the two-value form is printed only when
//     the key was present (a missing key yields nil in Ego: documented);
//   * strings are ASCII (len counts characters in Ego: documented);
//   * no string indexing, no rune, no %=, no ^, no shifts, no slicing, no cap,
//     no recover() of run-time errors, no printing of nil.

import (
	"fmt"
	"math/big"
	"strings"
)

type prog struct {
	Form  string // form family (first component of the violation cell)
	Type  string // scalar type the form is instantiated for ("" = not typed)
	Sub   string // operator / variant inside the family
	Decls string // top-level declarations
	Body  string // body of func p§()
	idx   int
}

func (p *prog) size() int { return len(p.Decls) + len(p.Body) }

func (p *prog) subst(s string) string {
	return strings.ReplaceAll(s, "§", fmt.Sprint(p.idx))
}

// fn is the text of the program's declarations and entry function.
func (p *prog) fn() string {
	var b strings.Builder

	if p.Decls != "" {
		b.WriteString(p.subst(p.Decls))
		b.WriteString("\n")
	}

	fmt.Fprintf(&b, "func p%d() {\n%s\n}\n", p.idx, indent(p.subst(p.Body)))

	return b.String()
}

// standalone is the complete single program: the same text for Go and Ego.
func (p *prog) standalone() string {
	return "package main\n\nimport \"fmt\"\n\n" + p.fn() + fmt.Sprintf("\nfunc main() {\n\tp%d()\n}\n", p.idx)
}

func indent(s string) string {
	lines := strings.Split(strings.TrimRight(s, "\n"), "\n")
	depth := 1

	for i, l := range lines {
		l = strings.TrimSpace(l)
		d := depth

		if strings.HasPrefix(l, "}") || strings.HasPrefix(l, ")") {
			d--
		}

		if strings.HasPrefix(l, "case ") || strings.HasPrefix(l, "default:") {
			d--
		}

		if d < 0 {
			d = 0
		}

		lines[i] = strings.Repeat("\t", d) + l
		depth += strings.Count(l, "{") + strings.Count(l, "(") - strings.Count(l, "}") - strings.Count(l, ")")
	}

	return strings.Join(lines, "\n")
}

type ityp struct {
	name   string
	bits   uint
	signed bool
}

var intTypes = []ityp{
	{"int8", 8, true}, {"int16", 16, true}, {"int32", 32, true}, {"int64", 64, true}, {"int", 64, true},
	{"uint8", 8, false}, {"uint16", 16, false}, {"uint32", 32, false}, {"uint64", 64, false}, {"uint", 64, false},
}

var floatTypes = []string{"float32", "float64"}

func (t ityp) min() *big.Int {
	if !t.signed {
		return big.NewInt(0)
	}

	return new(big.Int).Neg(new(big.Int).Lsh(big.NewInt(1), t.bits-1))
}

func (t ityp) max() *big.Int {
	b := t.bits
	if t.signed {
		b--
	}

	return new(big.Int).Sub(new(big.Int).Lsh(big.NewInt(1), b), big.NewInt(1))
}

// lo and hi are the extreme values used in ordinary programs. Literals beyond
// the int64 range (the most negative int64, uint64 above 2^63-1) have a form
// of their own (wide-literal), so the 64-bit types stop one short of them:
// int64 starts at min+1 and uint64 ends at 2^63-1 (wrap-around at 2^64 is
// still reached from below: 0-1, -x, products).
func (t ityp) lo() *big.Int {
	if t.signed && t.bits == 64 {
		return new(big.Int).Add(t.min(), big.NewInt(1))
	}

	return t.min()
}

func (t ityp) hi() *big.Int {
	if !t.signed && t.bits == 64 {
		return new(big.Int).Sub(new(big.Int).Lsh(big.NewInt(1), 63), big.NewInt(1))
	}

	return t.max()
}

// values is the boundary-value set of an integer type, as Go literals.
func (t ityp) values(thorough bool) []string {
	var vs []*big.Int

	off := func(b *big.Int, d int64) *big.Int { return new(big.Int).Add(b, big.NewInt(d)) }

	if t.signed {
		vs = []*big.Int{t.lo(), big.NewInt(-7), big.NewInt(-1), big.NewInt(0), big.NewInt(2), t.hi()}
		if thorough {
			vs = append(vs, off(t.lo(), 1), big.NewInt(-2), big.NewInt(1), big.NewInt(7), off(t.hi(), -1))
		}
	} else {
		vs = []*big.Int{big.NewInt(0), big.NewInt(1), big.NewInt(2), big.NewInt(7), t.hi()}
		if thorough {
			vs = append(vs, big.NewInt(3), off(t.hi(), -1))
		}
	}

	out := make([]string, len(vs))
	for i, v := range vs {
		out[i] = v.String()
	}

	return out
}

// lit writes a literal as an operand: negative ones are parenthesised.
func lit(v string) string {
	if strings.HasPrefix(v, "-") {
		return "(" + v + ")"
	}

	return v
}

func boolInt(b bool) int {
	if b {
		return 1
	}

	return 0
}

func isZero(v string) bool { return v == "0" || v == "0.0" }

// pr prints an expression of the given scalar type.
func pr(typ, expr string) string {
	if typ == "float32" || typ == "float64" {
		return "fmt.Printf(\"%v\\n\", " + expr + ")"
	}

	return "fmt.Println(" + expr + ")"
}

type gen struct {
	progs    []*prog
	thorough bool
	seen     map[string]bool
}

func (g *gen) add(form, typ, sub, decls, body string) {
	key := decls + "\x00" + body
	if g.seen[key] {
		return
	}

	g.seen[key] = true
	g.progs = append(g.progs, &prog{Form: form, Type: typ, Sub: sub, Decls: decls, Body: body, idx: len(g.progs)})
}

func lines(l ...string) string { return strings.Join(l, "\n") }

var arithOps = []string{"+", "-", "*", "/", "%"}
var compoundOps = []string{"+", "-", "*", "/"}
var cmpOps = []string{"==", "!=", "<", "<=", ">", ">="}

var opName = map[string]string{"+": "add", "-": "sub", "*": "mul", "/": "div", "%": "mod"}

// ---- scalar arithmetic -------------------------------------------------

func (g *gen) intArith() {
	for _, t := range intTypes {
		T := t.name
		vals := t.values(g.thorough)

		for _, op := range arithOps {
			for _, a := range vals {
				for _, b := range vals {
					// division by zero is a Go panic and such programs are always run
					// alone: one dividend in quick, three in thorough
					div0 := (op == "/" || op == "%") && isZero(b)
					if div0 && a != vals[5-boolInt(!t.signed)] && (!g.thorough || (a != vals[0] && a != vals[1])) {
						continue
					}

					// quick: x / y with y == 0 for every type, the other shapes for three types
					few := !g.thorough && div0 && T != "int8" && T != "int" && T != "uint8"
					if few && op == "%" {
						continue
					}

					// two typed variables
					g.add("arith-vv", T, opName[op], "", lines(
						fmt.Sprintf("var x %s = %s", T, a),
						fmt.Sprintf("var y %s = %s", T, b),
						fmt.Sprintf("z := x %s y", op),
						pr(T, "z")))

					if (op == "/" || op == "%") && isZero(b) {
						// a constant zero divisor does not compile in Go
					} else {
						// variable op constant
						g.add("arith-vc", T, opName[op], "", lines(
							fmt.Sprintf("var x %s = %s", T, a),
							fmt.Sprintf("z := x %s %s", op, lit(b)),
							pr(T, "z")))
						// x = x op constant
						g.add("assign-self", T, opName[op], "", lines(
							fmt.Sprintf("var x %s = %s", T, a),
							fmt.Sprintf("x = x %s %s", op, lit(b)),
							pr(T, "x")))
					}

					// constant op variable
					if !(div0 && !g.thorough && op == "%") && !few {
						g.add("arith-cv", T, opName[op], "", lines(
							fmt.Sprintf("var y %s = %s", T, b),
							fmt.Sprintf("z := %s %s y", lit(a), op),
							pr(T, "z")))
					}

					if op != "%" {
						if !isZero(b) || op != "/" {
							g.add("compound-c", T, opName[op], "", lines(
								fmt.Sprintf("var x %s = %s", T, a),
								fmt.Sprintf("x %s= %s", op, lit(b)),
								pr(T, "x")))
						}

						if !few {
							g.add("compound-v", T, opName[op], "", lines(
								fmt.Sprintf("var x %s = %s", T, a),
								fmt.Sprintf("var y %s = %s", T, b),
								fmt.Sprintf("x %s= y", op),
								pr(T, "x")))
						}
					}
				}
			}
		}

		for _, a := range vals {
			for _, op := range []string{"++", "--"} {
				name := map[string]string{"++": "inc", "--": "dec"}[op]
				g.add("incdec", T, name, "", lines(
					fmt.Sprintf("var x %s = %s", T, a),
					"x"+op,
					pr(T, "x")))
				// twice: the second step sees whatever the first one left behind
				g.add("incdec", T, name+"2", "", lines(
					fmt.Sprintf("var x %s = %s", T, a),
					"x"+op,
					"x"+op,
					pr(T, "x")))
			}

			g.add("neg", T, "new", "", lines(
				fmt.Sprintf("var x %s = %s", T, a),
				"y := -x",
				pr(T, "y")))
			g.add("neg", T, "self", "", lines(
				fmt.Sprintf("var x %s = %s", T, a),
				"x = -x",
				pr(T, "x")))
			g.add("neg", T, "expr", "", lines(
				fmt.Sprintf("var x %s = %s", T, a),
				fmt.Sprintf("var y %s = 1", T),
				"z := y + -x",
				pr(T, "z")))

			for _, b := range vals {
				var vv, vc []string
				for _, c := range cmpOps {
					vv = append(vv, pr("bool", "x "+c+" y"))
					vc = append(vc, pr("bool", "x "+c+" "+lit(b)))
				}

				g.add("cmp-vv", T, "", "", lines(
					fmt.Sprintf("var x %s = %s", T, a),
					fmt.Sprintf("var y %s = %s", T, b),
					lines(vv...)))
				g.add("cmp-vc", T, "", "", lines(
					fmt.Sprintf("var x %s = %s", T, a),
					lines(vc...)))
			}
		}

		// typed parameters and results: constants adapt at the call, the
		// result keeps the declared type.
		short := []string{vals[0], vals[len(vals)/2], vals[len(vals)-1], "2"}
		if g.thorough {
			short = vals
		}

		for _, op := range arithOps {
			decl := fmt.Sprintf("func f§(a %s, b %s) %s {\nreturn a %s b\n}", T, T, T, op)

			for _, a := range short {
				for _, b := range short {
					if (op == "/" || op == "%") && isZero(b) {
						if !g.thorough || a != "2" {
							continue // div0-nested covers division by zero inside a function
						}

						g.add("func-typed", T, opName[op]+"-var", decl, lines(
							fmt.Sprintf("var y %s = %s", T, b),
							pr(T, fmt.Sprintf("f§(%s, y)", a))))

						continue
					}

					g.add("const-arg", T, "func-"+opName[op], decl, pr(T, fmt.Sprintf("f§(%s, %s)", a, b)))
					g.add("func-typed", T, opName[op]+"-var", decl, lines(
						fmt.Sprintf("var x %s = %s", T, a),
						fmt.Sprintf("var y %s = %s", T, b),
						"r := f§(x, y)",
						"r = r + 1",
						pr(T, "r")))
				}
			}
		}
	}
}

// conversions between the integer casts the reference documents (there is no
// int8() in its table, so int8 only appears as a source).
func (g *gen) conversions() {
	targets := []string{"byte", "int16", "int32", "int", "int64", "uint8", "uint16", "uint32", "uint", "uint64"}

	for _, t := range intTypes {
		vals := t.values(g.thorough)

		for _, to := range targets {
			for _, a := range vals {
				g.add("convert", t.name, "to-"+to, "", lines(
					fmt.Sprintf("var x %s = %s", t.name, a),
					fmt.Sprintf("y := %s(x)", to),
					"fmt.Println(y)"))
			}
		}

		for _, to := range floatTypes {
			for _, a := range []string{vals[0], "2", vals[len(vals)-1]} {
				g.add("convert", t.name, "to-"+to, "", lines(
					fmt.Sprintf("var x %s = %s", t.name, a),
					fmt.Sprintf("y := %s(x)", to),
					"y = y / 2",
					pr(to, "y")))
			}
		}
	}

	for _, f := range floatTypes {
		for _, to := range targets {
			for _, a := range []string{"0.0", "2.75", "100.5"} {
				g.add("convert", f, "to-"+to, "", lines(
					fmt.Sprintf("var x %s = %s", f, a),
					fmt.Sprintf("y := %s(x)", to),
					"fmt.Println(y)"))
			}

			if !strings.HasPrefix(to, "u") && to != "byte" {
				g.add("convert", f, "to-"+to, "", lines(
					fmt.Sprintf("var x %s = -2.75", f),
					fmt.Sprintf("y := %s(x)", to),
					"fmt.Println(y)"))
			}
		}
	}
}

func (g *gen) floatArith() {
	for _, T := range floatTypes {
		// float32 only meets constants it represents exactly: in strict mode Ego
		// documents that a constant adapts "only losslessly", so float32 + 0.1
		// is rejected there by design. Rounding still shows in quotients.
		vals := []string{"0.0", "1.5", "-2.25", "0.375"}
		if g.thorough {
			vals = append(vals, "3.0", "1024.5", "-0.5")
		}

		if T == "float64" {
			vals = []string{"0.0", "1.5", "-2.25", "0.1"}
			if g.thorough {
				vals = append(vals, "3.0", "1e10", "-0.5")
			}
		}

		for _, op := range compoundOps {
			for _, a := range vals {
				for _, b := range vals {
					form := "float-"

					if op == "/" && isZero(b) {
						// Go: +Inf, -Inf or NaN, no panic
						g.add("float-div0", T, "vv", "", lines(
							fmt.Sprintf("var x %s = %s", T, a),
							fmt.Sprintf("var y %s = %s", T, b),
							"z := x / y",
							pr(T, "z")))

						continue
					}

					g.add(form+"vv", T, opName[op], "", lines(
						fmt.Sprintf("var x %s = %s", T, a),
						fmt.Sprintf("var y %s = %s", T, b),
						fmt.Sprintf("z := x %s y", op),
						pr(T, "z")))
					g.add(form+"vc", T, opName[op], "", lines(
						fmt.Sprintf("var x %s = %s", T, a),
						fmt.Sprintf("z := x %s %s", op, lit(b)),
						pr(T, "z")))
					g.add(form+"self", T, opName[op], "", lines(
						fmt.Sprintf("var x %s = %s", T, a),
						fmt.Sprintf("x = x %s %s", op, lit(b)),
						pr(T, "x")))
					g.add(form+"compound", T, opName[op], "", lines(
						fmt.Sprintf("var x %s = %s", T, a),
						fmt.Sprintf("x %s= %s", op, lit(b)),
						pr(T, "x")))
				}
			}
		}

		for _, a := range vals {
			g.add("float-neg", T, "", "", lines(
				fmt.Sprintf("var x %s = %s", T, a),
				"y := -x",
				"y = y + 1",
				pr(T, "y")))
			g.add("float-incdec", T, "", "", lines(
				fmt.Sprintf("var x %s = %s", T, a),
				"x++",
				pr(T, "x"),
				"x--",
				"x--",
				pr(T, "x")))

			for _, b := range vals {
				var vv []string
				for _, c := range cmpOps {
					vv = append(vv, pr("bool", "x "+c+" y"))
				}

				g.add("float-cmp", T, "", "", lines(
					fmt.Sprintf("var x %s = %s", T, a),
					fmt.Sprintf("var y %s = %s", T, b),
					lines(vv...)))
			}
		}
	}
}

func (g *gen) stringsAndBools() {
	vals := []string{`""`, `"a"`, `"ab"`, `"b"`}
	if g.thorough {
		vals = append(vals, `"B"`, `"a b"`, `"10"`)
	}

	for _, a := range vals {
		for _, b := range vals {
			g.add("string", "string", "concat", "", lines(
				"x := "+a,
				"var y string = "+b,
				"z := x + y",
				"fmt.Println(z, len(z))",
				"w := x + "+b+" + y",
				"fmt.Println(w)",
				"x += y",
				"x += "+a,
				"fmt.Println(x, len(x))"))

			var cs []string
			for _, c := range cmpOps {
				cs = append(cs, "fmt.Println(x "+c+" y, x "+c+" "+b+")")
			}

			g.add("string", "string", "compare", "", lines("x := "+a, "y := "+b, lines(cs...)))
		}
	}

	decl := "func t§(s string, v bool) bool {\nfmt.Println(s)\nreturn v\n}"

	for _, a := range []string{"true", "false"} {
		g.add("bool", "bool", "not", "", lines("x := "+a, "y := !x", "fmt.Println(y, !y, x == y, x != y)"))

		for _, b := range []string{"true", "false"} {
			for _, op := range []string{"&&", "||"} {
				g.add("bool", "bool", "shortcircuit", decl, lines(
					fmt.Sprintf("r := t§(\"l\", %s) %s t§(\"r\", %s)", a, op, b),
					"fmt.Println(r)",
					fmt.Sprintf("if t§(\"a\", %s) %s !t§(\"b\", %s) {", a, op, b),
					"fmt.Println(\"yes\")",
					"} else {",
					"fmt.Println(\"no\")",
					"}"))

				for _, c := range []string{"true", "false"} {
					g.add("bool", "bool", "mixed", "", lines(
						"a := "+a, "b := "+b, "var c bool = "+c,
						fmt.Sprintf("fmt.Println(a %s b, a %s b && c, (a || b) && c, a || b && c, !a %s c)", op, op, op)))
				}
			}
		}
	}
}

// ---- control flow -------------------------------------------------------

func (g *gen) ifElse() {
	for _, t := range intTypes {
		T := t.name

		for _, a := range []string{"0", "1", "2", "5", t.hi().String()} {
			g.add("if", T, "chain", "", lines(
				fmt.Sprintf("var x %s = %s", T, a),
				"if x < 1 {", "fmt.Println(\"lt1\")",
				"} else if x < 3 {", "fmt.Println(\"lt3\")",
				"} else {", "fmt.Println(\"big\")", "}",
				"if x == 2 {", "fmt.Println(\"two\")", "}",
				"if x != 2 && x > 0 {", "x = x - 1", "}",
				pr(T, "x")))
			g.add("if", T, "init", "", lines(
				fmt.Sprintf("var x %s = %s", T, a),
				"if v := x / 2; v > 1 {", "fmt.Println(\"gt\", v)",
				"} else if v == 1 {", "fmt.Println(\"one\", v)",
				"} else {", "fmt.Println(\"le\", v)", "}"))
		}
	}

	for _, a := range []string{`""`, `"a"`, `"b"`} {
		g.add("if", "string", "chain", "", lines(
			"s := "+a,
			"if s == \"\" {", "fmt.Println(\"empty\")",
			"} else if s < \"b\" {", "fmt.Println(\"small\", s)",
			"} else {", "fmt.Println(\"large\", s)", "}"))
	}
}

func (g *gen) loops() {
	// three loop shapes x bound x continue point x break point
	for shape := 0; shape < 3; shape++ {
		for n := 0; n <= 3; n++ {
			for _, cont := range []int{-1, 0, 1} {
				for _, brk := range []int{-1, 1, 2} {
					var body []string

					guard := []string{}
					if cont >= 0 {
						guard = append(guard, fmt.Sprintf("if i == %d {", cont), "fmt.Println(\"skip\", i)", "STEP", "continue", "}")
					}

					if brk >= 0 {
						guard = append(guard, fmt.Sprintf("if i == %d {", brk), "fmt.Println(\"stop\", i)", "break", "}")
					}

					switch shape {
					case 0:
						body = append(body, fmt.Sprintf("for i := 0; i < %d; i++ {", n))
						body = append(body, strings.ReplaceAll(lines(guard...), "STEP\n", ""))
						body = append(body, "fmt.Println(i)", "}")
					case 1:
						body = append(body, "i := 0", fmt.Sprintf("for i < %d {", n))
						body = append(body, strings.ReplaceAll(lines(guard...), "STEP", "i++"))
						body = append(body, "fmt.Println(i)", "i++", "}", "fmt.Println(\"end\", i)")
					case 2:
						body = append(body, "i := 0", "for {", fmt.Sprintf("if i >= %d {", n), "break", "}")
						body = append(body, strings.ReplaceAll(lines(guard...), "STEP", "i++"))
						body = append(body, "fmt.Println(i)", "i++", "}", "fmt.Println(\"end\", i)")
					}

					g.add("loop", "", fmt.Sprint("shape", shape), "", strings.ReplaceAll(lines(body...), "\n\n", "\n"))
				}
			}
		}
	}

	// typed loop variables
	for _, t := range intTypes {
		T := t.name
		g.add("loop-typed", T, "down", "", lines(
			fmt.Sprintf("var n %s = 3", T),
			fmt.Sprintf("var sum %s = 0", T),
			"for i := n; i > 0; i-- {", "sum += i", "fmt.Println(i, sum)", "}"))
		g.add("loop-typed", T, "up", "", lines(
			fmt.Sprintf("var n %s = 3", T),
			fmt.Sprintf("var i %s = 0", T),
			fmt.Sprintf("var prod %s = 1", T),
			"for i < n {", "i++", "prod = prod * 2", "}",
			"fmt.Println(i, prod)"))
		g.add("loop-typed", T, "wrap", "", lines(
			fmt.Sprintf("var x %s = %s", T, new(big.Int).Sub(t.hi(), big.NewInt(1)).String()),
			"for k := 0; k < 3; k++ {", "x++", "fmt.Println(x)", "}"))
	}

	// nested loops with plain and labeled break/continue at every position
	for _, stmt := range []string{"break", "continue", "break outer", "continue outer"} {
		for _, inner := range []string{"for j := 0; j < 3; j++ {", "for _, j := range js {"} {
			for bi := 0; bi < 3; bi++ {
				for bj := 0; bj < 3; bj++ {
					pre := ""
					if strings.Contains(inner, "range") {
						pre = "js := []int{0, 1, 2}\n"
					}

					lbl := ""
					if strings.Contains(stmt, "outer") {
						lbl = "outer:\n"
					}

					g.add("labeled", "", strings.ReplaceAll(stmt, " ", "-"), "", pre+lbl+lines(
						"for i := 0; i < 3; i++ {",
						inner,
						fmt.Sprintf("if i == %d && j == %d {", bi, bj),
						stmt,
						"}",
						"fmt.Println(i, j)",
						"}",
						"fmt.Println(\"row\", i)",
						"}",
						"fmt.Println(\"done\")"))
				}
			}
		}
	}
}

func (g *gen) switches() {
	for _, t := range intTypes {
		T := t.name

		for _, v := range []string{"0", "1", "2", "3", "9"} {
			for dpos := 0; dpos < 4; dpos++ { // default first, middle, last, absent
				cases := []string{"case 1:\nfmt.Println(\"one\")", "case 2, 3:\nfmt.Println(\"two-three\")"}
				def := "default:\nfmt.Println(\"other\")"

				switch dpos {
				case 0:
					cases = append([]string{def}, cases...)
				case 1:
					cases = []string{cases[0], def, cases[1]}
				case 2:
					cases = append(cases, def)
				}

				g.add("switch", T, fmt.Sprint("tag-default", dpos), "", lines(
					fmt.Sprintf("var x %s = %s", T, v),
					"switch x {", lines(cases...), "}",
					"fmt.Println(\"after\")"))
			}

			g.add("switch", T, "tagless", "", lines(
				fmt.Sprintf("var x %s = %s", T, v),
				"switch {", "case x < 1:", "fmt.Println(\"lt1\")", "case x < 3:", "fmt.Println(\"lt3\")",
				"default:", "fmt.Println(\"ge3\")", "}"))
			g.add("switch", T, "init", "", lines(
				fmt.Sprintf("var x %s = %s", T, v),
				"switch y := x + 1; y {", "case 1:", "fmt.Println(\"y1\")", "case 3:", "fmt.Println(\"y3\", y)", "}",
				"fmt.Println(\"after\")"))
			g.add("switch", T, "var-cases", "", lines(
				fmt.Sprintf("var x %s = %s", T, v),
				fmt.Sprintf("var a %s = 2", T),
				"switch x {", "case a:", "fmt.Println(\"a\")", "case a + 1:", "fmt.Println(\"a+1\")", "default:", "fmt.Println(\"none\")", "}"))
		}
	}

	for _, v := range []string{`"a"`, `"b"`, `"zz"`, `""`} {
		g.add("switch", "string", "tag", "", lines(
			"s := "+v,
			"switch s {", "case \"a\":", "fmt.Println(\"A\")", "case \"b\", \"\":", "fmt.Println(\"B-or-empty\")",
			"default:", "fmt.Println(\"other\", s)", "}"))
	}

	// break inside a switch inside a loop, plain and labeled
	for _, brk := range []string{"break", "break loop", "continue", "continue loop"} {
		for at := 0; at < 3; at++ {
			lbl := ""
			if strings.Contains(brk, "loop") {
				lbl = "loop:\n"
			}

			g.add("switch", "", "in-loop-"+strings.ReplaceAll(brk, " ", "-"), "", lbl+lines(
				"for i := 0; i < 3; i++ {",
				"switch i {",
				fmt.Sprintf("case %d:", at),
				"fmt.Println(\"hit\", i)",
				fmt.Sprintf("if i == %d {", at),
				brk,
				"}",
				"fmt.Println(\"not reached\")",
				"default:",
				"fmt.Println(\"default\", i)",
				"}",
				"fmt.Println(\"tail\", i)",
				"}",
				"fmt.Println(\"done\")"))
		}
	}
}

// ---- collections ----------------------------------------------------------
//
// The composite forms below feed their collections, fields, parameters and
// results from typed variables (va, vb, vc), so that they exercise the
// composite itself. What happens to an untyped constant at each of those
// places is the subject of the const-* forms, and ++/-- on an element, field,
// map value or captured variable that of incdec-target.

// sample values of any scalar type
func sampleVals(T string) (v1, v2, v3 string) {
	switch T {
	case "string":
		return `"p"`, `"q"`, `"r"`
	case "bool":
		return "true", "false", "true"
	case "float32", "float64":
		return "1.5", "2.25", "4.0"
	}

	return "3", "5", "7"
}

// decl3 declares the typed variables va, vb, vc (only the first n).
func decl3(T string, n int) string {
	a, b, c := sampleVals(T)
	out := []string{fmt.Sprintf("var va %s = %s", T, a)}

	if n > 1 {
		out = append(out, fmt.Sprintf("var vb %s = %s", T, b))
	}

	if n > 2 {
		out = append(out, fmt.Sprintf("var vc %s = %s", T, c))
	}

	return lines(out...)
}

func allScalarTypes() []string {
	var out []string
	for _, t := range intTypes {
		out = append(out, t.name)
	}

	return append(out, "float32", "float64", "string", "bool")
}

func isNumeric(T string) bool { return T != "string" && T != "bool" }

func (g *gen) slices() {
	for _, T := range allScalarTypes() {
		prV := func(e string) string { return pr(T, e) }

		g.add("slice", T, "literal-index-len", "", lines(decl3(T, 3),
			fmt.Sprintf("s := []%s{va, vb, vc}", T),
			"fmt.Println(len(s))", prV("s[0]"), prV("s[2]"),
			"s[1] = s[2]", prV("s[1]"),
			"i := 2", "s[i] = va", prV("s[i]"), prV("s[0]")))
		g.add("slice", T, "make-zero", "", lines(decl3(T, 2),
			fmt.Sprintf("s := make([]%s, 2)", T),
			"fmt.Println(len(s))", prV("s[0]"), "s[1] = vb", prV("s[1]"), prV("s[0]"), "s[0] = va", prV("s[0]")))
		g.add("slice", T, "append", "", lines(decl3(T, 3),
			fmt.Sprintf("var s []%s", T),
			"fmt.Println(len(s))",
			"s = append(s, va)",
			"s = append(s, vb, vc)",
			"fmt.Println(len(s))", prV("s[0]"), prV("s[2]"),
			fmt.Sprintf("t := []%s{}", T),
			"for _, v := range s {", "t = append(t, v)", "}",
			"fmt.Println(len(t))", prV("t[1]")))
		g.add("slice", T, "range", "", lines(decl3(T, 3),
			fmt.Sprintf("s := []%s{va, vb, vc}", T),
			"for i, v := range s {", "fmt.Println(i)", prV("v"), "}",
			"for i := range s {", "fmt.Println(\"i\", i)", "}",
			"n := 0", "for _, v := range s {", "if v == vb {", "n = n + 1", "}", "}", "fmt.Println(n)",
			fmt.Sprintf("e := []%s{}", T), "for i := range e {", "fmt.Println(\"never\", i)", "}", "fmt.Println(len(e))"))

		if isNumeric(T) {
			g.add("slice", T, "element-arith", "", lines(decl3(T, 3),
				fmt.Sprintf("s := []%s{va, vb, vc}", T),
				"s[0] = s[0] + vb", "s[1] += s[2]", "s[2] *= va", "s[0] = s[0] - s[1]*s[2]",
				prV("s[0]"), prV("s[1]"), prV("s[2]"),
				fmt.Sprintf("var sum %s = 0", T),
				"for _, v := range s {", "sum += v", "}", prV("sum")))
		}

		// index out of range: read and write, at len and at -1, via a variable
		if !g.thorough && !map[string]bool{"int": true, "int8": true, "string": true}[T] {
			continue
		}

		idxs := []string{"3", "-1", "2"}
		if !g.thorough && T != "int" {
			idxs = []string{"3"}
		}

		for _, idx := range idxs {
			g.add("slice-oob", T, "read", "", lines(decl3(T, 3),
				fmt.Sprintf("s := []%s{va, vb, vc}", T),
				"fmt.Println(\"before\")",
				"i := "+idx,
				prV("s[i]"),
				"fmt.Println(\"after\")"))
			g.add("slice-oob", T, "write", "", lines(decl3(T, 3),
				fmt.Sprintf("s := []%s{va, vb, vc}", T),
				"fmt.Println(\"before\")",
				"i := "+idx,
				"s[i] = va",
				"fmt.Println(\"after\", len(s))"))
		}

		if !g.thorough && T != "int" {
			continue
		}

		g.add("slice-oob", T, "empty", "", lines(
			fmt.Sprintf("s := []%s{}", T), "fmt.Println(len(s))", "i := 0", prV("s[i]"), "fmt.Println(\"after\")"))
	}

	g.add("slice", "", "nested", "", lines(
		"m := [][]int{[]int{1, 2}, []int{3}}",
		"fmt.Println(len(m), len(m[0]), len(m[1]), m[0][1], m[1][0])",
		"m[1] = append(m[1], 4)", "m = append(m, []int{5, 6, 7})",
		"for i, row := range m {", "for j, v := range row {", "fmt.Println(i, j, v)", "}", "}"))
	g.add("slice", "", "of-strings", "", lines(
		"w := []string{\"x\"}", "w = append(w, \"y\", \"z\")", "r := \"\"",
		"for i := len(w) - 1; i >= 0; i-- {", "r += w[i]", "}", "fmt.Println(r, len(w))"))
}

func (g *gen) maps() {
	keyTypes := []string{"string", "int"}
	if g.thorough {
		keyTypes = append(keyTypes, "int8", "int32", "int64", "uint8", "uint16", "bool")
	}

	// keys are typed variables as well
	keyDecl := func(K string) (string, bool) {
		switch K {
		case "string":
			return "var k1 string = \"a\"\nvar k2 string = \"b\"\nvar k3 string = \"zz\"", true
		case "bool":
			return "var k1 bool = true\nvar k2 bool = false", false
		}

		return fmt.Sprintf("var k1 %s = 1\nvar k2 %s = 2\nvar k3 %s = 9", K, K, K), true
	}

	for _, K := range keyTypes {
		kd, three := keyDecl(K)

		for _, V := range allScalarTypes() {
			prV := func(e string) string { return pr(V, e) }

			read := func(k string) string {
				return lines(
					fmt.Sprintf("v, ok = m[%s]", k),
					"fmt.Println(ok)",
					"if ok {", prV("v"), "}")
			}

			body := []string{kd, decl3(V, 3),
				fmt.Sprintf("m := map[%s]%s{k1: va, k2: vb}", K, V),
				"fmt.Println(len(m))",
				"v, ok := m[k1]",
				"fmt.Println(ok)", "if ok {", prV("v"), "}",
				read("k2"),
			}

			if three {
				body = append(body, read("k3"), "m[k3] = vc", read("k3"), "fmt.Println(len(m))")
			}

			body = append(body,
				"m[k1] = vc", read("k1"),
				"delete(m, k1)", read("k1"), "fmt.Println(len(m))",
				"delete(m, k1)", "fmt.Println(len(m))",
				"_, found := m[k2]", "if found {", "fmt.Println(\"has k2\")", "} else {", "fmt.Println(\"no k2\")", "}")

			g.add("map", V, "key-"+K, "", lines(body...))

			kd1 := strings.SplitN(kd, "\n", 2)[0]
			g.add("map", V, "make-"+K, "", lines(kd1, decl3(V, 2),
				fmt.Sprintf("m := make(map[%s]%s)", K, V),
				"fmt.Println(len(m))",
				"_, ok0 := m[k1]", "fmt.Println(ok0)",
				"m[k1] = va",
				"m[k1] = vb",
				"v, ok := m[k1]", "fmt.Println(ok)", "if ok {", prV("v"), "}",
				"fmt.Println(len(m))"))
		}

		// range in an order-independent way
		kd2 := strings.Join(strings.SplitN(kd, "\n", 3)[:2], "\n")
		g.add("map", "", "range-"+K, "", lines(kd2,
			fmt.Sprintf("m := map[%s]int{k1: 10, k2: 20}", K),
			"n := 0", "sum := 0", "hit := 0",
			"for k, v := range m {", "n++", "sum += v", "if k == k2 {", "hit += v", "}", "}",
			"for k := range m {", "if k == k1 {", "hit++", "}", "}",
			"for _, v := range m {", "sum += v", "}",
			"fmt.Println(n, sum, hit)"))
	}

	for _, T := range allScalarTypes() {
		if !isNumeric(T) {
			continue
		}

		g.add("map", T, "value-arith", "", lines(decl3(T, 2),
			fmt.Sprintf("m := map[string]%s{\"a\": va}", T),
			"m[\"a\"] = m[\"a\"] + vb", "m[\"a\"] += va", "m[\"a\"] = m[\"a\"] * m[\"a\"]",
			"v, ok := m[\"a\"]", "fmt.Println(ok)", "if ok {", pr(T, "v"), "}"))
	}
}

func (g *gen) structs() {
	for _, T := range allScalarTypes() {
		prV := func(e string) string { return pr(T, e) }
		decl := fmt.Sprintf("type S§ struct {\nA %s\nB string\nC %s\n}", T, T)

		g.add("struct", T, "literal-fields", decl, lines(decl3(T, 3),
			"s := S§{A: va, B: \"n\", C: vb}",
			prV("s.A"), "fmt.Println(s.B)", prV("s.C"),
			"s.A = vc", "s.B = s.B + \"!\"", "s.C = s.A",
			prV("s.A"), "fmt.Println(s.B)", prV("s.C")))
		g.add("struct", T, "zero-fields", decl, lines(decl3(T, 1),
			"s := S§{B: \"only\"}", prV("s.A"), "fmt.Println(s.B, len(s.B))",
			"var z S§", prV("z.C"), "fmt.Println(z.B == \"\")",
			"z.A = va", prV("z.A")))

		if isNumeric(T) {
			g.add("struct", T, "field-arith", decl, lines(decl3(T, 2),
				"s := S§{A: va, C: vb}",
				"s.A = s.A + vb", "s.C += s.A", "s.C -= va", "s.A *= s.C", "s.A = s.A - 1",
				prV("s.A"), prV("s.C"), "fmt.Println(s.A > s.C)"))
		}

		mdecl := decl + lines("",
			fmt.Sprintf("func (s S§) Get() %s {\nreturn s.A\n}", T),
			fmt.Sprintf("func (s S§) Pair(x %s) (%s, string) {\nreturn x, s.B\n}", T, T),
			fmt.Sprintf("func (s *S§) Set(x %s) {\ns.A = x\ns.B = s.B + \"+\"\n}", T))

		g.add("method", T, "value-and-pointer", mdecl, lines(decl3(T, 3),
			"s := S§{A: va, B: \"m\"}",
			prV("s.Get()"),
			"s.Set(vb)",
			prV("s.Get()"), "fmt.Println(s.B)",
			"x, y := s.Pair(vc)", prV("x"), "fmt.Println(y)",
			"p := &s", "p.Set(vc)", prV("s.A"), "fmt.Println(s.B)"))

		if isNumeric(T) {
			adecl := decl + lines("",
				fmt.Sprintf("func (s S§) Sum() %s {\nreturn s.A + s.C\n}", T),
				fmt.Sprintf("func (s *S§) Bump(d %s) {\ns.A = s.A + d\ns.C += d\n}", T))

			g.add("method", T, "arith", adecl, lines(decl3(T, 3),
				"s := S§{A: va, C: vb}",
				prV("s.Sum()"), "s.Bump(vc)", prV("s.Sum()"), "s.Bump(s.Sum())", prV("s.A"), prV("s.C")))
		}
	}

	g.add("struct", "", "nested", "type In§ struct {\nN int\n}\ntype Out§ struct {\nI In§\nS string\n}", lines(
		"o := Out§{I: In§{N: 4}, S: \"o\"}", "o.I.N = o.I.N + 1", "o.I.N++", "fmt.Println(o.I.N, o.S)"))
	g.add("struct", "", "slice-of", "type P§ struct {\nX int\nY int\n}", lines(
		"ps := []P§{P§{X: 1, Y: 2}, P§{X: 3, Y: 4}}", "ps = append(ps, P§{X: 5})", "t := 0",
		"for _, p := range ps {", "t += p.X + p.Y", "}", "ps[0].X = 10", "fmt.Println(t, len(ps), ps[0].X, ps[2].Y)"))
}

// struct values are copied, at every nesting depth, by :=, by =, when bound to
// a by-value parameter or receiver, when returned, and when stored into a
// field, a slice element or a map value: a write through the copy to a field
// of the innermost struct must not show through the original, and vice versa.
func (g *gen) structCopies() {
	maxDepth := 4

	for d := 1; d <= maxDepth; d++ {
		// L1 is the innermost struct; Ld nests L(d-1) in its field In
		decl := "type L1§ struct {\nV int\nS string\n}"
		lit := "L1§{V: 3, S: \"s\"}"
		path := "V"

		for k := 2; k <= d; k++ {
			decl += fmt.Sprintf("\ntype L%d§ struct {\nIn L%d§\nN int\n}", k, k-1)
			lit = fmt.Sprintf("L%d§{In: %s, N: %d}", k, lit, k)
			path = "In." + path
		}

		T := fmt.Sprintf("L%d§", d)
		typ := fmt.Sprint("depth", d)
		mk := "a := " + lit
		both := func(x, y string) string { return fmt.Sprintf("fmt.Println(%s.%s, %s.%s)", x, path, y, path) }

		g.add("struct-copy-define", typ, "", decl, lines(mk,
			"b := a", "b."+path+" = 99", both("a", "b"),
			"a."+path+" = 5", both("a", "b"),
			"c := b", "c."+path+" = 7", both("b", "c"), "fmt.Println(a."+path+")"))
		g.add("struct-copy-assign", typ, "", decl, lines(mk,
			"var b "+T, "fmt.Println(b."+path+")", "b = a", "b."+path+" = 99", both("a", "b"),
			"a."+path+" = 5", both("a", "b"),
			"b = a", both("a", "b"), "b."+path+" = 8", both("a", "b")))
		g.add("struct-copy-param", typ, "", decl+fmt.Sprintf("\nfunc mut§(s %s) int {\ns.%s = 99\nreturn s.%s\n}", T, path, path), lines(mk,
			"fmt.Println(mut§(a))", "fmt.Println(a."+path+")", "r := mut§(a)", "fmt.Println(r, a."+path+")"))
		g.add("struct-copy-return", typ, "", decl+fmt.Sprintf("\nfunc chg§(s %s) %s {\ns.%s = s.%s * 10\nreturn s\n}", T, T, path, path), lines(mk,
			"d := chg§(a)", both("a", "d"), "d."+path+" = 1", both("a", "d"), "e := chg§(d)", both("d", "e")))
		g.add("struct-copy-receiver", typ, "", decl+fmt.Sprintf("\nfunc (s %s) Mut() int {\ns.%s = 99\nreturn s.%s\n}\nfunc (s *%s) Set(v int) {\ns.%s = v\n}", T, path, path, T, path), lines(mk,
			"fmt.Println(a.Mut())", "fmt.Println(a."+path+")", "a.Set(6)", "fmt.Println(a."+path+")", "b := a", "b.Set(7)", both("a", "b")))
		g.add("struct-copy-field", typ, "", decl+fmt.Sprintf("\ntype Box§ struct {\nItem %s\nK int\n}", T), lines(mk,
			"bx := Box§{K: 1}", "bx.Item = a", "bx.Item."+path+" = 99", both("a", "bx.Item"),
			"by := Box§{Item: a, K: 2}", "a."+path+" = 5", both("a", "by.Item"), both("bx.Item", "by.Item"),
			"bz := by", "bz.Item."+path+" = 4", both("by.Item", "bz.Item"), "fmt.Println(bx.K, by.K, bz.K)"))
		g.add("struct-copy-elem", typ, "", decl, lines(mk,
			fmt.Sprintf("s := []%s{a}", T), "s[0]."+path+" = 99", both("a", "s[0]"),
			"s = append(s, a)", "a."+path+" = 5", both("a", "s[1]"), both("s[0]", "s[1]"),
			"c := s[1]", "c."+path+" = 7", both("c", "s[1]"),
			"for _, e := range s {", "e."+path+" = 1", "}", both("s[0]", "s[1]"), "fmt.Println(len(s))"))
		g.add("struct-copy-mapval", typ, "", decl, lines(mk,
			fmt.Sprintf("m := map[string]%s{\"k\": a}", T), "a."+path+" = 99",
			"v, ok := m[\"k\"]", "fmt.Println(ok)", "if ok {", both("a", "v"), "}",
			"v."+path+" = 7", "w, ok2 := m[\"k\"]", "fmt.Println(ok2)", "if ok2 {", both("v", "w"), "}",
			"m[\"j\"] = a", "a."+path+" = 5", "u, ok3 := m[\"j\"]", "fmt.Println(ok3, len(m))", "if ok3 {", both("a", "u"), "}"))
	}
}

// ---- functions --------------------------------------------------------------

func (g *gen) functions() {
	for _, T := range allScalarTypes() {
		prV := func(e string) string { return pr(T, e) }

		// multiple returns
		g.add("multi-return", T, "", fmt.Sprintf("func two§(x %s, y %s) (%s, %s) {\nreturn y, x\n}\nfunc three§(x %s) (%s, string, bool) {\nreturn x, \"s\", true\n}", T, T, T, T, T, T), lines(decl3(T, 3),
			"p, q := two§(va, vb)", prV("p"), prV("q"),
			"p, q = two§(p, q)", prV("p"),
			"_, r := two§(va, vc)", prV("r"),
			"u, v, w := three§(vc)", prV("u"), "fmt.Println(v, w)",
			"p, q = q, p", prV("q"), prV("p")))

		// variadic
		vd := fmt.Sprintf("func cnt§(pre string, xs ...%s) int {\nn := 0\nfor i := range xs {\nn = i + 1\n}\nfmt.Println(pre, n, len(xs))\nreturn n\n}", T)
		if isNumeric(T) {
			vd += fmt.Sprintf("\nfunc sum§(xs ...%s) %s {\nvar t %s = 0\nfor _, x := range xs {\nt += x\n}\nreturn t\n}", T, T, T)
		}

		body := []string{decl3(T, 3), "fmt.Println(cnt§(\"none\"))", "fmt.Println(cnt§(\"one\", va))", "fmt.Println(cnt§(\"three\", va, vb, vc))"}
		if isNumeric(T) {
			body = append(body, prV("sum§()"), prV("sum§(va)"), prV("sum§(va, vb, vc)"))
		}

		g.add("variadic", T, "", vd, lines(body...))

		sb := []string{decl3(T, 2), fmt.Sprintf("s := []%s{va, vb}", T), "fmt.Println(cnt§(\"spread\", s...))"}
		if isNumeric(T) {
			sb = append(sb, prV("sum§(s...)"))
		}

		g.add("variadic-spread", T, "", vd, lines(sb...))

		// closures
		if isNumeric(T) {
			g.add("closure", T, "counter", fmt.Sprintf("func mk§(step %s) func() %s {\nvar c %s = 0\nreturn func() %s {\nc += step\nreturn c\n}\n}", T, T, T, T), lines(decl3(T, 2),
				"f := mk§(va)", "h := mk§(vb)", "f()", prV("f()"), prV("h()"), prV("f()")))
			g.add("closure", T, "capture-write", "", lines(decl3(T, 2),
				fmt.Sprintf("var x %s = 1", T),
				"inc := func() {", "x = x + va", "}",
				fmt.Sprintf("add := func(d %s) %s {", T, T), "x = x + d", "return x", "}",
				"inc()", "inc()", prV("x"), prV("add(vb)"), "x = x * vb", prV("add(va)"), prV("x")))
		} else {
			g.add("closure", T, "capture-write", "", lines(decl3(T, 2),
				"x := va",
				fmt.Sprintf("set := func(v %s) {", T), "x = v", "}",
				fmt.Sprintf("get := func() %s {", T), "return x", "}",
				prV("get()"), "set(vb)", prV("get()"), prV("x")))
		}

		// pointer parameters
		g.add("pointer", T, "param", fmt.Sprintf("func put§(d *%s, v %s) {\n*d = v\n}", T, T), lines(decl3(T, 3),
			"x := va", "put§(&x, vb)", prV("x"),
			"p := &x", "*p = vc", prV("x"), prV("*p")))
	}

	g.add("closure", "", "func-arg", "func apply§(f func(int) int, n int) int {\nreturn f(f(n))\n}", lines(
		"k := 3", "fmt.Println(apply§(func(v int) int {", "return v*k + 1", "}, 2))",
		"sq := func(v int) int {", "return v * v", "}", "fmt.Println(apply§(sq, 3))"))
	g.add("closure", "", "shared", "", lines(
		"n := 0", "up := func() {", "n++", "}", "down := func() {", "n--", "}",
		"up()", "up()", "down()", "up()", "fmt.Println(n)"))
	g.add("closure", "", "recursion", "func fact§(n int) int {\nif n <= 1 {\nreturn 1\n}\nreturn n * fact§(n-1)\n}\nfunc fib§(n int) int {\nif n < 2 {\nreturn n\n}\nreturn fib§(n-1) + fib§(n-2)\n}", lines(
		"fmt.Println(fact§(0), fact§(5), fact§(10), fib§(10))"))
	g.add("multi-return", "", "named-results", "func nr§(a int) (q int, msg string) {\nq = a * 2\nmsg = \"dbl\"\nreturn\n}\nfunc nr2§(a int) (q int) {\nq = a\nif a > 1 {\nreturn q + 100\n}\nreturn\n}", lines(
		"q, m := nr§(4)", "fmt.Println(q, m)", "fmt.Println(nr2§(1), nr2§(2))"))
}

// ---- untyped constants at every place a typed value is expected -------------

func (g *gen) constBoundaries() {
	for _, T := range allScalarTypes() {
		a, b, c := sampleVals(T)
		prV := func(e string) string { return pr(T, e) }

		// slice element
		g.add("const-elem", T, "literal", "", lines(fmt.Sprintf("s := []%s{%s, %s}", T, a, b), "fmt.Println(len(s))", prV("s[0]"), prV("s[1]")))
		g.add("const-elem", T, "store", "", lines(fmt.Sprintf("s := make([]%s, 2)", T), fmt.Sprintf("s[1] = %s", c), prV("s[1]"), prV("s[0]")))
		g.add("const-elem", T, "append", "", lines(fmt.Sprintf("var s []%s", T), fmt.Sprintf("s = append(s, %s)", a), fmt.Sprintf("s = append(s, %s, %s)", b, c), "fmt.Println(len(s))", prV("s[0]"), prV("s[2]")))
		// struct field
		decl := fmt.Sprintf("type S§ struct {\nA %s\nB string\n}", T)
		g.add("const-field", T, "literal", decl, lines(fmt.Sprintf("s := S§{A: %s, B: \"n\"}", a), prV("s.A"), "t := s.A", prV("t"), "fmt.Println(s.B)"))
		g.add("const-field", T, "store", decl, lines("var s S§", fmt.Sprintf("s.A = %s", b), prV("s.A"), "t := s.A", prV("t")))
		// map value
		g.add("const-mapval", T, "literal", "", lines(fmt.Sprintf("m := map[string]%s{\"k\": %s}", T, a), "v, ok := m[\"k\"]", "fmt.Println(ok)", "if ok {", prV("v"), "}"))
		g.add("const-mapval", T, "store", "", lines(fmt.Sprintf("m := make(map[string]%s)", T), fmt.Sprintf("m[\"k\"] = %s", b), "v, ok := m[\"k\"]", "fmt.Println(ok, len(m))", "if ok {", prV("v"), "}"))
		// arguments
		g.add("const-arg", T, "func", fmt.Sprintf("func id§(x %s) %s {\nreturn x\n}", T, T), lines(prV("id§("+a+")"), "y := id§("+b+")", prV("y")))
		g.add("const-arg", T, "method", decl+fmt.Sprintf("\nfunc (s *S§) Set(x %s) {\ns.A = x\n}", T), lines("var s S§", "s.Set("+c+")", prV("s.A")))
		g.add("const-arg", T, "variadic", fmt.Sprintf("func last§(xs ...%s) %s {\nvar r %s\nfor _, x := range xs {\nr = x\n}\nreturn r\n}", T, T, T), lines(prV("last§("+a+")"), prV("last§("+a+", "+b+", "+c+")")))
		g.add("const-arg", T, "pointer-func", fmt.Sprintf("func put§(d *%s, v %s) {\n*d = v\n}", T, T), lines(fmt.Sprintf("var x %s", T), "put§(&x, "+b+")", prV("x")))
		g.add("const-arg", T, "closure", "", lines(fmt.Sprintf("f := func(x %s) %s {", T, T), "return x", "}", prV("f("+c+")")))
		// results
		g.add("const-return", T, "literal", fmt.Sprintf("func r§() %s {\nreturn %s\n}", T, a), lines("y := r§()", prV("y"), prV("r§()")))

		if isNumeric(T) {
			g.add("const-return", T, "expr", fmt.Sprintf("func r§(x %s) %s {\nreturn x * 2\n}", T, T), lines(decl3(T, 1), "y := r§(va)", prV("y")))
			g.add("const-return", T, "multi", fmt.Sprintf("func r§() (%s, %s) {\nreturn %s, %s\n}", T, T, a, b), lines("p, q := r§()", prV("p"), prV("q")))
		}

		// plain assignment and declaration with an initial value
		g.add("const-assign", T, "var-then-assign", "", lines(fmt.Sprintf("var x %s", T), prV("x"), fmt.Sprintf("x = %s", a), prV("x"), fmt.Sprintf("x = %s", b), prV("x")))
	}
}

// ++ and -- applied to something other than a plain local variable
func (g *gen) incdecTargets() {
	for _, T := range allScalarTypes() {
		if !isNumeric(T) {
			continue
		}

		prV := func(e string) string { return pr(T, e) }

		for _, op := range []string{"++", "--"} {
			name := map[string]string{"++": "inc", "--": "dec"}[op]
			g.add("incdec-target", T, "elem-"+name, "", lines(decl3(T, 2), fmt.Sprintf("s := []%s{va, vb}", T), "s[1]"+op, "s[1]"+op, prV("s[1]"), prV("s[0]")))
			g.add("incdec-target", T, "field-"+name, fmt.Sprintf("type S§ struct {\nA %s\n}", T), lines(decl3(T, 1), "s := S§{A: va}", "s.A"+op, "s.A"+op, prV("s.A")))
			g.add("incdec-target", T, "mapval-"+name, "", lines(decl3(T, 1), fmt.Sprintf("m := map[string]%s{\"k\": va}", T), "m[\"k\"]"+op, "m[\"k\"]"+op, "v, ok := m[\"k\"]", "fmt.Println(ok)", "if ok {", prV("v"), "}"))
			g.add("incdec-target", T, "captured-"+name, "", lines(decl3(T, 1), "x := va", "f := func() {", "x"+op, "}", "f()", "f()", prV("x")))
			g.add("incdec-target", T, "param-"+name, fmt.Sprintf("func step§(x %s) %s {\nx%s\nreturn x\n}", T, T, op), lines(decl3(T, 1), prV("step§(va)"), prV("va")))
			g.add("incdec-target", T, "method-"+name, fmt.Sprintf("type S§ struct {\nA %s\n}\nfunc (s *S§) Step() {\ns.A%s\n}", T, op), lines(decl3(T, 1), "s := S§{A: va}", "s.Step()", "s.Step()", prV("s.A")))
		}
	}
}

// literals beyond the int64 range: the most negative int64 and large uint64
func (g *gen) wideLiterals() {
	for _, T := range []string{"int64", "int"} {
		g.add("wide-literal", T, "min", "", lines(fmt.Sprintf("var x %s = -9223372036854775808", T), "fmt.Println(x)", "y := x + 1", "fmt.Println(y)", "fmt.Println(x < y)"))
	}

	for _, T := range []string{"uint64", "uint"} {
		g.add("wide-literal", T, "max", "", lines(fmt.Sprintf("var x %s = 18446744073709551615", T), "fmt.Println(x)", "y := x - 1", "fmt.Println(y)", "fmt.Println(x > y)"))
		g.add("wide-literal", T, "2^63", "", lines(fmt.Sprintf("var x %s = 9223372036854775808", T), "fmt.Println(x)", "y := x / 2", "fmt.Println(y)"))
	}
}

func (g *gen) defers() {
	// defer order, argument evaluation time, loops
	for n := 1; n <= 3; n++ {
		var body []string
		for i := 1; i <= n; i++ {
			body = append(body, fmt.Sprintf("defer fmt.Println(\"d%d\")", i))
		}

		body = append(body, "fmt.Println(\"body\")")
		g.add("defer", "", fmt.Sprint("order", n), "func run§() {\n"+lines(body...)+"\n}", lines("run§()", "fmt.Println(\"back\")"))
	}

	g.add("defer", "", "arg-eval", "func run§() {\nx := 1\ndefer fmt.Println(\"deferred x\", x)\nx = 2\ndefer func() {\nfmt.Println(\"closure x\", x)\n}()\nx = 3\nfmt.Println(\"body x\", x)\n}", lines("run§()"))
	g.add("defer", "", "loop", "func run§() {\nfor i := 0; i < 3; i++ {\ndefer fmt.Println(\"d\", i)\n}\nfmt.Println(\"body\")\n}", lines("run§()", "fmt.Println(\"back\")"))
	g.add("defer", "", "named-result", "func run§() (r int) {\ndefer func() {\nr = r * 2\n}()\nr = 4\nreturn r + 1\n}", lines("fmt.Println(run§())"))
	g.add("defer", "", "early-return", "func run§(n int) string {\ndefer fmt.Println(\"cleanup\", n)\nif n > 1 {\nreturn \"early\"\n}\nfmt.Println(\"late\")\nreturn \"end\"\n}", lines("fmt.Println(run§(1))", "fmt.Println(run§(2))"))
	g.add("defer", "", "nested-calls", "func in§() {\ndefer fmt.Println(\"in-d\")\nfmt.Println(\"in\")\n}\nfunc out§() {\ndefer fmt.Println(\"out-d1\")\ndefer in§()\nfmt.Println(\"out\")\n}", lines("out§()", "fmt.Println(\"back\")"))

	// panic + recover in a deferred closure, at call depth 0..2, with other defers around
	for depth := 0; depth <= 2; depth++ {
		for _, val := range []string{`"boom"`} {
			decl := "func deep§(n int) {\ndefer fmt.Println(\"unwind\", n)\nif n == 0 {\npanic(" + val + ")\n}\ndeep§(n - 1)\nfmt.Println(\"not reached\", n)\n}\n" +
				"func safe§(n int) (r string) {\ndefer fmt.Println(\"safe-last\")\ndefer func() {\ne := recover()\nif e != nil {\nfmt.Println(\"recovered\", e)\nr = \"fixed\"\n}\n}()\ndefer fmt.Println(\"safe-first\")\ndeep§(n)\nreturn \"normal\"\n}"
			g.add("recover", "", fmt.Sprint("depth", depth), decl, lines(fmt.Sprintf("fmt.Println(safe§(%d))", depth), "fmt.Println(\"continues\")"))
		}
	}

	g.add("recover", "", "no-panic", "func safe§() (r string) {\ndefer func() {\ne := recover()\nif e != nil {\nr = \"fixed\"\n} else {\nfmt.Println(\"nothing to recover\")\n}\n}()\nreturn \"normal\"\n}", lines("fmt.Println(safe§())"))
	g.add("recover", "", "twice", "func try§(s string) {\ndefer func() {\ne := recover()\nfmt.Println(\"got\", e)\n}()\npanic(s)\n}", lines("try§(\"one\")", "try§(\"two\")", "fmt.Println(\"end\")"))
	g.add("recover", "", "in-loop", "func try§(i int) (ok bool) {\ndefer func() {\ne := recover()\nif e != nil {\nok = false\n}\n}()\nif i == 1 {\npanic(\"odd\")\n}\nreturn true\n}", lines("for i := 0; i < 3; i++ {", "fmt.Println(i, try§(i))", "}"))
	g.add("repanic", "", "outer-recovers", "func inner§() {\ndefer func() {\ne := recover()\nfmt.Println(\"inner got\", e)\npanic(\"second\")\n}()\npanic(\"first\")\n}\nfunc outer§() {\ndefer func() {\nfmt.Println(\"outer got\", recover())\n}()\ninner§()\n}", lines("outer§()", "fmt.Println(\"end\")"))

	// panic with an argument that is not a single literal
	for _, v := range []struct{ name, pre, arg string }{
		{"concat", "", `"x" + "y"`},
		{"variable", "msg := \"m\" + s\n", "msg"},
		{"sprintf", "", `fmt.Sprintf("code %d", len(s))`},
		{"call", "", "up§(s)"},
	} {
		decl := "func up§(s string) string {\nreturn s + \"!\"\n}\nfunc try§(s string) {\ndefer func() {\ne := recover()\nfmt.Println(\"got\", e)\n}()\n" + v.pre + "panic(" + v.arg + ")\n}"
		g.add("panic-expr", "", v.name, decl, lines("fmt.Println(up§(\"a\"))", "try§(\"one\")", "fmt.Println(\"end\")"))
	}

	// unrecovered panics: output before the abort, deferred calls still run
	for depth := 0; depth <= 2; depth++ {
		decl := "func deep§(n int) {\ndefer fmt.Println(\"unwind\", n)\nif n == 0 {\npanic(\"fatal\")\n}\ndeep§(n - 1)\nfmt.Println(\"not reached\", n)\n}"
		g.add("panic", "", fmt.Sprint("depth", depth), decl, lines("fmt.Println(\"start\")", "defer fmt.Println(\"top-defer\")", fmt.Sprintf("deep§(%d)", depth), "fmt.Println(\"not reached\")"))
	}

	g.add("panic", "", "plain", "", lines("fmt.Println(\"start\")", "panic(\"stop\")"))
	g.add("panic", "", "in-closure", "", lines("fmt.Println(\"start\")", "f := func(n int) {", "if n > 1 {", "panic(\"too big\")", "}", "fmt.Println(\"ok\", n)", "}", "f(1)", "f(2)", "f(3)"))
	g.add("panic", "", "after-recover", "func try§() {\ndefer func() {\nfmt.Println(\"got\", recover())\n}()\npanic(\"one\")\n}", lines("try§()", "fmt.Println(\"between\")", "panic(\"two\")"))

	// division by zero below the top frame: output so far, then abort
	for _, t := range intTypes {
		if !g.thorough && t.name != "int" && t.name != "int16" && t.name != "uint32" {
			continue
		}

		g.add("div0-nested", t.name, "", fmt.Sprintf("func q§(a %s, b %s) %s {\ndefer fmt.Println(\"q-defer\")\nreturn a / b\n}", t.name, t.name, t.name), lines(
			fmt.Sprintf("var six %s = 6", t.name), fmt.Sprintf("var three %s = 3", t.name),
			"fmt.Println(q§(six, three))", fmt.Sprintf("var z %s = 0", t.name), "fmt.Println(\"before\")", "fmt.Println(q§(six, z))", "fmt.Println(\"after\")"))
	}
}

// ---- thorough: ordered pairs of statement forms on a shared variable, and
// one level of nesting ------------------------------------------------------

var fragments = []struct{ name, code string }{
	{"add-const", "x = x + 3"},
	{"sub-const", "x = x - 3"},
	{"mul-const", "x = x * 3"},
	{"div-const", "x = x / 2"},
	{"mod-const", "x = x % 5"},
	{"add-var", "x = x + y"},
	{"mul-var", "x = y * x"},
	{"plus-eq", "x += 2"},
	{"minus-eq", "x -= y"},
	{"times-eq", "x *= 2"},
	{"div-eq", "x /= 2"},
	{"inc", "x++"},
	{"dec", "x--"},
	{"neg", "x = -x"},
	{"via-temp", "t := x + 1\nx = t"},
	{"if-else", "if x > y {\nx = x - y\n} else {\nx++\n}"},
	{"loop", "for i := 0; i < 2; i++ {\nx += y\n}"},
	{"switch", "switch {\ncase x > 5:\nx -= 5\ndefault:\nx += 5\n}"},
	{"closure", "f := func() {\nx = x + y\n}\nf()"},
	{"pointer", "p := &x\n*p = *p + 1"},
	{"func-call", "x = id§(x) + 1"},
}

var wrappers = []struct{ name, open, close string }{
	{"in-if", "if y > 0 {", "}"},
	{"in-for", "for k := 0; k < 2; k++ {", "}"},
	{"in-switch", "switch y {\ncase 2:", "default:\nfmt.Println(\"no\")\n}"},
	{"in-closure", "g := func() {", "}\ng()"},
	{"in-block", "{", "}"},
}

func renameTemps(code string, n int) string {
	r := strings.NewReplacer("t := ", fmt.Sprintf("t%d := ", n), "x = t", fmt.Sprintf("x = t%d", n),
		"f := ", fmt.Sprintf("f%d := ", n), "f()", fmt.Sprintf("f%d()", n),
		"p := ", fmt.Sprintf("p%d := ", n), "*p = *p", fmt.Sprintf("*p%d = *p%d", n, n))

	return r.Replace(code)
}

func (g *gen) pairsAndNesting() {
	for _, t := range intTypes {
		T := t.name
		decl := fmt.Sprintf("func id§(v %s) %s {\nreturn v\n}", T, T)
		starts := []string{"7", new(big.Int).Sub(t.hi(), big.NewInt(1)).String()}

		if t.signed {
			starts = append(starts, new(big.Int).Add(t.lo(), big.NewInt(1)).String())
		} else {
			starts = append(starts, "0")
		}

		for _, a := range starts {
			head := lines(fmt.Sprintf("var x %s = %s", T, a), fmt.Sprintf("var y %s = 2", T))

			for i, f1 := range fragments {
				d := ""
				if strings.Contains(f1.code, "id§") {
					d = decl
				}

				for j, f2 := range fragments {
					d2 := d
					if strings.Contains(f2.code, "id§") {
						d2 = decl
					}

					_ = i
					_ = j

					g.add("pair", T, f1.name+"+"+f2.name, d2, lines(head,
						renameTemps(f1.code, 1), pr(T, "x"),
						renameTemps(f2.code, 2), pr(T, "x"), pr(T, "y")))
				}

				for _, w := range wrappers {
					g.add("nest", T, w.name+"+"+f1.name, d, lines(head, w.open, f1.code, pr(T, "x"), w.close, pr(T, "x"), pr(T, "y")))
				}
			}
		}
	}
}

func generate(thorough bool) []*prog {
	g := &gen{thorough: thorough, seen: map[string]bool{}}

	g.intArith()
	g.conversions()
	g.floatArith()
	g.stringsAndBools()
	g.ifElse()
	g.loops()
	g.switches()
	g.slices()
	g.maps()
	g.structs()
	g.structCopies()
	g.functions()
	g.constBoundaries()
	g.incdecTargets()
	g.wideLiterals()
	g.defers()

	if thorough {
		g.pairsAndNesting()
	}

	return g.progs
}

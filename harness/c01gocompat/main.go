// C01: a program written in the documented Go-compatible core of Ego prints
// what the same program prints when compiled by Go, aborts where Go aborts and
// reports no error where Go does not - under all three type-checking modes.
//
// E-enum against the real Go compiler. gen.go enumerates every single-form
// program over every scalar type / operator / boundary value (thorough: also
// every ordered pair of statement forms on a shared variable and one level of
// nesting). The same source text is compiled by Go (batched; every program
// that panics is run again alone, in its own process) and run by the plain
// `ego run --types <mode>` binary. For speed the programs Go completes
// normally are packed (600 functions per file, each in its own try{} with
// delimiters); a program that Go aborts is never packed, one representative of
// every form (thorough: of every form and type class) is always run alone, and
// every packed disagreement is re-run alone in a fresh ego process: only a
// disagreement seen there is reported.
//
// A violation is filed per program, not per (program, mode): its cell is
// form group : type class : the modes that disagree and how, e.g.
// "incdec:sized-int:dynamic=out,strict=err", always computed from three
// stand-alone runs.
package main

import (
	"fmt"
	"os"
	"path/filepath"
	"runtime"
	"sort"
	"strings"
	"sync"
	"syscall"
	"time"

	"github.com/tucats/ego/internal/verifrt/report"
)

const packSize = 600

type egoRun struct {
	Mode   string `json:"mode"`
	Kind   string `json:"kind"` // "" = agrees with Go
	Stdout string `json:"stdout"`
	Stderr string `json:"stderr,omitempty"`
	Exit   int    `json:"exit"`
}

type witness struct {
	Form     string   `json:"form"`
	Type     string   `json:"type"`
	Sub      string   `json:"sub"`
	Source   string   `json:"source"`
	GoStdout string   `json:"go_stdout"`
	GoAborts bool     `json:"go_aborts"`
	GoPanic  string   `json:"go_panic,omitempty"`
	Ego      []egoRun `json:"ego"`
}

func egoReportsError(o outcome) bool {
	if o.Exit != 0 {
		return true
	}

	for _, l := range strings.Split(o.Stderr, "\n") {
		if strings.HasPrefix(l, "Error:") {
			return true
		}
	}

	return false
}

// judge compares a stand-alone Ego run with the reference. "" = agreement.
//
//	error        Go completes, Ego reports an error
//	output       both complete, standard output differs
//	no-abort     Go aborts with a run-time panic, Ego completes
//	abort-output both abort, but the output printed before the abort differs
//
// When both abort, Ego's standard output may continue after the program's own
// output with its abort report ("panic: ..." and call frames, which Go writes
// to standard error): the statement asks for the same output before the abort,
// not for the wording or the stream of the abort report.
func judge(ref refResult, o outcome) string {
	failed := egoReportsError(o)

	if !ref.Abort {
		switch {
		case failed:
			return "error"
		case o.Stdout != ref.Stdout:
			return "output"
		}

		return ""
	}

	if !failed {
		return "no-abort"
	}

	if !strings.HasPrefix(o.Stdout, ref.Stdout) {
		return "abort-output"
	}

	rest := o.Stdout[len(ref.Stdout):]
	if rest != "" && !strings.HasPrefix(rest, "panic: ") {
		return "abort-output"
	}

	return ""
}

func judgePacked(ref refResult, pr packedResult) string {
	switch {
	case pr.errText != "":
		return "error"
	case pr.stdout != ref.Stdout:
		return "output"
	}

	return ""
}

// typeClass groups the scalar types so that one root cause gives few cells:
// int, float64, string and bool are the types an untyped constant has by
// default; every other integer type is "sized-int".
func typeClass(t string) string {
	switch t {
	case "int", "float32", "float64", "string", "bool":
		return t
	case "":
		return "any"
	}

	// struct nesting depth of the struct-copy forms: shallow (1-2) or deep (3-4)
	switch t {
	case "depth1", "depth2":
		return "depth1-2"
	case "depth3", "depth4":
		return "depth3-4"
	}

	return "sized-int"
}

var kindShort = map[string]string{"error": "err", "output": "out", "no-abort": "noabort", "abort-output": "abortout"}

// signature is the per-mode verdict of one program; "" = all modes agree.
type signature [3]string

func (s signature) empty() bool { return s == signature{} }

func (s signature) String() string {
	var parts []string

	for i, m := range modes {
		if s[i] != "" {
			parts = append(parts, m+"="+kindShort[s[i]])
		}
	}

	return strings.Join(parts, ",")
}

// cellOf names the violation cell of a program: its form, the class of its
// scalar type and which modes disagree with Go in which way.
func cellOf(form, typ string, s signature) string {
	return fmt.Sprintf("%s:%s:%s", formGroup(form), typeClass(typ), s)
}

// formGroup merges forms that differ only in where the result goes.
func formGroup(form string) string {
	switch form {
	case "arith-vc", "arith-cv", "assign-self", "compound-c":
		return "arith-const"
	case "arith-vv", "compound-v":
		return "arith-var"
	case "float-vc", "float-self", "float-compound":
		return "float-const"
	case "float-vv":
		return "float-var"
	case "float-incdec":
		return "incdec"
	case "float-neg":
		return "neg"
	case "cmp-vv", "cmp-vc", "float-cmp":
		return "cmp"
	}

	return form
}

type candidate struct {
	p     *prog
	guess signature // from the packed runs
	why   string
}

func main() {
	r := report.New("exploration")
	scratch = os.Getenv("VERIF_SCRATCH")

	if scratch == "" {
		report.Fatal("VERIF_SCRATCH is not set")
	}

	workers := runtime.NumCPU()
	if workers > 32 {
		workers = 32
	}

	r.Assume(
		"the Go compiler found on PATH (go.mod says go 1.23) is the reference for what a Go program prints",
		"an Ego run is `ego run --types <mode> file` with the default profile ego creates (extensions on); the optimizer level and other performance settings are C02's subject",
		"abort = non-zero exit status or an 'Error:' line on stderr; the wording and the stream of Ego's abort report are not compared",
	)

	if r.Replay != "" {
		replay(r)

		return
	}

	progs := generate(r.Thorough())
	start := time.Now()
	refs := reference(progs, workers)
	r.Set("reference_wall_s", time.Since(start).Seconds())

	aborts := 0
	for _, x := range refs {
		if x.Abort {
			aborts++
		}
	}

	progress("reference done: %d programs, %d abort", len(progs), aborts)

	if os.Getenv("C01_GENONLY") != "" {
		report.Fatal("C01_GENONLY: %d programs compiled and run by Go, %d abort", len(progs), aborts)
	}

	ego := newEgoRunner(workers)

	var (
		mu         sync.Mutex
		guesses    = map[int]*candidate{}
		timeouts   int
		packedRuns int64
		packSplits int64
		aloneRuns  int64
	)

	modeIndex := map[string]int{}
	for i, m := range modes {
		modeIndex[m] = i
	}

	note := func(p *prog, mode, kind, why string) {
		mu.Lock()
		defer mu.Unlock()

		c := guesses[p.idx]
		if c == nil {
			c = &candidate{p: p}
			guesses[p.idx] = c
		}

		c.guess[modeIndex[mode]] = kind
		if c.why == "" {
			c.why = mode + ": " + why
		}
	}

	// ---- the bulk: packed files -------------------------------------------
	type task struct {
		mode string
		ps   []*prog
	}

	var tasks []task

	for _, m := range modes {
		var cur []*prog

		for i, p := range progs {
			if refs[i].Abort {
				continue
			}

			// the forms built from several functions with defer/panic/recover
			// go into small packs: a file that does not compile loses the
			// whole pack and has to be split
			if fragile(p) != (len(cur) > 0 && fragile(cur[0])) && len(cur) > 0 {
				tasks = append(tasks, task{m, cur})
				cur = nil
			}

			cur = append(cur, p)
			if len(cur) == packSize || (fragile(p) && len(cur) == 8) {
				tasks = append(tasks, task{m, cur})
				cur = nil
			}
		}

		if len(cur) > 0 {
			tasks = append(tasks, task{m, cur})
		}
	}

	var evalPack func(w int, mode string, ps []*prog)

	evalPack = func(w int, mode string, ps []*prog) {
		res, o := ego.runPacked(w, mode, ps)

		mu.Lock()
		packedRuns++
		mu.Unlock()

		var unresolved []*prog

		for _, p := range ps {
			pr, ok := res[p.idx]
			if !ok || !pr.resolved {
				unresolved = append(unresolved, p)

				continue
			}

			r.Eval(1)
			r.Distinct(mode + "\x00" + p.Decls + "\x00" + p.Body)

			if k := judgePacked(refs[p.idx], pr); k != "" {
				why := pr.errText
				if k == "output" {
					why = fmt.Sprintf("printed %q, Go prints %q", clip(pr.stdout), clip(refs[p.idx].Stdout))
				}

				note(p, mode, k, why)
			}
		}

		if len(unresolved) == 0 {
			return
		}

		if len(ps) == 1 {
			// cannot be run packed at all (compile error, abort, time-out): judged alone below
			why := "packed run failed: " + firstLine(o.Stderr)
			if o.TimedOut {
				why = "packed run timed out"
			}

			r.Eval(1)
			r.Distinct(mode + "\x00" + ps[0].Decls + "\x00" + ps[0].Body)

			note(ps[0], mode, "error", why)

			return
		}

		mu.Lock()
		packSplits++
		mu.Unlock()

		if len(unresolved) == 1 {
			evalPack(w, mode, unresolved)

			return
		}

		half := len(unresolved) / 2
		evalPack(w, mode, unresolved[:half])
		evalPack(w, mode, unresolved[half:])
	}

	parallel(len(tasks), workers, func(w, i int) { evalPack(w, tasks[i].mode, tasks[i].ps) })

	progress("packed phase done: %d packed runs, %d programs disagree", packedRuns, len(guesses))

	// judgeAlone runs one program alone in the given modes and reports it
	// under the cell of its stand-alone signature.
	// judgeAlone runs one program alone, first in the given modes; as soon as
	// one of them disagrees with Go the remaining modes are run alone too, so
	// that a reported signature (and with it the cell) always rests on three
	// stand-alone runs.
	judgeAlone := func(w int, p *prog, which signature, all bool) bool {
		ref := refs[p.idx]

		var (
			sig  signature
			done [3]bool
			outs [3]outcome
		)

		runMode := func(i int) bool {
			o := ego.alone(w, modes[i], p)

			mu.Lock()
			aloneRuns++
			if o.TimedOut {
				timeouts++
			}
			mu.Unlock()

			done[i], outs[i] = true, o
			if !o.TimedOut {
				sig[i] = judge(ref, o)
			}

			return !o.TimedOut
		}

		for i := range modes {
			if all || which[i] != "" {
				// a run that hit the time limit says nothing; a partial signature
				// would name the wrong cell, so the program is then not judged
				if !runMode(i) {
					return false
				}
			}
		}

		if sig.empty() {
			return false
		}

		for i := range modes {
			if !done[i] && !runMode(i) {
				return false
			}
		}

		wit := witness{Form: p.Form, Type: p.Type, Sub: p.Sub, Source: p.standalone(), GoStdout: ref.Stdout, GoAborts: ref.Abort, GoPanic: ref.Panic}

		for i, m := range modes {
			if sig[i] != "" {
				wit.Ego = append(wit.Ego, egoRun{Mode: m, Kind: sig[i], Stdout: clipLong(outs[i].Stdout), Stderr: clipLong(outs[i].Stderr), Exit: outs[i].Exit})
			}
		}

		r.Violation(cellOf(p.Form, p.Type, sig), p.size(), wit, explain(wit))

		return true
	}

	// ---- alone: aborting programs and one representative per form (thorough:
	// per form and type class), in every mode ---------------------------------
	type single struct {
		p    *prog
		only int // quick: a representative is run in one mode (rotating); -1 = all modes
	}

	var singles []single

	seenRep := map[string]bool{}

	for i, p := range progs {
		rep := false

		k := p.Form
		if r.Thorough() {
			k += "|" + typeClass(p.Type)
		}

		if !seenRep[k] {
			seenRep[k] = true
			rep = true
		}

		switch {
		case refs[i].Abort || (rep && r.Thorough()):
			singles = append(singles, single{p, -1})
		case rep:
			singles = append(singles, single{p, len(seenRep) % len(modes)})
		}
	}

	parallel(len(singles), workers, func(w, i int) {
		p := singles[i].p
		if refs[p.idx].Abort {
			r.Eval(len(modes))

			for _, m := range modes {
				r.Distinct(m + "\x00" + p.Decls + "\x00" + p.Body)
			}
		}

		if k := singles[i].only; k >= 0 {
			var which signature

			which[k] = "?"
			judgeAlone(w, p, which, false)

			return
		}

		judgeAlone(w, p, signature{}, true)
	})

	progress("stand-alone phase done: %d runs", aloneRuns)

	// ---- confirmation of packed disagreements, smallest first per cell -------
	// Cells are settled in rounds: a cell whose smallest candidates are
	// confirmed alone is reported; the remaining candidates of that cell are
	// the same defect and are only counted. A cell none of whose candidates has
	// been confirmed so far keeps being re-run until it is exhausted.
	byCell := map[string][]*candidate{}
	for _, c := range guesses {
		k := cellOf(c.p.Form, c.p.Type, c.guess)
		byCell[k] = append(byCell[k], c)
	}

	cells := make([]string, 0, len(byCell))
	for c := range byCell {
		cells = append(cells, c)
		l := byCell[c]
		sort.SliceStable(l, func(i, j int) bool {
			if l[i].p.size() != l[j].p.size() {
				return l[i].p.size() < l[j].p.size()
			}

			return l[i].p.idx < l[j].p.idx
		})
	}

	sort.Strings(cells)

	next := map[string]int{}
	settled := map[string]bool{}
	confirmedTotal, notConfirmed, notRerun := 0, 0, 0
	chunk := 1

	for {
		var (
			round     []*candidate
			roundCell []string
		)

		for _, c := range cells {
			if settled[c] {
				continue
			}

			l := byCell[c]
			hi := next[c] + chunk

			if hi > len(l) {
				hi = len(l)
			}

			for _, x := range l[next[c]:hi] {
				round = append(round, x)
				roundCell = append(roundCell, c)
			}

			next[c] = hi
		}

		if len(round) == 0 {
			break
		}

		ok := make([]bool, len(round))

		parallel(len(round), workers, func(w, i int) {
			ok[i] = judgeAlone(w, round[i].p, round[i].guess, false)
		})

		for i := range round {
			if ok[i] {
				settled[roundCell[i]] = true
				confirmedTotal++
			} else {
				notConfirmed++
			}
		}

		if chunk < 256 {
			chunk *= 2
		}
	}

	for _, c := range cells {
		notRerun += len(byCell[c]) - next[c]
	}

	if timeouts > 0 {
		r.Capped(fmt.Sprintf("%d stand-alone ego runs hit the time limit; those programs were not judged", timeouts))
	}

	forms := map[string]bool{}
	for _, p := range progs {
		forms[p.Form] = true
	}

	for i := 0; i < len(progs); i += 1 + len(progs)/6 {
		r.Sample(map[string]any{"form": progs[i].Form, "type": progs[i].Type, "variant": progs[i].Sub, "body": progs[i].subst(progs[i].Body), "go_stdout": refs[i].Stdout, "go_aborts": refs[i].Abort})
	}

	r.Rule("every program of the generator (form x scalar type x operator x boundary values; thorough: + ordered pairs of 21 statement forms on a shared variable and 5 nestings), each under the type modes dynamic, relaxed and strict; one evaluation = one (program, mode) run by ego and compared with Go's output and abort status; distinct = distinct (program text, mode)")
	r.Set("programs", len(progs))
	r.Set("forms", len(forms))
	r.Set("modes", len(modes))
	r.Set("go_aborting_programs", aborts)
	r.Set("packed_files_run", packedRuns)
	r.Set("packed_files_split_after_failure", packSplits)
	r.Set("standalone_ego_runs", aloneRuns)
	r.Set("programs_disagreeing_packed", len(guesses))
	r.Set("programs_confirmed_alone", confirmedTotal)
	r.Set("programs_not_reproduced_alone", notConfirmed)
	r.Set("programs_in_already_confirmed_cells_not_rerun", notRerun)

	if d := os.Getenv("C01_DEBUG"); d != "" {
		var b strings.Builder

		ids := make([]int, 0, len(guesses))
		for i := range guesses {
			ids = append(ids, i)
		}

		sort.Ints(ids)

		for _, i := range ids {
			c := guesses[i]
			fmt.Fprintf(&b, "%s\t%s\t%s\t%d\t%s\t%s\n", cellOf(c.p.Form, c.p.Type, c.guess), c.p.Type, c.p.Sub, c.p.idx, strings.ReplaceAll(c.p.subst(c.p.Body), "\n", "; "), c.why)
		}

		_ = os.WriteFile(d, []byte(b.String()), 0o644)
	}

	var ru syscall.Rusage
	if err := syscall.Getrusage(syscall.RUSAGE_CHILDREN, &ru); err == nil {
		r.Set("child_processes_cpu_s", float64(ru.Utime.Sec+ru.Stime.Sec)+float64(ru.Utime.Usec+ru.Stime.Usec)/1e6)
	}

	_ = os.RemoveAll(filepath.Join(scratch, "ref"))
	_ = os.RemoveAll(filepath.Join(scratch, "egohome"))

	r.Finish()
}

var t0 = time.Now()

func progress(f string, a ...any) {
	fmt.Fprintf(os.Stderr, "[c01 %6.1fs] "+f+"\n", append([]any{time.Since(t0).Seconds()}, a...)...)
}

func fragile(p *prog) bool {
	switch p.Form {
	case "defer", "recover", "repanic", "panic", "panic-expr":
		return true
	}

	return false
}

func explain(w witness) string {
	var parts []string

	for _, e := range w.Ego {
		switch e.Kind {
		case "error":
			parts = append(parts, fmt.Sprintf("--types %s reports %q", e.Mode, firstLine(e.Stderr)))
		case "output":
			parts = append(parts, fmt.Sprintf("--types %s prints %q", e.Mode, clip(e.Stdout)))
		case "no-abort":
			parts = append(parts, fmt.Sprintf("--types %s completes and prints %q", e.Mode, clip(e.Stdout)))
		default:
			parts = append(parts, fmt.Sprintf("--types %s aborts after printing %q", e.Mode, clip(e.Stdout)))
		}
	}

	goSide := fmt.Sprintf("Go prints %q", clip(w.GoStdout))
	if w.GoAborts {
		goSide = fmt.Sprintf("Go prints %q and aborts (%s)", clip(w.GoStdout), w.GoPanic)
	}

	return goSide + "; ego " + strings.Join(parts, "; ")
}

func clip(s string) string {
	if len(s) > 120 {
		return s[:120] + "..."
	}

	return s
}

func clipLong(s string) string {
	if len(s) > 1500 {
		return s[:1500] + "..."
	}

	return s
}

func firstLine(s string) string {
	s = strings.TrimSpace(s)
	if i := strings.IndexByte(s, '\n'); i >= 0 {
		s = s[:i]
	}

	return clip(s)
}

// replay re-runs exactly one witness: its source through Go and through a
// fresh ego process in the witness's mode.
func replay(r *report.R) {
	var w witness
	if err := report.LoadReplay(r.Replay, &w); err != nil {
		report.Fatal("%v", err)
	}

	dir := filepath.Join(scratch, "replay")
	if err := os.MkdirAll(dir, 0o755); err != nil {
		report.Fatal("%v", err)
	}

	_ = os.WriteFile(filepath.Join(dir, "main.go"), []byte(w.Source), 0o644)
	_ = os.WriteFile(filepath.Join(dir, "go.mod"), []byte("module ref\n\ngo 1.23\n"), 0o644)

	env := goEnv()
	if o := run(5*time.Minute, dir, env, "go", "build", "-o", "ref.bin", "."); o.Exit != 0 {
		report.Fatal("replay: reference does not compile: %s", o.Stderr)
	}

	g := run(20*time.Second, dir, env, filepath.Join(dir, "ref.bin"))
	ref := refResult{Stdout: g.Stdout}

	if g.Exit == 2 && strings.HasPrefix(g.Stderr, "panic: ") {
		ref.Abort = true
		ref.Panic = firstLine(g.Stderr)
	} else if g.Exit != 0 {
		report.Fatal("replay: reference exit %d: %s", g.Exit, g.Stderr)
	}

	ego := newEgoRunner(1)
	f := filepath.Join(ego.homes[0], "work", "replay.ego")
	_ = os.WriteFile(f, []byte(w.Source), 0o644)

	var sig signature

	w.GoStdout, w.GoAborts, w.GoPanic, w.Ego = ref.Stdout, ref.Abort, ref.Panic, nil

	for i, m := range modes {
		o := ego.runFile(0, m, f, 60*time.Second)

		r.Eval(1)
		r.Distinct(m + w.Source)

		if o.TimedOut {
			r.Capped("an ego run timed out")

			continue
		}

		sig[i] = judge(ref, o)
		if sig[i] != "" {
			w.Ego = append(w.Ego, egoRun{Mode: m, Kind: sig[i], Stdout: clipLong(o.Stdout), Stderr: clipLong(o.Stderr), Exit: o.Exit})
		}
	}

	r.Rule("replay of one witness program in the three type modes")
	r.Sample(map[string]any{"source": w.Source})

	if !sig.empty() {
		r.Violation(cellOf(w.Form, w.Type, sig), len(w.Source), w, explain(w))
	}

	r.Finish()
}

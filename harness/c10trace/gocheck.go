package main

import (
	"fmt"
	"os"
	"os/exec"
	"path/filepath"
	"strings"
)

// Cross-validation of the reference interpreter against the Go toolchain on
// the Go-expressible part of the trace language (no try, no raise: defer,
// recover, panic, return, loops, break/continue, calls). Every such program up
// to a size is emitted as Go, compiled and run once; the Go trace must equal
// the model's. A difference is a defect of the *model* (harness problem, exit
// 2), never a verdict about ego.

func goBlock(sb *strings.Builder, ind int, b []*Stmt, loopDepth int, prefix string) {
	line := func(i int, f string, a ...any) {
		sb.WriteString(strings.Repeat("\t", i))
		fmt.Fprintf(sb, f, a...)
		sb.WriteByte('\n')
	}

	for _, s := range b {
		switch s.K {
		case 'P':
			line(ind, `panic("p")`)
		case 'R':
			line(ind, `return`)
		case 'b':
			line(ind, `break`)
		case 'c':
			line(ind, `continue`)
		case 'd':
			line(ind, `defer fmt.Println("D", %d)`, s.ID)
		case 'r':
			line(ind, `defer func() {`)
			line(ind+1, `recover()`)
			line(ind+1, `fmt.Println("R", %d)`, s.ID)
			line(ind, `}()`)
		case '1', '2':
			line(ind, `%sf%c()`, prefix, s.K)
		case 'L':
			v := loopDepth + 1
			line(ind, `for i%d := 0; i%d < 2; i%d++ {`, v, v, v)
			line(ind+1, `fmt.Println("Bl", %d)`, s.ID)
			goBlock(sb, ind+1, s.Body, v, prefix)
			line(ind, `}`)
		case '?':
			line(ind, `if i%d == 1 {`, loopDepth)
			line(ind+1, `fmt.Println("Bi", %d)`, s.ID)
			goBlock(sb, ind+1, s.Body, loopDepth, prefix)
			line(ind, `}`)
		default:
			panic("goBlock: not Go-expressible: " + string(s.K))
		}

		line(ind, `fmt.Println("M", %d)`, s.ID)
	}
}

func goSource(ps []*Prog) string {
	var sb strings.Builder

	sb.WriteString("package main\n\nimport \"fmt\"\n\n")

	for i, p := range ps {
		prefix := fmt.Sprintf("p%d_", i)

		for k := len(p.F) - 1; k >= 0; k-- {
			fmt.Fprintf(&sb, "func %sf%d() {\n\tfmt.Println(\"Bf\", %d)\n", prefix, k, k)
			goBlock(&sb, 1, p.F[k], 0, prefix)
			sb.WriteString("}\n\n")
		}

		fmt.Fprintf(&sb, "func %sw() {\n\tdefer func() {\n\t\tif recover() != nil {\n\t\t\tfmt.Println(\"ABORT-PANIC\")\n\t\t}\n\t}()\n\t%sf0()\n\tfmt.Println(\"END\")\n}\n\n", prefix, prefix)
	}

	sb.WriteString("func main() {\n")

	for i := range ps {
		fmt.Fprintf(&sb, "\tfmt.Println(\"#BEGIN\", %d)\n\tp%d_w()\n\tfmt.Println(\"#END\", %d)\n", i, i, i)
	}

	sb.WriteString("}\n")

	return sb.String()
}

// goCrossCheck returns the number of programs compared, or a note why the
// comparison could not be made (no Go toolchain: not an error of the check).
func goCrossCheck(en *enumerator, maxSize, depth int) (int, string) {
	var ps []*Prog

	for size := 1; size <= maxSize; size++ {
		en.programs(size, depth, 3, func(key string) {
			if strings.ContainsAny(key, "TUX") {
				return
			}

			p, err := Parse(key)
			if err != nil {
				fatal("internal: %v", err)
			}

			ps = append(ps, p)
		})
	}

	dir := filepath.Join(scratch, "goref")
	_ = os.MkdirAll(dir, 0o755)

	if err := os.WriteFile(filepath.Join(dir, "main.go"), []byte(goSource(ps)), 0o644); err != nil {
		fatal("%v", err)
	}

	if err := os.WriteFile(filepath.Join(dir, "go.mod"), []byte("module goref\n\ngo 1.21\n"), 0o644); err != nil {
		fatal("%v", err)
	}

	cmd := exec.Command("go", "run", ".")
	cmd.Dir = dir
	cmd.Env = append(os.Environ(), "GOFLAGS=-mod=mod", "GOPROXY=off", "GOCACHE="+filepath.Join(scratch, "gocache"))

	out, err := cmd.CombinedOutput()
	if err != nil && !strings.Contains(string(out), "#END") {
		return 0, fmt.Sprintf("go run failed: %v: %.300s", err, out)
	}

	toks, began, ended := splitPacked(string(out), len(ps))

	for i, p := range ps {
		if !began[i] || !ended[i] {
			return 0, fmt.Sprintf("go reference output incomplete at program %s", p.Key())
		}

		e := expect(p, true, false)
		if v := match(e, toks[i]); !v.ok {
			fatal("the reference interpreter disagrees with Go on %s: model %v, go %v", p.Key(), e.strings(), toks[i])
		}
	}

	return len(ps), ""
}

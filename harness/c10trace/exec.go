package main

import (
	"strconv"

	"github.com/tucats/ego/internal/verifrt/egobatch"
)

// Execution goes through verifrt/egobatch: batch workers that repeat main.go's
// app.Run once per file, and fresh `ego run` processes for confirmation.

type runResult struct {
	out     string
	err     string
	died    bool
	why     string
	runaway bool
}

type pool struct{ p *egobatch.Pool }

func newPool(scratch string, n int) (*pool, error) {
	p, err := egobatch.NewPool(scratch, n)
	if err != nil {
		return nil, err
	}

	return &pool{p}, nil
}

func (p *pool) close()          { p.p.Close() }
func (p *pool) restarts() int64 { return p.p.Restarts() }

func conv(r egobatch.Result, err error) runResult {
	if err != nil {
		fatal("%v", err)
	}

	return runResult{out: r.Out, err: r.Err, died: r.Died, why: r.Why, runaway: r.Runaway}
}

func (p *pool) run(path string, opt int) runResult {
	return conv(p.p.Run("run", "-o", strconv.Itoa(opt), path))
}

func fresh(scratch, path string, opt int) runResult {
	return conv(egobatch.Fresh(scratch, "run", "-o", strconv.Itoa(opt), path))
}

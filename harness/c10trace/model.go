package main

import (
	"sort"
	"strconv"
	"strings"
)

// The reference interpreter of the trace language: what the property statement
// says has to be printed.
//
//   - a catchable error raised while a try is active (also in called
//     functions) goes to that try's handler exactly once and execution goes on
//     after the try statement; with no active try it stops the program;
//   - deferred calls run exactly once each, last registered first, when their
//     function returns (return statement or end of body) or is unwound by
//     panic(); a recover() in one of them stops the panic, the remaining
//     deferred calls of that function still run, and execution resumes in the
//     caller;
//   - where the statement is silent the expectation is loose: the deferred
//     calls of a function that is unwound by a *runtime error* (caught further
//     up, or stopping the program) may run or not (each at most once, in
//     reverse order, before control reaches the handler).
//
// Whether panic() is caught by try/catch is not said by the statement; the
// model follows what the implementation does on a probe program (panicCaught).

type tok struct {
	s   string
	opt bool
}

type sig int

const (
	sNormal sig = iota
	sErr
	sPanic
	sReturn
	sBreak
	sCont
)

// Hazards: the control transfers that happened (in the model) before a point
// of the trace. The set seen before a divergence names the violation cell.
const (
	hCaught = 1 << iota
	hSwallow
	hUncaught
	hErrFrame
	hErrDefers
	hErrCatch
	hBrkTry
	hContTry
	hRetTry
	hBrkCatch
	hContCatch
	hRetCatch
	hPanicTry
	hPanicCatch
	hPanicFrame
	hRecovered
	hPanicTop
	hDeferRun
	hLoopDefer
	hLoopInTry
	nHazards = 20
)

var hazardNames = []string{
	"caught", "swallowed", "uncaught", "err-frame", "err-defers", "err-in-catch",
	"brk-try", "cont-try", "ret-try", "brk-catch", "cont-catch", "ret-catch",
	"panic-try", "panic-catch", "panic-frame", "recovered", "panic-top", "defers", "defer-in-loop", "loop-done-in-try",
}

func hazardString(m uint32) string {
	var parts []string

	m &^= hLoopDefer // counted as coverage, too incidental to name a cell

	for i := 0; i < nHazards; i++ {
		if m&(1<<i) != 0 {
			parts = append(parts, hazardNames[i])
		}
	}

	sort.Strings(parts)

	if len(parts) == 0 {
		return "plain"
	}

	return strings.Join(parts, "+")
}

const (
	stOK = iota
	stError
	stPanic
)

type expectation struct {
	toks   []tok
	hazAt  []uint32 // hazards seen before toks[i] was emitted
	haz    uint32   // all hazards
	status int
}

type frame struct {
	defers []*Stmt
	loops  []int
	tries  int // try bodies of this function that are being executed
}

type model struct {
	p           *Prog
	out         []tok
	hazAt       []uint32
	haz         uint32
	frames      []*frame
	tryDepth    int
	panicCaught bool
}

func (m *model) emit(kind string, id int, opt bool) {
	m.out = append(m.out, tok{kind + strconv.Itoa(id), opt})
	m.hazAt = append(m.hazAt, m.haz)
}

func (m *model) emitRaw(s string) {
	m.out = append(m.out, tok{s, false})
	m.hazAt = append(m.hazAt, m.haz)
}

func (m *model) top() *frame { return m.frames[len(m.frames)-1] }

func (m *model) block(b []*Stmt) sig {
	for _, s := range b {
		if g := m.stmt(s); g != sNormal {
			return g
		}

		m.emit("M", s.ID, false)
	}

	return sNormal
}

func (m *model) stmt(s *Stmt) sig {
	switch s.K {
	case 'X':
		return sErr

	case 'P':
		if m.panicCaught && m.tryDepth > 0 {
			return sErr
		}

		return sPanic

	case 'R':
		return sReturn

	case 'b':
		return sBreak

	case 'c':
		return sCont

	case 'd', 'r':
		f := m.top()
		f.defers = append(f.defers, s)

		if len(f.loops) > 0 {
			m.haz |= hLoopDefer
		}

		return sNormal

	case '1', '2':
		return m.call(int(s.K - '0'))

	case 'T', 'U':
		m.emit("Bt", s.ID, false)
		m.tryDepth++
		m.top().tries++
		g := m.block(s.Body)
		m.top().tries--
		m.tryDepth--

		switch g {
		case sErr:
			if s.K == 'U' {
				m.haz |= hSwallow

				return sNormal
			}

			m.haz |= hCaught
			m.emit("Bc", s.ID, false)

			g2 := m.block(s.Catch)

			switch g2 {
			case sErr:
				m.haz |= hErrCatch
			case sBreak:
				m.haz |= hBrkCatch
			case sCont:
				m.haz |= hContCatch
			case sReturn:
				m.haz |= hRetCatch
			case sPanic:
				m.haz |= hPanicCatch
			}

			return g2
		case sBreak:
			m.haz |= hBrkTry
		case sCont:
			m.haz |= hContTry
		case sReturn:
			m.haz |= hRetTry
		case sPanic:
			m.haz |= hPanicTry
		}

		return g

	case 'L':
		f := m.top()
		f.loops = append(f.loops, 0)

		defer func() { f.loops = f.loops[:len(f.loops)-1] }()

		for i := 0; i < 2; i++ {
			f.loops[len(f.loops)-1] = i
			m.emit("Bl", s.ID, false)

			switch g := m.block(s.Body); g {
			case sNormal, sCont:
			case sBreak:
				if f.tries > 0 {
					m.haz |= hLoopInTry
				}

				return sNormal
			default:
				return g
			}
		}

		if f.tries > 0 {
			m.haz |= hLoopInTry
		}

		return sNormal

	case '?':
		f := m.top()
		if f.loops[len(f.loops)-1] != 1 {
			return sNormal
		}

		m.emit("Bi", s.ID, false)

		return m.block(s.Body)
	}

	panic("model: unknown statement " + string(s.K))
}

// call runs function k in a new frame and returns the signal seen by the caller.
func (m *model) call(k int) sig {
	f := &frame{}
	m.frames = append(m.frames, f)

	saveTry := m.tryDepth

	m.emit("Bf", k, false)

	g := m.block(m.p.F[k])

	defer func() {
		m.frames = m.frames[:len(m.frames)-1]
		m.tryDepth = saveTry
	}()

	switch g {
	case sNormal, sReturn:
		if len(f.defers) > 0 {
			m.haz |= hDeferRun
		}

		m.runDefers(f, false)

		return sNormal

	case sErr:
		m.haz |= hErrFrame

		if len(f.defers) > 0 {
			m.haz |= hErrDefers
		}

		m.runDefers(f, true)

		return sErr

	case sPanic:
		if len(f.defers) > 0 {
			m.haz |= hDeferRun
		}

		recovered := false

		for _, d := range f.defers {
			if d.K == 'r' {
				recovered = true
			}
		}

		m.runDefers(f, false)

		if recovered {
			m.haz |= hRecovered

			return sNormal
		}

		m.haz |= hPanicFrame

		return sPanic
	}

	panic("model: break/continue left a function")
}

func (m *model) runDefers(f *frame, optional bool) {
	for i := len(f.defers) - 1; i >= 0; i-- {
		d := f.defers[i]
		if d.K == 'r' {
			m.emit("R", d.ID, optional)
		} else {
			m.emit("D", d.ID, optional)
		}
	}
}

// expect runs the model. guarded: the program's main is called from
//
//	func w() { defer func(){ if recover()!=nil { print ABORT-PANIC } }()
//	           try { main(); print END } catch { print ABORT-ERR } }
//
// bare: func main() { pmain(); print END }.
func expect(p *Prog, guarded bool, panicCaught bool) *expectation {
	m := &model{p: p, panicCaught: panicCaught}

	if guarded {
		m.tryDepth = 1
	}

	g := m.call(0)
	st := stOK

	switch g {
	case sNormal:
		m.emitRaw("END")
	case sErr:
		if guarded {
			m.emitRaw("ABORT-ERR")
		} else {
			m.haz |= hUncaught
			st = stError
		}
	case sPanic:
		m.haz |= hPanicTop

		if guarded {
			m.emitRaw("ABORT-PANIC")
		} else {
			st = stPanic
		}
	}

	return &expectation{toks: m.out, hazAt: m.hazAt, haz: m.haz, status: st}
}

// tokenType is the class of a trace token used in cell names: "catch" (entry
// of a handler), "defer" (a deferred call ran), "cont" (any other marker:
// execution simply went on), or the token itself for END / ABORT-ERR / ABORT-PANIC.
func tokenType(s string) string {
	switch strings.TrimRight(s, "0123456789") {
	case "Bc":
		return "catch"
	case "D", "R":
		return "defer"
	case "M", "Bt", "Bl", "Bi", "Bf":
		return "cont"
	}

	return s
}

type verdict struct {
	ok      bool
	at      int    // index into expectation.toks of the first mandatory token that could not be matched (len = past the end)
	expType string // its type, "end" when the expectation was exhausted
	gotType string // type of the offending actual token, "end" when the output stopped
	gotIdx  int
}

// match compares the printed tokens with the expectation; optional tokens may
// be absent. When several alignments fail the one that consumed most of the
// actual output is reported.
func match(e *expectation, act []string) verdict {
	best := verdict{at: -1, gotIdx: -1}

	var rec func(i, j int) bool

	rec = func(i, j int) bool {
		// skip/take optional tokens
		for i < len(e.toks) && e.toks[i].opt {
			if j < len(act) && act[j] == e.toks[i].s {
				if rec(i+1, j+1) {
					return true
				}
			}

			i++
		}

		if i == len(e.toks) {
			if j == len(act) {
				return true
			}

			if j > best.gotIdx {
				best = verdict{at: i, expType: "end", gotType: tokenType(act[j]), gotIdx: j}
			}

			return false
		}

		if j < len(act) && act[j] == e.toks[i].s {
			return rec(i+1, j+1)
		}

		if j > best.gotIdx {
			got := "end"
			if j < len(act) {
				got = tokenType(act[j])
			}

			best = verdict{at: i, expType: tokenType(e.toks[i].s), gotType: got, gotIdx: j}
		}

		return false
	}

	if rec(0, 0) {
		return verdict{ok: true}
	}

	return best
}

func (e *expectation) strings() []string {
	out := make([]string, len(e.toks))
	for i, t := range e.toks {
		out[i] = t.s
		if t.opt {
			out[i] = "(" + t.s + ")?"
		}
	}

	return out
}

// hazardsBefore is the hazard set accumulated before expected token i.
func (e *expectation) hazardsBefore(i int) uint32 {
	if i >= 0 && i < len(e.hazAt) {
		return e.hazAt[i]
	}

	return e.haz
}

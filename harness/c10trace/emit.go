package main

import (
	"fmt"
	"strings"
)

// Variant selects the concrete Ego spelling of the abstract statements.
type Variant struct {
	Raise    int  `json:"raise"`     // 0 integer division by zero, 1 array index out of range, 2 throw errors.New
	CatchVar bool `json:"catch_var"` // catch (e) { ... } instead of catch { ... }
	DeferFn  bool `json:"defer_fn"`  // defer func(){ print }() instead of defer fmt.Println(...)
	// DeferNamed spells BOTH kinds of deferred call (print, recover+print) as a
	// call of a named function or method instead of a built-in call / literal:
	// 1 defer namedFunc()   2 defer namedFunc(id)   3 defer value.Method()
	DeferNamed int `json:"defer_named,omitempty"`
}

func (v Variant) String() string {
	s := fmt.Sprintf("raise%d/catchvar=%v/deferfn=%v", v.Raise, v.CatchVar, v.DeferFn)
	if v.DeferNamed != 0 {
		s += fmt.Sprintf("/defernamed=%d", v.DeferNamed)
	}

	return s
}

type emitter struct {
	sb     strings.Builder
	v      Variant
	prefix string
}

func (e *emitter) line(ind int, f string, a ...any) {
	for i := 0; i < ind; i++ {
		e.sb.WriteByte('\t')
	}

	fmt.Fprintf(&e.sb, f, a...)
	e.sb.WriteByte('\n')
}

func (e *emitter) mark(ind int, kind string, id int) {
	e.line(ind, `fmt.Println(%q, %d)`, kind, id)
}

func (e *emitter) block(ind int, b []*Stmt, loopDepth int) {
	for _, s := range b {
		switch s.K {
		case 'X':
			switch e.v.Raise {
			case 0:
				e.line(ind, `fmt.Println("V", 1/zero)`)
			case 1:
				e.line(ind, `fmt.Println("V", arr[5])`)
			default:
				e.line(ind, `throw errors.New("t")`)
			}
		case 'P':
			e.line(ind, `panic("p")`)
		case 'R':
			e.line(ind, `return`)
		case 'b':
			e.line(ind, `break`)
		case 'c':
			e.line(ind, `continue`)
		case 'd', 'r':
			if e.v.DeferNamed != 0 {
				e.namedDefer(ind, s)

				break
			}

			if s.K == 'r' {
				e.line(ind, `defer func() {`)
				e.line(ind+1, `recover()`)
				e.mark(ind+1, "R", s.ID)
				e.line(ind, `}()`)

				break
			}

			if e.v.DeferFn {
				e.line(ind, `defer func() {`)
				e.mark(ind+1, "D", s.ID)
				e.line(ind, `}()`)
			} else {
				e.line(ind, `defer fmt.Println("D", %d)`, s.ID)
			}
		case '1', '2':
			e.line(ind, `%sf%c()`, e.prefix, s.K)
		case 'T', 'U':
			e.line(ind, `try {`)
			e.mark(ind+1, "Bt", s.ID)
			e.block(ind+1, s.Body, loopDepth)

			if s.K == 'U' {
				e.line(ind, `}`)
			} else {
				if e.v.CatchVar {
					e.line(ind, `} catch (e%d) {`, s.ID)
				} else {
					e.line(ind, `} catch {`)
				}

				e.mark(ind+1, "Bc", s.ID)

				if e.v.CatchVar {
					e.line(ind+1, `fmt.Println("V", e%d != nil)`, s.ID)
				}

				e.block(ind+1, s.Catch, loopDepth)
				e.line(ind, `}`)
			}
		case 'L':
			v := loopDepth + 1
			e.line(ind, `for i%d := 0; i%d < 2; i%d++ {`, v, v, v)
			e.mark(ind+1, "Bl", s.ID)
			e.block(ind+1, s.Body, v)
			e.line(ind, `}`)
		case '?':
			e.line(ind, `if i%d == 1 {`, loopDepth)
			e.mark(ind+1, "Bi", s.ID)
			e.block(ind+1, s.Body, loopDepth)
			e.line(ind, `}`)
		}

		e.mark(ind, "M", s.ID)
	}
}

// namedDefer spells a deferred print (d) or recover+print (r) as a call of a
// named function, a named function with an argument, or a method value.
func (e *emitter) namedDefer(ind int, s *Stmt) {
	kind := "d"
	if s.K == 'r' {
		kind = "r"
	}

	switch e.v.DeferNamed {
	case 1:
		e.line(ind, `defer %s%s%d()`, e.prefix, kind, s.ID)
	case 2:
		e.line(ind, `defer h%s(%d)`, kind, s.ID)
	default:
		e.line(ind, `h%d := H{id: %d}`, s.ID, s.ID)

		if s.K == 'r' {
			e.line(ind, `defer h%d.R()`, s.ID)
		} else {
			e.line(ind, `defer h%d.D()`, s.ID)
		}
	}
}

// deferHelpers emits, for spelling 1, one named function per defer statement.
func (e *emitter) deferHelpers(b []*Stmt) {
	for _, s := range b {
		switch s.K {
		case 'd':
			e.line(0, `func %sd%d() {`, e.prefix, s.ID)
			e.mark(1, "D", s.ID)
			e.line(0, `}`)
			e.line(0, ``)
		case 'r':
			e.line(0, `func %sr%d() {`, e.prefix, s.ID)
			e.line(1, `recover()`)
			e.mark(1, "R", s.ID)
			e.line(0, `}`)
			e.line(0, ``)
		}

		e.deferHelpers(s.Body)
		e.deferHelpers(s.Catch)
	}
}

func (e *emitter) funcs(p *Prog) {
	if e.v.DeferNamed == 1 {
		for _, f := range p.F {
			e.deferHelpers(f)
		}
	}

	for k := len(p.F) - 1; k >= 0; k-- {
		e.line(0, `func %sf%d() {`, e.prefix, k)
		e.mark(1, "Bf", k)
		e.block(1, p.F[k], 0)
		e.line(0, `}`)
		e.line(0, ``)
	}
}

func (e *emitter) guard() {
	e.line(0, `func %sw() {`, e.prefix)
	e.line(1, `defer func() {`)
	e.line(2, `if recover() != nil {`)
	e.line(3, `fmt.Println("ABORT-PANIC")`)
	e.line(2, `}`)
	e.line(1, `}()`)
	e.line(1, `try {`)
	e.line(2, `%sf0()`, e.prefix)
	e.line(2, `fmt.Println("END")`)
	e.line(1, `} catch {`)
	e.line(2, `fmt.Println("ABORT-ERR")`)
	e.line(1, `}`)
	e.line(0, `}`)
	e.line(0, ``)
}

func header(e *emitter) {
	e.line(0, `@extensions true`)
	e.line(0, `package main`)
	e.line(0, ``)
	e.line(0, `import "fmt"`)

	if e.v.Raise == 2 {
		e.line(0, `import "errors"`)
	}

	e.line(0, ``)

	switch e.v.Raise {
	case 0:
		e.line(0, `var zero int = 0`)
	case 1:
		e.line(0, `var arr []int = []int{1, 2}`)
	}

	e.line(0, ``)

	switch e.v.DeferNamed {
	case 2:
		e.line(0, `func hd(id int) {`)
		e.line(1, `fmt.Println("D", id)`)
		e.line(0, `}`)
		e.line(0, ``)
		e.line(0, `func hr(id int) {`)
		e.line(1, `recover()`)
		e.line(1, `fmt.Println("R", id)`)
		e.line(0, `}`)
		e.line(0, ``)
	case 3:
		e.line(0, `type H struct {`)
		e.line(1, `id int`)
		e.line(0, `}`)
		e.line(0, ``)
		e.line(0, `func (h H) D() {`)
		e.line(1, `fmt.Println("D", h.id)`)
		e.line(0, `}`)
		e.line(0, ``)
		e.line(0, `func (h H) R() {`)
		e.line(1, `recover()`)
		e.line(1, `fmt.Println("R", h.id)`)
		e.line(0, `}`)
		e.line(0, ``)
	}
}

// soloSource is one program as a complete Ego source file.
func soloSource(p *Prog, guarded bool, v Variant) string {
	e := &emitter{v: v, prefix: "p_"}
	header(e)
	e.funcs(p)

	if guarded {
		e.guard()
		e.line(0, `func main() {`)
		e.line(1, `p_w()`)
		e.line(0, `}`)
	} else {
		e.line(0, `func main() {`)
		e.line(1, `p_f0()`)
		e.line(1, `fmt.Println("END")`)
		e.line(0, `}`)
	}

	return e.sb.String()
}

// packedSource holds many guarded programs in one file; main runs them one
// after the other between #BEGIN/#END delimiters.
func packedSource(ps []*Prog, v Variant) string {
	e := &emitter{v: v}
	header(e)

	for i, p := range ps {
		e.prefix = fmt.Sprintf("p%d_", i)
		e.funcs(p)
		e.guard()
	}

	e.line(0, `func main() {`)

	for i := range ps {
		e.line(1, `fmt.Println("#BEGIN", %d)`, i)
		e.line(1, `p%d_w()`, i)
		e.line(1, `fmt.Println("#END", %d)`, i)
	}

	e.line(0, `}`)

	return e.sb.String()
}

// parseTokens turns program output into trace tokens; anything that is not a
// marker line (error texts, panic banners, the V lines) is ignored.
func parseTokens(out string) []string {
	var toks []string

	for _, ln := range strings.Split(out, "\n") {
		ln = strings.TrimRight(ln, "\r ")

		switch ln {
		case "END", "ABORT-ERR", "ABORT-PANIC":
			toks = append(toks, ln)

			continue
		}

		sp := strings.IndexByte(ln, ' ')
		if sp <= 0 {
			continue
		}

		switch ln[:sp] {
		case "M", "D", "R", "Bt", "Bc", "Bl", "Bi", "Bf":
			num := ln[sp+1:]
			if num == "" || strings.Trim(num, "0123456789") != "" {
				continue
			}

			toks = append(toks, ln[:sp]+num)
		}
	}

	return toks
}

// splitPacked cuts the output of a packed file into per-program token lists.
// began[i] / ended[i] say whether the delimiters of program i were printed.
func splitPacked(out string, n int) (toks [][]string, began, ended []bool) {
	toks = make([][]string, n)
	began = make([]bool, n)
	ended = make([]bool, n)
	cur := -1

	var buf []string

	flush := func() {
		if cur >= 0 {
			toks[cur] = parseTokens(strings.Join(buf, "\n"))
		}

		buf = buf[:0]
	}

	for _, ln := range strings.Split(out, "\n") {
		ln = strings.TrimRight(ln, "\r ")

		var k int

		if c, err := fmt.Sscanf(ln, "#BEGIN %d", &k); err == nil && c == 1 && k >= 0 && k < n {
			flush()
			cur = k
			began[k] = true

			continue
		}

		if c, err := fmt.Sscanf(ln, "#END %d", &k); err == nil && c == 1 && k >= 0 && k < n {
			if k == cur {
				flush()
				ended[k] = true
				cur = -1
			}

			continue
		}

		buf = append(buf, ln)
	}

	flush()

	return toks, began, ended
}

// C10: try/catch and defer run exactly when documented.
//
// Bounded-exhaustive: every program of a small "trace language" (try/catch,
// try without catch, raise, panic, defer, defer+recover, call, return, loop
// with break/continue, if) up to a statement count is printed as Ego source
// with a marker at the start of every block and after every statement, run
// through the real `ego run` front end, and the printed marker sequence is
// compared with a reference interpreter that encodes the property statement.
// Disagreements are reduced to the minimal failing programs, each of which is
// confirmed in a fresh `ego run` process before it is reported.
package main

import (
	"fmt"
	"os"
	"path/filepath"
	"runtime"
	"sort"
	"strings"
	"sync"
	"sync/atomic"
	"time"

	"github.com/tucats/ego/internal/verifrt/egobatch"
	"github.com/tucats/ego/internal/verifrt/report"
)

func fatal(f string, a ...any) { report.Fatal(f, a...) }

// sweep is one exhaustive pass: all programs up to maxSize in one form, at one
// optimizer level, in one concrete spelling.
type sweep struct {
	Name     string  `json:"name"`
	Guarded  bool    `json:"guarded"`
	Opt      int     `json:"opt"`
	V        Variant `json:"variant"`
	MaxSize  int     `json:"max_size"`
	MaxDepth int     `json:"max_depth"`
	MaxFuncs int     `json:"max_funcs"`
	// AbortFrom > 0: from this size on only the programs the model expects to be
	// stopped by an uncaught error or panic are run (bare form only).
	AbortFrom int `json:"abort_expected_only_from_size,omitempty"`
}

type witness struct {
	Sweep    sweep    `json:"sweep"`
	Key      string   `json:"program"`
	Cell     string   `json:"cell"`
	Expected []string `json:"expected_trace"`
	Actual   []string `json:"actual_trace"`
	Output   string   `json:"fresh_process_output"`
	Source   string   `json:"source"`
}

type failure struct {
	key    string
	act    []string
	v      verdict
	died   string
	source string // "packed", "solo"
}

type sweepState struct {
	sw       sweep
	mu       sync.Mutex
	fails    map[string]*failure
	programs int64
}

var (
	rep         *report.R
	scratch     string
	panicCaught bool
	wpool       *pool
	fileSeq     atomic.Int64
	hazCount    [nHazards]atomic.Int64
	abortCount  atomic.Int64
	statusNoted atomic.Int64
	packRuns    atomic.Int64
	soloRuns    atomic.Int64
	repacks     atomic.Int64
	maxInstr    atomic.Int64
)

func writeTemp(text string) string {
	p := filepath.Join(scratch, "src", fmt.Sprintf("t%d.ego", fileSeq.Add(1)))
	if err := os.WriteFile(p, []byte(text), 0o644); err != nil {
		fatal("write %s: %v", p, err)
	}

	return p
}

func countHazards(e *expectation) {
	for i := 0; i < nHazards; i++ {
		if e.haz&(1<<i) != 0 {
			hazCount[i].Add(1)
		}
	}

	if e.status != stOK {
		abortCount.Add(1)
	}
}

func cellOf(e *expectation, v verdict, died string) string {
	if died != "" {
		return hazardString(e.haz) + ":" + strings.ReplaceAll(died, " ", "-")
	}

	return fmt.Sprintf("%s:exp=%s:got=%s", hazardString(e.hazardsBefore(v.at)), v.expType, v.gotType)
}

// judge compares one program's printed tokens with the model.
func (st *sweepState) judge(p *Prog, e *expectation, act []string, src string) {
	v := match(e, act)
	if v.ok {
		return
	}

	k := p.Key()

	st.mu.Lock()
	st.fails[k] = &failure{key: k, act: act, v: v, source: src}
	st.mu.Unlock()
}

func (st *sweepState) died(p *Prog, why string) {
	k := p.Key()

	st.mu.Lock()
	st.fails[k] = &failure{key: k, died: why, source: "solo"}
	st.mu.Unlock()
}

// runSolo runs one program alone in a batch worker.
func (st *sweepState) runSolo(p *Prog, e *expectation) {
	path := writeTemp(soloSource(p, st.sw.Guarded, st.sw.V))
	res := wpool.run(path, st.sw.Opt)
	_ = os.Remove(path)

	soloRuns.Add(1)

	if res.died {
		if res.runaway {
			st.died(p, "runaway")
		} else {
			rep.Capped("a batch worker died or hung on " + p.Key() + " (" + res.why + "); no verdict for it")
		}

		return
	}

	if !st.sw.Guarded {
		if (e.status == stOK) != (res.err == "") {
			statusNoted.Add(1)
		}
	}

	st.judge(p, e, parseTokens(res.out), "solo")
}

// runPack runs a list of guarded programs in one packed file; programs the
// pack never reached (an earlier one stopped the file) are packed again.
func (st *sweepState) runPack(ps []*Prog, es []*expectation) {
	for len(ps) > 0 {
		if len(ps) == 1 {
			st.runSolo(ps[0], es[0])

			return
		}

		path := writeTemp(packedSource(ps, st.sw.V))
		res := wpool.run(path, st.sw.Opt)
		_ = os.Remove(path)

		packRuns.Add(1)

		if res.died {
			// Find the culprit by running every program of the pack alone.
			for i := range ps {
				st.runSolo(ps[i], es[i])
			}

			return
		}

		toks, began, ended := splitPacked(res.out, len(ps))

		var (
			restP []*Prog
			restE []*expectation
		)

		for i := range ps {
			if !began[i] {
				restP = append(restP, ps[i])
				restE = append(restE, es[i])

				continue
			}

			if !ended[i] {
				// this one stopped the file: judge it on what it printed, alone.
				st.runSolo(ps[i], es[i])

				continue
			}

			st.judge(ps[i], es[i], toks[i], "packed")
		}

		if len(restP) == len(ps) {
			// nothing ran at all (compile error?): never a verdict.
			fatal("packed file produced no output for any program; first program %s; output: %.400s / err %s", ps[0].Key(), res.out, res.err)
		}

		if len(restP) > 0 {
			repacks.Add(1)
		}

		ps, es = restP, restE
	}
}

var packSize = 24

func (st *sweepState) runAll(en *enumerator) {
	type batch struct{ keys []string }

	ch := make(chan batch, 64)

	var wg sync.WaitGroup

	nw := runtime.NumCPU() + 2

	for i := 0; i < nw; i++ {
		wg.Add(1)

		go func() {
			defer wg.Done()

			for b := range ch {
				ps := make([]*Prog, len(b.keys))
				es := make([]*expectation, len(b.keys))

				for i, k := range b.keys {
					p, err := Parse(k)
					if err != nil {
						fatal("internal: %v", err)
					}

					ps[i] = p
					es[i] = expect(p, st.sw.Guarded, panicCaught)
					countHazards(es[i])
					rep.Distinct(st.sw.Name + "|" + k)
				}

				rep.Eval(len(b.keys))
				atomic.AddInt64(&st.programs, int64(len(b.keys)))

				if st.sw.Guarded {
					st.runPack(ps, es)
				} else {
					for i := range ps {
						st.runSolo(ps[i], es[i])
					}
				}
			}
		}()
	}

	per := packSize
	if !st.sw.Guarded {
		per = 16
	}

	var cur []string

	nSample := 0

	for size := 1; size <= st.sw.MaxSize; size++ {
		en.programs(size, st.sw.MaxDepth, st.sw.MaxFuncs, func(key string) {
			if st.sw.AbortFrom > 0 && size >= st.sw.AbortFrom {
				p, _ := Parse(key)
				if expect(p, st.sw.Guarded, panicCaught).status == stOK {
					return
				}
			}

			cur = append(cur, key)

			if size >= 4 && nSample < 1 && strings.Contains(key, "T{") && strings.Contains(key, ";") {
				nSample++

				p, _ := Parse(key)
				e := expect(p, st.sw.Guarded, panicCaught)
				rep.Sample(map[string]any{"sweep": st.sw.Name, "program": key, "expected_trace": e.strings()})
			}

			if len(cur) == per {
				ch <- batch{cur}
				cur = nil
			}
		})
	}

	if len(cur) > 0 {
		ch <- batch{cur}
	}

	close(ch)
	wg.Wait()
}

// confirm re-runs one failing program alone in a fresh `ego run` process.
func (st *sweepState) confirm(key string) (bool, *witness) {
	p, err := Parse(key)
	if err != nil {
		fatal("internal: %v", err)
	}

	e := expect(p, st.sw.Guarded, panicCaught)
	src := soloSource(p, st.sw.Guarded, st.sw.V)
	path := writeTemp(src)
	res := fresh(scratch, path, st.sw.Opt)
	_ = os.Remove(path)

	w := &witness{Sweep: st.sw, Key: key, Expected: e.strings(), Source: src}

	out := strings.ReplaceAll(res.out, filepath.Base(path), "FILE.ego")
	if len(out) > 1500 {
		out = out[:1500] + "…"
	}

	w.Output = out

	if res.died {
		// a watchdog is never a verdict
		rep.Capped("fresh process for " + key + ": " + res.why)

		return false, w
	}

	act := parseTokens(res.out)
	w.Actual = act

	v := match(e, act)
	if v.ok {
		return false, w
	}

	w.Cell = cellOf(e, v, "")

	return true, w
}

// analyse reduces the failing set of a sweep to its minimal programs, confirms
// those in fresh processes and reports one violation per failing program under
// the cell of its minimal ancestor.
func (st *sweepState) analyse() {
	keys := make([]string, 0, len(st.fails))
	for k := range st.fails {
		keys = append(keys, k)
	}

	sort.Slice(keys, func(i, j int) bool {
		if len(keys[i]) != len(keys[j]) {
			return len(keys[i]) < len(keys[j])
		}

		return keys[i] < keys[j]
	})

	shr := map[string][]string{}

	for _, k := range keys {
		p, _ := Parse(k)

		var in []string

		for _, s := range p.shrinks(st.sw.MaxDepth) {
			if _, ok := st.fails[s]; ok {
				in = append(in, s)
			}
		}

		sort.Strings(in)
		shr[k] = in
	}

	confirmed := map[string]*witness{}
	refuted := map[string]bool{}

	isMinimal := func(k string) bool {
		for _, s := range shr[k] {
			if !refuted[s] {
				return false
			}
		}

		return true
	}

	for {
		var todo []string

		for _, k := range keys {
			if refuted[k] || confirmed[k] != nil {
				continue
			}

			if isMinimal(k) {
				todo = append(todo, k)
			}
		}

		if len(todo) == 0 {
			break
		}

		var (
			wg sync.WaitGroup
			mu sync.Mutex
		)

		for _, k := range todo {
			wg.Add(1)

			go func(k string) {
				defer wg.Done()

				ok, w := st.confirm(k)

				mu.Lock()
				defer mu.Unlock()

				rep.Add("fresh_process_confirmations", 1)

				if ok {
					confirmed[k] = w
				} else {
					refuted[k] = true

					rep.Add("disagreements_not_reproduced_in_fresh_process", 1)
				}
			}(k)
		}

		wg.Wait()
	}

	// cell of every failing program = cell of its (first) minimal ancestor
	cell := map[string]string{}

	var find func(k string) string

	find = func(k string) string {
		if c, ok := cell[k]; ok {
			return c
		}

		c := ""

		if w := confirmed[k]; w != nil {
			c = w.Cell
		} else if !refuted[k] {
			for _, s := range shr[k] {
				if !refuted[s] {
					c = find(s)
					if c != "" {
						break
					}
				}
			}
		}

		cell[k] = c

		return c
	}

	for _, k := range keys {
		c := find(k)
		if c == "" {
			continue
		}

		p, _ := Parse(k)

		if w := confirmed[k]; w != nil {
			exp, got := "", ""
			if len(w.Expected) > 0 {
				exp = strings.Join(w.Expected, " ")
			}

			got = strings.Join(w.Actual, " ")

			rep.Violation(c, p.Size(), w, fmt.Sprintf("program %s (%s, -o %d, %s): printed trace [%s] but the statement requires [%s]", k, formName(st.sw.Guarded), st.sw.Opt, st.sw.V, got, exp))
			rep.Add("minimal_failing_programs", 1)
		} else {
			rep.Violation(c, 1000+p.Size(), map[string]any{"sweep": st.sw, "program": k}, "contains a smaller failing program")
			rep.Add("non_minimal_failing_programs", 1)
		}
	}
}

func formName(g bool) string {
	if g {
		return "guarded"
	}

	return "bare"
}

func probePanicCaught() bool {
	src := `@extensions true
package main

import "fmt"

func f() {
	defer func() {
		if recover() != nil {
			fmt.Println("PASSED-THROUGH")
		}
	}()
	try {
		panic("p")
	} catch {
		fmt.Println("CAUGHT")
	}
}

func main() {
	f()
	fmt.Println("END")
}
`
	path := writeTemp(src)
	res := fresh(scratch, path, 0)

	switch {
	case strings.Contains(res.out, "CAUGHT") && !strings.Contains(res.out, "PASSED-THROUGH"):
		return true
	case strings.Contains(res.out, "PASSED-THROUGH") && !strings.Contains(res.out, "CAUGHT"):
		return false
	}

	fatal("probe program gave neither answer: %q (%s %s)", res.out, res.err, res.why)

	return false
}

func sweepsFor(thorough bool) []sweep {
	v0 := Variant{}
	if !thorough {
		return []sweep{
			{Name: "guarded-o0", Guarded: true, Opt: 0, V: v0, MaxSize: 5, MaxDepth: 3, MaxFuncs: 3},
			{Name: "bare-o0", Guarded: false, Opt: 0, V: v0, MaxSize: 4, MaxDepth: 3, MaxFuncs: 3},
			{Name: "guarded-o2", Guarded: true, Opt: 2, V: v0, MaxSize: 4, MaxDepth: 3, MaxFuncs: 3},
			{Name: "bare-o2", Guarded: false, Opt: 2, V: v0, MaxSize: 3, MaxDepth: 3, MaxFuncs: 3},
			{Name: "guarded-o0-index", Guarded: true, Opt: 0, V: Variant{Raise: 1}, MaxSize: 4, MaxDepth: 3, MaxFuncs: 3},
			{Name: "guarded-o0-throw", Guarded: true, Opt: 0, V: Variant{Raise: 2}, MaxSize: 4, MaxDepth: 3, MaxFuncs: 3},
			{Name: "guarded-o0-catchvar", Guarded: true, Opt: 0, V: Variant{CatchVar: true}, MaxSize: 4, MaxDepth: 3, MaxFuncs: 3},
			{Name: "guarded-o0-deferfn", Guarded: true, Opt: 0, V: Variant{DeferFn: true}, MaxSize: 4, MaxDepth: 3, MaxFuncs: 3},
			{Name: "guarded-o0-defer-named", Guarded: true, Opt: 0, V: Variant{DeferNamed: 1}, MaxSize: 4, MaxDepth: 3, MaxFuncs: 3},
			{Name: "guarded-o0-defer-named-arg", Guarded: true, Opt: 0, V: Variant{DeferNamed: 2}, MaxSize: 4, MaxDepth: 3, MaxFuncs: 3},
			{Name: "guarded-o0-defer-method", Guarded: true, Opt: 0, V: Variant{DeferNamed: 3}, MaxSize: 4, MaxDepth: 3, MaxFuncs: 3},
		}
	}

	return []sweep{
		{Name: "guarded-o0", Guarded: true, Opt: 0, V: v0, MaxSize: 5, MaxDepth: 4, MaxFuncs: 3},
		{Name: "guarded-o2", Guarded: true, Opt: 2, V: v0, MaxSize: 5, MaxDepth: 4, MaxFuncs: 3},
		{Name: "guarded-o0-throw-catchvar-deferfn", Guarded: true, Opt: 0, V: Variant{Raise: 2, CatchVar: true, DeferFn: true}, MaxSize: 5, MaxDepth: 4, MaxFuncs: 3},
		{Name: "bare-o0", Guarded: false, Opt: 0, V: v0, MaxSize: 5, MaxDepth: 4, MaxFuncs: 3, AbortFrom: 5},
		{Name: "bare-o2", Guarded: false, Opt: 2, V: v0, MaxSize: 4, MaxDepth: 4, MaxFuncs: 3},
		{Name: "guarded-o0-index", Guarded: true, Opt: 0, V: Variant{Raise: 1}, MaxSize: 4, MaxDepth: 4, MaxFuncs: 3},
		{Name: "guarded-o0-throw", Guarded: true, Opt: 0, V: Variant{Raise: 2}, MaxSize: 4, MaxDepth: 4, MaxFuncs: 3},
		{Name: "guarded-o0-catchvar", Guarded: true, Opt: 0, V: Variant{CatchVar: true}, MaxSize: 4, MaxDepth: 4, MaxFuncs: 3},
		{Name: "guarded-o0-deferfn", Guarded: true, Opt: 0, V: Variant{DeferFn: true}, MaxSize: 4, MaxDepth: 4, MaxFuncs: 3},
		{Name: "guarded-o0-defer-named", Guarded: true, Opt: 0, V: Variant{DeferNamed: 1}, MaxSize: 4, MaxDepth: 4, MaxFuncs: 3},
		{Name: "guarded-o0-defer-named-arg", Guarded: true, Opt: 0, V: Variant{DeferNamed: 2}, MaxSize: 4, MaxDepth: 4, MaxFuncs: 3},
		{Name: "guarded-o0-defer-method", Guarded: true, Opt: 0, V: Variant{DeferNamed: 3}, MaxSize: 4, MaxDepth: 4, MaxFuncs: 3},
		{Name: "guarded-o2-defer-named", Guarded: true, Opt: 2, V: Variant{DeferNamed: 1}, MaxSize: 4, MaxDepth: 4, MaxFuncs: 3},
		{Name: "bare-o0-defer-named-arg", Guarded: false, Opt: 0, V: Variant{DeferNamed: 2}, MaxSize: 3, MaxDepth: 4, MaxFuncs: 3},
	}
}

func main() {
	if len(os.Args) > 1 && os.Args[1] == "worker" {
		egobatch.WorkerMain()

		return
	}

	if len(os.Args) > 2 && os.Args[1] == "dump" {
		// debugging aid: print the source of one program key (solo, guarded)
		p, err := Parse(os.Args[2])
		if err != nil {
			fatal("%v", err)
		}

		fmt.Print(soloSource(p, len(os.Args) > 3 && os.Args[3] == "guarded", Variant{}))
		fmt.Println("// expected:", expect(p, len(os.Args) > 3 && os.Args[3] == "guarded", false).strings())

		return
	}

	if len(os.Args) > 4 && os.Args[1] == "count" {
		var size, depth, nf int

		fmt.Sscan(os.Args[2], &size)
		fmt.Sscan(os.Args[3], &depth)
		fmt.Sscan(os.Args[4], &nf)

		en := newEnumerator()
		tot := 0

		for sz := 1; sz <= size; sz++ {
			n := 0
			en.programs(sz, depth, nf, func(string) { n++ })
			tot += n
			fmt.Printf("size %d: %d programs (cumulative %d)\n", sz, n, tot)
		}

		return
	}

	if len(os.Args) > 2 && os.Args[1] == "gocheck" {
		var size int

		fmt.Sscan(os.Args[2], &size)

		scratch = os.Getenv("VERIF_SCRATCH")
		n, note := goCrossCheck(newEnumerator(), size, 4)
		fmt.Println("compared", n, note)

		return
	}

	if len(os.Args) > 2 && os.Args[1] == "dumppack" {
		var n, size int

		fmt.Sscan(os.Args[2], &size)
		fmt.Sscan(os.Args[3], &n)

		var ps []*Prog

		newEnumerator().programs(size, 3, 3, func(k string) {
			if len(ps) < n {
				p, _ := Parse(k)
				ps = append(ps, p)
			}
		})
		fmt.Print(packedSource(ps, Variant{}))

		return
	}

	rep = report.New("exploration")
	scratch = os.Getenv("VERIF_SCRATCH")

	if scratch == "" {
		fatal("VERIF_SCRATCH is not set")
	}

	_ = os.MkdirAll(filepath.Join(scratch, "src"), 0o755)

	panicCaught = probePanicCaught()

	if rep.Replay != "" {
		var w witness
		if err := report.LoadReplay(rep.Replay, &w); err != nil {
			fatal("%v", err)
		}

		st := &sweepState{sw: w.Sweep, fails: map[string]*failure{}}

		bad, nw := st.confirm(w.Key)
		rep.Eval(1)

		if bad {
			rep.Violation(nw.Cell, 1, nw, "replayed program still prints a trace the statement does not allow")
		}

		rep.Finish()
	}

	sweeps := sweepsFor(rep.Thorough())

	// development aids; a run restricted this way says so in its evidence.
	if only := os.Getenv("C10_ONLY"); only != "" {
		var keep []sweep

		for _, sw := range sweeps {
			if strings.Contains(","+only+",", ","+sw.Name+",") {
				keep = append(keep, sw)
			}
		}

		sweeps = keep

		rep.Capped("C10_ONLY=" + only)
	}

	if ps := os.Getenv("C10_PACK"); ps != "" {
		fmt.Sscan(ps, &packSize)
		rep.Capped("C10_PACK=" + ps)
	}

	if ms := os.Getenv("C10_MAXSIZE"); ms != "" {
		var n int

		fmt.Sscan(ms, &n)

		for i := range sweeps {
			if sweeps[i].MaxSize > n {
				sweeps[i].MaxSize = n
			}
		}

		rep.Capped("C10_MAXSIZE=" + ms)
	}

	var err error

	wpool, err = newPool(scratch, runtime.NumCPU())
	if err != nil {
		fatal("cannot start batch workers: %v", err)
	}

	en := newEnumerator()
	per := map[string]any{}

	for _, sw := range sweeps {
		st := &sweepState{sw: sw, fails: map[string]*failure{}}
		t0 := time.Now()
		st.runAll(en)
		fmt.Fprintf(os.Stderr, "sweep %s: %d programs, %d disagreeing, %.1fs (packs %d solo %d repacks %d)\n", sw.Name, st.programs, len(st.fails), time.Since(t0).Seconds(), packRuns.Load(), soloRuns.Load(), repacks.Load())
		per[sw.Name] = map[string]any{"programs": st.programs, "disagreeing_in_batch": len(st.fails), "max_statements": sw.MaxSize, "max_depth": sw.MaxDepth, "max_functions": sw.MaxFuncs}
		t0 = time.Now()
		st.analyse()
		fmt.Fprintf(os.Stderr, "sweep %s: analysed in %.1fs\n", sw.Name, time.Since(t0).Seconds())
	}

	wpool.close()

	// The model itself is checked against the Go toolchain on the part of the
	// language Go can express (thorough tier: needs a cold Go build).
	if rep.Thorough() && os.Getenv("C10_ONLY") == "" {
		n, note := goCrossCheck(en, 4, 4)
		rep.Set("model_traces_equal_to_go_reference", n)

		if note != "" {
			rep.Set("go_reference_note", note)
		}
	}

	rep.Rule("every program of the trace language {X raise, P panic, R return, b break, c continue, d defer print, r defer recover+print, 1/2 call, T try/catch, U try without catch, L two-iteration loop, ? if on 2nd iteration} with at most N statements, 3 functions and nesting depth D (terminal statements last in their block, every function reachable, at least one X or P), once per sweep (form guarded/bare x optimizer level x spelling variant: raise as division/index/throw, catch with variable, deferred calls as built-in call/function literal/named function/named function with argument/method value); distinct = (sweep, program); every one contains a raise or a panic and is executed through the ego run front end")
	rep.Assume(
		"the reference interpreter in harness/c10trace/model.go is the reading of the property statement; deferred calls of functions unwound by a runtime error may run or not (statement silent)",
		fmt.Sprintf("whether try/catch catches panic() is not stated; the model follows the implementation's answer on a probe program: caught=%v", panicCaught),
		"error texts, exit status and panic banners are not judged, only the marker trace",
		"bulk runs repeat main.go's app.Run in batch worker processes (guarded programs packed "+fmt.Sprint(packSize)+" per file); every reported cell's minimal program is re-run alone in a fresh `ego run` process",
		"non-minimal failing programs are counted from the batch run only",
	)

	hz := map[string]int64{}
	for i := 0; i < nHazards; i++ {
		hz[hazardNames[i]] = hazCount[i].Load()
	}

	rep.Set("sweeps", per)
	rep.Set("programs_exercising_feature", hz)
	rep.Set("programs_expected_to_abort", abortCount.Load())
	rep.Set("packed_file_runs", packRuns.Load())
	rep.Set("solo_batch_runs", soloRuns.Load())
	rep.Set("packs_cut_short_and_repacked", repacks.Load())
	rep.Set("exit_status_differences_noted_not_judged", statusNoted.Load())
	rep.Set("batch_worker_restarts", wpool.restarts())
	rep.Set("panic_caught_by_try", panicCaught)
	rep.Finish()
}

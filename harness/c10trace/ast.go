package main

import (
	"fmt"
	"strings"
)

// The trace language. A program is up to three functions (main, f1, f2; calls
// only go "downwards": main -> f1,f2 ; f1 -> f2, so every program terminates).
// A statement is one of
//
//	X      raise a catchable runtime error          (terminal: last in its block)
//	P      panic("p")                               (terminal)
//	R      return                                   (terminal)
//	b c    break / continue of the innermost loop   (terminal, only inside a loop)
//	d      defer <print D id>
//	r      defer func(){ recover(); <print R id> }()
//	1 2    call f1 / f2
//	T{..}{..}  try { body } catch { handler }
//	U{..}      try { body }            (no catch clause)
//	L{..}      for i := 0; i < 2; i++ { body }   (the body may be empty)
//	?{..}      if i == 1 { body }      (only inside a loop; i of the innermost loop)
//
// The printer adds a marker at the start of every block and after every
// statement, so the printed trace shows exactly which way control went.
type Stmt struct {
	K     byte
	Body  []*Stmt
	Catch []*Stmt
	ID    int
}

// Prog is a whole program: F[0] is main.
type Prog struct {
	F [][]*Stmt
}

func isTerminal(k byte) bool {
	return k == 'X' || k == 'P' || k == 'R' || k == 'b' || k == 'c'
}

func isCompound(k byte) bool { return k == 'T' || k == 'U' || k == 'L' || k == '?' }

func blockKey(sb *strings.Builder, b []*Stmt) {
	for _, s := range b {
		sb.WriteByte(s.K)

		if isCompound(s.K) {
			sb.WriteByte('{')
			blockKey(sb, s.Body)
			sb.WriteByte('}')

			if s.K == 'T' {
				sb.WriteByte('{')
				blockKey(sb, s.Catch)
				sb.WriteByte('}')
			}
		}
	}
}

// Key is the canonical compact spelling, e.g. "T{L{T{b}{}}X}{};dX".
func (p *Prog) Key() string {
	var sb strings.Builder

	for i, f := range p.F {
		if i > 0 {
			sb.WriteByte(';')
		}

		blockKey(&sb, f)
	}

	return sb.String()
}

type parser struct {
	s string
	i int
}

func (ps *parser) block() ([]*Stmt, error) {
	var out []*Stmt

	for ps.i < len(ps.s) {
		c := ps.s[ps.i]
		if c == '}' || c == ';' {
			break
		}

		ps.i++

		st := &Stmt{K: c}

		switch c {
		case 'X', 'P', 'R', 'b', 'c', 'd', 'r', '1', '2':
		case 'T', 'U', 'L', '?':
			var err error

			if st.Body, err = ps.braced(); err != nil {
				return nil, err
			}

			if c == 'T' {
				if st.Catch, err = ps.braced(); err != nil {
					return nil, err
				}
			}
		default:
			return nil, fmt.Errorf("bad statement %q at %d in %q", c, ps.i-1, ps.s)
		}

		out = append(out, st)
	}

	return out, nil
}

func (ps *parser) braced() ([]*Stmt, error) {
	if ps.i >= len(ps.s) || ps.s[ps.i] != '{' {
		return nil, fmt.Errorf("expected { at %d in %q", ps.i, ps.s)
	}

	ps.i++

	b, err := ps.block()
	if err != nil {
		return nil, err
	}

	if ps.i >= len(ps.s) || ps.s[ps.i] != '}' {
		return nil, fmt.Errorf("expected } at %d in %q", ps.i, ps.s)
	}

	ps.i++

	return b, nil
}

// Parse reads the compact spelling back.
func Parse(key string) (*Prog, error) {
	p := &Prog{}

	for _, part := range strings.Split(key, ";") {
		ps := &parser{s: part}

		b, err := ps.block()
		if err != nil {
			return nil, err
		}

		if ps.i != len(part) {
			return nil, fmt.Errorf("trailing text at %d in %q", ps.i, part)
		}

		p.F = append(p.F, b)
	}

	p.number()

	return p, nil
}

func (p *Prog) number() {
	n := 0

	var walk func(b []*Stmt)

	walk = func(b []*Stmt) {
		for _, s := range b {
			n++
			s.ID = n
			walk(s.Body)
			walk(s.Catch)
		}
	}

	for _, f := range p.F {
		walk(f)
	}
}

func blockSize(b []*Stmt) int {
	n := 0

	for _, s := range b {
		n += 1 + blockSize(s.Body) + blockSize(s.Catch)
	}

	return n
}

// Size is the number of statements of the program.
func (p *Prog) Size() int {
	n := 0
	for _, f := range p.F {
		n += blockSize(f)
	}

	return n
}

func blockDepth(b []*Stmt) int {
	d := 0

	for _, s := range b {
		if isCompound(s.K) {
			if x := 1 + blockDepth(s.Body); x > d {
				d = x
			}

			if x := 1 + blockDepth(s.Catch); x > d {
				d = x
			}
		}
	}

	return d
}

// valid reports whether the program is a member of the enumerated language
// (used for the shrink steps, which may produce non-members).
func (p *Prog) valid(maxDepth int) bool {
	if len(p.F) < 1 || len(p.F) > 3 {
		return false
	}

	called := make([]bool, 3)
	hasRaise := false

	var ok func(b []*Stmt, fn int, loop bool) bool

	ok = func(b []*Stmt, fn int, loop bool) bool {
		for i, s := range b {
			if isTerminal(s.K) && i != len(b)-1 {
				return false
			}

			switch s.K {
			case 'X', 'P':
				hasRaise = true
			case 'b', 'c':
				if !loop {
					return false
				}
			case '1', '2':
				k := int(s.K - '0')
				if k <= fn || k >= len(p.F) {
					return false
				}

				called[k] = true
			case 'T', 'U':
				if len(s.Body) == 0 || !ok(s.Body, fn, loop) || !ok(s.Catch, fn, loop) {
					return false
				}
			case 'L':
				if !ok(s.Body, fn, true) {
					return false
				}
			case '?':
				if !loop || len(s.Body) == 0 || !ok(s.Body, fn, loop) {
					return false
				}
			}
		}

		return true
	}

	for fn, f := range p.F {
		if len(f) == 0 || !ok(f, fn, false) || blockDepth(f) > maxDepth {
			return false
		}
	}

	// Every function is called from a function that is itself reachable. f1 can
	// only be called from main; f2 from main or f1 (f1 exists whenever f2 does).
	for k := 1; k < len(p.F); k++ {
		if !called[k] {
			return false
		}
	}

	return hasRaise
}

func cloneBlock(b []*Stmt) []*Stmt {
	out := make([]*Stmt, len(b))
	for i, s := range b {
		out[i] = &Stmt{K: s.K, Body: cloneBlock(s.Body), Catch: cloneBlock(s.Catch)}
	}

	return out
}

// ---------------------------------------------------------------------------
// Enumeration: every block of exactly a given size, as compact strings.

type blockCtx struct {
	size, depth int
	loop        bool
	fn, nf      int
}

type enumerator struct {
	memo map[blockCtx][]string
}

func newEnumerator() *enumerator { return &enumerator{memo: map[blockCtx][]string{}} }

// nonTerminal returns every non-terminal statement of exactly size a.
func (e *enumerator) nonTerminal(a int, c blockCtx) []string {
	if a == 1 {
		out := []string{"d", "r"}
		for k := c.fn + 1; k < c.nf; k++ {
			out = append(out, string(rune('0'+k)))
		}

		// the only compound with an empty body: a loop that just iterates
		if c.depth > 0 {
			out = append(out, "L{}")
		}

		return out
	}

	if c.depth == 0 {
		return nil
	}

	var out []string

	in := c
	in.depth--

	for b := 1; b <= a-1; b++ {
		in.size = b
		bodies := e.blocks(in)
		in.size = a - 1 - b
		catches := e.blocks(in)

		for _, x := range bodies {
			for _, y := range catches {
				out = append(out, "T{"+x+"}{"+y+"}")
			}
		}
	}

	in.size = a - 1

	for _, x := range e.blocks(in) {
		out = append(out, "U{"+x+"}")
	}

	lp := in
	lp.loop = true

	for _, x := range e.blocks(lp) {
		out = append(out, "L{"+x+"}")
	}

	if c.loop {
		for _, x := range e.blocks(in) {
			out = append(out, "?{"+x+"}")
		}
	}

	return out
}

// blocks returns every block of exactly c.size statements.
func (e *enumerator) blocks(c blockCtx) []string {
	if c.size == 0 {
		return []string{""}
	}

	if v, ok := e.memo[c]; ok {
		return v
	}

	var out []string

	for a := 1; a <= c.size; a++ {
		rest := c
		rest.size = c.size - a

		tails := e.blocks(rest)

		for _, h := range e.nonTerminal(a, c) {
			for _, t := range tails {
				out = append(out, h+t)
			}
		}
	}

	if c.size == 1 {
		out = append(out, "X", "P", "R")
		if c.loop {
			out = append(out, "b", "c")
		}
	}

	e.memo[c] = out

	return out
}

// programs calls f with the key of every program of exactly the given total
// size with at most maxFuncs functions and nesting depth <= depth: every
// defined function is called from a reachable one and the program holds at
// least one X or P.
func (e *enumerator) programs(size, depth, maxFuncs int, f func(key string)) {
	has := func(s string) bool { return strings.ContainsAny(s, "XP") }

	for nf := 1; nf <= maxFuncs; nf++ {
		switch nf {
		case 1:
			for _, m := range e.blocks(blockCtx{size, depth, false, 0, 1}) {
				if has(m) {
					f(m)
				}
			}
		case 2:
			for a := 1; a < size; a++ {
				f1s := e.blocks(blockCtx{size - a, depth, false, 1, 2})

				for _, m := range e.blocks(blockCtx{a, depth, false, 0, 2}) {
					if !strings.Contains(m, "1") {
						continue
					}

					for _, g := range f1s {
						if has(m) || has(g) {
							f(m + ";" + g)
						}
					}
				}
			}
		case 3:
			for a := 1; a < size-1; a++ {
				for b := 1; a+b < size; b++ {
					f1s := e.blocks(blockCtx{b, depth, false, 1, 3})
					f2s := e.blocks(blockCtx{size - a - b, depth, false, 2, 3})

					for _, m := range e.blocks(blockCtx{a, depth, false, 0, 3}) {
						if !strings.Contains(m, "1") {
							continue
						}

						m2 := strings.Contains(m, "2")

						for _, g := range f1s {
							if !m2 && !strings.Contains(g, "2") {
								continue
							}

							for _, h := range f2s {
								if has(m) || has(g) || has(h) {
									f(m + ";" + g + ";" + h)
								}
							}
						}
					}
				}
			}
		}
	}
}

// ---------------------------------------------------------------------------
// Shrinking (used only to pick the minimal failing programs that name cells).

// shrinks returns the keys of the valid programs one simplification step away:
// a statement (with its subtree) deleted, a compound replaced by its body or
// handler, or a call replaced by the callee's statements; functions that are
// no longer called are dropped.
func (p *Prog) shrinks(maxDepth int) []string {
	seen := map[string]bool{}

	var out []string

	try := func(q *Prog) {
		q = q.cleanup()
		if q == nil || !q.valid(maxDepth) {
			return
		}

		k := q.Key()
		if !seen[k] {
			seen[k] = true

			out = append(out, k)
		}
	}

	// Enumerate edit positions by walking a fresh clone for every edit.
	type edit struct {
		pos  int
		mode int // 0 delete, 1 unwrap body, 2 unwrap catch, 3 inline call
	}

	total := p.Size()

	for pos := 1; pos <= total; pos++ {
		for mode := 0; mode < 4; mode++ {
			q := &Prog{}
			for _, f := range p.F {
				q.F = append(q.F, cloneBlock(f))
			}

			q.number()

			done := false

			var apply func(b []*Stmt) []*Stmt

			apply = func(b []*Stmt) []*Stmt {
				for i, s := range b {
					if s.ID == pos {
						var repl []*Stmt

						switch mode {
						case 0:
							repl = nil
						case 1:
							if !isCompound(s.K) {
								return b
							}

							repl = s.Body
						case 2:
							if s.K != 'T' {
								return b
							}

							repl = s.Catch
						case 3:
							if s.K != '1' && s.K != '2' {
								return b
							}

							k := int(s.K - '0')
							if k >= len(p.F) {
								return b
							}

							repl = cloneBlock(p.F[k])
						}

						done = true

						nb := append([]*Stmt{}, b[:i]...)
						nb = append(nb, repl...)
						nb = append(nb, b[i+1:]...)

						return nb
					}

					s.Body = apply(s.Body)
					s.Catch = apply(s.Catch)
				}

				return b
			}

			for i := range q.F {
				q.F[i] = apply(q.F[i])
			}

			if done {
				try(q)
			}
		}
	}

	return out
}

// cleanup truncates blocks after a terminal statement, drops functions that
// are no longer called and renumbers f2 -> f1 when f1 disappeared.
func (p *Prog) cleanup() *Prog {
	var trunc func(b []*Stmt) []*Stmt

	trunc = func(b []*Stmt) []*Stmt {
		for i, s := range b {
			s.Body = trunc(s.Body)
			s.Catch = trunc(s.Catch)

			if isTerminal(s.K) {
				return b[:i+1]
			}
		}

		return b
	}

	for i := range p.F {
		p.F[i] = trunc(p.F[i])
	}

	for {
		called := make([]bool, len(p.F))

		var scan func(b []*Stmt)

		scan = func(b []*Stmt) {
			for _, s := range b {
				if s.K == '1' || s.K == '2' {
					if k := int(s.K - '0'); k < len(called) {
						called[k] = true
					}
				}

				scan(s.Body)
				scan(s.Catch)
			}
		}

		// only calls from reachable functions count: main, then f1 if called.
		scan(p.F[0])

		if len(p.F) > 1 && called[1] {
			scan(p.F[1])
		}

		drop := -1

		for k := 1; k < len(p.F); k++ {
			if !called[k] {
				drop = k

				break
			}
		}

		if drop < 0 {
			break
		}

		// remove function `drop`; calls to higher functions are renumbered.
		var ren func(b []*Stmt) []*Stmt

		ren = func(b []*Stmt) []*Stmt {
			var nb []*Stmt

			for _, s := range b {
				if s.K == byte('0'+drop) {
					continue
				}

				if (s.K == '1' || s.K == '2') && int(s.K-'0') > drop {
					s.K--
				}

				s.Body = ren(s.Body)
				s.Catch = ren(s.Catch)
				nb = append(nb, s)
			}

			return nb
		}

		var nf [][]*Stmt

		for k, f := range p.F {
			if k == drop {
				continue
			}

			nf = append(nf, ren(f))
		}

		p.F = nf
	}

	p.number()

	return p
}

package main

import (
	"fmt"
	"strings"
)

// exitKind is the way the innermost piece of a program ends. `stmts` is placed
// as the last statements of a function body (before its return statement).
type exitKind struct {
	name  string
	stmts string
}

var exitKinds = []exitKind{
	{"normal", ``},
	{"divide-by-zero", "z := 0\nfmt.Println ( 1 / z )"},
	{"index-out-of-range", "q := [ ] int { 1 }\nfmt.Println ( q [ 5 ] )"},
	{"panic-unrecovered", `panic ( "boom" )`},
	{"fail-directive", `@fail "boom"`},
	{"error-caught-by-try", "try {\nz := 0\nfmt.Println ( 1 / z )\n} catch ( e ) {\nfmt.Println ( \"caught\" , e )\n}"},
	{"panic-recovered", "defer func ( ) {\nr := recover ( )\nfmt.Println ( \"rec\" , r )\n} ( )\npanic ( \"boom\" )"},
	{"error-in-deferred-call", "defer func ( ) {\nz := 0\nfmt.Println ( 1 / z )\n} ( )"},
}

// caller is the way control reaches the piece that ends: directly, through an
// Ego call, or through a runtime function that re-enters the interpreter with
// an Ego callback. decls go before main, body is main's body; both contain
// the marker %K where the exit kind's statements go (exactly once over both).
type caller struct {
	name    string
	imports []string // packages a service file has to import for this shape
	decls   string
	body    string
}

var callers = []caller{
	{"main", nil, "", "fmt.Println ( \"start\" )\n%K"},
	{"called-function", nil,
		"func callee ( n int ) int {\n%K\nreturn n + 1\n}",
		"fmt.Println ( callee ( 1 ) )\nfmt.Println ( \"after\" )"},
	{"closure", nil, "",
		"c := 0\nf := func ( n int ) int {\nc = c + n\n%K\nreturn c\n}\nfmt.Println ( f ( 2 ) )"},
	{"deferred-call", nil, "",
		"defer func ( ) {\nfmt.Println ( \"deferred\" )\n%K\n} ( )\nfmt.Println ( \"body\" )"},
	{"sort.Slice-comparator", []string{"sort"}, "",
		"a := [ ] int { 5 , 3 , 8 , 1 , 9 , 2 , 7 }\nsort.Slice ( a , func ( i int , j int ) bool {\n%K\nreturn a [ i ] < a [ j ]\n} )\nfmt.Println ( a )"},
	{"sort.SliceStable-comparator", []string{"sort"}, "",
		"a := [ ] int { 5 , 3 , 8 , 1 , 9 , 2 , 7 }\nsort.SliceStable ( a , func ( i int , j int ) bool {\n%K\nreturn a [ i ] < a [ j ]\n} )\nfmt.Println ( a )"},
	{"sort.Search-predicate", []string{"sort"}, "",
		"a := [ ] int { 1 , 3 , 5 , 7 , 9 , 11 }\np := sort.Search ( len ( a ) , func ( i int ) bool {\n%K\nreturn a [ i ] >= 7\n} )\nfmt.Println ( p )"},
	{"String-method-via-Println", nil,
		"type Tag int\nfunc ( t Tag ) String ( ) string {\n%K\nreturn \"tag\"\n}",
		"var x Tag = 1\nfmt.Println ( x )\nfmt.Println ( \"after\" )"},
	{"String-method-via-Sprintf", nil,
		"type Tag int\nfunc ( t Tag ) String ( ) string {\n%K\nreturn \"tag\"\n}",
		"var x Tag = 1\ns := fmt.Sprintf ( \"%v|%v\" , x , x )\nfmt.Println ( s )"},
	{"goroutine-awaited-by-wait-directive", nil,
		"func work ( n int ) {\nfmt.Println ( \"w\" , n )\n%K\n}",
		"go work ( 1 )\ngo work ( 2 )\n@wait\nfmt.Println ( \"done\" )"},
	{"goroutine-awaited-by-channel", nil, "",
		"ch := make ( chan , 2 )\ngo func ( ) {\nch <- 1\n%K\n} ( )\nv := <- ch\n@wait\nfmt.Println ( v )"},
	{"goroutine-awaited-by-WaitGroup", []string{"sync"}, "",
		"var wg sync.WaitGroup\nwg.Add ( 1 )\ngo func ( ) {\nwg.Done ( )\n%K\n} ( )\nwg.Wait ( )\n@wait\nfmt.Println ( \"joined\" )"},
	{"tables.Find-predicate", []string{"tables"}, "",
		"t := tables.New ( \"Name\" , \"Age\" )\nt.AddRow ( \"Tom\" , 55 )\nt.AddRow ( \"Bob\" , 35 )\nt.AddRow ( \"Sue\" , 41 )\nrows := t.Find ( func ( name string , age string ) bool {\n%K\nreturn name != \"Bob\" && age != \"0\"\n} )\nfmt.Println ( rows )"},
}

// shape is one program form.
type shape struct {
	Name    string
	Imports []string
	Decls   string // declarations (types, functions) without main
	Body    string // the body of main
}

func fill(tmpl string, k exitKind) string {
	return strings.ReplaceAll(tmpl, "%K", k.stmts)
}

// simpleShapes: every caller x every exit kind.
func simpleShapes() []shape {
	var out []shape

	for _, c := range callers {
		for _, k := range exitKinds {
			out = append(out, shape{
				Name:    c.name + " / " + k.name,
				Imports: c.imports,
				Decls:   fill(c.decls, k),
				Body:    fill(c.body, k),
			})
		}
	}

	return out
}

// nestedShapes: a re-entering caller whose callback itself goes through a
// second caller before the exit kind is reached (thorough tier).
func nestedShapes() []shape {
	var out []shape

	inner := []struct {
		name, decls, call string
		imports           []string
	}{
		{"called-function", "func inner ( n int ) int {\n%K\nreturn n + 1\n}", "inner ( 1 )", nil},
		{"sort.Slice-comparator", "func inner ( n int ) int {\nb := [ ] int { 4 , 2 , 6 , 1 }\nsort.Slice ( b , func ( i int , j int ) bool {\n%K\nreturn b [ i ] < b [ j ]\n} )\nreturn b [ 0 ] + n\n}", "inner ( 1 )", []string{"sort"}},
		{"String-method", "type Label int\nfunc ( l Label ) String ( ) string {\n%K\nreturn \"label\"\n}\nfunc inner ( n int ) int {\nvar l Label = 2\nfmt.Println ( l )\nreturn n\n}", "inner ( 1 )", nil},
		// awaited through a channel: @wait inside a goroutine would wait for itself
		{"goroutine", "func spawned ( c chan , n int ) {\nc <- n\n%K\n}\nfunc inner ( n int ) int {\nc := make ( chan , 1 )\ngo spawned ( c , n )\nv := <- c\nreturn v\n}", "inner ( 1 )", nil},
	}

	for _, c := range callers {
		if c.name == "main" {
			continue
		}

		for _, in := range inner {
			for _, k := range exitKinds {
				outerK := exitKind{stmts: "fmt.Println ( " + in.call + " )"}

				imports := append(append([]string{}, c.imports...), in.imports...)

				out = append(out, shape{
					Name:    c.name + " > " + in.name + " / " + k.name,
					Imports: imports,
					Decls:   strings.TrimSpace(fill(in.decls, k) + "\n" + fill(c.decls, outerK)),
					Body:    fill(c.body, outerK),
				})
			}
		}
	}

	return out
}

// program renders the shape as a complete program for `ego run`.
func (s shape) program() string {
	var b strings.Builder

	for _, p := range s.Imports {
		if p == "sync" {
			b.WriteString("import \"sync\"\n")
		}
	}

	if s.Decls != "" {
		b.WriteString(s.Decls + "\n")
	}

	b.WriteString("func main ( ) {\n" + s.Body + "\n}\n")

	return b.String()
}

// code renders the shape for the run endpoint and the console: declarations,
// main, and a call of main.
func (s shape) code() string {
	return s.program() + "main ( )\n"
}

// service renders the shape as a service file for endpoint path.
func (s shape) service(path string) string {
	var b strings.Builder

	fmt.Fprintf(&b, "@endpoint get path=%q\n\nimport \"http\"\nimport \"fmt\"\n", path)

	seen := map[string]bool{}

	for _, p := range s.Imports {
		if !seen[p] {
			fmt.Fprintf(&b, "import %q\n", p)

			seen[p] = true
		}
	}

	if s.Decls != "" {
		b.WriteString("\n" + s.Decls + "\n")
	}

	b.WriteString("\nfunc serveBody ( ) {\n" + s.Body + "\n}\n")
	b.WriteString("\nfunc handler ( req http.Request , w * http.ResponseWriter ) {\nserveBody ( )\nw.WriteHeader ( 200 )\nw.Write ( \"served\" )\n}\n")

	return b.String()
}
